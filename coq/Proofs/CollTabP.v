(* The tie between the generated table Gen/CollT.v and the hand-written model of the collection containers
   (Model/Coll.v, to_item_collection of Model/Equal.v):
     1. the statement sequences of Model/CollTab.v, interpreted, compute ic_append_o / ic_remove_o / iris_append_o /
        sc_append_fs / to_ic_expect ... for all receivers and arguments (the four struct types by ONE proof per method,
        generic in the field);
     2. those are the functions of Model/Coll.v on the contents (ic_append, ic_remove, iris_append, ic_contains,
        iris_collection) and to_item_collection;
     3. for every table satisfying coll_table_ok the same holds of the table's meaning; with ItemCollection.Contains and
        IRIs.Contains read from their entries of Gen/ItemsEqT.v (builder b32). *)
From AP.Model Require Import Prelude Vocab Pred Layout IriEq Equal Coll TabEq GoBody CollTab.
From AP.Proofs Require Import TabEqP GoBodyP EqualP.
From AP.Model Require ItemsEqTab.
From AP.Proofs Require ItemsEqTabP.

(* ---------------------------------------------------------------- values *)
Lemma items_of_map l : items_of_vals (map GvItem l) = Some l.
Proof. induction l as [|x r IH]; [reflexivity|]. cbn [map items_of_vals]. rewrite IH. reflexivity. Qed.
Lemma iris_of_map l : iris_of_vals (map (fun x => GvItem (IIri false x)) l) = Some l.
Proof. induction l as [|x r IH]; [reflexivity|]. cbn [map iris_of_vals]. rewrite IH. reflexivity. Qed.

Lemma val_append_item p lo x :
  val_append (GvItem (IItems p lo)) [GvItem x] = Ok (GvItem (IItems false (Some (lst lo ++ [x])))).
Proof.
  unfold val_append. cbn [elems_of rebuild]. change [GvItem x] with (map GvItem [x]). rewrite <- map_app, items_of_map.
  reflexivity.
Qed.
Lemma val_append_iri p lo q s :
  val_append (GvItem (IIris p lo)) [GvItem (IIri q s)] = Ok (GvItem (IIris false (Some (lst lo ++ [s])))).
Proof.
  unfold val_append. cbn [elems_of rebuild].
  assert (forall l, iris_of_vals (map (fun x => GvItem (IIri false x)) l ++ [GvItem (IIri q s)]) = Some (l ++ [s])) as H.
  { induction l as [|y r IH]; [reflexivity|]. cbn [map app iris_of_vals]. rewrite IH. reflexivity. }
  rewrite H. reflexivity.
Qed.

Lemma zlen_nonneg {A} (l : list A) : (zlen l <? 0)%Z = false.
Proof. apply Z.ltb_ge. unfold zlen. lia. Qed.

Lemma val_append_items f s :
  val_append (GvItem (IItems false (Some f))) (map GvItem s) = Ok (GvItem (IItems false (Some (f ++ s)))).
Proof.
  unfold val_append. destruct s as [|x s]; cbn [map].
  - cbn [elems_of]. rewrite app_nil_r. reflexivity.
  - cbn [elems_of rebuild lst]. change (GvItem x :: map GvItem s) with (map GvItem (x :: s)).
    rewrite <- map_app, items_of_map. reflexivity.
Qed.

Lemma val_slice_items l a b : a <= b -> b <= length l ->
  val_slice (GvItem (IItems false (Some l))) (Z.of_nat a) (Z.of_nat b)
  = Ok (GvItem (IItems false (Some (firstn (b - a) (skipn a l))))).
Proof.
  intros Hab Hb. unfold val_slice. cbn [elems_of lst]. unfold zlen. rewrite map_length.
  replace (Z.of_nat a <? 0)%Z with false by (symmetry; apply Z.ltb_ge; lia).
  replace (Z.of_nat b <? Z.of_nat a)%Z with false by (symmetry; apply Z.ltb_ge; lia).
  replace (Z.of_nat (length l) <? Z.of_nat b)%Z with false by (symmetry; apply Z.ltb_ge; lia).
  cbn [orb]. rewrite !Nat2Z.id. rewrite skipn_map, firstn_map. cbn [rebuild]. rewrite items_of_map. reflexivity.
Qed.

Lemma zlen_cons_nz {A} (x : A) l : (zlen (x :: l) =? 0)%Z = false.
Proof. apply Z.eqb_neq. unfold zlen. cbn [length]. lia. Qed.

(* the index the Remove loop leaves in remIdx *)
Fixpoint scan (r : item) (i : nat) (z : Z) (q : list item) : Z :=
  match q with
  | [] => z
  | x :: q' => scan r (S i) (if items_eqb x r then Z.of_nat i else z) q'
  end.

Lemma scan_last r q : forall i z,
  scan r i z q = match g_last_idx item items_eqb q r with Some k => Z.of_nat (i + k) | None => z end.
Proof.
  induction q as [|x t IH]; intros i z; [reflexivity|].
  cbn [scan g_last_idx]. rewrite IH. destruct (g_last_idx item items_eqb t r) as [k|].
  - f_equal. lia.
  - destruct (items_eqb x r); [f_equal; lia|reflexivity].
Qed.

Lemma last_idx_bound {A} (eqA : A -> A -> bool) l r k : g_last_idx A eqA l r = Some k -> k < length l.
Proof.
  revert k. induction l as [|x t IH]; intros k H; [discriminate|]. cbn [g_last_idx] in H.
  destruct (g_last_idx A eqA t r) as [j|].
  - injection H as <-. cbn [length]. specialize (IH j eq_refl). lia.
  - destruct (eqA x r); [injection H as <-; cbn [length]; lia|discriminate].
Qed.

Lemma val_set_index_items p y r x n : length p = n ->
  val_set_index (GvItem (IItems false (Some (p ++ y :: r)))) (Z.of_nat n) (GvItem x)
  = Ok (GvItem (IItems false (Some (p ++ x :: r)))).
Proof.
  intros <-. unfold val_set_index. cbn [elems_of lst]. unfold zlen. rewrite map_length, app_length. cbn [length].
  replace (Z.of_nat (length p) <? 0)%Z with false by (symmetry; apply Z.ltb_ge; lia).
  replace (Z.of_nat (length p + S (length r)) <=? Z.of_nat (length p))%Z with false by (symmetry; apply Z.leb_gt; lia).
  cbn [orb]. rewrite Nat2Z.id.
  rewrite map_app. cbn [map]. rewrite <- (map_length GvItem p) at 1.
  assert (forall (A : Type) (a : list A) e b z, set_nth (length a) z (a ++ e :: b) = a ++ z :: b) as Hs.
  { intros A a e b z. induction a as [|w a IH]; [reflexivity|]. cbn [length app set_nth]. rewrite IH. reflexivity. }
  rewrite Hs. change (map GvItem p ++ GvItem x :: map GvItem r) with (map GvItem p ++ map GvItem (x :: r)).
  rewrite <- map_app. cbn [rebuild]. rewrite items_of_map. reflexivity.
Qed.

Lemma val_make_items n : val_make n_item_collection (Z.of_nat n) = Ok (GvItem (IItems false (Some (repeat INil n)))).
Proof.
  unfold val_make. replace (Z.of_nat n <? 0)%Z with false by (symmetry; apply Z.ltb_ge; lia).
  replace (bytes_eqb n_item_collection n_item_collection) with true by (vm_compute; reflexivity).
  rewrite Nat2Z.id. reflexivity.
Qed.

Ltac cenv :=
  repeat (progress (cbn [ge_func ge_method coll_env]; unfold coll_func, coll_method; ceval; cbv iota; gx)).

Section Fns.
  Variable rec : item -> item -> outcome bool.
  Variable contains : option (list item) -> item -> outcome bool.
  Variable iris_has : option (list bytes) -> item -> outcome bool.
  Hypothesis Hrec : forall a b, rec a b = Ok (items_eqb a b).
  Hypothesis Hcontains : forall lo x, contains lo x = Ok (ic_contains (lst lo) x).
  Hypothesis Hiris : forall lo x, iris_has lo x = Ok (iris_contains_item (lst lo) x).
  Notation E := (coll_env rec contains iris_has).

  (* ---------------------------------------------------------------- ItemCollection.Append *)
  Definition ica_body : gstmt nat :=
    GsSeq (GsIf (GxMethod n_ic_contains (GxDeref (GxVar 0)) (GxsCons (GxVar 2) GxsNil)) (GsSeq GsContinue GsSkip) GsSkip)
          (GsSeq (GsAssign (GlDeref (GlVar 0)) (GxAppend (GxDeref (GxVar 0)) (GxsCons (GxVar 2) GxsNil))) GsSkip).

  Lemma ica_loop A obs : forall i cur ob0, exists ob',
    for_loop (fun (i : nat) x s' => exec E ica_body (obind_slot (Some 2) x (obind_slot None (GvInt (Z.of_nat i)) s')))
             i (map GvItem obs) [pic cur; A; ob0]
    = Ok (GgNormal [pic (ic_append_o cur obs); A; ob']).
  Proof.
    hide_loop. induction obs as [|x r IH]; intros i cur ob0.
    - exists ob0. reflexivity.
    - cbn [map]. rewrite for_loop_cons. unfold step at 1, ica_body at 1, pic at 1. gx. cenv.
      rewrite Hcontains. gx. unfold ic_append_o. cbn [fold_left]. fold (ic_append_o).
      destruct (ic_contains (lst cur) x); gx.
      + apply IH.
      + rewrite val_append_item. gx. apply IH.
  Qed.

  Lemma ic_append_model lo oobs :
    run_fn E m_ic_append (Some (pic lo)) [vitems oobs] = Ok ([GvNil], Some (pic (ic_append_o lo (lst oobs)))).
  Proof.
    open_fn. unfold vitems. gx.
    destruct (ica_loop (GvItem (IItems false oobs)) (lst oobs) 0 lo GvUndef) as [ob' Hl].
    use_loop Hl. clear Hl. gx. reflexivity.
  Qed.

  Lemma ic_count_model lo : run_fn E m_ic_count (Some (pic lo)) [] = Ok ([GvInt (zlen (lst lo))], Some (pic lo)).
  Proof. open_fn. unfold pic. gx. unfold val_len. gx. rewrite zlen_nonneg. reflexivity. Qed.
  Lemma ic_count_nil_model : run_fn E m_ic_count (Some pnil) [] = Ok ([GvInt 0], Some pnil).
  Proof. open_fn. unfold pnil. gx. reflexivity. Qed.
  Lemma ic_collection_model lo : run_fn E m_ic_collection (Some (pic lo)) [] = Ok ([vitems lo], Some (pic lo)).
  Proof. open_fn. unfold pic. gx. reflexivity. Qed.
  (* ---------------------------------------------------------------- ItemCollection.Remove *)
  Definition icr_body : gstmt nat :=
    GsSeq (GsIf (GxCall n_items_equal (GxsCons (GxVar 5) (GxsCons (GxVar 1) GxsNil)))
                (GsSeq (GsAssign (GlVar 3) (GxVar 4)) GsSkip) GsSkip) GsSkip.

  Lemma icr_loop P r N q : forall i z kk itv, exists kk' itv',
    for_loop (fun (i : nat) x s' => exec E icr_body (obind_slot (Some 5) x (obind_slot (Some 4) (GvInt (Z.of_nat i)) s')))
             i (map GvItem q) [P; GvItem r; N; GvInt z; kk; itv]
    = Ok (GgNormal [P; GvItem r; N; GvInt (scan r i z q); kk'; itv']).
  Proof.
    hide_loop. induction q as [|x t IH]; intros i z kk itv.
    - exists kk, itv. reflexivity.
    - cbn [map scan]. rewrite for_loop_cons. unfold step at 1, icr_body at 1. gx. cenv. rewrite Hrec. gx.
      destruct (items_eqb x r); gx; apply IH.
  Qed.

  Lemma ic_remove_model lo r :
    run_fn E m_ic_remove (Some (pic lo)) [GvItem r] = Ok ([], Some (pic (ic_remove_o lo r))).
  Proof.
    open_fn. unfold pic. gx. unfold val_len. gx.
    destruct lo as [[|x0 l0]|]; cbn [lst]; try (gx; reflexivity).
    rewrite zlen_cons_nz. gx.
    destruct r as [|k|p s|p k fs|p l|p l]; gx; try reflexivity.
    all: match goal with |- context [for_loop _ _ _ [?P; GvItem ?r; ?N; _; _; _]] =>
           destruct (icr_loop P r N (x0 :: l0) 0 (-1)%Z GvUndef GvUndef) as [kk' [itv' Hl]] end.
    all: use_loop Hl; clear Hl; rewrite scan_last; cbn [ic_remove_o Nat.add].
    all: destruct (g_last_idx item items_eqb (x0 :: l0) _) as [j|] eqn:Ej; gx; [|reflexivity].
    all: pose proof (last_idx_bound _ _ _ _ Ej) as Hj.
    all: replace (Z.of_nat j =? -1)%Z with false by (symmetry; apply Z.eqb_neq; lia); gx.
    all: replace (Z.of_nat j <? zlen (x0 :: l0) - 1)%Z with (j <? length (x0 :: l0) - 1)
      by (unfold zlen; cbn [length]; destruct (j <? S (length l0) - 1) eqn:Eb;
          [apply Nat.ltb_lt in Eb; symmetry; apply Z.ltb_lt; lia|apply Nat.ltb_ge in Eb; symmetry; apply Z.ltb_ge; lia]).
    all: change 0%Z with (Z.of_nat 0); rewrite (val_slice_items (x0 :: l0) 0 j) by lia.
    all: rewrite Nat.sub_0_r; cbn [skipn].
    all: unfold val_len; cbn [lst]; unfold zlen at 1.
    all: replace (Z.of_nat j + 1)%Z with (Z.of_nat (S j)) by lia.
    all: cbn [obind]; rewrite (val_slice_items (x0 :: l0) (S j) (length (x0 :: l0))) by lia.
    all: rewrite firstn_all2 by (rewrite skipn_length; lia).
    all: cbn [obind elems_of lst]; rewrite val_append_items.
    all: cbn [length]; destruct (j <? S (length l0) - 1); gx; reflexivity.
  Qed.
  (* ---------------------------------------------------------------- IRIs.Append *)
  Lemma get_link_nn w : is_nil w = false -> get_link w = Ok (lnk w).
  Proof. destruct w; simpl; try discriminate; reflexivity. Qed.

  Definition ira_body : gstmt nat :=
    GsSeq (GsIf (GxCall n_is_nil (GxsCons (GxVar 2) GxsNil)) (GsSeq GsContinue GsSkip) GsSkip)
   (GsSeq (GsIf (GxMethod n_iris_contains (GxDeref (GxVar 0)) (GxsCons (GxMethod n_get_link (GxVar 2) GxsNil) GxsNil))
                (GsSeq GsContinue GsSkip) GsSkip)
   (GsSeq (GsAssign (GlDeref (GlVar 0)) (GxAppend (GxDeref (GxVar 0)) (GxsCons (GxMethod n_get_link (GxVar 2) GxsNil) GxsNil)))
          GsSkip)).

  Lemma ira_loop A obs : forall i cur ob0, exists ob',
    for_loop (fun (i : nat) x s' => exec E ira_body (obind_slot (Some 2) x (obind_slot None (GvInt (Z.of_nat i)) s')))
             i (map GvItem obs) [piris cur; A; ob0]
    = Ok (GgNormal [piris (iris_append_o cur obs); A; ob']).
  Proof.
    hide_loop. induction obs as [|x r IH]; intros i cur ob0.
    - exists ob0. reflexivity.
    - cbn [map]. rewrite for_loop_cons. unfold step at 1, ira_body at 1, piris at 1. gx. cenv.
      unfold iris_append_o. cbn [fold_left]. fold iris_append_o.
      destruct (is_nil x) eqn:Hn; gx; cenv; [apply IH|].
      rewrite (get_link_nn x Hn). gx. cenv. rewrite Hiris. gx.
      destruct (iris_contains_item (lst cur) (IIri false (lnk x))); gx; cenv; [apply IH|].
      rewrite (get_link_nn x Hn). gx. rewrite val_append_iri. gx. apply IH.
  Qed.

  Lemma iris_append_model lo oobs :
    run_fn E m_iris_append (Some (piris lo)) [vitems oobs] = Ok ([GvNil], Some (piris (iris_append_o lo (lst oobs)))).
  Proof.
    open_fn. unfold vitems. gx.
    destruct (ira_loop (GvItem (IItems false oobs)) (lst oobs) 0 lo GvUndef) as [ob' Hl].
    use_loop Hl. clear Hl. gx. reflexivity.
  Qed.

  Lemma iris_count_model lo : run_fn E m_iris_count (Some (piris lo)) [] = Ok ([GvInt (zlen (lst lo))], Some (piris lo)).
  Proof. open_fn. unfold piris. gx. unfold val_len. gx. rewrite zlen_nonneg. reflexivity. Qed.
  (* ---------------------------------------------------------------- IRIs.Collection *)
  Definition irc_body : gstmt nat := GsSeq (GsAssign (GlIndex (GlVar 1) (GxVar 2)) (GxVar 3)) GsSkip.

  Lemma irc_loop P q : forall p kk iv, exists kk' iv',
    for_loop (fun (i : nat) x s' => exec E irc_body (obind_slot (Some 3) x (obind_slot (Some 2) (GvInt (Z.of_nat i)) s')))
             (length p) (map (fun x => GvItem (IIri false x)) q)
             [P; GvItem (IItems false (Some (map (IIri false) p ++ repeat INil (length q)))); kk; iv]
    = Ok (GgNormal [P; GvItem (IItems false (Some (map (IIri false) (p ++ q)))); kk'; iv']).
  Proof.
    hide_loop. induction q as [|x t IH]; intros p kk iv.
    - exists kk, iv. cbn [length repeat]. rewrite !app_nil_r. reflexivity.
    - cbn [map length repeat]. rewrite for_loop_cons. unfold step at 1, irc_body at 1. gx.
      rewrite (val_set_index_items _ _ _ _ (length p)) by apply map_length. gx.
      destruct (IH (p ++ [x]) (GvInt (Z.of_nat (length p))) (GvItem (IIri false x))) as [kk' [iv' Hl]].
      exists kk', iv'. rewrite <- app_assoc in Hl. cbn [app] in Hl. rewrite <- Hl.
      rewrite app_length. cbn [length]. rewrite Nat.add_1_r, map_app, <- !app_assoc.
      reflexivity.
  Qed.

  Lemma iris_collection_model lo :
    run_fn E m_iris_collection (Some (piris lo)) [] = Ok ([vitems (Some (iris_collection (lst lo)))], Some (piris lo)).
  Proof.
    open_fn. unfold piris. gx. unfold val_len. gx. rewrite zlen_nonneg. unfold zlen. rewrite Nat2Z.id. gx.
    destruct (irc_loop (GvPtr OSame (Some (GvItem (IIris false lo)))) (lst lo) [] GvUndef GvUndef) as [kk' [iv' Hl]].
    cbn [length map app] in Hl. use_loop Hl. clear Hl. gx. reflexivity.
  Qed.
  (* ---------------------------------------------------------------- the four struct containers, one proof each *)
  Definition sca_body (f : fid) : gstmt nat :=
    GsSeq (GsIf (GxMethod n_ic_contains (GxField (GxVar 0) f TItems) (GxsCons (GxVar 2) GxsNil)) (GsSeq GsContinue GsSkip) GsSkip)
          (GsSeq (GsAssign (GlField (GlVar 0) f TItems) (GxAppend (GxField (GxVar 0) f TItems) (GxsCons (GxVar 2) GxsNil))) GsSkip).
  Definition c_sc_append (nm : bytes) (f : fid) : gfn nat :=
    mkgfn nm (Some 0) [1] 1
      (GsSeq (GsRange None (Some 2) (GxVar 1) (sca_body f)) (GsSeq (GsReturn (GxsCons GxNil GxsNil)) GsSkip)).
  Definition c_sc_contains (nm : bytes) (f : fid) : gfn nat :=
    mkgfn nm (Some 0) [1] 1
      (GsSeq (GsIf (GxBin OpEq (GxLen (GxField (GxVar 0) f TItems)) (GxInt 0))
                   (GsSeq (GsReturn (GxsCons (GxBool false) GxsNil)) GsSkip) GsSkip)
      (GsSeq (GsRange None (Some 2) (GxField (GxVar 0) f TItems)
                (GsSeq (GsIf (GxCall n_items_equal (GxsCons (GxVar 2) (GxsCons (GxVar 1) GxsNil)))
                             (GsSeq (GsReturn (GxsCons (GxBool true) GxsNil)) GsSkip) GsSkip) GsSkip))
      (GsSeq (GsReturn (GxsCons (GxBool false) GxsNil)) GsSkip))).
  Definition c_sc_count (nm : bytes) (f : fid) : gfn nat :=
    mkgfn nm (Some 0) [] 1
      (GsSeq (GsIf (GxIsNil NcPtr (GxVar 0)) (GsSeq (GsReturn (GxsCons (GxInt 0) GxsNil)) GsSkip) GsSkip)
      (GsSeq (GsReturn (GxsCons (GxConv n_uint (GxLen (GxField (GxVar 0) f TItems))) GxsNil)) GsSkip)).
  Definition c_sc_collection (nm : bytes) (f : fid) : gfn nat :=
    mkgfn nm (Some 0) [] 1 (GsSeq (GsReturn (GxsCons (GxField (GxVar 0) f TItems) GxsNil)) GsSkip).

  Lemma compile_sc c :
    (compile (m_sc_append c) = Some (c_sc_append (n_sc_append c) (sc_field c)) /\ length (frame_of (m_sc_append c)) = 3) /\
    (compile (m_sc_contains c) = Some (c_sc_contains (n_sc_contains c) (sc_field c)) /\ length (frame_of (m_sc_contains c)) = 3) /\
    (compile (m_sc_count c) = Some (c_sc_count (n_sc_count c) (sc_field c)) /\ length (frame_of (m_sc_count c)) = 1) /\
    (compile (m_sc_collection c) = Some (c_sc_collection (n_sc_collection c) (sc_field c)) /\ length (frame_of (m_sc_collection c)) = 1).
  Proof. destruct c; vm_compute; repeat split; reflexivity. Qed.

  Lemma getf_replf_here f v fs : getf f (replf f v fs) = Some v.
  Proof.
    assert (fid_beq f f = true) as Hff by (apply internal_fid_dec_lb; reflexivity).
    induction fs as [|[g w] r IH]; cbn [replf getf].
    - rewrite Hff. reflexivity.
    - destruct (fid_beq f g) eqn:Eg; cbn [getf]; [rewrite Hff; reflexivity|rewrite Eg; exact IH].
  Qed.
  Lemma get_items_setf f l fs : get_items f (setf f (FItems (Some l)) fs) = Some l.
  Proof. unfold setf, get_items. cbn [fval_is_zero]. rewrite getf_replf_here. reflexivity. Qed.

  Lemma sca_loop f k A obs : forall i fs ob0, exists ob',
    for_loop (fun (i : nat) x s' => exec E (sca_body f) (obind_slot (Some 2) x (obind_slot None (GvInt (Z.of_nat i)) s')))
             i (map GvItem obs) [GvItem (IObj true k fs); A; ob0]
    = Ok (GgNormal [GvItem (IObj true k (sc_append_fs f fs obs)); A; ob']).
  Proof.
    hide_loop. induction obs as [|x r IH]; intros i fs ob0.
    - exists ob0. reflexivity.
    - cbn [map]. rewrite for_loop_cons. unfold step at 1, sca_body at 1. gx. cenv.
      rewrite Hcontains. gx. unfold sc_append_fs. cbn [fold_left]. fold (sc_append_fs f).
      destruct (ic_contains (lst (get_items f fs)) x); gx.
      + apply IH.
      + rewrite val_append_item. gx. apply IH.
  Qed.

  Lemma sc_append_cmodel nm f k fs oobs :
    run_cfn E (c_sc_append nm f) 3 (Some (GvItem (IObj true k fs))) [vitems oobs]
    = Ok ([GvNil], Some (GvItem (IObj true k (sc_append_fs f fs (lst oobs))))).
  Proof.
    unfold run_cfn, c_sc_append, vitems. gx.
    destruct (sca_loop f k (GvItem (IItems false oobs)) (lst oobs) 0 fs GvUndef) as [ob' Hl].
    use_loop Hl. clear Hl. gx. reflexivity.
  Qed.

  Definition scc_body : gstmt nat :=
    GsSeq (GsIf (GxCall n_items_equal (GxsCons (GxVar 2) (GxsCons (GxVar 1) GxsNil)))
                (GsSeq (GsReturn (GxsCons (GxBool true) GxsNil)) GsSkip) GsSkip) GsSkip.
  Lemma scc_loop R r l : forall i it0, exists it',
    for_loop (fun (i : nat) x s' => exec E scc_body (obind_slot (Some 2) x (obind_slot None (GvInt (Z.of_nat i)) s')))
             i (map GvItem l) [R; GvItem r; it0]
    = Ok (if ic_contains l r then GgRet [GvBool true] [R; GvItem r; it'] else GgNormal [R; GvItem r; it']).
  Proof.
    hide_loop. induction l as [|x t IH]; intros i it0.
    - exists it0. reflexivity.
    - cbn [map]. rewrite for_loop_cons. unfold step at 1, scc_body at 1. gx. cenv. rewrite Hrec. gx.
      unfold ic_contains, g_contains. cbn [existsb]. destruct (items_eqb x r); gx.
      + exists (GvItem x). reflexivity.
      + apply IH.
  Qed.

  Lemma sc_contains_cmodel nm f p k fs r :
    run_cfn E (c_sc_contains nm f) 3 (Some (GvItem (IObj p k fs))) [GvItem r]
    = Ok ([GvBool (ic_contains (lst (get_items f fs)) r)], Some (GvItem (IObj p k fs))).
  Proof.
    unfold run_cfn, c_sc_contains. gx. unfold val_len. gx.
    destruct (get_items f fs) as [[|x l]|] eqn:Eg; cbn [lst]; try (gx; reflexivity).
    rewrite zlen_cons_nz. gx. rewrite Eg. gx.
    destruct (scc_loop (GvItem (IObj p k fs)) r (x :: l) 0 GvUndef) as [it' Hl].
    use_loop Hl. clear Hl. destruct (ic_contains (x :: l) r); gx; reflexivity.
  Qed.

  Lemma sc_count_cmodel nm f k fs :
    run_cfn E (c_sc_count nm f) 1 (Some (GvItem (IObj true k fs))) []
    = Ok ([GvInt (zlen (lst (get_items f fs)))], Some (GvItem (IObj true k fs))).
  Proof. unfold run_cfn, c_sc_count. gx. unfold val_len. gx. rewrite zlen_nonneg. reflexivity. Qed.
  Lemma sc_count_nil_cmodel nm f k :
    run_cfn E (c_sc_count nm f) 1 (Some (GvItem (ITNil k))) [] = Ok ([GvInt 0], Some (GvItem (ITNil k))).
  Proof. unfold run_cfn, c_sc_count. gx. reflexivity. Qed.
  Lemma sc_collection_cmodel nm f p k fs :
    run_cfn E (c_sc_collection nm f) 1 (Some (GvItem (IObj p k fs))) []
    = Ok ([vitems (get_items f fs)], Some (GvItem (IObj p k fs))).
  Proof. unfold run_cfn, c_sc_collection. gx. reflexivity. Qed.
  (* ---------------------------------------------------------------- ToItemCollection *)
  Definition tic_body : gstmt nat := GsSeq (GsAssign (GlIndex (GlVar 2) (GxVar 3)) (GxVar 4)) GsSkip.

  Lemma tic_loop P Q q : forall p kk iv, exists kk' iv',
    for_loop (fun (i : nat) x s' => exec E tic_body (obind_slot (Some 4) x (obind_slot (Some 3) (GvInt (Z.of_nat i)) s')))
             (length p) (map (fun x => GvItem (IIri false x)) q)
             [P; Q; GvItem (IItems false (Some (map (IIri false) p ++ repeat INil (length q)))); kk; iv]
    = Ok (GgNormal [P; Q; GvItem (IItems false (Some (map (IIri false) (p ++ q)))); kk'; iv']).
  Proof.
    hide_loop. induction q as [|x t IH]; intros p kk iv.
    - exists kk, iv. cbn [length repeat]. rewrite !app_nil_r. reflexivity.
    - cbn [map length repeat]. rewrite for_loop_cons. unfold step at 1, tic_body at 1. gx.
      rewrite (val_set_index_items _ _ _ _ (length p)) by apply map_length. gx.
      destruct (IH (p ++ [x]) (GvInt (Z.of_nat (length p))) (GvItem (IIri false x))) as [kk' [iv' Hl]].
      exists kk', iv'. rewrite <- app_assoc in Hl. cbn [app] in Hl. rewrite <- Hl.
      rewrite app_length. cbn [length]. rewrite Nat.add_1_r, map_app, <- !app_assoc.
      reflexivity.
  Qed.

  Local Ltac gxt := repeat (progress (gx; cenv)).

  Lemma to_ic_model i : run_fn E m_to_ic None [GvItem i] = Ok (to_ic_expect i, None).
  Proof.
    open_fn. gx. cenv. unfold to_ic_expect.
    destruct (is_nil i) eqn:Hn; [gxt; reflexivity|].
    destruct i as [|k|p s|p k fs|p l|p l]; try discriminate.
    - destruct p; gxt; rewrite Hn; reflexivity.
    - destruct k, p; gxt; try (rewrite Hn; reflexivity); reflexivity.
    - destruct p; gxt; reflexivity.
    - destruct p; gxt; unfold val_len; gxt; rewrite zlen_nonneg; unfold zlen; rewrite Nat2Z.id; gxt.
      + destruct (tic_loop (GvItem (IIris true l)) (GvPtr OSame (Some (GvItem (IIris false l)))) (lst l) [] GvUndef GvUndef)
          as [kk' [iv' Hl]].
        cbn [length map app] in Hl. use_loop Hl. clear Hl. gxt. reflexivity.
      + destruct (tic_loop (GvItem (IIris false l)) (GvItem (IIris false l)) (lst l) [] GvUndef GvUndef)
          as [kk' [iv' Hl]].
        cbn [length map app] in Hl. use_loop Hl. clear Hl. gxt. reflexivity.
  Qed.
End Fns.

(* ---------------------------------------------------------------- 2. these ARE the functions of Model/Coll.v *)
Lemma ic_append_o_contents lo obs : lst (ic_append_o lo obs) = ic_append (lst lo) obs.
Proof.
  revert lo. induction obs as [|x r IH]; intro lo; [reflexivity|].
  unfold ic_append_o, ic_append, g_append. cbn [fold_left]. fold (ic_append_o).
  change (fold_left (g_append1 item items_eqb) r (g_append1 item items_eqb (lst lo) x))
    with (ic_append (g_append1 item items_eqb (lst lo) x) r).
  unfold ic_append_o in IH. rewrite IH. unfold g_append1, ic_contains.
  destruct (g_contains item items_eqb (lst lo) x); reflexivity.
Qed.

Lemma ic_remove_o_contents lo r : lst (ic_remove_o lo r) = ic_remove (lst lo) r.
Proof.
  unfold ic_remove_o, ic_remove, g_remove. destruct lo as [[|x l]|]; cbn [lst]; try reflexivity.
  destruct r; try reflexivity;
    match goal with |- context [g_last_idx item items_eqb ?a ?b] => destruct (g_last_idx item items_eqb a b) end;
    reflexivity.
Qed.

Lemma iris_append_o_contents lo obs : lst (iris_append_o lo obs) = iris_append (lst lo) obs.
Proof.
  revert lo. induction obs as [|x r IH]; intro lo; [reflexivity|].
  unfold iris_append_o, iris_append. cbn [fold_left]. fold (iris_append_o).
  match goal with |- _ = fold_left ?f r ?a => change (fold_left f r a) with (iris_append a r) end.
  unfold iris_append_o in IH. rewrite IH.
  destruct (is_nil x); [reflexivity|].
  destruct (iris_contains_item (lst lo) (IIri false (lnk x))); reflexivity.
Qed.

Lemma sc_append_fs_cons f fs x r :
  sc_append_fs f fs (x :: r)
  = sc_append_fs f (if ic_contains (lst (get_items f fs)) x then fs
                    else setf f (FItems (Some (lst (get_items f fs) ++ [x]))) fs) r.
Proof. reflexivity. Qed.
Lemma ic_append_cons l x r : ic_append l (x :: r) = ic_append (if ic_contains l x then l else l ++ [x]) r.
Proof. reflexivity. Qed.

Lemma sc_append_fs_contents f fs obs :
  lst (get_items f (sc_append_fs f fs obs)) = ic_append (lst (get_items f fs)) obs.
Proof.
  revert fs. induction obs as [|x r IH]; intro fs; [reflexivity|].
  rewrite sc_append_fs_cons, ic_append_cons, IH.
  destruct (ic_contains (lst (get_items f fs)) x); [reflexivity|].
  rewrite get_items_setf. reflexivity.
Qed.

(* ... and Append writes no other field *)
Lemma getf_replf_other f g v fs : fid_beq g f = false -> getf g (replf f v fs) = getf g fs.
Proof.
  intro H. induction fs as [|[h w] r IH]; cbn [replf getf].
  - rewrite H. reflexivity.
  - destruct (fid_beq f h) eqn:Eh; cbn [getf].
    + apply internal_fid_dec_bl in Eh. subst h. rewrite H. reflexivity.
    + destruct (fid_beq g h); [reflexivity|exact IH].
Qed.
Lemma sc_append_fs_frame f g fs obs : fid_beq g f = false -> getf g (sc_append_fs f fs obs) = getf g fs.
Proof.
  intro H. revert fs. induction obs as [|x r IH]; intro fs; [reflexivity|].
  rewrite sc_append_fs_cons, IH.
  destruct (ic_contains (lst (get_items f fs)) x); [reflexivity|].
  unfold setf. cbn [fval_is_zero]. apply getf_replf_other. exact H.
Qed.

Lemma to_ic_expect_members i : is_nil i = false -> own_list_only i = true ->
  ic_members (to_ic_expect i) = Some (to_item_collection i).
Proof.
  intros Hn Hw. unfold to_ic_expect. rewrite Hn.
  destruct i as [|k|p s|p k fs|p l|p l]; try discriminate; try reflexivity.
  - destruct p; [|reflexivity].
    destruct k; try reflexivity; cbn [ic_members to_item_collection own_list_only] in *; unfold view_items.
    + destruct (get_items F_Items fs); [reflexivity|]. destruct (get_items F_OrderedItems fs); [discriminate|reflexivity].
    + destruct (get_items F_Items fs); [reflexivity|]. destruct (get_items F_OrderedItems fs); [discriminate|reflexivity].
    + destruct (get_items F_Items fs); [discriminate|reflexivity].
    + destruct (get_items F_Items fs); [discriminate|reflexivity].
  - destruct p, l; try discriminate; reflexivity.
  - destruct p, l; try discriminate; reflexivity.
Qed.

(* ---------------------------------------------------------------- the callees: total ItemsEqual, b32's table entries *)
Lemma ieq_items_eqb a b : ieq a b = Ok (items_eqb a b).
Proof. unfold items_eqb. destruct (ieq_no_panic a b) as [r ->]. reflexivity. Qed.

Lemma contains_m_ieq l r : contains_m ieq l r = Ok (ic_contains l r).
Proof.
  unfold ic_contains, g_contains. induction l as [|x t IH]; [reflexivity|].
  cbn [contains_m existsb]. rewrite ieq_items_eqb. cbn [obind]. destruct (items_eqb x r); [reflexivity|exact IH].
Qed.

Lemma iris_contains_member l x : iris_contains l x = g_contains bytes iri_member_eqb l x.
Proof. unfold iris_contains, g_contains, iri_member_eqb. destruct l; reflexivity. Qed.

Section Callees.
  Variable ietbl : list ItemsEqTab.gofn.
  Hypothesis Hc : ItemsEqTab.fn_matches ietbl ItemsEqTab.m_ic_contains = true.
  Hypothesis Hi : ItemsEqTab.fn_matches ietbl ItemsEqTab.m_iris_contains = true.

  Lemma ie_contains lo x : ItemsEqTab.sem_contains ietbl ieq lo x = Ok (ic_contains (lst lo) x).
  Proof.
    rewrite (ItemsEqTabP.sem_contains_model ietbl ieq ieq (fun _ _ => eq_refl)).
    - apply contains_m_ieq.
    - exact (ItemsEqTabP.fn_matches_spec ietbl _ Hc).
  Qed.

  Lemma ie_iris_contains lo x : ItemsEqTab.sem_iris_contains ietbl lo x = Ok (iris_contains_item (lst lo) x).
  Proof.
    unfold ItemsEqTab.sem_iris_contains, ItemsEqTab.run_named.
    change ItemsEqTab.n_iris_contains with (ItemsEqTab.gf_name ItemsEqTab.m_iris_contains).
    rewrite (ItemsEqTabP.fn_matches_spec ietbl _ Hi). rewrite ItemsEqTabP.iris_contains_model.
    unfold iris_contains_item. rewrite iris_contains_member. reflexivity.
  Qed.
End Callees.

(* ---------------------------------------------------------------- 3. every table satisfying the condition *)
Section Tie.
  Variable tbl : list (gfn gname).
  Hypothesis Hok : coll_table_ok tbl = true.
  Variable rec : item -> item -> outcome bool.
  Variable contains : option (list item) -> item -> outcome bool.
  Variable iris_has : option (list bytes) -> item -> outcome bool.
  Hypothesis Hrec : forall a b, rec a b = Ok (items_eqb a b).
  Hypothesis Hcontains : forall lo x, contains lo x = Ok (ic_contains (lst lo) x).
  Hypothesis Hiris : forall lo x, iris_has lo x = Ok (iris_contains_item (lst lo) x).
  Notation E := (coll_env rec contains iris_has).

  Lemma has_fn m : In m coll_model_fns -> fn_named tbl (gn_name m) = Some m.
  Proof. apply (body_table_fns coll_model_fns tbl Hok). Qed.
  Local Ltac named m :=
    unfold run_named; change (fn_named tbl ?n) with (fn_named tbl (gn_name m));
    rewrite (has_fn m) by (vm_compute; tauto).

  Theorem ic_append_tie lo oobs :
    run_named E tbl n_ic_append (Some (pic lo)) [vitems oobs] = Ok ([GvNil], Some (pic (ic_append_o lo (lst oobs)))).
  Proof. named m_ic_append. apply ic_append_model; assumption. Qed.
  Theorem ic_count_tie lo : run_named E tbl n_ic_count (Some (pic lo)) [] = Ok ([GvInt (zlen (lst lo))], Some (pic lo)).
  Proof. named m_ic_count. apply ic_count_model. Qed.
  Theorem ic_count_nil_tie : run_named E tbl n_ic_count (Some pnil) [] = Ok ([GvInt 0], Some pnil).
  Proof. named m_ic_count. apply ic_count_nil_model. Qed.
  Theorem ic_collection_tie lo : run_named E tbl n_ic_collection (Some (pic lo)) [] = Ok ([vitems lo], Some (pic lo)).
  Proof. named m_ic_collection. apply ic_collection_model. Qed.
  Theorem ic_remove_tie lo r :
    run_named E tbl n_ic_remove (Some (pic lo)) [GvItem r] = Ok ([], Some (pic (ic_remove_o lo r))).
  Proof. named m_ic_remove. apply ic_remove_model; assumption. Qed.
  Theorem to_ic_tie i : run_named E tbl n_to_ic None [GvItem i] = Ok (to_ic_expect i, None).
  Proof. named m_to_ic. apply to_ic_model. Qed.
  Theorem iris_append_tie lo oobs :
    run_named E tbl n_iris_append (Some (piris lo)) [vitems oobs] = Ok ([GvNil], Some (piris (iris_append_o lo (lst oobs)))).
  Proof. named m_iris_append. apply iris_append_model; assumption. Qed.
  Theorem iris_collection_tie lo :
    run_named E tbl n_iris_collection (Some (piris lo)) [] = Ok ([vitems (Some (iris_collection (lst lo)))], Some (piris lo)).
  Proof. named m_iris_collection. apply iris_collection_model. Qed.
  Theorem iris_count_tie lo : run_named E tbl n_iris_count (Some (piris lo)) [] = Ok ([GvInt (zlen (lst lo))], Some (piris lo)).
  Proof. named m_iris_count. apply iris_count_model. Qed.

  (* the four struct types *)
  Local Ltac named_sc m c :=
    unfold run_named; change (fn_named tbl ?n) with (fn_named tbl (gn_name (m c)));
    rewrite (has_fn (m c)) by (destruct c; vm_compute; tauto); unfold run_fn.

  Theorem sc_append_tie c k fs oobs :
    run_named E tbl (n_sc_append c) (Some (GvItem (IObj true k fs))) [vitems oobs]
    = Ok ([GvNil], Some (GvItem (IObj true k (sc_append_fs (sc_field c) fs (lst oobs))))).
  Proof.
    named_sc m_sc_append c. destruct (compile_sc c) as [[-> ->] _]. apply sc_append_cmodel; assumption.
  Qed.
  Theorem sc_contains_tie c p k fs r :
    run_named E tbl (n_sc_contains c) (Some (GvItem (IObj p k fs))) [GvItem r]
    = Ok ([GvBool (ic_contains (lst (get_items (sc_field c) fs)) r)], Some (GvItem (IObj p k fs))).
  Proof.
    named_sc m_sc_contains c. destruct (compile_sc c) as [_ [[-> ->] _]]. apply sc_contains_cmodel; assumption.
  Qed.
  Theorem sc_count_tie c k fs :
    run_named E tbl (n_sc_count c) (Some (GvItem (IObj true k fs))) []
    = Ok ([GvInt (zlen (lst (get_items (sc_field c) fs)))], Some (GvItem (IObj true k fs))).
  Proof. named_sc m_sc_count c. destruct (compile_sc c) as [_ [_ [[-> ->] _]]]. apply sc_count_cmodel. Qed.
  Theorem sc_count_nil_tie c k :
    run_named E tbl (n_sc_count c) (Some (GvItem (ITNil k))) [] = Ok ([GvInt 0], Some (GvItem (ITNil k))).
  Proof. named_sc m_sc_count c. destruct (compile_sc c) as [_ [_ [[-> ->] _]]]. apply sc_count_nil_cmodel. Qed.
  Theorem sc_collection_tie c p k fs :
    run_named E tbl (n_sc_collection c) (Some (GvItem (IObj p k fs))) []
    = Ok ([vitems (get_items (sc_field c) fs)], Some (GvItem (IObj p k fs))).
  Proof. named_sc m_sc_collection c. destruct (compile_sc c) as [_ [_ [_ [-> ->]]]]. apply sc_collection_cmodel. Qed.
End Tie.

(* ---------------------------------------------------------------- both tables: bodies from Gen/CollT.v, callees from Gen/ItemsEqT.v *)
Section Both.
  Variable tbl : list (gfn gname).
  Hypothesis Hok : coll_table_ok tbl = true.
  Variable ietbl : list ItemsEqTab.gofn.
  Hypothesis Hcal : ic_callees_ok ietbl = true.
  Notation E := (coll_env_t ietbl).

  Lemma callee_c : ItemsEqTab.fn_matches ietbl ItemsEqTab.m_ic_contains = true.
  Proof. unfold ic_callees_ok in Hcal. apply andb_prop in Hcal. tauto. Qed.
  Lemma callee_i : ItemsEqTab.fn_matches ietbl ItemsEqTab.m_iris_contains = true.
  Proof. unfold ic_callees_ok in Hcal. apply andb_prop in Hcal. tauto. Qed.
  Let H1 := ieq_items_eqb.
  Let H2 := ie_contains ietbl callee_c.
  Let H3 := ie_iris_contains ietbl callee_i.

  Theorem ic_append_both lo oobs :
    run_named E tbl n_ic_append (Some (pic lo)) [vitems oobs] = Ok ([GvNil], Some (pic (ic_append_o lo (lst oobs)))).
  Proof. apply ic_append_tie; solve [exact Hok|exact H1|exact H2|exact H3]. Qed.
  Theorem ic_count_both :
    (forall lo, run_named E tbl n_ic_count (Some (pic lo)) [] = Ok ([GvInt (zlen (lst lo))], Some (pic lo))) /\
    run_named E tbl n_ic_count (Some pnil) [] = Ok ([GvInt 0], Some pnil).
  Proof. split; [intro lo; apply ic_count_tie|apply ic_count_nil_tie]; exact Hok. Qed.
  Theorem ic_collection_both lo : run_named E tbl n_ic_collection (Some (pic lo)) [] = Ok ([vitems lo], Some (pic lo)).
  Proof. apply ic_collection_tie; solve [exact Hok|exact H1|exact H2|exact H3]. Qed.
  Theorem ic_remove_both lo r :
    run_named E tbl n_ic_remove (Some (pic lo)) [GvItem r] = Ok ([], Some (pic (ic_remove_o lo r))).
  Proof. apply ic_remove_tie; solve [exact Hok|exact H1|exact H2|exact H3]. Qed.
  Theorem to_ic_both i : run_named E tbl n_to_ic None [GvItem i] = Ok (to_ic_expect i, None).
  Proof. apply to_ic_tie; solve [exact Hok|exact H1|exact H2|exact H3]. Qed.
  Theorem iris_append_both lo oobs :
    run_named E tbl n_iris_append (Some (piris lo)) [vitems oobs] = Ok ([GvNil], Some (piris (iris_append_o lo (lst oobs)))).
  Proof. apply iris_append_tie; solve [exact Hok|exact H1|exact H2|exact H3]. Qed.
  Theorem iris_collection_both lo :
    run_named E tbl n_iris_collection (Some (piris lo)) [] = Ok ([vitems (Some (iris_collection (lst lo)))], Some (piris lo)).
  Proof. apply iris_collection_tie; solve [exact Hok|exact H1|exact H2|exact H3]. Qed.
  Theorem iris_count_both lo : run_named E tbl n_iris_count (Some (piris lo)) [] = Ok ([GvInt (zlen (lst lo))], Some (piris lo)).
  Proof. apply iris_count_tie; solve [exact Hok|exact H1|exact H2|exact H3]. Qed.
  Theorem sc_append_both c k fs oobs :
    run_named E tbl (n_sc_append c) (Some (GvItem (IObj true k fs))) [vitems oobs]
    = Ok ([GvNil], Some (GvItem (IObj true k (sc_append_fs (sc_field c) fs (lst oobs))))).
  Proof. apply sc_append_tie; solve [exact Hok|exact H1|exact H2|exact H3]. Qed.
  Theorem sc_contains_both c p k fs r :
    run_named E tbl (n_sc_contains c) (Some (GvItem (IObj p k fs))) [GvItem r]
    = Ok ([GvBool (ic_contains (lst (get_items (sc_field c) fs)) r)], Some (GvItem (IObj p k fs))).
  Proof. apply sc_contains_tie; solve [exact Hok|exact H1|exact H2|exact H3]. Qed.
  Theorem sc_count_both c k :
    (forall fs, run_named E tbl (n_sc_count c) (Some (GvItem (IObj true k fs))) []
                = Ok ([GvInt (zlen (lst (get_items (sc_field c) fs)))], Some (GvItem (IObj true k fs)))) /\
    run_named E tbl (n_sc_count c) (Some (GvItem (ITNil k))) [] = Ok ([GvInt 0], Some (GvItem (ITNil k))).
  Proof. split; [intro fs; apply sc_count_tie|apply sc_count_nil_tie]; exact Hok. Qed.
  Theorem sc_collection_both c p k fs :
    run_named E tbl (n_sc_collection c) (Some (GvItem (IObj p k fs))) []
    = Ok ([vitems (get_items (sc_field c) fs)], Some (GvItem (IObj p k fs))).
  Proof. apply sc_collection_tie; solve [exact Hok|exact H1|exact H2|exact H3]. Qed.
End Both.
