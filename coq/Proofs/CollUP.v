(* C13 over the wide model of IRI.Equals (Model/CollU.v, builder b47): the lemmas of Proofs/CollP.v and
   Proofs/CollIrisP.v are generic in the IRI comparison (modules CoGP, CiGP: reflexivity and symmetry is all they use)
   and are instantiated here with iri_equ; the pool conditions follow from C14's characterisation on the wide domain. *)
From AP.Model Require Import Prelude Vocab Pred Url IriEq IriNf Fold UrlU IriEqU Equal EqualU Coll CollU.
From AP.Proofs Require Import NlvP IriEqP EqualP IriUP CollP CollIrisP.

(* the decidable pool conditions for the wide comparison *)
Definition distinct_pool_u : list item -> bool := CoGP.distinct_pool iri_equ.
Definition iris_pool_u : list item -> bool := CiGP.iris_pool iri_equ.

Lemma refines_u pool :
  (forall i j, i < length pool -> j < length pool -> items_eqb_u (pget pool i) (pget pool j) = Nat.eqb i j) ->
  (forall i, i < length pool -> pget pool i <> INil) ->
  forall c ops, c <> CIRIs -> Forall (fun o => op_idx o < length pool) ops ->
  forall s, wf (length pool) s ->
  c_run_u pool c (map (pget pool) s) ops = (map (pget pool) (fst (s_run s ops)), snd (s_run s ops)) /\
  wf (length pool) (fst (s_run s ops)) /\ fst (s_run s ops) = fold_left s_step ops s.
Proof. exact (CoGP.refines iri_equ pool). Qed.

Lemma distinct_pool_u_eq pool : distinct_pool_u pool = true ->
  forall i j, i < length pool -> j < length pool -> items_eqb_u (pget pool i) (pget pool j) = Nat.eqb i j.
Proof. exact (CoGP.distinct_pool_eq iri_equ iri_equ_refl iri_equ_sym pool). Qed.

Lemma refines_items_equal_u pool c ops :
  distinct_pool_u pool = true -> c <> CIRIs -> Forall (fun o => op_idx o < length pool) ops ->
  c_run_u pool c [] ops = (map (pget pool) (fold_left s_step ops []), snd (s_run [] ops)) /\
  NoDup (fold_left s_step ops []).
Proof. exact (CoGP.refines_items_equal iri_equ iri_equ_refl iri_equ_sym pool c ops). Qed.

Lemma refines_iris_u pool :
  (forall i, i < length pool -> is_nil (pget pool i) = false) ->
  (forall i, i < length pool -> is_nil (IIri false (lnk (pget pool i))) = false) ->
  (forall i j, i < length pool -> j < length pool ->
     iri_equ (lnk (pget pool j)) (lnk (pget pool i)) false = Nat.eqb i j) ->
  forall ops, Forall (fun o => op_idx o < length pool) ops ->
  forall s, wf (length pool) s ->
  c_run_u pool CIRIs (map (shown pool) s) ops = (map (shown pool) (fst (si_run s ops)), snd (si_run s ops)) /\
  wf (length pool) (fst (si_run s ops)) /\ fst (si_run s ops) = fold_left si_step ops s.
Proof. exact (CiGP.refines_iris iri_equ pool). Qed.

Lemma refines_iris_pool_u pool ops :
  iris_pool_u pool = true -> Forall (fun o => op_idx o < length pool) ops ->
  c_run_u pool CIRIs [] ops = (map (shown pool) (fold_left si_step ops []), snd (si_run [] ops)) /\
  NoDup (fold_left si_step ops []).
Proof. exact (CiGP.refines_iris_pool iri_equ iri_equ_refl pool ops). Qed.

Lemma distinct_pool_iris_u pool :
  distinct_pool_u pool = true -> forallb (fun x => negb (is_nil (IIri false (lnk x)))) pool = true ->
  iris_pool_u pool = true.
Proof. exact (CiGP.distinct_pool_iris iri_equ iri_equ_sym pool). Qed.

(* "items of distinct identity" in the words of the property, on the wide domain: members that are IRIs or non-link
   structs whose ids lie in iri_dom_u and have pairwise different normal forms (host with port, cleaned decoded path,
   decoded query parameters; scheme, fragment, userinfo ignored) form a pool *)
Definition distinct_ids_u (pool : list item) : bool :=
  forallb has_identity pool && forallb (fun x => iri_dom_u (lnk x)) pool &&
  forallb (fun i => forallb (fun j =>
      Nat.eqb i j || negb (nf_u_eqb (nf_u false (lnk (pget pool i))) (nf_u false (lnk (pget pool j)))))
    (seq 0 (length pool))) (seq 0 (length pool)).

Lemma distinct_ids_pool_u pool : distinct_ids_u pool = true -> distinct_pool_u pool = true.
Proof.
  unfold distinct_ids_u, distinct_pool_u, CoGP.distinct_pool. intro H.
  apply andb_true_iff in H. destruct H as [H H3]. apply andb_true_iff in H. destruct H as [H1 H2].
  rewrite H1. cbn [andb]. apply forallb_forall. intros i Hi. apply forallb_forall. intros j Hj.
  rewrite forallb_forall in H3. specialize (H3 i Hi). rewrite forallb_forall in H3. specialize (H3 j Hj). cbv beta in H3.
  destruct (Nat.eqb i j); [reflexivity|]. cbn [orb] in *. apply negb_true_iff in H3.
  rewrite forallb_forall in H2. rewrite in_seq in Hi, Hj.
  assert (Di : iri_dom_u (lnk (pget pool i)) = true) by (apply H2; unfold pget; apply nth_In; lia).
  assert (Dj : iri_dom_u (lnk (pget pool j)) = true) by (apply H2; unfold pget; apply nth_In; lia).
  rewrite (iri_equ_differ _ _ false Di Dj H3), (iri_equ_differ _ _ true Di Dj H3). reflexivity.
Qed.
