(* The wide models extend the model with percent-escapes in the path (CollIri.url_classify_x, iri_eqx): every IRI that
   parser accepts is parsed to the SAME url value by url_classify_u, lies in the wide domain when it lies in iri_dom_x,
   and the two models of IRI.Equals give the same answer there.  With C14_x_conservative / C14_x_agrees (plain grammar
   into the x grammar) the three layers are nested. *)
From AP.Model Require Import Prelude Bytes Url IriEq IriNf Vocab Pred CollIri IriNfX Utf8 FoldTab Fold UrlU IriEqU.
From AP.Proofs Require Import NlvP LowerP IriEqP SortP IriGenP IriNfP IriXP CollIriP Utf8P FoldP DecodeUP CleanUP UrlUP QueryUP IriGenUP IriUP CollIriUP.
From Coq Require Import Sorting.Permutation.

(* ================================================================ what url_parse_x = XUrl says, in full *)
Lemma parse_x_facts s x : url_parse_x s = XUrl x -> nonempty (x_scheme x) = true -> nonempty (x_host x) = true ->
  exists sch rp qo fo,
    s = (sch ++ B "://" ++ x_host x ++ rp ++ tail_of qmark qo) ++ tail_of hash fo /\
    notin hash (sch ++ B "://" ++ x_host x ++ rp ++ tail_of qmark qo) = true /\
    existsb is_ctl (sch ++ B "://" ++ x_host x ++ rp ++ tail_of qmark qo) = false /\
    forallb is_scheme_char sch = true /\ match sch with c0 :: _ => is_alpha c0 = true | [] => False end /\
    host_ok (x_host x) = true /\ forallb is_rawpath_char rp = true /\ (rp = [] \/ exists p, rp = slash :: p) /\
    forallb is_query_char (opt_or_nil qo) = true /\ forallb is_frag_char (opt_or_nil fo) = true /\
    x_scheme x = lower sch /\ pct_decode rp = Some (x_path x) /\ forallb is_ascii (x_path x) = true /\
    x_query x = qo /\ x_frag x = opt_or_nil fo.
Proof.
  destruct s as [|c0 s0]; [discriminate|]. unfold url_parse_x. remember (c0 :: s0) as s eqn:Hs.
  destruct (IriNfP.cut_byte_spec hash s) as [Hnh Es]. destruct (cut_byte hash s) as [nofrag frag]. simpl in Hnh, Es.
  destruct (existsb is_ctl nofrag) eqn:Ctl; [discriminate|]. destruct (Byte.eqb c0 colon); [discriminate|].
  destruct (IriNfP.cut_byte_spec qmark nofrag) as [_ Enf]. destruct (cut_byte qmark nofrag) as [noquery query]. simpl in Enf.
  destruct (index (B "://") noquery) as [n|] eqn:Ei.
  2:{ match goal with |- (if ?c then _ else _) = _ -> _ => destruct c end; [|discriminate].
      intros H; inversion H; subst x. discriminate. }
  apply index_split in Ei. simpl length in Ei.
  destruct (IriNfP.cut_byte_spec slash (skipn (n + 3) noquery)) as [_ Er].
  destruct (cut_byte slash (skipn (n + 3) noquery)) as [hostport pathrest]. simpl in Er.
  match goal with |- (if ?c then _ else _) = _ -> _ => destruct c eqn:Hc end; [|discriminate].
  match goal with |- match ?t with _ => _ end = _ -> _ => destruct t as [p|] eqn:Dp end; [|discriminate].
  destruct (forallb is_ascii p) eqn:Asc; [|discriminate].
  intros H _ _. inversion H; subst x; clear H. cbn [x_scheme x_host x_path x_query x_frag].
  rewrite !andb_true_iff in Hc. destruct Hc as [[[[[[Ha Hsch] Hn0] Hhost] Hpath] Hq] Hf].
  assert (En : nofrag = firstn n noquery ++ B "://" ++ hostport ++ tail_of slash pathrest ++ tail_of qmark query).
  { rewrite Enf at 1. rewrite Ei at 1. rewrite Er. rewrite <- !app_assoc. reflexivity. }
  assert (Hne : firstn n noquery <> []).
  { intros E0. apply negb_true_iff, Nat.eqb_neq in Hn0.
    assert (length (firstn n noquery) = 0) as L by (rewrite E0; reflexivity). rewrite firstn_length in L.
    apply (f_equal (@length byte)) in Ei. rewrite !app_length, firstn_length in Ei. simpl length in Ei. lia. }
  assert (F1 : s = (firstn n noquery ++ B "://" ++ hostport ++ tail_of slash pathrest ++ tail_of qmark query) ++ tail_of hash frag)
    by (rewrite Es at 1; rewrite En; reflexivity).
  assert (F2 : notin hash (firstn n noquery ++ B "://" ++ hostport ++ tail_of slash pathrest ++ tail_of qmark query) = true)
    by (rewrite <- En; exact Hnh).
  assert (F3 : existsb is_ctl (firstn n noquery ++ B "://" ++ hostport ++ tail_of slash pathrest ++ tail_of qmark query) = false)
    by (rewrite <- En; exact Ctl).
  assert (F4 : match firstn n noquery with c1 :: _ => is_alpha c1 = true | [] => False end).
  { destruct (firstn n noquery) as [|f0 ft] eqn:F; [congruence|].
    assert (f0 = c0) as ->; [|exact Ha].
    rewrite Hs in Es. rewrite En in Es. simpl in Es. inversion Es. reflexivity. }
  assert (F5 : forallb is_rawpath_char (tail_of slash pathrest) = true) by (destruct pathrest; exact Hpath).
  assert (F6 : tail_of slash pathrest = [] \/ exists p', tail_of slash pathrest = slash :: p')
    by (destruct pathrest as [p'|]; [right; exists p'; reflexivity|left; reflexivity]).
  assert (F7 : forallb is_query_char (opt_or_nil query) = true) by (destruct query; exact Hq).
  assert (F8 : forallb is_frag_char (opt_or_nil frag) = true) by (destruct frag; exact Hf).
  assert (F9 : pct_decode (tail_of slash pathrest) = Some p) by (destruct pathrest; exact Dp).
  assert (F10 : match frag with Some f => f | None => [] end = opt_or_nil frag) by (destruct frag; reflexivity).
  exists (firstn n noquery), (tail_of slash pathrest), query, frag.
  split; [exact F1|]. split; [exact F2|]. split; [exact F3|]. split; [exact Hsch|]. split; [exact F4|]. split; [exact Hhost|].
  split; [exact F5|]. split; [exact F6|]. split; [exact F7|]. split; [exact F8|]. split; [reflexivity|]. split; [exact F9|].
  split; [exact Asc|]. split; [reflexivity|exact F10].
Qed.

(* ================================================================ alphabets of the plain grammar *)
Lemma hostp_facts b : hostp b = true -> Byte.eqb b slash = false /\ Byte.eqb b qmark = false /\ is_asciib b = true.
Proof.
  pose proof (sweep (fun b => implb (hostp b) (negb (Byte.eqb b slash) && negb (Byte.eqb b qmark) && is_asciib b)) ltac:(vm_compute; reflexivity) b) as H.
  cbv beta in H. intros E. rewrite E in H. simpl in H. rewrite !andb_true_iff, !negb_true_iff in H. tauto.
Qed.
Lemma rawpath_facts b : is_rawpath_char b = true -> Byte.eqb b qmark = false /\ is_asciib b = true.
Proof.
  pose proof (sweep (fun b => implb (is_rawpath_char b) (negb (Byte.eqb b qmark) && is_asciib b)) ltac:(vm_compute; reflexivity) b) as H.
  cbv beta in H. intros E. rewrite E in H. simpl in H. rewrite !andb_true_iff, !negb_true_iff in H. tauto.
Qed.
Lemma query_char_facts b : is_query_char b = true ->
  Byte.eqb b pct = false /\ Byte.eqb b plus = false /\ Byte.eqb b semi = false /\ is_asciib b = true.
Proof.
  pose proof (sweep (fun b => implb (is_query_char b) (negb (Byte.eqb b pct) && negb (Byte.eqb b plus) && negb (Byte.eqb b semi) && is_asciib b)) ltac:(vm_compute; reflexivity) b) as H.
  cbv beta in H. intros E. rewrite E in H. simpl in H. rewrite !andb_true_iff, !negb_true_iff in H. tauto.
Qed.
Lemma frag_char_facts b : is_frag_char b = true -> Byte.eqb b pct = false /\ is_asciib b = true.
Proof.
  pose proof (sweep (fun b => implb (is_frag_char b) (negb (Byte.eqb b pct) && is_asciib b)) ltac:(vm_compute; reflexivity) b) as H.
  cbv beta in H. intros E. rewrite E in H. simpl in H. rewrite !andb_true_iff, !negb_true_iff in H. tauto.
Qed.

Lemma forallb_notin (P : byte -> bool) c s : (forall b, P b = true -> Byte.eqb b c = false) -> forallb P s = true -> notin c s = true.
Proof. intros HP. apply forallb_impl. intros x Hx. rewrite (HP x Hx). reflexivity. Qed.

(* ================================================================ the same url value *)
Theorem classify_u_of_x s u : url_classify_x s = UValid u -> url_classify_u s = UValid u.
Proof.
  unfold url_classify_x. destruct (url_parse_x s) as [x| |] eqn:P; try discriminate.
  destruct (nonempty (x_scheme x)) eqn:N1; [|discriminate]. destruct (nonempty (x_host x)) eqn:N2; [|discriminate].
  cbn [andb]. intros H. inversion H; subst u; clear H.
  destruct (parse_x_facts s x P N1 N2) as [sch [rp [qo [fo [Es [Nh [Ctl [Hsch [Ha [Hh [Hp [Hroot [Hq [Hf [Esc [Dp [Asc [Eq Ef]]]]]]]]]]]]]]]]]].
  pose proof (host_ok_hostp _ Hh) as Hhp. destruct (host_ok_raw _ Hh) as [Raw [Dh _]].
  assert (Nsl : notin slash (x_host x) = true) by (apply (forallb_notin hostp); [intros b Hb; apply hostp_facts in Hb; tauto|exact Hhp]).
  assert (Nq : notin qmark (x_host x ++ rp) = true).
  { rewrite notin_app. rewrite (forallb_notin hostp qmark _ (fun b Hb => proj1 (proj2 (hostp_facts b Hb))) Hhp).
    rewrite (forallb_notin is_rawpath_char qmark _ (fun b Hb => proj1 (rawpath_facts b Hb)) Hp). reflexivity. }
  pose proof (parse_u_struct sch (x_host x) rp qo fo (x_host x) (x_path x) Hsch Ha Ctl Nh Nsl Nq Raw Dh Hroot Dp) as PU.
  assert (FF : exists rf, frag_fields fo = Some (opt_or_nil fo, rf)).
  { unfold frag_fields. destruct fo as [[|f0 f]|]; try (eexists; reflexivity). cbn [opt_or_nil] in Hf.
    assert (pct_decode (f0 :: f) = Some (f0 :: f)) as ->.
    { apply pct_go_plain. eapply forallb_impl; [|exact Hf]. intros b Hb. destruct (frag_char_facts b Hb) as [E _]. rewrite E. reflexivity. }
    eexists. reflexivity. }
  destruct FF as [rf FF].
  unfold url_classify_u. rewrite Es in *. 
  assert (NE : (sch ++ B "://" ++ x_host x ++ rp ++ tail_of qmark qo) ++ tail_of hash fo <> []) by (destruct sch; [destruct Ha|discriminate]).
  destruct ((sch ++ B "://" ++ x_host x ++ rp ++ tail_of qmark qo) ++ tail_of hash fo) eqn:EE; [congruence|]. rewrite <- EE in *. clear EE.
  rewrite PU, FF. cbn [uu_scheme uu_host uu_path uu_query uu_frag]. rewrite lower_nonempty.
  assert (nonempty sch = true) as -> by (destruct sch; [destruct Ha|reflexivity]). rewrite N2. cbn [andb].
  rewrite Esc, Eq, Ef. reflexivity.
Qed.

(* ================================================================ everything in the x grammar is ASCII *)
Lemma forallb_weaken (P Q : byte -> bool) s : (forall b, P b = true -> Q b = true) -> forallb P s = true -> forallb Q s = true.
Proof. apply forallb_impl. Qed.

Lemma tail_ascii c o : is_asciib c = true -> forallb is_asciib (opt_or_nil o) = true -> forallb is_asciib (tail_of c o) = true.
Proof. intros A H. destruct o; [simpl; rewrite A; exact H|reflexivity]. Qed.

Lemma classify_x_ascii a u : url_classify_x a = UValid u ->
  forallb is_asciib a = true /\ forallb is_query_char (u_query u) = true /\
  forallb is_asciib (u_scheme u) = true /\ forallb is_asciib (u_host u) = true /\ forallb is_asciib (u_path u) = true.
Proof.
  unfold url_classify_x. destruct (url_parse_x a) as [x| |] eqn:P; try discriminate.
  destruct (nonempty (x_scheme x)) eqn:N1; [|discriminate]. destruct (nonempty (x_host x)) eqn:N2; [|discriminate].
  cbn [andb]. intros H. inversion H; subst u; clear H. cbn [u_scheme u_host u_path u_query].
  destruct (parse_x_facts a x P N1 N2) as [sch [rp [qo [fo [Es [Nh [Ctl [Hsch [Ha [Hh [Hp [Hroot [Hq [Hf [Esc [Dp [Asc [Eq Ef]]]]]]]]]]]]]]]]]].
  pose proof (scheme_ascii _ Hsch) as As.
  pose proof (forallb_weaken hostp is_asciib _ (fun b Hb => proj2 (proj2 (hostp_facts b Hb))) (host_ok_hostp _ Hh)) as Ah.
  pose proof (forallb_weaken is_rawpath_char is_asciib _ (fun b Hb => proj2 (rawpath_facts b Hb)) Hp) as Ap.
  pose proof (forallb_weaken is_query_char is_asciib _ (fun b Hb => proj2 (proj2 (proj2 (query_char_facts b Hb)))) Hq) as Aq.
  pose proof (forallb_weaken is_frag_char is_asciib _ (fun b Hb => proj2 (frag_char_facts b Hb)) Hf) as Af.
  split; [|split; [|split; [|split]]].
  - rewrite Es, !forallb_app, As, Ah, Ap, (tail_ascii qmark qo eq_refl Aq), (tail_ascii hash fo eq_refl Af). reflexivity.
  - rewrite Eq. exact Hq.
  - rewrite Esc. apply lower_ascii. exact As.
  - exact Ah.
  - exact Asc.
Qed.

Lemma esc_lower_nopct_n n : forall q, length q <= n -> lacks pct q = true -> esc_lower q = q.
Proof.
  induction n as [|n IH]; intros q Hl L; [destruct q; [reflexivity|simpl in Hl; lia]|].
  destruct q as [|c r]; [reflexivity|]. rewrite esc_lower_cons. simpl in L. apply andb_true_iff in L. destruct L as [Lc Lr].
  apply negb_true_iff in Lc. rewrite Lc. cbn [andb]. simpl in Hl.
  assert (E : esc_lower r = r) by (apply IH; [lia|exact Lr]).
  destruct r as [|h [|l r']]; rewrite E; reflexivity.
Qed.
Lemma esc_lower_nopct q : lacks pct q = true -> esc_lower q = q.
Proof. apply (esc_lower_nopct_n (length q)). lia. Qed.

Theorem iri_dom_u_of_x a : iri_dom_x a = true -> iri_dom_u a = true.
Proof.
  unfold iri_dom_x, iri_dom_gen, iri_dom_u, iri_dom_u_with. destruct (url_classify_x a) as [u| |] eqn:E; try discriminate. intros Q.
  destruct (classify_x_ascii a u E) as [Aa [Hq _]]. rewrite (classify_u_of_x a u E).
  unfold q_lower_class.
  rewrite (forallb_weaken is_query_char is_ascii _ (fun b Hb => proj2 (proj2 (proj2 (query_char_facts b Hb)))) Hq).
  rewrite esc_lower_nopct; [exact Q|].
  eapply forallb_impl; [|exact Hq]. intros b Hb. destruct (query_char_facts b Hb) as [P _]. rewrite P. reflexivity.
Qed.

(* ================================================================ filepath.Clean keeps an alphabet that holds "/" and "." *)
Lemma split_byte_forall (P : byte -> bool) c s : forallb P s = true -> Forall (fun x => forallb P x = true) (split_byte c s).
Proof.
  induction s as [|a s IH]; intros H; [repeat constructor|]. simpl in H. apply andb_true_iff in H. destruct H as [Ha Hs].
  specialize (IH Hs). simpl. destruct (split_byte c s) as [|seg segs]; [repeat constructor|].
  inversion IH; subst. destruct (Byte.eqb a c).
  - constructor; [reflexivity|constructor; assumption].
  - constructor; [simpl; rewrite Ha; assumption|assumption].
Qed.

Lemma clean_segs_forall (Q : bytes -> Prop) rooted segs : forall st, Forall Q st -> Forall Q segs -> Forall Q (clean_segs st rooted segs).
Proof.
  induction segs as [|seg r IH]; intros st Hst Hs; simpl.
  - apply Forall_rev. exact Hst.
  - inversion Hs; subst. destruct seg as [|c0 seg0]; [apply IH; assumption|].
    destruct (bytes_eqb (c0 :: seg0) (B ".")); [apply IH; assumption|].
    destruct (bytes_eqb (c0 :: seg0) (B "..")).
    + destruct st as [|top st'].
      * destruct rooted; apply IH; try assumption. constructor; assumption.
      * inversion Hst; subst. destruct (bytes_eqb top (B "..")); apply IH; try assumption. constructor; assumption.
    + apply IH; [constructor; assumption|assumption].
Qed.

Lemma join_with_forallb (P : byte -> bool) l : P slash = true -> Forall (fun x => forallb P x = true) l -> forallb P (join_with [slash] l) = true.
Proof.
  intros Ps. induction l as [|x l IH]; intros H; [reflexivity|]. inversion H; subst. destruct l as [|y l']; [assumption|].
  change (join_with [slash] (x :: y :: l')) with (x ++ slash :: join_with [slash] (y :: l')).
  rewrite forallb_app. cbn [forallb]. rewrite H2, Ps, (IH H3). reflexivity.
Qed.

Lemma path_clean_forallb (P : byte -> bool) p : P slash = true -> P dot = true -> forallb P p = true -> forallb P (path_clean p) = true.
Proof.
  intros Ps Pd H. assert (Dot : forallb P (B ".") = true) by (change (B ".") with [dot]; cbn [forallb]; rewrite Pd; reflexivity).
  unfold path_clean. destruct p as [|c r]; [exact Dot|].
  pose proof (clean_segs_forall (fun x => forallb P x = true) (Byte.eqb c slash) _ [] (Forall_nil _) (split_byte_forall P slash _ H)) as S.
  destruct (Byte.eqb c slash).
  - cbn [forallb]. rewrite Ps. apply join_with_forallb; assumption.
  - destruct (clean_segs [] false (split_byte slash (c :: r))) eqn:E; [exact Dot|]. apply join_with_forallb; assumption.
Qed.

Lemma clean_url_path_ascii p : forallb is_asciib p = true -> forallb is_asciib (clean_url_path path_clean p) = true.
Proof. intros H. unfold clean_url_path. destruct p; apply path_clean_forallb; try reflexivity. exact H. Qed.

(* ================================================================ url.ParseQuery on a query without "%", "+" and ";" *)
Lemma cut_byte_forallb (P : byte -> bool) c s : forallb P s = true ->
  forallb P (fst (cut_byte c s)) = true /\ forallb P (opt_or_nil (snd (cut_byte c s))) = true.
Proof.
  induction s as [|a s IH]; intros H; [split; reflexivity|]. simpl in H. apply andb_true_iff in H. destruct H as [Ha Hs].
  simpl. destruct (Byte.eqb a c); [split; [reflexivity|exact Hs]|].
  destruct (cut_byte c s) as [x o]. simpl in *. destruct (IH Hs) as [I1 I2]. rewrite Ha. auto.
Qed.

Lemma query_unescape_plain k : forallb is_query_char k = true -> query_unescape k = Some k.
Proof.
  intros H. unfold query_unescape.
  assert (map (fun b => if Byte.eqb b plus then space else b) k = k) as ->.
  { rewrite <- (map_id k) at 2. apply map_ext_in. intros b Hb. rewrite forallb_forall in H. destruct (query_char_facts b (H b Hb)) as [_ [E _]]. rewrite E. reflexivity. }
  apply pct_go_plain. eapply forallb_impl; [|exact H]. intros b Hb. destruct (query_char_facts b Hb) as [E _]. rewrite E. reflexivity.
Qed.

Lemma query_pairs_u_plain q : forallb is_query_char q = true -> query_pairs_u q = query_pairs q.
Proof.
  intros H. unfold query_pairs_u, query_pairs. pose proof (split_byte_forall is_query_char amp q H) as S.
  induction S as [|piece l Hp Hl IH]; [reflexivity|]. cbn [flat_map]. rewrite IH. f_equal.
  assert (existsb (fun b => Byte.eqb b semi) piece = false) as ->.
  { clear -Hp. induction piece as [|b l IH]; [reflexivity|]. cbn [forallb] in Hp. apply andb_true_iff in Hp. destruct Hp as [Hb Hl].
    simpl. destruct (query_char_facts b Hb) as [_ [_ [E _]]]. rewrite E, (IH Hl). reflexivity. }
  destruct piece as [|c0 r]; [reflexivity|].
  destruct (cut_byte_forallb is_query_char eqsign _ Hp) as [K V]. destruct (cut_byte eqsign (c0 :: r)) as [k v]. cbn [fst snd] in *.
  rewrite (query_unescape_plain k K). destruct v as [v|]; cbn [opt_or_nil] in V.
  - rewrite (query_unescape_plain v V). reflexivity.
  - reflexivity.
Qed.

(* ================================================================ the two models of IRI.Equals agree on iri_dom_x *)
Lemma eqb_fold_canon x y : forallb is_asciib x = true -> forallb is_asciib y = true ->
  bytes_eqb (lower x) (lower y) = nlist_eqb (scanon x) (scanon y).
Proof. intros Ax Ay. symmetry. apply (sfold_eqb_ascii x y Ax Ay). Qed.

Theorem iri_equ_of_x a b cs : iri_dom_x a = true -> iri_dom_x b = true -> iri_equ a b cs = iri_eqx a b cs.
Proof.
  intros Da Db. rewrite (iri_eqx_nf a b cs Da Db), (iri_equ_nf a b cs (iri_dom_u_of_x a Da) (iri_dom_u_of_x b Db)).
  unfold iri_dom_x, iri_dom_gen in Da, Db. unfold nf_x, nf_gen, nf_u.
  destruct (url_classify_x a) as [u| |] eqn:Ea; try discriminate. destruct (url_classify_x b) as [w| |] eqn:Eb; try discriminate.
  rewrite (classify_u_of_x a u Ea), (classify_u_of_x b w Eb). cbn [nf_eqb nf_u_eqb].
  destruct (classify_x_ascii a u Ea) as [_ [Qu [Su [Hu Pu]]]]. destruct (classify_x_ascii b w Eb) as [_ [Qw [Sw [Hw Pw]]]].
  unfold nf_url, nf_url_u, nform_eqb, nform_u_eqb.
  rewrite (query_pairs_u_plain _ Qu), (query_pairs_u_plain _ Qw).
  rewrite (eqb_fold_canon _ _ Hu Hw), (eqb_fold_canon _ _ (clean_url_path_ascii _ Pu) (clean_url_path_ascii _ Pw)).
  destruct cs; [rewrite (eqb_fold_canon _ _ Su Sw)|]; reflexivity.
Qed.
