(* Proofs for Model/CopyEff.v: what [copy_we_ok] = true says, clause by clause, in the terms of Model/WriteEff.v
   (for every table), the condition on the table of this run, the diagnosis, mutated tables. *)
From AP.Model Require Import Prelude Bytes WriteEff WriteEffInst CopyEff.
From AP.Gen Require Import WriteEffects.
From AP.Proofs Require Import NlvP WriteEffP.

Section Cut.
  Variable T : list fn.
  Variable E : list N.

  Lemma fn_at_cut : forall f, fn_at (cut_table T E) f = option_map (cut_fn E) (fn_at T f).
  Proof. intro f; unfold fn_at, cut_table; apply nth_error_map. Qed.

  Lemma writes_of_cut : forall f, writes_of (cut_table T E) f = writes_of T f.
  Proof. intro f; unfold writes_of; rewrite fn_at_cut; destruct (fn_at T f); reflexivity. Qed.

  Lemma calls_of_cut : forall f,
    calls_of (cut_table T E) f =
    filter (fun c => match c_callee c with CFun g => negb (mem_f g E) | _ => true end) (calls_of T f).
  Proof. intro f; unfold calls_of; rewrite fn_at_cut; destruct (fn_at T f); reflexivity. Qed.

  Lemma existsb_filter_ext : forall (A : Type) (p q : A -> bool) (l : list A),
    (forall x, q x = false -> p x = false) -> existsb p (filter q l) = existsb p l.
  Proof.
    intros A p q l H; induction l as [|x l IH]; simpl; [reflexivity|].
    destruct (q x) eqn:Q; simpl; [rewrite IH; reflexivity|]. rewrite (H x Q), IH; reflexivity.
  Qed.

  (* cutting calls to functions of the table does not change what a node writes *)
  Lemma node_bad_cut : forall n, node_bad (cut_table T E) n = node_bad T n.
  Proof.
    intro n; unfold node_bad; rewrite writes_of_cut, calls_of_cut. f_equal.
    apply existsb_filter_ext. intros c H; unfold call_writes_root.
    destruct (c_callee c); try discriminate; reflexivity.
  Qed.

  Lemma In_filter_sub : forall (A : Type) (q : A -> bool) (l : list A) x, In x (filter q l) -> In x l.
  Proof. intros A q l x H; apply filter_In in H; tauto. Qed.

  (* ... and only removes edges: what is reachable in the cut table is reachable in the table *)
  Lemma fn_succ_cut : forall f g, In g (fn_succ (cut_table T E) f) -> In g (fn_succ T f).
  Proof.
    intros f g H; unfold fn_succ in *; rewrite calls_of_cut in H.
    apply in_flat_map in H; destruct H as [c [Hc Hg]]; apply in_flat_map; exists c; split; [|exact Hg].
    exact (In_filter_sub _ _ _ _ Hc).
  Qed.

  Lemma node_succ_cut : forall n m, In m (node_succ (cut_table T E) n) -> In m (node_succ T n).
  Proof.
    intros n m H; unfold node_succ in *; apply in_app_or in H; apply in_or_app; destruct H as [H|H]; [left; exact H|right].
    rewrite calls_of_cut in H.
    apply in_flat_map in H; destruct H as [c [Hc Hm]]; apply in_flat_map; exists c; split; [|exact Hm].
    exact (In_filter_sub _ _ _ _ Hc).
  Qed.

  Lemma taint_of_cut : forall f m, In m (taint_of (cut_table T E) f) -> In m (taint_of T f).
  Proof.
    intros f m H; unfold taint_of in *; rewrite calls_of_cut in H.
    apply in_flat_map in H; destruct H as [c [Hc Hm]]; apply in_flat_map; exists c; split; [|exact Hm].
    exact (In_filter_sub _ _ _ _ Hc).
  Qed.

  Lemma freach_cut : forall E0 f, freach (cut_table T E) E0 f -> freach T E0 f.
  Proof.
    intros E0 f H; induction H as [f Hf | f g _ IH Hg]; [apply fr_entry; exact Hf|].
    apply (fr_step T E0 f g IH); apply fn_succ_cut; exact Hg.
  Qed.

  Lemma nreach_cut : forall E0 S n, nreach (cut_table T E) E0 S n -> nreach T E0 S n.
  Proof.
    intros E0 S n H; induction H as [n Hn | f n Hf Hn | n m _ IH Hm].
    - apply nr_start; exact Hn.
    - apply (nr_taint T E0 S f n); [apply freach_cut; exact Hf | apply taint_of_cut; exact Hn].
    - apply (nr_step T E0 S n m IH); apply node_succ_cut; exact Hm.
  Qed.
End Cut.

Lemma to_struct_or_local_eq : forall r, to_struct_or_local r = true -> r = RLocal \/ r = RP 0%N 0%N.
Proof.
  intros r H; destruct r as [|i d|g|]; simpl in H; try discriminate; [left; reflexivity|right].
  apply andb_true_iff in H; destruct H as [H1 H2]; apply N.eqb_eq in H1; apply N.eqb_eq in H2.
  unfold p_to in H1; subst; reflexivity.
Qed.

(* what the condition says, for EVERY table *)
Theorem copy_we_sound : forall (T : list fn) (Ext Glob : list bytes),
  copy_we_ok T Ext Glob = true ->
  let E := copy_entries T in
  (* (1) the family is in the table, with the parameters (to, from) *)
  (forall n, In n copy_fn_names -> exists f x, In f E /\ fn_at T f = Some x /\ f_name x = n) /\
  (forall f, In f E -> exists x tt tf, fn_at T f = Some x /\ f_params x = [(B "to", tt); (B "from", tf)]) /\
  (* (2) own statements: local memory and the struct `to` points to; no writing function of another package *)
  (forall f w, In f E -> In w (writes_of T f) ->
     (forall r, In r (w_roots w) -> r = RLocal \/ r = RP 0%N 0%N) /\ (forall s, w_kind w <> WUnrec s)) /\
  (forall f c e mask smask, In f E -> In c (calls_of T f) -> c_callee c = CExt e mask smask ->
     forall r, In r (masked_roots mask smask (c_args c)) -> r = RLocal) /\
  (* (3) nothing rooted at `from` is written by a statement of a Copy function *)
  (forall f d, In f E -> In d depths -> node_bad T (f, RP 1%N d) = false) /\
  (* (4) Copy-to-Copy calls keep the roles *)
  (forall f c g, In f E -> In c (calls_of T f) -> c_callee c = CFun g -> In g E ->
     exists a0 a1, c_args c = [a0; a1] /\ roots_within [0%N] (arg_direct a0) = true /\ roots_within [1%N] (arg_direct a1) = true) /\
  (* (5) what is handed on of `from` outside the family is written nowhere, to any depth of calls *)
  (forall n, nreach (cut_table T E) E (from_starts E) n -> node_bad T n = false) /\
  (forall g, freach (cut_table T E) E g -> fn_bad (cut_table T E) Ext Glob pol_ro g = false).
Proof.
  intros T Ext Glob H E. unfold copy_we_ok in H; cbv zeta in H; fold E in H.
  apply andb_true_iff in H; destruct H as [H Hcut]. apply andb_true_iff in H; destruct H as [H Hal].
  apply andb_true_iff in H; destruct H as [H Hfrom]. apply andb_true_iff in H; destruct H as [H Hown].
  apply andb_true_iff in H; destruct H as [Hnames Hsig].
  split; [|split; [|split; [|split; [|split; [|split; [|split]]]]]].
  - intros n Hn. unfold names_present in Hnames; rewrite forallb_forall in Hnames; specialize (Hnames n Hn).
    apply existsb_exists in Hnames; destruct Hnames as [f [Hf Hh]]. unfold has_name in Hh.
    destruct (fn_at T f) as [x|] eqn:Fx; [|discriminate]. exists f, x; split; [exact Hf|split; [exact Fx|]].
    apply bytes_eqb_eq; exact Hh.
  - intros f Hf. rewrite forallb_forall in Hsig; specialize (Hsig f Hf). unfold sig_ok in Hsig.
    destruct (fn_at T f) as [x|] eqn:Fx; [|discriminate].
    destruct (f_params x) as [|[a ta] [|[b tb] [|]]] eqn:Px; try discriminate.
    apply andb_true_iff in Hsig; destruct Hsig as [Ha Hb]; apply bytes_eqb_eq in Ha; apply bytes_eqb_eq in Hb; subst.
    exists x, ta, tb; split; [reflexivity | exact Px].
  - intros f w Hf Hw0. rewrite forallb_forall in Hown; specialize (Hown f Hf). unfold own_writes_ok in Hown.
    apply andb_true_iff in Hown; destruct Hown as [Hw _]. rewrite forallb_forall in Hw; specialize (Hw w Hw0).
    unfold own_write_ok in Hw; apply andb_true_iff in Hw; destruct Hw as [Hw1 Hw2]. split.
    + intros r Hr. rewrite forallb_forall in Hw1; apply to_struct_or_local_eq; apply Hw1; exact Hr.
    + intros s Hs. rewrite Hs in Hw2; discriminate.
  - intros f c e mask smask Hf Hc He r Hr. rewrite forallb_forall in Hown; specialize (Hown f Hf). unfold own_writes_ok in Hown.
    apply andb_true_iff in Hown; destruct Hown as [_ Hc']. rewrite forallb_forall in Hc'; specialize (Hc' c Hc).
    unfold own_call_ok in Hc'; rewrite He in Hc'. rewrite forallb_forall in Hc'; specialize (Hc' r Hr).
    destruct r; try discriminate; reflexivity.
  - intros f d Hf Hd. rewrite forallb_forall in Hfrom; specialize (Hfrom f Hf). unfold from_not_written in Hfrom.
    rewrite forallb_forall in Hfrom. apply negb_true_iff. apply Hfrom. unfold from_nodes.
    apply in_map_iff; exists d; split; [reflexivity | exact Hd].
  - intros f c g Hf Hc Hg Hin. rewrite forallb_forall in Hal; specialize (Hal f Hf). unfold calls_aligned in Hal.
    rewrite forallb_forall in Hal; specialize (Hal c Hc). unfold aligned_call in Hal; rewrite Hg in Hal.
    rewrite (In_mem_f g E Hin) in Hal. destruct (c_args c) as [|a0 [|a1 [|]]]; try discriminate.
    apply andb_true_iff in Hal; destruct Hal as [A0 A1]. exists a0, a1; split; [reflexivity|split; assumption].
  - intros n Hn. unfold handed_on_ok in Hcut.
    destruct (check_sound (cut_table T E) Ext Glob pol_ro we_fuel E (from_starts E) Hcut) as [_ Hnodes].
    rewrite <- (node_bad_cut T E n). apply Hnodes; exact Hn.
  - intros g Hg. unfold handed_on_ok in Hcut.
    destruct (check_sound (cut_table T E) Ext Glob pol_ro we_fuel E (from_starts E) Hcut) as [Hfns _].
    apply Hfns; exact Hg.
Qed.

(* the diagnosis is complete: no offence found = the condition holds *)
Lemma first_some_none : forall (A B : Type) (f : A -> option B) (l : list A),
  first_some f l = None -> forall x, In x l -> f x = None.
Proof.
  intros A B f l; induction l as [|y l IH]; intros H x Hx; [destruct Hx|].
  unfold first_some in H; simpl in H. destruct (f y) eqn:Fy; [discriminate|].
  destruct Hx as [Hx|Hx]; [subst; exact Fy | apply IH; [exact H | exact Hx]].
Qed.

Theorem copy_first_bad_none : forall (T : list fn) (Ext Glob Files : list bytes),
  copy_first_bad T Ext Glob Files = None -> copy_we_ok T Ext Glob = true.
Proof.
  intros T Ext Glob Files H. unfold copy_first_bad in H; cbv zeta in H.
  set (E := copy_entries T) in *.
  destruct (first_some (fun n => if existsb (has_name T n) E then None else Some (CoMissing (show n))) copy_fn_names) eqn:F1; [discriminate|].
  destruct (first_some (fun f => if sig_ok T f then None else Some (CoSignature (fn_label T f))) E) eqn:F2; [discriminate|].
  destruct (first_some (first_own T Ext Glob Files) E) eqn:F3; [discriminate|].
  destruct (first_some (first_from T Ext Glob Files) E) eqn:F4; [discriminate|].
  destruct (first_some (first_misaligned T Ext Glob Files E) E) eqn:F5; [discriminate|].
  destruct (first_bad (cut_table T E) Ext Glob Files pol_ro we_fuel E (from_starts E)) eqn:F6; [discriminate|].
  unfold copy_we_ok; cbv zeta; fold E.
  apply andb_true_iff; split; [apply andb_true_iff; split; [apply andb_true_iff; split; [apply andb_true_iff; split; [apply andb_true_iff; split|]|]|]|].
  - unfold names_present; apply forallb_forall; intros n Hn.
    pose proof (first_some_none _ _ _ _ F1 n Hn) as X; cbv beta in X.
    destruct (existsb (has_name T n) E); [reflexivity|discriminate].
  - apply forallb_forall; intros f Hf. pose proof (first_some_none _ _ _ _ F2 f Hf) as X; cbv beta in X.
    destruct (sig_ok T f); [reflexivity|discriminate].
  - apply forallb_forall; intros f Hf. pose proof (first_some_none _ _ _ _ F3 f Hf) as X. unfold first_own in X.
    match type of X with match ?a with _ => _ end = None => destruct a eqn:W; [discriminate|] end.
    unfold own_writes_ok; apply andb_true_iff; split; apply forallb_forall.
    + intros w Hw. pose proof (first_some_none _ _ _ _ W w Hw) as Y; cbv beta in Y.
      destruct (own_write_ok w); [reflexivity|discriminate].
    + intros c Hc. pose proof (first_some_none _ _ _ _ X c Hc) as Y; cbv beta in Y.
      destruct (own_call_ok c); [reflexivity|discriminate].
  - apply forallb_forall; intros f Hf. pose proof (first_some_none _ _ _ _ F4 f Hf) as X. unfold first_from in X.
    unfold from_not_written; apply forallb_forall; intros n Hn.
    pose proof (first_some_none _ _ _ _ X n Hn) as Y; cbv beta in Y.
    destruct (node_offence T Ext Glob Files n) eqn:NO; [discriminate|]. clear Y.
    apply negb_true_iff. unfold node_bad. unfold node_offence in NO.
    match type of NO with match ?a with _ => _ end = None => destruct a eqn:W; [discriminate|] end.
    apply orb_false_iff; split.
    + destruct (existsb (fun w => mem_root (snd n) (w_roots w)) (writes_of T (fst n))) eqn:Ex; [|reflexivity].
      apply existsb_exists in Ex; destruct Ex as [w [Hw Hm]].
      pose proof (first_some_none _ _ _ _ W w Hw) as Y; cbv beta in Y. rewrite Hm in Y; discriminate.
    + destruct (existsb (call_writes_root (snd n)) (calls_of T (fst n))) eqn:Ex; [|reflexivity].
      apply existsb_exists in Ex; destruct Ex as [c [Hc Hm]].
      pose proof (first_some_none _ _ _ _ NO c Hc) as Y; cbv beta in Y. rewrite Hm in Y; discriminate.
  - apply forallb_forall; intros f Hf. pose proof (first_some_none _ _ _ _ F5 f Hf) as X. unfold first_misaligned in X.
    unfold calls_aligned; apply forallb_forall; intros c Hc.
    pose proof (first_some_none _ _ _ _ X c Hc) as Y; cbv beta in Y.
    destruct (aligned_call E c); [reflexivity|discriminate].
  - unfold handed_on_ok. exact (first_bad_none _ _ _ _ _ _ _ _ F6).
Qed.

(* ------------------------------------------------------------------ the table of this run *)
(* stated on the unfolded form: the lemmas above are applied to it without any conversion *)
Lemma copy_we_first_bad_none' : copy_first_bad we_table we_externals we_globals we_files = None.
Proof. vm_compute. reflexivity. Qed.

Lemma copy_we_first_bad_none : copy_we_first_bad = None.
Proof. unfold copy_we_first_bad. exact copy_we_first_bad_none'. Qed.

Lemma copy_we_holds : copy_we_ok we_table we_externals we_globals = true.
Proof. exact (copy_first_bad_none we_table we_externals we_globals we_files copy_we_first_bad_none'). Qed.

Lemma copy_we_handed_on :
  check (cut_table we_table (copy_entries we_table)) we_externals we_globals pol_ro we_fuel (copy_entries we_table)
        (from_starts (copy_entries we_table)) = true.
Proof. vm_compute. reflexivity. Qed.

Definition copy_we_facts := copy_we_sound we_table we_externals we_globals copy_we_holds.

(* non-vacuity: the eight functions are found; `from` really travels: the `new` parameter of the replaceIf.. helpers,
   the argument of ToObject and the receiver of Object.GetLink are reached from the `from` parameters; and the
   function literal IsNil hands to OnObject is among the functions followed *)
Definition copy_index (q : bytes) : N := we_index q.

Lemma copy_we_nontrivial :
  length copy_we_entries = 8 /\
  map (fn_label we_table) copy_we_entries =
    ["CopyCollectionPageProperties"; "CopyCollectionProperties"; "CopyItemProperties"; "CopyObjectProperties";
     "CopyOrderedCollectionPageProperties"; "CopyOrderedCollectionProperties"; "UpdatePersonProperties";
     "copyAllItemProperties"]%string /\
  forallb (fun n => mem_n n (reach_n (cut_table we_table copy_we_entries) we_fuel copy_we_entries (from_starts copy_we_entries)))
    [(copy_index (B "replaceIfItemCollection"), RP 1%N 0%N); (copy_index (B "replaceIfItem"), RP 1%N 0%N);
     (copy_index (B "replaceIfSource"), RP 1%N 0%N); (copy_index (B "ToObject"), RP 0%N 0%N);
     (copy_index (B "Object.GetLink"), RP 0%N 0%N); (copy_index (B "IsNil"), RP 0%N 0%N)] = true /\
  (50 <=? length (reach_f (cut_table we_table copy_we_entries) we_fuel copy_we_entries)) = true.
Proof. vm_compute. repeat split; reflexivity. Qed.

Lemma copy_we_reaches_helper :
  nreach (cut_table we_table copy_we_entries) copy_we_entries (from_starts copy_we_entries)
         (copy_index (B "replaceIfItemCollection"), RP 1%N 0%N).
Proof.
  unfold copy_we_entries.
  destruct (check_exact _ _ _ _ _ _ _ copy_we_handed_on) as [_ Hn].
  apply Hn. apply mem_n_In. vm_compute. reflexivity.
Qed.

(* ------------------------------------------------------------------ mutated tables are refused, the offender named *)
Lemma copy_truncates_from_refuted :
  copy_we_ok T_truncates_from we_externals we_globals = false /\
  copy_first_bad T_truncates_from we_externals we_globals we_files =
    Some (CoOwnWrite "CopyObjectProperties" "copy.go" 102%N WField [RP 1%N 0%N]) /\
  node_bad T_truncates_from (copy_index (B "CopyObjectProperties"), RP 1%N 0%N) = true.
Proof. vm_compute. repeat split; reflexivity. Qed.

Lemma copy_helper_clears_refuted :
  copy_we_ok T_helper_clears we_externals we_globals = false /\
  copy_first_bad T_helper_clears we_externals we_globals we_files =
    Some (CoHandedOn (OffParamWrite "replaceIfItemCollection" (RP 1%N 0%N) "copy.go" 216%N "write statement")).
Proof. vm_compute. split; reflexivity. Qed.

Lemma copy_writes_below_to_refuted :
  copy_we_ok T_writes_below_to we_externals we_globals = false /\
  copy_first_bad T_writes_below_to we_externals we_globals we_files =
    Some (CoOwnWrite "CopyObjectProperties" "copy.go" 102%N WIndex [RP 0%N 1%N]).
Proof. vm_compute. split; reflexivity. Qed.

(* why the condition is not simply C12's node condition started at the `from` parameters: on the table of this run that
   search reaches the `to` of a nested Copy call (the merge shares from's members with `to`, and the To.. views are
   "to at any depth" for the analysis) and reports the field stores of the merge itself *)
Lemma copy_uncut_condition_too_coarse :
  first_bad we_table we_externals we_globals we_files pol_ro we_fuel copy_we_entries (from_starts copy_we_entries)
  = Some (OffParamWrite "CopyOrderedCollectionProperties" (RP 0%N 0%N) "copy.go" 31%N "write statement").
Proof. vm_compute. reflexivity. Qed.
