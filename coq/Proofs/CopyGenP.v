(* C18: the table condition evaluated on the tables regenerated from the source on this run. *)
From AP.Model Require Import Prelude Vocab Pred Layout IriEq Copy CopyGen.
From AP.Proofs Require Import NlvP CopyP.

Lemma gen_tables_ok : tables_ok gen_copy_tables = true.
Proof. vm_compute. reflexivity. Qed.

Lemma pinned_tables_not_ok :
  tables_ok pinned_copy_tables = false /\
  first_bad_rule pinned_copy_tables = Some (B "CopyCollectionProperties", Some (F_Duration, IfFromZero)).
Proof. split; vm_compute; reflexivity. Qed.

Lemma gen_refuse to from :
  refusal gen_copy_tables ids_equivalent to from = true -> copy_item_m to from = (Err, to).
Proof. apply refuse_full. exact gen_tables_ok. Qed.

Lemma gen_accept p q x fn tfs ffs :
  select gen_copy_tables (get_str F_Type tfs) (ct_dispatch gen_copy_tables) = Sel x fn ->
  refusal gen_copy_tables ids_equivalent (IObj p x tfs) (IObj q x ffs) = false ->
  exists r, copy_item_m (IObj p x tfs) (IObj q x ffs) = (Ok r, if p then r else IObj p x tfs).
Proof. apply accept_full. exact gen_tables_ok. Qed.

Lemma gen_merge p q x fn tfs ffs r ta :
  wf_fields gen_copy_tables x tfs = true -> wf_fields gen_copy_tables x ffs = true ->
  select gen_copy_tables (get_str F_Type tfs) (ct_dispatch gen_copy_tables) = Sel x fn ->
  copy_item_m (IObj p x tfs) (IObj q x ffs) = (Ok r, ta) ->
  fget F_ID r = getf F_ID ffs /\ fget F_Type r = getf F_Type ffs /\
  (forall g, fget g r = getf g tfs \/ fget g r = getf g ffs) /\
  (forall g, g <> F_ID -> getf g tfs <> None -> getf g ffs = None -> fget g r = getf g tfs) /\
  (forall g, In g (merged x) -> getf g ffs <> None -> fget g r = getf g ffs) /\
  ta = (if p then r else IObj p x tfs) /\
  ids_equivalent (get_str F_ID tfs) (get_str F_ID ffs) = true.
Proof. apply merge_full. exact gen_tables_ok. Qed.

(* the type names the dispatch accepts are exactly those of the property's six struct types *)
Lemma gen_supported_kinds :
  forall ty x fn, select gen_copy_tables ty (ct_dispatch gen_copy_tables) = Sel x fn -> In x copy_kinds.
Proof.
  intros ty x fn H. destruct (select_in gen_copy_tables ty _ x fn H) as [c Hin].
  assert (A : forallb (fun d => match d with
                                | DCase _ y _ => existsb (kind_beq y) copy_kinds
                                | _ => true end) (ct_dispatch gen_copy_tables) = true)
    by (vm_compute; reflexivity).
  rewrite forallb_forall in A. specialize (A _ Hin). cbv beta iota in A.
  apply existsb_exists in A. destruct A as [k [Hk E]]. apply kind_beq_eq in E. subst k. exact Hk.
Qed.

Lemma gen_supported_names : supported_ok gen_copy_tables = true.
Proof. vm_compute. reflexivity. Qed.

(* witnesses against the pinned tables *)
Lemma pinned_duration_lost :
  exists to from r ta, copy_item_full pinned_copy_tables ids_equivalent to from = (Ok r, ta) /\
    fget F_Duration to <> None /\ fget F_Duration from = None /\ fget F_Duration r <> fget F_Duration to.
Proof.
  exists c18_to_duration, c18_from_plain. eexists. eexists.
  split; [vm_compute; reflexivity|]. vm_compute. repeat split; discriminate.
Qed.

Lemma pinned_source_lost :
  exists to from r ta, copy_item_full pinned_copy_tables ids_equivalent to from = (Ok r, ta) /\
    fget F_Source to <> None /\ fget F_Source from = None /\ fget F_Source r <> fget F_Source to.
Proof.
  exists c18_to_source, c18_from_plain. eexists. eexists.
  split; [vm_compute; reflexivity|]. vm_compute. repeat split; discriminate.
Qed.

Lemma pinned_typed_nil_panics :
  exists to from p, refusal pinned_copy_tables ids_equivalent to from = true /\
    copy_item_full pinned_copy_tables ids_equivalent to from = (Panic p, to) /\
    copy_item_m to from = (Err, to).
Proof.
  exists (ITNil KObject), c18_from_plain. eexists.
  split; [vm_compute; reflexivity|]. split; vm_compute; reflexivity.
Qed.

(* the same inputs on the regenerated tables keep both *)
Lemma gen_duration_source_kept :
  (exists r, copy_item_m c18_to_duration c18_from_plain = (Ok r, r) /\ fget F_Duration r = fget F_Duration c18_to_duration) /\
  (exists r, copy_item_m c18_to_source c18_from_plain = (Ok r, r) /\ fget F_Source r = fget F_Source c18_to_source).
Proof. split; eexists; (split; [vm_compute; reflexivity | vm_compute; reflexivity]). Qed.

(* the hypotheses of the merge theorem are satisfiable by a non-trivial pair *)
Lemma gen_merge_example :
  exists tfs ffs r,
    c18_to_rich = IObj true KActor tfs /\ c18_from_rich = IObj true KActor ffs /\
    wf_fields gen_copy_tables KActor tfs = true /\ wf_fields gen_copy_tables KActor ffs = true /\
    select gen_copy_tables (get_str F_Type tfs) (ct_dispatch gen_copy_tables) = Sel KActor (B "UpdatePersonProperties") /\
    copy_item_m c18_to_rich c18_from_rich = (Ok r, r) /\
    fget F_Name r = getf F_Name ffs /\
    fget F_Tag r = Some (FItems (Some [])) /\ fget F_Inbox r = getf F_Inbox tfs /\
    fget F_Outbox r = getf F_Outbox ffs /\ fget F_Duration r = getf F_Duration tfs.
Proof.
  eexists. eexists. eexists. split; [reflexivity|]. split; [reflexivity|].
  split; [vm_compute; reflexivity|]. split; [vm_compute; reflexivity|]. split; [vm_compute; reflexivity|].
  split; [vm_compute; reflexivity|]. vm_compute. repeat split; reflexivity.
Qed.

(* IRI.Equals(.., false): only the empty id is equivalent to the empty id *)
Lemma index_from_skipn sep : sep <> [] -> forall s n m,
  Bytes.index_from n sep s = Some m -> skipn (m - n) s <> [] /\ n <= m.
Proof.
  intros Hs s. induction s as [|c s IH]; intros n m H; simpl in H.
  - destruct sep; [congruence|]. simpl in H. discriminate.
  - destruct (Bytes.is_prefix sep (c :: s)) eqn:P.
    + inversion H; subst. rewrite Nat.sub_diag. simpl. split; [discriminate | lia].
    + destruct (IH _ _ H) as [A B]. split; [|lia].
      replace (m - n) with (S (m - S n)) by lia. simpl. exact A.
Qed.

Lemma lower_nil a : lower a = [] -> a = [].
Proof. destruct a; [reflexivity | discriminate]. Qed.

Lemma fold_eqb_nil a : fold_eqb a [] = true -> a = [].
Proof. unfold fold_eqb. intro H. apply bytes_eqb_eq in H. apply lower_nil. exact H. Qed.

Lemma strip_scheme_nil u : strip_scheme u = [] -> u = [].
Proof.
  unfold strip_scheme, Bytes.index. destruct (Bytes.index_from 0 (B "://") u) as [n|] eqn:E; [|auto].
  intro H. destruct (index_from_skipn (B "://") ltac:(discriminate) u 0 n E) as [A _].
  rewrite Nat.sub_0_r in A. contradiction.
Qed.

Lemma strip_fragment_nil u : strip_fragment u = [] -> u = [].
Proof.
  unfold strip_fragment. destruct (Bytes.index [Url.hash] u) as [[|n]|]; auto.
  destruct u; [reflexivity | simpl; discriminate].
Qed.

Lemma ids_equivalent_empty a : ids_equivalent a [] = true -> a = [].
Proof.
  unfold ids_equivalent, iri_eqb, iri_equals_m, iri_equals.
  change (strip_scheme (strip_fragment [])) with (@nil byte).
  destruct (fold_eqb (strip_scheme (strip_fragment a)) []) eqn:F.
  - intros _. apply fold_eqb_nil in F. apply strip_scheme_nil in F. apply strip_fragment_nil in F. exact F.
  - unfold iris_equal. change (Url.url_classify []) with Url.UFallback.
    destruct (Url.url_classify a); try discriminate; intro H; apply fold_eqb_nil; exact H.
Qed.
