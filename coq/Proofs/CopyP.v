(* Lemmas for C18: the rule interpreter of Model/Copy.v, generic over tables satisfying tables_ok. *)
From AP.Model Require Import Prelude Vocab Pred Layout Copy.
From AP.Proofs Require Import NlvP.

(* ------------------------------------------------------------------ decidable equalities *)
Lemma fid_beq_eq a b : fid_beq a b = true <-> a = b.
Proof. split; [apply internal_fid_dec_bl | apply internal_fid_dec_lb]. Qed.
Lemma fid_beq_refl a : fid_beq a a = true.
Proof. apply fid_beq_eq; reflexivity. Qed.
Lemma fid_beq_neq a b : a <> b -> fid_beq a b = false.
Proof. intro H. destruct (fid_beq a b) eqn:E; [apply fid_beq_eq in E; contradiction | reflexivity]. Qed.
Lemma kind_beq_eq a b : kind_beq a b = true <-> a = b.
Proof. split; [apply internal_kind_dec_bl | apply internal_kind_dec_lb]. Qed.
Lemma kind_beq_refl a : kind_beq a a = true.
Proof. apply kind_beq_eq; reflexivity. Qed.

(* ------------------------------------------------------------------ field lists *)
Lemma getf_delf_same f fs : getf f (delf f fs) = None.
Proof.
  induction fs as [|[g v] r IH]; simpl; [reflexivity|].
  destruct (fid_beq f g) eqn:E; [exact IH|]. simpl. rewrite E. exact IH.
Qed.

Lemma getf_delf_other f g fs : f <> g -> getf g (delf f fs) = getf g fs.
Proof.
  intro Hn. induction fs as [|[h v] r IH]; simpl; [reflexivity|].
  destruct (fid_beq f h) eqn:E.
  - apply fid_beq_eq in E; subst h. rewrite (fid_beq_neq g f) by congruence. exact IH.
  - simpl. rewrite IH. reflexivity.
Qed.

Lemma getf_replf_same f v fs : getf f (replf f v fs) = Some v.
Proof.
  induction fs as [|[g w] r IH]; simpl.
  - rewrite fid_beq_refl; reflexivity.
  - destruct (fid_beq f g) eqn:E; simpl.
    + rewrite fid_beq_refl; reflexivity.
    + rewrite E. exact IH.
Qed.

Lemma getf_replf_other f g v fs : f <> g -> getf g (replf f v fs) = getf g fs.
Proof.
  intro Hn. induction fs as [|[h w] r IH]; simpl.
  - rewrite (fid_beq_neq g f) by congruence. reflexivity.
  - destruct (fid_beq f h) eqn:E; simpl.
    + apply fid_beq_eq in E; subst h. rewrite (fid_beq_neq g f) by congruence. reflexivity.
    + rewrite IH. reflexivity.
Qed.

Lemma getf_putf_same f o fs : getf f (putf f o fs) = o.
Proof. destruct o; simpl; [apply getf_replf_same | apply getf_delf_same]. Qed.
Lemma getf_putf_other f g o fs : f <> g -> getf g (putf f o fs) = getf g fs.
Proof. intro H. destruct o; simpl; [apply getf_replf_other | apply getf_delf_other]; exact H. Qed.

Lemma getf_in f v fs : getf f fs = Some v -> In (f, v) fs.
Proof.
  induction fs as [|[g w] r IH]; simpl; [discriminate|].
  destruct (fid_beq f g) eqn:E.
  - apply fid_beq_eq in E; subst g. intro H; inversion H; subst. left; reflexivity.
  - intro H. right. exact (IH H).
Qed.

Lemma lookup_f_notin {A} f (l : list (fid * A)) :
  existsb (fid_beq f) (map fst l) = false -> lookup_f f l = None.
Proof.
  induction l as [|[g v] r IH]; simpl; [reflexivity|].
  destruct (fid_beq f g); simpl; [discriminate | exact IH].
Qed.

Lemma lookup_f_in {A} f (v : A) l : lookup_f f l = Some v -> In (f, v) l.
Proof.
  induction l as [|[g w] r IH]; simpl; [discriminate|].
  destruct (fid_beq f g) eqn:E.
  - apply fid_beq_eq in E; subst g. intro H; inversion H; subst. left; reflexivity.
  - intro H. right. exact (IH H).
Qed.

Lemma find_fd_fid f l d : find_fd f l = Some d -> fd_fid d = f /\ In d l.
Proof.
  induction l as [|e r IH]; simpl; [discriminate|].
  destruct (fid_beq f (fd_fid e)) eqn:E.
  - apply fid_beq_eq in E. intro H; inversion H; subst d. split; [symmetry; exact E | left; reflexivity].
  - intro H. destruct (IH H) as [A B]. split; [exact A | right; exact B].
Qed.

(* ------------------------------------------------------------------ the view through *X *)
Section View.
  Variable T : copy_tables.

  Lemma getf_view_notin k fs g l :
    existsb (fid_beq g) (map fd_fid l) = false ->
    getf g (flat_map (fun fd => match getf (phys k (fd_fid fd)) fs with
                                | Some v => [(fd_fid fd, v)] | None => [] end) l) = None.
  Proof.
    induction l as [|d r IH]; simpl; [reflexivity|].
    destruct (fid_beq g (fd_fid d)) eqn:E; simpl; [discriminate|]. intro H.
    destruct (getf (phys k (fd_fid d)) fs); simpl; [rewrite E|]; exact (IH H).
  Qed.

  Lemma getf_view_gen k fs g l :
    nodup_f (map fd_fid l) = true ->
    getf g (flat_map (fun fd => match getf (phys k (fd_fid fd)) fs with
                                | Some v => [(fd_fid fd, v)] | None => [] end) l)
    = match find_fd g l with Some _ => getf (phys k g) fs | None => None end.
  Proof.
    induction l as [|d r IH]; simpl; [reflexivity|].
    intro H. apply andb_true_iff in H. destruct H as [Hn Hr].
    destruct (fid_beq g (fd_fid d)) eqn:E.
    - apply fid_beq_eq in E. subst g.
      destruct (getf (phys k (fd_fid d)) fs) eqn:G; simpl.
      + rewrite fid_beq_refl. reflexivity.
      + apply getf_view_notin. apply negb_true_iff. exact Hn.
    - destruct (getf (phys k (fd_fid d)) fs); simpl; [rewrite E|]; exact (IH Hr).
  Qed.

  Lemma getf_view x fs g :
    layout_ok T x = true ->
    getf g (view_fields T x x fs)
    = match find_fd g (ct_layout T x) with Some _ => getf g fs | None => None end.
  Proof.
    intro H. unfold layout_ok in H.
    apply andb_true_iff in H. destruct H as [H _].
    apply andb_true_iff in H. destruct H as [Hnd Hph].
    unfold view_fields. rewrite getf_view_gen by exact Hnd.
    destruct (find_fd g (ct_layout T x)) eqn:F; [|reflexivity].
    apply find_fd_fid in F. destruct F as [Fa Fb].
    rewrite forallb_forall in Hph. specialize (Hph _ Fb). apply fid_beq_eq in Hph.
    rewrite Fa in Hph. rewrite Hph. reflexivity.
  Qed.
End View.

(* ------------------------------------------------------------------ well-formed field lists *)
Lemma wf_fields_get T k fs g v :
  wf_fields T k fs = true -> getf g fs = Some v ->
  fval_is_zero v = false /\ exists d, find_fd g (ct_layout T k) = Some d /\ type_ok (fd_type d) v = true.
Proof.
  intros W G. apply getf_in in G. unfold wf_fields in W. rewrite forallb_forall in W.
  specialize (W _ G). simpl in W. apply andb_true_iff in W. destruct W as [Z Ty].
  split; [apply negb_true_iff; exact Z|].
  destruct (find_fd g (ct_layout T k)) as [d|]; [|discriminate]. exists d. split; [reflexivity | exact Ty].
Qed.

(* a field value admissible at field g of struct x: absent, or a non-zero value of the field's Go type *)
Definition fits (T : copy_tables) (x : kind) (g : fid) (o : option fval) : Prop :=
  forall v, o = Some v ->
    fval_is_zero v = false /\ exists d, find_fd g (ct_layout T x) = Some d /\ type_ok (fd_type d) v = true.

Lemma wf_fits T x fs g : wf_fields T x fs = true -> fits T x g (getf g fs).
Proof. intros W v G. exact (wf_fields_get T x fs g v W G). Qed.

Lemma gotype_eqb_eq a b : gotype_eqb a b = true -> a = b.
Proof.
  destruct a, b; simpl; try discriminate; try reflexivity.
  intro H. apply bytes_eqb_eq in H. subst. reflexivity.
Qed.

(* ------------------------------------------------------------------ meaning of the admissible rules *)
Section Rules.
  Variable T : copy_tables.
  Variable x : kind.

  Lemma rule_keeps g r fn t f :
    rule_admissible T x g r = true -> r <> Always -> rule_fun T r = Some fn ->
    fits T x g t -> fits T x g f ->
    (fn t f = t \/ fn t f = f) /\ (t <> None -> f = None -> fn t f = t).
  Proof.
    intros A NA RF Ft Ff. unfold rule_admissible in A.
    destruct (find_fd g (ct_layout T x)) as [d|] eqn:FD; [|discriminate].
    assert (from_if_set : forall t f : option fval,
              ((if is_set f then f else t) = t \/ (if is_set f then f else t) = f)
              /\ (t <> None -> f = None -> (if is_set f then f else t) = t)).
    { intros t0 f0. destruct f0; simpl; split; auto. intros _ H; discriminate. }
    destruct r; simpl in RF.
    - destruct (helper_is T _ _); inversion RF; subst. apply from_if_set.
    - destruct (helper_is T _ _); inversion RF; subst. apply from_if_set.
    - destruct (helper_is T _ _); inversion RF; subst. apply from_if_set.
    - inversion RF; subst. destruct (len_gt0 f) eqn:L; split; auto.
      intros _ Hf. subst f. discriminate.
    - inversion RF; subst. apply from_if_set.
    - inversion RF; subst. destruct t, f; simpl; split; auto; intros H1 H2; congruence.
    - inversion RF; subst. destruct t, f; simpl; split; auto; intros H1 H2; congruence.
    - discriminate.
    - congruence.
    - apply andb_true_iff in A. destruct A as [Ty SV].
      apply gotype_eqb_eq in Ty.
      destruct (helper_is T _ _); [|discriminate].
      destruct (source_variant T) as [[|]|]; try discriminate. inversion RF; subst fn. clear RF.
      unfold replace_if_source.
      destruct f as [fv|].
      2:{ destruct (source_parts t); simpl. split; auto. }
      destruct (Ff fv eq_refl) as [Zf [d' [FD' Tyf]]]. rewrite FD in FD'. inversion FD'; subst d'.
      rewrite Ty in Tyf. destruct fv; simpl in Tyf; try discriminate.
      split; [|intros _ H; discriminate].
      destruct t as [tv|].
      + destruct (Ft tv eq_refl) as [Zt [d' [FD'' Tyt]]]. rewrite FD in FD''. inversion FD''; subst d'.
        rewrite Ty in Tyt. destruct tv; simpl in Tyt; try discriminate. simpl.
        destruct (bytes_eqb mt mt0) eqn:E; simpl; [|right; reflexivity].
        apply bytes_eqb_eq in E. subst mt0.
        destruct c as [c|]; simpl.
        * right. destruct mt; reflexivity.
        * left. destruct mt; [destruct c0; [reflexivity | simpl in Zt; discriminate] | reflexivity].
      + simpl. destruct (bytes_eqb mt []) eqn:E; simpl; [|right; reflexivity].
        apply bytes_eqb_eq in E. subst mt.
        destruct c as [c|]; simpl; [right; reflexivity | simpl in Zf; discriminate].
  Qed.

  Lemma rule_from_wins g r fn t f :
    rule_admissible T x g r = true -> from_wins_rule r = true -> rule_fun T r = Some fn ->
    fits T x g f -> f <> None -> fn t f = f.
  Proof.
    intros A W RF Ff Hf. unfold rule_admissible in A.
    destruct (find_fd g (ct_layout T x)) as [d|] eqn:FD; [|discriminate].
    destruct f as [fv|]; [|congruence].
    destruct r; simpl in W; try discriminate; simpl in RF.
    - destruct (helper_is T _ _); inversion RF; subst. reflexivity.
    - destruct (helper_is T _ _); inversion RF; subst. reflexivity.
    - destruct (helper_is T _ _); inversion RF; subst. reflexivity.
    - inversion RF; subst. apply gotype_eqb_eq in A.
      destruct (Ff fv eq_refl) as [Zf [d' [FD' Tyf]]]. rewrite FD in FD'. inversion FD'; subst d'.
      rewrite A in Tyf. destruct fv; simpl in Tyf; try discriminate.
      destruct s; [simpl in Zf; discriminate | reflexivity].
    - inversion RF; subst. reflexivity.
  Qed.
End Rules.

(* ------------------------------------------------------------------ a rule list applied in order *)
Section Apply.
  Variable T : copy_tables.
  Variable x : kind.

  Lemma apply_rules_get rules : forall tfs ffs fs',
    forallb (fun fr => fid_beq (phys x (fst fr)) (fst fr)) rules = true ->
    nodup_f (map fst rules) = true ->
    apply_rules T x x rules tfs ffs = Some fs' ->
    forall g, getf g fs' =
              match lookup_f g rules with
              | Some r => match rule_fun T r with
                          | Some fn => fn (getf g tfs) (getf g ffs)
                          | None => None
                          end
              | None => getf g tfs
              end.
  Proof.
    induction rules as [|[f r] rest IH]; intros tfs ffs fs' Hph Hnd Hap g; simpl in *.
    - inversion Hap; subst. reflexivity.
    - apply andb_true_iff in Hph. destruct Hph as [Hf Hph]. apply fid_beq_eq in Hf. rewrite Hf in Hap.
      apply andb_true_iff in Hnd. destruct Hnd as [Hn Hnd]. apply negb_true_iff in Hn.
      destruct (rule_fun T r) as [fn|] eqn:RF; [|discriminate].
      rewrite (IH _ _ _ Hph Hnd Hap g).
      destruct (fid_beq g f) eqn:E.
      + apply fid_beq_eq in E. subst g. rewrite (lookup_f_notin f rest Hn). rewrite RF.
        apply getf_putf_same.
      + assert (f <> g) by (intro; subst; rewrite fid_beq_refl in E; discriminate).
        rewrite (getf_putf_other f g) by assumption. reflexivity.
  Qed.

  Lemma apply_rules_total rules : forall tfs ffs,
    forallb (fun fr => is_some (rule_fun T (snd fr))) rules = true ->
    exists fs', apply_rules T x x rules tfs ffs = Some fs'.
  Proof.
    induction rules as [|[f r] rest IH]; intros tfs ffs H; simpl in *.
    - eexists; reflexivity.
    - apply andb_true_iff in H. destruct H as [H1 H2].
      destruct (rule_fun T r); [|discriminate]. apply IH. exact H2.
  Qed.
End Apply.

(* ------------------------------------------------------------------ CopyItemProperties over tables satisfying tables_ok *)
Lemma list_eqb_eq {A} (e : A -> A -> bool) :
  (forall a b, e a b = true -> a = b) -> forall l l', list_eqb e l l' = true -> l = l'.
Proof.
  intros He l. induction l as [|a r IH]; intros [|b r'] H; simpl in H; try discriminate; [reflexivity|].
  apply andb_true_iff in H. destruct H as [H1 H2]. f_equal; [apply He; exact H1 | apply IH; exact H2].
Qed.

Lemma guard_eqb_eq a b : guard_eqb a b = true -> a = b.
Proof. destruct a, b; simpl; intro H; try discriminate; reflexivity. Qed.

Definition ty_empty (b : bytes) : bool := match b with [] => true | _ => false end.

Section Main.
  Variable T : copy_tables.
  Variable eqv : bytes -> bytes -> bool.
  Hypothesis TOK : tables_ok T = true.

  Lemma guards_expected : ct_guards T = expected_guards.
  Proof.
    unfold tables_ok in TOK. apply andb_true_iff in TOK. destruct TOK as [H _].
    apply andb_true_iff in H. destruct H as [H _].
    exact (list_eqb_eq guard_eqb guard_eqb_eq _ _ H).
  Qed.

  Lemma select_in ty d x fn : select T ty d = Sel x fn -> exists c, In (DCase c x fn) d.
  Proof.
    induction d as [|[c y f|  |s p] r IH]; simpl; try discriminate.
    destruct (cond_holds T c ty) as [[|]|]; try discriminate.
    - intro H; inversion H; subst. exists c. left; reflexivity.
    - intro H. destruct (IH H) as [c' Hc]. exists c'. right; exact Hc.
  Qed.

  Lemma dispatch_case_ok c x fn :
    In (DCase c x fn) (ct_dispatch T) ->
    layout_ok T x = true /\
    exists rules, flat_rules T copy_fuel fn x = Some rules /\ rules_ok T x rules = true.
  Proof.
    intro Hin. unfold tables_ok in TOK. apply andb_true_iff in TOK. destruct TOK as [H _].
    apply andb_true_iff in H. destruct H as [_ H]. rewrite forallb_forall in H.
    specialize (H _ Hin).
    change (is_some (cond_holds T c []) && layout_ok T x &&
            match flat_rules T copy_fuel fn x with Some rules => rules_ok T x rules | None => false end = true) in H.
    apply andb_true_iff in H. destruct H as [H Hr]. apply andb_true_iff in H. destruct H as [_ Hl].
    split; [exact Hl|]. destruct (flat_rules T copy_fuel fn x) as [rules|]; [|discriminate].
    exists rules. split; [reflexivity | exact Hr].
  Qed.

  Lemma conv_ok_refl x v : conv_ok T x x v = true.
  Proof. unfold conv_ok. rewrite kind_beq_refl. reflexivity. Qed.

  Lemma copy_all_struct p q x fn tfs ffs rules :
    select T (get_str F_Type tfs) (ct_dispatch T) = Sel x fn ->
    flat_rules T copy_fuel fn x = Some rules ->
    copy_all T (IObj p x tfs) (IObj q x ffs) =
    match apply_rules T x x rules tfs ffs with
    | None => OutOfFuel
    | Some fs' => Ok (IObj true x (view_fields T x x fs'),
                      if p then IObj true x (norm_fields T x fs') else IObj p x tfs)
    end.
  Proof.
    intros Hs Hf. unfold copy_all. cbn [get_type obind]. rewrite Hs. unfold conv. rewrite !conv_ok_refl.
    cbn [obind]. rewrite Hf. reflexivity.
  Qed.

  Lemma run_guards_struct p q kt kf tfs ffs :
    run_guards T eqv expected_guards (IObj p kt tfs) (IObj q kf ffs) =
    if eqv (get_str F_ID tfs) (get_str F_ID ffs) then
      if ty_empty (get_str F_Type tfs) || bytes_eqb (get_str F_Type tfs) (get_str F_Type ffs)
      then copy_all T (IObj p kt tfs) (IObj q kf ffs) else Err
    else Err.
  Proof.
    unfold expected_guards. cbn [run_guards is_nil get_link get_type obind].
    destruct (eqv (get_str F_ID tfs) (get_str F_ID ffs)); [|reflexivity].
    destruct (get_str F_Type tfs) as [|b l] eqn:E; cbn [ty_empty orb]; [reflexivity|].
    destruct (bytes_eqb (b :: l) (get_str F_Type ffs)); reflexivity.
  Qed.

  (* ---- refusal *)
  Lemma refuse_full to from :
    refusal T eqv to from = true -> copy_item_full T eqv to from = (Err, to).
  Proof.
    intro R. unfold copy_item_full. rewrite guards_expected.
    destruct (is_nil to) eqn:Nt.
    { unfold expected_guards. cbn [run_guards]. rewrite Nt. reflexivity. }
    destruct (is_nil from) eqn:Nf.
    { unfold expected_guards. cbn [run_guards]. rewrite Nt, Nf. reflexivity. }
    unfold refusal in R. rewrite Nt, Nf in R. cbn [orb] in R.
    destruct to as [|k|pt s|p kt tfs|pt l|pt l]; try discriminate R.
    destruct from as [|k'|pf s'|q kf ffs|pf l'|pf l']; try discriminate R.
    rewrite run_guards_struct.
    destruct (eqv (get_str F_ID tfs) (get_str F_ID ffs)); [|reflexivity]. cbn [negb orb] in R.
    destruct (get_str F_Type tfs) as [|b l] eqn:E.
    - cbn [andb orb ty_empty] in R |- *.
      unfold copy_all. cbn [get_type obind]. rewrite E.
      destruct (select T [] (ct_dispatch T)); try discriminate R. reflexivity.
    - cbn [andb orb ty_empty] in R |- *.
      destruct (bytes_eqb (b :: l) (get_str F_Type ffs)); cbn [negb orb] in R; [|reflexivity].
      unfold copy_all. cbn [get_type obind]. rewrite E.
      destruct (select T (b :: l) (ct_dispatch T)); try discriminate R. reflexivity.
  Qed.

  (* ---- acceptance: kind and type name agree, no refusal condition holds *)
  Lemma accept_full p q x fn tfs ffs :
    select T (get_str F_Type tfs) (ct_dispatch T) = Sel x fn ->
    refusal T eqv (IObj p x tfs) (IObj q x ffs) = false ->
    exists r, copy_item_full T eqv (IObj p x tfs) (IObj q x ffs)
              = (Ok r, if p then r else IObj p x tfs).
  Proof.
    intros Hs R. unfold copy_item_full. rewrite guards_expected, run_guards_struct.
    unfold refusal in R. cbn [is_nil orb] in R. apply orb_false_iff in R. destruct R as [R _].
    apply orb_false_iff in R. destruct R as [R1 R2]. apply negb_false_iff in R1. rewrite R1.
    assert (G : ty_empty (get_str F_Type tfs) || bytes_eqb (get_str F_Type tfs) (get_str F_Type ffs) = true).
    { destruct (get_str F_Type tfs); [reflexivity|]. simpl in R2. apply negb_false_iff in R2. exact R2. }
    rewrite G. destruct (select_in _ _ _ _ Hs) as [c Hin].
    destruct (dispatch_case_ok _ _ _ Hin) as [_ [rules [Hf Hr]]].
    rewrite (copy_all_struct p q x fn tfs ffs rules Hs Hf).
    unfold rules_ok in Hr. repeat (apply andb_true_iff in Hr; destruct Hr as [Hr ?]).
    assert (Htot : forallb (fun fr => is_some (rule_fun T (snd fr))) rules = true).
    { rewrite forallb_forall in *. intros fr Hfr.
      match goal with H : forall _, In _ rules -> _ && _ = true |- _ => specialize (H fr Hfr); apply andb_true_iff in H; destruct H as [_ H]; exact H end. }
    destruct (apply_rules_total T x rules tfs ffs Htot) as [fs' Hap]. rewrite Hap.
    exists (IObj true x (view_fields T x x fs')). destruct p; reflexivity.
  Qed.

  (* ---- the merge *)
  Lemma merge_full p q x fn tfs ffs r ta :
    wf_fields T x tfs = true -> wf_fields T x ffs = true ->
    select T (get_str F_Type tfs) (ct_dispatch T) = Sel x fn ->
    copy_item_full T eqv (IObj p x tfs) (IObj q x ffs) = (Ok r, ta) ->
    fget F_ID r = getf F_ID ffs /\ fget F_Type r = getf F_Type ffs /\
    (forall g, fget g r = getf g tfs \/ fget g r = getf g ffs) /\
    (forall g, g <> F_ID -> getf g tfs <> None -> getf g ffs = None -> fget g r = getf g tfs) /\
    (forall g, In g (merged x) -> getf g ffs <> None -> fget g r = getf g ffs) /\
    ta = (if p then r else IObj p x tfs) /\
    eqv (get_str F_ID tfs) (get_str F_ID ffs) = true.
  Proof.
    intros Wt Wf Hs Hc. unfold copy_item_full in Hc. rewrite guards_expected, run_guards_struct in Hc.
    destruct (eqv (get_str F_ID tfs) (get_str F_ID ffs)) eqn:EQ; [|inversion Hc].
    destruct (ty_empty (get_str F_Type tfs) || bytes_eqb (get_str F_Type tfs) (get_str F_Type ffs)) eqn:TY;
      [|inversion Hc].
    destruct (select_in _ _ _ _ Hs) as [c Hin].
    destruct (dispatch_case_ok _ _ _ Hin) as [Hl [rules [Hf Hr]]].
    rewrite (copy_all_struct p q x fn tfs ffs rules Hs Hf) in Hc.
    destruct (apply_rules T x x rules tfs ffs) as [fs'|] eqn:Hap; [|inversion Hc].
    inversion Hc; subst r ta. clear Hc.
    unfold rules_ok in Hr.
    apply andb_true_iff in Hr. destruct Hr as [Hr HType].
    apply andb_true_iff in Hr. destruct Hr as [Hr HID].
    apply andb_true_iff in Hr. destruct Hr as [Hr Hmerged].
    apply andb_true_iff in Hr. destruct Hr as [Hr Hphys].
    apply andb_true_iff in Hr. destruct Hr as [Hnd Hadm].
    pose proof (apply_rules_get T x rules tfs ffs fs' Hphys Hnd Hap) as G.
    assert (V : forall g, fget g (IObj true x (view_fields T x x fs'))
                          = match find_fd g (ct_layout T x) with Some _ => getf g fs' | None => None end).
    { intro g. simpl. apply getf_view. exact Hl. }
    (* fields outside the struct are absent on both sides *)
    assert (Out : forall g fs, wf_fields T x fs = true -> find_fd g (ct_layout T x) = None -> getf g fs = None).
    { intros g fs W Hn. destruct (getf g fs) eqn:E; [|reflexivity].
      destruct (wf_fields_get T x fs g f W E) as [_ [d [Hd _]]]. rewrite Hn in Hd. discriminate. }
    (* a field with a rule is declared by the struct *)
    assert (Decl : forall g r0, lookup_f g rules = Some r0 ->
                   rule_admissible T x g r0 = true /\ exists fn0, rule_fun T r0 = Some fn0).
    { intros g r0 L. apply lookup_f_in in L. rewrite forallb_forall in Hadm. specialize (Hadm _ L).
      simpl in Hadm. apply andb_true_iff in Hadm. destruct Hadm as [A S]. split; [exact A|].
      destruct (rule_fun T r0) as [fn0|]; [exists fn0; reflexivity | discriminate]. }
    assert (DeclIn : forall g r0, lookup_f g rules = Some r0 -> exists d, find_fd g (ct_layout T x) = Some d).
    { intros g r0 L. destruct (Decl g r0 L) as [A _]. unfold rule_admissible in A.
      destruct (find_fd g (ct_layout T x)) as [d|]; [exists d; reflexivity | discriminate]. }
    assert (IdTy : forall g, (g = F_ID \/ g = F_Type) -> lookup_f g rules = Some Always ->
                   fget g (IObj true x (view_fields T x x fs')) = getf g ffs).
    { intros g _ L. rewrite V. destruct (DeclIn g Always L) as [d Hd]. rewrite Hd.
      rewrite G, L. simpl. reflexivity. }
    assert (LID : lookup_f F_ID rules = Some Always).
    { destruct (lookup_f F_ID rules) as [[]|]; try discriminate. reflexivity. }
    assert (LTy : lookup_f F_Type rules = Some Always).
    { destruct (lookup_f F_Type rules) as [[]|]; try discriminate. reflexivity. }
    (* the general per-field fact *)
    assert (Keep : forall g,
              (fget g (IObj true x (view_fields T x x fs')) = getf g tfs
               \/ fget g (IObj true x (view_fields T x x fs')) = getf g ffs)
              /\ (g <> F_ID -> getf g tfs <> None -> getf g ffs = None ->
                  fget g (IObj true x (view_fields T x x fs')) = getf g tfs)).
    { intro g. rewrite V. destruct (find_fd g (ct_layout T x)) as [d|] eqn:FD.
      2:{ rewrite (Out g tfs Wt FD). split; [left; reflexivity | intros _ H; congruence]. }
      rewrite G. destruct (lookup_f g rules) as [r0|] eqn:L.
      2:{ split; [left; reflexivity | intros; reflexivity]. }
      destruct (Decl g r0 L) as [A [fn0 RF]]. rewrite RF.
      assert (NA_or : r0 = Always \/ r0 <> Always) by (destruct r0; (left; reflexivity) || (right; discriminate)).
      destruct NA_or as [EA|NA].
      2:{ destruct (rule_keeps T x g r0 fn0 (getf g tfs) (getf g ffs) A NA RF
                      (wf_fits T x tfs g Wt) (wf_fits T x ffs g Wf)) as [K1 K2].
          split; [exact K1 | intros _; exact K2]. }
      subst r0.
      (* Always: only id and type *)
      simpl in RF. injection RF as RF'. rewrite <- RF'. split; [right; reflexivity|].
      intros Hg Ht Hfz. unfold rule_admissible in A. rewrite FD in A.
      apply orb_true_iff in A. destruct A as [A|A]; apply fid_beq_eq in A; [contradiction|]. subst g.
      (* type: to's type is set, so it equals from's, which is then set as well *)
      exfalso. destruct (getf F_Type tfs) as [v|] eqn:Et; [|congruence].
      destruct (wf_fields_get T x tfs F_Type v Wt Et) as [Z [d' [Hd Ty]]].
      unfold layout_ok in Hl. apply andb_true_iff in Hl. destruct Hl as [_ Hl].
      destruct (find_fd F_ID (ct_layout T x)); [|discriminate]. rewrite Hd in Hl.
      apply andb_true_iff in Hl. destruct Hl as [_ Hl]. apply gotype_eqb_eq in Hl. rewrite Hl in Ty.
      destruct v; simpl in Ty; try discriminate.
      unfold get_str in TY. rewrite Et, Hfz in TY. destruct s; [simpl in Z; discriminate|].
      simpl in TY. discriminate. }
    split; [apply IdTy; [left; reflexivity | exact LID]|].
    split; [apply IdTy; [right; reflexivity | exact LTy]|].
    split; [intro g; apply Keep|].
    split; [intro g; apply Keep|].
    split.
    - intros g Hm Hset. rewrite forallb_forall in Hmerged. specialize (Hmerged g Hm).
      destruct (lookup_f g rules) as [r0|] eqn:L; [|discriminate].
      destruct (Decl g r0 L) as [A [fn0 RF]]. destruct (DeclIn g r0 L) as [d Hd].
      rewrite V, Hd, G, L, RF.
      apply (rule_from_wins T x g r0 fn0); try assumption. apply wf_fits; exact Wf.
    - split; [|reflexivity]. destruct p; reflexivity.
  Qed.
End Main.

(* a set id is never merged with an unset one when the empty id is equivalent to itself only *)
Lemma merge_id_kept T eqv : tables_ok T = true ->
  (forall a, eqv a [] = true -> a = []) ->
  forall p q x fn tfs ffs r ta,
  wf_fields T x tfs = true -> wf_fields T x ffs = true ->
  select T (get_str F_Type tfs) (ct_dispatch T) = Sel x fn ->
  copy_item_full T eqv (IObj p x tfs) (IObj q x ffs) = (Ok r, ta) ->
  getf F_ID tfs <> None -> getf F_ID ffs <> None.
Proof.
  intros TOK He p q x fn tfs ffs r ta Wt Wf Hs Hc Ht Hf.
  destruct (merge_full T eqv TOK p q x fn tfs ffs r ta Wt Wf Hs Hc) as [_ [_ [_ [_ [_ [_ E]]]]]].
  destruct (select_in T _ _ _ _ Hs) as [c Hin].
  destruct (dispatch_case_ok T TOK _ _ _ Hin) as [Hl _].
  destruct (getf F_ID tfs) as [v|] eqn:Et; [|congruence].
  destruct (wf_fields_get T x tfs F_ID v Wt Et) as [Z [d [Hd Ty]]].
  unfold layout_ok in Hl. apply andb_true_iff in Hl. destruct Hl as [_ Hl]. rewrite Hd in Hl.
  destruct (find_fd F_Type (ct_layout T x)); [|discriminate].
  apply andb_true_iff in Hl. destruct Hl as [Hl _]. apply gotype_eqb_eq in Hl. rewrite Hl in Ty.
  destruct v; simpl in Ty; try discriminate.
  unfold get_str in E. rewrite Et, Hf in E. apply He in E. subst s. simpl in Z. discriminate.
Qed.
