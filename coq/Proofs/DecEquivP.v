(* The decoder model reads equivalent documents alike (Model/DocEquiv.v, Model/JsonDec.v): for every read
   table whose statements look up known member names, each in one role (tables_keys_ok), and for all trees of
   any depth, teq a b -> load_item n a = load_item n b. *)
From AP.Model Require Import Prelude Bytes Vocab Pred Url IriEq Nlv Text Equal Coll Dispatch Layout JsonTables JsonLeaf JsonCheck JsonDec DocEquiv.
From AP.Proofs Require Import NlvP TextP WsParseP.
From Coq Require Import Permutation.
Open Scope Z_scope.

(* ------------------------------------------------------------------ lookups *)
Definition orel (P : fjv -> fjv -> Prop) (a b : option fjv) : Prop :=
  match a, b with
  | None, None => True
  | Some x, Some y => P x y
  | _, _ => False
  end.

Section Equiv.
  Variable known text : bytes -> bool.
  Notation teq := (teq known text).

  Definition role_rel (key : bytes) (x y : fjv) : Prop :=
    if text key then fj_norm x = fj_norm y else teq x y.

  Lemma teq_get ku a b key : teq a b -> known key = true -> orel (role_rel key) (fj_get ku a key) (fj_get ku b key).
  Proof.
    intros H Hk. destruct H as [r1 r2 E|t| | | |l1 l2 E|kvs1 kvs2 E]; try exact I.
    destruct (E ku key Hk) as [[E1 E2]|[x [y [E1 [E2 [Ht Hn]]]]]]; rewrite E1, E2; [exact I|].
    unfold orel, role_rel. destruct (text key); [apply Ht|apply Hn]; reflexivity.
  Qed.

  Lemma teq_jget a b key : teq a b -> known key = true -> text key = false -> orel teq (jget a key) (jget b key).
  Proof.
    intros H Hk Ht. pose proof (teq_get false a b key H Hk) as G. unfold role_rel in G. rewrite Ht in G. exact G.
  Qed.

  Lemma teq_string_bytes a b : teq a b -> fj_string_bytes a = fj_string_bytes b.
  Proof. intros H. destruct H; try reflexivity. simpl. assumption. Qed.

  Lemma orel_jstr a b : orel teq a b -> jstr a = jstr b.
  Proof. destruct a, b; simpl; try tauto. apply teq_string_bytes. Qed.

  Lemma teq_as_iri a b : teq a b -> as_iri a = as_iri b.
  Proof. intros H. destruct H; try reflexivity. simpl. rewrite H. reflexivity. Qed.

  (* what JSONGetNaturalLanguageField reads of a value depends on its normal form only *)
  Definition nl_read (v : fjv) : nl :=
    match v with
    | FObj kvs => nl_of_kvs kvs
    | FStr raw => [(NilRef, fj_unescape raw)]
    | _ => []
    end.

  Lemma nl_of_kvs_norm k1 k2 : fj_norm (FObj k1) = fj_norm (FObj k2) -> nl_of_kvs k1 = nl_of_kvs k2.
  Proof.
    simpl. intros H. injection H as H. unfold nl_of_kvs. f_equal.
    revert k2 H. induction k1 as [|[ka va] r IH]; intros [|[kb vb] r2] H; try discriminate; [reflexivity|].
    simpl in H. injection H as Hk Hv Hr. simpl. f_equal; [|apply IH; exact Hr].
    f_equal; [exact Hk|]. destruct va, vb; simpl in Hv; try discriminate; try reflexivity.
    injection Hv as Hv. exact Hv.
  Qed.

  Lemma nl_read_norm x y : fj_norm x = fj_norm y -> nl_read x = nl_read y.
  Proof.
    intros H. destruct x, y; try discriminate; try reflexivity.
    - apply nl_of_kvs_norm. exact H.
    - simpl in H. injection H as H. simpl. rewrite H. reflexivity.
  Qed.

  Lemma get_nl_field_read ku val prop :
    get_nl_field ku val prop =
    match (match fj_get ku val prop with
           | Some v => Some v
           | None => fj_get (fj_get_ku ku val prop) val (prop ++ B "Map")
           end) with
    | None => None
    | Some v => Some (nl_read v)
    end.
  Proof.
    unfold get_nl_field. destruct (fj_get ku val prop) as [v|].
    - destruct v; reflexivity.
    - destruct (fj_get (fj_get_ku ku val prop) val (prop ++ B "Map")) as [v|]; [destruct v|]; reflexivity.
  Qed.

  Lemma fj_get_miss_ku val prop k : fj_get false val prop = None ->
    fj_get (fj_get_ku false val prop) val k = fj_get true val k.
  Proof.
    destruct val; try reflexivity. unfold fj_get, fj_get_ku. simpl negb.
    destruct (has_bs prop); simpl; [reflexivity|].
    destruct (find_key (fun k0 => k0) kvs prop); [discriminate|reflexivity].
  Qed.

  Lemma teq_nl_field a b prop : teq a b ->
    known prop = true -> text prop = true -> known (prop ++ B "Map") = true -> text (prop ++ B "Map") = true ->
    get_nl_field false a prop = get_nl_field false b prop.
  Proof.
    intros H K1 T1 K2 T2. rewrite !get_nl_field_read.
    pose proof (teq_get false a b prop H K1) as G. unfold role_rel in G. rewrite T1 in G.
    destruct (fj_get false a prop) as [x|] eqn:Ea, (fj_get false b prop) as [y|] eqn:Eb; simpl in G; try contradiction.
    - rewrite (nl_read_norm x y G). reflexivity.
    - rewrite (fj_get_miss_ku a prop _ Ea), (fj_get_miss_ku b prop _ Eb).
      pose proof (teq_get true a b (prop ++ B "Map") H K2) as G2. unfold role_rel in G2. rewrite T2 in G2.
      destruct (fj_get true a (prop ++ B "Map")) as [x|], (fj_get true b (prop ++ B "Map")) as [y|]; simpl in G2; try contradiction.
      + rewrite (nl_read_norm x y G2). reflexivity.
      + reflexivity.
  Qed.

  Lemma orel_get_int64 a b : orel teq a b -> get_int64 a = get_int64 b.
  Proof. destruct a as [x|], b as [y|]; simpl; try tauto. intros H. destruct H; reflexivity. Qed.
  Lemma orel_get_float a b : orel teq a b -> get_float_micro a = get_float_micro b.
  Proof. destruct a as [x|], b as [y|]; simpl; try tauto. intros H. destruct H; reflexivity. Qed.

  (* ------------------------------------------------------------------ one level *)
  Section Level.
    Variable jr_tables : list (bytes * list rstmt).
    Variable layout_of : kind -> list fdecl.
    Variable registry load_switch : bytes -> option kind.
    Variable activity_types actor_types link_types : list bytes.
    Variable rec : fjv -> option item.
    Hypothesis Hrec : forall x y, teq x y -> rec x = rec y.
    Hypothesis Htab : tables_keys_ok known text jr_tables = true.

    Lemma items_go_teq l1 l2 : Forall2 teq l1 l2 -> forall acc, items_go rec l1 acc = items_go rec l2 acc.
    Proof.
      induction 1 as [|x y l1 l2 Hxy Hl IH]; intros acc; [reflexivity|].
      cbn [items_go]. rewrite (Hrec x y Hxy). destruct (rec y) as [[| | | | |]|]; try apply IH; reflexivity.
    Qed.

    Lemma jget_item_teq a b tm : teq a b -> known tm = true -> text tm = false -> jget_item rec a tm = jget_item rec b tm.
    Proof.
      intros H K T. unfold jget_item. pose proof (teq_jget a b tm H K T) as G.
      destruct (jget a tm) as [x|], (jget b tm) as [y|]; simpl in G; try contradiction; [|reflexivity].
      pose proof (teq_as_iri x y G) as Ei. pose proof (Hrec x y G) as Er.
      destruct G as [r1 r2 E|t| | | |l1 l2 E|kvs1 kvs2 E]; try reflexivity.
      - rewrite Ei. reflexivity.
      - unfold items_fn. rewrite (items_go_teq l1 l2 E). reflexivity.
      - exact Er.
    Qed.

    Lemma jget_uri_item_teq a b tm : teq a b -> known tm = true -> text tm = false ->
      jget_uri_item rec a tm = jget_uri_item rec b tm.
    Proof.
      intros H K T. unfold jget_uri_item. pose proof (teq_jget a b tm H K T) as G.
      destruct (jget a tm) as [x|], (jget b tm) as [y|]; simpl in G; try contradiction; [|reflexivity].
      pose proof (Hrec x y G) as Er.
      destruct G as [r1 r2 E|t| | | |l1 l2 E|kvs1 kvs2 E]; try reflexivity.
      - rewrite E. reflexivity.
      - unfold items_fn. rewrite (items_go_teq l1 l2 E). reflexivity.
      - exact Er.
    Qed.

    Lemma jget_items_teq a b tm : teq a b -> known tm = true -> text tm = false ->
      jget_items rec a tm = jget_items rec b tm.
    Proof.
      intros H K T. unfold jget_items. pose proof (teq_jget a b tm H K T) as G.
      destruct (jget a tm) as [x|], (jget b tm) as [y|]; simpl in G; try contradiction; [|reflexivity].
      pose proof (Hrec x y G) as Er.
      destruct G as [r1 r2 E|t| | | |l1 l2 E|kvs1 kvs2 E]; try reflexivity.
      - rewrite E. reflexivity.
      - unfold items_fn. rewrite (items_go_teq l1 l2 E). reflexivity.
      - rewrite Er. reflexivity.
    Qed.

    Lemma sub_get_teq a b tm :
      teq a b ->
      forallb (key_ok known text)
              (match cut_byte x2e tm with (a, Some b) => [(a, false); (b, false)] | (a, None) => [(a, false)] end) = true ->
      orel teq (sub_get a tm) (sub_get b tm).
    Proof.
      intros H Hk. unfold sub_get. destruct (cut_byte x2e tm) as [p [q|]]; simpl in Hk; unfold key_ok in Hk; simpl in Hk.
      - rewrite !andb_true_iff in Hk. destruct Hk as [[K1 T1] [[K2 T2] _]].
        apply eqb_prop in T1. apply eqb_prop in T2.
        pose proof (teq_jget a b p H K1 T1) as G.
        destruct (jget a p) as [x|], (jget b p) as [y|]; simpl in G; try contradiction; [|exact I].
        apply teq_jget; assumption.
      - rewrite !andb_true_iff in Hk. destruct Hk as [[K1 T1] _]. apply eqb_prop in T1.
        apply teq_jget; assumption.
    Qed.

    Lemma jr_table_ok name stmts : jr_table jr_tables name = Some stmts -> forallb (stmt_ok known text) stmts = true.
    Proof.
      unfold jr_table. destruct (find _ jr_tables) as [t|] eqn:E; [|discriminate]. intros H; injection H as <-.
      apply find_some in E. destruct E as [Hin _].
      unfold tables_keys_ok in Htab. apply andb_true_iff in Htab. destruct Htab as [_ Hall].
      rewrite forallb_forall in Hall. apply (Hall t Hin).
    Qed.

    Lemma type_key_ok : known (B "type") = true /\ text (B "type") = false.
    Proof.
      unfold tables_keys_ok in Htab. apply andb_true_iff in Htab. destruct Htab as [H _].
      unfold key_ok in H. simpl in H. apply andb_true_iff in H. destruct H as [K T]. apply eqb_prop in T. split; assumption.
    Qed.

    Definition gv_respects (gv : fjv -> bytes -> bytes -> bytes -> option (option fval)) : Prop :=
      forall a b g tm cv, teq a b -> forallb (key_ok known text) (stmt_keys_of g tm) = true -> gv a g tm cv = gv b g tm cv.

    Lemma run_stmts_teq gv a b : gv_respects gv -> teq a b -> forall stmts, forallb (stmt_ok known text) stmts = true ->
      forall acc, run_stmts gv a stmts acc = run_stmts gv b stmts acc.
    Proof.
      intros Hgv H stmts. induction stmts as [|s r IH]; intros Hok acc; [reflexivity|].
      simpl in Hok. apply andb_true_iff in Hok. destruct Hok as [Hs Hr].
      destruct s as [fd tm g cv gd pos|on fn pos|src pos]; cbn [run_stmts]; try reflexivity.
      simpl in Hs. rewrite (Hgv a b g tm cv H Hs).
      destruct (gv b g tm cv) as [[x|]|]; try reflexivity; apply IH; exact Hr.
    Qed.

    Lemma run_leaf_teq gv a b name : gv_respects gv -> teq a b -> run_leaf jr_tables gv name a = run_leaf jr_tables gv name b.
    Proof.
      intros Hgv H. unfold run_leaf. destruct (jr_table jr_tables name) as [st|] eqn:E.
      - apply run_stmts_teq; try assumption. apply (jr_table_ok name st E).
      - reflexivity.
    Qed.

    Ltac one_key Hk K T :=
      simpl in Hk; unfold key_ok in Hk; simpl in Hk; rewrite !andb_true_iff in Hk;
      destruct Hk as [[K T] _]; apply eqb_prop in T.

    Lemma get_value_teq : forall depth, gv_respects (get_value jr_tables rec depth).
    Proof.
      induction depth as [|d IH]; intros a b g tm cv H Hk; [reflexivity|].
      cbn [get_value]. unfold stmt_keys_of in Hk.
      destruct (existsb (bytes_eqb g) string_getters).
      { rewrite (orel_jstr _ _ (sub_get_teq a b tm H Hk)). reflexivity. }
      destruct (bytes_eqb g (B "JSONGetNaturalLanguageField")).
      { destruct (cut_byte x2e tm) as [p [q|]].
        - simpl in Hk; unfold key_ok in Hk; simpl in Hk; rewrite !andb_true_iff in Hk.
          destruct Hk as [[K1 T1] [[K2 T2] [[K3 T3] _]]]. apply eqb_prop in T1, T2, T3.
          pose proof (teq_jget a b p H K1 T1) as G.
          destruct (jget a p) as [x|], (jget b p) as [y|]; simpl in G; try contradiction; [|reflexivity].
          rewrite (teq_nl_field x y q G K2 T2 K3 T3). reflexivity.
        - simpl in Hk; unfold key_ok in Hk; simpl in Hk; rewrite !andb_true_iff in Hk.
          destruct Hk as [[K2 T2] [[K3 T3] _]]. apply eqb_prop in T2, T3.
          rewrite (teq_nl_field a b tm H K2 T2 K3 T3). reflexivity. }
      destruct (bytes_eqb g (B "JSONGetItem")).
      { one_key Hk K T. rewrite (jget_item_teq a b tm H K T). reflexivity. }
      destruct (bytes_eqb g (B "JSONGetURIItem")).
      { one_key Hk K T. rewrite (jget_uri_item_teq a b tm H K T). reflexivity. }
      destruct (bytes_eqb g (B "JSONGetItems")).
      { one_key Hk K T. rewrite (jget_items_teq a b tm H K T). reflexivity. }
      destruct (bytes_eqb g (B "JSONGetTime")).
      { one_key Hk K T. rewrite (orel_jstr _ _ (teq_jget a b tm H K T)). reflexivity. }
      destruct (bytes_eqb g (B "JSONGetDuration")).
      { one_key Hk K T. rewrite (orel_jstr _ _ (teq_jget a b tm H K T)). reflexivity. }
      destruct (bytes_eqb g (B "JSONGetInt")).
      { one_key Hk K T. rewrite (orel_get_int64 _ _ (teq_jget a b tm H K T)). reflexivity. }
      destruct (bytes_eqb g (B "JSONGetFloat")).
      { one_key Hk K T. rewrite (orel_get_float _ _ (teq_jget a b tm H K T)). reflexivity. }
      destruct (bytes_eqb g (B "JSONGetBoolean")).
      { one_key Hk K T. pose proof (teq_jget a b tm H K T) as G.
        destruct (jget a tm) as [x|], (jget b tm) as [y|]; simpl in G; try contradiction; [|reflexivity].
        destruct G; reflexivity. }
      destruct (bytes_eqb g (B "GetAPSource")).
      { rewrite (run_leaf_teq _ a b _ IH H). reflexivity. }
      destruct (bytes_eqb g (B "JSONGetActorEndpoints")).
      { one_key Hk K T. pose proof (teq_jget a b tm H K T) as G.
        destruct (jget a tm) as [x|], (jget b tm) as [y|]; simpl in G; try contradiction; [|reflexivity].
        rewrite (run_leaf_teq _ x y _ IH G). reflexivity. }
      destruct (bytes_eqb g (B "JSONGetPublicKey")).
      { one_key Hk K T. pose proof (teq_jget a b tm H K T) as G.
        destruct (jget a tm) as [x|], (jget b tm) as [y|]; simpl in G; try contradiction; [|reflexivity].
        rewrite (run_leaf_teq _ x y _ IH G). reflexivity. }
      reflexivity.
    Qed.

    Lemma table_go_teq lt a b :
      (forall fn acc, lt fn a acc = lt fn b acc) -> teq a b ->
      forall stmts, forallb (stmt_ok known text) stmts = true ->
      forall acc, table_go jr_tables rec lt a stmts acc = table_go jr_tables rec lt b stmts acc.
    Proof.
      intros Hlt H stmts. induction stmts as [|s r IH]; intros Hok acc; [reflexivity|].
      simpl in Hok. apply andb_true_iff in Hok. destruct Hok as [Hs Hr].
      destruct s as [fd tm g cv gd pos|on fn pos|src pos]; cbn [table_go]; try reflexivity.
      - simpl in Hs. rewrite (get_value_teq 3%nat a b g tm cv H Hs).
        destruct (get_value jr_tables rec 3 b g tm cv) as [[x|]|]; try reflexivity; apply IH; exact Hr.
      - rewrite Hlt. destruct (lt fn b acc); [apply IH; exact Hr|reflexivity].
    Qed.

    Lemma run_table_teq a b : teq a b -> forall depth name acc,
      run_table jr_tables rec depth name a acc = run_table jr_tables rec depth name b acc.
    Proof.
      intros H. induction depth as [|d IH]; intros name acc; [reflexivity|].
      cbn [run_table]. destruct (jr_table jr_tables name) as [st|] eqn:E; [|reflexivity].
      apply table_go_teq; [intros fn acc'; apply IH|exact H|apply (jr_table_ok name st E)].
    Qed.

    Lemma load_item_level_teq a b : teq a b ->
      load_item_level jr_tables layout_of registry load_switch activity_types actor_types link_types rec a
      = load_item_level jr_tables layout_of registry load_switch activity_types actor_types link_types rec b.
    Proof.
      intros H. unfold load_item_level. destruct type_key_ok as [K T].
      rewrite (orel_jstr _ _ (teq_jget a b (B "type") H K T)).
      assert (Ea : forall typ, as_string_iri typ a = as_string_iri typ b).
      { intros typ. unfold as_string_iri. pose proof (teq_as_iri a b H) as Ei.
        destruct typ; [|destruct a, b; reflexivity].
        destruct H; try reflexivity. rewrite Ei. reflexivity. }
      rewrite Ea. destruct (as_string_iri _ b) as [[i|]|]; [reflexivity| |reflexivity].
      destruct (registry _) as [created|]; [|reflexivity]. destruct (load_switch _) as [k|]; [|reflexivity].
      destruct (kind_beq k created); [|reflexivity].
      rewrite (run_table_teq a b H). reflexivity.
    Qed.
  End Level.

  (* ------------------------------------------------------------------ all levels *)
  Section Dec.
    Variable jr_tables : list (bytes * list rstmt).
    Variable layout_of : kind -> list fdecl.
    Variable registry load_switch : bytes -> option kind.
    Variable activity_types actor_types link_types : list bytes.
    Hypothesis Htab : tables_keys_ok known text jr_tables = true.
    Notation load := (load_item jr_tables layout_of registry load_switch activity_types actor_types link_types).
    Notation core := (unmarshal_core jr_tables layout_of registry load_switch activity_types actor_types link_types).
    Notation to_item := (unmarshal_to_item jr_tables layout_of registry load_switch activity_types actor_types link_types).

    Theorem load_item_teq : forall n a b, teq a b -> load n a = load n b.
    Proof.
      induction n as [|n IH]; intros a b H; [reflexivity|].
      cbn [load_item]. apply load_item_level_teq; [exact IH|exact Htab|exact H].
    Qed.

    Theorem unmarshal_core_teq a b : teq a b -> core a = core b.
    Proof.
      intros H. unfold unmarshal_core. pose proof (teq_as_iri a b H) as Ei.
      pose proof (load_item_teq json_dec_fuel a b H) as El.
      destruct H as [r1 r2 E|t| | | |l1 l2 E|kvs1 kvs2 E]; try reflexivity.
      - rewrite Ei. reflexivity.
      - unfold items_fn. rewrite (items_go_teq _ (load_item_teq json_dec_fuel) l1 l2 E). reflexivity.
      - exact El.
    Qed.

    Theorem unmarshal_core_equiv a b : doc_equiv known text a b -> core a = core b.
    Proof.
      induction 1 as [a b H|a|a b H IH|a b c H1 IH1 H2 IH2].
      - apply unmarshal_core_teq; exact H.
      - reflexivity.
      - symmetry; exact IH.
      - rewrite IH1; exact IH2.
    Qed.

    Theorem load_item_equiv n a b : doc_equiv known text a b -> load n a = load n b.
    Proof.
      induction 1 as [a b H|a|a b H IH|a b c H1 IH1 H2 IH2].
      - apply load_item_teq; exact H.
      - reflexivity.
      - symmetry; exact IH.
      - rewrite IH1; exact IH2.
    Qed.

    (* the document entry point: both documents inside the model (no member name spelt with and without an escape) *)
    Theorem unmarshal_to_item_equiv a b : keys_clean a = true -> keys_clean b = true ->
      doc_equiv known text a b -> to_item a = to_item b.
    Proof.
      intros Ca Cb H. unfold unmarshal_to_item. rewrite Ca, Cb. apply unmarshal_core_equiv; exact H.
    Qed.
  End Dec.
End Equiv.


(* ------------------------------------------------------------------ which documents are equivalent *)
Lemma beqb_sym a b : Byte.eqb a b = Byte.eqb b a.
Proof.
  destruct (Byte.eqb a b) eqn:E.
  - apply beqb_eq in E. subst. symmetry. apply beqb_refl.
  - destruct (Byte.eqb b a) eqn:E2; [|reflexivity]. apply beqb_eq in E2. subst. rewrite beqb_refl in E. discriminate.
Qed.

Lemma no_bs_unescape k : has_bs k = false -> fj_unescape k = k.
Proof.
  unfold has_bs. induction k as [|c r IH]; intros H; [reflexivity|].
  simpl in H. apply orb_false_iff in H. destruct H as [Hc Hr]. rewrite beqb_sym in Hc.
  cbn [fj_unescape]. rewrite Hc. simpl. rewrite (IH Hr). reflexivity.
Qed.

Lemma find_key_in f kvs key x : find_key f kvs key = Some x -> In x (map snd kvs).
Proof.
  induction kvs as [|[k v] r IH]; [discriminate|]. simpl. destruct (bytes_eqb (f k) key).
  - intros H; injection H as <-. left; reflexivity.
  - intros H. right. apply IH, H.
Qed.

Lemma fj_get_in ku kvs key x : fj_get ku (FObj kvs) key = Some x -> In x (map snd kvs).
Proof.
  unfold fj_get. destruct (negb ku && negb (has_bs key)).
  - destruct (find_key (fun k => k) kvs key) as [y|] eqn:E.
    + intros H; injection H as <-. apply (find_key_in _ _ _ _ E).
    + apply find_key_in.
  - apply find_key_in.
Qed.

Lemma find_key_notin f kvs key : ~ In key (map (fun kv : bytes * fjv => f (fst kv)) kvs) -> find_key f kvs key = None.
Proof.
  induction kvs as [|[k v] r IH]; intros H; [reflexivity|]. simpl in *.
  destruct (bytes_eqb (f k) key) eqn:E; [apply bytes_eqb_eq in E; tauto|]. apply IH. tauto.
Qed.

(* without two members of the same (unescaped) name, both passes of Object.Get find the same member *)
Lemma find_raw_unescaped kvs key x : has_bs key = false -> NoDup (ukeys kvs) ->
  find_key (fun k => k) kvs key = Some x -> find_key fj_unescape kvs key = Some x.
Proof.
  intros Hb. induction kvs as [|[k v] r IH]; intros Hn H; [discriminate|].
  simpl in *. inversion Hn as [|? ? Hnot Hn']; subst.
  destruct (bytes_eqb k key) eqn:E.
  - apply bytes_eqb_eq in E. subst k. rewrite (no_bs_unescape key Hb), bytes_eqb_refl. exact H.
  - destruct (bytes_eqb (fj_unescape k) key) eqn:E2.
    + exfalso. apply bytes_eqb_eq in E2. apply Hnot. specialize (IH Hn' H).
      destruct (In_dec (list_eq_dec Byte.byte_eq_dec) key (ukeys r)) as [Hi|Hi]; [rewrite E2; exact Hi|].
      rewrite (find_key_notin fj_unescape r key Hi) in IH. discriminate.
    + apply IH; assumption.
Qed.

Lemma fj_get_nodup ku kvs key : NoDup (ukeys kvs) -> fj_get ku (FObj kvs) key = find_key fj_unescape kvs key.
Proof.
  intros Hn. unfold fj_get. destruct (negb ku && negb (has_bs key)) eqn:E; [|reflexivity].
  apply andb_true_iff in E. destruct E as [_ Hb]. apply negb_true_iff in Hb.
  destruct (find_key (fun k => k) kvs key) as [x|] eqn:Ef; [|reflexivity].
  symmetry. apply find_raw_unescaped; assumption.
Qed.

Lemma find_key_perm f k1 k2 key : Permutation k1 k2 -> NoDup (map (fun kv : bytes * fjv => f (fst kv)) k1) ->
  find_key f k1 key = find_key f k2 key.
Proof.
  induction 1 as [|[k v] a b Hp IH|[ka va] [kb vb] l|a b c H1 IH1 H2 IH2]; intros Hn.
  - reflexivity.
  - simpl. inversion Hn; subst. rewrite IH by assumption. reflexivity.
  - simpl. simpl in Hn. inversion Hn as [|? ? Hnot Hn']; subst.
    destruct (bytes_eqb (f kb) key) eqn:E1, (bytes_eqb (f ka) key) eqn:E2; try reflexivity.
    apply bytes_eqb_eq in E1, E2. exfalso. apply Hnot. left. congruence.
  - rewrite IH1 by assumption. apply IH2.
    eapply Permutation_NoDup; [|exact Hn]. apply Permutation_map. exact H1.
Qed.

Section Rules.
  Variable known text : bytes -> bool.
  Notation teq := (teq known text).

  Lemma teq_refl : forall v, teq v v.
  Proof.
    induction v as [kvs IH|l IH|raw|tok| | |] using fjv_induction; try (constructor; reflexivity).
    - apply teq_obj. intros ku key Hk. destruct (fj_get ku (FObj kvs) key) as [x|] eqn:E; [right|left; split; reflexivity].
      exists x, x. repeat split; try reflexivity. intros _.
      pose proof (fj_get_in ku kvs key x E) as Hin. apply in_map_iff in Hin. destruct Hin as [kv [<- Hin]].
      apply (IH kv Hin).
    - apply teq_arr. induction l as [|x r IHl]; constructor.
      + apply IH. left; reflexivity.
      + apply IHl. intros e He. apply IH. right; exact He.
  Qed.

  (* objects on which every lookup of a known name gives the same member *)
  Lemma teq_same_lookups k1 k2 :
    (forall ku key, known key = true -> fj_get ku (FObj k1) key = fj_get ku (FObj k2) key) -> teq (FObj k1) (FObj k2).
  Proof.
    intros H. apply teq_obj. intros ku key Hk. specialize (H ku key Hk).
    destruct (fj_get ku (FObj k1) key) as [x|] eqn:E; [right|left; split; [reflexivity|symmetry; exact H]].
    exists x, x. repeat split; try reflexivity; [symmetry; exact H|]. intros _. apply teq_refl.
  Qed.

  (* member order: any permutation of the members of an object with pairwise different names *)
  Lemma teq_perm k1 k2 : Permutation k1 k2 -> NoDup (ukeys k1) -> teq (FObj k1) (FObj k2).
  Proof.
    intros Hp Hn. apply teq_same_lookups. intros ku key _.
    rewrite !fj_get_nodup; [apply find_key_perm; assumption| |exact Hn].
    eapply Permutation_NoDup; [|exact Hn]. apply Permutation_map. exact Hp.
  Qed.

  Lemma find_key_skip f a k v b key : f k <> key -> find_key f (a ++ (k, v) :: b) key = find_key f (a ++ b) key.
  Proof.
    intros Hne. induction a as [|[ka va] r IH]; simpl.
    - apply bytes_eqb_neq in Hne. rewrite Hne. reflexivity.
    - rewrite IH. reflexivity.
  Qed.

  (* unknown members are ignored, wherever they stand *)
  Lemma teq_extra a k v b : known (fj_unescape k) = false -> teq (FObj (a ++ b)) (FObj (a ++ (k, v) :: b)).
  Proof.
    intros Hu. apply teq_same_lookups. intros ku key Hk.
    assert (Hne : fj_unescape k <> key) by (intros E; rewrite E in Hu; congruence).
    unfold fj_get. rewrite (find_key_skip fj_unescape a k v b key Hne).
    destruct (negb ku && negb (has_bs key)) eqn:E; [|reflexivity].
    apply andb_true_iff in E. destruct E as [_ Hb]. apply negb_true_iff in Hb.
    rewrite (find_key_skip (fun k => k) a k v b key); [reflexivity|].
    intros E. subst key. apply Hne. apply no_bs_unescape, Hb.
  Qed.

  (* a later member with the name (as written) of an earlier one is never read: the first occurrence wins *)
  Lemma find_key_dup f a k v b v' c key :
    find_key f (a ++ (k, v) :: b ++ (k, v') :: c) key = find_key f (a ++ (k, v) :: b ++ c) key.
  Proof.
    induction a as [|[ka va] r IH]; simpl.
    - destruct (bytes_eqb (f k) key) eqn:E; [reflexivity|].
      apply bytes_eqb_neq in E. apply find_key_skip. exact E.
    - rewrite IH. reflexivity.
  Qed.
  Lemma teq_dup a k v b v' c : teq (FObj (a ++ (k, v) :: b ++ (k, v') :: c)) (FObj (a ++ (k, v) :: b ++ c)).
  Proof.
    apply teq_same_lookups. intros ku key _. unfold fj_get. rewrite !find_key_dup. reflexivity.
  Qed.

  (* a member replaced by an equivalent one *)
  Lemma find_key_member f a k x y b key :
    find_key f (a ++ (k, x) :: b) key = find_key f (a ++ (k, y) :: b) key \/
    (f k = key /\ find_key f (a ++ (k, x) :: b) key = Some x /\ find_key f (a ++ (k, y) :: b) key = Some y).
  Proof.
    induction a as [|[ka va] r IH]; simpl.
    - destruct (bytes_eqb (f k) key) eqn:E; [right|left; reflexivity].
      apply bytes_eqb_eq in E. repeat split; try reflexivity. exact E.
    - destruct (bytes_eqb (f ka) key); [left; reflexivity|exact IH].
  Qed.

  Lemma teq_member a k x y b :
    (text (fj_unescape k) = true -> fj_norm x = fj_norm y) -> (text (fj_unescape k) = false -> teq x y) ->
    teq (FObj (a ++ (k, x) :: b)) (FObj (a ++ (k, y) :: b)).
  Proof.
    intros Ht Hn. apply teq_obj. intros ku key Hk.
    assert (Hsame : forall o : option fjv,
              (o = None /\ o = None) \/ (exists x0 y0, o = Some x0 /\ o = Some y0 /\
                 (text key = true -> fj_norm x0 = fj_norm y0) /\ (text key = false -> teq x0 y0))).
    { intros [z|]; [right|left; split; reflexivity]. exists z, z. repeat split; try reflexivity. intros _. apply teq_refl. }
    assert (Hxy : fj_unescape k = key ->
              (exists x0 y0, Some x = Some x0 /\ Some y = Some y0 /\
                 (text key = true -> fj_norm x0 = fj_norm y0) /\ (text key = false -> teq x0 y0))).
    { intros <-. exists x, y. repeat split; try reflexivity; assumption. }
    unfold fj_get in *. destruct (negb ku && negb (has_bs key)) eqn:E.
    - apply andb_true_iff in E. destruct E as [_ Hb]. apply negb_true_iff in Hb.
      destruct (find_key_member (fun k => k) a k x y b key) as [Eq|[Ek [E1 E2]]].
      + rewrite Eq in *. destruct (find_key (fun k0 => k0) (a ++ (k, y) :: b) key) as [z|].
        * apply Hsame.
        * destruct (find_key_member fj_unescape a k x y b key) as [Eq2|[Ek2 [E12 E22]]].
          -- rewrite Eq2. apply Hsame.
          -- rewrite E12, E22. right. apply Hxy, Ek2.
      + rewrite E1, E2. right. apply Hxy. subst key. apply no_bs_unescape, Hb.
    - destruct (find_key_member fj_unescape a k x y b key) as [Eq2|[Ek2 [E12 E22]]].
      + rewrite Eq2. apply Hsame.
      + rewrite E12, E22. right. apply Hxy, Ek2.
  Qed.

  (* an element of an array replaced by an equivalent one *)
  Lemma teq_element a x y b : teq x y -> teq (FArr (a ++ x :: b)) (FArr (a ++ y :: b)).
  Proof.
    intros H. apply teq_arr. induction a as [|e r IH]; simpl.
    - constructor; [exact H|]. induction b as [|e r IH]; constructor; [apply teq_refl|exact IH].
    - constructor; [apply teq_refl|exact IH].
  Qed.
End Rules.

(* ------------------------------------------------------------------ the sets computed from the tables *)
Lemma table_key_known jr p : In p (table_keys jr) -> known_of jr (fst p) = true.
Proof.
  intros H. unfold known_of. apply existsb_exists. exists p. split; [exact H|apply bytes_eqb_refl].
Qed.

Lemma keys_roles_tables_ok jr : keys_roles_ok jr = true -> tables_keys_ok (known_of jr) (text_of jr) jr = true.
Proof.
  intros H. unfold keys_roles_ok in H. rewrite forallb_forall in H.
  assert (Hk : forall p, In p (table_keys jr) -> key_ok (known_of jr) (text_of jr) p = true).
  { intros p Hp. unfold key_ok. rewrite (table_key_known jr p Hp). exact (H p Hp). }
  unfold tables_keys_ok. apply andb_true_iff. split.
  - apply Hk. left; reflexivity.
  - apply forallb_forall. intros t Ht. apply forallb_forall. intros s Hs.
    destruct s as [fd tm g cv gd pos|on fn pos|src pos]; try reflexivity.
    cbn [stmt_ok]. apply forallb_forall. intros p Hp. apply Hk. right.
    unfold table_keys. apply in_flat_map. exists t. split; [exact Ht|].
    apply in_flat_map. exists (RProp fd tm g cv gd pos). split; [exact Hs|exact Hp].
Qed.

(* ------------------------------------------------------------------ inside the model *)
(* a document none of whose member names is written with an escape is inside the model *)
Lemma keys_plain_clean : forall v, keys_plain v = true -> keys_clean v = true.
Proof.
  induction v as [kvs IH|l IH|raw|tok| | |] using fjv_induction; try reflexivity.
  - cbn [keys_plain keys_clean]. intros H. rewrite forallb_forall in H. apply andb_true_iff. split.
    + apply negb_true_iff. unfold keys_ambiguous. apply not_true_is_false. intros E.
      apply existsb_exists in E. destruct E as [kv [Hin E]]. apply andb_true_iff in E. destruct E as [Hb _].
      specialize (H kv Hin). apply andb_true_iff in H. destruct H as [Hn _]. rewrite Hb in Hn. discriminate.
    + apply forallb_forall. intros kv Hin. apply (IH kv Hin). specialize (H kv Hin).
      apply andb_true_iff in H. tauto.
  - cbn [keys_plain keys_clean]. intros H. rewrite forallb_forall in H. apply forallb_forall.
    intros e He. apply (IH e He), (H e He).
Qed.
