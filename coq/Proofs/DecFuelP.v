(* The fuel of the decoder model is not a limit (C01 / C05).
   load_item f v recurses into the members of v with fuel f - 1: one unit per level of the document, never more.  So
   with fuel at least the nesting of the document the model answers as with ANY larger fuel (load_item_fuel): running out
   of fuel is never what makes it abstain on such a document.  The decoder runs with fuel json_dec_fuel = 301; the parser
   (fastjson, MaxDepth 300: Model/Text.v fj_parse) never yields a document nesting deeper than 300, so for every
   document the real decoder reads, 301 is as good as any fuel (unmarshal_fuel_enough).
   Generic over the tables; by induction on the fuel, through every getter of Model/JsonDec.v: two loaders of embedded
   values that agree on everything nested less deeply than val give the same result on val. *)
From AP.Model Require Import Prelude Bytes Vocab Pred Url IriEq Nlv Text Equal Coll Dispatch Layout JsonTables JsonLeaf JsonCheck JsonDec.
From AP.Proofs Require Import NlvP TextP C01ParseP C01FlatP DecEquivP.
Local Open Scope nat_scope.

Lemma fdepth_pos v : 1 <= fdepth v.
Proof. destruct v; cbn [fdepth]; lia. Qed.

Lemma jget_deeper val prop x : jget val prop = Some x -> fdepth x < fdepth val.
Proof.
  unfold jget. destruct val as [kvs|l| | | | | ]; try discriminate. intros H.
  pose proof (fj_get_in false kvs prop x H) as Hin. apply in_map_iff in Hin. destruct Hin as [kv [<- Hkv]].
  exact (fdepth_FObj_in kvs kv Hkv).
Qed.

Lemma table_go_unrec jr li lt val src pos r acc : table_go jr li lt val (RUnrecognised src pos :: r) acc = None.
Proof. reflexivity. Qed.

Section Agree.
  Variable jr_tables : list (bytes * list rstmt).
  Variable layout_of : kind -> list fdecl.
  Variable registry load_switch : bytes -> option kind.
  Variable activity_types actor_types link_types : list bytes.
  Variable rec1 rec2 : fjv -> option item.

  (* the two loaders agree on every value nested less deeply than n *)
  Definition agree (n : nat) : Prop := forall x, fdepth x < n -> rec1 x = rec2 x.

  Lemma agree_mono n m : agree n -> m <= n -> agree m.
  Proof. intros H Hle x Hx. apply H. lia. Qed.

  Lemma items_go_agree l : (forall x, In x l -> rec1 x = rec2 x) -> forall acc, items_go rec1 l acc = items_go rec2 l acc.
  Proof.
    induction l as [|x r IH]; intros H acc; [reflexivity|].
    change (items_go rec1 (x :: r) acc) with
      (match rec1 x with None => None | Some INil => items_go rec1 r acc | Some i => items_go rec1 r (ic_append acc [i]) end).
    change (items_go rec2 (x :: r) acc) with
      (match rec2 x with None => None | Some INil => items_go rec2 r acc | Some i => items_go rec2 r (ic_append acc [i]) end).
    rewrite (H x (or_introl eq_refl)).
    assert (Hr : forall a, items_go rec1 r a = items_go rec2 r a) by (intros a; apply IH; intros y Hy; apply H; right; exact Hy).
    destruct (rec2 x) as [[| | | | |]|]; try reflexivity; apply Hr.
  Qed.

  Lemma items_fn_agree n l : agree n -> fdepth (FArr l) <= n -> items_fn rec1 l = items_fn rec2 l.
  Proof.
    intros Ha Hd. unfold items_fn. apply items_go_agree. intros x Hx. apply Ha. pose proof (fdepth_FArr_in l x Hx). lia.
  Qed.

  Lemma jget_item_agree val prop : agree (fdepth val) -> jget_item rec1 val prop = jget_item rec2 val prop.
  Proof.
    intros Ha. unfold jget_item. destruct (jget val prop) as [x|] eqn:E; [|reflexivity].
    pose proof (jget_deeper val prop x E) as Hd. destruct x as [kvs|l| | | | | ]; try reflexivity.
    - apply Ha. exact Hd.
    - rewrite (items_fn_agree (fdepth val) l Ha ltac:(lia)). reflexivity.
  Qed.

  Lemma jget_uri_item_agree val prop : agree (fdepth val) -> jget_uri_item rec1 val prop = jget_uri_item rec2 val prop.
  Proof.
    intros Ha. unfold jget_uri_item. destruct (jget val prop) as [x|] eqn:E; [|reflexivity].
    pose proof (jget_deeper val prop x E) as Hd. destruct x as [kvs|l| | | | | ]; try reflexivity.
    - apply Ha. exact Hd.
    - rewrite (items_fn_agree (fdepth val) l Ha ltac:(lia)). reflexivity.
  Qed.

  Lemma jget_items_agree val prop : agree (fdepth val) -> jget_items rec1 val prop = jget_items rec2 val prop.
  Proof.
    intros Ha. unfold jget_items. destruct (jget val prop) as [x|] eqn:E; [|reflexivity].
    pose proof (jget_deeper val prop x E) as Hd. destruct x as [kvs|l| | | | | ]; try reflexivity.
    - rewrite (Ha (FObj kvs) Hd). reflexivity.
    - rewrite (items_fn_agree (fdepth val) l Ha ltac:(lia)). reflexivity.
  Qed.

  Lemma run_stmts_agree gv1 gv2 sub stmts : (forall g t c, gv1 sub g t c = gv2 sub g t c) ->
    forall acc, run_stmts gv1 sub stmts acc = run_stmts gv2 sub stmts acc.
  Proof.
    intros H. induction stmts as [|s r IH]; intros acc; [reflexivity|].
    destruct s as [fd tm g cv gd pos|on fn pos|src pos]; try reflexivity.
    change (run_stmts gv1 sub (RProp fd tm g cv gd pos :: r) acc) with
      (match gv1 sub g tm cv with
       | None => None
       | Some None => run_stmts gv1 sub r acc
       | Some (Some x) => run_stmts gv1 sub r (if fval_is_zero (link_guard gd x) then acc else setf fd (link_guard gd x) acc)
       end).
    change (run_stmts gv2 sub (RProp fd tm g cv gd pos :: r) acc) with
      (match gv2 sub g tm cv with
       | None => None
       | Some None => run_stmts gv2 sub r acc
       | Some (Some x) => run_stmts gv2 sub r (if fval_is_zero (link_guard gd x) then acc else setf fd (link_guard gd x) acc)
       end).
    rewrite H. destruct (gv2 sub g tm cv) as [[x|]|]; [apply IH|apply IH|reflexivity].
  Qed.

  (* one property through its getter, at every depth of the interpreter *)
  Lemma get_value_agree : forall d val g t c, agree (fdepth val) ->
    get_value jr_tables rec1 d val g t c = get_value jr_tables rec2 d val g t c.
  Proof.
    induction d as [|d IH]; intros val g t c Ha; [reflexivity|]. cbn [get_value].
    rewrite (jget_item_agree val t Ha), (jget_uri_item_agree val t Ha), (jget_items_agree val t Ha).
    assert (Hleaf : forall name sub, fdepth sub <= fdepth val ->
              run_leaf jr_tables (get_value jr_tables rec1 d) name sub = run_leaf jr_tables (get_value jr_tables rec2 d) name sub).
    { intros name sub Hs. unfold run_leaf. apply run_stmts_agree. intros g0 t0 c0. apply IH. exact (agree_mono _ _ Ha Hs). }
    rewrite (Hleaf (B "GetAPSource") val (le_n _)).
    destruct (jget val t) as [sub|] eqn:Ej.
    - pose proof (jget_deeper val t sub Ej) as Hd.
      rewrite (Hleaf (B "JSONGetActorEndpoints") sub ltac:(lia)), (Hleaf (B "JSONLoadPublicKey") sub ltac:(lia)). reflexivity.
    - reflexivity.
  Qed.

  Lemma run_table_agree : forall d name val acc, agree (fdepth val) ->
    run_table jr_tables rec1 d name val acc = run_table jr_tables rec2 d name val acc.
  Proof.
    induction d as [|d IH]; intros name val acc Ha; [reflexivity|]. cbn [run_table].
    destruct (jr_table jr_tables name) as [stmts|]; [|reflexivity].
    revert acc. induction stmts as [|s r IHs]; intros acc; [rewrite !table_go_nil; reflexivity|].
    destruct s as [fd tm g cv gd pos|on fn pos|src pos].
    - rewrite !table_go_prop, (get_value_agree 3 val g tm cv Ha).
      destruct (get_value jr_tables rec2 3 val g tm cv) as [[x|]|]; [apply IHs|apply IHs|reflexivity].
    - rewrite !table_go_deleg, (IH fn val acc Ha).
      destruct (run_table jr_tables rec2 d fn val acc) as [acc'|]; [apply IHs|reflexivity].
    - rewrite !table_go_unrec. reflexivity.
  Qed.

  Lemma load_item_level_agree v : agree (fdepth v) ->
    load_item_level jr_tables layout_of registry load_switch activity_types actor_types link_types rec1 v
    = load_item_level jr_tables layout_of registry load_switch activity_types actor_types link_types rec2 v.
  Proof.
    intros Ha. unfold load_item_level.
    destruct (as_string_iri (jstr (jget v (B "type"))) v) as [[i|]|]; [reflexivity| |reflexivity].
    destruct (registry (jstr (jget v (B "type")))) as [created|]; [|reflexivity].
    destruct (load_switch (jstr (jget v (B "type")))) as [k|]; [|reflexivity].
    destruct (kind_beq k created); [|reflexivity].
    rewrite (run_table_agree 6 (JsonCheck.load_table k) v [] Ha). reflexivity.
  Qed.
End Agree.

Section Fuel.
  Variable jr_tables : list (bytes * list rstmt).
  Variable layout_of : kind -> list fdecl.
  Variable registry load_switch : bytes -> option kind.
  Variable activity_types actor_types link_types : list bytes.
  Notation ld := (load_item jr_tables layout_of registry load_switch activity_types actor_types link_types).

  (* with fuel at least the nesting of the document, more fuel changes nothing *)
  Theorem load_item_fuel : forall f v, fdepth v <= f -> forall k, ld (f + k) v = ld f v.
  Proof.
    induction f as [|f IH]; intros v Hd k; [pose proof (fdepth_pos v); lia|].
    change (ld (S f + k) v) with
      (load_item_level jr_tables layout_of registry load_switch activity_types actor_types link_types (ld (f + k)) v).
    change (ld (S f) v) with
      (load_item_level jr_tables layout_of registry load_switch activity_types actor_types link_types (ld f) v).
    apply load_item_level_agree. intros x Hx. apply IH. lia.
  Qed.

  (* JSONUnmarshalToItem with any fuel (unmarshal_core is the instance json_dec_fuel) *)
  Definition unmarshal_core_g (g : nat) (v : fjv) : option item :=
    match v with
    | FArr l => match items_fn (ld g) l with Some acc => Some (IItems false (Some acc)) | None => None end
    | FObj _ => ld g v
    | FStr _ => match as_iri v with Some (Some s) => Some (IIri false s) | Some None => Some INil | None => None end
    | _ => Some INil
    end.

  Lemma unmarshal_core_is_g v :
    unmarshal_core jr_tables layout_of registry load_switch activity_types actor_types link_types v = unmarshal_core_g json_dec_fuel v.
  Proof. destruct v; reflexivity. Qed.

  (* for a document nesting at most 300 deep (every document the parser reads): the fuel of the model, 301, is as good
     as any larger one *)
  Theorem unmarshal_fuel_enough v : fdepth v <= 300 -> forall k, unmarshal_core_g (json_dec_fuel + k) v = unmarshal_core_g json_dec_fuel v.
  Proof.
    intros Hd k. assert (F : json_dec_fuel = 301) by reflexivity.
    destruct v as [kvs|l|raw|tok| | | ]; cbn [unmarshal_core_g]; [| |reflexivity|reflexivity|reflexivity|reflexivity|reflexivity].
    - apply load_item_fuel. rewrite F. lia.
    - rewrite (items_fn_agree (ld (json_dec_fuel + k)) (ld json_dec_fuel) (fdepth (FArr l)) l); [reflexivity| |apply le_n].
      intros x Hx. apply load_item_fuel. rewrite F. lia.
  Qed.
End Fuel.

(* ------------------------------------------------------------------ what the parser reads nests at most 300 deep *)
Lemma fdepth_FObj_bound kvs n : (forall kv, In kv kvs -> fdepth (snd kv) <= n) -> fdepth (FObj kvs) <= S n.
Proof.
  intros H. cbn [fdepth]. apply le_n_S. induction kvs as [|x r IH]; [lia|].
  assert (fdepth (snd x) <= n) by (apply H; left; reflexivity).
  assert ((fix go (m : list (bytes * fjv)) : nat := match m with [] => 0 | kv :: r => Nat.max (fdepth (snd kv)) (go r) end) r <= n)
    by (apply IH; intros t Ht; apply H; right; exact Ht). lia.
Qed.
Lemma fdepth_FArr_bound l n : (forall t, In t l -> fdepth t <= n) -> fdepth (FArr l) <= S n.
Proof.
  intros H. cbn [fdepth]. apply le_n_S. induction l as [|x r IH]; [lia|].
  assert (fdepth x <= n) by (apply H; left; reflexivity).
  assert ((fix go (l : list fjv) : nat := match l with [] => 0 | x :: r => Nat.max (fdepth x) (go r) end) r <= n)
    by (apply IH; intros t Ht; apply H; right; exact Ht). lia.
Qed.

Section ParserDepth.
  Variable bd : nat.
  Variable pv : bytes -> outcome (fjv * bytes).
  Hypothesis Hpv : forall s v r, pv s = Ok (v, r) -> fdepth v <= bd.

  Lemma obj_loop_depth : forall fuel s acc v rest, (forall kv, In kv acc -> fdepth (snd kv) <= bd) ->
    obj_loop fuel pv s acc = Ok (v, rest) -> fdepth v <= S bd.
  Proof.
    induction fuel as [|f IH]; intros s acc v rest Hacc H; [discriminate|]. cbn [obj_loop] in H.
    destruct (skipws s) as [|c r]; [discriminate|]. destruct (negb (Byte.eqb c bQ)); [discriminate|].
    destruct (fj_raw_string r) as [[k s1]|]; [|discriminate].
    destruct (skipws s1) as [|c1 s2]; [discriminate|]. destruct (negb (Byte.eqb c1 bCO)); [discriminate|].
    destruct (pv (skipws s2)) as [[v0 s3]| | |] eqn:Ep; try discriminate.
    pose proof (Hpv _ _ _ Ep) as Hv0.
    assert (Hacc' : forall kv, In kv ((k, v0) :: acc) -> fdepth (snd kv) <= bd)
      by (intros kv [<-|Hin]; [exact Hv0|exact (Hacc kv Hin)]).
    destruct (skipws s3) as [|c2 s4]; [discriminate|].
    destruct (Byte.eqb c2 bCM); [exact (IH _ _ _ _ Hacc' H)|].
    destruct (Byte.eqb c2 bRB); [|discriminate]. inversion H; subst. apply fdepth_FObj_bound.
    intros kv Hin. apply Hacc'. apply in_rev. exact Hin.
  Qed.

  Lemma arr_loop_depth : forall fuel s acc v rest, (forall t, In t acc -> fdepth t <= bd) ->
    arr_loop fuel pv s acc = Ok (v, rest) -> fdepth v <= S bd.
  Proof.
    induction fuel as [|f IH]; intros s acc v rest Hacc H; [discriminate|]. cbn [arr_loop] in H.
    destruct (pv (skipws s)) as [[v0 s1]| | |] eqn:Ep; try discriminate.
    pose proof (Hpv _ _ _ Ep) as Hv0.
    assert (Hacc' : forall t, In t (v0 :: acc) -> fdepth t <= bd)
      by (intros t [<-|Hin]; [exact Hv0|exact (Hacc t Hin)]).
    destruct (skipws s1) as [|c s2]; [discriminate|].
    destruct (Byte.eqb c bCM); [exact (IH _ _ _ _ Hacc' H)|].
    destruct (Byte.eqb c bRK); [|discriminate]. inversion H; subst. apply fdepth_FArr_bound.
    intros t Hin. apply Hacc'. apply in_rev. exact Hin.
  Qed.
End ParserDepth.

Theorem fj_value_depth : forall budget s v rest, fj_value budget s = Ok (v, rest) -> fdepth v <= budget.
Proof.
  induction budget as [|bd IH]; intros s v rest H; [discriminate|]. cbn [fj_value] in H.
  destruct s as [|c r]; [discriminate|].
  destruct (Byte.eqb c bLB).
  { destruct (skipws r) as [|c1 r1] eqn:Es; [discriminate|]. destruct (Byte.eqb c1 bRB).
    - inversion H; subst. cbn [fdepth]. lia.
    - exact (obj_loop_depth bd (fj_value bd) IH _ _ [] v rest (fun _ F => match F with end) H). }
  destruct (Byte.eqb c bLK).
  { destruct (skipws r) as [|c1 r1] eqn:Es; [discriminate|]. destruct (Byte.eqb c1 bRK).
    - inversion H; subst. cbn [fdepth]. lia.
    - exact (arr_loop_depth bd (fj_value bd) IH _ _ [] v rest (fun _ F => match F with end) H). }
  destruct (Byte.eqb c bQ).
  { destruct (fj_raw_string r) as [[raw t]|]; [|discriminate]. inversion H; subst. cbn [fdepth]. lia. }
  destruct (Byte.eqb c x74).
  { destruct (has_prefix (B "true") (c :: r)); [|discriminate]. inversion H; subst. cbn [fdepth]. lia. }
  destruct (Byte.eqb c x66).
  { destruct (has_prefix (B "false") (c :: r)); [|discriminate]. inversion H; subst. cbn [fdepth]. lia. }
  destruct (Byte.eqb c x6e).
  { destruct (has_prefix (B "null") (c :: r)); [inversion H; subst; cbn [fdepth]; lia|].
    destruct (fold_eqb (firstn 3 (c :: r)) (B "nan") && Nat.leb 3 (length (c :: r))); [|discriminate].
    inversion H; subst. cbn [fdepth]. lia. }
  destruct (fj_raw_number (c :: r)) as [[tok t]|]; [|discriminate]. inversion H; subst. cbn [fdepth]. lia.
Qed.

Theorem fj_parse_depth b v : fj_parse b = Ok v -> fdepth v <= 300.
Proof.
  unfold fj_parse. destruct (fj_value 300 (skipws b)) as [[v0 t]| | |] eqn:E; try discriminate.
  destruct (skipws t); [|discriminate]. intros H. inversion H; subst. exact (fj_value_depth 300 _ _ _ E).
Qed.
