(* The generic decoder theorems (DecEquivP, ShapeP, Text5DecP) instantiated with the tables regenerated from the
   source: the table conditions are evaluated here by vm_compute, so a source change that breaks one of them
   stops this file. *)
From AP.Model Require Import Prelude Bytes Text WsDoc Vocab Layout JsonTables JsonCheck JsonDec JsonCodec DocEquiv Shape Text5.
From AP.Gen Require Import Layout TypeLists Switches JsonR.
From AP.Proofs Require Import NlvP TextP WsParseP DecEquivP ShapeP Text5P Text5DecP.

(* no member name is read as natural-language text in one place and as something else in another *)
Lemma key_roles_inst : keys_roles_ok jr_tables = true.
Proof. vm_compute. reflexivity. Qed.
(* for every kind: the read entries are recognised, no field is read twice, every field read is a field of the struct *)
Lemma reads_ok_inst : forallb (reads_ok jr_tables layout_of) all_kinds = true.
Proof. vm_compute. reflexivity. Qed.
Lemma reads_ok_kind k : reads_ok jr_tables layout_of k = true.
Proof. pose proof reads_ok_inst as H. rewrite forallb_forall in H. apply H. destruct k; vm_compute; tauto. Qed.

Notation known := (known_of jr_tables).
Notation text := (text_of jr_tables).
Notation load := (load_item jr_tables layout_of registry load_switch tl_ActivityTypes tl_ActorTypes tl_LinkTypes).

Lemma equivalent_trees_generic jr lo reg sw act actor lnk : keys_roles_ok jr = true ->
  forall n a b, doc_equiv (known_of jr) (text_of jr) a b ->
  load_item jr lo reg sw act actor lnk n a = load_item jr lo reg sw act actor lnk n b.
Proof.
  intros H n a b E. exact (load_item_equiv _ _ jr lo reg sw act actor lnk (keys_roles_tables_ok jr H) n a b E).
Qed.

Lemma equivalent_trees_inst a b : keys_clean a = true -> keys_clean b = true ->
  doc_equiv known text a b -> dec_tree a = dec_tree b.
Proof.
  intros Ca Cb E. unfold dec_tree.
  exact (unmarshal_to_item_equiv _ _ jr_tables _ _ _ _ _ _ (keys_roles_tables_ok _ key_roles_inst) a b Ca Cb E).
Qed.

Lemma dec_unfold b : dec b = unmarshal_json jr_tables layout_of registry load_switch tl_ActivityTypes tl_ActorTypes tl_LinkTypes b.
Proof. reflexivity. Qed.
Lemma dec_of_parse b v : fj_parse b = Ok v -> dec b = match dec_tree v with Some i => Some (Ok i) | None => None end.
Proof. intros H. unfold dec, unmarshal_json, dec_tree. rewrite H. reflexivity. Qed.

Lemma equivalent_documents_inst pre1 t1 post1 pre2 t2 post2 :
  wf_ws pre1 = true -> wf_ws post1 = true -> wf_wt t1 = true -> (wdepth t1 <= 300)%nat ->
  wf_ws pre2 = true -> wf_ws post2 = true -> wf_wt t2 = true -> (wdepth t2 <= 300)%nat ->
  keys_clean (strip t1) = true -> keys_clean (strip t2) = true ->
  doc_equiv known text (strip t1) (strip t2) ->
  dec (pre1 ++ wprint t1 ++ post1) = dec (pre2 ++ wprint t2 ++ post2).
Proof.
  intros A1 A2 A3 A4 B1 B2 B3 B4 C1 C2 E.
  rewrite (dec_of_parse _ _ (ws_parse pre1 t1 post1 A1 A2 A3 A4)), (dec_of_parse _ _ (ws_parse pre2 t2 post2 B1 B2 B3 B4)).
  rewrite (equivalent_trees_inst _ _ C1 C2 E). reflexivity.
Qed.

Lemma fields_read_inst n kvs p k fs : load (S n) (FObj kvs) = Some (IObj p k fs) ->
  p = true /\ load_switch (jstr (jget (FObj kvs) (B "type"))) = Some k /\
  exists rs, reads_of jr_tables k = Some rs /\
    (forall r, In r rs -> exists ov, entry_value jr_tables (load n) (FObj kvs) r = Some ov /\ getf (rf_fid r) fs = ov) /\
    (forall f, ~ In f (map rf_fid rs) -> getf f fs = None).
Proof. intros H. exact (fields_read _ _ _ _ _ _ _ n kvs p k fs H (reads_ok_kind k)). Qed.

Lemma shape_independence_inst n kvs p k fs : load (S n) (FObj kvs) = Some (IObj p k fs) ->
  forall rs r, reads_of jr_tables k = Some rs -> In r rs ->
  let m := jget (FObj kvs) (rf_term r) in
  (is_item_getter r = true \/ is_uri_getter r = true ->
     (forall x i, m = Some x -> elem_loads (load n) x i -> getf (rf_fid r) fs = Some (FItem i)) /\
     (forall l its, m = Some (FArr l) -> Forall2 (elem_loads (load n)) l its ->
                    getf (rf_fid r) fs = Some (FItem (IItems false (Some (list_value its))))) /\
     (m = None -> getf (rf_fid r) fs = None)) /\
  (is_items_getter r = true ->
     (forall x i, m = Some x -> elem_loads (load n) x i -> getf (rf_fid r) fs = Some (FItems (Some [i]))) /\
     (forall l its, m = Some (FArr l) -> Forall2 (elem_loads (load n)) l its -> its <> [] ->
                    getf (rf_fid r) fs = Some (FItems (Some (list_value its)))) /\
     (m = None -> getf (rf_fid r) fs = None)).
Proof. intros H. exact (shape_independence _ _ _ _ _ _ _ n kvs p k fs H (reads_ok_kind k)). Qed.

Lemma five_dec_inst ty tx p k fs : plain_name ty -> (forall q, ok_text (tx q)) ->
  dec (doc_encode5 ty tx) = Some (Ok (IObj p k fs)) ->
  forall rs r q, reads_of jr_tables k = Some rs -> In r rs ->
    rf_getter r = B "JSONGetNaturalLanguageField" -> rf_guard r = [] -> rf_term r = pos_term q -> q <> PSourceContent ->
    getf (rf_fid r) fs = match tx q with [] => None | l => Some (FNlv (Some (norm_text l))) end.
Proof.
  intros Hty Hok Hd. rewrite dec_unfold in Hd.
  exact (five_dec jr_tables layout_of registry load_switch tl_ActivityTypes tl_ActorTypes tl_LinkTypes ty tx p k fs Hty Hok Hd (reads_ok_kind k)).
Qed.
