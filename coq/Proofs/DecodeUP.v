(* Percent-decoding and case folding.  For iri.go equalFold (Model/Fold.sfold_eqb, the kernel of scanon: an invalid
   byte stands for itself) two strings - ANY two byte strings - that are equal under the folding decode
   (url.unescape: "%XX" -> byte) to strings that are equal under the folding: pct_decode_scanon.
   For strings.EqualFold (ufold_eqb, ucanon: every invalid byte is U+FFFD) the same holds of strings that are valid
   UTF-8 (pct_decode_ucanon, a corollary) and fails otherwise: a raw lead byte can be completed by ESCAPED
   continuation bytes ("\xE2%84%AA" decodes to U+212A) while EqualFold on the raw strings saw U+FFFD there - the
   witness is invalid_utf8_decode_differs, which is what made the pinned IRI.Equals non-transitive. *)
From AP.Model Require Import Prelude Bytes Url IriEq IriNf Vocab Pred CollIri Utf8 FoldTab Fold.
From AP.Proofs Require Import NlvP LowerP IriEqP SortP IriGenP IriNfP IriXP CollIriP Utf8P FoldP CleanUP.

(* a string begins with a complete rune, or with a byte that is not UTF-8 where it stands *)
Lemma head_chunk c r :
  (exists ch0 rest x, r = ch0 ++ rest /\ utf8_valid (c :: ch0) = true /\ srunes (c :: ch0) = [x] /\ is_cont c = false
     /\ (x < rune_limit)%N
     /\ ((is_asciib c = true /\ ch0 = [] /\ x = byteN c)
         \/ ((128 <= x)%N /\ forallb (fun b => negb (is_asciib b)) (c :: ch0) = true)))
  \/ (srunes (c :: r) = strict_err c :: srunes r /\ is_asciib c = false).
Proof.
  unfold srunes. rewrite runes_cons.
  assert (NA : (match lead_of c with LAscii => false | _ => true end) = true -> is_asciib c = false) by apply lead_multi_nonascii.
  destruct (lead_of c) as [| | |lo hi|lo hi] eqn:L.
  - left. exists [], r, (byteN c). split; [reflexivity|]. split; [rewrite utf8_valid_cons, L; reflexivity|].
    split; [rewrite runes_cons, L; reflexivity|]. split; [apply lead_not_cont; rewrite L; reflexivity|].
    split; [pose proof (Byte.to_N_bounded c); unfold byteN, rune_limit; lia|].
    left. split; [apply lead_ascii_inv; exact L|]. split; reflexivity.
  - right. split; [reflexivity|apply NA; reflexivity].
  - destruct r as [|b1 r1]; [right; split; [reflexivity|apply NA; reflexivity]|].
    destruct (is_cont b1) eqn:H1; [|right; split; [reflexivity|apply NA; reflexivity]].
    left. exists [b1], r1, (rune2 c b1). split; [reflexivity|]. split; [rewrite utf8_valid_cons, L, H1; reflexivity|].
    split; [rewrite runes_cons, L, H1; reflexivity|]. split; [apply lead_not_cont; rewrite L; reflexivity|].
    split; [apply rune2_limit; exact L|]. right. split; [apply rune2_big; exact L|]. cbn [forallb].
    rewrite (NA eq_refl), (cont_nonascii b1 H1). reflexivity.
  - destruct r as [|b1 [|b2 r2]]; try (right; split; [reflexivity|apply NA; reflexivity]).
    destruct (is_cont b1 && in_rng lo hi b1 && is_cont b2) eqn:H; [|right; split; [reflexivity|apply NA; reflexivity]].
    pose proof H as H'. apply andb_true_iff in H. destruct H as [H H3]. apply andb_true_iff in H. destruct H as [H1 H2].
    left. exists [b1; b2], r2, (rune3 c b1 b2). split; [reflexivity|]. split; [rewrite utf8_valid_cons, L, H'; reflexivity|].
    split; [rewrite runes_cons, L, H'; reflexivity|]. split; [apply lead_not_cont; rewrite L; reflexivity|].
    split; [apply (rune3_limit c b1 b2 lo hi L)|]. right. split; [apply (rune3_big c b1 b2 lo hi L H2)|]. cbn [forallb].
    rewrite (NA eq_refl), (cont_nonascii b1 H1), (cont_nonascii b2 H3). reflexivity.
  - destruct r as [|b1 [|b2 [|b3 r3]]]; try (right; split; [reflexivity|apply NA; reflexivity]).
    destruct (is_cont b1 && in_rng lo hi b1 && is_cont b2 && is_cont b3) eqn:H; [|right; split; [reflexivity|apply NA; reflexivity]].
    pose proof H as H'. apply andb_true_iff in H. destruct H as [H H4]. apply andb_true_iff in H. destruct H as [H H3].
    apply andb_true_iff in H. destruct H as [H1 H2].
    left. exists [b1; b2; b3], r3, (rune4 c b1 b2 b3). split; [reflexivity|]. split; [rewrite utf8_valid_cons, L, H'; reflexivity|].
    split; [rewrite runes_cons, L, H'; reflexivity|]. split; [apply lead_not_cont; rewrite L; reflexivity|].
    split; [apply (rune4_limit c b1 b2 b3 lo hi L H2)|]. right. split; [apply (rune4_big c b1 b2 b3 lo hi L H2)|]. cbn [forallb].
    rewrite (NA eq_refl), (cont_nonascii b1 H1), (cont_nonascii b2 H3), (cont_nonascii b3 H4). reflexivity.
Qed.

Lemma pct_go_lacks ch : forall rest d, lacks pct ch = true -> pct_go P0 (ch ++ rest) = Some d ->
  exists d0, pct_go P0 rest = Some d0 /\ d = ch ++ d0.
Proof.
  induction ch as [|c ch IH]; intros rest d L H.
  - exists d. split; [exact H|reflexivity].
  - simpl in L. apply andb_true_iff in L. destruct L as [L1 L2]. apply negb_true_iff in L1.
    simpl in H. rewrite L1 in H. destruct (pct_go P0 (ch ++ rest)) as [d1|] eqn:E; [|discriminate].
    inversion H; subst d. destruct (IH rest d1 L2 E) as [d0 [H1 H2]]. exists d0. split; [exact H1|]. rewrite H2. reflexivity.
Qed.

Lemma hex_ascii_all : forallb (fun b => implb (is_hex b) (is_asciib b)) all_bytes = true.
Proof. vm_compute. reflexivity. Qed.
Lemma hex_ascii b : is_hex b = true -> is_asciib b = true.
Proof. intros H. pose proof (sweep _ hex_ascii_all b) as S. cbv beta in S. rewrite H in S. exact S. Qed.

Lemma pct_is_delim : is_delim pct = true. Proof. reflexivity. Qed.
Lemma pct_asciib : is_asciib pct = true. Proof. reflexivity. Qed.

Lemma hexv_canon h h' : is_hex h = true -> is_hex h' = true -> canon_with fold_tab (byteN h) = canon_with fold_tab (byteN h') -> hexv h = hexv h'.
Proof.
  intros H H' E. apply (hexv_fold h h' H H').
  pose proof (hex_ascii h H) as A. pose proof (hex_ascii h' H') as A'.
  apply (ascii_canon_lower h h' A A').
  rewrite !(canon_ascii fold_tab) in E; [exact E| |]; apply N.ltb_lt; [exact A'|exact A].
Qed.

Lemma nonascii_lacks_pct ch : forallb (fun b => negb (is_asciib b)) ch = true -> lacks pct ch = true.
Proof.
  apply forallb_impl. intros x Hx. apply negb_true_iff. destruct (Byte.eqb x pct) eqn:E; [|reflexivity].
  apply beqb_eq in E. subst x. discriminate.
Qed.

Lemma scanon_single ch x : srunes ch = [x] -> scanon ch = [canon x].
Proof. unfold scanon, scanon_with. intros ->. reflexivity. Qed.

Lemma scanon_bad c r : srunes (c :: r) = strict_err c :: srunes r -> scanon (c :: r) = strict_err c :: scanon r.
Proof.
  unfold scanon, scanon_with. intros ->. cbn [map]. f_equal. apply (canon_above fold_tab fold_tab_is_ok).
  unfold strict_err. lia.
Qed.

Lemma strict_err_inj c c' : strict_err c = strict_err c' -> c = c'.
Proof. unfold strict_err. intros H. apply byteN_inj. lia. Qed.

Lemma strict_err_limit c : (rune_limit <= strict_err c)%N.
Proof. unfold strict_err. lia. Qed.

Lemma decode_scanon_n n : forall rp rp' acc d d',
  length rp <= n -> scanon rp = scanon rp' ->
  pct_go P0 rp = Some d -> pct_go P0 rp' = Some d' -> scanon (acc ++ d) = scanon (acc ++ d').
Proof.
  induction n as [|n IH]; intros rp rp' acc d d' Hl E D D'.
  - destruct rp; [|simpl in Hl; lia]. symmetry in E. apply uc_nil in E. subst rp'.
    simpl in D, D'. inversion D; inversion D'. reflexivity.
  - destruct rp as [|c r].
    { symmetry in E. apply uc_nil in E. subst rp'. simpl in D, D'. inversion D; inversion D'. reflexivity. }
    destruct rp' as [|c' r']; [apply uc_nil in E; discriminate|]. simpl in Hl.
    destruct (head_chunk c r) as [[ch0 [rest [x [Er [V1 [R [C [Lx Dj]]]]]]]]|[Bd NA]];
      destruct (head_chunk c' r') as [[ch0' [rest' [x' [Er' [V1' [R' [C' [Lx' Dj']]]]]]]]|[Bd' NA']].
    + (* a complete rune on both sides *)
      assert (Erp : c :: r = (c :: ch0) ++ rest) by (rewrite Er; reflexivity).
      assert (Erp' : c' :: r' = (c' :: ch0') ++ rest') by (rewrite Er'; reflexivity).
      rewrite Erp, Erp' in E. rewrite !uc_app_valid in E by assumption.
      rewrite (scanon_single _ x R), (scanon_single _ x' R') in E.
      inversion E as [[Ex Erest]].
      assert (Lrest : length rest <= length r) by (rewrite Er, app_length; lia).
      destruct (Byte.eqb c pct) eqn:Ec.
      * (* an escape *)
        apply beqb_eq in Ec. subst c.
        destruct Dj as [[_ [E0 Ex0]]|[B _]].
        2:{ exfalso. unfold srunes in R. rewrite runes_cons in R. change (lead_of pct) with LAscii in R. inversion R. subst x. vm_compute in B. apply B. reflexivity. }
        subst ch0 x. simpl in Er. subst rest.
        assert (x' = byteN pct) as Ex'.
        { apply (canon_delim_byte pct x' pct_is_delim). rewrite <- Ex. apply (canon_delim_self pct pct_is_delim). }
        destruct Dj' as [[A' [E0' Ex0']]|[B' _]].
        2:{ exfalso. rewrite Ex' in B'. vm_compute in B'. apply B'. reflexivity. }
        subst ch0'. rewrite Ex' in Ex0'. apply byteN_inj in Ex0'. subst c'. simpl in Er'. subst rest'.
        (* both continue with two hex digits *)
        simpl in D, D'.
        destruct r as [|h r1]; [discriminate|]. simpl in D. destruct (is_hex h) eqn:Hh; [|discriminate].
        destruct r1 as [|l r2]; [discriminate|]. simpl in D. destruct (is_hex l) eqn:Hl2; [|discriminate].
        destruct (pct_go P0 r2) as [d2|] eqn:D2; [|discriminate]. inversion D; subst d.
        destruct r' as [|h' r1']; [discriminate|]. simpl in D'. destruct (is_hex h') eqn:Hh'; [|discriminate].
        destruct r1' as [|l' r2']; [discriminate|]. simpl in D'. destruct (is_hex l') eqn:Hl2'; [|discriminate].
        destruct (pct_go P0 r2') as [d2'|] eqn:D2'; [|discriminate]. inversion D'; subst d'.
        pose proof (hex_ascii h Hh) as Ah. pose proof (hex_ascii l Hl2) as Al.
        pose proof (hex_ascii h' Hh') as Ah'. pose proof (hex_ascii l' Hl2') as Al'.
        rewrite !uc_cons_ascii in Erest by assumption.
        inversion Erest as [[Eh El Er2]].
        assert (unhex2 h l = unhex2 h' l') as Eu.
        { unfold unhex2. rewrite (hexv_canon h h' Hh Hh' Eh), (hexv_canon l l' Hl2 Hl2' El). reflexivity. }
        rewrite Eu.
        replace (acc ++ unhex2 h' l' :: d2) with ((acc ++ [unhex2 h' l']) ++ d2) by (rewrite <- app_assoc; reflexivity).
        replace (acc ++ unhex2 h' l' :: d2') with ((acc ++ [unhex2 h' l']) ++ d2') by (rewrite <- app_assoc; reflexivity).
        apply (IH r2 r2'); try assumption. simpl in Hl. lia.
      * (* a rune that is not "%" *)
        assert (Lp : lacks pct (c :: ch0) = true).
        { destruct Dj as [[_ [E0 _]]|[_ NA]]; [subst ch0; simpl; rewrite Ec; reflexivity|apply nonascii_lacks_pct; exact NA]. }
        assert (Nx : x <> byteN pct).
        { destruct Dj as [[_ [_ Ex0]]|[B _]].
          - subst x. intros Q. apply byteN_inj in Q. subst c. rewrite beqb_refl in Ec. discriminate.
          - intros Q. subst x. vm_compute in B. apply B. reflexivity. }
        assert (Nx' : x' <> byteN pct).
        { intros Q. apply Nx. apply (canon_delim_byte pct x pct_is_delim).
          rewrite Ex, Q. apply (canon_delim_self pct pct_is_delim). }
        assert (Lp' : lacks pct (c' :: ch0') = true).
        { destruct Dj' as [[_ [E0 Ex0]]|[_ NA]]; [|apply nonascii_lacks_pct; exact NA].
          subst ch0'. simpl. destruct (Byte.eqb c' pct) eqn:Ec'; [|reflexivity].
          apply beqb_eq in Ec'. subst c'. congruence. }
        rewrite Erp in D. rewrite Erp' in D'.
        destruct (pct_go_lacks _ _ _ Lp D) as [d0 [D0 Ed]]. destruct (pct_go_lacks _ _ _ Lp' D') as [d0' [D0' Ed']].
        subst d d'.
        rewrite !(uc_app_sync acc) by (simpl; assumption).
        rewrite !(uc_app_valid (_ :: _)) by assumption.
        rewrite (scanon_single _ x R), (scanon_single _ x' R'), Ex. do 2 f_equal.
        apply (IH rest rest' [] d0 d0'); try assumption. lia.
    + (* a rune against a byte that is not UTF-8: their canonical forms differ *)
      exfalso. rewrite (scanon_bad c' r' Bd') in E.
      assert (Erp : c :: r = (c :: ch0) ++ rest) by (rewrite Er; reflexivity).
      rewrite Erp, uc_app_valid, (scanon_single _ x R) in E by assumption. cbn [app] in E. injection E as Ex _.
      pose proof (canon_limit fold_tab fold_tab_is_ok x Lx) as Q. fold canon in Q. rewrite Ex in Q.
      pose proof (strict_err_limit c'). lia.
    + exfalso. rewrite (scanon_bad c r Bd) in E.
      assert (Erp' : c' :: r' = (c' :: ch0') ++ rest') by (rewrite Er'; reflexivity).
      rewrite Erp', uc_app_valid, (scanon_single _ x' R') in E by assumption. cbn [app] in E. injection E as Ex _.
      pose proof (canon_limit fold_tab fold_tab_is_ok x' Lx') as Q. fold canon in Q. rewrite <- Ex in Q.
      pose proof (strict_err_limit c). lia.
    + (* the same invalid byte on both sides: it is copied, and may complete or be completed after decoding *)
      rewrite (scanon_bad c r Bd), (scanon_bad c' r' Bd') in E. inversion E as [[Ec Er]].
      apply strict_err_inj in Ec. subst c'.
      assert (Lp : lacks pct [c] = true) by (apply nonascii_lacks_pct; simpl; rewrite NA; reflexivity).
      change (c :: r) with ([c] ++ r) in D. change (c :: r') with ([c] ++ r') in D'.
      destruct (pct_go_lacks _ _ _ Lp D) as [d0 [D0 Ed]]. destruct (pct_go_lacks _ _ _ Lp D') as [d0' [D0' Ed']].
      subst d d'. rewrite !app_assoc. apply (IH r r'); try assumption. lia.
Qed.

(* iri.go equalFold: ALL byte strings *)
Theorem pct_decode_scanon rp rp' d d' :
  scanon rp = scanon rp' -> pct_decode rp = Some d -> pct_decode rp' = Some d' -> scanon d = scanon d'.
Proof. intros E D D'. exact (decode_scanon_n (length rp) rp rp' [] d d' (Nat.le_refl _) E D D'). Qed.

(* strings.EqualFold: valid UTF-8 (the decoded strings need not be valid) *)
Theorem pct_decode_ucanon rp rp' d d' :
  utf8_valid rp = true -> utf8_valid rp' = true -> ucanon rp = ucanon rp' ->
  pct_decode rp = Some d -> pct_decode rp' = Some d' -> ucanon d = ucanon d'.
Proof.
  intros V V' E D D'. rewrite <- (scanon_valid rp V), <- (scanon_valid rp' V') in E.
  rewrite !ucanon_collapse, (pct_decode_scanon rp rp' d d' E D D'). reflexivity.
Qed.

(* ... and only there *)
Lemma invalid_utf8_decode_differs :
  exists rp rp' d d', ucanon rp = ucanon rp' /\ pct_decode rp = Some d /\ pct_decode rp' = Some d' /\ ucanon d <> ucanon d'
    /\ utf8_valid rp = false.
Proof.
  exists (hx "e2253834256161"), (hx "efbfbd253834254141"), (hx "e284aa"), (hx "efbfbd84aa").
  repeat split; try (vm_compute; reflexivity). vm_compute. discriminate.
Qed.
(* the same strings under equalFold: already the raw strings differ *)
Lemma invalid_utf8_decode_repaired : scanon (hx "e2253834256161") <> scanon (hx "efbfbd253834254141").
Proof. vm_compute. discriminate. Qed.
