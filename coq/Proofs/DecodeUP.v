(* Percent-decoding and Unicode case folding: two strings that are valid UTF-8 and equal under strings.EqualFold
   decode (url.unescape: "%XX" -> byte) to strings that are equal under strings.EqualFold.
   Why validity is asked: in an invalid string a raw lead byte can be completed by ESCAPED continuation bytes
   ("\xE2%84%AA" decodes to U+212A) while EqualFold on the raw strings saw U+FFFD there - the witness is
   DecodeUP.invalid_utf8_decode_differs, replayed on the real code by the harness. *)
From AP.Model Require Import Prelude Bytes Url IriEq IriNf Vocab Pred CollIri Utf8 FoldTab Fold.
From AP.Proofs Require Import NlvP LowerP IriEqP SortP IriGenP IriNfP IriXP CollIriP Utf8P FoldP.

Lemma valid_chunk' c r : utf8_valid (c :: r) = true ->
  exists ch0 rest x, r = ch0 ++ rest /\ utf8_valid (c :: ch0) = true /\ utf8_valid rest = true /\ runes (c :: ch0) = [x]
    /\ length rest <= length r /\ is_cont c = false
    /\ ((is_asciib c = true /\ ch0 = [] /\ x = byteN c)
        \/ ((128 <= x)%N /\ forallb (fun b => negb (is_asciib b)) (c :: ch0) = true)).
Proof.
  intros H. destruct (valid_chunk c r H) as [ch [rest [x [E [V1 [V2 [R [L [C D]]]]]]]]].
  destruct ch as [|c0 ch0]; [discriminate|]. simpl in E. inversion E; subst c0 r.
  exists ch0, rest, x. repeat split; try assumption.
  - rewrite app_length. lia.
  - destruct D as [[A [E1 E2]]|D]; [left|right; exact D]. inversion E1. auto.
Qed.

Lemma pct_go_lacks ch : forall rest d, lacks pct ch = true -> pct_go P0 (ch ++ rest) = Some d ->
  exists d0, pct_go P0 rest = Some d0 /\ d = ch ++ d0.
Proof.
  induction ch as [|c ch IH]; intros rest d L H.
  - exists d. split; [exact H|reflexivity].
  - simpl in L. apply andb_true_iff in L. destruct L as [L1 L2]. apply negb_true_iff in L1.
    simpl in H. rewrite L1 in H. destruct (pct_go P0 (ch ++ rest)) as [d1|] eqn:E; [|discriminate].
    inversion H; subst d. destruct (IH rest d1 L2 E) as [d0 [H1 H2]]. exists d0. split; [exact H1|]. rewrite H2. reflexivity.
Qed.

Lemma hex_ascii_all : forallb (fun b => implb (is_hex b) (is_asciib b)) all_bytes = true.
Proof. vm_compute. reflexivity. Qed.
Lemma hex_ascii b : is_hex b = true -> is_asciib b = true.
Proof. intros H. pose proof (sweep _ hex_ascii_all b) as S. cbv beta in S. rewrite H in S. exact S. Qed.

Lemma pct_is_delim : is_delim pct = true. Proof. reflexivity. Qed.
Lemma pct_asciib : is_asciib pct = true. Proof. reflexivity. Qed.

Lemma hexv_canon h h' : is_hex h = true -> is_hex h' = true -> canon_with fold_tab (byteN h) = canon_with fold_tab (byteN h') -> hexv h = hexv h'.
Proof.
  intros H H' E. apply (hexv_fold h h' H H').
  pose proof (hex_ascii h H) as A. pose proof (hex_ascii h' H') as A'.
  apply (ascii_canon_lower h h' A A').
  rewrite !(canon_ascii fold_tab) in E; [exact E| |]; apply N.ltb_lt; [exact A'|exact A].
Qed.

Lemma nonascii_lacks_pct ch : forallb (fun b => negb (is_asciib b)) ch = true -> lacks pct ch = true.
Proof.
  apply forallb_impl. intros x Hx. apply negb_true_iff. destruct (Byte.eqb x pct) eqn:E; [|reflexivity].
  apply beqb_eq in E. subst x. discriminate.
Qed.

Lemma ucanon_single ch x : runes ch = [x] -> ucanon ch = [canon_with fold_tab x].
Proof. unfold ucanon, ucanon_with. intros ->. reflexivity. Qed.

Lemma decode_ucanon_n n : forall rp rp' acc d d',
  length rp <= n -> utf8_valid rp = true -> utf8_valid rp' = true -> ucanon rp = ucanon rp' ->
  pct_go P0 rp = Some d -> pct_go P0 rp' = Some d' -> ucanon (acc ++ d) = ucanon (acc ++ d').
Proof.
  induction n as [|n IH]; intros rp rp' acc d d' Hl V V' E D D'.
  - destruct rp; [|simpl in Hl; lia]. symmetry in E. apply (ucanon_nil fold_tab) in E. subst rp'.
    simpl in D, D'. inversion D; inversion D'. reflexivity.
  - destruct rp as [|c r].
    { symmetry in E. apply (ucanon_nil fold_tab) in E. subst rp'. simpl in D, D'. inversion D; inversion D'. reflexivity. }
    destruct rp' as [|c' r']; [apply (ucanon_nil fold_tab) in E; discriminate|].
    destruct (valid_chunk' c r V) as [ch0 [rest [x [Er [V1 [V2 [R [L [C Dj]]]]]]]]].
    destruct (valid_chunk' c' r' V') as [ch0' [rest' [x' [Er' [V1' [V2' [R' [L' [C' Dj']]]]]]]]].
    assert (Erp : c :: r = (c :: ch0) ++ rest) by (rewrite Er; reflexivity).
    assert (Erp' : c' :: r' = (c' :: ch0') ++ rest') by (rewrite Er'; reflexivity).
    rewrite Erp, Erp' in E. unfold ucanon in E. rewrite !(ucanon_app_valid fold_tab) in E by assumption.
    fold ucanon in E. rewrite (ucanon_single _ x R), (ucanon_single _ x' R') in E.
    inversion E as [[Ex Erest]]. simpl in Hl.
    destruct (Byte.eqb c pct) eqn:Ec.
    + (* an escape *)
      apply beqb_eq in Ec. subst c.
      destruct Dj as [[_ [E0 Ex0]]|[B _]].
      2:{ exfalso. rewrite runes_cons in R. change (lead_of pct) with LAscii in R. inversion R. subst x. vm_compute in B. apply B. reflexivity. }
      subst ch0 x. simpl in Er. subst rest.
      assert (x' = byteN pct) as Ex'.
      { apply (canon_delim fold_tab fold_tab_is_ok (byteN pct) x' pct_is_delim). rewrite <- Ex. apply (canon_delim_fixed fold_tab fold_tab_is_ok pct pct_is_delim). }
      destruct Dj' as [[A' [E0' Ex0']]|[B' _]].
      2:{ exfalso. rewrite Ex' in B'. vm_compute in B'. apply B'. reflexivity. }
      subst ch0'. rewrite Ex' in Ex0'. apply byteN_inj in Ex0'. subst c'. simpl in Er'. subst rest'.
      (* both continue with two hex digits *)
      simpl in D, D'.
      destruct r as [|h r1]; [discriminate|]. simpl in D. destruct (is_hex h) eqn:Hh; [|discriminate].
      destruct r1 as [|l r2]; [discriminate|]. simpl in D. destruct (is_hex l) eqn:Hl2; [|discriminate].
      destruct (pct_go P0 r2) as [d2|] eqn:D2; [|discriminate]. inversion D; subst d.
      destruct r' as [|h' r1']; [discriminate|]. simpl in D'. destruct (is_hex h') eqn:Hh'; [|discriminate].
      destruct r1' as [|l' r2']; [discriminate|]. simpl in D'. destruct (is_hex l') eqn:Hl2'; [|discriminate].
      destruct (pct_go P0 r2') as [d2'|] eqn:D2'; [|discriminate]. inversion D'; subst d'.
      pose proof (hex_ascii h Hh) as Ah. pose proof (hex_ascii l Hl2) as Al.
      pose proof (hex_ascii h' Hh') as Ah'. pose proof (hex_ascii l' Hl2') as Al'.
      unfold ucanon in Erest. rewrite !(ucanon_cons_ascii fold_tab) in Erest by assumption.
      inversion Erest as [[Eh El Er2]].
      assert (unhex2 h l = unhex2 h' l') as Eu.
      { unfold unhex2. rewrite (hexv_canon h h' Hh Hh' Eh), (hexv_canon l l' Hl2 Hl2' El). reflexivity. }
      rewrite Eu.
      assert (Vr2 : utf8_valid r2 = true).
      { rewrite !utf8_valid_cons, (lead_ascii h Ah), (lead_ascii l Al) in V2. exact V2. }
      assert (Vr2' : utf8_valid r2' = true).
      { rewrite !utf8_valid_cons, (lead_ascii h' Ah'), (lead_ascii l' Al') in V2'. exact V2'. }
      replace (acc ++ unhex2 h' l' :: d2) with ((acc ++ [unhex2 h' l']) ++ d2) by (rewrite <- app_assoc; reflexivity).
      replace (acc ++ unhex2 h' l' :: d2') with ((acc ++ [unhex2 h' l']) ++ d2') by (rewrite <- app_assoc; reflexivity).
      apply (IH r2 r2'); try assumption. simpl in Hl. lia.
    + (* a rune that is not "%" *)
      assert (Lp : lacks pct (c :: ch0) = true).
      { destruct Dj as [[_ [E0 _]]|[_ NA]]; [subst ch0; simpl; rewrite Ec; reflexivity|apply nonascii_lacks_pct; exact NA]. }
      assert (Nx : x <> byteN pct).
      { destruct Dj as [[_ [_ Ex0]]|[B _]].
        - subst x. intros Q. apply byteN_inj in Q. subst c. rewrite beqb_refl in Ec. discriminate.
        - intros Q. subst x. vm_compute in B. apply B. reflexivity. }
      assert (Nx' : x' <> byteN pct).
      { intros Q. apply Nx. apply (canon_delim fold_tab fold_tab_is_ok (byteN pct) x pct_is_delim).
        rewrite Ex, Q. apply (canon_delim_fixed fold_tab fold_tab_is_ok pct pct_is_delim). }
      assert (Lp' : lacks pct (c' :: ch0') = true).
      { destruct Dj' as [[_ [E0 Ex0]]|[_ NA]]; [|apply nonascii_lacks_pct; exact NA].
        subst ch0'. simpl. destruct (Byte.eqb c' pct) eqn:Ec'; [|reflexivity].
        apply beqb_eq in Ec'. subst c'. congruence. }
      rewrite Erp in D. rewrite Erp' in D'.
      destruct (pct_go_lacks _ _ _ Lp D) as [d0 [D0 Ed]]. destruct (pct_go_lacks _ _ _ Lp' D') as [d0' [D0' Ed']].
      subst d d'.
      unfold ucanon. rewrite !(ucanon_app_sync fold_tab acc) by (simpl; assumption).
      rewrite !(ucanon_app_valid fold_tab (_ :: _)) by assumption. fold ucanon.
      rewrite (ucanon_single _ x R), (ucanon_single _ x' R'), Ex. do 2 f_equal.
      apply (IH rest rest' [] d0 d0'); try assumption. lia.
Qed.

Theorem pct_decode_ucanon rp rp' d d' :
  utf8_valid rp = true -> utf8_valid rp' = true -> ucanon rp = ucanon rp' ->
  pct_decode rp = Some d -> pct_decode rp' = Some d' -> ucanon d = ucanon d'.
Proof. intros V V' E D D'. exact (decode_ucanon_n (length rp) rp rp' [] d d' (Nat.le_refl _) V V' E D D'). Qed.

(* without validity the statement fails *)
Lemma invalid_utf8_decode_differs :
  exists rp rp' d d', ucanon rp = ucanon rp' /\ pct_decode rp = Some d /\ pct_decode rp' = Some d' /\ ucanon d <> ucanon d'
    /\ utf8_valid rp = false.
Proof.
  exists (hx "e2253834256161"), (hx "efbfbd253834254141"), (hx "e284aa"), (hx "efbfbd84aa").
  repeat split; try (vm_compute; reflexivity). vm_compute. discriminate.
Qed.
