From AP.Model Require Import Prelude Vocab Bytes Dispatch.
From AP.Proofs Require Import NlvP.

Lemma sw_lookup_unmentioned sw dflt n : sw_mentions sw n = false -> sw_lookup sw dflt n = dflt.
Proof.
  unfold sw_mentions. induction sw as [|[names tag] r IH]; simpl; [reflexivity|].
  rewrite orb_false_iff. intros [H1 H2]. rewrite H1. apply IH. exact H2.
Qed.

(* names the switch lists never consult the extension hook, whatever it is *)
Lemma json_dispatch_hook_irrelevant sw dflt typer n :
  sw_mentions sw n = true ->
  json_dispatch sw dflt typer true n = json_dispatch sw dflt typer false n.
Proof. intros H. unfold json_dispatch. destruct (typer n); [rewrite H|]; reflexivity. Qed.

(* a replacement type registry that agrees with the built-in one on a name gives the same outcome *)
Lemma json_dispatch_typer_ext sw dflt typer1 typer2 hook n :
  typer1 n = typer2 n -> json_dispatch sw dflt typer1 hook n = json_dispatch sw dflt typer2 hook n.
Proof. intros H. unfold json_dispatch. rewrite H. reflexivity. Qed.

(* names the switch does not list: error without the hook, the hook's business with it *)
Lemma json_dispatch_unknown sw dflt typer n k :
  sw_mentions sw n = false -> typer n = Some k ->
  json_dispatch sw dflt typer false n = LoadError /\ json_dispatch sw dflt typer true n = LoadHook (Some k).
Proof. intros H Ht. unfold json_dispatch. rewrite Ht, H. split; reflexivity. Qed.
