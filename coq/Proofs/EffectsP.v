(* Lemmas about Model/Effects.v: a compositional "write discipline".
   For a region P of locations, [sound P x Q] says: started in a state where everything allocated later
   lies in P (fresh_in) and every slice header stored inside P points into P (closed), the computation x
   writes only inside P, changes no cell outside P, keeps the invariant, and its result satisfies Q. *)
From AP.Model Require Import Prelude Effects.
Local Open Scope nat_scope.

(* ---------------------------------------------------------------- lists *)

Lemma upd_length {A} (l : list A) i x : length (upd l i x) = length l.
Proof. revert i; induction l as [|h t IH]; intros [|i]; simpl; auto. Qed.

Lemma nth_error_upd_same {A} (l : list A) i x : i < length l -> nth_error (upd l i x) i = Some x.
Proof. revert i; induction l as [|h t IH]; intros [|i] Hi; simpl in *; try lia; auto. apply IH; lia. Qed.

Lemma nth_error_upd_other {A} (l : list A) i j x : i <> j -> nth_error (upd l i x) j = nth_error l j.
Proof.
  revert i j; induction l as [|h t IH]; intros [|i] [|j] Hij; simpl; auto; try congruence.
Qed.

Lemma nth_error_Some_lt {A} (l : list A) i x : nth_error l i = Some x -> i < length l.
Proof. intro H. apply nth_error_Some. congruence. Qed.

(* ---------------------------------------------------------------- cells *)

Lemma get_set_same arrs ws sl ws' l c :
  get_cell (mkmem arrs ws sl) l <> None ->
  get_cell (mkmem (set_cell arrs l c) ws' sl) l = Some c.
Proof.
  unfold get_cell, set_cell; simpl. destruct l as [a i]; simpl.
  destruct (nth_error arrs a) as [arr|] eqn:Ha; [|congruence].
  intro Hi. rewrite nth_error_upd_same by (eapply nth_error_Some_lt; eauto).
  apply nth_error_upd_same. apply nth_error_Some. exact Hi.
Qed.

Lemma get_set_other arrs ws sl ws' l l' c :
  l' <> l -> get_cell (mkmem (set_cell arrs l c) ws' sl) l' = get_cell (mkmem arrs ws sl) l'.
Proof.
  unfold get_cell, set_cell; simpl. destruct l as [a i], l' as [a' i']; simpl. intro Hne.
  destruct (nth_error arrs a) as [arr|] eqn:Ha; auto.
  destruct (Nat.eq_dec a a') as [->|Hna].
  - rewrite nth_error_upd_same by (eapply nth_error_Some_lt; eauto). rewrite Ha.
    apply nth_error_upd_other. congruence.
  - rewrite nth_error_upd_other by auto. reflexivity.
Qed.

Lemma set_cell_length arrs l c : length (set_cell arrs l c) = length arrs.
Proof. unfold set_cell. destruct (nth_error arrs (fst l)); auto. apply upd_length. Qed.

Section Sound.
Variable P : loc -> Prop.

Definition sub_window (s : slice) : Prop := forall l, in_window s l -> P l.
Definition cell_ok (c : cell) : Prop := match c with Ch s => sub_window s | _ => True end.
Definition fresh_in (m : mem) : Prop := forall l, length (arrays m) <= fst l -> P l.
Definition closed (m : mem) : Prop := forall l s, P l -> get_cell m l = Some (Ch s) -> sub_window s.

Definition step_ok (m m' : mem) : Prop :=
  (exists new, wlog m' = new ++ wlog m /\ Forall P new) /\
  length (arrays m) <= length (arrays m') /\
  slack m' = slack m /\
  (forall l, ~ P l -> get_cell m' l = get_cell m l).

Definition sound {A} (x : M A) (Q : A -> Prop) : Prop :=
  forall m a m', fresh_in m -> closed m -> x m = Ok (a, m') -> step_ok m m' /\ closed m' /\ Q a.

Lemma step_ok_refl m : step_ok m m.
Proof. repeat split; auto. exists []. split; auto. Qed.

Lemma step_ok_trans m1 m2 m3 : step_ok m1 m2 -> step_ok m2 m3 -> step_ok m1 m3.
Proof.
  intros [[n1 [E1 F1]] [L1 [S1 G1]]] [[n2 [E2 F2]] [L2 [S2 G2]]]. repeat split.
  - exists (n2 ++ n1). split. rewrite E2, E1, app_assoc; auto. apply Forall_app; auto.
  - lia.
  - congruence.
  - intros l Hl. rewrite G2, G1; auto.
Qed.

Lemma fresh_in_step m m' : fresh_in m -> step_ok m m' -> fresh_in m'.
Proof. intros F [_ [L _]] l Hl. apply F. lia. Qed.

Lemma sub_window_nil : sub_window nil_slice.
Proof. intros l [_ H]. simpl in H. lia. Qed.

Lemma sound_ret {A} (a : A) (Q : A -> Prop) : Q a -> sound (ret a) Q.
Proof. intros HQ m a' m' _ C E. inversion E; subst. split; [apply step_ok_refl|split; auto]. Qed.

Lemma sound_bind {A B} (x : M A) (f : A -> M B) Q R :
  sound x Q -> (forall a, Q a -> sound (f a) R) -> sound (bind x f) R.
Proof.
  intros Hx Hf m b m'' F C E. unfold bind in E.
  destruct (x m) as [[a m']| | |] eqn:Ex; try discriminate.
  destruct (Hx m a m' F C Ex) as [S1 [C1 Qa]].
  destruct (Hf a Qa m' b m'' (fresh_in_step _ _ F S1) C1 E) as [S2 [C2 Rb]].
  split; [eapply step_ok_trans; eauto|split; auto].
Qed.

Lemma sound_weaken {A} (x : M A) (Q Q' : A -> Prop) : sound x Q -> (forall a, Q a -> Q' a) -> sound x Q'.
Proof. intros H W m a m' F C E. destruct (H m a m' F C E) as [S [C' q]]. auto. Qed.

Lemma sound_fail {A} p (Q : A -> Prop) : sound (fail p) Q.
Proof. intros m a m' _ _ E. discriminate. Qed.
Lemma sound_unmodelled {A} (Q : A -> Prop) : sound unmodelled Q.
Proof. intros m a m' _ _ E. discriminate. Qed.
Lemma sound_out_of_fuel {A} (Q : A -> Prop) : sound out_of_fuel Q.
Proof. intros m a m' _ _ E. discriminate. Qed.

Lemma sound_load l : sound (load l) (fun _ => True).
Proof.
  intros m a m' _ C E. unfold load in E. destruct (get_cell m l); inversion E; subst.
  split; [apply step_ok_refl|auto].
Qed.

Lemma sound_load_P l : P l -> sound (load l) cell_ok.
Proof.
  intros Pl m a m' _ C E. unfold load in E. destruct (get_cell m l) eqn:G; inversion E; subst.
  split; [apply step_ok_refl|split; auto]. destruct a; simpl; auto. eapply C; eauto.
Qed.

Lemma sound_get_slack n : sound (get_slack n) (fun _ => True).
Proof. intros m a m' _ C E. inversion E; subst. split; [apply step_ok_refl|auto]. Qed.

Lemma sound_store l c : P l -> cell_ok c -> sound (store l c) (fun _ => True).
Proof.
  intros Pl Hc m a m' F C E. unfold store in E. destruct (get_cell m l) eqn:G; inversion E; subst; clear E.
  destruct m as [arrs ws sl]; simpl in *.
  assert (Hsame : get_cell (mkmem (set_cell arrs l c) (l :: ws) sl) l = Some c)
    by (apply (get_set_same arrs ws sl); rewrite G; congruence).
  repeat split; simpl; auto.
  - exists [l]. split; auto.
  - rewrite set_cell_length. lia.
  - intros l' Hl'. apply get_set_other. intro; subst; auto.
  - intros l' s Pl' G'. destruct (Nat.eq_dec (fst l') (fst l)) as [E1|N1];
      [destruct (Nat.eq_dec (snd l') (snd l)) as [E2|N2]|].
    + assert (l' = l) by (destruct l, l'; simpl in *; congruence). subst l'.
      rewrite Hsame in G'. inversion G'; subst. exact Hc.
    + rewrite (get_set_other arrs ws sl) in G' by (intro; subst; auto). eapply C; eauto.
    + rewrite (get_set_other arrs ws sl) in G' by (intro; subst; auto). eapply C; eauto.
Qed.

Lemma get_alloc_old arrs cs ws ws' sl l :
  fst l < length arrs -> get_cell (mkmem (arrs ++ [cs]) ws' sl) l = get_cell (mkmem arrs ws sl) l.
Proof. intro H. unfold get_cell; simpl. rewrite nth_error_app1 by auto. reflexivity. Qed.

Lemma get_alloc_beyond arrs cs ws ws' sl l :
  length arrs < fst l -> get_cell (mkmem (arrs ++ [cs]) ws' sl) l = get_cell (mkmem arrs ws sl) l.
Proof.
  intro H. unfold get_cell; simpl.
  replace (nth_error (arrs ++ [cs]) (fst l)) with (@None (list cell)).
  2:{ symmetry. apply nth_error_None. rewrite app_length; simpl; lia. }
  replace (nth_error arrs (fst l)) with (@None (list cell)); auto.
  symmetry. apply nth_error_None. lia.
Qed.

Lemma get_alloc_new arrs cs ws sl i :
  get_cell (mkmem (arrs ++ [cs]) ws sl) (length arrs, i) = nth_error cs i.
Proof. unfold get_cell; simpl. rewrite nth_error_app2 by lia. rewrite Nat.sub_diag. reflexivity. Qed.

Lemma sound_alloc cs : Forall cell_ok cs -> sound (alloc cs) (fun id => forall i, P (id, i)).
Proof.
  intros Hcs m a m' F C E. unfold alloc in E. inversion E; subst; clear E.
  destruct m as [arrs ws sl]; simpl in *.
  split; [split; [|split; [|split]]|split]; simpl.
  - eexists. split; [reflexivity|]. apply Forall_forall. intros l Hl. apply in_map_iff in Hl.
    destruct Hl as [i [<- _]]. apply F. simpl. lia.
  - rewrite app_length; simpl; lia.
  - reflexivity.
  - intros l Hl. destruct (Nat.lt_ge_cases (fst l) (length arrs)) as [Hlt|Hge].
    + apply get_alloc_old; auto.
    + destruct (Nat.eq_dec (fst l) (length arrs)) as [Heq|Hne].
      * exfalso. apply Hl. apply F. simpl. lia.
      * apply get_alloc_beyond. lia.
  - intros l s Pl G. destruct (Nat.lt_ge_cases (fst l) (length arrs)) as [Hlt|Hge].
    + rewrite (get_alloc_old arrs cs ws) in G by auto. eapply C; eauto.
    + destruct (Nat.eq_dec (fst l) (length arrs)) as [Heq|Hne].
      * destruct l as [a i]; simpl in *; subst a. rewrite get_alloc_new in G.
        apply nth_error_In in G. rewrite Forall_forall in Hcs. apply (Hcs _ G).
      * rewrite (get_alloc_beyond arrs cs ws) in G by lia. eapply C; eauto.
  - intros i. apply F. simpl. lia.
Qed.

Ltac sbind := eapply sound_bind; [|intros].

Lemma sound_load_hdr p : P p -> sound (load_hdr p) sub_window.
Proof.
  intro Pp. unfold load_hdr. sbind. apply sound_load_P; auto.
  destruct a; try apply sound_fail. apply sound_ret. exact H.
Qed.

Lemma sound_load_byte l : sound (load_byte l) (fun _ => True).
Proof.
  unfold load_byte. sbind. apply sound_load. destruct a; try apply sound_fail. apply sound_ret; auto.
Qed.

Lemma sound_load_lrv l : sound (load_lrv l) (fun _ => True).
Proof.
  unfold load_lrv. sbind. apply sound_load. destruct a; try apply sound_fail. apply sound_ret; auto.
Qed.

Lemma sound_read_n a i n : sound (read_n a i n) (fun _ => True).
Proof.
  revert i; induction n as [|n IH]; intro i; simpl. apply sound_ret; auto.
  sbind. apply sound_load_byte. sbind. apply IH. apply sound_ret; auto.
Qed.

Lemma sound_read_bytes s : sound (read_bytes s) (fun _ => True).
Proof. apply sound_read_n. Qed.

Lemma sound_write_bytes a i bs :
  (forall k, k < length bs -> P (a, i + k)) -> sound (write_bytes a i bs) (fun _ => True).
Proof.
  revert i; induction bs as [|b r IH]; intros i H; simpl. apply sound_ret; auto.
  sbind. apply sound_store. replace i with (i + 0) by lia. apply H. simpl; lia. exact I.
  apply IH. intros k Hk. replace (S i + k) with (i + S k) by lia. apply H. simpl; lia.
Qed.

Lemma Forall_cell_ok_bytes bs k : Forall cell_ok (map Cb bs ++ repeat (Cb x00) k).
Proof.
  apply Forall_app. split; apply Forall_forall; intros c Hc.
  - apply in_map_iff in Hc. destruct Hc as [b [<- _]]. exact I.
  - apply repeat_spec in Hc. subst. exact I.
Qed.

Lemma sound_alloc_bytes bs : sound (alloc_bytes bs) sub_window.
Proof.
  unfold alloc_bytes. sbind. apply sound_get_slack. sbind. apply sound_alloc. apply Forall_cell_ok_bytes.
  apply sound_ret. intros [x y] [Hx _]. simpl in Hx. subst x. apply H0.
Qed.

Lemma sound_append_bytes s bs : sub_window s -> sound (append_bytes s bs) sub_window.
Proof.
  intro Hs. unfold append_bytes. destruct (s_len s + length bs <=? s_cap s) eqn:Hfit.
  - apply Nat.leb_le in Hfit. sbind.
    + apply sound_write_bytes. intros k Hk. apply Hs. split; simpl; auto. lia.
    + apply sound_ret. intros l [H1 H2]. apply Hs. split; simpl in *; auto.
  - sbind. apply sound_read_bytes. apply sound_alloc_bytes.
Qed.

Lemma sound_slice_to s p : sub_window s -> sound (slice_to s p) sub_window.
Proof.
  intro Hs. unfold slice_to. destruct (p <=? s_cap s); [|apply sound_fail].
  apply sound_ret. intros l [H1 H2]. apply Hs. split; simpl in *; auto.
Qed.

Lemma sound_slice_from s p : sub_window s -> sound (slice_from s p) sub_window.
Proof.
  intro Hs. unfold slice_from. destruct (p <=? s_len s) eqn:Hp; [|apply sound_fail].
  apply sound_ret. intros l [H1 H2]. apply Hs. split; simpl in *; auto. lia.
Qed.

(* ---------------------------------------------------------------- encoding_json.go *)

Lemma sound_json_write p bs : P p -> sound (json_write p bs) (fun _ => True).
Proof.
  intro Pp. unfold json_write. sbind. apply sound_load_hdr; auto.
  sbind. apply sound_append_bytes; auto. apply sound_store; auto.
Qed.

Lemma sound_json_write_comma p : P p -> sound (json_write_comma p) (fun _ => True).
Proof.
  intro Pp. unfold json_write_comma. sbind. apply sound_load_hdr; auto.
  destruct (1 <? s_len a); [|apply sound_ret; auto].
  sbind. apply sound_load_byte. destruct (Byte.eqb a0 bcomma). apply sound_ret; auto.
  apply sound_json_write; auto.
Qed.

Lemma sound_json_write_prop_name p name : P p -> sound (json_write_prop_name p name) (fun _ => True).
Proof.
  intro Pp. unfold json_write_prop_name. destruct name. apply sound_ret; auto.
  sbind. apply sound_json_write; auto. sbind. apply sound_json_write; auto.
  sbind. apply sound_json_write; auto. apply sound_ret; auto.
Qed.

Lemma sound_json_write_value p v : P p -> sound (json_write_value p v) (fun _ => True).
Proof.
  intro Pp. unfold json_write_value. destruct (s_len v =? 0). apply sound_ret; auto.
  sbind. apply sound_read_bytes. sbind. apply sound_json_write; auto. apply sound_ret; auto.
Qed.

Lemma sound_json_write_prop p name v : P p -> sound (json_write_prop p name v) (fun _ => True).
Proof.
  intro Pp. unfold json_write_prop. destruct (s_len v =? 0). apply sound_ret; auto.
  sbind. apply sound_json_write_comma; auto.
  sbind. apply sound_json_write_prop_name; auto.
  sbind. destruct a0. apply sound_json_write_value; auto. apply sound_ret; exact I.
  destruct a1. apply sound_ret; auto.
  sbind. apply sound_load_hdr; auto.
  destruct (s_len a1 =? 0). apply sound_fail.
  sbind. apply sound_store; auto. apply sound_ret; auto.
Qed.

Lemma sound_byte_insert_at raw b p : sub_window raw -> sound (byte_insert_at raw b p) sub_window.
Proof.
  intro Hr. unfold byte_insert_at.
  sbind. apply sound_slice_to; auto.
  sbind. apply sound_alloc. repeat constructor.
  sbind. apply sound_slice_from; auto.
  sbind. apply sound_read_bytes.
  sbind. apply sound_append_bytes. intros [x y] [Hx _]. simpl in Hx; subst x. apply H0.
  sbind. apply sound_read_bytes.
  apply sound_append_bytes; auto.
Qed.

Lemma sound_escq_loop fuel s raw i e : sub_window raw -> sound (escq_loop fuel s raw i e) (fun _ => True).
Proof.
  revert raw i e; induction fuel as [|f IH]; intros raw i e Hr; simpl. apply sound_out_of_fuel.
  destruct (i <? e); [|apply sound_ret; auto].
  destruct (i <? s_len raw); [|apply sound_fail].
  sbind. apply sound_load_byte.
  destruct (Byte.eqb a bq && (0 <? i)); [|apply IH; auto].
  destruct (nth_error s (i - 1)); [|apply sound_fail].
  destruct (Byte.eqb b bbs). apply IH; auto.
  sbind. apply sound_byte_insert_at; auto. apply IH; auto.
Qed.

Lemma sound_st_escape_quote_pinned s : sound (st_escape_quote_pinned s) (fun _ => True).
Proof.
  unfold st_escape_quote_pinned. sbind. apply sound_alloc_bytes.
  sbind. apply sound_escq_loop; auto. apply sound_read_bytes.
Qed.

Lemma sound_st_string_bytes buf s : sub_window buf -> sound (st_string_bytes buf s) sub_window.
Proof. intro Hb. unfold st_string_bytes. apply sound_append_bytes; auto. Qed.

Lemma sound_escq_parts parts first out : sub_window out -> sound (escq_parts parts first out) (fun _ => True).
Proof.
  revert first out; induction parts as [|part r IH]; intros first out Ho; simpl. apply sound_ret; auto.
  sbind. instantiate (1 := sub_window). destruct first. apply sound_ret; auto. apply sound_append_bytes; auto.
  sbind. apply sound_alloc_bytes.
  sbind. apply sound_read_bytes.
  sbind. apply sound_st_string_bytes. apply sub_window_nil.
  sbind. apply sound_read_bytes.
  sbind. apply sound_append_bytes; auto.
  apply IH; auto.
Qed.

Lemma sound_st_escape_quote s : sound (st_escape_quote s) (fun _ => True).
Proof.
  unfold st_escape_quote. sbind. apply sound_escq_parts. apply sub_window_nil. apply sound_read_bytes.
Qed.

Lemma sound_json_write_string_value p s : P p -> sound (json_write_string_value p s) (fun _ => True).
Proof.
  intro Pp. unfold json_write_string_value. destruct s. apply sound_ret; auto.
  sbind. apply sound_json_write; auto. sbind. apply sound_st_escape_quote.
  sbind. apply sound_json_write; auto. sbind. apply sound_json_write; auto. apply sound_ret; auto.
Qed.

(* ---------------------------------------------------------------- natural_language_values.go *)

Lemma sound_unescape_from steps cur : sound (unescape_from steps cur) (fun _ => True).
Proof.
  revert cur; induction steps as [|[c n] r IH]; intro cur; simpl. apply sound_ret; auto.
  sbind. apply sound_read_bytes. sbind. apply sound_alloc_bytes. apply IH.
Qed.

Definition opt_window (o : option slice) : Prop := match o with Some s => sub_window s | None => True end.

Lemma sound_lrv_marshal r v : sound (lrv_marshal r v) opt_window.
Proof.
  unfold lrv_marshal.
  destruct (negb (bytes_eqb r nil_lang_ref) && (0 <? length r)) eqn:T; simpl.
  - destruct (s_len v =? 0). apply sound_ret; exact I.
    sbind. sbind. apply sound_st_string_bytes. apply sub_window_nil. apply sound_append_bytes; auto.
    sbind. apply sound_read_bytes. sbind. apply sound_st_string_bytes; auto. apply sound_ret; auto.
  - sbind. apply sound_ret. apply sub_window_nil.
    sbind. apply sound_read_bytes. sbind. apply sound_st_string_bytes; auto. apply sound_ret; auto.
Qed.

Lemma sound_nlv_loop n k c buf e keys :
  sub_window buf -> sound (nlv_loop n k c buf e keys) (fun r => sub_window (fst r)).
Proof.
  revert k buf e keys; induction c as [|c IH]; intros k buf e keys Hb; simpl. apply sound_ret; auto.
  sbind. apply sound_load_lrv.
  sbind. apply sound_alloc. repeat constructor.
  sbind. apply sound_load_lrv.
  destruct a1 as [r v].
  destruct ((length r =? 0) || (s_len v =? 0)). apply IH; auto.
  cbv zeta.
  match goal with |- context [existsb (bytes_eqb ?x) keys] => destruct (existsb (bytes_eqb x) keys) end. apply IH; auto.
  sbind. instantiate (1 := sub_window). destruct e. apply sound_ret; auto. apply sound_append_bytes; auto.
  sbind. instantiate (1 := sub_window). destruct (bytes_eqb r nil_lang_ref); [|apply sound_ret; auto].
  sbind. apply sound_st_string_bytes; auto. apply sound_append_bytes; auto.
  sbind. apply sound_lrv_marshal.
  match goal with |- sound (match ?o with Some _ => _ | None => _ end) _ => destruct o as [j|] end; [|apply IH; auto].
  destruct (0 <? s_len j); [|apply IH; auto].
  sbind. apply sound_read_bytes. sbind. apply sound_append_bytes; auto. apply IH; auto.
Qed.

(* the code of the tree: the assignment goes to the loop copy *)
Lemma sound_nlv_marshal n : sound (nlv_marshal n) opt_window.
Proof.
  unfold nlv_marshal, nlv_marshal_gen. destruct (s_len n =? 0). apply sound_ret; exact I.
  sbind. instantiate (1 := opt_window).
  - destruct (s_len n =? 1); [|apply sound_ret; exact I].
    sbind. apply sound_load_lrv.
    sbind. apply sound_alloc. repeat constructor.
    sbind. apply sound_load_lrv.
    destruct (0 <? s_len (snd a1)); [|apply sound_ret; exact I].
    sbind. instantiate (1 := fun _ => True). apply sound_ret; exact I.
    sbind. simpl. apply sound_store. apply H0. exact I.
    sbind. apply sound_load_lrv.
    sbind. apply sound_read_bytes.
    sbind. apply sound_st_string_bytes. apply sub_window_nil. apply sound_ret; auto.
  - destruct a as [b|]. apply sound_ret; auto.
    sbind. apply sound_append_bytes. apply sub_window_nil.
    sbind. apply sound_nlv_loop; auto.
    destruct a0 as [buf1 e]. simpl in H1.
    sbind. apply sound_append_bytes; auto.
    destruct e; apply sound_ret; simpl; auto.
Qed.

Lemma sound_json_write_nlv_prop p name nl : P p -> sound (json_write_nlv_prop p name nl) (fun _ => True).
Proof.
  intro Pp. unfold json_write_nlv_prop. sbind. apply sound_nlv_marshal.
  destruct a as [v|]; [|apply sound_ret; auto].
  destruct (0 <? s_len v); [|apply sound_ret; auto]. apply sound_json_write_prop; auto.
Qed.

End Sound.

(* ---------------------------------------------------------------- from the discipline to footprints *)

Lemma new_writes_app m0 m1 new : wlog m1 = new ++ wlog m0 -> new_writes m0 m1 = new.
Proof.
  intro E. unfold new_writes. rewrite E, app_length.
  replace (length new + length (wlog m0) - length (wlog m0)) with (length new) by lia.
  rewrite firstn_app, firstn_all, Nat.sub_diag. simpl. apply app_nil_r.
Qed.

Lemma run_footprint {A} (P : loc -> Prop) (x : M A) (Q : A -> Prop) m0 a m1 :
  sound P x Q -> fresh_in P m0 -> closed P m0 -> x m0 = Ok (a, m1) ->
  Forall P (new_writes m0 m1) /\ (forall l, ~ P l -> get_cell m1 l = get_cell m0 l) /\ Q a.
Proof.
  intros S F C E. destruct (S m0 a m1 F C E) as [[[new [Elog Fnew]] [_ [_ Fr]]] [_ q]].
  rewrite (new_writes_app _ _ _ Elog). auto.
Qed.

Lemma fresh_not_valid m l : fresh_since m l -> get_cell m l = None.
Proof.
  unfold fresh_since, get_cell. intro H.
  replace (nth_error (arrays m) (fst l)) with (@None (list cell)); auto.
  symmetry. apply nth_error_None. exact H.
Qed.

(* operations without an output buffer: P = fresh since the call *)
Lemma run_fresh {A} (x : M A) (Q : A -> Prop) m0 a m1 :
  (forall P : loc -> Prop, sound P x Q) -> x m0 = Ok (a, m1) ->
  Forall (fresh_since m0) (new_writes m0 m1) /\ (forall l, ~ fresh_since m0 l -> get_cell m1 l = get_cell m0 l).
Proof.
  intros S E.
  destruct (run_footprint (fresh_since m0) x Q m0 a m1 (S _)) as [H1 [H2 _]]; auto.
  - intros l Hl. exact Hl.
  - intros l s Pl G. rewrite fresh_not_valid in G by auto. discriminate.
Qed.

(* operations writing a caller-supplied *[]byte at p *)
Definition out_region (m0 : mem) (p : loc) (l : loc) : Prop :=
  l = p \/ exists h, get_cell m0 p = Some (Ch h) /\ in_window h l.
(* well-formed output buffer: the only slice header inside its capacity window is (possibly) p itself *)
Definition out_wf (m0 : mem) (p : loc) : Prop :=
  forall h l s, get_cell m0 p = Some (Ch h) -> in_window h l -> get_cell m0 l = Some (Ch s) -> l = p.

Definition buf_region (m0 : mem) (p : loc) (l : loc) : Prop := fresh_since m0 l \/ out_region m0 p l.

Lemma run_buffer {A} (x : M A) (Q : A -> Prop) m0 p a m1 :
  (forall P : loc -> Prop, P p -> sound P x Q) -> out_wf m0 p -> x m0 = Ok (a, m1) ->
  Forall (buf_region m0 p) (new_writes m0 m1) /\
  (forall l, ~ fresh_since m0 l -> ~ out_region m0 p l -> get_cell m1 l = get_cell m0 l).
Proof.
  intros S W E.
  destruct (run_footprint (buf_region m0 p) x Q m0 a m1) as [H1 [H2 _]]; auto.
  - apply S. right. left. reflexivity.
  - intros l Hl. left. exact Hl.
  - intros l s Pl G. destruct Pl as [Fr|[->|[h [Gp Hw]]]].
    + rewrite fresh_not_valid in G by auto. discriminate.
    + intros l' Hl'. right. right. exists s. auto.
    + assert (l = p) by (eapply W; eauto). subst l. intros l' Hl'. right. right. exists s. auto.
  - split; auto. intros l N1 N2. apply H2. intros [F|O]; auto.
Qed.

(* ---------------------------------------------------------------- the two families *)

Lemma sound_bufop (P : loc -> Prop) p o : P p -> sound P (run_bufop p o) (fun _ => True).
Proof.
  intro Pp. destruct o; simpl.
  - eapply sound_bind. apply sound_json_write; auto. intros. apply sound_ret; auto.
  - eapply sound_bind. apply sound_json_write_comma; auto. intros. apply sound_ret; auto.
  - apply sound_json_write_prop_name; auto.
  - apply sound_json_write_value; auto.
  - apply sound_json_write_prop; auto.
  - apply sound_json_write_string_value; auto.
  - apply sound_json_write_nlv_prop; auto.
Qed.

Lemma sound_valop (P : loc -> Prop) o : sound P (run_valop o) (fun _ => True).
Proof.
  destruct o; simpl.
  - eapply sound_bind. apply sound_st_escape_quote. intros. apply sound_ret; auto.
  - eapply sound_bind. apply sound_st_escape_quote_pinned. intros. apply sound_ret; auto.
  - eapply sound_bind. apply sound_unescape_from. intros. apply sound_ret; auto.
  - eapply sound_bind. apply sound_lrv_marshal. intros. apply sound_ret; auto.
  - eapply sound_bind. apply sound_nlv_marshal. intros. apply sound_ret; auto.
Qed.

Lemma not_fresh_of_valid m l : valid m l -> ~ fresh_since m l.
Proof. intros V F. apply V. apply fresh_not_valid; auto. Qed.

Theorem footprint_value : forall o m0 r m1,
  run_valop o m0 = Ok (r, m1) -> Forall (fresh_since m0) (new_writes m0 m1).
Proof. intros o m0 r m1 E. eapply run_fresh; eauto. intro P. apply sound_valop. Qed.

Theorem frame_value : forall o m0 r m1,
  run_valop o m0 = Ok (r, m1) -> forall l, valid m0 l -> get_cell m1 l = get_cell m0 l.
Proof.
  intros o m0 r m1 E l V.
  destruct (run_fresh (run_valop o) (fun _ => True) m0 r m1) as [_ H]; auto.
  intro P. apply sound_valop. apply H. apply not_fresh_of_valid; auto.
Qed.

Theorem footprint_buffer : forall o p m0 r m1,
  out_wf m0 p -> run_bufop p o m0 = Ok (r, m1) ->
  Forall (fun l => fresh_since m0 l \/ out_region m0 p l) (new_writes m0 m1).
Proof.
  intros o p m0 r m1 W E.
  destruct (run_buffer (run_bufop p o) (fun _ => True) m0 p r m1) as [H _]; auto.
  intros P Pp. apply sound_bufop; auto.
Qed.

Theorem frame_buffer : forall o p m0 r m1,
  out_wf m0 p -> run_bufop p o m0 = Ok (r, m1) ->
  forall l, valid m0 l -> ~ out_region m0 p l -> get_cell m1 l = get_cell m0 l.
Proof.
  intros o p m0 r m1 W E l V N.
  destruct (run_buffer (run_bufop p o) (fun _ => True) m0 p r m1) as [_ H]; auto.
  intros P Pp. apply sound_bufop; auto. apply H; auto. apply not_fresh_of_valid; auto.
Qed.

(* the argument slice v, spare capacity included, is unchanged when it does not overlap the output buffer *)
Corollary frame_buffer_argument : forall o p m0 r m1 (v : slice),
  out_wf m0 p -> run_bufop p o m0 = Ok (r, m1) ->
  (forall l, in_window v l -> valid m0 l /\ ~ out_region m0 p l) ->
  forall l, in_window v l -> get_cell m1 l = get_cell m0 l.
Proof.
  intros o p m0 r m1 v W E D l Hl. destruct (D l Hl). eapply frame_buffer; eauto.
Qed.

(* byteInsertAt by itself is confined to fresh memory and the capacity window of ITS ARGUMENT *)
Theorem byte_insert_at_confined : forall raw b p m0 r m1,
  (forall l s, in_window raw l -> get_cell m0 l <> Some (Ch s)) ->
  byte_insert_at raw b p m0 = Ok (r, m1) ->
  Forall (fun l => fresh_since m0 l \/ in_window raw l) (new_writes m0 m1) /\
  (forall l, valid m0 l -> ~ in_window raw l -> get_cell m1 l = get_cell m0 l).
Proof.
  intros raw b p m0 r m1 Hb E.
  destruct (run_footprint (fun l => fresh_since m0 l \/ in_window raw l) (byte_insert_at raw b p) _ m0 r m1
              (sound_byte_insert_at _ raw b p (fun l H => or_intror H))) as [H1 [H2 _]]; auto.
  - intros l Hl. left. exact Hl.
  - intros l s [F|Wd] G. rewrite fresh_not_valid in G by auto. discriminate. exfalso. eapply Hb; eauto.
  - split; auto. intros l V N. apply H2. intros [F|Wd]; auto. apply (not_fresh_of_valid _ _ V F).
Qed.

(* ... and it does write there: the slot just past len(raw), i.e. spare capacity of the argument *)
Theorem byte_insert_at_writes_argument :
  exists r m1 l, byte_insert_at bia_raw bbs 1 bia_mem = Ok (r, m1) /\
    In l (new_writes bia_mem m1) /\ in_window bia_raw l /\ ~ fresh_since bia_mem l /\
    s_len bia_raw <= snd l /\ get_cell m1 l <> get_cell bia_mem l.
Proof.
  destruct (byte_insert_at bia_raw bbs 1 bia_mem) as [[r m1]| | |] eqn:E; try (vm_compute in E; discriminate).
  exists r, m1, (0, 2). split; auto.
  vm_compute in E. inversion E; subst; clear E.
  split. vm_compute. tauto.
  split. split; simpl; lia.
  split. unfold fresh_since; simpl; lia.
  split. simpl; lia.
  vm_compute. discriminate.
Qed.

(* the mutant of NLV.MarshalJSON that assigns to n[0] instead of the loop copy breaks the footprint property *)
Theorem nlv_marshal_mutant_refuted :
  exists o m1 l, nlv_marshal_inplace_mutant nlv1 nlv1_mem = Ok (o, m1) /\
    In l (new_writes nlv1_mem m1) /\ ~ fresh_since nlv1_mem l /\ get_cell m1 l <> get_cell nlv1_mem l.
Proof.
  destruct (nlv_marshal_inplace_mutant nlv1 nlv1_mem) as [[o m1]| | |] eqn:E; try (vm_compute in E; discriminate).
  exists o, m1, (0, 0). split; auto.
  vm_compute in E. inversion E; subst; clear E.
  split. vm_compute. tauto.
  split. unfold fresh_since; simpl; lia.
  vm_compute. discriminate.
Qed.

Lemma mem0_out_wf content cp val k : out_wf (buf_mem content cp val k) (0, 0).
Proof.
  intros h l s G W G2. vm_compute in G. inversion G; subst; clear G.
  destruct W as [W1 W2]. destruct l as [a i]. simpl in *. subst a.
  unfold get_cell in G2. simpl in G2. apply nth_error_In in G2. apply in_map_iff in G2.
  destruct G2 as [x [Hx _]]. discriminate.
Qed.

(* ---------------------------------------------------------------- examples *)

Lemma example_in_place :
  out_wf ex_buf_mem (0, 0) /\
  exists m1, run_bufop (0, 0) (BProp (B "k") (mkslice 2 0 1 3)) ex_buf_mem = Ok (true, m1) /\
    length (new_writes ex_buf_mem m1) = 9 /\
    Forall (out_region ex_buf_mem (0, 0)) (new_writes ex_buf_mem m1).
Proof.
  split. apply mem0_out_wf.
  destruct (run_bufop (0, 0) (BProp (B "k") (mkslice 2 0 1 3)) ex_buf_mem) as [[r m1]| | |] eqn:E;
    try (vm_compute in E; discriminate).
  vm_compute in E. inversion E; subst; clear E. eexists. split; [reflexivity|]. split. vm_compute. reflexivity.
  apply Forall_forall. intros l Hl. vm_compute in Hl.
  repeat (destruct Hl as [<-|Hl]; [first [left; reflexivity | right; eexists; split; [vm_compute; reflexivity|split; simpl; lia]]|]).
  contradiction.
Qed.

Lemma example_realloc :
  out_wf ex_buf_mem_full (0, 0) /\
  exists m1, run_bufop (0, 0) (BProp (B "k") (mkslice 2 0 1 3)) ex_buf_mem_full = Ok (true, m1) /\
    existsb (fun l => Nat.leb 3 (fst l)) (new_writes ex_buf_mem_full m1) = true /\
    get_cell m1 (1, 0) = get_cell ex_buf_mem_full (1, 0).
Proof.
  split. apply mem0_out_wf.
  destruct (run_bufop (0, 0) (BProp (B "k") (mkslice 2 0 1 3)) ex_buf_mem_full) as [[r m1]| | |] eqn:E;
    try (vm_compute in E; discriminate).
  vm_compute in E. inversion E; subst; clear E. eexists. split; [reflexivity|]. split; vm_compute; reflexivity.
Qed.

Lemma example_nlv :
  exists s m1, run_valop (VNlvMarshal nlv1) nlv1_mem = Ok (ROpt (Some s), m1) /\
    new_writes nlv1_mem m1 <> [] /\ Forall (fresh_since nlv1_mem) (new_writes nlv1_mem m1).
Proof.
  destruct (run_valop (VNlvMarshal nlv1) nlv1_mem) as [[r m1]| | |] eqn:E; try (vm_compute in E; discriminate).
  pose proof (footprint_value _ _ _ _ E) as F.
  vm_compute in E. inversion E; subst; clear E. eexists. eexists. split; [reflexivity|]. split; [|exact F].
  vm_compute. discriminate.
Qed.

(* the store-level model of the pinned escapeQuote and the byte-level model of Model/JsonLeaf.v agree
   (results and panics) on a pool covering every branch *)
Lemma escq_pinned_consistent : forallb escq_pinned_agree escq_pinned_pool = true.
Proof. vm_compute. reflexivity. Qed.
