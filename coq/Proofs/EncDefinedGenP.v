(* C02: the definedness theorem of Proofs/EncDefinedP.v instantiated on the tables regenerated from the source on this
   run (Gen/JsonW.v, Gen/Layout.v) by vm_compute of the table condition, and joined with the assembly theorem: the
   grammar theorem WITHOUT the hypothesis "the encoder model answers", for every well-typed value (builder b54). *)
From AP.Model Require Import Prelude Bytes Vocab Pred Layout Json JsonLeaf JsonTables Dispatch JsonEnc JsonCheck JsonGrammarCheck JsonCodec EncTyped.
From AP.Spec Require Import Rfc8259.
From AP.Proofs Require Import Rfc8259P JsonLeafGP JsonEncGP JsonGenGP EncDefinedP.
From AP.Proofs Require FjReadsGP.
From AP.Model Require Text.
From AP.Gen Require Import Layout JsonW.

Lemma gen_enc_defined_tables :
  enc_defined_tables_ok jw_tables layout_endpoints layout_of = true /\
  enc_defined_tables_bad jw_tables layout_endpoints layout_of = [].
Proof. split; vm_compute; reflexivity. Qed.

(* ---------------------------------------------------------------- generic over the tables *)
Lemma enc_defined_generic T L LE : enc_defined_tables_ok T LE L = true ->
  forall x, well_typed L LE x = true -> forall fuel, (enc_fuel x <= fuel)%nat -> enc_item T fuel x <> None.
Proof. intros HT x Hw fuel Hf. exact (enc_item_defined T L LE HT fuel x Hf Hw). Qed.

Lemma marshal_defined_generic T L LE : enc_defined_tables_ok T LE L = true ->
  forall x, well_typed L LE x = true -> exists b, marshal_json T x = Some b.
Proof. intros HT x Hw. exact (marshal_json_answers T L LE HT x Hw). Qed.

Lemma grammar_total_generic T L LE : grammar_tables_ok T = true -> enc_defined_tables_ok T LE L = true ->
  forall x, well_typed L LE x = true -> nums_in_range x = true ->
  exists b, marshal_json T x = Some b /\ (b = [] \/ exists v, Jvalue b v /\ jv_names_unique v = true).
Proof.
  intros HG HT x Hw Hn. destruct (marshal_defined_generic T L LE HT x Hw) as [b E].
  exists b. split; [exact E|exact (grammar_generic T HG x b Hn E)].
Qed.

(* ---------------------------------------------------------------- on the tables of this run *)
Notation wt_run := (well_typed layout_of layout_endpoints).

Lemma enc_defined x : wt_run x = true -> exists b, enc x = Some b.
Proof. exact (marshal_defined_generic jw_tables layout_of layout_endpoints (proj1 gen_enc_defined_tables) x). Qed.

Lemma enc_nested_defined fuel x : wt_run x = true -> (item_size x <= fuel)%nat -> enc_item jw_tables fuel x <> None.
Proof. intros Hw Hf. exact (enc_defined_generic jw_tables layout_of layout_endpoints (proj1 gen_enc_defined_tables) x Hw fuel Hf). Qed.

Lemma grammar_total x : wt_run x = true -> nums_in_range x = true ->
  exists b, enc x = Some b /\ (b = [] \/ exists v, Jtext b v /\ Jvalue b v /\ jv_names_unique v = true).
Proof.
  intros Hw Hn. destruct (enc_defined x Hw) as [b E]. exists b. split; [exact E|exact (grammar_enc x b Hn E)].
Qed.

Lemma written_is_read_total x : wt_run x = true -> nums_in_range x = true ->
  exists b, enc x = Some b /\
    (b = [] \/ exists v, Jtext b v /\ jv_names_unique v = true /\
                         ((jv_depth v < 300)%nat -> exists f, Text.fj_parse b = Ok f)).
Proof.
  intros Hw Hn. destruct (enc_defined x Hw) as [b E]. exists b. split; [exact E|exact (written_is_read x b Hn E)].
Qed.

Lemma struct_total p k fs : wt_run (IObj p k fs) = true -> nums_in_range (IObj p k fs) = true ->
  exists b, enc (IObj p k fs) = Some b /\
    (b = [] \/ exists ms es es', Jvalue b (VObj ms) /\ jv_names_unique (VObj ms) = true /\
       entries_of jw_tables k = Some es /\ subseq es' es /\
       Forall2 (fun n e => In n (names_of e)) (map fst ms) es').
Proof.
  intros Hw Hn. destruct (enc_defined _ Hw) as [b E]. exists b. split; [exact E|].
  destruct (enc_obj_full jw_tables (proj1 gen_grammar_tables) _ p k fs b (idom_intro _ Hn) E)
    as [->|[f [kvs [es [es' [_ [Hj [Hu [F [S1 [Nm _]]]]]]]]]]]; [left; reflexivity|].
  right. exists kvs, es, es'. repeat split; assumption.
Qed.

(* the method called on the value itself *)
Lemma root_total x : wt_run x = true -> nums_in_range x = true ->
  exists b, marshal_root jw_tables x = Some b /\ (b = [] \/ exists v, Jvalue b v /\ jv_names_unique v = true).
Proof.
  intros Hw Hn.
  assert (G : exists b, marshal_json jw_tables x = Some b /\ (b = [] \/ exists v, Jvalue b v /\ jv_names_unique v = true))
    by exact (grammar_total_generic jw_tables layout_of layout_endpoints (proj1 gen_grammar_tables) (proj1 gen_enc_defined_tables) x Hw Hn).
  destruct x as [|k|p s|p k fs|p l|p [l|]]; try exact G.
  - cbn [marshal_root]. eexists. split; [reflexivity|].
    destruct s as [|c s]; [left; reflexivity|]. right. exists (VStr (unbsq (c :: s))).
    split; [apply JV_string; apply w_quoted_string; discriminate|reflexivity].
  - destruct p; exact G.
  - destruct p; [exact G|]. cbn [marshal_root]. eexists. split; [reflexivity|]. right. exists (VArr []).
    split; [exact (JV_array_empty [] Jws_nil)|reflexivity].
Qed.

(* ---------------------------------------------------------------- examples *)
Definition total_example_value : item :=
  IObj true KActor
    [(F_ID, FStr (B "http://x/"",""type"":""Delete"));
     (F_Type, FStr (hx "ff50"));
     (F_Name, FNlv (Some [(B "en", B "a"); (B "en", B "b"); (B "fr", B "c")]));
     (F_Attachment, FItem (IIris false (Some [B "u""v"; []])));
     (F_Published, FTime {| vsecs := 253402300800; vnanos := 0; voff := 0 |});
     (F_Tag, FItems (Some [ITNil KObject; INil; IIri false []; IIri false (B "-"); IIris false None;
                           IItems false (Some [IItems false (Some [IIri true (B "a")])]); IIris true None]));
     (F_Duration, FDur (-9223372036854775808));
     (F_Endpoints, FEndpoints None);
     (F_Inbox, FItem (IObj false KOrdered [(F_TotalItems, FUint 3)]))].
Definition total_example_bytes : bytes :=
  B "{""id"":""http://x/\"",\""type\"":\""Delete"",""type"":""\ufffdP"",""nameMap"":{""en"":""a"",""fr"":""c""},""attachment"":[""u\""v"",""""],""tag"":[""a"",[]],""duration"":""-P106751DT23H47M16.854775808S"",""inbox"":{""totalItems"":3}}".

Lemma total_example :
  wt_run total_example_value = true /\ nums_in_range total_example_value = true /\
  enc total_example_value = Some total_example_bytes.
Proof. repeat split; vm_compute; reflexivity. Qed.

(* table sets that differ from the generated one in one statement *)
Definition map_stmt (tname : bytes) (f : wstmt -> wstmt) (T : list (bytes * bool * list wstmt)) : list (bytes * bool * list wstmt) :=
  map (fun t => if bytes_eqb (fst (fst t)) tname then (fst t, map f (snd t)) else t) T.

Definition tables_via_string : list (bytes * bool * list wstmt) :=
  map_stmt (B "JSONWriteObjectValue")
    (fun s => match s with
              | WProp term w p via g a pos =>
                  if bytes_eqb term (B "mediaType") then WProp term w p (B "string") g a pos else s
              | _ => s end) jw_tables.
Definition tables_endpoints_unguarded : list (bytes * bool * list wstmt) :=
  map_stmt (B "Actor_MarshalJSON")
    (fun s => match s with
              | WProp term w p via g a pos =>
                  if bytes_eqb term (B "endpoints") then WProp term w p via [GValNonEmpty] a pos else s
              | _ => s end) jw_tables.
Definition tables_time_unguarded : list (bytes * bool * list wstmt) :=
  map_stmt (B "JSONWriteObjectValue")
    (fun s => match s with
              | WProp term w p via g a pos =>
                  if bytes_eqb term (B "published") then WProp term w p via [] a pos else s
              | _ => s end) jw_tables.

Lemma tables_refuse :
  Forall (fun T => grammar_tables_ok T = true /\ enc_defined_tables_ok T layout_endpoints layout_of = false)
         [tables_via_string; tables_endpoints_unguarded; tables_time_unguarded] /\
  (exists x, wt_run x = true /\ marshal_json tables_via_string x = None) /\
  (exists x, wt_run x = true /\ marshal_json tables_endpoints_unguarded x = None) /\
  (exists x, wt_run x = true /\ marshal_json tables_time_unguarded x = None).
Proof.
  split; [repeat constructor; vm_compute; reflexivity|].
  split; [exists (IObj true KObject [(F_MediaType, FStr (B "text/plain"))]); split; vm_compute; reflexivity|].
  split; [exists (IObj true KActor [(F_Endpoints, FEndpoints None)]); split; vm_compute; reflexivity|].
  exists (IObj true KObject []); split; vm_compute; reflexivity.
Qed.
