(* C02: the encoder model answers on every well-typed value (builder b54).
   For every set of write tables satisfying EncTyped.enc_defined_tables_ok (decidable; evaluated on the regenerated
   tables in Proofs/EncDefinedGenP.v), for every item x with well_typed x = true and every fuel >= item_size x:
   enc_item T fuel x <> None; hence marshal_json T x (fuel S (item_size x)) answers.  No hypothesis on strings, texts,
   ids, instants, durations, numbers. *)
From AP.Model Require Import Prelude Bytes Vocab Pred Layout Json JsonLeaf JsonTables Dispatch JsonEnc EncTyped.
From AP.Model Require Copy.
From AP.Proofs Require Import NilEncP.
From AP.Proofs Require XsdDurP.
Local Open Scope nat_scope.

(* the typing match is the one of the copy model's domain *)
Lemma ctor_ok_is_type_ok : forall t v, ctor_ok t v = Copy.type_ok t v.
Proof. intros t v. reflexivity. Qed.

Lemma fid_beq_true f g : fid_beq f g = true -> f = g.
Proof. apply internal_fid_dec_bl. Qed.
Lemma fid_beq_refl f : fid_beq f f = true.
Proof. apply internal_fid_dec_lb. reflexivity. Qed.

Lemma beq_true a b : bytes_eqb a b = true -> a = b.
Proof. apply NlvP.bytes_eqb_eq. Qed.

Section Defined.
  Variable T : list (bytes * bool * list wstmt).
  Variable L : kind -> list fdecl.
  Variable LE : list fdecl.

  Notation wt := (well_typed L LE).
  Notation wtv := (wt_fval L LE).

  (* ---------------------------------------------------------------- what well_typed gives *)
  Definition fields_ok (Lk : list fdecl) (n : nat) (fs : list (fid * fval)) : Prop :=
    forall f v, getf f fs = Some v ->
      (exists t, fty Lk f = Some t /\ ctor_ok t v = true) /\ wtv v = true /\ fval_size v <= n.

  Lemma wt_obj_fields p k fs : wt (IObj p k fs) = true -> fields_ok (L k) (fields_size fs) fs.
  Proof.
    cbn [well_typed]. intro H. apply andb_prop in H. destruct H as [_ H].
    induction fs as [|[g w] r IH]; intros f v G; [discriminate|].
    apply andb_prop in H. destruct H as [H Hr]. apply andb_prop in H. destruct H as [Ht Hw].
    cbn [getf] in G. cbn [fields_size]. destruct (fid_beq f g) eqn:E.
    - apply fid_beq_true in E. subst g. inversion G; subst w. split; [|split; [exact Hw|lia]].
      destruct (fty (L k) f) as [t|]; [|discriminate]. exists t. split; [reflexivity|exact Ht].
    - destruct (IH Hr f v G) as [A [B C]]. split; [exact A|split; [exact B|lia]].
  Qed.

  Lemma wt_list l :
    (fix go (l : list item) : bool := match l with [] => true | x :: r => wt x && go r end) l = true ->
    forall x, In x l -> wt x = true.
  Proof.
    induction l as [|y r IH]; intros H x Hin; [contradiction|].
    apply andb_prop in H. destruct H as [Hy Hr]. destruct Hin as [<-|Hin]; [exact Hy|exact (IH Hr x Hin)].
  Qed.

  Lemma wt_items p l : wt (IItems p (Some l)) = true -> forall x, In x l -> wt x = true.
  Proof. cbn [well_typed]. apply wt_list. Qed.
  Lemma wtv_items l : wtv (FItems (Some l)) = true -> forall x, In x l -> wt x = true.
  Proof. cbn [wt_fval]. apply wt_list. Qed.
  Lemma wtv_items_item l : wtv (FItems l) = true -> wt (IItems false l) = true.
  Proof. destruct l; intro H; exact H. Qed.

  Lemma wtv_endpoints e : wtv (FEndpoints (Some e)) = true -> fields_ok LE (entries_size e) (endpoints_fields e).
  Proof.
    cbn [wt_fval]. intro H. apply andb_prop in H. destruct H as [_ H].
    induction e as [|[g x] r IH]; intros f v G; [discriminate|].
    apply andb_prop in H. destruct H as [H Hr]. apply andb_prop in H. destruct H as [Ht Hw].
    cbn [endpoints_fields map getf fst snd] in G. cbn [entries_size]. destruct (fid_beq f g) eqn:E.
    - apply fid_beq_true in E. subst g. inversion G; subst v. split; [|split; [exact Hw|cbn [fval_size]; lia]].
      destruct (fty LE f) as [t0|]; [|discriminate]. destruct t0; try discriminate. exists TItem. split; reflexivity.
    - destruct (IH Hr f v G) as [A [B C]]. split; [exact A|split; [exact B|lia]].
  Qed.

  (* the pseudo field lists of PublicKey and Source are typed by their pseudo layouts *)
  Lemma pubkey_fields_ok id o pem n : 1 <= n -> fields_ok layout_pubkey n (pubkey_fields id o pem).
  Proof.
    intros Hn f v G. unfold pubkey_fields in G.
    assert (K : exists s, v = FStr s /\ (f = F_ID \/ f = F_Owner \/ f = F_PublicKeyPem)).
    { destruct id, o, pem; cbn [app getf] in G;
        repeat match type of G with
               | (if fid_beq f ?g then _ else _) = _ => destruct (fid_beq f g) eqn:?E
               end; try discriminate;
        repeat match goal with H : fid_beq _ _ = true |- _ => apply fid_beq_true in H end;
        inversion G; eauto 6. }
    destruct K as [s [-> Hf]]. split; [|split; [reflexivity|cbn [fval_size]; exact Hn]].
    exists TString. destruct Hf as [-> | [-> | ->]]; split; reflexivity.
  Qed.

  Lemma source_fields_ok mt c n : 1 <= n -> fields_ok layout_source n (source_fields mt c).
  Proof.
    intros Hn f v G. unfold source_fields in G.
    assert (K : (exists l, v = FNlv l /\ f = F_Content) \/ (exists s, v = FStr s /\ f = F_MediaType)).
    { destruct c, mt; cbn [app getf] in G;
        repeat match type of G with
               | (if fid_beq f ?g then _ else _) = _ => destruct (fid_beq f g) eqn:?E
               end; try discriminate;
        repeat match goal with H : fid_beq _ _ = true |- _ => apply fid_beq_true in H end;
        inversion G; eauto 6. }
    destruct K as [[l [-> ->]]|[s [-> ->]]].
    - split; [exists TNlv; split; reflexivity|split; [reflexivity|cbn [fval_size]; exact Hn]].
    - split; [exists TString; split; reflexivity|split; [reflexivity|cbn [fval_size]; exact Hn]].
  Qed.

  (* what a path denotes is typed by path_type *)
  Lemma fval_size_pos v : 1 <= fval_size v.
  Proof. destruct v as [i|[l|]| | | | | | | | | |[e|]|]; cbn [fval_size]; try lia. apply item_size_pos. Qed.

  Lemma path_get_typed Lk n fs path t : fields_ok Lk n fs -> path_type Lk path = Some t ->
    forall v, path_get path fs = Some v -> ctor_ok t v = true /\ wtv v = true /\ fval_size v <= n.
  Proof.
    intros Hfs Hp v G. destruct path as [|f [|g [|h r]]]; try discriminate.
    - cbn [path_type path_get] in *. destruct (Hfs f v G) as [[t' [E C]] [W S]].
      rewrite Hp in E. inversion E; subst t'. repeat split; assumption.
    - cbn [path_type path_get] in *.
      destruct (getf f fs) as [v0|] eqn:G0; [|discriminate].
      destruct (Hfs f v0 G0) as [[t' [E C]] [_ S0]]. rewrite E in Hp.
      assert (Hn : 1 <= n) by (pose proof (fval_size_pos v0); lia).
      destruct v0; try discriminate; destruct t'; try discriminate.
      + destruct (source_fields_ok mt c n Hn g v G) as [[t'' [E' C']] [W S]].
        rewrite Hp in E'. inversion E'; subst t''. repeat split; assumption.
      + destruct (pubkey_fields_ok id owner pem n Hn g v G) as [[t'' [E' C']] [W S]].
        rewrite Hp in E'. inversion E'; subst t''. repeat split; assumption.
  Qed.

  (* ---------------------------------------------------------------- guards *)
  Lemma eval_guard_known fs b g : guard_known g = true -> exists r, eval_guard fs b g = Some r.
  Proof.
    destruct g; cbn [guard_known eval_guard]; intro H; try (eexists; reflexivity).
    rewrite H. eexists; reflexivity.
  Qed.

  Lemma eval_guards_known fs b gs : forallb guard_known gs = true -> exists r, eval_guards fs b gs = Some r.
  Proof.
    induction gs as [|g r IH]; intro H; [eexists; reflexivity|].
    cbn [forallb] in H. apply andb_prop in H. destruct H as [Hg Hr].
    cbn [eval_guards]. destruct (eval_guard_known fs b g Hg) as [[|] ->]; [exact (IH Hr)|eexists; reflexivity].
  Qed.

  Lemma filter_known (p : wguard -> bool) gs : forallb guard_known gs = true -> forallb guard_known (filter p gs) = true.
  Proof.
    induction gs as [|g r IH]; intro H; [reflexivity|]. cbn [forallb] in H. apply andb_prop in H. destruct H as [Hg Hr].
    cbn [filter]. destruct (p g); [cbn [forallb]; rewrite Hg; exact (IH Hr)|exact (IH Hr)].
  Qed.

  Definition not_val (g : wguard) : bool := match g with GValNonEmpty => false | _ => true end.

  (* behind its guard an instant field is stored *)
  Lemma guarded_time_stored fs path gs :
    guarded_time path gs = true -> eval_guards fs [x30] (filter not_val gs) = Some true ->
    exists t, path_get path fs = Some (FTime t).
  Proof.
    intros Hg He. destruct path as [|f [|g r]]; try discriminate. cbn [guarded_time] in Hg.
    apply existsb_exists in Hg. destruct Hg as [g [Hin Hm]]. destruct g; try discriminate.
    apply fid_beq_true in Hm. subst f0.
    assert (Hin' : In (GNotZeroTime f) (filter not_val gs)) by (apply filter_In; split; [exact Hin|reflexivity]).
    pose proof (eval_guards_true_all fs [x30] _ He _ Hin') as E. cbn [eval_guard] in E. inversion E as [E1].
    cbn [path_get]. unfold g_not_zero_time in E1. destruct (getf f fs) as [v0|]; [|discriminate]. destruct v0; try discriminate. eexists; reflexivity.
  Qed.

  (* behind its guard a pointer field is no stored nil *)
  Lemma guarded_nonnil_stored fs path gs :
    guarded_nonnil path gs = true -> eval_guards fs [x30] (filter not_val gs) = Some true ->
    path_get path fs <> Some (FEndpoints None).
  Proof.
    intros Hg He. destruct path as [|f [|g r]]; try discriminate. cbn [guarded_nonnil] in Hg.
    apply existsb_exists in Hg. destruct Hg as [g [Hin Hm]]. destruct g; try discriminate.
    apply fid_beq_true in Hm. subst f0.
    assert (Hin' : In (GNeNil f) (filter not_val gs)) by (apply filter_In; split; [exact Hin|reflexivity]).
    pose proof (eval_guards_true_all fs [x30] _ He _ Hin') as E. cbn [eval_guard] in E. inversion E as [E1].
    cbn [path_get]. intro G. rewrite G in E1. discriminate.
  Qed.

  (* behind its guard a number field is stored *)
  Lemma guarded_num_stored fs path gs :
    guarded_num path gs = true -> eval_guards fs [x30] (filter not_val gs) = Some true ->
    exists v, path_get path fs = Some v.
  Proof.
    intros Hg He. destruct path as [|f [|g r]]; try discriminate. cbn [guarded_num] in Hg.
    apply existsb_exists in Hg. destruct Hg as [g [Hin Hm]].
    assert (K : num_of (getf f fs) <> 0%Z).
    { destruct g; try discriminate; apply fid_beq_true in Hm; subst f0.
      - assert (Hin' : In (GNe0 f) (filter not_val gs)) by (apply filter_In; split; [exact Hin|reflexivity]).
        pose proof (eval_guards_true_all fs [x30] _ He _ Hin') as E. cbn [eval_guard] in E. inversion E as [E1].
        intro Z0. rewrite Z0 in E1. discriminate.
      - assert (Hin' : In (GGt0 f) (filter not_val gs)) by (apply filter_In; split; [exact Hin|reflexivity]).
        pose proof (eval_guards_true_all fs [x30] _ He _ Hin') as E. cbn [eval_guard] in E. inversion E as [E1].
        intro Z0. rewrite Z0 in E1. discriminate. }
    cbn [path_get]. destruct (getf f fs) as [v|]; [eexists; reflexivity|]. exfalso. apply K. reflexivity.
  Qed.

  (* ---------------------------------------------------------------- one struct through one table *)
  Definition ei_ok (ei : item -> option bytes) (n : nat) : Prop :=
    forall i, item_size i <= n -> wt i = true -> ei i <> None.
  Definition rt_ok (rt : bytes -> list (fid * fval) -> option (list bytes * bool)) (d n : nat) : Prop :=
    forall Lk name fs, tbl_defined T LE d Lk name = true -> fields_ok Lk n fs -> rt name fs <> None.

  Definition leaf_of (d : nat) (t' : gotype) : bool :=
    match t' with
    | TEndpoints => tbl_defined T LE d LE (B "Endpoints_MarshalJSON")
    | TPubKey => tbl_defined T LE d layout_pubkey (B "PublicKey_MarshalJSON")
    | TSource => tbl_defined T LE d layout_source (B "Source_MarshalJSON")
    | _ => false
    end.

  Lemma coll_go_defined ei n term : ei_ok ei n -> forall l acc,
    items_size l <= n -> (forall x, In x l -> wt x = true) ->
    (fix go (l : list item) (acc : list bytes) : option (bytes * bytes * bool) :=
       match l with
       | [] => Some (term, x5b :: join_with comma (rev acc) ++ [x5d], true)
       | i :: r => match ei i with
                   | Some [] => go r acc
                   | Some b => go r (b :: acc)
                   | None => None
                   end
       end) l acc <> None.
  Proof.
    intros Hei. induction l as [|x r IH]; intros acc Hs Hw; [discriminate|].
    cbn [items_size] in Hs.
    destruct (ei x) as [b|] eqn:E.
    - destruct b; apply IH; try lia; intros y Hy; apply Hw; right; exact Hy.
    - exfalso. apply (Hei x); [pose proof (item_size_pos x); lia|apply Hw; left; reflexivity|exact E].
  Qed.

  Lemma write_value_defined ei rt d n Lk fs w via term path gs t :
    ei_ok ei n -> rt_ok rt d n -> fields_ok Lk n fs ->
    path_type Lk path = Some t -> writer_defined (leaf_of d) w via t path gs = true ->
    eval_guards fs [x30] (filter not_val gs) = Some true ->
    write_value ei rt w via term (path_get path fs) <> None.
  Proof.
    intros Hei Hrt Hfs Hp Hw Hg.
    pose proof (path_get_typed Lk n fs path t Hfs Hp) as Hv.
    unfold writer_defined in Hw. unfold write_value.
    destruct (bytes_eqb w (B "JSONWriteItemProp")).
    { destruct (path_get path fs) as [v|]; [|discriminate].
      destruct (Hv v eq_refl) as [C [W S]].
      destruct v; try (destruct t; discriminate).
      - cbn [wt_fval fval_size] in W, S. destruct (ei i) eqn:E; [discriminate|]. exfalso. exact (Hei i S W E).
      - assert (S' : item_size (IItems false l) <= n) by (destruct l; exact S).
        destruct (ei (IItems false l)) eqn:E; [discriminate|]. exfalso. exact (Hei _ S' (wtv_items_item l W) E). }
    destruct (bytes_eqb w (B "JSONWriteItemCollectionProp")).
    { destruct (path_get path fs) as [v|]; [|discriminate].
      destruct (Hv v eq_refl) as [C [W S]].
      destruct v; try (destruct t; discriminate).
      destruct l as [[|x r]|]; try discriminate.
      rewrite fval_size_items in S. assert (S2 : items_size (x :: r) <= n) by lia.
      exact (coll_go_defined ei n term Hei (x :: r) [] S2 (wtv_items _ W)). }
    destruct (bytes_eqb w (B "JSONWriteNaturalLanguageProp")).
    { destruct (path_get path fs) as [v|]; [|discriminate].
      destruct (Hv v eq_refl) as [C [W S]].
      destruct v; try (destruct t; discriminate). destruct l; discriminate. }
    destruct (bytes_eqb w (B "JSONWriteProp")).
    { destruct (path_get path fs) as [v|] eqn:E0; [|discriminate].
      destruct (Hv v eq_refl) as [C [W S]].
      destruct t; try discriminate; destruct v; try discriminate.
      - (* string *)
        unfold str_via_known in Hw. rewrite Hw. discriminate.
      - (* source *)
        cbn [leaf_of] in Hw.
        destruct (rt (B "Source_MarshalJSON") (source_fields mt c)) as [[ms ne]|] eqn:R; [discriminate|].
        exfalso. cbn [fval_size] in S. exact (Hrt _ _ _ Hw (source_fields_ok mt c n S) R).
      - (* endpoints *)
        apply andb_prop in Hw. destruct Hw as [Hw Hnn]. cbn [leaf_of] in Hw.
        destruct e as [e|]; [|exfalso; exact (guarded_nonnil_stored fs path gs Hnn Hg E0)].
        destruct (rt (B "Endpoints_MarshalJSON") (endpoints_fields e)) as [[ms ne]|] eqn:R; [discriminate|].
        exfalso. rewrite fval_size_endp in S.
        assert (F : fields_ok LE n (endpoints_fields e)).
        { intros f v G. destruct (wtv_endpoints e W f v G) as [A [B0 C0]]. split; [exact A|split; [exact B0|lia]]. }
        exact (Hrt _ _ _ Hw F R).
      - (* public key *)
        cbn [leaf_of] in Hw.
        destruct (rt (B "PublicKey_MarshalJSON") (pubkey_fields id owner pem)) as [[ms ne]|] eqn:R; [discriminate|].
        exfalso. cbn [fval_size] in S. exact (Hrt _ _ _ Hw (pubkey_fields_ok id owner pem n S) R). }
    destruct (bytes_eqb w (B "JSONWriteTimeProp")).
    { apply andb_prop in Hw. destruct Hw as [_ Hw]. destruct (guarded_time_stored fs path gs Hw Hg) as [tm ->].
      destruct (time_writable tm); discriminate. }
    destruct (bytes_eqb w (B "JSONWriteDurationProp")).
    { apply andb_prop in Hw. destruct Hw as [Ht Hw]. destruct (guarded_num_stored fs path gs Hw Hg) as [v E].
      rewrite E. destruct (Hv v E) as [C _]. destruct t; try discriminate. destruct v; discriminate. }
    destruct (bytes_eqb w (B "JSONWriteIntProp")); [discriminate|].
    destruct (bytes_eqb w (B "JSONWriteFloatProp")); [discriminate|].
    destruct (bytes_eqb w (B "JSONWriteBoolProp")); [discriminate|].
    destruct (bytes_eqb w (B "JSONWriteStringProp")).
    { destruct (path_get path fs) as [v|]; [|discriminate].
      destruct (Hv v eq_refl) as [C _]. destruct t; try discriminate. destruct v; discriminate. }
    destruct (bytes_eqb w (B "JSONWriteIRIProp")).
    { destruct (path_get path fs) as [v|]; [|discriminate].
      destruct (Hv v eq_refl) as [C _]. destruct t; try discriminate. destruct v; try discriminate. destruct s; discriminate. }
    discriminate.
  Qed.

  Lemma apply_acc_known a r ne : acc_known a = true -> exists x, apply_acc a r ne = Some x.
  Proof. destruct a; intro H; try discriminate; eexists; reflexivity. Qed.

  Definition stmt_ok (d : nat) (Lk : list fdecl) (s : wstmt) : bool :=
    match s with
    | WProp _ w path via gs acc _ =>
        forallb guard_known gs && acc_known acc &&
        match path_type Lk path with
        | Some t => writer_defined (leaf_of d) w via t path gs
        | None => false
        end
    | WDelegate _ fn acc _ => match fn with [] => true | _ => acc_known acc && tbl_defined T LE d Lk fn end
    | WUnrecognised _ _ => false
    end.

  Lemma tbl_defined_S d Lk name :
    tbl_defined T LE (S d) Lk name =
    match jw_table T name with
    | None => false
    | Some (_, stmts) => forallb (stmt_ok d Lk) stmts
    end.
  Proof. reflexivity. Qed.

  Lemma enc_stmts_defined ei rt d n Lk fs : ei_ok ei n -> rt_ok rt d n -> fields_ok Lk n fs ->
    forall stmts st, forallb (stmt_ok d Lk) stmts = true -> enc_stmts ei rt stmts fs st <> None.
  Proof.
    intros Hei Hrt Hfs. induction stmts as [|s rest IH]; intros [ms ne] H; [discriminate|].
    cbn [forallb] in H. apply andb_prop in H. destruct H as [Hs Hr].
    cbn [enc_stmts]. destruct s as [term w path via gs acc pos|on fn acc pos|src pos]; [| |discriminate].
    - cbn [stmt_ok] in Hs. apply andb_prop in Hs. destruct Hs as [Hs Hw]. apply andb_prop in Hs. destruct Hs as [Hgs Hacc].
      destruct (path_type Lk path) as [t|] eqn:Hp; [|discriminate].
      change (fun g : wguard => match g with GValNonEmpty => false | _ => true end) with not_val.
      destruct (eval_guards_known fs [x30] _ (filter_known not_val gs Hgs)) as [[|] Eg]; rewrite Eg; [|apply IH; exact Hr].
      pose proof (write_value_defined ei rt d n Lk fs w via term path gs t Hei Hrt Hfs Hp Hw Eg) as Hwv.
      destruct (write_value ei rt w via term (path_get path fs)) as [[[term' b] r]|]; [|exfalso; apply Hwv; reflexivity].
      destruct (eval_guards_known fs b gs Hgs) as [[|] Eg2]; rewrite Eg2; [|apply IH; exact Hr].
      destruct (apply_acc_known acc r ne Hacc) as [ne' ->]. apply IH. exact Hr.
    - cbn [stmt_ok] in Hs. destruct fn as [|c fn]; [apply IH; exact Hr|].
      apply andb_prop in Hs. destruct Hs as [Hacc Ht].
      pose proof (Hrt Lk (c :: fn) fs Ht Hfs) as R.
      destruct (rt (c :: fn) fs) as [[ms' r]|]; [|exfalso; apply R; reflexivity].
      destruct (apply_acc_known acc r ne Hacc) as [ne' ->]. apply IH. exact Hr.
  Qed.

  Lemma run_table_defined ei n : ei_ok ei n -> forall d, rt_ok (run_table T d ei) d n.
  Proof.
    intros Hei. induction d as [|d IH]; intros Lk name fs Ht Hfs; [discriminate|].
    rewrite tbl_defined_S in Ht. cbn [run_table].
    destruct (jw_table T name) as [[init stmts]|]; [|discriminate].
    exact (enc_stmts_defined (ei) (run_table T d ei) d n Lk fs Hei IH Hfs stmts ([], init) Ht).
  Qed.

  (* ---------------------------------------------------------------- the items *)
  Hypothesis HT : enc_defined_tables_ok T LE L = true.

  Lemma kind_table_defined k : tbl_defined T LE 6 (L k) (marshal_table k) = true.
  Proof.
    unfold enc_defined_tables_ok in HT. rewrite forallb_forall in HT. apply HT. destruct k; cbn; tauto.
  Qed.

  Lemma list_go_defined ei n : ei_ok ei n -> forall l acc,
    items_size l <= n -> (forall x, In x l -> wt x = true) ->
    (fix go (l : list item) (acc : list bytes) : option bytes :=
       match l with
       | [] => Some (x5b :: join_with comma (rev acc) ++ [x5d])
       | x :: r => match ei x with
                   | Some [] => go r acc
                   | Some b => go r (b :: acc)
                   | None => None
                   end
       end) l acc <> None.
  Proof.
    intros Hei. induction l as [|x r IH]; intros acc Hs Hw; [discriminate|].
    cbn [items_size] in Hs.
    destruct (ei x) as [b|] eqn:E.
    - destruct b; apply IH; try lia; intros y Hy; apply Hw; right; exact Hy.
    - exfalso. apply (Hei x); [pose proof (item_size_pos x); lia|apply Hw; left; reflexivity|exact E].
  Qed.

  Theorem enc_item_defined : forall fuel x, item_size x <= fuel -> wt x = true -> enc_item T fuel x <> None.
  Proof.
    induction fuel as [|f IH]; intros x Hs Hw; [pose proof (item_size_pos x); lia|].
    assert (Hei : ei_ok (enc_item T f) f) by (intros i Hi Hwi; apply IH; assumption).
    destruct x as [|k|p s|p k fs|p [l|]|p [l|]]; cbn [enc_item]; try discriminate.
    - destruct (is_nil (IIri p s)); discriminate.
    - rewrite item_size_obj in Hs.
      assert (Hfs : fields_ok (L k) f fs).
      { intros g v G. destruct (wt_obj_fields p k fs Hw g v G) as [A [B0 C]]. split; [exact A|split; [exact B0|lia]]. }
      pose proof (run_table_defined (enc_item T f) f Hei 6 (L k) (marshal_table k) fs (kind_table_defined k) Hfs) as R.
      destruct (run_table T 6 (enc_item T f) (marshal_table k) fs) as [[ms ne]|]; [discriminate|exfalso; apply R; reflexivity].
    - rewrite item_size_items in Hs. destruct l as [|x [|y r]]; [discriminate| |].
      + cbn [items_size] in Hs. apply IH; [lia|apply (wt_items _ _ Hw); left; reflexivity].
      + assert (S2 : items_size (x :: y :: r) <= f) by lia.
        exact (list_go_defined (enc_item T f) f Hei (x :: y :: r) [] S2 (wt_items _ _ Hw)).
    - destruct p, l; discriminate.
    - destruct p; discriminate.
  Qed.

  (* the fuel marshal_json gives is one more than needed *)
  Theorem marshal_json_defined : forall x, wt x = true -> marshal_json T x <> None.
  Proof. intros x Hw. unfold marshal_json. apply enc_item_defined; [lia|exact Hw]. Qed.

  Theorem marshal_json_answers : forall x, wt x = true -> exists b, marshal_json T x = Some b.
  Proof.
    intros x Hw. pose proof (marshal_json_defined x Hw) as H.
    destruct (marshal_json T x) as [b|]; [exists b; reflexivity|exfalso; apply H; reflexivity].
  Qed.
End Defined.
