(* ItemsEqual looks at the IRI comparison only on the ids that occur in its two arguments (builder b56): two models of
   IRI.Equals that agree on a set [dom] of strings containing the empty string (an unset id) give the same ItemsEqual
   on every pair of items whose ids - at any depth: links of items, ids of objects and links, rel / href of links,
   members of IRI lists (Model/IdsIn.v ids_in) - lie in [dom].  By going through every definition of module EqG of
   Model/Equal.v (the repaired code, cfg_fixed): the block comparisons, the nine Equals methods, ItemCollection.Equals /
   Contains, the dispatch of ItemsEqual; then induction on the fuel. *)
From AP.Model Require Import Prelude Vocab Pred Url IriEq IriNf Nlv Equal IdsIn.
From AP.Gen Require Import TypeLists.
From AP.Proofs Require Import NlvP IriEqP RecipP.

Section Dom.
  Variable dom : bytes -> bool.
  Hypothesis dom_nil : dom [] = true.
  Notation ok := (ids_in dom).
  Notation fok := (fields_in dom).

  Lemma go_items l :
    (fix go (l : list item) : bool := match l with [] => true | x :: r => ids_in dom x && go r end) l = forallb ok l.
  Proof. induction l as [|x r IH]; [reflexivity|]. cbn [forallb]. rewrite <- IH. reflexivity. Qed.
  Lemma ids_in_obj p k fs : ok (IObj p k fs) = fok fs.
  Proof.
    cbn [ids_in]. unfold fields_in. induction fs as [|[f v] r IH]; [reflexivity|]. cbn [forallb fst snd]. rewrite <- IH. reflexivity.
  Qed.
  Lemma ids_in_list p l : ok (IItems p (Some l)) = forallb ok l.
  Proof. cbn [ids_in]. apply go_items. Qed.
  Lemma fval_items f l : fval_ids_in dom f (FItems (Some l)) = forallb ok l.
  Proof. cbn [fval_ids_in]. apply go_items. Qed.

  Lemma getf_ok f fs v : fok fs = true -> getf f fs = Some v -> fval_ids_in dom f v = true.
  Proof.
    unfold fields_in. induction fs as [|[g w] r IH]; intros H E; [discriminate|].
    cbn [forallb fst snd] in H. apply andb_true_iff in H. destruct H as [H1 H2]. cbn [getf] in E.
    destruct (fid_beq f g) eqn:B.
    - apply fid_beq_true in B. subst g. inversion E; subst. exact H1.
    - apply IH; assumption.
  Qed.

  Lemma get_item_ok f fs : fok fs = true -> ok (get_item f fs) = true.
  Proof.
    intro H. unfold get_item. destruct (getf f fs) as [v|] eqn:E; [|reflexivity].
    pose proof (getf_ok f fs v H E) as K. destruct v; try reflexivity. exact K.
  Qed.
  Lemma get_items_members f fs l : fok fs = true -> get_items f fs = Some l -> forallb ok l = true.
  Proof.
    intros H. unfold get_items. destruct (getf f fs) as [v|] eqn:E; [|discriminate].
    pose proof (getf_ok f fs v H E) as K. destruct v; try discriminate. intros ->. rewrite fval_items in K. exact K.
  Qed.
  Lemma get_items_ok f fs : fok fs = true -> ok (IItems false (get_items f fs)) = true.
  Proof.
    intro H. destruct (get_items f fs) as [l|] eqn:E; [|reflexivity]. rewrite ids_in_list. eapply get_items_members; eauto.
  Qed.
  Lemma view_items_members fs l : fok fs = true -> view_items fs = Some l -> forallb ok l = true.
  Proof.
    intros H. unfold view_items. destruct (get_items F_Items fs) as [l0|] eqn:E.
    - intro K. inversion K; subst. eapply get_items_members; eauto.
    - apply get_items_members. exact H.
  Qed.
  Lemma view_items_ok fs : fok fs = true -> ok (IItems false (view_items fs)) = true.
  Proof.
    intro H. destruct (view_items fs) as [l|] eqn:E; [|reflexivity]. rewrite ids_in_list. eapply view_items_members; eauto.
  Qed.
  Lemma get_str_ok f fs : is_id_field f = true -> fok fs = true -> dom (get_str f fs) = true.
  Proof.
    intros I H. unfold get_str. destruct (getf f fs) as [v|] eqn:E; [|exact dom_nil].
    pose proof (getf_ok f fs v H E) as K. destruct v; try exact dom_nil. cbn [fval_ids_in] in K. rewrite I in K. exact K.
  Qed.
  Lemma lnk_ok w : ok w = true -> dom (lnk w) = true.
  Proof.
    intro H. destruct w as [| |p s|p k fs|p l|p l]; try exact dom_nil.
    - exact H.
    - rewrite ids_in_obj in H. unfold lnk. cbn [get_link]. apply get_str_ok; [reflexivity|exact H].
  Qed.
  Lemma as_kind_ok k w wfs : ok w = true -> as_kind k w = Some wfs -> fok wfs = true.
  Proof.
    intros H. destruct w as [| |p s|p k' fs|p l|p l]; try discriminate. cbn [as_kind].
    destruct (cast_ok k k'); [|discriminate]. intro E. inversion E; subst. rewrite ids_in_obj in H. exact H.
  Qed.
  Lemma fields_of_ok it : ok it = true -> fok (EqG.fields_of it) = true.
  Proof. intro H. destruct it; try reflexivity. rewrite ids_in_obj in H. exact H. Qed.
  Lemma to_ic_ok w l : ok w = true -> to_item_collection w = Some l -> forallb ok l = true.
  Proof.
    intros H. destruct w as [| |p s|p k fs|p [l0|]|p [l0|]]; cbn [to_item_collection]; try discriminate.
    - rewrite ids_in_obj in H. destruct p; [|discriminate].
      destruct k; try discriminate; intro E; inversion E; subst;
        (destruct (view_items fs) as [l1|] eqn:V; [eapply view_items_members; eauto|reflexivity]).
    - intro E. inversion E; subst. rewrite ids_in_list in H. exact H.
    - intro E. inversion E; subst. reflexivity.
    - intro E. inversion E; subst. cbn [ids_in] in H. rewrite forallb_forall in *. intros x Hx.
      apply in_map_iff in Hx. destruct Hx as [s [<- Hs]]. cbn [ids_in]. apply H. exact Hs.
    - intro E. inversion E; subst. reflexivity.
  Qed.

  Definition cmp_ok (c : cmp) : bool := match c with CIri f => is_id_field f | _ => true end.

  Section Two.
    Variables e1 e2 : bytes -> bytes -> bool -> bool.
    Hypothesis agree : forall a b cs, dom a = true -> dom b = true -> e1 a b cs = e2 a b cs.

    Section Rec.
      Variables r1 r2 : item -> item -> outcome bool.
      Hypothesis Hrec : forall x y, ok x = true -> ok y = true -> r1 x y = r2 x y.

      Lemma contains_congr r l : ok r = true -> forallb ok l = true -> contains_m r1 l r = contains_m r2 l r.
      Proof.
        intros Hr. induction l as [|m t IH]; intro Hl; [reflexivity|]. cbn [forallb] in Hl. apply andb_true_iff in Hl.
        destruct Hl as [Hm Ht]. cbn [contains_m]. rewrite (Hrec m r Hm Hr), (IH Ht). reflexivity.
      Qed.
      Lemma all_contained_congr w i : forallb ok w = true -> forallb ok i = true ->
        all_contained cfg_fixed r1 i w = all_contained cfg_fixed r2 i w.
      Proof.
        intros Hw. induction i as [|x t IH]; intro Hi; [reflexivity|]. cbn [forallb] in Hi. apply andb_true_iff in Hi.
        destruct Hi as [Hx Ht]. cbn [all_contained cfg_fixed c_member_items]. rewrite (contains_congr x w Hx Hw), (IH Ht). reflexivity.
      Qed.
      (* the one-to-one matching of the repaired ItemCollection.Equals (builder b58): the same member comparisons *)
      Lemma find_unused_congr x w : ok x = true -> forallb ok w = true -> forall used,
        find_unused r1 w used x = find_unused r2 w used x.
      Proof.
        intros Hx. induction w as [|m t IH]; intros Hw used; [reflexivity|]. cbn [forallb] in Hw.
        apply andb_true_iff in Hw. destruct Hw as [Hm Ht].
        destruct used as [|[|] ut]; cbn [find_unused]; [reflexivity| |].
        - rewrite (IH Ht ut). reflexivity.
        - rewrite (Hrec m x Hm Hx), (IH Ht ut). reflexivity.
      Qed.
      Lemma all_matched_congr w i : forallb ok w = true -> forallb ok i = true -> forall used,
        all_matched r1 i w used = all_matched r2 i w used.
      Proof.
        intros Hw. induction i as [|x t IH]; intros Hi used; [reflexivity|]. cbn [forallb] in Hi.
        apply andb_true_iff in Hi. destruct Hi as [Hx Ht]. cbn [all_matched].
        rewrite (find_unused_congr x w Hx Hw used).
        destruct (find_unused r2 w used x) as [[u'|]| | |]; cbn [obind]; try reflexivity. apply (IH Ht).
      Qed.
      Lemma itemcoll_congr i w : forallb ok i = true -> ok w = true ->
        itemcoll_equals cfg_fixed r1 i w = itemcoll_equals cfg_fixed r2 i w.
      Proof.
        intros Hi Hw. unfold itemcoll_equals. destruct (is_nil w); [reflexivity|].
        destruct (negb (is_collection_m w)); [reflexivity|].
        match goal with |- (if ?c then _ else _) = _ => destruct c end; [reflexivity|].
        destruct (to_item_collection w) as [wl|] eqn:E; [|reflexivity].
        destruct (negb (Nat.eqb (length wl) (length i))); [reflexivity|].
        cbn [cfg_fixed c_match_once]. apply all_matched_congr; [eapply to_ic_ok; eauto|exact Hi].
      Qed.

      Lemma cmp_one_congr c ofs wfs : cmp_ok c = true -> fok ofs = true -> fok wfs = true ->
        EqG.cmp_one e1 cfg_fixed r1 c ofs wfs = EqG.cmp_one e2 cfg_fixed r2 c ofs wfs.
      Proof.
        intros Hc Ho Hw. destruct c; cbn [EqG.cmp_one]; try reflexivity.
        - pose proof (get_item_ok f wfs Hw) as K. destruct (get_item f wfs); try reflexivity; apply Hrec; auto using get_item_ok.
        - destruct (get_items f wfs) as [l|] eqn:E; [|reflexivity]. apply Hrec; [apply get_items_ok; exact Ho|].
          rewrite <- E. apply get_items_ok. exact Hw.
        - destruct (view_items wfs) as [l|] eqn:E; [|reflexivity]. apply Hrec; [apply view_items_ok; exact Ho|].
          rewrite <- E. apply view_items_ok. exact Hw.
        - destruct (view_items wfs) as [l|] eqn:E; [|reflexivity]. apply itemcoll_congr.
          + destruct (view_items ofs) as [ol|] eqn:V; [exact (view_items_members ofs ol Ho V)|reflexivity].
          + rewrite <- E. apply view_items_ok. exact Hw.
        - cbn [cfg_fixed c_url_items]. destruct (is_nil (get_item F_URL wfs)); [reflexivity|].
          apply Hrec; apply get_item_ok; assumption.
        - cbn [cmp_ok] in Hc. pose proof (get_str_ok f wfs Hc Hw) as K.
          destruct (get_str f wfs) as [|c s]; [reflexivity|]. rewrite (agree _ _ false (get_str_ok f ofs Hc Ho) K). reflexivity.
      Qed.

      Lemma all_cmp_congr cs ofs wfs : forallb cmp_ok cs = true -> fok ofs = true -> fok wfs = true ->
        EqG.all_cmp e1 cfg_fixed r1 cs ofs wfs = EqG.all_cmp e2 cfg_fixed r2 cs ofs wfs.
      Proof.
        intros Hc Ho Hw. induction cs as [|c r IH]; [reflexivity|]. cbn [forallb] in Hc. apply andb_true_iff in Hc.
        destruct Hc as [H1 H2]. cbn [EqG.all_cmp]. rewrite (cmp_one_congr c ofs wfs H1 Ho Hw), (IH H2). reflexivity.
      Qed.

      Lemma object_equals_congr ofs w : fok ofs = true -> ok w = true ->
        EqG.object_equals e1 cfg_fixed r1 ofs w = EqG.object_equals e2 cfg_fixed r2 ofs w.
      Proof.
        intros Ho Hw. unfold EqG.object_equals, nil_guard. cbn [cfg_fixed c_nil_guards]. destruct (is_nil w); [reflexivity|].
        destruct (is_item_collection w); [reflexivity|].
        rewrite (agree _ _ true (get_str_ok F_ID ofs eq_refl Ho) (lnk_ok w Hw)).
        destruct (negb (e2 (get_str F_ID ofs) (lnk w) true)); [reflexivity|].
        destruct (negb (fold_eqb (get_str F_Type ofs) (typ w))); [reflexivity|].
        destruct (as_kind KObject w) as [wfs|] eqn:A; [|reflexivity].
        apply all_cmp_congr; [reflexivity|exact Ho|eapply as_kind_ok; eauto].
      Qed.

      Ltac sub_obj L := rewrite L by (try rewrite ids_in_obj; assumption).

      Lemma intransitive_equals_congr ofs w : fok ofs = true -> ok w = true ->
        EqG.intransitive_equals e1 cfg_fixed r1 ofs w = EqG.intransitive_equals e2 cfg_fixed r2 ofs w.
      Proof.
        intros Ho Hw. unfold EqG.intransitive_equals, nil_guard. cbn [cfg_fixed c_nil_guards]. destruct (is_nil w); [reflexivity|].
        destruct (as_kind KIntransitive w) as [wfs|] eqn:A; [|reflexivity]. pose proof (as_kind_ok _ _ _ Hw A) as Hf.
        sub_obj (object_equals_congr ofs (IObj true KIntransitive wfs)).
        rewrite (all_cmp_congr intransitive_cmps ofs wfs eq_refl Ho Hf). reflexivity.
      Qed.
      Lemma activity_equals_congr ofs w : fok ofs = true -> ok w = true ->
        EqG.activity_equals e1 cfg_fixed r1 ofs w = EqG.activity_equals e2 cfg_fixed r2 ofs w.
      Proof.
        intros Ho Hw. unfold EqG.activity_equals, nil_guard. cbn [cfg_fixed c_nil_guards]. destruct (is_nil w); [reflexivity|].
        destruct (as_kind KActivity w) as [wfs|] eqn:A; [|reflexivity]. pose proof (as_kind_ok _ _ _ Hw A) as Hf.
        sub_obj (intransitive_equals_congr ofs (IObj true KActivity wfs)).
        rewrite (all_cmp_congr activity_cmps ofs wfs eq_refl Ho Hf). reflexivity.
      Qed.
      Lemma actor_equals_congr ofs w : fok ofs = true -> ok w = true ->
        EqG.actor_equals e1 cfg_fixed r1 ofs w = EqG.actor_equals e2 cfg_fixed r2 ofs w.
      Proof.
        intros Ho Hw. unfold EqG.actor_equals, nil_guard. cbn [cfg_fixed c_nil_guards]. destruct (is_nil w); [reflexivity|].
        destruct (as_kind KActor w) as [wfs|] eqn:A; [|reflexivity]. pose proof (as_kind_ok _ _ _ Hw A) as Hf.
        sub_obj (object_equals_congr ofs (IObj true KActor wfs)).
        rewrite (all_cmp_congr actor_cmps ofs wfs eq_refl Ho Hf). reflexivity.
      Qed.
      Lemma collection_equals_congr ofs w : fok ofs = true -> ok w = true ->
        EqG.collection_equals e1 cfg_fixed r1 ofs w = EqG.collection_equals e2 cfg_fixed r2 ofs w.
      Proof.
        intros Ho Hw. unfold EqG.collection_equals. destruct (is_nil w); [reflexivity|].
        destruct (negb (is_collection_m w)); [reflexivity|].
        destruct (as_kind KCollection w) as [wfs|] eqn:A; [|reflexivity]. pose proof (as_kind_ok _ _ _ Hw A) as Hf.
        cbn [cfg_fixed c_with_driven].
        sub_obj (object_equals_congr ofs (IObj true KCollection wfs)).
        rewrite (all_cmp_congr collection_cmps ofs wfs eq_refl Ho Hf). reflexivity.
      Qed.
      Lemma page_equals_congr ofs w : fok ofs = true -> ok w = true ->
        EqG.page_equals e1 cfg_fixed r1 ofs w = EqG.page_equals e2 cfg_fixed r2 ofs w.
      Proof.
        intros Ho Hw. unfold EqG.page_equals. destruct (is_nil w); [reflexivity|].
        destruct (negb (is_collection_m w)); [reflexivity|].
        destruct (as_kind KCollectionPage w) as [wfs|] eqn:A; [|reflexivity]. pose proof (as_kind_ok _ _ _ Hw A) as Hf.
        cbn [cfg_fixed c_with_driven].
        sub_obj (collection_equals_congr ofs (IObj true KCollectionPage wfs)).
        rewrite (all_cmp_congr page_cmps ofs wfs eq_refl Ho Hf). reflexivity.
      Qed.
      Lemma ordered_equals_congr ofs w : fok ofs = true -> ok w = true ->
        EqG.ordered_equals e1 cfg_fixed r1 ofs w = EqG.ordered_equals e2 cfg_fixed r2 ofs w.
      Proof.
        intros Ho Hw. unfold EqG.ordered_equals. destruct (is_nil w); [reflexivity|].
        destruct (negb (is_collection_m w)); [reflexivity|].
        destruct (as_kind KOrdered w) as [wfs|] eqn:A; [|reflexivity]. pose proof (as_kind_ok _ _ _ Hw A) as Hf.
        cbn [cfg_fixed c_with_driven].
        sub_obj (collection_equals_congr ofs (IObj true KOrdered wfs)).
        rewrite (all_cmp_congr ordered_cmps ofs wfs eq_refl Ho Hf). reflexivity.
      Qed.
      Lemma opage_equals_congr ofs w : fok ofs = true -> ok w = true ->
        EqG.opage_equals e1 cfg_fixed r1 ofs w = EqG.opage_equals e2 cfg_fixed r2 ofs w.
      Proof.
        intros Ho Hw. unfold EqG.opage_equals. destruct (is_nil w); [reflexivity|].
        destruct (negb (is_collection_m w)); [reflexivity|].
        destruct (as_kind KOrderedPage w) as [wfs|] eqn:A; [|reflexivity]. pose proof (as_kind_ok _ _ _ Hw A) as Hf.
        cbn [cfg_fixed c_with_driven].
        sub_obj (ordered_equals_congr ofs (IObj true KOrderedPage wfs)).
        rewrite (all_cmp_congr page_cmps ofs wfs eq_refl Ho Hf). reflexivity.
      Qed.
      Lemma link_equals_congr lfs w : fok lfs = true -> ok w = true ->
        EqG.link_equals e1 cfg_fixed r1 lfs w = EqG.link_equals e2 cfg_fixed r2 lfs w.
      Proof.
        intros Ho Hw. unfold EqG.link_equals. destruct (is_nil w || negb (is_link w)); [reflexivity|].
        destruct (as_kind KLink w) as [wfs|] eqn:A; [|reflexivity]. pose proof (as_kind_ok _ _ _ Hw A) as Hf.
        rewrite (agree _ _ true (get_str_ok F_ID lfs eq_refl Ho) (get_str_ok F_ID wfs eq_refl Hf)).
        destruct (negb (e2 (get_str F_ID lfs) (get_str F_ID wfs) true)); [reflexivity|].
        destruct (negb (fold_eqb (get_str F_Type lfs) (get_str F_Type wfs))); [reflexivity|].
        apply all_cmp_congr; [reflexivity|exact Ho|exact Hf].
      Qed.

      Lemma object_branch_congr it w : ok it = true -> ok w = true ->
        EqG.object_branch e1 cfg_fixed r1 it w = EqG.object_branch e2 cfg_fixed r2 it w.
      Proof.
        intros Hi Hw. pose proof (fields_of_ok it Hi) as Hf. unfold EqG.object_branch.
        repeat match goal with
        | |- (if ?c then _ else _) = (if ?c then _ else _) => destruct c
        | |- match as_kind ?k it with _ => _ end = match as_kind ?k it with _ => _ end =>
            let A := fresh "A" in destruct (as_kind k it) as [?|] eqn:A; [pose proof (as_kind_ok _ _ _ Hi A)|]
        end;
        auto using object_equals_congr, activity_equals_congr, actor_equals_congr, collection_equals_congr,
          page_equals_congr, ordered_equals_congr, opage_equals_congr.
      Qed.

      Lemma body_congr it w : ok it = true -> ok w = true ->
        EqG.items_equal_body e1 cfg_fixed r1 it w = EqG.items_equal_body e2 cfg_fixed r2 it w.
      Proof.
        intros Hi Hw. unfold EqG.items_equal_body. destruct (is_nil it || is_nil w); [reflexivity|].
        destruct (needs_swap it w); [apply Hrec; assumption|].
        destruct (is_iri w || is_iri it); [rewrite (agree _ _ false (lnk_ok it Hi) (lnk_ok w Hw)); reflexivity|].
        destruct (is_item_collection it).
        { destruct (negb (is_item_collection w)); [reflexivity|].
          destruct (to_item_collection it) as [l|] eqn:E; [|reflexivity]. apply itemcoll_congr; [exact (to_ic_ok it l Hi E)|exact Hw]. }
        destruct (is_object it); [apply object_branch_congr; assumption|].
        destruct (c_link_branch cfg_fixed && is_link it); [|reflexivity].
        apply link_equals_congr; [apply fields_of_ok; exact Hi|exact Hw].
      Qed.
    End Rec.

    Lemma items_equal_c_congr n : forall it w, ok it = true -> ok w = true ->
      EqG.items_equal_c e1 cfg_fixed n it w = EqG.items_equal_c e2 cfg_fixed n it w.
    Proof.
      induction n as [|n IH]; intros it w Hi Hw; [reflexivity|]. cbn [EqG.items_equal_c].
      apply body_congr; assumption.
    Qed.

    Theorem ieq_congr x y : ok x = true -> ok y = true -> EqGI.ieq e1 x y = EqGI.ieq e2 x y.
    Proof. intros Hx Hy. unfold EqGI.ieq, EqG.items_equal. apply items_equal_c_congr; assumption. Qed.
  End Two.
End Dom.
