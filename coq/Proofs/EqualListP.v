(* C09, lists with a repeated member (builder b58).

   ItemCollection.Equals after the fix "ItemCollection.Equals only asked whether every member is contained in the
   other list": after the length test the members are matched ONE TO ONE (Model/Equal.v all_matched / find_unused:
   a []bool of used positions; Proofs/EqualP.v all_matched_fresh: the same as taking the matched member out of the
   other list, all_removed / remove_first).  Before, every member of the receiver was looked up with w.Contains:
   [a a] equalled [a b] (and not the other way round).

   Generic in the IRI comparison like Proofs/EqualP.v (module EqGP; only reflexivity of the comparison is used here):
   module ElGP, instantiated below for [iri_eqb] and in Props/C09.v for [iri_equ]. *)
From Coq Require Import List Arith Lia Bool.
From AP.Model Require Import Prelude Vocab Pred IriEq Nlv Equal.
From AP.Gen Require Import TypeLists.
From AP.Proofs Require Import NlvP IriEqP EqualP.
Import ListNotations.

(* ---- the matching itself, for any member comparison [rec] ---- *)
Section Rec.
  Variable rec : item -> item -> outcome bool.

  (* [a a] against [a b], both orders: the second a finds no partner / b finds no partner *)
  Lemma all_removed_aa_ab a b : rec a a = Ok true -> rec b a = Ok false -> all_removed rec [a; a] [a; b] = Ok false.
  Proof. intros Ha Hba. cbn [all_removed remove_first]. rewrite Ha. cbn [obind all_removed remove_first]. rewrite Hba. reflexivity. Qed.
  Lemma all_removed_ab_aa a b : rec a a = Ok true -> rec a b = Ok false -> all_removed rec [a; b] [a; a] = Ok false.
  Proof. intros Ha Hab. cbn [all_removed remove_first]. rewrite Ha. cbn [obind all_removed remove_first]. rewrite Hab. reflexivity. Qed.
  (* [a b a] against [a b b] *)
  Lemma all_removed_aba_abb a b :
    rec a a = Ok true -> rec b b = Ok true -> rec a b = Ok false -> rec b a = Ok false ->
    all_removed rec [a; b; a] [a; b; b] = Ok false /\ all_removed rec [a; b; b] [a; b; a] = Ok false.
  Proof.
    intros Ha Hb Hab Hba. split; cbn [all_removed remove_first]; rewrite Ha; cbn [obind all_removed remove_first];
      rewrite Hb; cbn [obind all_removed remove_first].
    - rewrite Hba. reflexivity.
    - rewrite Hab. reflexivity.
  Qed.

  (* a member without any partner in the other list makes the lists unequal, wherever it stands and however often the
     other members occur (the old comparison had this too; kept) *)
  Lemma remove_first_none w x : (forall m, In m w -> rec m x = Ok false) -> remove_first rec w x = Ok None.
  Proof.
    induction w as [|m t IH]; intro H; [reflexivity|]. cbn [remove_first]. rewrite (H m (or_introl eq_refl)). cbn [obind].
    rewrite IH; [reflexivity|]. intros z Hz. apply H. right; exact Hz.
  Qed.
End Rec.

(* the old loop on the same witness: every member of [a a] is contained in [a b] *)
Lemma all_contained_aa_ab cfg rec a b : c_member_items cfg = true -> rec a a = Ok true ->
  all_contained cfg rec [a; a] [a; b] = Ok true.
Proof. intros Hc Ha. cbn [all_contained contains_m]. rewrite Hc, Ha. reflexivity. Qed.

(* ItemsEqual's body on two lists that are not the nil list is ItemCollection.Equals, and that is the length test
   followed by the matching *)
Lemma body_lists ideq rec p l q l' :
  EqG.items_equal_body ideq cfg_fixed rec (IItems p (Some l)) (IItems q (Some l'))
  = itemcoll_equals cfg_fixed rec l (IItems q (Some l')).
Proof. destruct p, q; reflexivity. Qed.
Lemma itemcoll_lists rec l q l' :
  itemcoll_equals cfg_fixed rec l (IItems q (Some l'))
  = if Nat.eqb (length l') (length l) then all_matched rec l l' (repeat false (length l')) else Ok false.
Proof.
  unfold itemcoll_equals. destruct q.
  all: match goal with |- (if ?c then _ else _) = _ => change c with false end; cbv iota.
  all: match goal with |- (if ?c then _ else _) = _ => change c with false end; cbv iota.
  all: match goal with |- (if ?c then _ else _) = _ => replace c with false by (vm_compute; reflexivity) end; cbv iota.
  all: cbn [to_item_collection]; destruct (Nat.eqb (length l') (length l)); reflexivity.
Qed.

Module ElGP.
Section IdRel.
  Variable ideq : bytes -> bytes -> bool -> bool.
  Hypothesis ideq_refl : forall s cs, ideq s s cs = true.
  Local Notation ieq := (EqGI.ieq ideq).
  Local Notation cmp_one := (EqG.cmp_one ideq).
  Local Notation ieq_unfold := (EqGP.ieq_unfold ideq).
  Local Notation ieq_refl := (EqGP.ieq_refl ideq ideq_refl).

  (* ItemsEqual on two lists (item lists in value or pointer form, not the nil list): equal lengths and a one-to-one
     matching of the members, the members compared by ItemsEqual(member of the second, member of the first) *)
  Lemma ieq_lists p l q l' :
    ieq (IItems p (Some l)) (IItems q (Some l'))
    = if Nat.eqb (length l') (length l) then all_removed ieq l l' else Ok false.
  Proof.
    rewrite ieq_unfold, body_lists, itemcoll_lists.
    destruct (Nat.eqb (length l') (length l)); [|reflexivity]. apply EqGP.all_matched_fresh.
  Qed.

  (* reflexivity on lists is kept, with repeated members as without *)
  Lemma ieq_list_refl p q l : ieq (IItems p (Some l)) (IItems q (Some l)) = Ok true.
  Proof.
    rewrite ieq_lists, Nat.eqb_refl. apply EqGP.all_removed_pointwise.
    induction l as [|x t IH]; constructor; [apply ieq_refl|exact IH].
  Qed.

  (* FOR ALL a, b that ItemsEqual tells apart: [a a] and [a b] are unequal in both argument orders, and so are
     [a b a] and [a b b] (the same members on both sides, different multiplicities) *)
  Theorem ieq_repeated_member p q a b :
    ieq a b = Ok false -> ieq b a = Ok false ->
    ieq (IItems p (Some [a; a])) (IItems q (Some [a; b])) = Ok false /\
    ieq (IItems p (Some [a; b])) (IItems q (Some [a; a])) = Ok false /\
    ieq (IItems p (Some [a; b; a])) (IItems q (Some [a; b; b])) = Ok false /\
    ieq (IItems p (Some [a; b; b])) (IItems q (Some [a; b; a])) = Ok false.
  Proof.
    intros Hab Hba. rewrite !ieq_lists. cbn [length Nat.eqb].
    pose proof (all_removed_aba_abb ieq a b (ieq_refl a) (ieq_refl b) Hab Hba) as [H1 H2].
    repeat split; [apply all_removed_aa_ab|apply all_removed_ab_aa|exact H1|exact H2]; auto using ieq_refl.
  Qed.

  (* a member of the first list that no member of the second equals: unequal, wherever it stands and however often the
     other members occur *)
  Lemma remove_first_sub w y : forall w', remove_first ieq w y = Ok (Some w') -> forall m, In m w' -> In m w.
  Proof.
    induction w as [|m0 t0 IHl]; intros w' E m Hm; [discriminate|].
    cbn [remove_first] in E. destruct (ieq m0 y) as [[|]| | |]; try discriminate; cbn [obind] in E.
    - injection E as <-. right; exact Hm.
    - destruct (remove_first ieq t0 y) as [[r|]| | |] eqn:E2; try discriminate. injection E as <-.
      destruct Hm as [<-|Hm]; [left; reflexivity|right; eapply IHl; eauto].
  Qed.

  Theorem ieq_list_member_without_partner p q l1 x l2 l' :
    (forall m, In m l' -> ieq m x = Ok false) ->
    ieq (IItems p (Some (l1 ++ x :: l2))) (IItems q (Some l')) = Ok false.
  Proof.
    intros Hx.
    destruct (EqGP.ieq_total ideq (IItems p (Some (l1 ++ x :: l2))) (IItems q (Some l'))) as [v Hv].
    destruct v; [exfalso|exact Hv]. rewrite ieq_lists in Hv.
    destruct (Nat.eqb (length l') (length (l1 ++ x :: l2))); [|discriminate].
    revert l' Hx Hv. induction l1 as [|y t IH]; intros l' Hx Hv.
    - cbn [app all_removed] in Hv. rewrite (remove_first_none _ _ _ Hx) in Hv. discriminate.
    - cbn [app all_removed] in Hv.
      destruct (remove_first ieq l' y) as [[w'|]| | |] eqn:E; try discriminate. cbn [obind] in Hv.
      apply (IH w'); [|exact Hv]. intros m Hm. apply Hx. eapply remove_first_sub; eauto.
  Qed.

  (* the clause of C09 on an object: a list-valued property of the core changed from [a a] to [a b] (or back) *)
  Theorem ieq_object_repeated_member f p k fs q k' gs a b :
    k <> KLink -> get_str F_Type fs = get_str F_Type gs -> In (CItems f) object_cmps ->
    ieq a b = Ok false -> ieq b a = Ok false ->
    (get_items f fs = Some [a; a] -> get_items f gs = Some [a; b] -> ieq (IObj p k fs) (IObj q k' gs) = Ok false) /\
    (get_items f fs = Some [a; b] -> get_items f gs = Some [a; a] -> ieq (IObj p k fs) (IObj q k' gs) = Ok false).
  Proof.
    intros Hk Ht Hin Hab Hba.
    destruct (ieq_repeated_member false false a b Hab Hba) as [H1 [H2 _]].
    split; intros Hf Hg; apply (EqGP.ieq_core_block_false ideq (CItems f)); auto.
    - apply (EqGP.cmp_items_rejects ideq f fs gs [a; b] Hg). rewrite Hf. exact H1.
    - apply (EqGP.cmp_items_rejects ideq f fs gs [a; a] Hg). rewrite Hf. exact H2.
  Qed.
End IdRel.
End ElGP.

(* ---- the instance with [iri_eqb] ---- *)
Ltac inst_l L := first [ exact (L iri_eqb iri_eqb_refl) | exact (L iri_eqb) ].
Definition ieq_lists := ltac:(inst_l ElGP.ieq_lists).
Definition ieq_list_refl := ltac:(inst_l ElGP.ieq_list_refl).
Definition ieq_repeated_member := ltac:(inst_l ElGP.ieq_repeated_member).
Definition ieq_list_member_without_partner := ltac:(inst_l ElGP.ieq_list_member_without_partner).
Definition ieq_object_repeated_member := ltac:(inst_l ElGP.ieq_object_repeated_member).
