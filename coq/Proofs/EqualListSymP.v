(* C09, the list comparison as a relation between lists (builder b59).

   ItemCollection.Equals after fix 4142955 (Model/Equal.v itemcoll_equals under c_match_once; Proofs/EqualP.v
   all_matched_fresh: the loop with the []bool of used positions = all_removed / remove_first) compares the lengths and
   then lets every member x of the receiver take the FIRST member m of the argument, not taken before, for which
   ItemsEqual(m, x) answers true (the code calls ItemsEqual(wit, it): member of the ARGUMENT first).  That is a greedy
   matching.  Left open by b58: symmetry on arbitrary lists, characterisation as multiset equality.

   Part 1 (Section Pure): for any boolean member relation [eqm] that is an equivalence on the members that occur
     - allrm eqm l1 l2 = true  <->  l1 is a sub-multiset of l2 up to eqm  (counts, for every y that occurs);
     - with the length test: list_eqm eqm l1 l2 = true  <->  the counts are EQUAL for every y that occurs;
     - hence list_eqm is symmetric and transitive (it is reflexive for any reflexive eqm: EqualP.all_removed_pointwise).
     [allrm] / [rm1] are the model's all_removed / remove_first read with a member comparison that answers Ok
     (all_removed_pure: EQUAL to the model's definitions, for every [rec] that answers Ok (eqm m x) on the members).
   Part 2 (module ElSG, generic in the IRI comparison like EqGP / ElGP): ItemsEqual never panics and never runs out of
     fuel (EqGP.ieq_total), so its boolean [ieqb] is a total member relation with ieq x y = Ok (ieqb x y) for ALL x, y;
     where ieqb is an equivalence on the members of two lists (a decidable condition, [equiv_on]), ItemsEqual /
     itemcoll_equals on the two lists is symmetric, and true exactly when the lists are equal as multisets up to ieqb.
   Part 3: ItemsEqual is NOT an equivalence on all items: it is not symmetric (Object.Equals looks only at what its
     ARGUMENT sets: a bare object equals a copy with a name in one order only) and not transitive (an IRI equals every
     object with that id, two such objects need not be equal).  On such members the greedy matching is not symmetric
     and depends on the ORDER of the members; concrete lists below (..._asymmetric_example, ..._order_example).  The
     property text of C09 asks for reflexivity, nil-correctness and sensitivity, not symmetry: not a defect. *)
From Coq Require Import List Arith Lia Bool.
From AP.Model Require Import Prelude Vocab Pred IriEq Nlv Equal.
From AP.Gen Require Import TypeLists.
From AP.Proofs Require Import NlvP IriEqP EqualP EqualListP.
Import ListNotations.

(* ================================================================================================ Part 1: pure *)
Section Pure.
  Variable eqm : item -> item -> bool.

  (* remove_first / all_removed with a comparison that always answers: eqm is called (member of w, member of i) *)
  Fixpoint rm1 (w : list item) (x : item) : option (list item) :=
    match w with
    | [] => None
    | m :: t => if eqm m x then Some t else option_map (cons m) (rm1 t x)
    end.
  Fixpoint allrm (i w : list item) : bool :=
    match i with
    | [] => true
    | x :: t => match rm1 w x with Some w' => allrm t w' | None => false end
    end.
  (* ItemCollection.Equals on two lists: `if len( *w) != len(i) { return false }`, then the matching *)
  Definition list_eqm (i w : list item) : bool := Nat.eqb (length w) (length i) && allrm i w.

  (* the number of members of l that the code would find equal to y: eqm (member, y), the order of the call in the loop *)
  Definition cnt (y : item) (l : list item) : nat := length (filter (fun m => eqm m y) l).

  Lemma cnt_cons y m l : cnt y (m :: l) = (if eqm m y then 1 else 0) + cnt y l.
  Proof. unfold cnt. cbn [filter]. destruct (eqm m y); reflexivity. Qed.
  Lemma cnt_nil y : cnt y [] = 0.
  Proof. reflexivity. Qed.
  Lemma cnt_app y l1 l2 : cnt y (l1 ++ l2) = cnt y l1 + cnt y l2.
  Proof. unfold cnt. rewrite filter_app, app_length. reflexivity. Qed.

  (* ---- facts that need nothing about eqm ---- *)
  Lemma rm1_length w x w' : rm1 w x = Some w' -> length w = S (length w').
  Proof.
    revert w'. induction w as [|m t IH]; intros w' E; [discriminate|]. cbn [rm1] in E.
    destruct (eqm m x); [injection E as <-; reflexivity|].
    destruct (rm1 t x) as [r|]; [|discriminate]. injection E as <-. cbn [length]. rewrite (IH r eq_refl). reflexivity.
  Qed.
  Lemma rm1_incl w x w' : rm1 w x = Some w' -> incl w' w.
  Proof.
    revert w'. induction w as [|m t IH]; intros w' E; [discriminate|]. cbn [rm1] in E.
    destruct (eqm m x); [injection E as <-; apply incl_tl, incl_refl|].
    destruct (rm1 t x) as [r|]; [|discriminate]. injection E as <-.
    apply incl_cons; [left; reflexivity|apply incl_tl, IH; reflexivity].
  Qed.
  Lemma rm1_none w x : rm1 w x = None <-> cnt x w = 0.
  Proof.
    induction w as [|m t IH]; [split; reflexivity|]. rewrite cnt_cons. cbn [rm1].
    destruct (eqm m x); [split; [discriminate|lia]|].
    destruct (rm1 t x) as [r|]; cbn [option_map]; split; intro H.
    - discriminate.
    - exfalso. assert (E : cnt x t = 0) by lia. apply IH in E. discriminate.
    - apply proj1 in IH. rewrite (IH eq_refl). reflexivity.
    - reflexivity.
  Qed.
  (* a matching exhausts the receiver only: the receiver is not longer than the argument *)
  Lemma allrm_length i : forall w, allrm i w = true -> length i <= length w.
  Proof.
    induction i as [|x t IH]; intros w H; cbn [length]; [lia|]. cbn [allrm] in H.
    destruct (rm1 w x) as [w'|] eqn:E; [|discriminate]. apply IH in H. rewrite (rm1_length _ _ _ E). lia.
  Qed.

  (* ---- eqm an equivalence on the members that occur (a set P of items closed under nothing: just a predicate) ---- *)
  Section Equiv.
    Variable P : item -> Prop.
    Hypothesis eqm_refl : forall a, P a -> eqm a a = true.
    Hypothesis eqm_sym : forall a b, P a -> P b -> eqm a b = eqm b a.
    Hypothesis eqm_trans : forall a b c, P a -> P b -> P c -> eqm a b = true -> eqm b c = true -> eqm a c = true.
    Local Notation allP := (Forall P).

    (* members of one class answer alike *)
    Lemma eqm_class m x y : P m -> P x -> P y -> eqm m x = true -> eqm m y = eqm x y.
    Proof.
      intros Pm Px Py H. destruct (eqm x y) eqn:Exy.
      - apply (eqm_trans m x y); assumption.
      - destruct (eqm m y) eqn:Emy; [|reflexivity]. rewrite <- Exy. symmetry.
        apply (eqm_trans x m y); auto. rewrite eqm_sym; assumption.
    Qed.

    (* taking the partner of x out of w takes one member of the class of x out of w *)
    Lemma rm1_cnt w : forall x w' y, allP w -> P x -> P y -> rm1 w x = Some w' ->
      cnt y w = (if eqm x y then 1 else 0) + cnt y w'.
    Proof.
      induction w as [|m t IH]; intros x w' y Pw Px Py E; [discriminate|].
      inversion Pw as [|m' t' Pm Pt]; subst. cbn [rm1] in E. rewrite cnt_cons. destruct (eqm m x) eqn:Emx.
      - injection E as <-. rewrite (eqm_class m x y); auto.
      - destruct (rm1 t x) as [r|] eqn:Er; [|discriminate]. injection E as <-. rewrite cnt_cons.
        rewrite (IH x r y Pt Px Py Er). lia.
    Qed.
    Lemma rm1_allP w x w' : allP w -> rm1 w x = Some w' -> allP w'.
    Proof.
      intros Pw E. apply Forall_forall. intros z Hz. apply (proj1 (Forall_forall P w) Pw). eapply rm1_incl; eauto.
    Qed.

    (* (a) the matching alone = sub-multiset: every class has at most as many members in i as in w *)
    Theorem allrm_submultiset i : forall w, allP i -> allP w ->
      (allrm i w = true <-> forall y, P y -> cnt y i <= cnt y w).
    Proof.
      induction i as [|x t IH]; intros w Pi Pw.
      - split; [intros _ y _; rewrite cnt_nil; lia|reflexivity].
      - inversion Pi as [|x' t' Px Pt]; subst. cbn [allrm]. destruct (rm1 w x) as [w'|] eqn:E.
        + pose proof (rm1_allP w x w' Pw E) as Pw'. rewrite (IH w' Pt Pw'). split; intros H y Py.
          * rewrite cnt_cons, (rm1_cnt w x w' y Pw Px Py E). specialize (H y Py). lia.
          * specialize (H y Py). rewrite cnt_cons, (rm1_cnt w x w' y Pw Px Py E) in H. lia.
        + split; [discriminate|]. intro H. exfalso. specialize (H x Px). rewrite cnt_cons, (eqm_refl x Px) in H.
          apply rm1_none in E. lia.
    Qed.

    (* (b) with equal lengths the counts are equal *)
    Lemma allrm_counts i : forall w, allP i -> allP w -> length w = length i -> allrm i w = true ->
      forall y, P y -> cnt y i = cnt y w.
    Proof.
      induction i as [|x t IH]; intros w Pi Pw L H y Py.
      - destruct w; [reflexivity|discriminate].
      - inversion Pi as [|x' t' Px Pt]; subst. cbn [allrm] in H. destruct (rm1 w x) as [w'|] eqn:E; [|discriminate].
        pose proof (rm1_allP w x w' Pw E) as Pw'. pose proof (rm1_length w x w' E) as L'. cbn [length] in L.
        rewrite cnt_cons, (rm1_cnt w x w' y Pw Px Py E).
        rewrite (IH w' Pt Pw' ltac:(lia) H y Py). reflexivity.
    Qed.

    (* the list comparison = equality as multisets up to eqm: every member that occurs has as many equals in one list
       as in the other.  (Equal counts give equal lengths: both lists match into each other.) *)
    Theorem list_eqm_multiset l1 l2 : allP l1 -> allP l2 ->
      (list_eqm l1 l2 = true <-> forall y, P y -> cnt y l1 = cnt y l2).
    Proof.
      intros P1 P2. unfold list_eqm. rewrite andb_true_iff, Nat.eqb_eq. split.
      - intros [L H]. apply allrm_counts; assumption.
      - intro H.
        assert (H12 : allrm l1 l2 = true) by (apply allrm_submultiset; auto; intros y Py; rewrite (H y Py); lia).
        assert (H21 : allrm l2 l1 = true) by (apply allrm_submultiset; auto; intros y Py; rewrite (H y Py); lia).
        split; [|exact H12]. apply allrm_length in H12. apply allrm_length in H21. lia.
    Qed.

    Theorem list_eqm_sym l1 l2 : allP l1 -> allP l2 -> list_eqm l1 l2 = list_eqm l2 l1.
    Proof.
      intros P1 P2. apply eq_true_iff_eq. rewrite (list_eqm_multiset l1 l2 P1 P2), (list_eqm_multiset l2 l1 P2 P1).
      split; intros H y Py; symmetry; apply H; exact Py.
    Qed.
    (* the matching itself (without the length test) is symmetric between lists of one length *)
    Corollary allrm_sym l1 l2 : allP l1 -> allP l2 -> length l1 = length l2 -> allrm l1 l2 = allrm l2 l1.
    Proof.
      intros P1 P2 L. pose proof (list_eqm_sym l1 l2 P1 P2) as H. unfold list_eqm in H.
      rewrite L, Nat.eqb_refl in H. exact H.
    Qed.
    Theorem list_eqm_trans l1 l2 l3 : allP l1 -> allP l2 -> allP l3 ->
      list_eqm l1 l2 = true -> list_eqm l2 l3 = true -> list_eqm l1 l3 = true.
    Proof.
      intros P1 P2 P3. rewrite (list_eqm_multiset l1 l2 P1 P2), (list_eqm_multiset l2 l3 P2 P3), (list_eqm_multiset l1 l3 P1 P3).
      intros H12 H23 y Py. rewrite (H12 y Py). apply H23. exact Py.
    Qed.
    (* the order of the members does not matter: a list equals each of its rearrangements *)
    Lemma cnt_perm y l l' : Permutation.Permutation l l' -> cnt y l = cnt y l'.
    Proof. induction 1; rewrite ?cnt_cons; try lia. Qed.
    Theorem list_eqm_perm l l' : allP l -> Permutation.Permutation l l' -> list_eqm l l' = true.
    Proof.
      intros Pl Hp. apply list_eqm_multiset; [exact Pl| |intros y _; apply cnt_perm; exact Hp].
      apply Forall_forall. intros z Hz. apply (proj1 (Forall_forall P l) Pl).
      apply (Permutation.Permutation_in z (Permutation.Permutation_sym Hp) Hz).
    Qed.
  End Equiv.

  (* the hypotheses as a decidable condition on the members that occur *)
  Definition equiv_on (l : list item) : bool :=
    forallb (fun a => eqm a a) l &&
    forallb (fun a => forallb (fun b => Bool.eqb (eqm a b) (eqm b a)) l) l &&
    forallb (fun a => forallb (fun b => if eqm a b then forallb (fun c => implb (eqm b c) (eqm a c)) l else true) l) l.

  Lemma equiv_on_spec l : equiv_on l = true ->
    (forall a, In a l -> eqm a a = true) /\
    (forall a b, In a l -> In b l -> eqm a b = eqm b a) /\
    (forall a b c, In a l -> In b l -> In c l -> eqm a b = true -> eqm b c = true -> eqm a c = true).
  Proof.
    unfold equiv_on. rewrite !andb_true_iff, !forallb_forall. intros [[Hr Hs] Ht]. split; [exact Hr|split].
    - intros a b Ha Hb. specialize (Hs a Ha). rewrite forallb_forall in Hs. apply eqb_prop. apply Hs. exact Hb.
    - intros a b c Ha Hb Hc Eab Ebc. specialize (Ht a Ha). rewrite forallb_forall in Ht. specialize (Ht b Hb).
      rewrite Eab, forallb_forall in Ht. specialize (Ht c Hc). rewrite Ebc in Ht. exact Ht.
  Qed.

  Lemma equiv_on_complete l :
    (forall a, In a l -> eqm a a = true) ->
    (forall a b, In a l -> In b l -> eqm a b = eqm b a) ->
    (forall a b c, In a l -> In b l -> In c l -> eqm a b = true -> eqm b c = true -> eqm a c = true) ->
    equiv_on l = true.
  Proof.
    intros Hr Hs Ht. unfold equiv_on. rewrite !andb_true_iff, !forallb_forall. split; [split|].
    - exact Hr.
    - intros a Ha. apply forallb_forall. intros b Hb. rewrite (Hs a b Ha Hb). apply eqb_reflx.
    - intros a Ha. apply forallb_forall. intros b Hb. destruct (eqm a b) eqn:Eab; [|reflexivity].
      apply forallb_forall. intros c Hc. destruct (eqm b c) eqn:Ebc; [|reflexivity].
      rewrite (Ht a b c Ha Hb Hc Eab Ebc). reflexivity.
  Qed.

  (* the statements with "the members that occur" = the members of the two lists *)
  Theorem list_eqm_multiset_on l1 l2 : equiv_on (l1 ++ l2) = true ->
    (list_eqm l1 l2 = true <-> forall y, In y (l1 ++ l2) -> cnt y l1 = cnt y l2).
  Proof.
    intro H. destruct (equiv_on_spec _ H) as [Hr [Hs Ht]].
    apply (list_eqm_multiset (fun z => In z (l1 ++ l2)) Hr Hs Ht); apply Forall_forall; intros z Hz; apply in_or_app; auto.
  Qed.
  Theorem list_eqm_sym_on l1 l2 : equiv_on (l1 ++ l2) = true -> list_eqm l1 l2 = list_eqm l2 l1.
  Proof.
    intro H. destruct (equiv_on_spec _ H) as [Hr [Hs Ht]].
    apply (list_eqm_sym (fun z => In z (l1 ++ l2)) Hr Hs Ht); apply Forall_forall; intros z Hz; apply in_or_app; auto.
  Qed.
  Theorem list_eqm_trans_on l1 l2 l3 : equiv_on (l1 ++ l2 ++ l3) = true ->
    list_eqm l1 l2 = true -> list_eqm l2 l3 = true -> list_eqm l1 l3 = true.
  Proof.
    intro H. destruct (equiv_on_spec _ H) as [Hr [Hs Ht]].
    apply (list_eqm_trans (fun z => In z (l1 ++ l2 ++ l3)) Hr Hs Ht); apply Forall_forall; intros z Hz;
      rewrite !in_app_iff; auto.
  Qed.

  (* ---- the model's definitions ARE the pure ones wherever the member comparison answers Ok ---- *)
  Section Rec.
    Variable rec : item -> item -> outcome bool.

    Lemma remove_first_pure w x : (forall m, In m w -> rec m x = Ok (eqm m x)) -> remove_first rec w x = Ok (rm1 w x).
    Proof.
      induction w as [|m t IH]; intro H; [reflexivity|]. cbn [remove_first rm1]. rewrite (H m (or_introl eq_refl)). cbn [obind].
      destruct (eqm m x); [reflexivity|]. rewrite IH; [reflexivity|]. intros z Hz. apply H. right; exact Hz.
    Qed.
    Lemma all_removed_pure i : forall w, (forall m x, In m w -> In x i -> rec m x = Ok (eqm m x)) ->
      all_removed rec i w = Ok (allrm i w).
    Proof.
      induction i as [|x t IH]; intros w H; [reflexivity|]. cbn [all_removed allrm].
      rewrite remove_first_pure; [|intros m Hm; apply H; [exact Hm|left; reflexivity]]. cbn [obind].
      destruct (rm1 w x) as [w'|] eqn:E; [|reflexivity]. apply IH. intros m z Hm Hz. apply H; [|right; exact Hz].
      eapply rm1_incl; eauto.
    Qed.
    (* ItemCollection.Equals of the repaired code on a receiver l and an argument that is a list (not the nil list) *)
    Lemma itemcoll_equals_pure l q l' : (forall m x, In m l' -> In x l -> rec m x = Ok (eqm m x)) ->
      itemcoll_equals cfg_fixed rec l (IItems q (Some l')) = Ok (list_eqm l l').
    Proof.
      intro H. rewrite itemcoll_lists, EqGP.all_matched_fresh. unfold list_eqm.
      destruct (Nat.eqb (length l') (length l)); [|reflexivity]. cbn [andb]. apply all_removed_pure. exact H.
    Qed.
  End Rec.
End Pure.

(* ItemCollection.Equals for a member comparison [rec] that answers Ok on the members of the two lists (no panic, fuel
   enough) and whose answers are an equivalence on them: symmetric, and true exactly for equal multisets *)
Section Coll.
  Variable rec : item -> item -> outcome bool.
  Variable eqm : item -> item -> bool.

  Theorem itemcoll_equals_sym l1 l2 p q :
    (forall a b, In a (l1 ++ l2) -> In b (l1 ++ l2) -> rec a b = Ok (eqm a b)) ->
    equiv_on eqm (l1 ++ l2) = true ->
    itemcoll_equals cfg_fixed rec l1 (IItems q (Some l2)) = itemcoll_equals cfg_fixed rec l2 (IItems p (Some l1)).
  Proof.
    intros Hok He. rewrite !(itemcoll_equals_pure eqm rec).
    - rewrite (list_eqm_sym_on eqm l1 l2 He). reflexivity.
    - intros m x Hm Hx. apply Hok; apply in_or_app; auto.
    - intros m x Hm Hx. apply Hok; apply in_or_app; auto.
  Qed.
  Theorem itemcoll_equals_multiset l1 l2 q :
    (forall a b, In a (l1 ++ l2) -> In b (l1 ++ l2) -> rec a b = Ok (eqm a b)) ->
    equiv_on eqm (l1 ++ l2) = true ->
    exists b, itemcoll_equals cfg_fixed rec l1 (IItems q (Some l2)) = Ok b /\
              (b = true <-> forall y, In y (l1 ++ l2) -> cnt eqm y l1 = cnt eqm y l2).
  Proof.
    intros Hok He. exists (list_eqm eqm l1 l2). split; [|apply list_eqm_multiset_on; exact He].
    apply itemcoll_equals_pure. intros m x Hm Hx. apply Hok; apply in_or_app; auto.
  Qed.
End Coll.

(* ================================================================================== Part 2: ItemsEqual on lists *)
Module ElSG.
Section IdRel.
  Variable ideq : bytes -> bytes -> bool -> bool.
  Local Notation ieq := (EqGI.ieq ideq).

  (* ItemsEqual as a boolean: it answers for every pair of items (EqGP.ieq_total: no panic, no error, fuel_for enough) *)
  Definition ieqb (x y : item) : bool := match ieq x y with Ok b => b | _ => false end.
  Lemma ieq_ieqb x y : ieq x y = Ok (ieqb x y).
  Proof. unfold ieqb. destruct (EqGP.ieq_total ideq x y) as [b ->]. reflexivity. Qed.

  (* the condition [equiv_on ieqb l] said with ItemsEqual itself (reflexivity holds for all items: EqGP.ieq_refl) *)
  Hypothesis ideq_refl : forall s cs, ideq s s cs = true.
  Lemma equiv_on_ieq l :
    equiv_on ieqb l = true <->
    (forall a b, In a l -> In b l -> ieq a b = ieq b a) /\
    (forall a b c, In a l -> In b l -> In c l -> ieq a b = Ok true -> ieq b c = Ok true -> ieq a c = Ok true).
  Proof.
    split.
    - intro H. destruct (equiv_on_spec _ _ H) as [_ [Hs Ht]]. split.
      + intros a b Ha Hb. rewrite !ieq_ieqb, (Hs a b Ha Hb). reflexivity.
      + intros a b c Ha Hb Hc. rewrite !ieq_ieqb. intros E1 E2. f_equal.
        apply (Ht a b c Ha Hb Hc); [injection E1|injection E2]; auto.
    - intros [Hs Ht]. apply equiv_on_complete.
      + intros a _. pose proof (EqGP.ieq_refl ideq ideq_refl a) as R. rewrite ieq_ieqb in R. injection R; auto.
      + intros a b Ha Hb. pose proof (Hs a b Ha Hb) as E. rewrite !ieq_ieqb in E. injection E; auto.
      + intros a b c Ha Hb Hc E1 E2. pose proof (Ht a b c Ha Hb Hc) as T. rewrite !ieq_ieqb in T.
        rewrite E1, E2 in T. specialize (T eq_refl eq_refl). injection T; auto.
  Qed.

  (* ItemsEqual on two lists (value or pointer form, not the nil list) is the pure list comparison over ieqb *)
  Lemma ieq_lists_pure p l q l' : ieq (IItems p (Some l)) (IItems q (Some l')) = Ok (list_eqm ieqb l l').
  Proof.
    rewrite (ElGP.ieq_lists ideq). unfold list_eqm. destruct (Nat.eqb (length l') (length l)); [|reflexivity].
    cbn [andb]. apply all_removed_pure. intros m x _ _. apply ieq_ieqb.
  Qed.

  (* lists of one member: ItemsEqual([x], [y]) is ItemsEqual(y, x) - the member of the ARGUMENT goes first.  So the
     list comparison is symmetric on all lists only if ItemsEqual is symmetric on their members: the hypothesis of
     ieq_list_sym cannot be dropped *)
  Lemma ieq_singleton p q x y : ieq (IItems p (Some [x])) (IItems q (Some [y])) = ieq y x.
  Proof.
    rewrite ieq_lists_pure, ieq_ieqb. unfold list_eqm. cbn [length Nat.eqb andb allrm rm1].
    destruct (ieqb y x); reflexivity.
  Qed.

  (* where ItemsEqual is an equivalence on the members of the two lists, the list comparison is symmetric ... *)
  Theorem ieq_list_sym p q l1 l2 : equiv_on ieqb (l1 ++ l2) = true ->
    ieq (IItems p (Some l1)) (IItems q (Some l2)) = ieq (IItems q (Some l2)) (IItems p (Some l1)).
  Proof. intro He. rewrite !ieq_lists_pure, (list_eqm_sym_on ieqb l1 l2 He). reflexivity. Qed.

  (* ... and is equality of the lists as multisets: every member has as many equals in one list as in the other *)
  Theorem ieq_list_multiset p q l1 l2 : equiv_on ieqb (l1 ++ l2) = true ->
    (ieq (IItems p (Some l1)) (IItems q (Some l2)) = Ok true <->
     forall y, In y (l1 ++ l2) -> cnt ieqb y l1 = cnt ieqb y l2) /\
    (ieq (IItems p (Some l1)) (IItems q (Some l2)) = Ok false <->
     exists y, In y (l1 ++ l2) /\ cnt ieqb y l1 <> cnt ieqb y l2).
  Proof.
    intro He. rewrite ieq_lists_pure. pose proof (list_eqm_multiset_on ieqb l1 l2 He) as M. split.
    - rewrite <- M. split; [intro H; injection H; auto|intros ->; reflexivity].
    - split.
      + intro H. assert (E : list_eqm ieqb l1 l2 = false) by (injection H; auto).
        (* a class with different counts exists: decidable search over the members *)
        destruct (forallb (fun y => Nat.eqb (cnt ieqb y l1) (cnt ieqb y l2)) (l1 ++ l2)) eqn:F.
        * exfalso. rewrite forallb_forall in F. assert (T : list_eqm ieqb l1 l2 = true).
          { apply M. intros y Hy. apply Nat.eqb_eq. apply F. exact Hy. }
          congruence.
        * apply (f_equal negb) in F. cbn [negb] in F.
          assert (X : existsb (fun y => negb (Nat.eqb (cnt ieqb y l1) (cnt ieqb y l2))) (l1 ++ l2) = true).
          { clear -F. induction (l1 ++ l2) as [|z t IH]; [discriminate|]. cbn [forallb existsb] in *.
            rewrite negb_andb in F. apply orb_true_iff in F. apply orb_true_iff. destruct F; auto. }
          apply existsb_exists in X. destruct X as [y [Hy Hn]]. exists y. split; [exact Hy|].
          apply negb_true_iff, Nat.eqb_neq in Hn. exact Hn.
      + intros [y [Hy Hn]]. destruct (list_eqm ieqb l1 l2) eqn:E; [|reflexivity]. exfalso. apply Hn.
        apply (proj1 M eq_refl). exact Hy.
  Qed.

  Theorem ieq_list_trans p q r l1 l2 l3 : equiv_on ieqb (l1 ++ l2 ++ l3) = true ->
    ieq (IItems p (Some l1)) (IItems q (Some l2)) = Ok true -> ieq (IItems q (Some l2)) (IItems r (Some l3)) = Ok true ->
    ieq (IItems p (Some l1)) (IItems r (Some l3)) = Ok true.
  Proof.
    intro He. rewrite !ieq_lists_pure. intros H1 H2. f_equal.
    apply (list_eqm_trans_on ieqb l1 l2 l3 He); [injection H1|injection H2]; auto.
  Qed.

  (* a list equals each of its rearrangements (the clause "order is not significant" of ItemCollection.Equals) *)
  Theorem ieq_list_perm p q l l' : equiv_on ieqb l = true -> Permutation.Permutation l l' ->
    ieq (IItems p (Some l)) (IItems q (Some l')) = Ok true /\ ieq (IItems q (Some l')) (IItems p (Some l)) = Ok true.
  Proof.
    intros He Hp. destruct (equiv_on_spec _ _ He) as [Hr [Hs Ht]].
    assert (Pl : Forall (fun z => In z l) l) by (apply Forall_forall; auto).
    assert (Pl' : Forall (fun z => In z l) l').
    { apply Forall_forall. intros z Hz. apply (Permutation.Permutation_in z (Permutation.Permutation_sym Hp) Hz). }
    pose proof (list_eqm_perm ieqb (fun z => In z l) Hr Hs Ht l l' Pl Hp) as H.
    rewrite !ieq_lists_pure. split; f_equal; [exact H|].
    rewrite (list_eqm_sym ieqb (fun z => In z l) Hr Hs Ht l' l Pl' Pl). exact H.
  Qed.

  (* ItemCollection.Equals itself, on the repaired configuration, with ItemsEqual as the member comparison *)
  Theorem itemcoll_ieq_sym p q l1 l2 : equiv_on ieqb (l1 ++ l2) = true ->
    itemcoll_equals cfg_fixed ieq l1 (IItems q (Some l2)) = itemcoll_equals cfg_fixed ieq l2 (IItems p (Some l1)).
  Proof. intro He. apply (itemcoll_equals_sym ieq ieqb); [intros a b _ _; apply ieq_ieqb|exact He]. Qed.
  Theorem itemcoll_ieq_multiset q l1 l2 : equiv_on ieqb (l1 ++ l2) = true ->
    exists b, itemcoll_equals cfg_fixed ieq l1 (IItems q (Some l2)) = Ok b /\
              (b = true <-> forall y, In y (l1 ++ l2) -> cnt ieqb y l1 = cnt ieqb y l2).
  Proof. intro He. apply (itemcoll_equals_multiset ieq ieqb); [intros a b _ _; apply ieq_ieqb|exact He]. Qed.
End IdRel.
End ElSG.

(* ---- the instance with [iri_eqb] ---- *)
Definition ieqb := ElSG.ieqb iri_eqb.
Definition ieq_ieqb : forall x y, ieq x y = Ok (ieqb x y) := ElSG.ieq_ieqb iri_eqb.
Definition equiv_on_ieq := ElSG.equiv_on_ieq iri_eqb iri_eqb_refl.
Definition ieq_lists_pure := ElSG.ieq_lists_pure iri_eqb.
Definition ieq_singleton := ElSG.ieq_singleton iri_eqb.
Definition ieq_list_sym := ElSG.ieq_list_sym iri_eqb.
Definition ieq_list_multiset := ElSG.ieq_list_multiset iri_eqb.
Definition ieq_list_trans := ElSG.ieq_list_trans iri_eqb.
Definition ieq_list_perm := ElSG.ieq_list_perm iri_eqb.
Definition itemcoll_ieq_sym := ElSG.itemcoll_ieq_sym iri_eqb.
Definition itemcoll_ieq_multiset := ElSG.itemcoll_ieq_multiset iri_eqb.
