(* C09, the identity clause on the domain of C14: two objects whose ids differ in host, cleaned path or the
   multiset of query parameters are never equal.  Model: Model/Equal.v, Model/IriEq.v, Model/IriNf.v. *)
From AP.Model Require Import Prelude Vocab Pred Url IriEq IriNf Nlv Equal.
From AP.Proofs Require Import NlvP IriEqP IriNfP EqualP.

Lemma ieq_ids_differ_hpq p k fs q k' gs :
  k <> KLink -> k' <> KLink ->
  iri_dom (get_str F_ID fs) = true -> iri_dom (get_str F_ID gs) = true ->
  ids_differ_hpq (get_str F_ID fs) (get_str F_ID gs) = true ->
  ieq (IObj p k fs) (IObj q k' gs) = Ok false /\ ieq (IObj q k' gs) (IObj p k fs) = Ok false.
Proof.
  intros Hk Hk' Da Db Hd. apply ieq_ids_differ; auto. apply iri_eqb_differ; assumption.
Qed.

(* the same for the upper-case class of queries *)
Lemma ieq_ids_differ_hpq_upper p k fs q k' gs :
  k <> KLink -> k' <> KLink ->
  iri_dom_upper (get_str F_ID fs) = true -> iri_dom_upper (get_str F_ID gs) = true ->
  ids_differ_hpq (get_str F_ID fs) (get_str F_ID gs) = true ->
  ieq (IObj p k fs) (IObj q k' gs) = Ok false /\ ieq (IObj q k' gs) (IObj p k fs) = Ok false.
Proof.
  intros Hk Hk' Da Db Hd. apply ieq_ids_differ; auto.
  apply (iri_eqb_differ_with no_lower LowerP.no_lower_inj); assumption.
Qed.

(* host or cleaned path differ, letter case apart: never equal, whatever the letter case of the queries *)
Lemma ieq_ids_differ_host_path p k fs q k' gs u w :
  k <> KLink -> k' <> KLink ->
  url_classify (get_str F_ID fs) = UValid u -> url_classify (get_str F_ID gs) = UValid w ->
  lower (u_host u) <> lower (u_host w) \/
  lower (clean_url_path path_clean (u_path u)) <> lower (clean_url_path path_clean (u_path w)) ->
  ieq (IObj p k fs) (IObj q k' gs) = Ok false /\ ieq (IObj q k' gs) (IObj p k fs) = Ok false.
Proof.
  intros Hk Hk' Ha Hb Hd. apply ieq_ids_differ; auto. eapply iri_eqb_differ_host_path; eauto.
Qed.

(* queries that differ as multisets and also as strings up to letter case: never equal *)
Lemma ieq_ids_differ_query p k fs q k' gs u w :
  k <> KLink -> k' <> KLink ->
  url_classify (get_str F_ID fs) = UValid u -> url_classify (get_str F_ID gs) = UValid w ->
  lower (u_query u) <> lower (u_query w) ->
  ~ Permutation.Permutation (query_pairs (u_query u)) (query_pairs (u_query w)) ->
  ieq (IObj p k fs) (IObj q k' gs) = Ok false /\ ieq (IObj q k' gs) (IObj p k fs) = Ok false.
Proof.
  intros Hk Hk' Ha Hb Hq Hp. apply ieq_ids_differ; auto.
  destruct (iri_eqb _ _ true) eqn:E; [|reflexivity].
  destruct (iri_eqb_true_parts _ _ true u w Ha Hb E) as [_ [_ [_ [H|H]]]]; contradiction.
Qed.
