(* Lemmas about Model/Equal.v: fuel sufficiency (termination), totality (no panic, no error),
   the fixpoint equation of [ieq], nil-correctness, reflexivity, identity sensitivity. *)
From AP.Model Require Import Prelude Vocab Pred IriEq Nlv Equal.
From AP.Gen Require Import TypeLists.
From AP.Proofs Require Import NlvP IriEqP.

(* ---------------------------------------------------------------- sizes *)
Definition fsize (fs : fields) : nat :=
  (fix go (fs : list (fid * fval)) : nat := match fs with [] => 0 | (_, v) :: r => efsize v + go r end) fs.
Definition lsize (l : list item) : nat :=
  (fix go (l : list item) : nat := match l with [] => 0 | x :: r => esize x + go r end) l.

Lemma esize_obj p k fs : esize (IObj p k fs) = S (fsize fs).
Proof. reflexivity. Qed.
Lemma esize_items p l : esize (IItems p (Some l)) = S (lsize l).
Proof. reflexivity. Qed.
Lemma efsize_items l : efsize (FItems (Some l)) = S (lsize l).
Proof. reflexivity. Qed.
Lemma fsize_cons f v r : fsize ((f, v) :: r) = efsize v + fsize r.
Proof. reflexivity. Qed.
Lemma lsize_cons x r : lsize (x :: r) = esize x + lsize r.
Proof. reflexivity. Qed.
Lemma esize_pos i : 1 <= esize i.
Proof. destruct i as [| | | | ? [l|] | ? [l|]]; simpl; lia. Qed.

Lemma getf_size f fs v : getf f fs = Some v -> efsize v <= fsize fs.
Proof.
  induction fs as [|[g w] r IH]; simpl; [discriminate|].
  destruct (fid_beq f g); intro H.
  - inversion H; subst. fold (fsize r). lia.
  - fold (fsize r). specialize (IH H). lia.
Qed.

Lemma get_item_size f fs : get_item f fs <> INil -> esize (get_item f fs) <= fsize fs.
Proof.
  unfold get_item. destruct (getf f fs) as [v|] eqn:E; [|congruence].
  destruct v; try congruence. intros _. apply getf_size in E. exact E.
Qed.
Lemma get_item_size_le f fs : esize (get_item f fs) <= S (fsize fs).
Proof.
  destruct (get_item f fs) eqn:E; try (simpl; lia);
    rewrite <- E; (assert (H : get_item f fs <> INil) by congruence); apply get_item_size in H; lia.
Qed.
Lemma get_items_size f fs l : get_items f fs = Some l -> S (lsize l) <= fsize fs.
Proof.
  unfold get_items. destruct (getf f fs) as [v|] eqn:E; [|discriminate].
  destruct v; try discriminate. intros ->. apply getf_size in E. exact E.
Qed.
Lemma get_items_size_le f fs : esize (IItems false (get_items f fs)) <= S (fsize fs).
Proof.
  destruct (get_items f fs) as [l|] eqn:E; [|simpl; lia].
  rewrite esize_items. apply get_items_size in E. lia.
Qed.
Lemma view_items_size fs l : view_items fs = Some l -> S (lsize l) <= fsize fs.
Proof.
  unfold view_items. destruct (get_items F_Items fs) as [l0|] eqn:E.
  - intros H; inversion H; subst. eapply get_items_size; eauto.
  - apply get_items_size.
Qed.
Lemma view_items_size_le fs : esize (IItems false (view_items fs)) <= S (fsize fs).
Proof.
  destruct (view_items fs) as [l|] eqn:E; [|simpl; lia].
  rewrite esize_items. apply view_items_size in E. lia.
Qed.
Lemma in_lsize m l : In m l -> esize m <= lsize l.
Proof.
  induction l as [|x r IH]; [intros []|]. rewrite lsize_cons. intros [->|H]; [lia|]. specialize (IH H). lia.
Qed.

Lemma to_item_collection_size w wl m :
  to_item_collection w = Some wl -> In m wl -> esize m < esize w.
Proof.
  destruct w as [| | | p k fs | p [l|] | p [l|]]; simpl; try discriminate.
  - destruct p; [|discriminate].
    destruct k; try discriminate; intros H; inversion H; subst; clear H;
      (destruct (view_items fs) as [l|] eqn:E; [|intros []]);
      intro Hin; apply in_lsize in Hin; apply view_items_size in E; fold (fsize fs); lia.
  - intros H; inversion H; subst. intro Hin. apply in_lsize in Hin. fold (lsize wl). lia.
  - intros H; inversion H; subst. intros [].
  - intros H; inversion H; subst. intro Hin. apply in_map_iff in Hin. destruct Hin as [s [<- Hs]].
    simpl. destruct l; [destruct Hs|simpl; lia].
  - intros H; inversion H; subst. intros [].
Qed.

(* ---------------------------------------------------------------- outcome helpers *)
Definition total (o : outcome bool) : Prop := exists v, o = Ok v.

Lemma obind_ext {A B} (o1 o2 : outcome A) (k1 k2 : A -> outcome B) :
  o1 = o2 -> (forall v, k1 v = k2 v) -> obind o1 k1 = obind o2 k2.
Proof. intros -> H. destruct o2; simpl; auto. Qed.

Lemma obind_total {A} (o : outcome A) (k : A -> outcome bool) :
  (exists v, o = Ok v) -> (forall v, total (k v)) -> total (obind o k).
Proof. intros [v ->] H. simpl. apply H. Qed.

Lemma total_ok b : total (Ok b).
Proof. exists b; reflexivity. Qed.
#[export] Hint Resolve total_ok : core.

(* the swap that ItemsEqual really performs: only after the nil test *)
Definition swaps (x y : item) : bool := negb (is_nil x || is_nil y) && needs_swap x y.

(* ---------------------------------------------------------------- extensionality in [rec], bounded *)
Definition agree (bound : nat) (r1 r2 : item -> item -> outcome bool) : Prop :=
  forall a b, esize a + esize b < bound -> r1 a b = r2 a b.

Lemma agree_le n m r1 r2 : m <= n -> agree n r1 r2 -> agree m r1 r2.
Proof. intros H A a b L. apply A. lia. Qed.

Ltac fixed_cfg :=
  unfold cfg_fixed;
  cbn [c_member_items c_link_branch c_iris_lists c_url_isnil c_conv_err c_with_driven c_nil_guards c_url_items
       c_match_once].

(* ================================================================================================================
   From here to the end of module EqGP every lemma is GENERIC in the IRI comparison [ideq a b cs] = a.Equals(b, cs)
   (builder b47): the definitions are those of module EqG of Model/Equal.v, the only facts used about the comparison
   are reflexivity and symmetry on all strings.  Inside the section the short names stand for the generic definitions
   applied to [ideq]; after the module the same lemma names are re-established for [iri_eqb] (the instance every
   earlier statement was about) by instantiation - nothing is proved twice.  Proofs/EqualUP.v instantiates with
   [iri_equ] (IRI.Equals over net/url on all byte strings). *)
Module EqGP.
Section IdRel.
  Variable ideq : bytes -> bytes -> bool -> bool.
  Hypothesis ideq_refl : forall s cs, ideq s s cs = true.
  Hypothesis ideq_sym : forall a b cs, ideq a b cs = ideq b a cs.
  Local Notation cmp_one := (EqG.cmp_one ideq).
  Local Notation all_cmp := (EqG.all_cmp ideq).
  Local Notation object_equals := (EqG.object_equals ideq).
  Local Notation intransitive_equals := (EqG.intransitive_equals ideq).
  Local Notation activity_equals := (EqG.activity_equals ideq).
  Local Notation actor_equals := (EqG.actor_equals ideq).
  Local Notation collection_equals := (EqG.collection_equals ideq).
  Local Notation page_equals := (EqG.page_equals ideq).
  Local Notation ordered_equals := (EqG.ordered_equals ideq).
  Local Notation opage_equals := (EqG.opage_equals ideq).
  Local Notation link_equals := (EqG.link_equals ideq).
  Local Notation equals_method := (EqG.equals_method ideq).
  Local Notation object_branch := (EqG.object_branch ideq).
  Local Notation items_equal_body := (EqG.items_equal_body ideq).
  Local Notation items_equal_c := (EqG.items_equal_c ideq).
  Local Notation items_equal := (EqG.items_equal ideq).
  Local Notation items_equal_pinned := (EqG.items_equal_pinned ideq).
  Local Notation ieq := (EqGI.ieq ideq).
  Local Notation ieq_pinned := (EqGI.ieq_pinned ideq).

Section Ext.
  Variable cfg : eqcfg.
  Variables r1 r2 : item -> item -> outcome bool.

  Lemma contains_ext l r :
    (forall m, In m l -> r1 m r = r2 m r) -> contains_m r1 l r = contains_m r2 l r.
  Proof.
    induction l as [|m t IH]; simpl; intros H; [reflexivity|].
    apply obind_ext; [apply H; auto|]. intros [|]; [reflexivity|]. apply IH. intros; apply H; auto.
  Qed.

  Lemma all_contained_ext i w bi bw :
    c_member_items cfg = true ->
    (forall x, In x i -> esize x < bi) -> (forall m, In m w -> esize m < bw) ->
    agree (bi + bw - 1) r1 r2 ->
    all_contained cfg r1 i w = all_contained cfg r2 i w.
  Proof.
    intros Hc Hi Hw A. induction i as [|x t IH]; simpl; [reflexivity|]. rewrite Hc.
    apply obind_ext.
    - apply contains_ext. intros m Hm. apply A. specialize (Hi x (or_introl eq_refl)). specialize (Hw m Hm). lia.
    - intros [|]; [|reflexivity]. apply IH. intros; apply Hi; right; auto.
  Qed.

  Lemma find_unused_ext w x : forall used,
    (forall m, In m w -> r1 m x = r2 m x) -> find_unused r1 w used x = find_unused r2 w used x.
  Proof.
    induction w as [|m t IH]; intros used H; [reflexivity|].
    destruct used as [|[|] ut]; cbn [find_unused]; [reflexivity| |].
    - rewrite (IH ut); [reflexivity|]. intros; apply H; right; auto.
    - apply obind_ext; [apply H; left; reflexivity|]. intros [|]; [reflexivity|].
      rewrite (IH ut); [reflexivity|]. intros; apply H; right; auto.
  Qed.

  Lemma all_matched_ext i w bi bw : forall used,
    (forall x, In x i -> esize x < bi) -> (forall m, In m w -> esize m < bw) ->
    agree (bi + bw - 1) r1 r2 ->
    all_matched r1 i w used = all_matched r2 i w used.
  Proof.
    intros used Hi Hw A. revert used. induction i as [|x t IH]; intro used; cbn [all_matched]; [reflexivity|].
    apply obind_ext.
    - apply find_unused_ext. intros m Hm. apply A. specialize (Hi x (or_introl eq_refl)). specialize (Hw m Hm). lia.
    - intros [u'|]; [|reflexivity]. apply IH. intros; apply Hi; right; auto.
  Qed.

  Lemma itemcoll_ext i w bi :
    c_member_items cfg = true ->
    (forall x, In x i -> esize x < bi) -> agree (bi + esize w - 1) r1 r2 ->
    itemcoll_equals cfg r1 i w = itemcoll_equals cfg r2 i w.
  Proof.
    intros Hc Hi A. unfold itemcoll_equals.
    destruct (is_nil w); [reflexivity|]. destruct (negb (is_collection_m w)); [reflexivity|].
    destruct (negb _); [reflexivity|].
    destruct (to_item_collection w) as [wl|] eqn:E; [|reflexivity].
    destruct (negb _); [reflexivity|].
    destruct (c_match_once cfg).
    - eapply all_matched_ext; eauto. intros m Hm. eapply to_item_collection_size; eauto.
    - eapply all_contained_ext; eauto. intros m Hm. eapply to_item_collection_size; eauto.
  Qed.

  Lemma cmp_one_ext c ofs wfs :
    c_member_items cfg = true ->
    agree (S (fsize ofs) + S (fsize wfs)) r1 r2 ->
    cmp_one cfg r1 c ofs wfs = cmp_one cfg r2 c ofs wfs.
  Proof.
    intros Hc A. destruct c; simpl; try reflexivity.
    - destruct (get_item f wfs) eqn:E; try reflexivity; rewrite <- E; apply A;
        (assert (H : get_item f wfs <> INil) by congruence); apply get_item_size in H;
        pose proof (get_item_size_le f ofs); lia.
    - destruct (get_items f wfs) as [l|] eqn:E; [|reflexivity]. apply A.
      pose proof (get_items_size_le f ofs). apply get_items_size in E. rewrite esize_items. lia.
    - destruct (view_items wfs) as [l|] eqn:E; [|reflexivity]. apply A.
      pose proof (view_items_size_le ofs). apply view_items_size in E. rewrite esize_items. lia.
    - destruct (view_items wfs) as [l|] eqn:E; [|reflexivity].
      apply itemcoll_ext with (bi := S (fsize ofs)); auto.
      + intros x Hx. destruct (view_items ofs) as [ol|] eqn:E2; [|destruct Hx].
        apply in_lsize in Hx. apply view_items_size in E2. lia.
      + eapply agree_le; [|exact A]. apply view_items_size in E. rewrite esize_items. lia.
    - (* url: through rec since the fix, on a strictly smaller pair *)
      destruct (c_url_items cfg); [|reflexivity].
      destruct (is_nil (get_item F_URL wfs)) eqn:En; [reflexivity|]. apply A.
      assert (H : get_item F_URL wfs <> INil) by (intro H0; rewrite H0 in En; discriminate).
      apply get_item_size in H. pose proof (get_item_size_le F_URL ofs). lia.
  Qed.

  Lemma all_cmp_ext cs ofs wfs :
    c_member_items cfg = true ->
    agree (S (fsize ofs) + S (fsize wfs)) r1 r2 ->
    all_cmp cfg r1 cs ofs wfs = all_cmp cfg r2 cs ofs wfs.
  Proof.
    intros Hc A. induction cs as [|c r IH]; simpl; [reflexivity|].
    apply obind_ext; [apply cmp_one_ext; auto|]. intros [|]; auto.
  Qed.

  Lemma object_equals_ext ofs w :
    c_member_items cfg = true ->
    agree (S (fsize ofs) + esize w) r1 r2 ->
    object_equals cfg r1 ofs w = object_equals cfg r2 ofs w.
  Proof.
    intros Hc A. unfold object_equals. apply f_equal.
    destruct (is_item_collection w); [reflexivity|]. destruct (negb _); [reflexivity|].
    destruct (negb _); [reflexivity|].
    unfold as_kind. destruct w as [| | | p k wfs | |];
      [reflexivity|reflexivity|reflexivity| |reflexivity|reflexivity].
    destruct (cast_ok KObject k); [|reflexivity].
    apply all_cmp_ext; auto.
  Qed.

  Ltac view w k :=
    unfold as_kind; destruct w as [| | | ?p ?k0 ?wfs | |];
    [reflexivity|reflexivity|reflexivity| |reflexivity|reflexivity];
    destruct (cast_ok k k0); [|reflexivity].

  Lemma intransitive_equals_ext ofs w :
    c_member_items cfg = true ->
    agree (S (fsize ofs) + esize w) r1 r2 ->
    intransitive_equals cfg r1 ofs w = intransitive_equals cfg r2 ofs w.
  Proof.
    intros Hc A. unfold intransitive_equals. apply f_equal. view w KIntransitive.
    apply obind_ext; [apply object_equals_ext; auto|]. intros v.
    apply obind_ext; [apply all_cmp_ext; auto|]. reflexivity.
  Qed.

  Lemma activity_equals_ext ofs w :
    c_member_items cfg = true ->
    agree (S (fsize ofs) + esize w) r1 r2 ->
    activity_equals cfg r1 ofs w = activity_equals cfg r2 ofs w.
  Proof.
    intros Hc A. unfold activity_equals. apply f_equal. view w KActivity.
    apply obind_ext; [apply intransitive_equals_ext; auto|]. intros v.
    apply obind_ext; [apply all_cmp_ext; auto|]. reflexivity.
  Qed.

  Lemma actor_equals_ext ofs w :
    c_member_items cfg = true ->
    agree (S (fsize ofs) + esize w) r1 r2 ->
    actor_equals cfg r1 ofs w = actor_equals cfg r2 ofs w.
  Proof.
    intros Hc A. unfold actor_equals. apply f_equal. view w KActor.
    apply obind_ext; [apply object_equals_ext; auto|]. intros v.
    apply obind_ext; [apply all_cmp_ext; auto|]. reflexivity.
  Qed.

  Lemma agree_comm a b : agree (a + b) r1 r2 -> agree (b + a) r1 r2.
  Proof. apply agree_le. lia. Qed.

  Lemma collection_equals_ext ofs w :
    c_member_items cfg = true ->
    agree (S (fsize ofs) + esize w) r1 r2 ->
    collection_equals cfg r1 ofs w = collection_equals cfg r2 ofs w.
  Proof.
    intros Hc A. unfold collection_equals.
    destruct (is_nil w); [reflexivity|]. destruct (negb _); [reflexivity|].
    view w KCollection.
    apply obind_ext.
    - destruct (c_with_driven cfg); apply object_equals_ext; auto.
      rewrite esize_obj. apply agree_comm. exact A.
    - intros v. apply obind_ext; [apply all_cmp_ext; auto|]. reflexivity.
  Qed.

  Lemma page_equals_ext ofs w :
    c_member_items cfg = true ->
    agree (S (fsize ofs) + esize w) r1 r2 ->
    page_equals cfg r1 ofs w = page_equals cfg r2 ofs w.
  Proof.
    intros Hc A. unfold page_equals.
    destruct (is_nil w); [reflexivity|]. destruct (negb _); [reflexivity|].
    view w KCollectionPage.
    apply obind_ext.
    - destruct (c_with_driven cfg); apply collection_equals_ext; auto.
      rewrite esize_obj. apply agree_comm. exact A.
    - intros v. apply obind_ext; [apply all_cmp_ext; auto|]. reflexivity.
  Qed.

  Lemma ordered_equals_ext ofs w :
    c_member_items cfg = true ->
    agree (S (fsize ofs) + esize w) r1 r2 ->
    ordered_equals cfg r1 ofs w = ordered_equals cfg r2 ofs w.
  Proof.
    intros Hc A. unfold ordered_equals.
    destruct (is_nil w); [reflexivity|]. destruct (negb _); [reflexivity|].
    view w KOrdered.
    apply obind_ext.
    - destruct (c_with_driven cfg); apply collection_equals_ext; auto.
      rewrite esize_obj. apply agree_comm. exact A.
    - intros v. apply obind_ext; [apply all_cmp_ext; auto|]. reflexivity.
  Qed.

  Lemma opage_equals_ext ofs w :
    c_member_items cfg = true ->
    agree (S (fsize ofs) + esize w) r1 r2 ->
    opage_equals cfg r1 ofs w = opage_equals cfg r2 ofs w.
  Proof.
    intros Hc A. unfold opage_equals.
    destruct (is_nil w); [reflexivity|]. destruct (negb _); [reflexivity|].
    view w KOrderedPage.
    apply obind_ext.
    - destruct (c_with_driven cfg); apply ordered_equals_ext; auto.
      rewrite esize_obj. apply agree_comm. exact A.
    - intros v. apply obind_ext; [apply all_cmp_ext; auto|]. reflexivity.
  Qed.

  Lemma link_equals_ext ofs w :
    c_member_items cfg = true ->
    agree (S (fsize ofs) + esize w) r1 r2 ->
    link_equals cfg r1 ofs w = link_equals cfg r2 ofs w.
  Proof.
    intros Hc A. unfold link_equals. destruct (is_nil w || negb (is_link w)); [reflexivity|].
    view w KLink.
    destruct (negb _); [reflexivity|]. destruct (negb _); [reflexivity|]. apply all_cmp_ext; auto.
  Qed.

  Lemma object_branch_ext it w :
    c_member_items cfg = true -> is_object it = true -> is_nil it = false ->
    agree (esize it + esize w) r1 r2 ->
    object_branch cfg r1 it w = object_branch cfg r2 it w.
  Proof.
    intros Hc Ho Hn A. unfold object_branch.
    destruct it as [| | | p k fs | |]; try discriminate. simpl fields_of. rewrite esize_obj in A.
    assert (Hb : object_equals cfg r1 fs w = object_equals cfg r2 fs w) by (apply object_equals_ext; auto).
    unfold as_kind.
    destruct (tl_contains tl_ActivityTypes (typ w)).
    { destruct (cast_ok KActivity k); [apply activity_equals_ext; auto|exact Hb]. }
    destruct (tl_contains tl_ActorTypes (typ w)).
    { destruct (cast_ok KActor k); [apply actor_equals_ext; auto|exact Hb]. }
    destruct (is_collection_m (IObj p k fs)); [|exact Hb].
    destruct (bytes_eqb _ _).
    { destruct (cast_ok KCollection k); [apply collection_equals_ext; auto|exact Hb]. }
    destruct (bytes_eqb _ _).
    { destruct (cast_ok KOrdered k); [apply ordered_equals_ext; auto|exact Hb]. }
    destruct (bytes_eqb _ _).
    { destruct (cast_ok KCollectionPage k); [apply page_equals_ext; auto|exact Hb]. }
    destruct (bytes_eqb _ _).
    { destruct (cast_ok KOrderedPage k); [apply opage_equals_ext; auto|exact Hb]. }
    exact Hb.
  Qed.

  Lemma body_ext it w :
    c_member_items cfg = true ->
    agree (esize it + esize w) r1 r2 ->
    (swaps it w = true -> r1 w it = r2 w it) ->
    items_equal_body cfg r1 it w = items_equal_body cfg r2 it w.
  Proof.
    intros Hc A Hs. unfold items_equal_body.
    destruct (is_nil it || is_nil w) eqn:En; [reflexivity|].
    destruct (needs_swap it w) eqn:Ens.
    { apply Hs. unfold swaps. rewrite En, Ens. reflexivity. }
    clear Hs.
    destruct (is_iri w || is_iri it); [reflexivity|].
    destruct (is_item_collection it) eqn:Ec.
    { destruct (negb _); [reflexivity|].
      destruct (to_item_collection it) as [l|] eqn:E; [|reflexivity].
      apply itemcoll_ext with (bi := esize it); auto.
      - intros x Hx. eapply to_item_collection_size; eauto.
      - eapply agree_le; [|exact A]. lia. }
    destruct (is_object it) eqn:Eo.
    { apply orb_false_iff in En. destruct En. apply object_branch_ext; auto. }
    destruct (c_link_branch cfg && is_link it) eqn:El; [|reflexivity].
    apply andb_true_iff in El. destruct El as [_ El].
    destruct it as [| k | | p k fs | |]; try discriminate El; try discriminate En.
    apply link_equals_ext; auto.
  Qed.
End Ext.

(* ---------------------------------------------------------------- totality of the repaired code *)

Section Tot.
  Variable rec : item -> item -> outcome bool.
  Hypothesis Hrec : forall a b, total (rec a b).

  Ltac tot :=
    repeat first
      [ apply total_ok
      | apply Hrec
      | apply obind_total; [|intro]
      | match goal with
        | |- total (if ?c then _ else _) => destruct c
        | |- total (match ?x with _ => _ end) => destruct x
        end ].

  Lemma contains_total l r : total (contains_m rec l r).
  Proof. induction l as [|m t IH]; simpl; tot. exact IH. Qed.

  Lemma all_contained_total i w : total (all_contained cfg_fixed rec i w).
  Proof.
    induction i as [|x t IH]; simpl; [tot|]. fixed_cfg.
    apply obind_total; [apply contains_total|]. intros [|]; [exact IH|tot].
  Qed.

  Lemma find_unused_total w x : forall used, exists v, find_unused rec w used x = Ok v.
  Proof.
    induction w as [|m t IH]; intro used; [eexists; reflexivity|].
    destruct used as [|[|] ut]; cbn [find_unused]; [eexists; reflexivity| |].
    - destruct (IH ut) as [v ->]. eexists; reflexivity.
    - destruct (Hrec m x) as [b ->]. cbn [obind]. destruct b; [eexists; reflexivity|].
      destruct (IH ut) as [v ->]. eexists; reflexivity.
  Qed.

  Lemma all_matched_total i w : forall used, total (all_matched rec i w used).
  Proof.
    induction i as [|x t IH]; intro used; cbn [all_matched]; [tot|].
    destruct (find_unused_total w x used) as [[u'|] ->]; cbn [obind]; [apply IH|tot].
  Qed.

  Lemma itemcoll_total i w : total (itemcoll_equals cfg_fixed rec i w).
  Proof. unfold itemcoll_equals. fixed_cfg. tot. apply all_matched_total. Qed.

  Lemma cmp_one_total c ofs wfs : total (cmp_one cfg_fixed rec c ofs wfs).
  Proof.
    destruct c; simpl; fixed_cfg; tot; try apply itemcoll_total.
  Qed.

  Lemma all_cmp_total cs ofs wfs : total (all_cmp cfg_fixed rec cs ofs wfs).
  Proof.
    induction cs as [|c r IH]; simpl; [tot|].
    apply obind_total; [apply cmp_one_total|]. intros [|]; [exact IH|tot].
  Qed.

  Lemma nil_guard_total m w k : total k -> total (nil_guard cfg_fixed m w k).
  Proof. intro H. unfold nil_guard. fixed_cfg. destruct (is_nil w); tot. exact H. Qed.

  Lemma object_equals_total ofs w : total (object_equals cfg_fixed rec ofs w).
  Proof.
    unfold object_equals. apply nil_guard_total.
    destruct (is_item_collection w); [tot|]. destruct (negb _); [tot|]. destruct (negb _); [tot|].
    destruct (as_kind _ _); [apply all_cmp_total|tot].
  Qed.

  Lemma intransitive_equals_total ofs w : total (intransitive_equals cfg_fixed rec ofs w).
  Proof.
    unfold intransitive_equals. apply nil_guard_total. destruct (as_kind _ _); [|tot].
    apply obind_total; [apply object_equals_total|]. intro. apply obind_total; [apply all_cmp_total|]. intro. tot.
  Qed.

  Lemma activity_equals_total ofs w : total (activity_equals cfg_fixed rec ofs w).
  Proof.
    unfold activity_equals. apply nil_guard_total. destruct (as_kind _ _); [|tot].
    apply obind_total; [apply intransitive_equals_total|]. intro. apply obind_total; [apply all_cmp_total|]. intro. tot.
  Qed.

  Lemma actor_equals_total ofs w : total (actor_equals cfg_fixed rec ofs w).
  Proof.
    unfold actor_equals. apply nil_guard_total. destruct (as_kind _ _); [|tot].
    apply obind_total; [apply object_equals_total|]. intro. apply obind_total; [apply all_cmp_total|]. intro. tot.
  Qed.

  Lemma collection_equals_total ofs w : total (collection_equals cfg_fixed rec ofs w).
  Proof.
    unfold collection_equals. fixed_cfg. destruct (is_nil w); [tot|]. destruct (negb _); [tot|].
    destruct (as_kind _ _); [|tot].
    apply obind_total; [apply object_equals_total|]. intro. apply obind_total; [apply all_cmp_total|]. intro. tot.
  Qed.

  Lemma page_equals_total ofs w : total (page_equals cfg_fixed rec ofs w).
  Proof.
    unfold page_equals. fixed_cfg. destruct (is_nil w); [tot|]. destruct (negb _); [tot|].
    destruct (as_kind _ _); [|tot].
    apply obind_total; [apply collection_equals_total|]. intro. apply obind_total; [apply all_cmp_total|]. intro. tot.
  Qed.

  Lemma ordered_equals_total ofs w : total (ordered_equals cfg_fixed rec ofs w).
  Proof.
    unfold ordered_equals. fixed_cfg. destruct (is_nil w); [tot|]. destruct (negb _); [tot|].
    destruct (as_kind _ _); [|tot].
    apply obind_total; [apply collection_equals_total|]. intro. apply obind_total; [apply all_cmp_total|]. intro. tot.
  Qed.

  Lemma opage_equals_total ofs w : total (opage_equals cfg_fixed rec ofs w).
  Proof.
    unfold opage_equals. fixed_cfg. destruct (is_nil w); [tot|]. destruct (negb _); [tot|].
    destruct (as_kind _ _); [|tot].
    apply obind_total; [apply ordered_equals_total|]. intro. apply obind_total; [apply all_cmp_total|]. intro. tot.
  Qed.

  Lemma link_equals_total ofs w : total (link_equals cfg_fixed rec ofs w).
  Proof.
    unfold link_equals. destruct (is_nil w || negb (is_link w)); [tot|]. destruct (as_kind _ _); [|tot].
    destruct (negb _); [tot|]. destruct (negb _); [tot|]. apply all_cmp_total.
  Qed.

  Lemma object_branch_total it w : total (object_branch cfg_fixed rec it w).
  Proof.
    unfold object_branch. cbv zeta.
    repeat match goal with
           | |- total (if ?c then _ else _) => destruct c
           | |- total (match ?x with Some _ => _ | None => _ end) => destruct x
           end;
      first [ apply object_equals_total | apply activity_equals_total | apply actor_equals_total
            | apply collection_equals_total | apply ordered_equals_total | apply page_equals_total
            | apply opage_equals_total ].
  Qed.

  Lemma body_total it w : total (items_equal_body cfg_fixed rec it w).
  Proof.
    unfold items_equal_body.
    destruct (is_nil it || is_nil w); [tot|]. destruct (needs_swap it w); [tot|].
    destruct (is_iri w || is_iri it); [tot|].
    destruct (is_item_collection it).
    { destruct (negb _); [tot|]. destruct (to_item_collection it); [apply itemcoll_total|tot]. }
    destruct (is_object it); [apply object_branch_total|].
    destruct (_ && _); [apply link_equals_total|tot].
  Qed.
End Tot.

(* ---------------------------------------------------------------- the swap fires at most once *)
Lemma iri_not_object_type : tl_contains tl_ObjectTypes iri_type = false.
Proof. vm_compute. reflexivity. Qed.

Lemma typ_iri x : is_iri x = true -> typ x = iri_type.
Proof. destruct x; try discriminate. reflexivity. Qed.

Lemma swap_once x y : needs_swap x y = true -> needs_swap y x = false.
Proof.
  unfold needs_swap.
  destruct (is_iri x) eqn:Ex, (is_iri y) eqn:Ey; cbn [andb negb].
  - intros _. rewrite (typ_iri x Ex), iri_not_object_type. reflexivity.
  - intros _. rewrite (typ_iri x Ex), iri_not_object_type. reflexivity.
  - rewrite (typ_iri y Ey), iri_not_object_type. discriminate.
  - destruct (tl_contains tl_ObjectTypes (typ y)); [|discriminate].
    destruct (tl_contains tl_ObjectTypes (typ x)); [discriminate|reflexivity].
Qed.

Lemma needs_swap_refl x : needs_swap x x = false.
Proof. destruct (needs_swap x x) eqn:E; [|reflexivity]. pose proof (swap_once _ _ E). congruence. Qed.

(* ---------------------------------------------------------------- fuel sufficiency *)
Lemma swaps_once x y : swaps x y = true -> swaps y x = false.
Proof.
  unfold swaps. intro H. apply andb_true_iff in H. destruct H as [_ H].
  rewrite (swap_once _ _ H). apply andb_false_r.
Qed.

Lemma body_swaps rec x y : swaps x y = true -> items_equal_body cfg_fixed rec x y = rec y x.
Proof.
  unfold swaps. intro H. apply andb_true_iff in H. destruct H as [H1 H2].
  apply negb_true_iff in H1. unfold items_equal_body. rewrite H1, H2. reflexivity.
Qed.

Definition need (x y : item) : nat :=
  if swaps x y then fuel_for x y else fuel_for x y - 1.

Lemma c_member_fixed : c_member_items cfg_fixed = true.
Proof. reflexivity. Qed.

(* a total function that agrees with [r] below the bound *)
Definition clamp (bound : nat) (r : item -> item -> outcome bool) (a b : item) : outcome bool :=
  if esize a + esize b <? bound then r a b else Ok false.

Lemma items_equal_S k a b :
  items_equal (S k) a b = items_equal_body cfg_fixed (items_equal k) a b.
Proof. reflexivity. Qed.

Lemma fuel_main s : forall x y, esize x + esize y <= s ->
  (forall k, need x y <= k -> items_equal k x y = items_equal_body cfg_fixed ieq x y) /\
  total (items_equal_body cfg_fixed ieq x y).
Proof.
  induction s as [|s IH]; intros x y Hs.
  { pose proof (esize_pos x). lia. }
  (* consequences of the induction hypothesis for smaller pairs *)
  assert (SM : forall u v, esize u + esize v <= s ->
               (forall k, fuel_for u v <= k -> items_equal k u v = ieq u v) /\ total (ieq u v)).
  { intros u v L. destruct (IH u v L) as [I1 I2].
    assert (Eq : ieq u v = items_equal_body cfg_fixed ieq u v).
    { unfold ieq at 1. apply I1. unfold need. destruct (swaps u v); lia. }
    split; [|rewrite Eq; exact I2].
    intros k Hk. rewrite Eq. apply I1. unfold need. destruct (swaps u v); lia. }
  (* the non-swapping case at this size *)
  assert (NS : forall a b, esize a + esize b <= S s -> swaps a b = false ->
               (forall k, fuel_for a b - 1 <= k ->
                          items_equal k a b = items_equal_body cfg_fixed ieq a b) /\
               total (items_equal_body cfg_fixed ieq a b)).
  { intros a b Hab Hn.
    pose proof (esize_pos a). pose proof (esize_pos b).
    split.
    - intros k Hk. unfold fuel_for in Hk. destruct k as [|k1]; [lia|].
      rewrite items_equal_S. apply body_ext; auto.
      + intros u v L. apply SM; [lia|]. unfold fuel_for. lia.
      + rewrite Hn. discriminate.
    - assert (E : items_equal_body cfg_fixed ieq a b =
                  items_equal_body cfg_fixed (clamp (esize a + esize b) ieq) a b).
      { apply body_ext; auto.
        - intros u v L. unfold clamp. apply Nat.ltb_lt in L. rewrite L. reflexivity.
        - rewrite Hn. discriminate. }
      rewrite E. apply body_total. intros u v. unfold clamp.
      destruct (esize u + esize v <? esize a + esize b) eqn:L; [|apply total_ok].
      apply Nat.ltb_lt in L. apply SM. lia. }
  destruct (swaps x y) eqn:Hn.
  - pose proof (swaps_once _ _ Hn) as Hn'.
    assert (Hyx : esize y + esize x <= S s) by lia.
    assert (Fyx : fuel_for y x = fuel_for x y) by (unfold fuel_for; lia).
    destruct (NS y x Hyx Hn') as [N1 N2].
    pose proof (esize_pos x). pose proof (esize_pos y).
    assert (Eyx : ieq y x = items_equal_body cfg_fixed ieq y x).
    { unfold ieq at 1. apply N1. lia. }
    rewrite (body_swaps ieq x y Hn).
    split.
    + intros k Hk. unfold need in Hk. rewrite Hn in Hk. unfold fuel_for in Hk.
      destruct k as [|k1]; [lia|].
      rewrite items_equal_S, (body_swaps _ x y Hn), Eyx. apply N1. unfold fuel_for. lia.
    + rewrite Eyx. exact N2.
  - destruct (NS x y Hs Hn) as [N1 N2]. split; [|exact N2].
    intros k Hk. unfold need in Hk. rewrite Hn in Hk. apply N1. exact Hk.
Qed.

(* the fixpoint equation: from here on no theorem mentions fuel *)
Lemma ieq_unfold x y : ieq x y = items_equal_body cfg_fixed ieq x y.
Proof.
  destruct (fuel_main (esize x + esize y) x y (le_n _)) as [I1 _].
  unfold ieq at 1. apply I1. unfold need. destruct (swaps x y); lia.
Qed.

Lemma ieq_total x y : total (ieq x y).
Proof.
  rewrite ieq_unfold. destruct (fuel_main (esize x + esize y) x y (le_n _)) as [_ I2]. exact I2.
Qed.

Lemma fuel_enough x y k : fuel_for x y <= k -> items_equal k x y = ieq x y.
Proof.
  intro H. rewrite ieq_unfold.
  destruct (fuel_main (esize x + esize y) x y (le_n _)) as [I1 _].
  apply I1. unfold need. destruct (swaps x y); lia.
Qed.

(* C09_terminates in the shape of DESIGN.md *)
Lemma items_equal_terminates x y :
  exists n, forall m, n <= m ->
    items_equal m x y = items_equal n x y /\ items_equal n x y <> OutOfFuel.
Proof.
  exists (fuel_for x y). intros m Hm. rewrite (fuel_enough x y m Hm), (fuel_enough x y _ (le_n _)).
  split; [reflexivity|]. destruct (ieq_total x y) as [v ->]. discriminate.
Qed.

Lemma ieq_no_panic x y : exists b, ieq x y = Ok b.
Proof. exact (ieq_total x y). Qed.

(* ---------------------------------------------------------------- nil-correctness *)
Lemma ieq_nil x y : is_nil x = true ->
  (is_nil y = true -> ieq x y = Ok true) /\
  (is_nil y = false -> ieq x y = Ok false /\ ieq y x = Ok false).
Proof.
  intros Hx. split; [intro Hy|intro Hy; split]; rewrite ieq_unfold; unfold items_equal_body;
    rewrite Hx, Hy; reflexivity.
Qed.

(* ---------------------------------------------------------------- reflexivity *)
Lemma nl_equals_refl w : nl_equals w w = true.
Proof.
  unfold nl_equals. rewrite Nat.eqb_refl. simpl. apply forallb_forall. intros e He.
  apply existsb_exists. exists e. split; [exact He|]. apply lrv_eqb_eq. reflexivity.
Qed.

Lemma contains_refl l x : In x l -> ieq x x = Ok true -> contains_m ieq l x = Ok true.
Proof.
  induction l as [|m t IH]; [intros []|]. intros Hin Hx. simpl.
  destruct (ieq_total m x) as [b Hb]. rewrite Hb. simpl. destruct b; [reflexivity|].
  destruct Hin as [->|Hin]; [congruence|]. apply IH; auto.
Qed.

Lemma all_contained_refl i l :
  incl i l -> (forall x, In x i -> ieq x x = Ok true) -> all_contained cfg_fixed ieq i l = Ok true.
Proof.
  induction i as [|x t IH]; [reflexivity|]. intros Hi Hr. simpl. fixed_cfg.
  rewrite contains_refl; [simpl|apply Hi; left; reflexivity|apply Hr; left; reflexivity].
  apply IH; [intros z Hz; apply Hi; right; exact Hz|intros z Hz; apply Hr; right; exact Hz].
Qed.

(* the one-to-one matching, without positions: all_matched = all_removed on the members not yet used *)
Fixpoint unused (w : list item) (used : list bool) : list item :=
  match w, used with
  | m :: t, u :: ut => if u then unused t ut else m :: unused t ut
  | _, _ => []
  end.

Lemma unused_fresh w : unused w (repeat false (length w)) = w.
Proof. induction w as [|m t IH]; [reflexivity|]. cbn [length repeat unused]. rewrite IH. reflexivity. Qed.

Lemma find_unused_removal rec w x : forall used,
  omap (option_map (unused w)) (find_unused rec w used x) = remove_first rec (unused w used) x.
Proof.
  induction w as [|m t IH]; intro used; [reflexivity|].
  destruct used as [|[|] ut]; cbn [find_unused unused]; [reflexivity| |].
  - rewrite <- IH. destruct (find_unused rec t ut x) as [[r|]| | |]; reflexivity.
  - cbn [remove_first]. destruct (rec m x) as [[|]| | |]; try reflexivity. cbn [obind].
    rewrite <- IH. destruct (find_unused rec t ut x) as [[r|]| | |]; reflexivity.
Qed.

Lemma all_matched_removal rec i : forall w used,
  all_matched rec i w used = all_removed rec i (unused w used).
Proof.
  induction i as [|x t IH]; intros w used; [reflexivity|]. cbn [all_matched all_removed].
  rewrite <- find_unused_removal.
  destruct (find_unused rec w used x) as [[u'|]| | |]; try reflexivity. cbn. apply IH.
Qed.

Lemma all_matched_fresh rec i w : all_matched rec i w (repeat false (length w)) = all_removed rec i w.
Proof. rewrite all_matched_removal, unused_fresh. reflexivity. Qed.

(* members equal position by position are matched position by position *)
Lemma all_removed_pointwise rec i : forall w,
  Forall2 (fun x m => rec m x = Ok true) i w -> all_removed rec i w = Ok true.
Proof.
  induction i as [|x t IH]; intros w H; [reflexivity|].
  inversion H as [|x' m t' w' Hx Ht]; subst. cbn [all_removed remove_first]. rewrite Hx. cbn [obind].
  apply IH. exact Ht.
Qed.

Lemma all_matched_refl i :
  (forall x, In x i -> ieq x x = Ok true) -> all_matched ieq i i (repeat false (length i)) = Ok true.
Proof.
  intro Hr. rewrite all_matched_fresh. apply all_removed_pointwise.
  induction i as [|x t IH]; constructor; [apply Hr; left; reflexivity|]. apply IH. intros z Hz; apply Hr; right; exact Hz.
Qed.

Lemma itemcoll_refl l w :
  is_item_collection w = true -> is_nil w = false -> to_item_collection w = Some l ->
  (forall x, In x l -> ieq x x = Ok true) -> itemcoll_equals cfg_fixed ieq l w = Ok true.
Proof.
  intros Hc Hn Hl Hr. unfold itemcoll_equals. rewrite Hn, Hl. fixed_cfg.
  assert (C : is_collection_m w = true) by (destruct w; try discriminate; reflexivity).
  rewrite C. cbn [negb].
  assert (T : bytes_eqb (typ w) collection_of_items || true && bytes_eqb (typ w) collection_of_iris = true).
  { destruct w; try discriminate; vm_compute; reflexivity. }
  rewrite T. cbn [negb]. rewrite Nat.eqb_refl. cbn [negb].
  apply all_matched_refl. exact Hr.
Qed.

Lemma cmp_one_refl c fs :
  (forall a, esize a <= fsize fs -> ieq a a = Ok true) -> cmp_one cfg_fixed ieq c fs fs = Ok true.
Proof.
  intros IH. destruct c; simpl; fixed_cfg.
  - destruct (nl_of (get_nlv f fs)) eqn:E; [reflexivity|]. rewrite nl_equals_refl. reflexivity.
  - destruct (get_nlv f fs) as [w|] eqn:E; [|reflexivity]. simpl. rewrite nl_equals_refl. reflexivity.
  - destruct (get_item f fs) eqn:E; try reflexivity; rewrite <- E; apply IH; apply get_item_size; congruence.
  - destruct (get_items f fs) as [l|] eqn:E; [|reflexivity]. apply IH. rewrite esize_items.
    apply get_items_size in E. exact E.
  - destruct (view_items fs) as [l|] eqn:E; [|reflexivity]. apply IH. rewrite esize_items.
    apply view_items_size in E. exact E.
  - destruct (view_items fs) as [l|] eqn:E; [|reflexivity].
    apply itemcoll_refl; try reflexivity. intros x Hx. apply IH. apply in_lsize in Hx.
    apply view_items_size in E. lia.
  - destruct (is_nil (get_item F_URL fs)) eqn:En; [reflexivity|]. apply IH. apply get_item_size.
    intro H0. rewrite H0 in En. discriminate.
  - destruct (vtime_is_zero _); [reflexivity|]. unfold time_equal. rewrite !Z.eqb_refl. reflexivity.
  - destruct (_ =? 0)%Z; [reflexivity|]. rewrite Z.eqb_refl. reflexivity.
  - destruct (_ =? 0)%N; [reflexivity|]. rewrite N.eqb_refl. reflexivity.
  - destruct (get_str f fs) as [|b0 s0] eqn:E; [reflexivity|]. f_equal. exact (bytes_eqb_refl (b0 :: s0)).
  - destruct (get_str f fs) eqn:E; [reflexivity|]. rewrite ideq_refl. reflexivity.
Qed.

Lemma all_cmp_refl cs fs :
  (forall a, esize a <= fsize fs -> ieq a a = Ok true) -> all_cmp cfg_fixed ieq cs fs fs = Ok true.
Proof.
  intros IH. induction cs as [|c r IHc]; [reflexivity|]. simpl. rewrite cmp_one_refl; auto.
Qed.

Section Refl.
  Variable fs : fields.
  Hypothesis IH : forall a, esize a <= fsize fs -> ieq a a = Ok true.

  Lemma nil_guard_obj cfg m p k (gs : fields) o : nil_guard cfg m (IObj p k gs) o = o.
  Proof. reflexivity. Qed.

  Lemma object_equals_refl p k : k <> KLink -> object_equals cfg_fixed ieq fs (IObj p k fs) = Ok true.
  Proof.
    intro Hk. unfold object_equals. rewrite nil_guard_obj. cbn [is_item_collection].
    unfold lnk, typ. cbn [get_link get_type]. rewrite ideq_refl, fold_eqb_refl. cbn [negb].
    unfold as_kind. replace (cast_ok KObject k) with true by (destruct k; try reflexivity; congruence).
    apply all_cmp_refl. exact IH.
  Qed.

  Lemma intransitive_equals_refl p k :
    cast_ok KIntransitive k = true -> intransitive_equals cfg_fixed ieq fs (IObj p k fs) = Ok true.
  Proof.
    intro Hk. unfold intransitive_equals. rewrite nil_guard_obj. unfold as_kind. rewrite Hk.
    rewrite object_equals_refl by discriminate. cbn [obind].
    rewrite all_cmp_refl by exact IH. reflexivity.
  Qed.

  Lemma activity_equals_refl p k :
    cast_ok KActivity k = true -> activity_equals cfg_fixed ieq fs (IObj p k fs) = Ok true.
  Proof.
    intro Hk. unfold activity_equals. rewrite nil_guard_obj. unfold as_kind. rewrite Hk.
    rewrite intransitive_equals_refl by reflexivity. cbn [obind].
    rewrite all_cmp_refl by exact IH. reflexivity.
  Qed.

  Lemma actor_equals_refl p k :
    cast_ok KActor k = true -> actor_equals cfg_fixed ieq fs (IObj p k fs) = Ok true.
  Proof.
    intro Hk. unfold actor_equals. rewrite nil_guard_obj. unfold as_kind. rewrite Hk.
    rewrite object_equals_refl by discriminate. cbn [obind].
    rewrite all_cmp_refl by exact IH. reflexivity.
  Qed.

  Lemma collection_equals_refl p k :
    cast_ok KCollection k = true -> collection_equals cfg_fixed ieq fs (IObj p k fs) = Ok true.
  Proof.
    intro Hk. unfold collection_equals. cbn [is_nil]. fixed_cfg.
    replace (is_collection_m (IObj p k fs)) with true by (destruct k; try discriminate; reflexivity).
    cbn [negb]. unfold as_kind. rewrite Hk.
    rewrite object_equals_refl by discriminate. cbn [obind].
    rewrite all_cmp_refl by exact IH. reflexivity.
  Qed.

  Lemma page_equals_refl p k :
    cast_ok KCollectionPage k = true -> page_equals cfg_fixed ieq fs (IObj p k fs) = Ok true.
  Proof.
    intro Hk. unfold page_equals. cbn [is_nil]. fixed_cfg.
    replace (is_collection_m (IObj p k fs)) with true by (destruct k; try discriminate; reflexivity).
    cbn [negb]. unfold as_kind. rewrite Hk.
    rewrite collection_equals_refl by reflexivity. cbn [obind].
    rewrite all_cmp_refl by exact IH. reflexivity.
  Qed.

  Lemma ordered_equals_refl p k :
    cast_ok KOrdered k = true -> ordered_equals cfg_fixed ieq fs (IObj p k fs) = Ok true.
  Proof.
    intro Hk. unfold ordered_equals. cbn [is_nil]. fixed_cfg.
    replace (is_collection_m (IObj p k fs)) with true by (destruct k; try discriminate; reflexivity).
    cbn [negb]. unfold as_kind. rewrite Hk.
    rewrite collection_equals_refl by reflexivity. cbn [obind].
    rewrite all_cmp_refl by exact IH. reflexivity.
  Qed.

  Lemma opage_equals_refl p k :
    cast_ok KOrderedPage k = true -> opage_equals cfg_fixed ieq fs (IObj p k fs) = Ok true.
  Proof.
    intro Hk. unfold opage_equals. cbn [is_nil]. fixed_cfg.
    replace (is_collection_m (IObj p k fs)) with true by (destruct k; try discriminate; reflexivity).
    cbn [negb]. unfold as_kind. rewrite Hk.
    rewrite ordered_equals_refl by reflexivity. cbn [obind].
    rewrite all_cmp_refl by exact IH. reflexivity.
  Qed.

  Lemma link_equals_refl p : link_equals cfg_fixed ieq fs (IObj p KLink fs) = Ok true.
  Proof.
    unfold link_equals. cbn [is_nil is_link negb orb]. unfold as_kind. cbn [cast_ok].
    rewrite ideq_refl, fold_eqb_refl. cbn [negb]. apply all_cmp_refl. exact IH.
  Qed.

  Lemma object_branch_refl p k : k <> KLink -> object_branch cfg_fixed ieq (IObj p k fs) (IObj p k fs) = Ok true.
  Proof.
    intro Hk. unfold object_branch. cbn [fields_of].
    assert (Hb : object_equals cfg_fixed ieq fs (IObj p k fs) = Ok true) by (apply object_equals_refl; exact Hk).
    unfold as_kind.
    destruct (tl_contains tl_ActivityTypes _).
    { destruct (cast_ok KActivity k) eqn:E; [apply activity_equals_refl; exact E|exact Hb]. }
    destruct (tl_contains tl_ActorTypes _).
    { destruct (cast_ok KActor k) eqn:E; [apply actor_equals_refl; exact E|exact Hb]. }
    destruct (is_collection_m _); [|exact Hb].
    destruct (bytes_eqb _ _).
    { destruct (cast_ok KCollection k) eqn:E; [apply collection_equals_refl; exact E|exact Hb]. }
    destruct (bytes_eqb _ _).
    { destruct (cast_ok KOrdered k) eqn:E; [apply ordered_equals_refl; exact E|exact Hb]. }
    destruct (bytes_eqb _ _).
    { destruct (cast_ok KCollectionPage k) eqn:E; [apply page_equals_refl; exact E|exact Hb]. }
    destruct (bytes_eqb _ _).
    { destruct (cast_ok KOrderedPage k) eqn:E; [apply opage_equals_refl; exact E|exact Hb]. }
    exact Hb.
  Qed.
End Refl.

Lemma ieq_refl_size n : forall x, esize x <= n -> ieq x x = Ok true.
Proof.
  induction n as [|n IH]; intros x Hx.
  { pose proof (esize_pos x). lia. }
  rewrite ieq_unfold. unfold items_equal_body.
  destruct (is_nil x) eqn:En; [reflexivity|]. cbn [orb]. rewrite needs_swap_refl.
  destruct (is_iri x) eqn:Ei.
  { cbn [orb]. rewrite ideq_refl. reflexivity. }
  cbn [orb].
  destruct (is_item_collection x) eqn:Ec.
  { cbn [negb]. destruct (to_item_collection x) as [l|] eqn:El.
    - apply itemcoll_refl; auto. intros m Hm. apply IH.
      pose proof (to_item_collection_size x l m El Hm). lia.
    - destruct x as [| | | | ? [?|] | ? [?|]]; discriminate. }
  destruct x as [| k | | p k fs | |]; try discriminate.
  rewrite esize_obj in Hx.
  destruct (is_object (IObj p k fs)) eqn:Eo.
  - apply object_branch_refl.
    + intros a Ha. apply IH. lia.
    + destruct k; try discriminate; congruence.
  - destruct k; try discriminate. fixed_cfg. cbn [is_link andb fields_of].
    apply link_equals_refl. intros a Ha. apply IH. lia.
Qed.

Lemma ieq_refl x : ieq x x = Ok true.
Proof. apply (ieq_refl_size (esize x)). apply le_n. Qed.

(* ---------------------------------------------------------------- identity: ids / types that differ *)
Definition mism (fs gs : fields) : Prop :=
  ideq (get_str F_ID fs) (get_str F_ID gs) true = false \/
  fold_eqb (get_str F_Type fs) (get_str F_Type gs) = false.

Lemma mism_sym fs gs : mism fs gs -> mism gs fs.
Proof. intros [H|H]; [left; rewrite ideq_sym|right; rewrite fold_eqb_sym]; exact H. Qed.

Lemma obind_false_total o : total o -> obind o (fun r2 => Ok (false && r2)) = Ok false.
Proof. intros [v ->]. reflexivity. Qed.

Lemma object_equals_mism fs gs p k : mism fs gs -> object_equals cfg_fixed ieq fs (IObj p k gs) = Ok false.
Proof.
  intro M. unfold object_equals. rewrite nil_guard_obj. cbn [is_item_collection].
  unfold lnk, typ. cbn [get_link get_type].
  destruct M as [H|H].
  - rewrite H. reflexivity.
  - rewrite H. destruct (negb (ideq _ _ _)); reflexivity.
Qed.

(* whenever Object.Equals rejects the pair (whatever view it is handed), every more specific Equals does *)
Section Mism.
  Variables fs gs : fields.
  Hypothesis OE : forall p k, object_equals cfg_fixed ieq fs (IObj p k gs) = Ok false.

  Ltac after_first :=
    cbn [obind]; apply obind_false_total; apply all_cmp_total; exact ieq_total.

  Lemma intransitive_equals_mism p k : intransitive_equals cfg_fixed ieq fs (IObj p k gs) = Ok false.
  Proof.
    unfold intransitive_equals. rewrite nil_guard_obj. unfold as_kind.
    destruct (cast_ok KIntransitive k); [|reflexivity]. rewrite OE. after_first.
  Qed.

  Lemma activity_equals_mism p k : activity_equals cfg_fixed ieq fs (IObj p k gs) = Ok false.
  Proof.
    unfold activity_equals. rewrite nil_guard_obj. unfold as_kind.
    destruct (cast_ok KActivity k); [|reflexivity]. rewrite intransitive_equals_mism. after_first.
  Qed.

  Lemma actor_equals_mism p k : actor_equals cfg_fixed ieq fs (IObj p k gs) = Ok false.
  Proof.
    unfold actor_equals. rewrite nil_guard_obj. unfold as_kind.
    destruct (cast_ok KActor k); [|reflexivity]. rewrite OE. after_first.
  Qed.

  Lemma collection_equals_mism p k : collection_equals cfg_fixed ieq fs (IObj p k gs) = Ok false.
  Proof.
    unfold collection_equals. cbn [is_nil]. fixed_cfg. destruct (negb _); [reflexivity|]. unfold as_kind.
    destruct (cast_ok KCollection k); [|reflexivity]. rewrite OE. after_first.
  Qed.

  Lemma page_equals_mism p k : page_equals cfg_fixed ieq fs (IObj p k gs) = Ok false.
  Proof.
    unfold page_equals. cbn [is_nil]. fixed_cfg. destruct (negb _); [reflexivity|]. unfold as_kind.
    destruct (cast_ok KCollectionPage k); [|reflexivity]. rewrite collection_equals_mism. after_first.
  Qed.

  Lemma ordered_equals_mism p k : ordered_equals cfg_fixed ieq fs (IObj p k gs) = Ok false.
  Proof.
    unfold ordered_equals. cbn [is_nil]. fixed_cfg. destruct (negb _); [reflexivity|]. unfold as_kind.
    destruct (cast_ok KOrdered k); [|reflexivity]. rewrite collection_equals_mism. after_first.
  Qed.

  Lemma opage_equals_mism p k : opage_equals cfg_fixed ieq fs (IObj p k gs) = Ok false.
  Proof.
    unfold opage_equals. cbn [is_nil]. fixed_cfg. destruct (negb _); [reflexivity|]. unfold as_kind.
    destruct (cast_ok KOrderedPage k); [|reflexivity]. rewrite ordered_equals_mism. after_first.
  Qed.

  Lemma object_branch_mism p k q k' :
    object_branch cfg_fixed ieq (IObj p k fs) (IObj q k' gs) = Ok false.
  Proof.
    unfold object_branch. cbn [fields_of].
    assert (Hb : object_equals cfg_fixed ieq fs (IObj q k' gs) = Ok false) by apply OE.
    unfold as_kind.
    destruct (tl_contains tl_ActivityTypes _).
    { destruct (cast_ok KActivity k); [apply activity_equals_mism|exact Hb]. }
    destruct (tl_contains tl_ActorTypes _).
    { destruct (cast_ok KActor k); [apply actor_equals_mism|exact Hb]. }
    destruct (is_collection_m _); [|exact Hb].
    destruct (bytes_eqb _ _).
    { destruct (cast_ok KCollection k); [apply collection_equals_mism|exact Hb]. }
    destruct (bytes_eqb _ _).
    { destruct (cast_ok KOrdered k); [apply ordered_equals_mism|exact Hb]. }
    destruct (bytes_eqb _ _).
    { destruct (cast_ok KCollectionPage k); [apply page_equals_mism|exact Hb]. }
    destruct (bytes_eqb _ _).
    { destruct (cast_ok KOrderedPage k); [apply opage_equals_mism|exact Hb]. }
    exact Hb.
  Qed.
End Mism.

Lemma body_objects_noswap rec p k fs q k' gs :
  k <> KLink -> needs_swap (IObj p k fs) (IObj q k' gs) = false ->
  items_equal_body cfg_fixed rec (IObj p k fs) (IObj q k' gs) =
  object_branch cfg_fixed rec (IObj p k fs) (IObj q k' gs).
Proof.
  intros Hk Hs. unfold items_equal_body. cbn [is_nil orb]. rewrite Hs. cbn [is_iri orb is_item_collection].
  replace (is_object (IObj p k fs)) with true by (destruct k; try reflexivity; congruence). reflexivity.
Qed.

Lemma ieq_mism p k fs q k' gs :
  k <> KLink -> k' <> KLink -> mism fs gs -> ieq (IObj p k fs) (IObj q k' gs) = Ok false.
Proof.
  intros Hk Hk' M. rewrite ieq_unfold.
  destruct (needs_swap (IObj p k fs) (IObj q k' gs)) eqn:Hs.
  - unfold items_equal_body. cbn [is_nil orb]. rewrite Hs.
    rewrite ieq_unfold, body_objects_noswap; [|exact Hk'|apply swap_once; exact Hs].
    apply object_branch_mism. intros. apply object_equals_mism. apply mism_sym. exact M.
  - rewrite body_objects_noswap; auto. apply object_branch_mism. intros. apply object_equals_mism. exact M.
Qed.

(* ---------------------------------------------------------------- the Equals methods on a nil argument *)
Lemma equals_method_nil k fs w o :
  is_nil w = true -> equals_method cfg_fixed ieq k fs w = Some o -> o = Ok false.
Proof.
  intros Hn. destruct k; simpl; intro H; inversion H; subst; clear H;
    unfold object_equals, intransitive_equals, activity_equals, actor_equals, collection_equals,
      page_equals, ordered_equals, opage_equals, link_equals, nil_guard; rewrite Hn; reflexivity.
Qed.

(* ---------------------------------------------------------------- sensitivity to one compared property *)
Lemma all_cmp_false cs c fs gs :
  In c cs -> cmp_one cfg_fixed ieq c fs gs = Ok false -> all_cmp cfg_fixed ieq cs fs gs = Ok false.
Proof.
  induction cs as [|d r IH]; [intros []|]. intros Hin Hc. simpl.
  destruct (cmp_one_total ieq ieq_total d fs gs) as [b Hb]. rewrite Hb. cbn [obind].
  destruct b; [|reflexivity]. destruct Hin as [->|Hin]; [congruence|]. apply IH; auto.
Qed.

Lemma needs_swap_same_type p k fs q k' gs :
  get_str F_Type fs = get_str F_Type gs -> needs_swap (IObj p k fs) (IObj q k' gs) = false.
Proof.
  intro H. unfold needs_swap. cbn [is_iri andb]. unfold typ. cbn [get_type]. rewrite H.
  destruct (tl_contains tl_ObjectTypes (get_str F_Type gs)); reflexivity.
Qed.

Lemma object_equals_block_false c fs gs p k :
  In c object_cmps -> cmp_one cfg_fixed ieq c fs gs = Ok false ->
  object_equals cfg_fixed ieq fs (IObj p k gs) = Ok false.
Proof.
  intros Hin Hc. unfold object_equals. rewrite nil_guard_obj. cbn [is_item_collection].
  destruct (negb _); [reflexivity|]. destruct (negb _); [reflexivity|].
  unfold as_kind. destruct (cast_ok KObject k); [|reflexivity]. eapply all_cmp_false; eauto.
Qed.

(* a rejecting block of the object core: any non-link struct, in the order (receiver, holder) *)
Lemma ieq_core_block_false c p k fs q k' gs :
  k <> KLink -> get_str F_Type fs = get_str F_Type gs ->
  In c object_cmps -> cmp_one cfg_fixed ieq c fs gs = Ok false ->
  ieq (IObj p k fs) (IObj q k' gs) = Ok false.
Proof.
  intros Hk Ht Hin Hc. rewrite ieq_unfold, body_objects_noswap; auto using needs_swap_same_type.
  apply object_branch_mism. intros. eapply object_equals_block_false; eauto.
Qed.

(* a rejecting block among actor/target/result/origin/instrument/object of a transitive activity *)
Lemma ieq_activity_block_false c p fs q gs :
  get_str F_Type fs = get_str F_Type gs -> tl_contains tl_ActivityTypes (get_str F_Type gs) = true ->
  In c (intransitive_cmps ++ activity_cmps) -> cmp_one cfg_fixed ieq c fs gs = Ok false ->
  ieq (IObj p KActivity fs) (IObj q KActivity gs) = Ok false.
Proof.
  intros Ht Ha Hin Hc.
  rewrite ieq_unfold, body_objects_noswap; [|discriminate|auto using needs_swap_same_type].
  unfold object_branch. cbn [fields_of].
  unfold typ. cbn [get_type]. rewrite Ha. unfold as_kind. cbn [cast_ok].
  unfold activity_equals. rewrite nil_guard_obj. unfold as_kind. cbn [cast_ok].
  unfold intransitive_equals. rewrite nil_guard_obj. unfold as_kind. cbn [cast_ok].
  destruct (object_equals_total ieq ieq_total fs (IObj true KIntransitive gs)) as [r1 ->]. cbn [obind].
  apply in_app_or in Hin. destruct Hin as [Hin|Hin].
  - rewrite (all_cmp_false _ _ _ _ Hin Hc). cbn [obind]. rewrite andb_false_r.
    apply obind_false_total. apply all_cmp_total. exact ieq_total.
  - destruct (all_cmp_total ieq ieq_total intransitive_cmps fs gs) as [r2 ->]. cbn [obind].
    rewrite (all_cmp_false _ _ _ _ Hin Hc). cbn [obind]. rewrite andb_false_r. reflexivity.
Qed.

(* when a block rejects: the property is set in the second argument and differs *)
Lemma cmp_item_rejects f fs gs :
  get_item f gs <> INil -> ieq (get_item f fs) (get_item f gs) = Ok false ->
  cmp_one cfg_fixed ieq (CItem f) fs gs = Ok false.
Proof. intros Hn He. simpl. destruct (get_item f gs); try congruence; exact He. Qed.

Lemma cmp_items_rejects f fs gs l :
  get_items f gs = Some l -> ieq (IItems false (get_items f fs)) (IItems false (Some l)) = Ok false ->
  cmp_one cfg_fixed ieq (CItems f) fs gs = Ok false.
Proof. intros Hn He. simpl. rewrite Hn. exact He. Qed.

Lemma cmp_nlv_rejects f fs gs :
  nl_of (get_nlv f gs) <> [] -> nl_equals (nl_of (get_nlv f gs)) (nl_of (get_nlv f fs)) = false ->
  cmp_one cfg_fixed ieq (CNlv f) fs gs = Ok false.
Proof. intros Hn He. simpl. destruct (nl_of (get_nlv f gs)); [congruence|]. rewrite He. reflexivity. Qed.

Lemma cmp_time_rejects f fs gs :
  vtime_is_zero (get_time f gs) = false -> time_equal (get_time f gs) (get_time f fs) = false ->
  cmp_one cfg_fixed ieq (CTime f) fs gs = Ok false.
Proof. intros Hn He. simpl. rewrite Hn, He. reflexivity. Qed.

Lemma cmp_dur_rejects f fs gs :
  get_dur f gs <> 0%Z -> get_dur f gs <> get_dur f fs -> cmp_one cfg_fixed ieq (CDur f) fs gs = Ok false.
Proof.
  intros Hn He. simpl. apply Z.eqb_neq in Hn. apply Z.eqb_neq in He. rewrite Hn, He. reflexivity.
Qed.

(* url: sensitive like every other item-valued property - whenever ItemsEqual tells the two values apart; the
   property counts as set when it is not nil-like (its guard is IsNil, where the siblings have != nil) *)
Lemma cmp_url_rejects fs gs :
  is_nil (get_item F_URL gs) = false ->
  ieq (get_item F_URL fs) (get_item F_URL gs) = Ok false ->
  cmp_one cfg_fixed ieq CUrl fs gs = Ok false.
Proof. intros Hn He. simpl. fixed_cfg. rewrite Hn. exact He. Qed.

(* ItemsEqual on two IRIs, on an unset and a set property *)
Lemma ieq_iris p a q b : is_nil (IIri p a) = false -> is_nil (IIri q b) = false ->
  ieq (IIri p a) (IIri q b) = Ok (ideq a b false).
Proof.
  intros Ha Hb. rewrite ieq_unfold. unfold items_equal_body. rewrite Ha, Hb. cbn [orb].
  unfold needs_swap. cbn [is_iri negb andb]. unfold typ. cbn [get_type]. rewrite iri_not_object_type.
  reflexivity.
Qed.

Lemma ieq_ids_differ p k fs q k' gs :
  k <> KLink -> k' <> KLink -> ideq (get_str F_ID fs) (get_str F_ID gs) true = false ->
  ieq (IObj p k fs) (IObj q k' gs) = Ok false /\ ieq (IObj q k' gs) (IObj p k fs) = Ok false.
Proof.
  intros Hk Hk' H. split; apply ieq_mism; auto; [left; exact H|left; rewrite ideq_sym; exact H].
Qed.

Lemma ieq_types_differ p k fs q k' gs :
  k <> KLink -> k' <> KLink -> fold_eqb (get_str F_Type fs) (get_str F_Type gs) = false ->
  ieq (IObj p k fs) (IObj q k' gs) = Ok false /\ ieq (IObj q k' gs) (IObj p k fs) = Ok false.
Proof.
  intros Hk Hk' H. split; apply ieq_mism; auto; [right; exact H|right; rewrite fold_eqb_sym; exact H].
Qed.

End IdRel.
End EqGP.

Notation need := EqGP.need.
Notation clamp := EqGP.clamp.
Notation mism := (EqGP.mism iri_eqb).
(* ---- the instance with [iri_eqb]: every name as it was, by instantiation of the generic lemma ---- *)
Ltac inst L :=
  first [ exact (L iri_eqb iri_eqb_refl iri_eqb_sym) | exact (L iri_eqb iri_eqb_refl) | exact (L iri_eqb iri_eqb_sym)
        | exact (L iri_eqb) | exact L ].
Definition contains_ext := ltac:(inst EqGP.contains_ext).
Definition all_contained_ext := ltac:(inst EqGP.all_contained_ext).
Definition find_unused_ext := ltac:(inst EqGP.find_unused_ext).
Definition all_matched_ext := ltac:(inst EqGP.all_matched_ext).
Definition itemcoll_ext := ltac:(inst EqGP.itemcoll_ext).
Definition cmp_one_ext := ltac:(inst EqGP.cmp_one_ext).
Definition all_cmp_ext := ltac:(inst EqGP.all_cmp_ext).
Definition object_equals_ext := ltac:(inst EqGP.object_equals_ext).
Definition intransitive_equals_ext := ltac:(inst EqGP.intransitive_equals_ext).
Definition activity_equals_ext := ltac:(inst EqGP.activity_equals_ext).
Definition actor_equals_ext := ltac:(inst EqGP.actor_equals_ext).
Definition agree_comm := ltac:(inst EqGP.agree_comm).
Definition collection_equals_ext := ltac:(inst EqGP.collection_equals_ext).
Definition page_equals_ext := ltac:(inst EqGP.page_equals_ext).
Definition ordered_equals_ext := ltac:(inst EqGP.ordered_equals_ext).
Definition opage_equals_ext := ltac:(inst EqGP.opage_equals_ext).
Definition link_equals_ext := ltac:(inst EqGP.link_equals_ext).
Definition object_branch_ext := ltac:(inst EqGP.object_branch_ext).
Definition body_ext := ltac:(inst EqGP.body_ext).
Definition contains_total := ltac:(inst EqGP.contains_total).
Definition all_contained_total := ltac:(inst EqGP.all_contained_total).
Definition find_unused_total := ltac:(inst EqGP.find_unused_total).
Definition all_matched_total := ltac:(inst EqGP.all_matched_total).
Definition itemcoll_total := ltac:(inst EqGP.itemcoll_total).
Definition cmp_one_total := ltac:(inst EqGP.cmp_one_total).
Definition all_cmp_total := ltac:(inst EqGP.all_cmp_total).
Definition nil_guard_total := ltac:(inst EqGP.nil_guard_total).
Definition object_equals_total := ltac:(inst EqGP.object_equals_total).
Definition intransitive_equals_total := ltac:(inst EqGP.intransitive_equals_total).
Definition activity_equals_total := ltac:(inst EqGP.activity_equals_total).
Definition actor_equals_total := ltac:(inst EqGP.actor_equals_total).
Definition collection_equals_total := ltac:(inst EqGP.collection_equals_total).
Definition page_equals_total := ltac:(inst EqGP.page_equals_total).
Definition ordered_equals_total := ltac:(inst EqGP.ordered_equals_total).
Definition opage_equals_total := ltac:(inst EqGP.opage_equals_total).
Definition link_equals_total := ltac:(inst EqGP.link_equals_total).
Definition object_branch_total := ltac:(inst EqGP.object_branch_total).
Definition body_total := ltac:(inst EqGP.body_total).
Definition iri_not_object_type := ltac:(inst EqGP.iri_not_object_type).
Definition typ_iri := ltac:(inst EqGP.typ_iri).
Definition swap_once := ltac:(inst EqGP.swap_once).
Definition needs_swap_refl := ltac:(inst EqGP.needs_swap_refl).
Definition swaps_once := ltac:(inst EqGP.swaps_once).
Definition body_swaps := ltac:(inst EqGP.body_swaps).
Definition c_member_fixed := ltac:(inst EqGP.c_member_fixed).
Definition items_equal_S := ltac:(inst EqGP.items_equal_S).
Definition fuel_main := ltac:(inst EqGP.fuel_main).
Definition ieq_unfold := ltac:(inst EqGP.ieq_unfold).
Definition ieq_total := ltac:(inst EqGP.ieq_total).
Definition fuel_enough := ltac:(inst EqGP.fuel_enough).
Definition items_equal_terminates := ltac:(inst EqGP.items_equal_terminates).
Definition ieq_no_panic := ltac:(inst EqGP.ieq_no_panic).
Definition ieq_nil := ltac:(inst EqGP.ieq_nil).
Definition nl_equals_refl := ltac:(inst EqGP.nl_equals_refl).
Definition contains_refl := ltac:(inst EqGP.contains_refl).
Definition all_contained_refl := ltac:(inst EqGP.all_contained_refl).
Notation unused := EqGP.unused.
Definition unused_fresh := ltac:(inst EqGP.unused_fresh).
Definition find_unused_removal := ltac:(inst EqGP.find_unused_removal).
Definition all_matched_removal := ltac:(inst EqGP.all_matched_removal).
Definition all_matched_fresh := ltac:(inst EqGP.all_matched_fresh).
Definition all_removed_pointwise := ltac:(inst EqGP.all_removed_pointwise).
Definition all_matched_refl := ltac:(inst EqGP.all_matched_refl).
Definition itemcoll_refl := ltac:(inst EqGP.itemcoll_refl).
Definition cmp_one_refl := ltac:(inst EqGP.cmp_one_refl).
Definition all_cmp_refl := ltac:(inst EqGP.all_cmp_refl).
Definition nil_guard_obj := ltac:(inst EqGP.nil_guard_obj).
Definition object_equals_refl := ltac:(inst EqGP.object_equals_refl).
Definition intransitive_equals_refl := ltac:(inst EqGP.intransitive_equals_refl).
Definition activity_equals_refl := ltac:(inst EqGP.activity_equals_refl).
Definition actor_equals_refl := ltac:(inst EqGP.actor_equals_refl).
Definition collection_equals_refl := ltac:(inst EqGP.collection_equals_refl).
Definition page_equals_refl := ltac:(inst EqGP.page_equals_refl).
Definition ordered_equals_refl := ltac:(inst EqGP.ordered_equals_refl).
Definition opage_equals_refl := ltac:(inst EqGP.opage_equals_refl).
Definition link_equals_refl := ltac:(inst EqGP.link_equals_refl).
Definition object_branch_refl := ltac:(inst EqGP.object_branch_refl).
Definition ieq_refl_size := ltac:(inst EqGP.ieq_refl_size).
Definition ieq_refl := ltac:(inst EqGP.ieq_refl).
Definition mism_sym := ltac:(inst EqGP.mism_sym).
Definition obind_false_total := ltac:(inst EqGP.obind_false_total).
Definition object_equals_mism := ltac:(inst EqGP.object_equals_mism).
Definition intransitive_equals_mism := ltac:(inst EqGP.intransitive_equals_mism).
Definition activity_equals_mism := ltac:(inst EqGP.activity_equals_mism).
Definition actor_equals_mism := ltac:(inst EqGP.actor_equals_mism).
Definition collection_equals_mism := ltac:(inst EqGP.collection_equals_mism).
Definition page_equals_mism := ltac:(inst EqGP.page_equals_mism).
Definition ordered_equals_mism := ltac:(inst EqGP.ordered_equals_mism).
Definition opage_equals_mism := ltac:(inst EqGP.opage_equals_mism).
Definition object_branch_mism := ltac:(inst EqGP.object_branch_mism).
Definition body_objects_noswap := ltac:(inst EqGP.body_objects_noswap).
Definition ieq_mism := ltac:(inst EqGP.ieq_mism).
Definition equals_method_nil := ltac:(inst EqGP.equals_method_nil).
Definition all_cmp_false := ltac:(inst EqGP.all_cmp_false).
Definition needs_swap_same_type := ltac:(inst EqGP.needs_swap_same_type).
Definition object_equals_block_false := ltac:(inst EqGP.object_equals_block_false).
Definition ieq_core_block_false := ltac:(inst EqGP.ieq_core_block_false).
Definition ieq_activity_block_false := ltac:(inst EqGP.ieq_activity_block_false).
Definition cmp_item_rejects := ltac:(inst EqGP.cmp_item_rejects).
Definition cmp_items_rejects := ltac:(inst EqGP.cmp_items_rejects).
Definition cmp_nlv_rejects := ltac:(inst EqGP.cmp_nlv_rejects).
Definition cmp_time_rejects := ltac:(inst EqGP.cmp_time_rejects).
Definition cmp_dur_rejects := ltac:(inst EqGP.cmp_dur_rejects).
Definition cmp_url_rejects := ltac:(inst EqGP.cmp_url_rejects).
Definition ieq_iris := ltac:(inst EqGP.ieq_iris).
Definition ieq_ids_differ := ltac:(inst EqGP.ieq_ids_differ).
Definition ieq_types_differ := ltac:(inst EqGP.ieq_types_differ).

(* the compared-property table covers the object core of the generated layout, except the four
   properties the property text excludes or treats separately (id, type, mediaType, source) *)
From AP.Model Require Layout.
From AP.Gen Require Layout.
Definition cmp_fid (c : cmp) : option fid :=
  match c with
  | CNlv f | CNlvSet f | CItem f | CItems f | CTime f | CDur f | CUint f | CStr f | CIri f => Some f
  | CUrl => Some F_URL
  | CCollItems | COrdItems => None
  end.
Definition core_fids : list fid :=
  filter (fun f => negb (fid_beq f F_ID || fid_beq f F_Type || fid_beq f F_MediaType || fid_beq f F_Source))
         (map AP.Model.Layout.fd_fid (AP.Gen.Layout.layout_of KObject)).
Definition fid_in (f : fid) (l : list fid) : bool := existsb (fid_beq f) l.
Definition cmps_fids (cs : list cmp) : list fid :=
  flat_map (fun c => match cmp_fid c with Some f => [f] | None => [] end) cs.
Lemma core_table_covers_layout :
  forallb (fun f => fid_in f (cmps_fids object_cmps)) core_fids = true /\
  forallb (fun f => fid_in f core_fids) (cmps_fids object_cmps) = true /\
  length core_fids = 27.
Proof. vm_compute. repeat split. Qed.

(* cast table: every cast site the translator found in the To* functions is allowed by cast_ok *)
From AP.Gen Require Casts.
Definition cast_target (fn : bytes) : option kind :=
  if bytes_eqb fn (B "ToObject") then Some KObject
  else if bytes_eqb fn (B "ToIntransitiveActivity") then Some KIntransitive
  else if bytes_eqb fn (B "ToCollection") then Some KCollection
  else if bytes_eqb fn (B "ToCollectionPage") then Some KCollectionPage
  else if bytes_eqb fn (B "ToOrderedCollection") then Some KOrdered
  else if bytes_eqb fn (B "ToOrderedCollectionPage") then Some KOrderedPage
  else None.
Definition cast_site_ok (c : AP.Model.Layout.cast_site) : bool :=
  match cast_target (AP.Model.Layout.cs_func c), AP.Model.Layout.cs_src c with
  | Some t, AP.Model.Layout.CK k => cast_ok t k
  | _, _ => true
  end.
(* and conversely: every non-identity pair cast_ok allows for these targets is a cast site *)
Definition has_site (t k : kind) : bool :=
  existsb (fun c => match cast_target (AP.Model.Layout.cs_func c), AP.Model.Layout.cs_src c with
                    | Some t', AP.Model.Layout.CK k' => kind_beq t t' && kind_beq k k'
                    | _, _ => false
                    end) AP.Gen.Casts.casts.
Lemma cast_table_matches_gen :
  forallb cast_site_ok AP.Gen.Casts.casts = true /\
  forallb (fun t => forallb (fun k => implb (cast_ok t k && negb (kind_beq t k)) (has_site t k)) all_kinds)
          [KObject; KIntransitive; KCollection; KCollectionPage; KOrdered; KOrderedPage] = true.
Proof. vm_compute. split; reflexivity. Qed.
