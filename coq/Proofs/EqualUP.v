(* C09 over the wide model of IRI.Equals (Model/EqualU.v, builder b47): every lemma of Proofs/EqualP.v is generic in
   the IRI comparison (module EqGP; it uses reflexivity and symmetry only) and is instantiated here with [iri_equ];
   the identity clause comes from C14's characterisation on the wide domain (Proofs/IriUP.v). *)
From AP.Model Require Import Prelude Vocab Pred Url IriEq IriNf Nlv Equal Fold UrlU IriEqU EqualU.
From AP.Gen Require Import TypeLists.
From AP.Proofs Require Import NlvP IriEqP EqualP IriUP.

Ltac inst_u L :=
  first [ solve [apply (L iri_equ iri_equ_refl iri_equ_sym)] | solve [apply (L iri_equ iri_equ_refl)]
        | solve [apply (L iri_equ iri_equ_sym)] | solve [apply (L iri_equ)] ].

Lemma ieq_u_unfold x y : ieq_u x y = items_equal_body_u cfg_fixed ieq_u x y.
Proof. inst_u EqGP.ieq_unfold. Qed.
Lemma fuel_enough_u x y k : fuel_for x y <= k -> items_equal_u k x y = ieq_u x y.
Proof. inst_u EqGP.fuel_enough. Qed.
Lemma items_equal_u_terminates x y :
  exists n, forall m, n <= m -> items_equal_u m x y = items_equal_u n x y /\ items_equal_u n x y <> OutOfFuel.
Proof. inst_u EqGP.items_equal_terminates. Qed.
Lemma ieq_u_no_panic x y : exists b, ieq_u x y = Ok b.
Proof. inst_u EqGP.ieq_no_panic. Qed.
Lemma ieq_u_refl x : ieq_u x x = Ok true.
Proof. inst_u EqGP.ieq_refl. Qed.
Lemma ieq_u_nil x y : is_nil x = true ->
  (is_nil y = true -> ieq_u x y = Ok true) /\
  (is_nil y = false -> ieq_u x y = Ok false /\ ieq_u y x = Ok false).
Proof. inst_u EqGP.ieq_nil. Qed.
Lemma equals_method_u_nil k fs w o :
  is_nil w = true -> equals_method_u cfg_fixed ieq_u k fs w = Some o -> o = Ok false.
Proof. inst_u EqGP.equals_method_nil. Qed.

(* arbitrary id strings: ids that IRI.Equals (with scheme) tells apart *)
Lemma ieq_u_ids_differ p k fs q k' gs :
  k <> KLink -> k' <> KLink -> iri_equ (get_str F_ID fs) (get_str F_ID gs) true = false ->
  ieq_u (IObj p k fs) (IObj q k' gs) = Ok false /\ ieq_u (IObj q k' gs) (IObj p k fs) = Ok false.
Proof. inst_u EqGP.ieq_ids_differ. Qed.
Lemma ieq_u_types_differ p k fs q k' gs :
  k <> KLink -> k' <> KLink -> fold_eqb (get_str F_Type fs) (get_str F_Type gs) = false ->
  ieq_u (IObj p k fs) (IObj q k' gs) = Ok false /\ ieq_u (IObj q k' gs) (IObj p k fs) = Ok false.
Proof. inst_u EqGP.ieq_types_differ. Qed.

(* the identity clause on the wide domain: every byte string url.Parse gives a scheme and a host, query in one letter
   case - percent-escapes, userinfo, IP literals with zone and port, bytes >= 0x80 valid UTF-8 or not *)
Lemma ieq_u_ids_differ_hpq p k fs q k' gs :
  k <> KLink -> k' <> KLink ->
  iri_dom_u (get_str F_ID fs) = true -> iri_dom_u (get_str F_ID gs) = true ->
  ids_differ_hpq_u (get_str F_ID fs) (get_str F_ID gs) = true ->
  ieq_u (IObj p k fs) (IObj q k' gs) = Ok false /\ ieq_u (IObj q k' gs) (IObj p k fs) = Ok false.
Proof.
  intros Hk Hk' Da Db Hd. apply ieq_u_ids_differ; auto. apply iri_equ_differ; auto.
  unfold ids_differ_hpq_u in Hd. apply negb_true_iff in Hd. exact Hd.
Qed.

(* host or cleaned path differ beyond the folding: never equal, whatever the queries (any two ids with scheme and host) *)
Lemma ieq_u_ids_differ_host_path p k fs q k' gs u w :
  k <> KLink -> k' <> KLink ->
  url_classify_u (get_str F_ID fs) = UValid u -> url_classify_u (get_str F_ID gs) = UValid w ->
  scanon (u_host u) <> scanon (u_host w) \/
  scanon (clean_url_path path_clean (u_path u)) <> scanon (clean_url_path path_clean (u_path w)) ->
  ieq_u (IObj p k fs) (IObj q k' gs) = Ok false /\ ieq_u (IObj q k' gs) (IObj p k fs) = Ok false.
Proof.
  intros Hk Hk' Ha Hb Hd. apply ieq_u_ids_differ; auto.
  destruct (iri_equ _ _ true) eqn:E; [|reflexivity].
  destruct (iri_equ_true_parts _ _ true u w Ha Hb E) as [_ [Hh Hp]]. destruct Hd; contradiction.
Qed.

(* sensitivity *)
Lemma ieq_u_core_block_false c p k fs q k' gs :
  k <> KLink -> get_str F_Type fs = get_str F_Type gs ->
  In c object_cmps -> cmp_one_u cfg_fixed ieq_u c fs gs = Ok false ->
  ieq_u (IObj p k fs) (IObj q k' gs) = Ok false.
Proof. inst_u EqGP.ieq_core_block_false. Qed.
Lemma ieq_u_activity_block_false c p fs q gs :
  get_str F_Type fs = get_str F_Type gs -> tl_contains tl_ActivityTypes (get_str F_Type gs) = true ->
  In c (intransitive_cmps ++ activity_cmps) -> cmp_one_u cfg_fixed ieq_u c fs gs = Ok false ->
  ieq_u (IObj p KActivity fs) (IObj q KActivity gs) = Ok false.
Proof. inst_u EqGP.ieq_activity_block_false. Qed.
Lemma cmp_u_item_rejects f fs gs :
  get_item f gs <> INil -> ieq_u (get_item f fs) (get_item f gs) = Ok false ->
  cmp_one_u cfg_fixed ieq_u (CItem f) fs gs = Ok false.
Proof. inst_u EqGP.cmp_item_rejects. Qed.
Lemma cmp_u_items_rejects f fs gs l :
  get_items f gs = Some l -> ieq_u (IItems false (get_items f fs)) (IItems false (Some l)) = Ok false ->
  cmp_one_u cfg_fixed ieq_u (CItems f) fs gs = Ok false.
Proof. inst_u EqGP.cmp_items_rejects. Qed.
Lemma cmp_u_url_rejects fs gs :
  is_nil (get_item F_URL gs) = false -> ieq_u (get_item F_URL fs) (get_item F_URL gs) = Ok false ->
  cmp_one_u cfg_fixed ieq_u CUrl fs gs = Ok false.
Proof. inst_u EqGP.cmp_url_rejects. Qed.
Lemma ieq_u_iris p a q b : is_nil (IIri p a) = false -> is_nil (IIri q b) = false ->
  ieq_u (IIri p a) (IIri q b) = Ok (iri_equ a b false).
Proof. inst_u EqGP.ieq_iris. Qed.

(* IRIs, and IRI against object, on the wide domain: equal exactly when the normal forms without scheme agree *)
Lemma ieq_u_iris_nf p a q b : is_nil (IIri p a) = false -> is_nil (IIri q b) = false ->
  iri_dom_u a = true -> iri_dom_u b = true ->
  ieq_u (IIri p a) (IIri q b) = Ok (nf_u_eqb (nf_u false a) (nf_u false b)).
Proof. intros Ha Hb Da Db. rewrite ieq_u_iris by assumption. rewrite iri_equ_nf by assumption. reflexivity. Qed.
