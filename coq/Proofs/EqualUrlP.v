(* url in Object.Equals after the fix "Object.Equals compared url by GetLink() only": the block is ItemsEqual under
   an IsNil guard.  Here: the statement C09 had for the OLD comparison (the block rejects when the url of the first
   argument is unset or the LINKS of the two urls differ) still holds - it is a corollary of the full-strength
   statement (cmp_url_rejects, Proofs/EqualP.v), because ItemsEqual tells apart any two non-nil items whose links
   differ.  That needs: IRI.Equals with the scheme compared is finer than without ([strict_loose]).
   Generic in the IRI comparison (module EqUrlGP, like EqGP of Proofs/EqualP.v); [strict_loose] is PROVED for the
   comparison over the plain URL grammar (iri_eqb_strict_loose) and the lemmas are instantiated with it below; for
   the wide comparison iri_equ it is proved in Proofs/StrictLooseUP.v (iri_equ_strict_loose, builder b56) and the
   hypothesis-free instances are in Proofs/EqualUrlUP.v (C09_block_url_links_u); the two _partial lemmas at the end of
   this file are kept for reference. *)
From AP.Model Require Import Prelude Bytes Vocab Pred Url IriEq Nlv Equal.
From AP.Gen Require Import TypeLists.
From AP.Proofs Require Import NlvP IriEqP LowerP EqualP.

(* ---------------------------------------------------------------- IRI.Equals over the plain grammar: strict implies loose *)
Lemma scheme_sep_delims : delims (B "://") = true.
Proof. reflexivity. Qed.

Lemma strip_scheme_lower x : lower (strip_scheme x) = strip_scheme (lower x).
Proof.
  unfold strip_scheme. rewrite (index_lower (B "://") x scheme_sep_delims).
  destruct (index (B "://") x); [apply lower_skipn|reflexivity].
Qed.

Lemma strip_scheme_fold x y : fold_eqb x y = true -> fold_eqb (strip_scheme x) (strip_scheme y) = true.
Proof.
  intro H. apply fold_eqb_eq in H. apply fold_eqb_eq. rewrite !strip_scheme_lower, H. reflexivity.
Qed.

Lemma iris_equal_strict_loose a b :
  iris_equal url_classify query_values values_eq (paths_equal path_clean) a b true = Some true ->
  iris_equal url_classify query_values values_eq (paths_equal path_clean) a b false = Some true.
Proof.
  unfold iris_equal. destruct (url_classify a) as [u| |]; destruct (url_classify b) as [w| |]; try (intro H; exact H).
  destruct (fold_eqb (u_scheme u) (u_scheme w)); [intro H; exact H|discriminate].
Qed.

Lemma iri_eqb_strict_loose a b : iri_eqb a b true = true -> iri_eqb a b false = true.
Proof.
  unfold iri_eqb, iri_equals_m, iri_equals.
  destruct (fold_eqb (strip_fragment a) (strip_fragment b)) eqn:F.
  - intros _. rewrite (strip_scheme_fold _ _ F). reflexivity.
  - destruct (iris_equal _ _ _ _ a b true) as [[|]|] eqn:E; try discriminate. intros _.
    rewrite (iris_equal_strict_loose a b E).
    destruct (fold_eqb (strip_scheme (strip_fragment a)) (strip_scheme (strip_fragment b))); reflexivity.
Qed.

Lemma list_type_not_activity :
  tl_contains tl_ActivityTypes collection_of_items = false /\ tl_contains tl_ActorTypes collection_of_items = false /\
  tl_contains tl_ActivityTypes collection_of_iris = false /\ tl_contains tl_ActorTypes collection_of_iris = false.
Proof. vm_compute. repeat split. Qed.

(* ---------------------------------------------------------------- items whose links differ are never equal *)
Module EqUrlGP.
Section IdRel.
  Variable ideq : bytes -> bytes -> bool -> bool.
  Hypothesis ideq_refl : forall s cs, ideq s s cs = true.
  Hypothesis ideq_sym : forall a b cs, ideq a b cs = ideq b a cs.
  Hypothesis strict_loose : forall a b, ideq a b true = true -> ideq a b false = true.
  Local Notation cmp_one := (EqG.cmp_one ideq).
  Local Notation object_equals := (EqG.object_equals ideq).
  Local Notation collection_equals := (EqG.collection_equals ideq).
  Local Notation page_equals := (EqG.page_equals ideq).
  Local Notation ordered_equals := (EqG.ordered_equals ideq).
  Local Notation opage_equals := (EqG.opage_equals ideq).
  Local Notation link_equals := (EqG.link_equals ideq).
  Local Notation object_branch := (EqG.object_branch ideq).
  Local Notation items_equal_body := (EqG.items_equal_body ideq).
  Local Notation ieq := (EqGI.ieq ideq).

  Ltac gi L :=
    first [ exact (L ideq ideq_refl ideq_sym) | exact (L ideq ideq_refl) | exact (L ideq ideq_sym) | exact (L ideq) | exact L ].
  Let ieq_unfold := ltac:(gi EqGP.ieq_unfold).
  Let ieq_nil := ltac:(gi EqGP.ieq_nil).
  Let swap_once := ltac:(gi EqGP.swap_once).
  Let object_branch_mism := ltac:(gi EqGP.object_branch_mism).
  Let object_equals_mism := ltac:(gi EqGP.object_equals_mism).
  Let cmp_url_rejects := ltac:(gi EqGP.cmp_url_rejects).

  Lemma loose_strict_false a b : ideq a b false = false -> ideq a b true = false.
  Proof.
    intro H. destruct (ideq a b true) eqn:E; [|reflexivity]. apply strict_loose in E. congruence.
  Qed.

  (* the object branch against a non-nil list: every Equals method refuses a list *)
  Lemma object_branch_list p k fs w :
    is_item_collection w = true -> is_nil w = false ->
    object_branch cfg_fixed ieq (IObj p k fs) w = Ok false.
  Proof.
    intros Hc Hn.
    assert (OE : forall gs, object_equals cfg_fixed ieq gs w = Ok false).
    { intro gs. unfold EqG.object_equals, nil_guard. rewrite Hn, Hc. reflexivity. }
    assert (AK : forall t, as_kind t w = None) by (intro t; destruct w; try discriminate; reflexivity).
    assert (CM : is_collection_m w = true) by (destruct w; try discriminate; reflexivity).
    destruct list_type_not_activity as [A1 [A2 [A3 A4]]].
    assert (T1 : tl_contains tl_ActivityTypes (typ w) = false) by (destruct w; try discriminate; assumption).
    assert (T2 : tl_contains tl_ActorTypes (typ w) = false) by (destruct w; try discriminate; assumption).
    unfold EqG.object_branch. cbn [EqG.fields_of]. rewrite T1, T2.
    assert (C1 : forall gs, collection_equals cfg_fixed ieq gs w = Ok false).
    { intro gs. unfold EqG.collection_equals. rewrite Hn, CM, AK. reflexivity. }
    assert (C2 : forall gs, ordered_equals cfg_fixed ieq gs w = Ok false).
    { intro gs. unfold EqG.ordered_equals. rewrite Hn, CM, AK. reflexivity. }
    assert (C3 : forall gs, page_equals cfg_fixed ieq gs w = Ok false).
    { intro gs. unfold EqG.page_equals. rewrite Hn, CM, AK. reflexivity. }
    assert (C4 : forall gs, opage_equals cfg_fixed ieq gs w = Ok false).
    { intro gs. unfold EqG.opage_equals. rewrite Hn, CM, AK. reflexivity. }
    destruct (is_collection_m (IObj p k fs)); [|apply OE].
    repeat (destruct (bytes_eqb _ _); [destruct (as_kind _ _); auto|]). apply OE.
  Qed.

  Lemma body_noswap_links a b :
    is_nil a = false -> is_nil b = false -> needs_swap a b = false ->
    ideq (lnk a) (lnk b) false = false ->
    items_equal_body cfg_fixed ieq a b = Ok false.
  Proof.
    intros Ha Hb Hs Hl. unfold EqG.items_equal_body. rewrite Ha, Hb, Hs. cbn [orb].
    destruct (is_iri b || is_iri a) eqn:Ei; [rewrite Hl; reflexivity|].
    destruct (is_item_collection a) eqn:Ca.
    { destruct (is_item_collection b) eqn:Cb; [|reflexivity]. exfalso.
      assert (La : lnk a = []) by (destruct a; try discriminate; reflexivity).
      assert (Lb : lnk b = []) by (destruct b; try discriminate; reflexivity).
      rewrite La, Lb, ideq_refl in Hl. discriminate. }
    destruct (is_object a) eqn:Oa.
    { destruct a as [| |? ?|p k fs| |]; try discriminate.
      destruct (is_item_collection b) eqn:Cb; [apply object_branch_list; assumption|].
      destruct b as [| |q s|q k' gs| |]; try discriminate.
      apply object_branch_mism. intros p0 k0. apply object_equals_mism. left.
      apply loose_strict_false. exact Hl. }
    cbn [cfg_fixed c_link_branch andb]. destruct (is_link a) eqn:La; [|reflexivity].
    destruct a as [| |? ?|p k fs| |]; try discriminate. destruct k; try discriminate. cbn [EqG.fields_of].
    unfold EqG.link_equals. rewrite Hb. cbn [orb]. destruct (is_link b) eqn:Lb; [|reflexivity]. cbn [negb].
    destruct b as [| |? ?|q k' gs| |]; try discriminate. destruct k'; try discriminate.
    unfold as_kind. cbn [cast_ok]. unfold lnk in Hl. cbn [get_link] in Hl.
    rewrite (loose_strict_false _ _ Hl). reflexivity.
  Qed.

  Lemma ieq_links_differ x y :
    is_nil x = false -> is_nil y = false -> ideq (lnk y) (lnk x) false = false -> ieq x y = Ok false.
  Proof.
    intros Hx Hy Hl. rewrite ieq_unfold.
    destruct (needs_swap x y) eqn:Hs.
    - unfold EqG.items_equal_body. rewrite Hx, Hy, Hs. cbn [orb]. rewrite ieq_unfold.
      apply body_noswap_links; auto using swap_once.
    - apply body_noswap_links; auto. rewrite ideq_sym. exact Hl.
  Qed.

  (* the statement C09_block_url had before the fix, verbatim: now a corollary *)
  Lemma cmp_url_links_rejects fs gs :
    is_nil (get_item F_URL gs) = false ->
    (is_nil (get_item F_URL fs) = true \/
     ideq (lnk (get_item F_URL gs)) (lnk (get_item F_URL fs)) false = false) ->
    cmp_one cfg_fixed ieq CUrl fs gs = Ok false.
  Proof.
    intros Hn [He|He]; apply cmp_url_rejects; auto.
    - apply (proj2 (ieq_nil _ (get_item F_URL gs) He)). exact Hn.
    - destruct (is_nil (get_item F_URL fs)) eqn:Z.
      + apply (proj2 (ieq_nil _ (get_item F_URL gs) Z)). exact Hn.
      + apply ieq_links_differ; assumption.
  Qed.
End IdRel.
End EqUrlGP.

(* ---- the instance with [iri_eqb] ---- *)
Lemma iri_eqb_loose_strict_false a b : iri_eqb a b false = false -> iri_eqb a b true = false.
Proof. exact (EqUrlGP.loose_strict_false iri_eqb iri_eqb_strict_loose a b). Qed.

Lemma ieq_links_differ x y :
  is_nil x = false -> is_nil y = false -> iri_eqb (lnk y) (lnk x) false = false -> ieq x y = Ok false.
Proof. exact (EqUrlGP.ieq_links_differ iri_eqb iri_eqb_refl iri_eqb_sym iri_eqb_strict_loose x y). Qed.

Lemma cmp_url_links_rejects fs gs :
  is_nil (get_item F_URL gs) = false ->
  (is_nil (get_item F_URL fs) = true \/
   iri_eqb (lnk (get_item F_URL gs)) (lnk (get_item F_URL fs)) false = false) ->
  cmp_one cfg_fixed ieq CUrl fs gs = Ok false.
Proof. exact (EqUrlGP.cmp_url_links_rejects iri_eqb iri_eqb_refl iri_eqb_sym iri_eqb_strict_loose fs gs). Qed.

(* ---- the wide comparison iri_equ (Model/IriEqU.v): the same corollaries, with "strict implies loose" as a hypothesis.
   The hypothesis is a theorem since builder b56 (Proofs/StrictLooseUP.v: the argument on rune boundaries that LowerP's
   byte-wise one does not give); see Proofs/EqualUrlUP.v for ieq_u_links_differ / cmp_u_url_links_rejects without it. ---- *)
From AP.Model Require Import Fold UrlU IriEqU EqualU.
From AP.Proofs Require Import IriUP.

Lemma ieq_u_links_differ_partial :
  (forall a b, iri_equ a b true = true -> iri_equ a b false = true) ->
  forall x y, is_nil x = false -> is_nil y = false -> iri_equ (lnk y) (lnk x) false = false -> ieq_u x y = Ok false.
Proof. intro SL. exact (EqUrlGP.ieq_links_differ iri_equ iri_equ_refl iri_equ_sym SL). Qed.

Lemma cmp_u_url_links_rejects_partial :
  (forall a b, iri_equ a b true = true -> iri_equ a b false = true) ->
  forall fs gs, is_nil (get_item F_URL gs) = false ->
  (is_nil (get_item F_URL fs) = true \/
   iri_equ (lnk (get_item F_URL gs)) (lnk (get_item F_URL fs)) false = false) ->
  cmp_one_u cfg_fixed ieq_u CUrl fs gs = Ok false.
Proof. intro SL. exact (EqUrlGP.cmp_url_links_rejects iri_equ iri_equ_refl iri_equ_sym SL). Qed.
