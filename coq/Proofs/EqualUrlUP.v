(* url in Object.Equals on the WIDE instance (ItemsEqual over iri_equ, Model/EqualU.v): items whose LINKS differ are
   never equal, and the url block rejects them - with NO hypothesis on the comparison (builder b56).  Proofs/EqualUrlP.v
   proves both generically from "IRI.Equals with the scheme compared is finer than without" and had to keep that as a
   hypothesis for iri_equ (ieq_u_links_differ_partial, cmp_u_url_links_rejects_partial); Proofs/StrictLooseUP.v proves
   it for all byte strings (iri_equ_strict_loose). *)
From AP.Model Require Import Prelude Bytes Vocab Pred Url IriEq Nlv Equal Fold UrlU IriEqU EqualU.
From AP.Proofs Require Import NlvP IriEqP LowerP EqualP EqualUrlP IriUP StrictLooseUP.

Lemma ieq_u_links_differ x y :
  is_nil x = false -> is_nil y = false -> iri_equ (lnk y) (lnk x) false = false -> ieq_u x y = Ok false.
Proof. exact (EqUrlGP.ieq_links_differ iri_equ iri_equ_refl iri_equ_sym iri_equ_strict_loose x y). Qed.

Lemma cmp_u_url_links_rejects fs gs :
  is_nil (get_item F_URL gs) = false ->
  (is_nil (get_item F_URL fs) = true \/
   iri_equ (lnk (get_item F_URL gs)) (lnk (get_item F_URL fs)) false = false) ->
  cmp_one_u cfg_fixed ieq_u CUrl fs gs = Ok false.
Proof. exact (EqUrlGP.cmp_url_links_rejects iri_equ iri_equ_refl iri_equ_sym iri_equ_strict_loose fs gs). Qed.
