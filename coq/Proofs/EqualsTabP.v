(* The tie between the generated Equals tables (Gen/EqualsT.v) and the hand-written model (Model/Equal.v):
     1. interp_method rec model_shape = equals_method cfg_fixed rec        (the description IS the model)
     2. equals_table_ok tbl others = true -> equals_method_t tbl rec = equals_method cfg_fixed rec
   for all receivers, arguments and one-level-down comparisons [rec]. *)
From AP.Model Require Import Prelude Vocab Pred IriEq Nlv Layout Equal EqualsTab TabEq.
From AP.Proofs Require Import TabEqP.
From AP.Gen Require Import TypeLists.

(* ---------------------------------------------------------------- small facts *)

Lemma eshape_beq_eq a b : eshape_beq a b = true -> a = b.
Proof.
  destruct a as [g1 v1 s1], b as [g2 v2 s2]. unfold eshape_beq. simpl. intro H.
  apply andb_prop in H. destruct H as [H H3]. apply andb_prop in H. destruct H as [H1 H2].
  apply (lbeq_eq _ internal_eguard_dec_bl) in H1. apply internal_kind_dec_bl in H2.
  apply (lbeq_eq _ internal_cstep_dec_bl) in H3. subst. reflexivity.
Qed.
Lemma oshape_beq_eq a b : oshape_beq a b = true -> a = b.
Proof.
  destruct a as [x|], b as [y|]; simpl; try discriminate; [|reflexivity].
  intro H. f_equal. apply eshape_beq_eq. exact H.
Qed.

Lemma shapes_ok_spec tbl : equals_shapes_ok tbl = true -> forall k, table_shape tbl k = model_shape k.
Proof.
  unfold equals_shapes_ok. rewrite forallb_forall. intros H k. apply oshape_beq_eq. apply H. apply all_kinds_complete.
Qed.

(* GetLink / GetType of a non-nil item do not panic *)
Lemma get_link_nonnil w : is_nil w = false -> get_link w = Ok (lnk w).
Proof. destruct w; simpl; try discriminate; reflexivity. Qed.
Lemma get_type_nonnil w : is_nil w = false -> get_type w = Ok (typ w).
Proof. destruct w; simpl; try discriminate; reflexivity. Qed.

(* a value whose IsLink() method answers true does not convert to Object *)
Lemma with_is_link_not_object w : with_is_link_m w = true -> as_kind KObject w = None.
Proof. destruct w as [| | | ? k ? | |]; simpl; try discriminate; try reflexivity. destruct k; simpl; try discriminate; reflexivity. Qed.

(* From here on every lemma is GENERIC in the IRI comparison (builder b47; see Proofs/EqualP.v): inside the section the
   short names stand for the generic definitions (modules EqG, EtG) applied to [ideq]; after the module the same
   names are re-established for iri_eqb by instantiation. *)
Module EtGP.
Section IdRel.
  Variable ideq : bytes -> bytes -> bool -> bool.
  Local Notation cmp_one := (EqG.cmp_one ideq).
  Local Notation all_cmp := (EqG.all_cmp ideq).
  Local Notation object_equals := (EqG.object_equals ideq).
  Local Notation intransitive_equals := (EqG.intransitive_equals ideq).
  Local Notation activity_equals := (EqG.activity_equals ideq).
  Local Notation actor_equals := (EqG.actor_equals ideq).
  Local Notation collection_equals := (EqG.collection_equals ideq).
  Local Notation page_equals := (EqG.page_equals ideq).
  Local Notation ordered_equals := (EqG.ordered_equals ideq).
  Local Notation opage_equals := (EqG.opage_equals ideq).
  Local Notation link_equals := (EqG.link_equals ideq).
  Local Notation equals_method := (EqG.equals_method ideq).
  Local Notation guard_fires := (EtG.guard_fires ideq).
  Local Notation run_guards := (EtG.run_guards ideq).
  Local Notation run_csteps := (EtG.run_csteps ideq).
  Local Notation interp_with := (EtG.interp_with ideq).
  Local Notation interp_method := (EtG.interp_method ideq).
  Local Notation equals_method_t := (EtG.equals_method_t ideq).

(* ---------------------------------------------------------------- the interpreter is extensional *)
Section Ext.
  Variable rec : item -> item -> outcome bool.

  Lemma run_csteps_ext c1 c2 self view ss :
    (forall b o x, c1 b o x = c2 b o x) ->
    forall ofs wfs res, run_csteps rec c1 self view ss ofs wfs res = run_csteps rec c2 self view ss ofs wfs res.
  Proof.
    intro Hc. induction ss as [|s r IH]; intros ofs wfs res; [reflexivity|].
    destruct s; cbn [run_csteps].
    - destruct (cast_ok b self); [|apply IH]. rewrite Hc. destruct (c2 b ofs (IObj true view wfs)); try reflexivity. apply IH.
    - destruct (cast_ok b self); [|apply IH]. rewrite Hc. destruct (c2 b ofs (IObj true view wfs)); try reflexivity. apply IH.
    - destruct (ideq _ _ _); [apply IH|reflexivity].
    - destruct (fold_eqb _ _); [apply IH|reflexivity].
    - destruct (cmp_one cfg_fixed rec c ofs wfs) as [[|]| | |]; try reflexivity. apply IH.
  Qed.

  Lemma interp_with_ext l1 l2 : (forall k, l1 k = l2 k) ->
    forall n k ofs w, interp_with rec l1 n k ofs w = interp_with rec l2 n k ofs w.
  Proof.
    intro Hl. induction n as [|m IH]; intros k ofs w; [reflexivity|].
    cbn [interp_with]. rewrite Hl. destruct (l2 k) as [sh|]; [|reflexivity].
    f_equal. destruct (as_kind (sh_view sh) w) as [wfs|]; [|reflexivity].
    apply run_csteps_ext. intros. apply IH.
  Qed.

  (* ---------------------------------------------------------------- comparison blocks *)
  Lemma run_cmps call self view cs ofs wfs res :
    run_csteps rec call self view (map CCmp cs) ofs wfs res
    = obind (all_cmp cfg_fixed rec cs ofs wfs) (fun r2 => Ok (res && r2)).
  Proof.
    induction cs as [|c r IH]; cbn [map run_csteps all_cmp obind].
    - rewrite andb_true_r. reflexivity.
    - destruct (cmp_one cfg_fixed rec c ofs wfs) as [[|]| | |]; cbn [obind]; try reflexivity.
      + exact IH.
      + rewrite andb_false_r. reflexivity.
  Qed.

  (* ---------------------------------------------------------------- the nine methods *)
  Notation IW := (interp_with rec model_shape).

  Lemma iw_object n ofs w : IW (S n) KObject ofs w = object_equals cfg_fixed rec ofs w.
  Proof.
    cbn [interp_with model_shape sh_guards sh_view sh_steps run_guards guard_fires obind].
    unfold object_equals, nil_guard. cbn [c_nil_guards cfg_fixed].
    destruct (is_nil w) eqn:Hn; [reflexivity|].
    destruct (is_item_collection w); [reflexivity|].
    rewrite (get_link_nonnil w Hn), (get_type_nonnil w Hn). cbn [obind].
    destruct (ideq (get_str F_ID ofs) (lnk w) true); [|reflexivity]. cbn [negb].
    destruct (fold_eqb (get_str F_Type ofs) (typ w)); [|reflexivity]. cbn [negb].
    destruct (with_is_link_m w && negb (ideq (lnk w) (get_str F_ID ofs) false)) eqn:Hl.
    - apply andb_prop in Hl. destruct Hl as [Hl _]. rewrite (with_is_link_not_object w Hl). reflexivity.
    - destruct (as_kind KObject w) as [wfs|]; [|reflexivity].
      rewrite run_cmps. cbn [andb]. apply obind_eta.
  Qed.

  Lemma iw_unfold m k ofs w :
    IW (S m) k ofs w
    = match model_shape k with
      | None => Err
      | Some sh =>
          run_guards (sh_guards sh) ofs w
            (match as_kind (sh_view sh) w with
             | None => Ok false
             | Some wfs => run_csteps rec (IW m) k (sh_view sh) (sh_steps sh) ofs wfs true
             end)
      end.
  Proof. reflexivity. Qed.

  Lemma guard_notcoll_nonnil ofs w :
    is_nil w = false -> guard_fires GNotCollection ofs w = Ok (negb (is_collection_m w)).
  Proof. destruct w; simpl; try discriminate; reflexivity. Qed.

  Ltac open_method :=
    rewrite iw_unfold;
    cbn [model_shape sh_guards sh_view sh_steps run_guards run_csteps cast_ok obind];
    cbn [c_nil_guards c_conv_err c_with_driven cfg_fixed negb].

  Lemma iw_intransitive n ofs w : IW (S (S n)) KIntransitive ofs w = intransitive_equals cfg_fixed rec ofs w.
  Proof.
    open_method. unfold intransitive_equals, nil_guard. cbn [c_nil_guards cfg_fixed guard_fires obind].
    destruct (is_nil w); [reflexivity|].
    destruct (as_kind KIntransitive w) as [wfs|]; [|reflexivity].
    rewrite iw_object. destruct (object_equals cfg_fixed rec ofs (IObj true KIntransitive wfs)); try reflexivity.
    cbn [obind]. apply run_cmps.
  Qed.

  Lemma iw_activity n ofs w : IW (S (S (S n))) KActivity ofs w = activity_equals cfg_fixed rec ofs w.
  Proof.
    open_method. unfold activity_equals, nil_guard. cbn [c_nil_guards cfg_fixed guard_fires obind].
    destruct (is_nil w); [reflexivity|].
    destruct (as_kind KActivity w) as [wfs|]; [|reflexivity].
    rewrite iw_intransitive. destruct (intransitive_equals cfg_fixed rec ofs (IObj true KActivity wfs)); try reflexivity.
    cbn [obind]. apply run_cmps.
  Qed.

  Lemma iw_actor n ofs w : IW (S (S n)) KActor ofs w = actor_equals cfg_fixed rec ofs w.
  Proof.
    open_method. unfold actor_equals, nil_guard. cbn [c_nil_guards cfg_fixed guard_fires obind].
    destruct (is_nil w); [reflexivity|].
    destruct (as_kind KActor w) as [wfs|]; [|reflexivity].
    rewrite iw_object. destruct (object_equals cfg_fixed rec ofs (IObj true KActor wfs)); try reflexivity.
    cbn [obind]. apply run_cmps.
  Qed.

  Lemma iw_collection n ofs w : IW (S (S n)) KCollection ofs w = collection_equals cfg_fixed rec ofs w.
  Proof.
    open_method. unfold collection_equals. cbn [c_conv_err c_with_driven cfg_fixed negb].
    change (guard_fires GNil ofs w) with (@Ok bool (is_nil w)). cbn [obind].
    destruct (is_nil w) eqn:Hn; [reflexivity|]. rewrite (guard_notcoll_nonnil ofs w Hn). cbn [obind].
    destruct (negb (is_collection_m w)); [reflexivity|].
    destruct (as_kind KCollection w) as [wfs|]; [|reflexivity].
    rewrite iw_object. destruct (object_equals cfg_fixed rec ofs (IObj true KCollection wfs)); try reflexivity.
    cbn [obind andb]. apply run_cmps.
  Qed.

  Lemma iw_page n ofs w : IW (S (S (S n))) KCollectionPage ofs w = page_equals cfg_fixed rec ofs w.
  Proof.
    open_method. unfold page_equals. cbn [c_conv_err c_with_driven cfg_fixed negb].
    change (guard_fires GNil ofs w) with (@Ok bool (is_nil w)). cbn [obind].
    destruct (is_nil w) eqn:Hn; [reflexivity|]. rewrite (guard_notcoll_nonnil ofs w Hn). cbn [obind].
    destruct (negb (is_collection_m w)); [reflexivity|].
    destruct (as_kind KCollectionPage w) as [wfs|]; [|reflexivity].
    rewrite iw_collection. destruct (collection_equals cfg_fixed rec ofs (IObj true KCollectionPage wfs)); try reflexivity.
    cbn [obind andb]. apply run_cmps.
  Qed.

  Lemma iw_ordered n ofs w : IW (S (S (S n))) KOrdered ofs w = ordered_equals cfg_fixed rec ofs w.
  Proof.
    open_method. unfold ordered_equals. cbn [c_conv_err c_with_driven cfg_fixed negb].
    change (guard_fires GNil ofs w) with (@Ok bool (is_nil w)). cbn [obind].
    destruct (is_nil w) eqn:Hn; [reflexivity|]. rewrite (guard_notcoll_nonnil ofs w Hn). cbn [obind].
    destruct (negb (is_collection_m w)); [reflexivity|].
    destruct (as_kind KOrdered w) as [wfs|]; [|reflexivity].
    rewrite iw_collection. destruct (collection_equals cfg_fixed rec ofs (IObj true KOrdered wfs)); try reflexivity.
    cbn [obind andb]. apply run_cmps.
  Qed.

  Lemma iw_opage n ofs w : IW (S (S (S (S n)))) KOrderedPage ofs w = opage_equals cfg_fixed rec ofs w.
  Proof.
    open_method. unfold opage_equals. cbn [c_conv_err c_with_driven cfg_fixed negb].
    change (guard_fires GNil ofs w) with (@Ok bool (is_nil w)). cbn [obind].
    destruct (is_nil w) eqn:Hn; [reflexivity|]. rewrite (guard_notcoll_nonnil ofs w Hn). cbn [obind].
    destruct (negb (is_collection_m w)); [reflexivity|].
    destruct (as_kind KOrderedPage w) as [wfs|]; [|reflexivity].
    rewrite iw_ordered. destruct (ordered_equals cfg_fixed rec ofs (IObj true KOrderedPage wfs)); try reflexivity.
    cbn [obind andb]. apply run_cmps.
  Qed.

  Lemma iw_link n ofs w : IW (S n) KLink ofs w = link_equals cfg_fixed rec ofs w.
  Proof.
    open_method. unfold link_equals. cbn [guard_fires obind].
    destruct (is_nil w || negb (is_link w)); [reflexivity|].
    destruct (as_kind KLink w) as [wfs|]; [|reflexivity].
    destruct (ideq (get_str F_ID ofs) (get_str F_ID wfs) true); [|reflexivity]. cbn [negb].
    destruct (fold_eqb (get_str F_Type ofs) (get_str F_Type wfs)); [|reflexivity]. cbn [negb].
    rewrite run_cmps. cbn [andb]. apply obind_eta.
  Qed.

  (* 1. the description of the model is the model *)
  Theorem interp_model_shape k ofs w :
    interp_method rec model_shape k ofs w = equals_method cfg_fixed rec k ofs w.
  Proof.
    unfold interp_method, deleg_fuel.
    destruct k; cbn [model_shape equals_method]; try reflexivity; f_equal.
    - apply iw_object.
    - apply iw_actor.
    - apply iw_activity.
    - apply iw_intransitive.
    - apply iw_collection.
    - apply iw_page.
    - apply iw_ordered.
    - apply iw_opage.
    - apply iw_link.
  Qed.

  (* 2. for every table that satisfies the condition, the table's meaning is the model *)
  Theorem equals_table_tie tbl others : equals_table_ok tbl others = true ->
    forall k ofs w, equals_method_t tbl rec k ofs w = equals_method cfg_fixed rec k ofs w.
  Proof.
    intros Hok k ofs w. unfold equals_table_ok in Hok.
    apply andb_prop in Hok. destruct Hok as [Hok _]. apply andb_prop in Hok. destruct Hok as [Hok _].
    pose proof (shapes_ok_spec tbl Hok) as Hs.
    rewrite <- interp_model_shape. unfold equals_method_t, interp_method. rewrite Hs.
    destruct (model_shape k); [|reflexivity]. f_equal. apply interp_with_ext. exact Hs.
  Qed.
End Ext.

(* the statements in the argument order of Props/C09.v *)
Theorem equals_table_tie' : forall tbl others, equals_table_ok tbl others = true ->
  forall rec k fs w, equals_method_t tbl rec k fs w = equals_method cfg_fixed rec k fs w.
Proof. intros tbl others H rec k fs w. apply (equals_table_tie rec tbl others H). Qed.
Theorem interp_model_shape' : forall rec k fs w,
  interp_method rec model_shape k fs w = equals_method cfg_fixed rec k fs w.
Proof. intros. apply interp_model_shape. Qed.
End IdRel.
End EtGP.

Definition run_csteps_ext := EtGP.run_csteps_ext iri_eqb.
Definition interp_with_ext := EtGP.interp_with_ext iri_eqb.
Definition run_cmps := EtGP.run_cmps iri_eqb.
Definition iw_object := EtGP.iw_object iri_eqb.
Definition iw_unfold := EtGP.iw_unfold iri_eqb.
Definition guard_notcoll_nonnil := EtGP.guard_notcoll_nonnil iri_eqb.
Definition iw_intransitive := EtGP.iw_intransitive iri_eqb.
Definition iw_activity := EtGP.iw_activity iri_eqb.
Definition iw_actor := EtGP.iw_actor iri_eqb.
Definition iw_collection := EtGP.iw_collection iri_eqb.
Definition iw_page := EtGP.iw_page iri_eqb.
Definition iw_ordered := EtGP.iw_ordered iri_eqb.
Definition iw_opage := EtGP.iw_opage iri_eqb.
Definition iw_link := EtGP.iw_link iri_eqb.
Definition interp_model_shape := EtGP.interp_model_shape iri_eqb.
Definition equals_table_tie := EtGP.equals_table_tie iri_eqb.
Definition equals_table_tie' := EtGP.equals_table_tie' iri_eqb.
Definition interp_model_shape' := EtGP.interp_model_shape' iri_eqb.
