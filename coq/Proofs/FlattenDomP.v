(* C16 / C20 on the domain of C14: the hypothesis "the id comparison is symmetric and transitive on the ids that
   occur" of the whole-value theorems of Proofs/FlattenIdemP.v (b24) and of the no-panic theorems of
   Proofs/NilWalkP.v is DISCHARGED for the code's comparison  ideq a b = IRI.Equals(a, b, false)  (Model/IriEq.v)
   when every id the de-duplications compare lies in  iri_dom  (Model/IriNf.v: absolute URL of the grammar of
   Model/Url.v with a query string in one letter case), where C14 proves the comparison an equivalence; and, a
   second instance of the same generic development, for the wide comparison  iri_equ  of Model/IriEqU.v on
   iri_dom_u  (all valid UTF-8, percent-escapes, non-ASCII hosts and paths: builder b33).
   The domain is a BOOLEAN predicate on the value (fields_dom P k fs), so it can be evaluated per case.
   Nothing here changes a model; the definitions are decidable forms of fields_good / keys_in / props_good with
   the set D := (fun a => P a = true). *)
From AP.Model Require Import Prelude Vocab Pred IriEq IriNf IriEqU Recip Flatten.
From AP.Proofs Require Import IriEqP IriNfP IriUP RecipP RecipNfP FlattenP FlattenIdemP NilWalkP.

(* ---- the decidable domain, for any boolean class of ids ---- *)
Definition good_p (P : bytes -> bool) (s : fstep) (ov : option fval) : bool :=
  match s with
  | SIri _ => true
  | SFlat _ => flat_ok (item_of ov) && forallb P (flat_keys (item_of ov))
  | SList _ => forallb P (opt_keys (items_of ov))
  end.
(* C16's domain: the four Flatten positions hold flat_ok values, the ids compared anywhere lie in P *)
Definition fields_dom_p (P : bytes -> bool) (k : fkind) (fs : list (fid * fval)) : bool :=
  forallb (fun s => good_p P s (getf (step_fid s) fs)) (steps_of k).
Definition props_dom_p (P : bytes -> bool) (x : item) : bool :=
  match x with IObj _ _ fs => fields_dom_p P FKActivity fs | _ => true end.
(* C20's domain (no-panic): nothing is asked of the shape, only of the ids *)
Definition keys_in_p (P : bytes -> bool) (s : fstep) (ov : option fval) : bool :=
  match s with
  | SIri _ => true
  | SFlat _ => forallb P (flat_keys (item_of ov))
  | SList _ => forallb P (opt_keys (items_of ov))
  end.
Definition keys_dom_p (P : bytes -> bool) (k : fkind) (fs : list (fid * fval)) : bool :=
  forallb (fun s => keys_in_p P s (getf (step_fid s) fs)) (steps_of k).

Lemma forallb_Forall_p (P : bytes -> bool) l : forallb P l = true -> Forall (fun a => P a = true) l.
Proof. intro H. apply Forall_forall. intros x Hx. rewrite forallb_forall in H. apply H. exact Hx. Qed.
Lemma Forall_forallb_p (P : bytes -> bool) l : Forall (fun a => P a = true) l -> forallb P l = true.
Proof. intro H. apply forallb_forall. rewrite Forall_forall in H. exact H. Qed.

Lemma fields_dom_p_spec P k fs : fields_dom_p P k fs = true -> fields_good (fun a => P a = true) k fs.
Proof.
  intros H s Hs. unfold fields_dom_p in H. rewrite forallb_forall in H. specialize (H s Hs). cbv beta in H.
  destruct s as [f|f|f]; cbn [good good_p] in *.
  - exact I.
  - apply andb_true_iff in H. destruct H as [H1 H2]. split; [exact H1|apply forallb_Forall_p; exact H2].
  - apply forallb_Forall_p. exact H.
Qed.
(* the boolean is exactly the domain of the generic theorems, not a sufficient condition only *)
Lemma fields_dom_p_complete P k fs : fields_good (fun a => P a = true) k fs -> fields_dom_p P k fs = true.
Proof.
  intro H. unfold fields_dom_p. apply forallb_forall. intros s Hs. specialize (H s Hs).
  destruct s as [f|f|f]; cbn [good good_p] in *.
  - reflexivity.
  - destruct H as [H1 H2]. rewrite H1. apply Forall_forallb_p. exact H2.
  - apply Forall_forallb_p. exact H.
Qed.
Lemma props_dom_p_spec P x : props_dom_p P x = true -> props_good (fun a => P a = true) x.
Proof. destruct x; cbn [props_dom_p props_good]; try (intros; exact I). apply fields_dom_p_spec. Qed.
Lemma keys_dom_p_spec P k fs : keys_dom_p P k fs = true ->
  forall s, In s (steps_of k) -> keys_in (fun a => P a = true) s (getf (step_fid s) fs).
Proof.
  intros H s Hs. unfold keys_dom_p in H. rewrite forallb_forall in H. specialize (H s Hs). cbv beta in H.
  destruct s as [f|f|f]; cbn [keys_in keys_in_p] in *; [exact I| |]; apply forallb_Forall_p; exact H.
Qed.
Lemma fields_dom_keys_dom P k fs : fields_dom_p P k fs = true -> keys_dom_p P k fs = true.
Proof.
  unfold fields_dom_p, keys_dom_p. intro H. apply forallb_forall. intros s Hs. rewrite forallb_forall in H.
  specialize (H s Hs). cbv beta in H. destruct s as [f|f|f]; cbn [good_p keys_in_p] in *; auto.
  apply andb_true_iff in H. apply H.
Qed.

(* ---- generic: a comparison that is symmetric, and transitive on the boolean class P ---- *)
Section OnClass.
  Variable eqv : bytes -> bytes -> bool.
  Variable P : bytes -> bool.
  Hypothesis eqv_sym : forall a b, eqv a b = eqv b a.
  Hypothesis eqv_trans : forall a b c, P a = true -> P b = true -> P c = true ->
    eqv a b = true -> eqv b c = true -> eqv a c = true.
  Let D := fun a => P a = true.
  Let HS : forall a b, D a -> D b -> eqv a b = eqv b a := fun a b _ _ => eqv_sym a b.
  Let HT : forall a b c, D a -> D b -> D c -> eqv a b = true -> eqv b c = true -> eqv a c = true := eqv_trans.

  Lemma dom_refines_list c : forallb P (opt_keys c) = true -> flatten_items eqv c = Ok (flat_list_spec eqv c).
  Proof. intro H. apply (flatten_items_refines eqv D HS HT). apply forallb_Forall_p. exact H. Qed.

  Lemma dom_flatten_list l : forallb P (keys_of l) = true ->
    flatten eqv (IItems false (Some l)) = Ok (normalize (flat_list_spec eqv (Some l))).
  Proof. intro H. apply (flatten_list eqv D l HS HT). apply forallb_Forall_p. exact H. Qed.

  Lemma dom_idem_list c c' : forallb P (opt_keys c) = true -> flatten_items eqv c = Ok c' ->
    flatten_items eqv c' = Ok c' /\ forallb P (opt_keys c') = true.
  Proof.
    intros H E. destruct (flatten_items_idem eqv D HS HT c c' (forallb_Forall_p P _ H) E) as [A B].
    split; [exact A|apply Forall_forallb_p; exact B].
  Qed.

  Lemma dom_flatten_value i : flat_ok i = true -> forallb P (flat_keys i) = true -> flatten eqv i = Ok (flat_multi eqv i).
  Proof. intros Ho H. apply (flatten_multi eqv D HS HT i Ho). apply forallb_Forall_p. exact H. Qed.

  Lemma dom_idem_flatten i i' : flat_ok i = true -> forallb P (flat_keys i) = true -> flatten eqv i = Ok i' ->
    flatten eqv i' = Ok i' /\ flat_ok i' = true /\ forallb P (flat_keys i') = true.
  Proof.
    intros Ho H E. destruct (flatten_idem eqv D HS HT i i' Ho (forallb_Forall_p P _ H) E) as [A [B C]].
    split; [exact A|]. split; [exact B|apply Forall_forallb_p; exact C].
  Qed.

  Lemma dom_value k fs : fields_dom_p P k fs = true ->
    exists fs', flatten_fields eqv k fs = Ok fs' /\
      (forall s, In s (steps_of k) -> getf (step_fid s) fs' = fcanon (spec_out eqv s (getf (step_fid s) fs))) /\
      (forall f, flattened_in k f = false -> getf f fs' = getf f fs).
  Proof. intro H. apply (flatten_fields_value eqv D HS HT). apply fields_dom_p_spec. exact H. Qed.

  Lemma dom_entries k fs fs' : fields_dom_p P k fs = true -> flatten_fields eqv k fs = Ok fs' ->
    forall s, In s (steps_of k) -> forall y, In y (out_entries s (getf (step_fid s) fs')) ->
    y = INil \/ exists x, In x (in_entries s (getf (step_fid s) fs)) /\ (y = x \/ y = flat_item x).
  Proof. intro H. apply (flatten_fields_entries eqv D HS HT). apply fields_dom_p_spec. exact H. Qed.

  Lemma dom_no_new_iri k fs fs' : fields_dom_p P k fs = true -> flatten_fields eqv k fs = Ok fs' ->
    forall s, In s (steps_of k) -> forall p i, In (IIri p i) (out_entries s (getf (step_fid s) fs')) ->
    exists x, In x (in_entries s (getf (step_fid s) fs)) /\ (x = IIri p i \/ (p = false /\ i = link_of x)).
  Proof. intro H. apply (flatten_fields_no_new_iri eqv D HS HT). apply fields_dom_p_spec. exact H. Qed.

  Lemma dom_idem k fs fs' : fields_dom_p P k fs = true ->
    flatten_fields eqv k fs = Ok fs' -> flatten_fields eqv k fs' = Ok fs'.
  Proof. intro H. apply (flatten_fields_idem eqv D HS HT). apply fields_dom_p_spec. exact H. Qed.

  (* the result of a flattening is again inside the domain: the theorems can be chained *)
  Lemma dom_closed k fs fs' : fields_dom_p P k fs = true -> flatten_fields eqv k fs = Ok fs' ->
    fields_dom_p P k fs' = true.
  Proof.
    intros H E. destruct (dom_value k fs H) as [fs1 [R [V _]]]. rewrite R in E. inversion E; subst fs1. clear E.
    apply fields_dom_p_complete. intros s Hs. rewrite (V s Hs).
    pose proof (fields_dom_p_spec P k fs H s Hs) as G. fold D in G.
    destruct s as [f|f|f]; cbn [good spec_out] in *.
    - exact I.
    - destruct G as [Ho Hk]. rewrite item_of_fcanon.
      destruct (flatten_idem eqv D HS HT _ _ Ho Hk (flatten_multi eqv D HS HT _ Ho Hk)) as [_ [B C]].
      split; assumption.
    - rewrite items_of_fcanon.
      destruct (flatten_items_idem eqv D HS HT _ _ G (flatten_items_refines eqv D HS HT _ G)) as [_ B]. exact B.
  Qed.

  Lemma dom_idem_properties x x' : props_dom_p P x = true ->
    flatten_properties eqv x = Ok x' -> flatten_properties eqv x' = Ok x'.
  Proof. intro H. apply (flatten_properties_idem eqv D HS HT). apply props_dom_p_spec. exact H. Qed.

  (* C20: no panic on any value whose compared ids lie in the class *)
  Lemma dom_flatten_no_panic k fs : keys_dom_p P k fs = true ->
    (exists fs', flatten_fields eqv k fs = Ok fs') \/ flatten_fields eqv k fs = Err.
  Proof. intro H. apply (flatten_fields_no_panic eqv D HS HT). apply keys_dom_p_spec. exact H. Qed.

  Lemma dom_recipients_total k fs : has_recipients k = true ->
    exists fs1, recip_pre eqv k fs = Ok fs1 /\
      (forallb P (scan_order (scan_lists k fs1)) = true -> exists r x', recipients eqv (IObj true k fs) = Ok (r, x')).
  Proof.
    intro Hk. destruct (recipients_total eqv D HS HT k fs Hk) as [fs1 [E F]]. exists fs1. split; [exact E|].
    intro H. apply F. apply forallb_Forall_p. exact H.
  Qed.
End OnClass.

(* ---- instance 1: the comparison every model runs, on the domain of C14 ---- *)
Definition fields_dom := fields_dom_p iri_dom.
Definition props_dom := props_dom_p iri_dom.
Definition keys_dom := keys_dom_p iri_dom.

Definition m_refines_list := dom_refines_list ideq iri_dom ideq_sym ideq_trans_dom.
Definition m_flatten_list := dom_flatten_list ideq iri_dom ideq_sym ideq_trans_dom.
Definition m_idem_list := dom_idem_list ideq iri_dom ideq_sym ideq_trans_dom.
Definition m_flatten_value := dom_flatten_value ideq iri_dom ideq_sym ideq_trans_dom.
Definition m_idem_flatten := dom_idem_flatten ideq iri_dom ideq_sym ideq_trans_dom.
Definition m_value := dom_value ideq iri_dom ideq_sym ideq_trans_dom.
Definition m_entries := dom_entries ideq iri_dom ideq_sym ideq_trans_dom.
Definition m_no_new_iri := dom_no_new_iri ideq iri_dom ideq_sym ideq_trans_dom.
Definition m_idem := dom_idem ideq iri_dom ideq_sym ideq_trans_dom.
Definition m_closed := dom_closed ideq iri_dom ideq_sym ideq_trans_dom.
Definition m_idem_properties := dom_idem_properties ideq iri_dom ideq_sym ideq_trans_dom.
Definition m_flatten_no_panic := dom_flatten_no_panic ideq iri_dom ideq_sym ideq_trans_dom.
Definition m_recipients_total := dom_recipients_total ideq iri_dom ideq_sym ideq_trans_dom.

(* the older pool form follows: a pool inside the domain needs no evaluation of sym_on / trans_on *)
Lemma pool_in_domain dom k fs : forallb iri_dom dom = true -> fields_goodb dom k fs = true -> fields_dom k fs = true.
Proof.
  intros Hd Hg. apply fields_dom_p_complete. intros s Hs.
  pose proof (fields_goodb_spec dom k fs Hg s Hs) as G. rewrite forallb_forall in Hd.
  destruct s as [f|f|f]; cbn [good] in *.
  - exact I.
  - destruct G as [A B]. split; [exact A|]. eapply Forall_impl; [|exact B]. intros a Ha. apply Hd. exact Ha.
  - eapply Forall_impl; [|exact G]. intros a Ha. apply Hd. exact Ha.
Qed.

(* ---- instance 2: the wide comparison of Model/IriEqU.v; [idequ a b] = iri_equ a b false is the definition of
   Model/RecipU.v (one name for the one comparison C10, C16 and C20 instantiate with) ---- *)
Require AP.Model.RecipU.
Notation idequ := AP.Model.RecipU.idequ.
Lemma idequ_sym a b : idequ a b = idequ b a.
Proof. unfold idequ. apply (proj1 (proj2 (iri_equ_equivalence false))). Qed.
Lemma idequ_trans a b c : iri_dom_u a = true -> iri_dom_u b = true -> iri_dom_u c = true ->
  idequ a b = true -> idequ b c = true -> idequ a c = true.
Proof. unfold idequ. apply iri_equ_trans. Qed.

Definition u_value := dom_value idequ iri_dom_u idequ_sym idequ_trans.
Definition u_idem := dom_idem idequ iri_dom_u idequ_sym idequ_trans.
Definition u_idem_properties := dom_idem_properties idequ iri_dom_u idequ_sym idequ_trans.
Definition u_flatten_no_panic := dom_flatten_no_panic idequ iri_dom_u idequ_sym idequ_trans.
Definition u_recipients_total := dom_recipients_total idequ iri_dom_u idequ_sym idequ_trans.
(* the remaining statements of the generic development for the wide comparison (builder b47) *)
Definition u_refines_list := dom_refines_list idequ iri_dom_u idequ_sym idequ_trans.
Definition u_flatten_list := dom_flatten_list idequ iri_dom_u idequ_sym idequ_trans.
Definition u_idem_list := dom_idem_list idequ iri_dom_u idequ_sym idequ_trans.
Definition u_flatten_value := dom_flatten_value idequ iri_dom_u idequ_sym idequ_trans.
Definition u_idem_flatten := dom_idem_flatten idequ iri_dom_u idequ_sym idequ_trans.
Definition u_entries := dom_entries idequ iri_dom_u idequ_sym idequ_trans.
Definition u_no_new_iri := dom_no_new_iri idequ iri_dom_u idequ_sym idequ_trans.
Definition u_closed := dom_closed idequ iri_dom_u idequ_sym idequ_trans.
