(* C16, whole values: what every flattened position of Flatten*Properties holds afterwards (value
   characterisation), and idempotence of FlattenItemCollection, Flatten, Flatten*Properties and
   FlattenProperties - over the executable definitions of Model/Flatten.v, for values of any shape and depth.
   The list statements carry the hypotheses of C16_refines_list (symmetry and transitivity of the id comparison
   on the ids that occur: without them the literal de-duplication of Model/Recip.v can delete a wrong index). *)
From AP.Model Require Import Prelude Vocab Pred IriEq Recip Flatten.
From AP.Gen Require Import TypeLists.
From AP.Proofs Require Import NlvP IriEqP RecipP FlattenP.

(* ---- keys of flattened entries ---- *)
Lemma key_obj x : is_nil x = false -> objectish x = true -> link_of x <> [] -> key_of x = Some (link_of x).
Proof.
  intros Hn Ho Hl. unfold key_of, entry_key. rewrite Hn. unfold entry_key_body.
  unfold objectish in Ho. destruct (meth_is_object x) as [b| | |]; try discriminate. subst b.
  cbn [obind]. unfold link_of in *. destruct (get_link x) as [s| | |]; try (contradiction Hl; reflexivity).
  cbn [omap obind drop_empty]. destruct s; [contradiction Hl; reflexivity|reflexivity].
Qed.

Lemma key_iri s : key_of (IIri false s) = if is_nil (IIri false s) then None else Some s.
Proof.
  unfold key_of, entry_key. destruct (is_nil (IIri false s)) eqn:E; [reflexivity|].
  destruct s; [discriminate|]. reflexivity.
Qed.

Lemma key_flat_item x : key_of (flat_item x) = key_of x \/ key_of (flat_item x) = None.
Proof.
  destruct (flat_item_cases x) as [H|[H [Hl [Ho Hn]]]]; rewrite H; [left; reflexivity|].
  rewrite key_iri. destruct (is_nil (IIri false (link_of x))); [right; reflexivity|].
  left. symmetry. apply key_obj; assumption.
Qed.

Lemma flat_item_nokey x : key_of x = None -> flat_item x = x.
Proof.
  intro Hk. destruct (flat_item_cases x) as [H|[_ [Hl [Ho Hn]]]]; [exact H|].
  rewrite (key_obj x Hn Ho Hl) in Hk. discriminate.
Qed.

Lemma map_flat_item_idem l : map flat_item (map flat_item l) = map flat_item l.
Proof. rewrite map_map. apply map_ext. intro x. apply flat_item_idem. Qed.

(* ---- the de-duplicated and flattened list is already de-duplicated ---- *)
Section Stable.
  Variable eqv : bytes -> bytes -> bool.

  Definition seen_below (seen' seen : list bytes) : Prop :=
    forall t, existsb (eqv t) seen' = true -> existsb (eqv t) seen = true.

  Lemma seen_below_snoc seen' seen t : seen_below seen' seen -> seen_below (seen' ++ [t]) (seen ++ [t]).
  Proof.
    intros H u. rewrite !existsb_app. intro E. apply orb_true_iff in E. apply orb_true_iff.
    destruct E as [E|E]; [left; apply H; exact E|right; exact E].
  Qed.
  Lemma seen_below_grow seen' seen t : seen_below seen' seen -> seen_below seen' (seen ++ [t]).
  Proof. intros H u E. rewrite existsb_app. apply orb_true_iff. left. apply H. exact E. Qed.

  Lemma keep_first_flat_stable l : forall seen seen', seen_below seen' seen ->
    keep_first eqv seen' (map flat_item (keep_first eqv seen l)) = map flat_item (keep_first eqv seen l).
  Proof.
    induction l as [|x r IH]; intros seen seen' Hb; [reflexivity|].
    cbn [keep_first]. destruct (key_of x) as [t|] eqn:Kx.
    - destruct (existsb (eqv t) seen) eqn:Es; cbn [app].
      + apply IH. apply seen_below_grow. exact Hb.
      + cbn [map keep_first].
        destruct (key_flat_item x) as [K|K]; rewrite K.
        * rewrite Kx.
          assert (Es' : existsb (eqv t) seen' = false).
          { destruct (existsb (eqv t) seen') eqn:E; [|reflexivity]. apply Hb in E. congruence. }
          rewrite Es'. cbn [app]. f_equal. apply IH. apply seen_below_snoc. exact Hb.
        * f_equal. apply IH. apply seen_below_grow. exact Hb.
    - cbn [map keep_first]. rewrite (flat_item_nokey x Kx), Kx. f_equal. apply IH. exact Hb.
  Qed.

  Lemma flat_list_spec_idem c : flat_list_spec eqv (flat_list_spec eqv c) = flat_list_spec eqv c.
  Proof.
    destruct c as [l|]; [|reflexivity]. unfold flat_list_spec. f_equal.
    rewrite (keep_first_flat_stable l [] []) by (intros t E; exact E).
    apply map_flat_item_idem.
  Qed.

  (* the keys of the result are keys of the original *)
  Lemma keys_flat_sub (D : bytes -> Prop) l : Forall D (keys_of l) -> Forall D (keys_of (map flat_item l)).
  Proof.
    induction l as [|x r IH]; intro H; [constructor|].
    unfold keys_of in *. cbn [map flat_map] in *. apply Forall_app in H. destruct H as [Hx Hr].
    apply Forall_app. split; [|apply IH; exact Hr].
    destruct (key_flat_item x) as [K|K]; rewrite K; [exact Hx|constructor].
  Qed.

  Lemma keys_keep_first_sub (D : bytes -> Prop) l : forall seen,
    Forall D (keys_of l) -> Forall D (keys_of (keep_first eqv seen l)).
  Proof.
    intros seen H. rewrite Forall_forall in *. intros k Hk. apply H.
    unfold keys_of in *. rewrite in_flat_map in *. destruct Hk as [x [Hx Hk]].
    exists x. split; [|exact Hk]. eapply subseq_In; [apply keep_first_subseq|exact Hx].
  Qed.

  Lemma opt_keys_spec_sub (D : bytes -> Prop) c :
    Forall D (opt_keys c) -> Forall D (opt_keys (flat_list_spec eqv c)).
  Proof.
    destruct c as [l|]; [|intro; constructor]. cbn [opt_keys flat_list_spec]. intro H.
    apply keys_flat_sub. apply keys_keep_first_sub. exact H.
  Qed.
End Stable.

(* ---- well-formedness of what sits in replies / shares / likes / attributedTo ---- *)
(* A member of a list in one of these four positions that ends up ALONE after the de-duplication is handed back
   by Normalize as the value of the property, and the next Flatten looks at it as an item, not as a list
   member.  It is stable when it is the untyped nil, or not nil-like, not itself a list or an opened
   collection, and does not carry the id "-" (the nil IRI).  Each clause is necessary: see the
   C16_twice_differs_* witnesses of Props/C16.v, evaluated on the real code by harness/c16.go. *)
Definition dash_free (i : item) : bool := negb (fold_eqb (link_of i) nil_iri).
Definition plain_view (i : item) : bool :=
  match coll_view_of i with CVNone | CVKeep => true | _ => false end.
Definition plain (x : item) : bool :=
  match x with
  | INil => true
  | _ => negb (is_nil x) && plain_view x && dash_free x
  end.
Definition flat_ok (i : item) : bool :=
  is_nil i ||
  match coll_view_of i with
  | CVItems None => true
  | CVItems (Some l) => forallb plain l
  | CVKeep => true
  | CVNone => dash_free i
  | CVUnmodelled => false
  end.
(* the ids the de-duplication inside Flatten compares *)
Definition flat_keys (i : item) : list bytes :=
  match coll_view_of i with CVItems c => opt_keys c | _ => [] end.

Lemma is_nil_iri_nonempty p s : s <> [] -> is_nil (IIri p s) = fold_eqb s nil_iri.
Proof. destruct s; [intro H; contradiction H; reflexivity|reflexivity]. Qed.

Lemma iri_ok s : s <> [] -> fold_eqb s nil_iri = false ->
  is_nil (IIri false s) = false /\ plain (IIri false s) = true /\
  flat_ok (IIri false s) = true /\ flat_keys (IIri false s) = [].
Proof.
  intros Hs Hd. assert (Hn : is_nil (IIri false s) = false) by (rewrite is_nil_iri_nonempty; assumption).
  assert (Hdf : dash_free (IIri false s) = true) by (unfold dash_free; cbn [link_of get_link]; rewrite Hd; reflexivity).
  repeat split.
  - exact Hn.
  - unfold plain. rewrite Hn, Hdf. reflexivity.
  - unfold flat_ok. rewrite Hn. cbn [orb coll_view_of]. exact Hdf.
Qed.

Lemma plain_parts x : plain x = true -> x = INil \/ (is_nil x = false /\ plain_view x = true /\ dash_free x = true).
Proof.
  destruct x as [|k|p s|p k fs|p l|p l]; [left; reflexivity| | | | |]; intro Hp; right; unfold plain in Hp;
    apply andb_true_iff in Hp; destruct Hp as [Hp Hd]; apply andb_true_iff in Hp; destruct Hp as [Hn Hv];
    apply negb_true_iff in Hn; auto.
Qed.

(* flattening a plain member gives a plain member that is within the domain of Flatten *)
Lemma plain_flat_item x : plain x = true ->
  plain (flat_item x) = true /\ flat_ok (flat_item x) = true /\ flat_keys (flat_item x) = [].
Proof.
  intro Hp. destruct (plain_parts x Hp) as [->|[Hn [Hv Hd]]]; [repeat split; reflexivity|].
  destruct (flat_item_cases x) as [H|[H [Hl _]]]; rewrite H.
  - split; [exact Hp|]. unfold flat_ok, flat_keys. rewrite Hn. cbn [orb]. unfold plain_view in Hv.
    destruct (coll_view_of x); try discriminate; split; try reflexivity. exact Hd.
  - unfold dash_free in Hd. apply negb_true_iff in Hd.
    destruct (iri_ok (link_of x) Hl Hd) as [_ [A [B C]]]. auto.
Qed.

Section Idem.
  Variable eqv : bytes -> bytes -> bool.
  Variable D : bytes -> Prop.
  Hypothesis eqv_sym : forall a b, D a -> D b -> eqv a b = eqv b a.
  Hypothesis eqv_trans : forall a b c, D a -> D b -> D c -> eqv a b = true -> eqv b c = true -> eqv a c = true.

  (* FlattenItemCollection *)
  Lemma flatten_items_idem c c' :
    Forall D (opt_keys c) -> flatten_items eqv c = Ok c' ->
    flatten_items eqv c' = Ok c' /\ Forall D (opt_keys c').
  Proof.
    intros HD H. rewrite (flatten_items_refines eqv D eqv_sym eqv_trans c HD) in H. inversion H; subst c'.
    pose proof (opt_keys_spec_sub eqv D c HD) as HD'.
    split; [|exact HD'].
    rewrite (flatten_items_refines eqv D eqv_sym eqv_trans _ HD'). rewrite flat_list_spec_idem. reflexivity.
  Qed.

  (* what Flatten returns: the specification of one of the four positions *)
  Definition flat_multi (i : item) : item :=
    if is_nil i then INil
    else match coll_view_of i with
         | CVItems c => normalize (flat_list_spec eqv c)
         | CVKeep => i
         | _ => flat_item i
         end.

  Lemma flatten_multi i :
    flat_ok i = true -> Forall D (flat_keys i) -> flatten eqv i = Ok (flat_multi i).
  Proof.
    unfold flat_ok, flat_keys, flatten, flat_multi. destruct (is_nil i); [reflexivity|]. cbn [orb].
    destruct (coll_view_of i) as [c| | |]; intros Hok HD; try reflexivity; [|discriminate].
    rewrite (flatten_items_refines eqv D eqv_sym eqv_trans c HD). reflexivity.
  Qed.

  (* a plain member, flattened, is left alone by Flatten *)
  Lemma plain_stable x : plain x = true -> flatten eqv (flat_item x) = Ok (flat_item x).
  Proof.
    intro Hp. destruct (plain_parts x Hp) as [->|[Hn [Hv Hd]]]; [reflexivity|].
    destruct (flat_item_cases x) as [H|[H [Hl _]]]; rewrite H.
    - unfold flatten. rewrite Hn. unfold plain_view in Hv.
      destruct (coll_view_of x); try discriminate; [reflexivity|].
      change (flatten_to_iri x) with (flat_item x). rewrite H. reflexivity.
    - unfold dash_free in Hd. apply negb_true_iff in Hd.
      destruct (iri_ok (link_of x) Hl Hd) as [Hn' _].
      unfold flatten. rewrite Hn'. cbn [coll_view_of].
      change (flatten_to_iri (IIri false (link_of x))) with (flat_item (IIri false (link_of x))).
      rewrite flat_item_iri. reflexivity.
  Qed.

  (* Flatten *)
  Lemma flatten_idem i i' :
    flat_ok i = true -> Forall D (flat_keys i) -> flatten eqv i = Ok i' ->
    flatten eqv i' = Ok i' /\ flat_ok i' = true /\ Forall D (flat_keys i').
  Proof.
    intros Hok HD H. rewrite (flatten_multi i Hok HD) in H. inversion H; subst i'. clear H.
    unfold flat_multi. unfold flat_ok, flat_keys in Hok, HD.
    destruct (is_nil i) eqn:Hn; [repeat split; constructor|]. cbn [orb] in Hok.
    destruct (coll_view_of i) as [c| | |] eqn:Hv; try discriminate.
    - (* a list or an opened collection *)
      destruct c as [l|]; [|repeat split; constructor].
      cbn [flat_list_spec]. remember (keep_first eqv [] l) as kept eqn:Ek.
      assert (Hkept : forall x, In x kept -> In x l).
      { intros x Hx. subst kept. eapply subseq_In; [apply keep_first_subseq|exact Hx]. }
      assert (HD' : Forall D (keys_of (map flat_item kept))).
      { apply keys_flat_sub. subst kept. apply keys_keep_first_sub. exact HD. }
      rewrite forallb_forall in Hok.
      destruct kept as [|x [|y r]].
      + repeat split; constructor.
      + cbn [map normalize].
        pose proof (Hok x (Hkept x (or_introl eq_refl))) as Hp.
        split; [apply plain_stable; exact Hp|].
        destruct (plain_flat_item x Hp) as [_ [A B]]. split; [exact A|]. rewrite B. constructor.
      + set (l' := map flat_item (x :: y :: r)) in *.
        assert (E : normalize (Some l') = IItems false (Some l')) by reflexivity.
        rewrite E. unfold flatten. cbn [is_nil coll_view_of].
        assert (Hs : flat_list_spec eqv (Some l') = Some l').
        { pose proof (flat_list_spec_idem eqv (Some l)) as Hi. cbn [flat_list_spec] in Hi.
          rewrite <- Ek in Hi. exact Hi. }
        rewrite (flatten_items_refines eqv D eqv_sym eqv_trans (Some l') HD'). rewrite Hs.
        split; [reflexivity|]. split; [|exact HD'].
        unfold flat_ok. cbn [is_nil orb coll_view_of]. apply forallb_forall. intros z Hz. subst l'.
        apply in_map_iff in Hz. destruct Hz as [w [Ew Hw]]. subst z.
        apply plain_flat_item. apply Hok. apply Hkept. exact Hw.
    - (* a collection struct whose type does not name a collection: left alone *)
      unfold flatten, flat_ok, flat_keys. rewrite Hn, Hv. repeat split; constructor.
    - (* a single item *)
      destruct (flat_item_cases i) as [H|[H [Hl _]]]; rewrite H.
      + unfold flatten, flat_ok, flat_keys. rewrite Hn, Hv. cbn [orb].
        change (flatten_to_iri i) with (flat_item i). rewrite H. repeat split; try constructor. exact Hok.
      + unfold dash_free in Hok. apply negb_true_iff in Hok.
        destruct (iri_ok (link_of i) Hl Hok) as [Hn' [_ [A B]]].
        split; [|split; [exact A|rewrite B; constructor]].
        unfold flatten. rewrite Hn'. cbn [coll_view_of].
        change (flatten_to_iri (IIri false (link_of i))) with (flat_item (IIri false (link_of i))).
        rewrite flat_item_iri. reflexivity.
  Qed.
End Idem.

(* ---- the steps of Flatten*Properties as functions on the value of their field ---- *)
Definition item_of (ov : option fval) : item := match ov with Some (FItem i) => i | _ => INil end.
Definition items_of (ov : option fval) : option (list item) := match ov with Some (FItems l) => l | _ => None end.
(* what getf sees after setf: a zero value is an absent field *)
Definition fcanon (v : fval) : option fval := if fval_is_zero v then None else Some v.

Lemma item_of_fcanon i : item_of (fcanon (FItem i)) = i.
Proof. destruct i; reflexivity. Qed.
Lemma items_of_fcanon c : items_of (fcanon (FItems c)) = c.
Proof. destruct c; reflexivity. Qed.

Lemma delf_absent f fs : getf f fs = None -> delf f fs = fs.
Proof.
  induction fs as [|[g w] r IH]; [reflexivity|]. cbn [getf delf]. destruct (fid_beq f g); [discriminate|].
  intro H. rewrite (IH H). reflexivity.
Qed.
Lemma replf_same f v fs : getf f fs = Some v -> replf f v fs = fs.
Proof.
  induction fs as [|[g w] r IH]; [discriminate|]. cbn [getf replf]. destruct (fid_beq f g) eqn:E.
  - intro H. inversion H; subst w. apply fid_beq_true in E. subst g. reflexivity.
  - intro H. rewrite (IH H). reflexivity.
Qed.
Lemma setf_same f v fs : getf f fs = fcanon v -> setf f v fs = fs.
Proof.
  unfold setf, fcanon. destruct (fval_is_zero v); [apply delf_absent|apply replf_same].
Qed.
Lemma getf_setf_same f v fs : getf f (setf f v fs) = fcanon v.
Proof.
  unfold setf, fcanon. destruct (fval_is_zero v); [apply getf_delf_same|apply getf_replf_same].
Qed.

Definition fstep_eqb (s t : fstep) : bool :=
  match s, t with
  | SIri f, SIri g | SFlat f, SFlat g | SList f, SList g => fid_beq f g
  | _, _ => false
  end.
Lemma fstep_eqb_eq s t : fstep_eqb s t = true -> s = t.
Proof. destruct s, t; simpl; try discriminate; intro H; apply fid_beq_true in H; subst; reflexivity. Qed.

(* two statements that assign the same field are the same statement (result is assigned twice, by the same call) *)
Definition coherentb (ss : list fstep) : bool :=
  forallb (fun s => forallb (fun t => implb (fid_beq (step_fid s) (step_fid t)) (fstep_eqb s t)) ss) ss.
Definition coherent (ss : list fstep) : Prop :=
  forall s t, In s ss -> In t ss -> step_fid s = step_fid t -> s = t.
Lemma coherentb_spec ss : coherentb ss = true -> coherent ss.
Proof.
  intros H s t Hs Ht E. unfold coherentb in H. rewrite forallb_forall in H. specialize (H s Hs).
  rewrite forallb_forall in H. specialize (H t Ht). rewrite E, fid_beq_refl in H. apply fstep_eqb_eq. exact H.
Qed.
Lemma steps_coherent k : coherent (steps_of k).
Proof. apply coherentb_spec. destruct k; vm_compute; reflexivity. Qed.

Section Fields.
  Variable eqv : bytes -> bytes -> bool.
  Variable D : bytes -> Prop.
  Hypothesis eqv_sym : forall a b, D a -> D b -> eqv a b = eqv b a.
  Hypothesis eqv_trans : forall a b c, D a -> D b -> D c -> eqv a b = true -> eqv b c = true -> eqv a c = true.

  Definition act (s : fstep) (ov : option fval) : outcome fval :=
    match s with
    | SIri _ => Ok (FItem (flat_item (item_of ov)))
    | SFlat _ => omap FItem (flatten eqv (item_of ov))
    | SList _ => omap FItems (flatten_items eqv (items_of ov))
    end.

  Lemma run_step_act s fs :
    run_step (flatten eqv) (flatten_items eqv) s fs
    = obind (act s (getf (step_fid s) fs)) (fun v => Ok (setf (step_fid s) v fs)).
  Proof.
    destruct s as [f|f|f]; cbn [run_step act step_fid]; unfold upd_item, upd_items, to_iri, get_item, get_items,
      item_of, items_of.
    - reflexivity.
    - destruct (flatten eqv _); reflexivity.
    - destruct (flatten_items eqv _); reflexivity.
  Qed.

  (* the specification of what a flattened position holds afterwards, from what it held before *)
  Definition spec_out (s : fstep) (ov : option fval) : fval :=
    match s with
    | SIri _ => FItem (flat_item (item_of ov))
    | SFlat _ => FItem (flat_multi eqv (item_of ov))
    | SList _ => FItems (flat_list_spec eqv (items_of ov))
    end.

  (* the domain: the four Flatten positions hold values of flat_ok, and the ids compared by the de-duplications
     lie in the set D on which the comparison is symmetric and transitive *)
  Definition good (s : fstep) (ov : option fval) : Prop :=
    match s with
    | SIri _ => True
    | SFlat _ => flat_ok (item_of ov) = true /\ Forall D (flat_keys (item_of ov))
    | SList _ => Forall D (opt_keys (items_of ov))
    end.

  Lemma act_spec s ov : good s ov -> act s ov = Ok (spec_out s ov).
  Proof.
    destruct s as [f|f|f]; cbn [good act spec_out].
    - reflexivity.
    - intros [Hok HD]. rewrite (flatten_multi eqv D eqv_sym eqv_trans _ Hok HD). reflexivity.
    - intro HD. rewrite (flatten_items_refines eqv D eqv_sym eqv_trans _ HD). reflexivity.
  Qed.

  Lemma act_again s ov : good s ov -> act s (fcanon (spec_out s ov)) = Ok (spec_out s ov).
  Proof.
    destruct s as [f|f|f]; cbn [good act spec_out].
    - intros _. rewrite item_of_fcanon, flat_item_idem. reflexivity.
    - intros [Hok HD]. rewrite item_of_fcanon.
      destruct (flatten_idem eqv D eqv_sym eqv_trans _ _ Hok HD (flatten_multi eqv D eqv_sym eqv_trans _ Hok HD))
        as [H _].
      rewrite H. reflexivity.
    - intro HD. rewrite items_of_fcanon.
      destruct (flatten_items_idem eqv D eqv_sym eqv_trans _ _ HD
                  (flatten_items_refines eqv D eqv_sym eqv_trans _ HD)) as [H _].
      rewrite H. reflexivity.
  Qed.

  Section Run.
    Variable fs0 : list (fid * fval).      (* the value before *)

    (* a position either still holds what it held, or already what the specification says *)
    Definition inv (s : fstep) (fs : list (fid * fval)) : Prop :=
      getf (step_fid s) fs = getf (step_fid s) fs0 \/
      getf (step_fid s) fs = fcanon (spec_out s (getf (step_fid s) fs0)).

    Lemma run_step_inv s fs : good s (getf (step_fid s) fs0) -> inv s fs ->
      run_step (flatten eqv) (flatten_items eqv) s fs
      = Ok (setf (step_fid s) (spec_out s (getf (step_fid s) fs0)) fs).
    Proof.
      intros Hg [H|H]; rewrite run_step_act, H; [rewrite (act_spec s _ Hg)|rewrite (act_again s _ Hg)]; reflexivity.
    Qed.

    Lemma run_steps_value ss : coherent ss ->
      (forall s, In s ss -> good s (getf (step_fid s) fs0)) ->
      forall fs, (forall s, In s ss -> inv s fs) ->
      exists fs', run_steps (flatten eqv) (flatten_items eqv) ss fs = Ok fs' /\
        (forall s, In s ss -> getf (step_fid s) fs' = fcanon (spec_out s (getf (step_fid s) fs0))) /\
        (forall f, existsb (fun s => fid_beq f (step_fid s)) ss = false -> getf f fs' = getf f fs).
    Proof.
      induction ss as [|s0 r IH]; intros Hc Hg fs Hi.
      - exists fs. split; [reflexivity|]. split; [intros s []|reflexivity].
      - cbn [run_steps]. rewrite (run_step_inv s0 fs (Hg s0 (or_introl eq_refl)) (Hi s0 (or_introl eq_refl))).
        cbn [obind]. set (fs1 := setf (step_fid s0) (spec_out s0 (getf (step_fid s0) fs0)) fs).
        assert (Hc' : coherent r) by (intros s t Hs Ht; apply Hc; right; assumption).
        assert (Hi1 : forall s, In s r -> inv s fs1).
        { intros s Hs. destruct (fid_beq (step_fid s) (step_fid s0)) eqn:E.
          - apply fid_beq_true in E. assert (s = s0) by (apply Hc; [right; exact Hs|left; reflexivity|exact E]).
            subst s. right. unfold fs1. apply getf_setf_same.
          - assert (Hne : step_fid s <> step_fid s0) by (intro X; rewrite X, fid_beq_refl in E; discriminate).
            unfold inv, fs1. rewrite (getf_setf_other _ _ _ _ Hne). apply Hi. right. exact Hs. }
        destruct (IH Hc' (fun s Hs => Hg s (or_intror Hs)) fs1 Hi1) as [fs' [R [V F]]].
        exists fs'. split; [exact R|]. split.
        + intros s [<-|Hs]; [|apply V; exact Hs].
          destruct (existsb (fun t => fid_beq (step_fid s0) (step_fid t)) r) eqn:E.
          * apply existsb_exists in E. destruct E as [t [Ht Et]]. apply fid_beq_true in Et.
            assert (s0 = t) by (apply Hc; [left; reflexivity|right; exact Ht|exact Et]). subst t. apply V. exact Ht.
          * rewrite (F _ E). unfold fs1. apply getf_setf_same.
        + intros f E. cbn [existsb] in E. apply orb_false_iff in E. destruct E as [E0 Er].
          rewrite (F f Er). unfold fs1. apply getf_setf_other. intro X. rewrite X, fid_beq_refl in E0. discriminate.
    Qed.
  End Run.

  (* a value on which every step finds what it would write is left as it is *)
  Lemma run_steps_noop ss fs :
    (forall s, In s ss -> exists v, act s (getf (step_fid s) fs) = Ok v /\ fcanon v = getf (step_fid s) fs) ->
    run_steps (flatten eqv) (flatten_items eqv) ss fs = Ok fs.
  Proof.
    induction ss as [|s r IH]; intro H; [reflexivity|].
    cbn [run_steps]. rewrite run_step_act. destruct (H s (or_introl eq_refl)) as [v [A C]].
    rewrite A. cbn [obind]. rewrite (setf_same _ _ _ (eq_sym C)). apply IH. intros t Ht. apply H. right. exact Ht.
  Qed.

  Definition fields_good (k : fkind) (fs : list (fid * fval)) : Prop :=
    forall s, In s (steps_of k) -> good s (getf (step_fid s) fs).

  (* whole value: what Flatten*Properties leaves in every flattened position, and it does not fail *)
  Theorem flatten_fields_value k fs : fields_good k fs ->
    exists fs', flatten_fields eqv k fs = Ok fs' /\
      (forall s, In s (steps_of k) -> getf (step_fid s) fs' = fcanon (spec_out s (getf (step_fid s) fs))) /\
      (forall f, flattened_in k f = false -> getf f fs' = getf f fs).
  Proof.
    intro Hg. rewrite flatten_fields_steps.
    apply (run_steps_value fs (steps_of k) (steps_coherent k) Hg fs). intros s _. left. reflexivity.
  Qed.

  (* whole value: flattening twice equals flattening once *)
  Theorem flatten_fields_idem k fs fs' : fields_good k fs ->
    flatten_fields eqv k fs = Ok fs' -> flatten_fields eqv k fs' = Ok fs'.
  Proof.
    intros Hg H. destruct (flatten_fields_value k fs Hg) as [fs1 [R [V _]]].
    rewrite R in H. inversion H; subst fs1. clear H.
    rewrite flatten_fields_steps. apply run_steps_noop. intros s Hs.
    exists (spec_out s (getf (step_fid s) fs)). rewrite (V s Hs). split; [|reflexivity].
    apply act_again. apply Hg. exact Hs.
  Qed.
End Fields.

(* ---- FlattenProperties: the dispatch depends on the struct type and the Type string only ---- *)
Definition fp_dispatch (k : kind) (t : bytes) : option (option fkind) :=
  match k with
  | KLink => None
  | _ =>
    if tl_contains tl_IntransitiveActivityTypes t then
      match k with KIntransitive | KQuestion | KActivity => Some (Some FKIntransitive) | _ => None end
    else if tl_contains tl_ActivityTypes t then
      match k with KActivity => Some (Some FKActivity) | _ => None end
    else if tl_contains tl_ActorTypes t then
      match k with KActor => Some (Some FKActor) | _ => None end
    else if tl_contains tl_ObjectTypes t then Some (Some FKObject)
    else Some None
  end.

Lemma flatten_properties_dispatch eqv k fs :
  flatten_properties eqv (IObj true k fs) =
  match fp_dispatch k (get_str F_Type fs) with
  | None => Err
  | Some None => Ok (IObj true k fs)
  | Some (Some fk) => omap (IObj true k) (flatten_fields eqv fk fs)
  end.
Proof.
  unfold flatten_properties, fp_dispatch. cbn [is_nil].
  generalize (tl_contains tl_IntransitiveActivityTypes (get_str F_Type fs)),
             (tl_contains tl_ActivityTypes (get_str F_Type fs)),
             (tl_contains tl_ActorTypes (get_str F_Type fs)),
             (tl_contains tl_ObjectTypes (get_str F_Type fs)).
  intros b1 b2 b3 b4. generalize (flatten_fields eqv). intro ff.
  destruct k; try reflexivity; destruct b1; try reflexivity; destruct b2; try reflexivity;
    destruct b3; try reflexivity; destruct b4; reflexivity.
Qed.

Lemma steps_subset k s : In s (steps_of k) -> In s (steps_of FKActivity).
Proof.
  intro H. assert (E : forallb (fun s => existsb (fstep_eqb s) (steps_of FKActivity)) (steps_of k) = true)
    by (destruct k; vm_compute; reflexivity).
  rewrite forallb_forall in E. specialize (E s H). apply existsb_exists in E. destruct E as [t [Ht Et]].
  apply fstep_eqb_eq in Et. subst t. exact Ht.
Qed.

Section Properties.
  Variable eqv : bytes -> bytes -> bool.
  Variable D : bytes -> Prop.
  Hypothesis eqv_sym : forall a b, D a -> D b -> eqv a b = eqv b a.
  Hypothesis eqv_trans : forall a b c, D a -> D b -> D c -> eqv a b = true -> eqv b c = true -> eqv a c = true.

  Lemma fields_good_subset k fs : fields_good D FKActivity fs -> fields_good D k fs.
  Proof. intros H s Hs. apply H. apply steps_subset with k. exact Hs. Qed.

  (* the domain, on an item: every position any of the four functions flattens is within its domain *)
  Definition props_good (x : item) : Prop :=
    match x with IObj _ _ fs => fields_good D FKActivity fs | _ => True end.

  Theorem flatten_properties_idem x x' : props_good x ->
    flatten_properties eqv x = Ok x' -> flatten_properties eqv x' = Ok x'.
  Proof.
    intros Hg H.
    assert (Hnil : forall y, is_nil y = true -> flatten_properties eqv y = Ok x' -> flatten_properties eqv x' = Ok x').
    { intros y Hy Hf. unfold flatten_properties in Hf. rewrite Hy in Hf. inversion Hf. reflexivity. }
    assert (Hnotobj : forall y, is_nil y = false -> match y with IObj true _ _ => False | _ => True end ->
                      flatten_properties eqv y = Ok x' -> False).
    { intros y Hy Hs Hf. unfold flatten_properties in Hf. rewrite Hy in Hf.
      destruct y as [| |? ?|[|] ? ?|? ?|? ?]; try discriminate. contradiction. }
    destruct (is_nil x) eqn:Hn; [exact (Hnil x Hn H)|].
    destruct x as [|k0|p s|p k fs|p l|p l]; try (exfalso; exact (Hnotobj _ Hn I H)).
    destruct p; [|exfalso; exact (Hnotobj _ Hn I H)].
    rewrite flatten_properties_dispatch in H.
    destruct (fp_dispatch k (get_str F_Type fs)) as [[fk|]|] eqn:Ed; [| |discriminate].
    - destruct (flatten_fields eqv fk fs) as [fs'| | |] eqn:Ef; try discriminate.
      cbn [omap obind] in H. inversion H; subst x'. clear H.
      assert (Et : get_str F_Type fs' = get_str F_Type fs).
      { unfold get_str. rewrite (flatten_fields_frame eqv fk fs fs' F_Type Ef); [reflexivity|].
        destruct fk; vm_compute; reflexivity. }
      rewrite flatten_properties_dispatch, Et, Ed.
      rewrite (flatten_fields_idem eqv D eqv_sym eqv_trans fk fs fs' (fields_good_subset fk fs Hg) Ef).
      reflexivity.
    - inversion H; subst x'. rewrite flatten_properties_dispatch, Ed. reflexivity.
  Qed.
End Properties.

(* ---- the domain as a decidable condition (ids drawn from a finite pool), for examples and for the
   correspondence check ---- *)
Definition inb (dom : list bytes) (k : bytes) : bool := existsb (bytes_eqb k) dom.
Lemma inb_In dom k : inb dom k = true -> In k dom.
Proof.
  unfold inb. intro H. apply existsb_exists in H. destruct H as [d [Hd E]].
  apply bytes_eqb_eq in E. subst d. exact Hd.
Qed.
Lemma forallb_inb dom l : forallb (inb dom) l = true -> Forall (fun a => In a dom) l.
Proof. intro H. apply Forall_forall. intros x Hx. rewrite forallb_forall in H. apply inb_In. apply H. exact Hx. Qed.

Definition goodb (dom : list bytes) (s : fstep) (ov : option fval) : bool :=
  match s with
  | SIri _ => true
  | SFlat _ => flat_ok (item_of ov) && forallb (inb dom) (flat_keys (item_of ov))
  | SList _ => forallb (inb dom) (opt_keys (items_of ov))
  end.
Definition fields_goodb (dom : list bytes) (k : fkind) (fs : list (fid * fval)) : bool :=
  forallb (fun s => goodb dom s (getf (step_fid s) fs)) (steps_of k).

Lemma fields_goodb_spec dom k fs : fields_goodb dom k fs = true -> fields_good (fun a => In a dom) k fs.
Proof.
  intros H s Hs. unfold fields_goodb in H. rewrite forallb_forall in H. specialize (H s Hs).
  destruct s as [f|f|f]; cbn [good goodb] in *.
  - exact I.
  - apply andb_true_iff in H. destruct H as [H1 H2]. split; [exact H1|apply forallb_inb; exact H2].
  - apply forallb_inb. exact H.
Qed.

(* the instance the correspondence check runs: IRI.Equals(., ., false), ids from a pool on which it was
   checked to be symmetric and transitive *)
Theorem flatten_fields_idem_pool dom k fs fs' :
  sym_on ideq dom = true -> trans_on ideq dom = true -> fields_goodb dom k fs = true ->
  flatten_fields_m k fs = Ok fs' -> flatten_fields_m k fs' = Ok fs'.
Proof.
  intros Hs Ht Hg. unfold flatten_fields_m.
  apply (flatten_fields_idem ideq (fun a => In a dom)).
  - apply sym_on_spec. exact Hs.
  - apply trans_on_spec. exact Ht.
  - apply fields_goodb_spec. exact Hg.
Qed.

(* ---- "no IRI appears in the result that was not an id or IRI inside the original", whole value ---- *)
(* the entries of a flattened position: the item itself, or the members of the list / opened collection *)
Definition entries (i : item) : list item :=
  if is_nil i then []
  else match coll_view_of i with CVItems (Some l) => l | CVItems None => [] | _ => [i] end.
Definition in_entries (s : fstep) (ov : option fval) : list item :=
  match s with
  | SIri _ => [item_of ov]
  | SFlat _ => entries (item_of ov)
  | SList _ => match items_of ov with Some l => l | None => [] end
  end.
Definition out_entries (s : fstep) (ov : option fval) : list item :=
  match s, ov with
  | SIri _, Some (FItem i) => [i]
  | SFlat _, Some (FItem (IItems false (Some l))) => l
  | SFlat _, Some (FItem i) => [i]
  | SList _, Some (FItems (Some l)) => l
  | _, _ => []
  end.

Lemma plain_flat_not_list x : plain x = true -> forall l, flat_item x <> IItems false (Some l).
Proof.
  intros Hp l. destruct (plain_parts x Hp) as [->|[Hn [Hv _]]]; [discriminate|].
  destruct (flat_item_cases x) as [H|[H _]]; rewrite H; [|discriminate].
  intro E. subst x. discriminate.
Qed.

Lemma out_entries_fcanon s v y : In y (out_entries s (fcanon v)) -> In y (out_entries s (Some v)).
Proof. unfold fcanon. destruct (fval_is_zero v); [destruct s; intros []|auto]. Qed.

Section Entries.
  Variable eqv : bytes -> bytes -> bool.
  Variable D : bytes -> Prop.

  Lemma spec_out_entries s ov y : good D s ov -> In y (out_entries s (Some (spec_out eqv s ov))) ->
    y = INil \/ exists x, In x (in_entries s ov) /\ (y = x \/ y = flat_item x).
  Proof.
    destruct s as [f|f|f]; cbn [good spec_out in_entries].
    - intros _ [<-|[]]. right. exists (item_of ov). split; [left; reflexivity|right; reflexivity].
    - intros [Hok _]. unfold flat_multi, entries, flat_ok in *. destruct (is_nil (item_of ov)); [intros [<-|[]]; left; reflexivity|].
      cbn [orb] in Hok. destruct (coll_view_of (item_of ov)) as [[l|]| | |] eqn:Hv; try discriminate.
      + cbn [flat_list_spec]. remember (keep_first eqv [] l) as kept eqn:Ek.
        assert (Hkept : forall x, In x kept -> In x l).
        { intros x Hx. subst kept. eapply subseq_In; [apply keep_first_subseq|exact Hx]. }
        rewrite forallb_forall in Hok.
        destruct kept as [|x [|x2 r]]; cbn [map normalize].
        * intros [<-|[]]. left. reflexivity.
        * pose proof (plain_flat_not_list x (Hok x (Hkept x (or_introl eq_refl)))) as Hnl.
          assert (E : out_entries (SFlat f) (Some (FItem (flat_item x))) = [flat_item x]).
          { cbn [out_entries]. destruct (flat_item x) as [| | | |[|] [l0|]|]; try reflexivity. contradiction (Hnl l0). reflexivity. }
          rewrite E. intros [<-|[]]. right. exists x. split; [apply Hkept; left; reflexivity|right; reflexivity].
        * cbn [out_entries]. intro Hy. change (flat_item x :: flat_item x2 :: map flat_item r) with (map flat_item (x :: x2 :: r)) in Hy.
          apply in_map_iff in Hy. destruct Hy as [w [<- Hw]]. right. exists w. split; [apply Hkept; exact Hw|right; reflexivity].
      + intros [<-|[]]. left. reflexivity.
      + (* kept as it is *)
        assert (E : out_entries (SFlat f) (Some (FItem (item_of ov))) = [item_of ov]).
        { cbn [out_entries]. destruct (item_of ov) as [| | | |[|] [l0|]|]; try reflexivity; discriminate. }
        rewrite E. intros [<-|[]]. right. exists (item_of ov). split; [left; reflexivity|left; reflexivity].
      + assert (E : out_entries (SFlat f) (Some (FItem (flat_item (item_of ov)))) = [flat_item (item_of ov)]).
        { cbn [out_entries]. destruct (flat_item_cases (item_of ov)) as [H|[H _]]; rewrite H; [|reflexivity].
          destruct (item_of ov) as [| | | |[|] [l0|]|]; try reflexivity; discriminate. }
        rewrite E. intros [<-|[]]. right. exists (item_of ov). split; [left; reflexivity|right; reflexivity].
    - intros _. cbn [out_entries]. destruct (items_of ov) as [l|]; cbn [flat_list_spec]; [|intros []].
      intro Hy. apply in_map_iff in Hy. destruct Hy as [w [<- Hw]]. right. exists w. split; [|right; reflexivity].
      eapply subseq_In; [apply keep_first_subseq|exact Hw].
  Qed.

  Hypothesis eqv_sym : forall a b, D a -> D b -> eqv a b = eqv b a.
  Hypothesis eqv_trans : forall a b c, D a -> D b -> D c -> eqv a b = true -> eqv b c = true -> eqv a c = true.

  (* every entry of a flattened position afterwards is nil, an entry of that position before, or the flattening of
     one; in particular every IRI afterwards was an IRI entry or is the id of an entry before *)
  Theorem flatten_fields_entries k fs fs' : fields_good D k fs -> flatten_fields eqv k fs = Ok fs' ->
    forall s, In s (steps_of k) -> forall y, In y (out_entries s (getf (step_fid s) fs')) ->
    y = INil \/ exists x, In x (in_entries s (getf (step_fid s) fs)) /\ (y = x \/ y = flat_item x).
  Proof.
    intros Hg H s Hs y Hy. destruct (flatten_fields_value eqv D eqv_sym eqv_trans k fs Hg) as [fs1 [R [V _]]].
    rewrite R in H. inversion H; subst fs1. rewrite (V s Hs) in Hy. apply out_entries_fcanon in Hy.
    exact (spec_out_entries s _ y (Hg s Hs) Hy).
  Qed.

  Theorem flatten_fields_no_new_iri k fs fs' : fields_good D k fs -> flatten_fields eqv k fs = Ok fs' ->
    forall s, In s (steps_of k) -> forall p i, In (IIri p i) (out_entries s (getf (step_fid s) fs')) ->
    exists x, In x (in_entries s (getf (step_fid s) fs)) /\ (x = IIri p i \/ (p = false /\ i = link_of x)).
  Proof.
    intros Hg H s Hs p i Hy. destruct (flatten_fields_entries k fs fs' Hg H s Hs _ Hy) as [E|[x [Hx [E|E]]]]; [discriminate| |].
    - exists x. split; [exact Hx|left; symmetry; exact E].
    - exists x. split; [exact Hx|]. destruct (flat_item_cases x) as [F|[F _]]; rewrite F in E.
      + left. symmetry. exact E.
      + right. inversion E. auto.
  Qed.
End Entries.
