(* Lemmas about Model/Flatten.v *)
From AP.Model Require Import Prelude Vocab Pred IriEq Recip Flatten.
From AP.Proofs Require Import IriEqP RecipP.

(* ---- one item ---- *)
Lemma flat_item_cases i :
  flat_item i = i \/
  (flat_item i = IIri false (link_of i) /\ link_of i <> [] /\ objectish i = true /\ is_nil i = false).
Proof.
  unfold flat_item, flatten_to_iri.
  destruct (is_nil i) eqn:En; simpl; [left; reflexivity|].
  destruct (objectish i) eqn:Eo; simpl; [|left; reflexivity].
  destruct (link_of i) eqn:El; simpl; [left; reflexivity|].
  right. repeat split; auto. discriminate.
Qed.

(* plain IRIs, links (anything whose IsObject() is false) and items without an id stay as they were *)
Lemma flat_item_keeps i : is_nil i = true \/ objectish i = false \/ link_of i = [] -> flat_item i = i.
Proof.
  unfold flat_item, flatten_to_iri. intros [H|[H|H]]; rewrite H; simpl; try reflexivity.
  - rewrite andb_false_r. reflexivity.
  - rewrite andb_false_r. reflexivity.
Qed.

Lemma flat_item_iri p s : flat_item (IIri p s) = IIri p s.
Proof. apply flat_item_keeps. right. left. reflexivity. Qed.

Lemma flat_item_idem i : flat_item (flat_item i) = flat_item i.
Proof.
  destruct (flat_item_cases i) as [H|[H _]]; rewrite H; [exact H|]. apply flat_item_iri.
Qed.

(* ---- lists ---- *)
Section Lists.
  Variable eqv : bytes -> bytes -> bool.
  Variable D : bytes -> Prop.
  Hypothesis eqv_sym : forall a b, D a -> D b -> eqv a b = eqv b a.
  Hypothesis eqv_trans : forall a b c, D a -> D b -> D c -> eqv a b = true -> eqv b c = true -> eqv a c = true.

  Lemma flatten_items_refines c :
    Forall D (opt_keys c) -> flatten_items eqv c = Ok (flat_list_spec eqv c).
  Proof.
    destruct c as [l|]; intros HD; [|reflexivity].
    unfold flatten_items.
    rewrite (dedup_refines' eqv D eqv_sym eqv_trans [Some l]).
    - reflexivity.
    - unfold scan_order. simpl. rewrite app_nil_r. exact HD.
  Qed.
End Lists.

(* what the list specification means: every entry of the result is the flattening of an entry of the original
   (nothing invented), in the original order, entries without an id all stay *)
Lemma flat_list_meaning eqv l :
  exists kept, flat_list_spec eqv (Some l) = Some (map flat_item kept) /\ subseq kept l /\
               filter has_no_key kept = filter has_no_key l /\
               keys_of kept = first_mentions eqv (keys_of l).
Proof.
  exists (keep_first eqv [] l). split; [reflexivity|]. split; [apply keep_first_subseq|].
  split; [apply keep_first_nokey | apply keys_keep_first].
Qed.

(* ---- frame ---- *)
Section Frame.
  Variable fl : item -> outcome item.
  Variable fli : option (list item) -> outcome (option (list item)).

  Lemma run_step_frame s fs fs' f :
    run_step fl fli s fs = Ok fs' -> f <> step_fid s -> getf f fs' = getf f fs.
  Proof.
    destruct s as [g|g|g]; simpl; unfold upd_item, upd_items; intros H Hn;
      apply obind_ok in H; destruct H as [v [_ H]]; inversion H; apply getf_setf_other; exact Hn.
  Qed.

  Lemma run_steps_frame ss : forall fs fs' f,
    run_steps fl fli ss fs = Ok fs' -> existsb (fun s => fid_beq f (step_fid s)) ss = false ->
    getf f fs' = getf f fs.
  Proof.
    induction ss as [|s ss IH]; intros fs fs' f H Hn; simpl in H.
    - inversion H. reflexivity.
    - simpl in Hn. apply orb_false_iff in Hn. destruct Hn as [Hs Hr].
      apply obind_ok in H. destruct H as [fs1 [H1 H2]].
      rewrite (IH _ _ _ H2 Hr). eapply run_step_frame; eauto.
      intros ->. rewrite fid_beq_refl in Hs. discriminate.
  Qed.
End Frame.

Lemma flatten_fields_steps eqv k fs :
  flatten_fields eqv k fs = run_steps (flatten eqv) (flatten_items eqv) (steps_of k) fs.
Proof. destruct k; reflexivity. Qed.

Lemma flatten_fields_frame eqv k fs fs' f :
  flatten_fields eqv k fs = Ok fs' -> flattened_in k f = false -> getf f fs' = getf f fs.
Proof.
  rewrite flatten_fields_steps. unfold flattened_in. apply run_steps_frame.
Qed.

(* the positions the code flattens are exactly the ones the property lists (activities; the others a subset) *)
Lemma positions_match :
  forall f, flattened_in FKActivity f = existsb (fid_beq f) property_positions.
Proof. intros f. destruct f; vm_compute; reflexivity. Qed.
Lemma positions_subset k f : flattened_in k f = true -> flattened_in FKActivity f = true.
Proof. destruct k, f; vm_compute; intros H; try reflexivity; discriminate. Qed.

(* ---- what is written to a flattened position ---- *)
(* single positions: the step writes flat_item of what was there *)
Lemma upd_item_to_iri f fs : upd_item f to_iri fs = Ok (setf f (FItem (flat_item (get_item f fs))) fs).
Proof. reflexivity. Qed.

(* Flatten on a non-collection item is flat_item, nil becomes nil *)
Lemma flatten_noncoll eqv i :
  is_nil i = false -> coll_view_of i = CVNone -> flatten eqv i = Ok (flat_item i).
Proof. intros Hn Hc. unfold flatten. rewrite Hn, Hc. reflexivity. Qed.
Lemma flatten_nil eqv i : is_nil i = true -> flatten eqv i = Ok INil.
Proof. intros Hn. unfold flatten. rewrite Hn. reflexivity. Qed.
Lemma flatten_list (eqv : bytes -> bytes -> bool) (D : bytes -> Prop) (l : list item) :
  (forall a b, D a -> D b -> eqv a b = eqv b a) ->
  (forall a b c, D a -> D b -> D c -> eqv a b = true -> eqv b c = true -> eqv a c = true) ->
  Forall D (keys_of l) ->
  flatten eqv (IItems false (Some l)) = Ok (normalize (flat_list_spec eqv (Some l))).
Proof.
  intros Hs Ht HD. unfold flatten.
  change (is_nil (IItems false (Some l))) with false. cbv iota.
  change (coll_view_of (IItems false (Some l))) with (CVItems (Some l)). cbv iota.
  rewrite (flatten_items_refines eqv D Hs Ht (Some l) HD). reflexivity.
Qed.
