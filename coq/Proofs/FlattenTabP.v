(* The tie between the generated flatten.go tables (Gen/FlattenT.v) and the hand-written step lists of
   Model/Flatten.v:
     flatten_table_ok tbl d = true -> flatten_fields_t tbl eqv k fs = flatten_fields eqv k fs
   for every id comparison, every entry point k and every field list fs. *)
From AP.Model Require Import Prelude Vocab Pred IriEq Layout Recip Flatten FlattenTab TabEq.
From AP.Proofs Require Import TabEqP.
From AP.Proofs Require Import FlattenP.

Lemma osteps_beq_eq a b : osteps_beq a b = true -> a = b.
Proof.
  destruct a as [x|], b as [y|]; simpl; try discriminate; [|reflexivity].
  intro H. f_equal. apply (lbeq_eq _ internal_fstep_dec_bl). exact H.
Qed.

Lemma all_fkinds_complete k : In k all_fkinds.
Proof. destruct k; simpl; tauto. Qed.

Lemma steps_ok_spec tbl : flatten_steps_ok tbl = true -> forall k, steps_t tbl k = Some (steps_of k).
Proof.
  unfold flatten_steps_ok. rewrite forallb_forall. intros H k.
  specialize (H k (all_fkinds_complete k)). apply andb_prop in H. destruct H as [H _].
  apply osteps_beq_eq. exact H.
Qed.

Theorem flatten_table_tie tbl d : flatten_table_ok tbl d = true ->
  forall eqv k fs, flatten_fields_t tbl eqv k fs = flatten_fields eqv k fs.
Proof.
  intros Hok eqv k fs. unfold flatten_table_ok in Hok.
  apply andb_prop in Hok. destruct Hok as [Hok _]. apply andb_prop in Hok. destruct Hok as [Hok _].
  apply andb_prop in Hok. destruct Hok as [Hok _].
  unfold flatten_fields_t. rewrite (steps_ok_spec tbl Hok). symmetry. apply flatten_fields_steps.
Qed.

(* the flattened positions, read off the TABLE: every table that satisfies the condition flattens exactly the
   positions the model flattens (and those are the property's list: Props/C16.v C16_positions) *)
Definition flattened_in_t (tbl : list flfn) (k : fkind) (f : fid) : bool :=
  match steps_t tbl k with
  | Some ss => existsb (fun s => fid_beq f (step_fid s)) ss
  | None => false
  end.
Theorem flatten_table_positions tbl d : flatten_table_ok tbl d = true ->
  forall k f, flattened_in_t tbl k f = flattened_in k f.
Proof.
  intros Hok k f. unfold flatten_table_ok in Hok.
  apply andb_prop in Hok. destruct Hok as [Hok _]. apply andb_prop in Hok. destruct Hok as [Hok _].
  apply andb_prop in Hok. destruct Hok as [Hok _].
  unfold flattened_in_t. rewrite (steps_ok_spec tbl Hok). reflexivity.
Qed.
