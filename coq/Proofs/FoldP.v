(* strings.EqualFold as modelled in Model/Fold.v is the kernel of the canonical form [ucanon] (the decoded runes,
   each replaced by the smallest rune of its simple-folding orbit).  What the IRI theorems need of the folding
   table is the decidable condition [fold_tab_ok]: no non-ASCII rune folds onto an ASCII rune other than "K" and
   "S" - so every ASCII byte that is not a letter stands for itself only, and so does every hex digit up to
   ASCII letter case.  Generic in the table; instantiated with the generated one by vm_compute. *)
From AP.Model Require Import Prelude Bytes Url IriEq IriNf Vocab Pred CollIri Utf8 FoldTab Fold.
From AP.Proofs Require Import NlvP LowerP Utf8P.

Lemma nlist_eqb_eq a : forall b, nlist_eqb a b = true <-> a = b.
Proof.
  induction a as [|x a IH]; intros [|y b]; simpl; split; try discriminate; try reflexivity.
  - rewrite andb_true_iff, N.eqb_eq, IH. intros [-> ->]. reflexivity.
  - intros H. inversion H; subst. rewrite N.eqb_refl. simpl. apply IH. reflexivity.
Qed.

Section Tab.
  Variable tab : list (N * N).
  Hypothesis tab_ok : fold_tab_ok tab = true.
  Notation cn := (canon_with tab).
  Notation uc := (ucanon_with tab).

  Lemma tab_lookup_cases r t : tab_lookup r t = r \/ In (r, tab_lookup r t) t.
  Proof.
    induction t as [|[k v] t IH]; simpl; [left; reflexivity|].
    destruct (k =? r)%N eqn:E.
    - apply N.eqb_eq in E. subst k. right. left. reflexivity.
    - destruct IH as [IH|IH]; [left; exact IH|right; right; exact IH].
  Qed.

  Lemma canon_ascii r : (r < 128)%N -> cn r = ascii_canon r.
  Proof. intros H. unfold canon_with. apply N.ltb_lt in H. rewrite H. reflexivity. Qed.

  Lemma ascii_canon_lt r : (r < 128)%N -> (ascii_canon r < 128)%N.
  Proof. unfold ascii_canon. destruct ((97 <=? r) && (r <=? 122))%N; lia. Qed.

  Lemma canon_big r : (128 <= r)%N -> (128 <= cn r)%N \/ cn r = 75%N \/ cn r = 83%N.
  Proof.
    intros H. unfold canon_with. assert ((r <? 128)%N = false) as -> by (apply N.ltb_ge; exact H).
    destruct (tab_lookup_cases r tab) as [E|E]; [rewrite E; left; exact H|].
    unfold fold_tab_ok in tab_ok. rewrite forallb_forall in tab_ok. specialize (tab_ok _ E). cbn [fst snd] in tab_ok.
    rewrite andb_true_iff, !orb_true_iff, N.leb_le, N.leb_le, !N.eqb_eq in tab_ok. tauto.
  Qed.

  (* an ASCII rune that is not a letter is the canonical form of itself only *)
  Definition is_delim_n (d : N) : bool := ((d <? 128) && negb ((65 <=? d) && (d <=? 90)) && negb ((97 <=? d) && (d <=? 122)))%N.

  Lemma canon_delim d x : is_delim_n d = true -> (cn x = d <-> x = d).
  Proof.
    unfold is_delim_n. rewrite !andb_true_iff, !negb_true_iff, !andb_false_iff, N.ltb_lt, !N.leb_gt. intros [[H1 H2] H3].
    split.
    - intros E. destruct (N.lt_ge_cases x 128) as [L|G].
      + rewrite (canon_ascii x L) in E. unfold ascii_canon in E.
        destruct ((97 <=? x) && (x <=? 122))%N eqn:C; [|exact E].
        rewrite andb_true_iff, !N.leb_le in C. lia.
      + destruct (canon_big x G) as [B|[B|B]]; lia.
    - intros ->. rewrite (canon_ascii d H1). unfold ascii_canon.
      destruct ((97 <=? d) && (d <=? 122))%N eqn:C; [|reflexivity]. rewrite andb_true_iff, !N.leb_le in C. lia.
  Qed.

  (* an ASCII letter other than k, s: its canonical form is shared with the other letter case only *)
  Lemma canon_ascii_partner a x : (a < 128)%N -> ascii_canon a <> 75%N -> ascii_canon a <> 83%N ->
    cn x = cn a -> (x < 128)%N /\ ascii_canon x = ascii_canon a.
  Proof.
    intros La Hk Hs E. rewrite (canon_ascii a La) in E.
    destruct (N.lt_ge_cases x 128) as [L|G].
    - split; [exact L|]. rewrite (canon_ascii x L) in E. exact E.
    - pose proof (ascii_canon_lt a La). destruct (canon_big x G) as [B|[B|B]]; [lia|congruence|congruence].
  Qed.

  (* ---- strings ---- *)
  Lemma ucanon_nil s : uc s = [] -> s = [].
  Proof. unfold ucanon_with. intros H. apply map_eq_nil in H. apply runes_nil. exact H. Qed.

  Lemma ucanon_app_ascii x c y : is_asciib c = true -> uc (x ++ c :: y) = uc x ++ cn (byteN c) :: uc y.
  Proof. intros H. unfold ucanon_with. rewrite (runes_app_ascii x c y H), map_app. reflexivity. Qed.

  Lemma ucanon_app_valid x y : utf8_valid x = true -> uc (x ++ y) = uc x ++ uc y.
  Proof. intros H. unfold ucanon_with. rewrite (runes_app_valid x y H), map_app. reflexivity. Qed.

  Lemma ucanon_app_sync x y : starts y -> uc (x ++ y) = uc x ++ uc y.
  Proof. intros H. unfold ucanon_with. rewrite (runes_app_sync x y H), map_app. reflexivity. Qed.

  Lemma ucanon_cons_ascii c y : is_asciib c = true -> uc (c :: y) = cn (byteN c) :: uc y.
  Proof. intros H. apply (ucanon_app_ascii [] c y H). Qed.

  Definition is_delim (c : byte) : bool := is_delim_n (byteN c).
  Lemma delim_ascii c : is_delim c = true -> is_asciib c = true.
  Proof. unfold is_delim, is_delim_n, is_asciib. rewrite !andb_true_iff. tauto. Qed.
  Lemma canon_delim_fixed c : is_delim c = true -> cn (byteN c) = byteN c.
  Proof. intros H. apply (canon_delim (byteN c) (byteN c) H). reflexivity. Qed.

  (* a delimiter occurs in the canonical form exactly when it occurs in the string *)
  Lemma ucanon_in_delim s c : is_delim c = true -> (In (byteN c) (uc s) <-> In c s).
  Proof.
    intros Hc. unfold ucanon_with. rewrite in_map_iff. split.
    - intros [x [E Hx]]. apply (canon_delim (byteN c) x Hc) in E. subst x.
      apply (runes_in_ascii s c (delim_ascii c Hc)). exact Hx.
    - intros H. exists (byteN c). split; [apply canon_delim_fixed; exact Hc|].
      apply (runes_in_ascii s c (delim_ascii c Hc)). exact H.
  Qed.

  Lemma ucanon_ascii s : forallb is_asciib s = true -> uc s = map (fun b => ascii_canon (byteN b)) s.
  Proof.
    intros H. unfold ucanon_with. rewrite (runes_ascii s H), map_map. apply map_ext_in. intros b Hb.
    apply canon_ascii. rewrite forallb_forall in H. specialize (H b Hb). unfold is_asciib in H. apply N.ltb_lt. exact H.
  Qed.
End Tab.

(* ================================================================ the generated table *)
Lemma fold_tab_is_ok : fold_tab_ok fold_tab = true.
Proof. vm_compute. reflexivity. Qed.

Lemma ufold_eqb_eq a b : ufold_eqb a b = true <-> ucanon a = ucanon b.
Proof. unfold ufold_eqb. apply nlist_eqb_eq. Qed.

Lemma ufold_eqb_refl a : ufold_eqb a a = true.
Proof. apply ufold_eqb_eq. reflexivity. Qed.
Lemma ufold_eqb_sym a b : ufold_eqb a b = ufold_eqb b a.
Proof.
  destruct (ufold_eqb a b) eqn:E.
  - symmetry. apply ufold_eqb_eq. symmetry. apply ufold_eqb_eq. exact E.
  - destruct (ufold_eqb b a) eqn:E'; [|reflexivity]. apply ufold_eqb_eq in E'. symmetry in E'. apply ufold_eqb_eq in E'. congruence.
Qed.
Lemma ufold_eqb_trans a b c : ufold_eqb a b = true -> ufold_eqb b c = true -> ufold_eqb a c = true.
Proof. rewrite !ufold_eqb_eq. congruence. Qed.

(* on ASCII strings it is the ASCII folding of Model/Prelude.v *)
Lemma ascii_canon_lower_all :
  forallb (fun a => forallb (fun b => implb (is_asciib a && is_asciib b)
     (Bool.eqb (ascii_canon (byteN a) =? ascii_canon (byteN b))%N (Byte.eqb (lower_byte a) (lower_byte b)))) all_bytes) all_bytes = true.
Proof. vm_compute. reflexivity. Qed.

Lemma ascii_canon_lower a b : is_asciib a = true -> is_asciib b = true ->
  (ascii_canon (byteN a) = ascii_canon (byteN b) <-> lower_byte a = lower_byte b).
Proof.
  intros Ha Hb. pose proof (sweep _ ascii_canon_lower_all a) as S. cbv beta in S. rewrite forallb_forall in S.
  specialize (S b (all_bytes_in b)). rewrite Ha, Hb in S. simpl in S. apply eqb_prop in S.
  rewrite <- N.eqb_eq, <- beqb_eq, S. tauto.
Qed.

Lemma ucanon_ascii_lower a : forall b, forallb is_asciib a = true -> forallb is_asciib b = true ->
  (ucanon a = ucanon b <-> lower a = lower b).
Proof.
  intros b Ha Hb. unfold ucanon. rewrite (ucanon_ascii fold_tab a Ha), (ucanon_ascii fold_tab b Hb).
  revert b Ha Hb. induction a as [|x a IH]; intros [|y b] Ha Hb; simpl; split; try discriminate; try reflexivity.
  - simpl in Ha, Hb. rewrite andb_true_iff in Ha, Hb. destruct Ha as [Hx Ha], Hb as [Hy Hb].
    intros H. inversion H as [[H1 H2]]. f_equal; [apply (ascii_canon_lower x y Hx Hy); exact H1|apply (IH b Ha Hb); exact H2].
  - simpl in Ha, Hb. rewrite andb_true_iff in Ha, Hb. destruct Ha as [Hx Ha], Hb as [Hy Hb].
    intros H. inversion H as [[H1 H2]]. f_equal; [apply (ascii_canon_lower x y Hx Hy); exact H1|apply (IH b Ha Hb); exact H2].
Qed.

Lemma ufold_eqb_ascii a b : forallb is_asciib a = true -> forallb is_asciib b = true -> ufold_eqb a b = fold_eqb a b.
Proof.
  intros Ha Hb. pose proof (ucanon_ascii_lower a b Ha Hb) as C.
  destruct (ufold_eqb a b) eqn:E1, (fold_eqb a b) eqn:E2; try reflexivity.
  - apply ufold_eqb_eq in E1. apply C in E1. unfold fold_eqb in E2. apply bytes_eqb_neq in E2. contradiction.
  - unfold fold_eqb in E2. apply bytes_eqb_eq in E2. apply C in E2. apply ufold_eqb_eq in E2. congruence.
Qed.

(* the special orbits: the witnesses that the carve-out of the ASCII model was needed *)
Lemma kelvin_folds : ufold_eqb (hx "e284aa") (B "k") = true /\ ufold_eqb (hx "c5bf") (B "S") = true /\
  fold_eqb (hx "e284aa") (B "k") = false.
Proof. repeat split; vm_compute; reflexivity. Qed.

(* any two invalid bytes are equal *)
Lemma invalid_bytes_fold : ufold_eqb (hx "ff") (hx "fe") = true /\ ufold_eqb (hx "ff") (hx "efbfbd") = true.
Proof. split; vm_compute; reflexivity. Qed.
