(* strings.EqualFold as modelled in Model/Fold.v is the kernel of the canonical form [ucanon] (the decoded runes,
   each replaced by the smallest rune of its simple-folding orbit).  What the IRI theorems need of the folding
   table is the decidable condition [fold_tab_ok]: no non-ASCII rune folds onto an ASCII rune other than "K" and
   "S" - so every ASCII byte that is not a letter stands for itself only, and so does every hex digit up to
   ASCII letter case.  Generic in the table; instantiated with the generated one by vm_compute.
   The string lemmas are also generic in what an invalid byte decodes to (Utf8.runes_with): they hold of
   strings.EqualFold ([ucanon], U+FFFD) and of iri.go equalFold ([scanon], the byte kept apart as 0x110000 + b). *)
From AP.Model Require Import Prelude Bytes Url IriEq IriNf Vocab Pred CollIri Utf8 FoldTab Fold.
From AP.Proofs Require Import NlvP LowerP Utf8P.

Lemma nlist_eqb_eq a : forall b, nlist_eqb a b = true <-> a = b.
Proof.
  induction a as [|x a IH]; intros [|y b]; simpl; split; try discriminate; try reflexivity.
  - rewrite andb_true_iff, N.eqb_eq, IH. intros [-> ->]. reflexivity.
  - intros H. inversion H; subst. rewrite N.eqb_refl. simpl. apply IH. reflexivity.
Qed.

Section Tab.
  Variable tab : list (N * N).
  Hypothesis tab_ok : fold_tab_ok tab = true.
  Variable err : byte -> N.
  Hypothesis err_big : forall b, (128 <= err b)%N.
  Notation cn := (canon_with tab).
  Notation uc := (fun s => map (canon_with tab) (runes_with err s)).

  Lemma tab_ok_entry k v : In (k, v) tab ->
    (128 <= k)%N /\ ((128 <= v)%N \/ v = 75%N \/ v = 83%N) /\ (k < rune_limit)%N /\ (v < rune_limit)%N.
  Proof.
    intros E. unfold fold_tab_ok in tab_ok. rewrite forallb_forall in tab_ok. specialize (tab_ok _ E). cbn [fst snd] in tab_ok.
    rewrite !andb_true_iff, !orb_true_iff, !N.leb_le, !N.eqb_eq, !N.ltb_lt in tab_ok. tauto.
  Qed.

  Lemma tab_lookup_cases r t : tab_lookup r t = r \/ In (r, tab_lookup r t) t.
  Proof.
    induction t as [|[k v] t IH]; simpl; [left; reflexivity|].
    destruct (k =? r)%N eqn:E.
    - apply N.eqb_eq in E. subst k. right. left. reflexivity.
    - destruct IH as [IH|IH]; [left; exact IH|right; right; exact IH].
  Qed.

  Lemma canon_ascii r : (r < 128)%N -> cn r = ascii_canon r.
  Proof. intros H. unfold canon_with. apply N.ltb_lt in H. rewrite H. reflexivity. Qed.

  Lemma ascii_canon_lt r : (r < 128)%N -> (ascii_canon r < 128)%N.
  Proof. unfold ascii_canon. destruct ((97 <=? r) && (r <=? 122))%N; lia. Qed.

  Lemma canon_big r : (128 <= r)%N -> (128 <= cn r)%N \/ cn r = 75%N \/ cn r = 83%N.
  Proof.
    intros H. unfold canon_with. assert ((r <? 128)%N = false) as -> by (apply N.ltb_ge; exact H).
    destruct (tab_lookup_cases r tab) as [E|E]; [rewrite E; left; exact H|].
    destruct (tab_ok_entry _ _ E) as [_ [T _]]. exact T.
  Qed.

  (* the numbers that stand for invalid bytes (>= 0x110000) are their own canonical form, and of nothing else *)
  Lemma canon_limit r : (r < rune_limit)%N -> (cn r < rune_limit)%N.
  Proof.
    intros H. unfold canon_with. destruct (r <? 128)%N eqn:A.
    - apply N.ltb_lt in A. pose proof (ascii_canon_lt r A). unfold rune_limit. lia.
    - destruct (tab_lookup_cases r tab) as [E|E]; [rewrite E; exact H|]. destruct (tab_ok_entry _ _ E) as [_ [_ [_ T]]]. exact T.
  Qed.
  Lemma canon_above r : (rune_limit <= r)%N -> cn r = r.
  Proof.
    intros H. unfold canon_with. assert ((r <? 128)%N = false) as -> by (apply N.ltb_ge; unfold rune_limit in H; lia).
    destruct (tab_lookup_cases r tab) as [E|E]; [exact E|]. destruct (tab_ok_entry _ _ E) as [_ [_ [T _]]]. lia.
  Qed.
  Lemma canon_above_inv x r : (rune_limit <= r)%N -> cn x = r -> x = r.
  Proof.
    intros H E. destruct (N.lt_ge_cases x rune_limit) as [L|G].
    - pose proof (canon_limit x L). lia.
    - rewrite (canon_above x G) in E. exact E.
  Qed.

  (* an ASCII rune that is not a letter is the canonical form of itself only *)
  Definition is_delim_n (d : N) : bool := ((d <? 128) && negb ((65 <=? d) && (d <=? 90)) && negb ((97 <=? d) && (d <=? 122)))%N.

  Lemma canon_delim d x : is_delim_n d = true -> (cn x = d <-> x = d).
  Proof.
    unfold is_delim_n. rewrite !andb_true_iff, !negb_true_iff, !andb_false_iff, N.ltb_lt, !N.leb_gt. intros [[H1 H2] H3].
    split.
    - intros E. destruct (N.lt_ge_cases x 128) as [L|G].
      + rewrite (canon_ascii x L) in E. unfold ascii_canon in E.
        destruct ((97 <=? x) && (x <=? 122))%N eqn:C; [|exact E].
        rewrite andb_true_iff, !N.leb_le in C. lia.
      + destruct (canon_big x G) as [B|[B|B]]; lia.
    - intros ->. rewrite (canon_ascii d H1). unfold ascii_canon.
      destruct ((97 <=? d) && (d <=? 122))%N eqn:C; [|reflexivity]. rewrite andb_true_iff, !N.leb_le in C. lia.
  Qed.

  (* an ASCII letter other than k, s: its canonical form is shared with the other letter case only *)
  Lemma canon_ascii_partner a x : (a < 128)%N -> ascii_canon a <> 75%N -> ascii_canon a <> 83%N ->
    cn x = cn a -> (x < 128)%N /\ ascii_canon x = ascii_canon a.
  Proof.
    intros La Hk Hs E. rewrite (canon_ascii a La) in E.
    destruct (N.lt_ge_cases x 128) as [L|G].
    - split; [exact L|]. rewrite (canon_ascii x L) in E. exact E.
    - pose proof (ascii_canon_lt a La). destruct (canon_big x G) as [B|[B|B]]; [lia|congruence|congruence].
  Qed.

  (* ---- strings ---- *)
  Lemma ucanon_nil s : uc s = [] -> s = [].
  Proof. cbv beta. intros H. apply map_eq_nil in H. apply (runes_nil err). exact H. Qed.

  Lemma ucanon_app_ascii x c y : is_asciib c = true -> uc (x ++ c :: y) = uc x ++ cn (byteN c) :: uc y.
  Proof. intros H. cbv beta. rewrite (runes_app_ascii err x c y H), map_app. reflexivity. Qed.

  Lemma ucanon_app_valid x y : utf8_valid x = true -> uc (x ++ y) = uc x ++ uc y.
  Proof. intros H. cbv beta. rewrite (runes_app_valid err x y H), map_app. reflexivity. Qed.

  Lemma ucanon_app_sync x y : starts y -> uc (x ++ y) = uc x ++ uc y.
  Proof. intros H. cbv beta. rewrite (runes_app_sync err x y H), map_app. reflexivity. Qed.

  Lemma ucanon_cons_ascii c y : is_asciib c = true -> uc (c :: y) = cn (byteN c) :: uc y.
  Proof. intros H. apply (ucanon_app_ascii [] c y H). Qed.

  Definition is_delim (c : byte) : bool := is_delim_n (byteN c).
  Lemma delim_ascii c : is_delim c = true -> is_asciib c = true.
  Proof. unfold is_delim, is_delim_n, is_asciib. rewrite !andb_true_iff. tauto. Qed.
  Lemma canon_delim_fixed c : is_delim c = true -> cn (byteN c) = byteN c.
  Proof. intros H. apply (canon_delim (byteN c) (byteN c) H). reflexivity. Qed.

  (* a delimiter occurs in the canonical form exactly when it occurs in the string *)
  Lemma ucanon_in_delim s c : is_delim c = true -> (In (byteN c) (uc s) <-> In c s).
  Proof.
    intros Hc. cbv beta. rewrite in_map_iff. split.
    - intros [x [E Hx]]. apply (canon_delim (byteN c) x Hc) in E. subst x.
      apply (runes_in_ascii err err_big s c (delim_ascii c Hc)). exact Hx.
    - intros H. exists (byteN c). split; [apply canon_delim_fixed; exact Hc|].
      apply (runes_in_ascii err err_big s c (delim_ascii c Hc)). exact H.
  Qed.

  Lemma ucanon_ascii s : forallb is_asciib s = true -> uc s = map (fun b => ascii_canon (byteN b)) s.
  Proof.
    intros H. cbv beta. rewrite (runes_ascii err s H), map_map. apply map_ext_in. intros b Hb.
    apply canon_ascii. rewrite forallb_forall in H. specialize (H b Hb). unfold is_asciib in H. apply N.ltb_lt. exact H.
  Qed.
End Tab.

(* ================================================================ the generated table *)
Lemma fold_tab_is_ok : fold_tab_ok fold_tab = true.
Proof. vm_compute. reflexivity. Qed.

Lemma ascii_canon_lower_all :
  forallb (fun a => forallb (fun b => implb (is_asciib a && is_asciib b)
     (Bool.eqb (ascii_canon (byteN a) =? ascii_canon (byteN b))%N (Byte.eqb (lower_byte a) (lower_byte b)))) all_bytes) all_bytes = true.
Proof. vm_compute. reflexivity. Qed.

Lemma ascii_canon_lower a b : is_asciib a = true -> is_asciib b = true ->
  (ascii_canon (byteN a) = ascii_canon (byteN b) <-> lower_byte a = lower_byte b).
Proof.
  intros Ha Hb. pose proof (sweep _ ascii_canon_lower_all a) as S. cbv beta in S. rewrite forallb_forall in S.
  specialize (S b (all_bytes_in b)). rewrite Ha, Hb in S. simpl in S. apply eqb_prop in S.
  rewrite <- N.eqb_eq, <- beqb_eq, S. tauto.
Qed.

(* either folding: the kernel of its canonical form; on ASCII strings the ASCII folding of Model/Prelude.v *)
Section Either.
  Variable err : byte -> N.
  Notation gc := (fun s => map canon (runes_with err s)).
  Notation geq := (fun a b => nlist_eqb (gc a) (gc b)).

  Lemma gfold_eqb_eq a b : geq a b = true <-> gc a = gc b.
  Proof. apply nlist_eqb_eq. Qed.
  Lemma gfold_eqb_refl a : geq a a = true.
  Proof. apply gfold_eqb_eq. reflexivity. Qed.
  Lemma gfold_eqb_sym a b : geq a b = geq b a.
  Proof.
    destruct (geq a b) eqn:E.
    - symmetry. apply gfold_eqb_eq. symmetry. apply gfold_eqb_eq. exact E.
    - destruct (geq b a) eqn:E'; [|reflexivity]. apply gfold_eqb_eq in E'. symmetry in E'. apply gfold_eqb_eq in E'. congruence.
  Qed.
  Lemma gfold_eqb_trans a b c : geq a b = true -> geq b c = true -> geq a c = true.
  Proof. rewrite !gfold_eqb_eq. congruence. Qed.

  Lemma gcanon_ascii_lower a : forall b, forallb is_asciib a = true -> forallb is_asciib b = true ->
    (gc a = gc b <-> lower a = lower b).
  Proof.
    intros b Ha Hb. pose proof (ucanon_ascii fold_tab err a Ha) as Ea. pose proof (ucanon_ascii fold_tab err b Hb) as Eb.
    cbv beta in Ea, Eb. unfold canon. rewrite Ea, Eb. clear Ea Eb.
    revert b Ha Hb. induction a as [|x a IH]; intros [|y b] Ha Hb; simpl; split; try discriminate; try reflexivity.
    - simpl in Ha, Hb. rewrite andb_true_iff in Ha, Hb. destruct Ha as [Hx Ha], Hb as [Hy Hb].
      intros H. inversion H as [[H1 H2]]. f_equal; [apply (ascii_canon_lower x y Hx Hy); exact H1|apply (IH b Ha Hb); exact H2].
    - simpl in Ha, Hb. rewrite andb_true_iff in Ha, Hb. destruct Ha as [Hx Ha], Hb as [Hy Hb].
      intros H. inversion H as [[H1 H2]]. f_equal; [apply (ascii_canon_lower x y Hx Hy); exact H1|apply (IH b Ha Hb); exact H2].
  Qed.

  Lemma gfold_eqb_ascii a b : forallb is_asciib a = true -> forallb is_asciib b = true -> geq a b = fold_eqb a b.
  Proof.
    intros Ha Hb. pose proof (gcanon_ascii_lower a b Ha Hb) as C.
    destruct (geq a b) eqn:E1, (fold_eqb a b) eqn:E2; try reflexivity.
    - apply gfold_eqb_eq in E1. apply C in E1. unfold fold_eqb in E2. apply bytes_eqb_neq in E2. contradiction.
    - unfold fold_eqb in E2. apply bytes_eqb_eq in E2. apply C in E2. apply gfold_eqb_eq in E2. congruence.
  Qed.
End Either.

(* ---- strings.EqualFold ---- *)
Lemma ufold_eqb_eq a b : ufold_eqb a b = true <-> ucanon a = ucanon b.
Proof. unfold ufold_eqb. apply nlist_eqb_eq. Qed.
Lemma ufold_eqb_refl a : ufold_eqb a a = true.
Proof. apply (gfold_eqb_refl lax_err). Qed.
Lemma ufold_eqb_sym a b : ufold_eqb a b = ufold_eqb b a.
Proof. apply (gfold_eqb_sym lax_err). Qed.
Lemma ufold_eqb_trans a b c : ufold_eqb a b = true -> ufold_eqb b c = true -> ufold_eqb a c = true.
Proof. apply (gfold_eqb_trans lax_err). Qed.
Lemma ucanon_ascii_lower a : forall b, forallb is_asciib a = true -> forallb is_asciib b = true ->
  (ucanon a = ucanon b <-> lower a = lower b).
Proof. apply (gcanon_ascii_lower lax_err). Qed.
Lemma ufold_eqb_ascii a b : forallb is_asciib a = true -> forallb is_asciib b = true -> ufold_eqb a b = fold_eqb a b.
Proof. apply (gfold_eqb_ascii lax_err). Qed.

(* ---- iri.go equalFold ---- *)
Lemma sfold_eqb_eq a b : sfold_eqb a b = true <-> scanon a = scanon b.
Proof. unfold sfold_eqb. apply nlist_eqb_eq. Qed.
Lemma sfold_eqb_refl a : sfold_eqb a a = true.
Proof. apply (gfold_eqb_refl strict_err). Qed.
Lemma sfold_eqb_sym a b : sfold_eqb a b = sfold_eqb b a.
Proof. apply (gfold_eqb_sym strict_err). Qed.
Lemma sfold_eqb_trans a b c : sfold_eqb a b = true -> sfold_eqb b c = true -> sfold_eqb a c = true.
Proof. apply (gfold_eqb_trans strict_err). Qed.
Lemma scanon_ascii_lower a : forall b, forallb is_asciib a = true -> forallb is_asciib b = true ->
  (scanon a = scanon b <-> lower a = lower b).
Proof. apply (gcanon_ascii_lower strict_err). Qed.
Lemma sfold_eqb_ascii a b : forallb is_asciib a = true -> forallb is_asciib b = true -> sfold_eqb a b = fold_eqb a b.
Proof. apply (gfold_eqb_ascii strict_err). Qed.

(* on valid UTF-8 the two are one *)
Lemma scanon_valid s : utf8_valid s = true -> scanon s = ucanon s.
Proof. intros V. unfold scanon, scanon_with, ucanon, ucanon_with, srunes, runes. rewrite (runes_valid_any strict_err lax_err s V). reflexivity. Qed.
Lemma sfold_eqb_valid a b : utf8_valid a = true -> utf8_valid b = true -> sfold_eqb a b = ufold_eqb a b.
Proof. intros Va Vb. unfold sfold_eqb, ufold_eqb. rewrite (scanon_valid a Va), (scanon_valid b Vb). reflexivity. Qed.

(* strings.EqualFold is the coarser one: it forgets which invalid byte stood where *)
Definition collapse (n : N) : N := if (rune_limit <=? n)%N then rune_error else n.
Lemma runes_collapse_n n : forall s, length s <= n -> runes s = map collapse (srunes s).
Proof.
  assert (C : forall x, (x < rune_limit)%N -> collapse x = x).
  { intros x H. unfold collapse. apply N.leb_gt in H. rewrite H. reflexivity. }
  assert (E : forall b, collapse (strict_err b) = lax_err b).
  { intros b. unfold collapse, strict_err. assert ((rune_limit <=? rune_limit + byteN b)%N = true) as -> by (apply N.leb_le; lia). reflexivity. }
  assert (A : forall b, (byteN b < rune_limit)%N).
  { intros b. pose proof (Byte.to_N_bounded b). unfold byteN, rune_limit. lia. }
  induction n as [|n IH]; intros s Hl; [destruct s; [reflexivity|simpl in Hl; lia]|].
  destruct s as [|p0 r]; [reflexivity|]. simpl in Hl. unfold runes, srunes in *. rewrite !runes_cons.
  destruct (lead_of p0) as [| | |lo hi|lo hi] eqn:L.
  - cbn [map]. rewrite (C _ (A p0)). f_equal. apply IH. lia.
  - cbn [map]. rewrite E. f_equal. apply IH. lia.
  - destruct r as [|b1 r1]; [cbn [map]; rewrite E; reflexivity|]. destruct (is_cont b1).
    + cbn [map]. rewrite C by (apply rune2_limit; exact L). f_equal. apply IH. simpl in Hl. lia.
    + cbn [map]. rewrite E. f_equal. apply IH. lia.
  - destruct r as [|b1 [|b2 r2]]; try (cbn [map]; rewrite E; f_equal; apply IH; simpl in *; lia).
    destruct (is_cont b1 && in_rng lo hi b1 && is_cont b2) eqn:Cd.
    + cbn [map]. rewrite C by (apply (rune3_limit p0 b1 b2 lo hi L)). f_equal. apply IH. simpl in Hl. lia.
    + cbn [map]. rewrite E. f_equal. apply IH. lia.
  - destruct r as [|b1 [|b2 [|b3 r3]]]; try (cbn [map]; rewrite E; f_equal; apply IH; simpl in *; lia).
    destruct (is_cont b1 && in_rng lo hi b1 && is_cont b2 && is_cont b3) eqn:Cd.
    + cbn [map]. rewrite C; [f_equal; apply IH; simpl in Hl; lia|]. apply (rune4_limit p0 b1 b2 b3 lo hi L).
      apply andb_true_iff in Cd. destruct Cd as [Cd _]. apply andb_true_iff in Cd. destruct Cd as [Cd _]. apply andb_true_iff in Cd. tauto.
    + cbn [map]. rewrite E. f_equal. apply IH. lia.
Qed.
Lemma runes_collapse s : runes s = map collapse (srunes s).
Proof. apply (runes_collapse_n (length s)). lia. Qed.

Lemma canon_collapse n : canon (collapse n) = collapse (canon n).
Proof.
  unfold collapse, canon. destruct (rune_limit <=? n)%N eqn:G.
  - apply N.leb_le in G. rewrite (canon_above fold_tab fold_tab_is_ok n G). apply N.leb_le in G. rewrite G. vm_compute. reflexivity.
  - apply N.leb_gt in G. pose proof (canon_limit fold_tab fold_tab_is_ok n G) as L. apply N.leb_gt in L. rewrite L. reflexivity.
Qed.
Lemma ucanon_collapse s : ucanon s = map collapse (scanon s).
Proof.
  unfold ucanon, ucanon_with, scanon, scanon_with. rewrite runes_collapse, !map_map. apply map_ext. intros n. apply canon_collapse.
Qed.
Lemma sfold_ufold a b : sfold_eqb a b = true -> ufold_eqb a b = true.
Proof. rewrite sfold_eqb_eq, ufold_eqb_eq, !ucanon_collapse. intros ->. reflexivity. Qed.

(* the special orbits: the witnesses that the carve-out of the ASCII model was needed *)
Lemma kelvin_folds : ufold_eqb (hx "e284aa") (B "k") = true /\ ufold_eqb (hx "c5bf") (B "S") = true /\
  fold_eqb (hx "e284aa") (B "k") = false.
Proof. repeat split; vm_compute; reflexivity. Qed.

(* strings.EqualFold: any two invalid bytes are equal; iri.go equalFold tells them apart, and from U+FFFD *)
Lemma invalid_bytes_fold : ufold_eqb (hx "ff") (hx "fe") = true /\ ufold_eqb (hx "ff") (hx "efbfbd") = true /\
  sfold_eqb (hx "ff") (hx "fe") = false /\ sfold_eqb (hx "ff") (hx "efbfbd") = false /\ sfold_eqb (hx "41ff") (hx "61ff") = true.
Proof. repeat split; vm_compute; reflexivity. Qed.
