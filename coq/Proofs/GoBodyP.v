(* Shared by the table ties of Model/GoBody.v (OrderTabP, NlvTabP, CollTabP):
     - boolean equality of bodies is sound, hence a table satisfying a body condition HOLDS the model's functions;
     - the interpreter unfolded one statement at a time, and the tactics that run a body symbolically (slots, not
       names: nothing to compare but constructors). *)
From AP.Model Require Import Prelude Vocab Pred Layout Nlv TabEq GoBody.
From AP.Proofs Require Import TabEqP.

(* ---------------------------------------------------------------- boolean equality of bodies is sound *)
Ltac beq_split :=
  repeat match goal with
         | H' : (_ && _) = true |- _ => let H1 := fresh "H" in let H2 := fresh "H" in
                                       apply andb_prop in H'; destruct H' as [H1 H2]
         end.

Lemma gotype_eqb_sound a b : gotype_eqb a b = true -> a = b.
Proof. destruct a, b; simpl; try discriminate; try reflexivity. intro H. apply bytes_eqb_true in H. subst. reflexivity. Qed.
Lemma nilclass_beq_eq a b : nilclass_beq a b = true -> a = b.
Proof. destruct a, b; simpl; try discriminate; reflexivity. Qed.
Lemma binop_beq_eq a b : binop_beq a b = true -> a = b.
Proof. destruct a, b; simpl; try discriminate; reflexivity. Qed.
Lemma ckind_eqb_eq a b : ckind_eqb a b = true -> a = b.
Proof.
  destruct a, b; simpl; try discriminate; intro H.
  - apply internal_kind_dec_bl in H. subst. reflexivity.
  - apply bytes_eqb_true in H. subst. reflexivity.
Qed.
Lemma tcase_eqb_eq a b : tcase_eqb a b = true -> a = b.
Proof.
  destruct a as [a1 a2], b as [b1 b2]. unfold tcase_eqb. simpl. intro H. beq_split.
  apply ckind_eqb_eq in H0. apply Bool.eqb_prop in H1. subst. reflexivity.
Qed.
Lemma ovar_beq_eq a b : ovar_beq a b = true -> a = b.
Proof. destruct a, b; simpl; try discriminate; [|reflexivity]. intro H. apply bytes_eqb_true in H. subst. reflexivity. Qed.

Ltac by_leaves :=
  repeat match goal with
         | H : bytes_eqb _ _ = true |- _ => apply bytes_eqb_true in H
         | H : Bool.eqb _ _ = true |- _ => apply Bool.eqb_prop in H
         | H : Nat.eqb _ _ = true |- _ => apply Nat.eqb_eq in H
         | H : (_ =? _)%Z = true |- _ => apply Z.eqb_eq in H
         | H : fid_beq _ _ = true |- _ => apply internal_fid_dec_bl in H
         | H : gotype_eqb _ _ = true |- _ => apply gotype_eqb_sound in H
         | H : nilclass_beq _ _ = true |- _ => apply nilclass_beq_eq in H
         | H : binop_beq _ _ = true |- _ => apply binop_beq_eq in H
         | H : ovar_beq _ _ = true |- _ => apply ovar_beq_eq in H
         | H : lbeq bytes_eqb _ _ = true |- _ => apply (lbeq_eq bytes_eqb bytes_eqb_true) in H
         | H : lbeq tcase_eqb _ _ = true |- _ => apply (lbeq_eq tcase_eqb tcase_eqb_eq) in H
         end; subst; try reflexivity.

Scheme gexp_mind := Induction for gexp Sort Prop
  with gexps_mind := Induction for gexps Sort Prop.
Combined Scheme gexp_gexps_ind from gexp_mind, gexps_mind.

Lemma gexp_beq_sound :
  (forall a b : gexp gname, gexp_beq a b = true -> a = b) /\
  (forall a b : gexps gname, gexps_beq a b = true -> a = b).
Proof.
  apply (gexp_gexps_ind gname (fun a => forall rhs, gexp_beq a rhs = true -> a = rhs)
                               (fun a => forall rhs, gexps_beq a rhs = true -> a = rhs));
    intros; destruct rhs; simpl in *; try discriminate; beq_split;
    repeat match goal with
           | IH : forall rhs, gexp_beq ?x rhs = true -> ?x = rhs, H : gexp_beq ?x _ = true |- _ => apply IH in H
           | IH : forall rhs, gexps_beq ?x rhs = true -> ?x = rhs, H : gexps_beq ?x _ = true |- _ => apply IH in H
           end; by_leaves.
Qed.
Definition gexp_beq_eq := proj1 gexp_beq_sound.
Definition gexps_beq_eq := proj2 gexp_beq_sound.

Lemma glval_beq_eq a : forall rhs : glval gname, glval_beq a rhs = true -> a = rhs.
Proof.
  induction a; intros [] H; simpl in H; try discriminate; beq_split;
    repeat match goal with
           | IH : forall rhs, glval_beq ?x rhs = true -> ?x = rhs, H : glval_beq ?x _ = true |- _ => apply IH in H
           | H : gexp_beq _ _ = true |- _ => apply gexp_beq_eq in H
           end; by_leaves.
Qed.

Scheme gstmt_mind := Induction for gstmt Sort Prop
  with gclauses_mind := Induction for gclauses Sort Prop.
Combined Scheme gstmt_gclauses_ind from gstmt_mind, gclauses_mind.

Lemma gstmt_beq_sound :
  (forall a b : gstmt gname, gstmt_beq a b = true -> a = b) /\
  (forall a b : gclauses gname, gclauses_beq a b = true -> a = b).
Proof.
  apply (gstmt_gclauses_ind gname (fun a => forall rhs, gstmt_beq a rhs = true -> a = rhs)
                                  (fun a => forall rhs, gclauses_beq a rhs = true -> a = rhs));
    intros; destruct rhs; simpl in *; try discriminate; beq_split;
    repeat match goal with
           | IH : forall rhs, gstmt_beq ?x rhs = true -> ?x = rhs, H : gstmt_beq ?x _ = true |- _ => apply IH in H
           | IH : forall rhs, gclauses_beq ?x rhs = true -> ?x = rhs, H : gclauses_beq ?x _ = true |- _ => apply IH in H
           | H : gexp_beq _ _ = true |- _ => apply gexp_beq_eq in H
           | H : gexps_beq _ _ = true |- _ => apply gexps_beq_eq in H
           | H : glval_beq _ _ = true |- _ => apply glval_beq_eq in H
           end; by_leaves.
Qed.
Definition gstmt_beq_eq := proj1 gstmt_beq_sound.

Lemma gfn_beq_eq (a b : gfn gname) : gfn_beq a b = true -> a = b.
Proof.
  destruct a as [n1 r1 p1 k1 b1], b as [n2 r2 p2 k2 b2]. unfold gfn_beq. simpl. intro H. beq_split.
  repeat match goal with
         | H : gstmt_beq _ _ = true |- _ => apply gstmt_beq_eq in H
         end; by_leaves.
Qed.

Lemma fn_matches_spec tbl m : fn_matches tbl m = true -> fn_named tbl (gn_name m) = Some m.
Proof.
  unfold fn_matches. destruct (fn_named tbl (gn_name m)) as [f|]; [|discriminate].
  intro H. apply gfn_beq_eq in H. subst. reflexivity.
Qed.

(* a table that satisfies the condition holds every function of the model, under its name *)
Lemma body_table_fns model tbl :
  body_table_ok model tbl = true -> forall m, In m model -> fn_named tbl (gn_name m) = Some m.
Proof.
  unfold body_table_ok. intro H. apply andb_prop in H. destruct H as [H _].
  rewrite forallb_forall in H. intros m Hm. apply fn_matches_spec. apply H. exact Hm.
Qed.

Lemma run_named_fn E tbl m recv args :
  fn_named tbl (gn_name m) = Some m -> run_named E tbl (gn_name m) recv args = run_fn E m recv args.
Proof. intro H. unfold run_named. rewrite H. reflexivity. Qed.

(* the diagnosis agrees with the condition on the model's part *)
Lemma first_bad_none model tbl :
  first_bad_body model tbl = None -> forallb (fn_matches tbl) model = true.
Proof.
  unfold first_bad_body. destruct (find (fun m => negb (fn_matches tbl m)) model) as [m|] eqn:E; [discriminate|].
  intros _. apply forallb_forall. intros m Hm.
  pose proof (find_none _ _ E m Hm) as Hn. simpl in Hn. destruct (fn_matches tbl m); [reflexivity|discriminate].
Qed.

(* ---------------------------------------------------------------- the interpreter, one statement at a time *)
Section Steps.
  Variable E : genv.
  Lemma exec_seq a b s :
    exec E (GsSeq a b) s = obind (exec E a s) (fun g => match g with GgNormal s' => exec E b s' | other => Ok other end).
  Proof. reflexivity. Qed.
  Lemma exec_if c t e s :
    exec E (GsIf c t e) s = obind (obind (ev E s c) as_bool) (fun b => if b then exec E t s else exec E e s).
  Proof. reflexivity. Qed.
  Lemma exec_range k v coll body s :
    exec E (GsRange k v coll body) s
    = obind (ev E s coll) (fun cv =>
        match elems_of cv with
        | Some l => for_loop (fun i x s' => exec E body (obind_slot v x (obind_slot k (GvInt (Z.of_nat i)) s'))) 0 l s
        | None => Err
        end).
  Proof. reflexivity. Qed.
  Lemma exec_skip s : exec E GsSkip s = Ok (GgNormal s).
  Proof. reflexivity. Qed.
  Lemma exec_continue s : exec E GsContinue s = Ok (GgContinue s).
  Proof. reflexivity. Qed.
  Lemma exec_break s : exec E GsBreak s = Ok (GgBreak s).
  Proof. reflexivity. Qed.
  Lemma exec_return0 s : exec E (GsReturn GxsNil) s = Ok (GgRet [] s).
  Proof. reflexivity. Qed.
  Lemma exec_return1 e s : exec E (GsReturn (GxsCons e GxsNil)) s = obind (ev_multi E s e) (fun vs => Ok (GgRet vs s)).
  Proof. reflexivity. Qed.
  Lemma exec_return2 e f s :
    exec E (GsReturn (GxsCons e (GxsCons f GxsNil))) s
    = obind (evs E s (GxsCons e (GxsCons f GxsNil))) (fun vs => Ok (GgRet vs s)).
  Proof. reflexivity. Qed.
  Lemma exec_define vs e s :
    exec E (GsDefine vs e) s
    = obind (ev_multi E s e) (fun xs => match bind_vals vs xs s with Some s' => Ok (GgNormal s') | None => Err end).
  Proof. reflexivity. Qed.
  Lemma exec_assign l e s :
    exec E (GsAssign l e) s = obind (ev E s e) (fun x => obind (lv_set E s l x) (fun s' => Ok (GgNormal s'))).
  Proof. reflexivity. Qed.
  Lemma exec_expr_method m r args s :
    exec E (GsExpr (GxMethod m (GxVar r) args)) s
    = obind (ev E s (GxVar r)) (fun rv => obind (evs E s args) (fun l =>
        match ge_method E m rv l with
        | Some o => obind o (fun p => Ok (GgNormal (match snd p with Some rv' => sset r rv' s | None => s end)))
        | None => Err
        end)).
  Proof. reflexivity. Qed.
  Lemma exec_tswitch b e cs s :
    exec E (GsTypeSwitch b e cs) s
    = obind (ev E s e) (fun v =>
        match v with
        | GvItem i =>
            match exec_pick E i b cs s with
            | Some o => o
            | None => match exec_default E i b cs s with Some o => o | None => Ok (GgNormal s) end
            end
        | _ => Err
        end).
  Proof. reflexivity. Qed.
  Lemma exec_pick_spec i b cs s :
    exec_pick E i b cs s
    = match pick_clause (tshape i) cs with
      | Some (single, body) => Some (exec E body (obind_slot b (if single then narrow i else GvItem i) s))
      | None => None
      end.
  Proof.
    induction cs as [|d tys body r IH]; [reflexivity|].
    cbn [exec_pick pick_clause]. destruct (clause_takes (tshape i) d tys); [reflexivity|exact IH].
  Qed.
  Lemma exec_default_spec i b cs s :
    exec_default E i b cs s
    = match default_clause cs with Some body => Some (exec E body (obind_slot b (GvItem i) s)) | None => None end.
  Proof.
    induction cs as [|d tys body r IH]; [reflexivity|].
    cbn [exec_default default_clause]. destruct d; [reflexivity|exact IH].
  Qed.
  Lemma exec_pick_cons i b d tys body r s :
    exec_pick E i b (GcCons d tys body r) s
    = if clause_takes (tshape i) d tys
      then Some (exec E body (obind_slot b (if clause_single tys then narrow i else GvItem i) s))
      else exec_pick E i b r s.
  Proof. reflexivity. Qed.
  Lemma exec_pick_nil i b s : exec_pick E i b GcNil s = None.
  Proof. reflexivity. Qed.
  Lemma exec_default_cons i b d tys body r s :
    exec_default E i b (GcCons d tys body r) s
    = if d then Some (exec E body (obind_slot b (GvItem i) s)) else exec_default E i b r s.
  Proof. reflexivity. Qed.
  Lemma exec_default_nil i b s : exec_default E i b GcNil s = None.
  Proof. reflexivity. Qed.
  Lemma for_loop_nil step i s : for_loop step i [] s = Ok (GgNormal s).
  Proof. reflexivity. Qed.
  Lemma for_loop_cons step i x r s :
    for_loop step i (x :: r) s
    = obind (step i x s) (fun g => match g with
                                   | GgNormal s' | GgContinue s' => for_loop step (S i) r s'
                                   | GgBreak s' => Ok (GgNormal s')
                                   | other => Ok other
                                   end).
  Proof. reflexivity. Qed.
End Steps.

(* [compile] of a concrete function: computed once *)
Ltac compile_fn :=
  match goal with
  | |- context [compile ?f] =>
      let c := eval vm_compute in (compile f) in
      let n := eval vm_compute in (length (frame_of f)) in
      change (compile f) with c; change (length (frame_of f)) with n
  end.

(* evaluate what is visible of a compiled body: expressions, lvalues and slots unfold; [exec] does not (it is rewritten
   one statement at a time, so that nothing is evaluated under the binder of a loop's step function); the primitives on
   data are stuck on variables anyway *)
Ltac gb_cbn :=
  cbn [ev evs ev_multi lv_get lv_set bind_vals obind_slot sget sset nth repeat
       gn_recv gn_params gn_results gn_body gn_name obind omap as_bool as_int as_bytes
       field_of read_field to_fval elems_of val_is_nil val_bin clause_takes clause_single
       tshape narrow fst snd negb andb orb Nat.eqb length lst existsb tcase_eqb ckind_eqb Bool.eqb].
(* closed comparisons of names (callee names, type names) *)
Ltac ceval :=
  repeat match goal with
         | |- context [bytes_eqb ?a ?b] =>
             let r := eval vm_compute in (bytes_eqb a b) in
             match r with
             | true => change (bytes_eqb a b) with true
             | false => change (bytes_eqb a b) with false
             end
         end.
Ltac gb_ev := gb_cbn; repeat (progress (unfold val_composite, val_conv, val_make; ceval; gb_cbn)).
Ltac hide_loop :=
  match goal with
  | |- context [for_loop ?f] => let st := fresh "step" in set (st := f)
  end.
(* rewrite a loop with a lemma whose left-hand side is the loop up to conversion *)
Ltac use_loop Hl :=
  match type of Hl with
  | ?lhs = _ => match goal with |- context [for_loop ?f ?i ?l ?s] => change (for_loop f i l s) with lhs end
  end; rewrite Hl.

(* the clause a type switch takes, once the shape of the value is known: computed in one step *)
Ltac pick_eval :=
  repeat match goal with
         | |- context [pick_clause ?sh ?cs] =>
             let r := eval vm_compute in (pick_clause sh cs) in change (pick_clause sh cs) with r
         | |- context [default_clause ?cs] =>
             let r := eval vm_compute in (default_clause cs) in change (default_clause cs) with r
         end; cbv iota.
Ltac gx1 :=
  first [rewrite exec_seq | rewrite exec_if | rewrite exec_range; hide_loop | rewrite exec_skip | rewrite exec_continue
        | rewrite exec_break | rewrite exec_return0 | rewrite exec_return1 | rewrite exec_return2 | rewrite exec_define
        | rewrite exec_assign | rewrite exec_expr_method | rewrite exec_tswitch
        | rewrite exec_pick_spec; pick_eval | rewrite exec_default_spec; pick_eval
        | rewrite for_loop_nil].
Ltac gx := gb_ev; repeat (gx1; gb_ev).
Ltac open_fn := unfold run_fn; compile_fn; unfold run_cfn; gb_ev.

Lemma obind_assoc {A B C} (o : outcome A) (f : A -> outcome B) (g : B -> outcome C) :
  obind (obind o f) g = obind o (fun x => obind (f x) g).
Proof. destruct o; reflexivity. Qed.
