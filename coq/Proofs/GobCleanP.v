(* C11 on the gob wire: after Clean, the property map the gob encoder model (Model/Gob.v: genc, gmap over the
   regenerated write tables) writes for the value itself and for every non-link struct embedded by pointer
   along the walked properties - at any depth, through lists - has no "bto" and no "bcc" entry.  Generic in the
   gob write tables under the decidable condition [gob_private_ok] (Model/GobClean.v); built on the model-level
   theorem no_private_strip (Proofs/CleanP.v) and on the walk relation of Proofs/CleanBytesP.v. *)
From AP.Model Require Import Prelude Vocab Bytes Layout Pred Dispatch GobTables Gob GobCheck GobNorm GobWhole GobClean.
From AP.Proofs Require Import NlvP ViewsP GobCodecP GobP GobRtP.
From AP.Model Require Clean.
From AP.Proofs Require CleanP CleanBytesP.

Lemma in_all_kinds k : In k all_kinds.
Proof. destruct k; simpl; tauto. Qed.

Section OneMap.
Variable enc : wcodec -> option pfval -> wire.

(* a table whose statements under [key] write field [f] behind `len(x.f) > 0`, and a field list in which [f]
   holds no non-empty list: the map gets no entry under [key] *)
Lemma no_entry (W : list gwentry) (pfs : list (fid * pfval)) key f :
  (forall e, In e W -> match e with
                       | GW f' key' _ gf g _ _ => bytes_eqb key' key = true -> f' = f /\ gf = f /\ g = GLenGt0
                       | _ => True
                       end) ->
  guard_eval GLenGt0 false (fget f pfs) = false ->
  aget key (fst (gmap_gen enc W pfs)) = None.
Proof.
  intros HW Hg. unfold gmap_gen.
  destruct (aget key (fst (fold_left (wstep_gen enc pfs) W ([], false)))) as [w|] eqn:Ha; [|reflexivity].
  exfalso. destruct (fold_binding enc pfs W ([], false) key w Ha) as [Hb|Hb]; [discriminate Hb|].
  destruct Hb as (f' & cn & c & gf & g & flag & pos & Hin & _ & _ & has' & Hge).
  specialize (HW _ Hin). simpl in HW. destruct (HW (bytes_eqb_refl key)) as (-> & -> & ->).
  assert (Hsame : guard_eval GLenGt0 has' (fget f pfs) = guard_eval GLenGt0 false (fget f pfs)) by reflexivity.
  congruence.
Qed.
End OneMap.

Section Private.
Variable E : gob_env.
Hypothesis HP : gob_private_ok E = true.

Lemma private_table k e : In e (wtable E k) -> gob_private_entry_ok e = true.
Proof.
  intros Hin. pose proof HP as H. unfold gob_private_ok in H. rewrite forallb_forall in H.
  specialize (H k (in_all_kinds k)). rewrite forallb_forall in H. exact (H e Hin).
Qed.

Lemma table_bto k : forall e, In e (wtable E k) ->
  match e with
  | GW f' key' _ gf g _ _ => bytes_eqb key' k_bto = true -> f' = F_Bto /\ gf = F_Bto /\ g = GLenGt0
  | _ => True
  end.
Proof.
  intros e Hin. pose proof (private_table k e Hin) as H. destruct e as [f key cn gf g fl pos| | |]; try exact I.
  intros Hk. simpl in H. rewrite Hk in H.
  apply andb_true_iff in H. destruct H as [H Hg]. apply andb_true_iff in H. destruct H as [H1 H2].
  apply fid_beq_eq in H1. apply fid_beq_eq in H2. destruct g; try discriminate Hg. auto.
Qed.

Lemma table_bcc k : forall e, In e (wtable E k) ->
  match e with
  | GW f' key' _ gf g _ _ => bytes_eqb key' k_bcc = true -> f' = F_BCC /\ gf = F_BCC /\ g = GLenGt0
  | _ => True
  end.
Proof.
  intros e Hin. pose proof (private_table k e Hin) as H. destruct e as [f key cn gf g fl pos| | |]; try exact I.
  intros Hk. simpl in H.
  assert (Hne : bytes_eqb key k_bto = false).
  { destruct (bytes_eqb key k_bto) eqn:Hb; [|reflexivity]. apply bytes_eqb_eq in Hb. apply bytes_eqb_eq in Hk. subst. discriminate Hk. }
  rewrite Hne, Hk in H.
  apply andb_true_iff in H. destruct H as [H Hg]. apply andb_true_iff in H. destruct H as [H1 H2].
  apply fid_beq_eq in H1. apply fid_beq_eq in H2. destruct g; try discriminate Hg. auto.
Qed.

(* a field that holds no non-empty item list does not pass `len(x.F) > 0` *)
Lemma guard_off f fs :
  holds_items f fs = true -> (forall v, getf f fs = Some v -> Clean.has_private v = false) ->
  guard_eval GLenGt0 false (fget f (pre_fields E fs)) = false.
Proof.
  intros Hs Hp. rewrite fget_pre. unfold holds_items in Hs. destruct (getf f fs) as [v|] eqn:Hg; [|reflexivity].
  specialize (Hp v eq_refl). destruct v as [i|[[|x l]|]| | | | | | | | | | |]; try discriminate Hs; try discriminate Hp; reflexivity.
Qed.

(* one struct, whichever of the 14 write tables the encoder uses for it *)
Theorem map_no_private k' fs :
  private_fields_shaped fs = true ->
  (forall v, getf F_Bto fs = Some v -> Clean.has_private v = false) ->
  (forall v, getf F_BCC fs = Some v -> Clean.has_private v = false) ->
  aget k_bto (fst (gmap E (wtable E k') (pre_fields E fs))) = None /\
  aget k_bcc (fst (gmap E (wtable E k') (pre_fields E fs))) = None.
Proof.
  intros Hs Hbto Hbcc. unfold private_fields_shaped in Hs. apply andb_true_iff in Hs. destruct Hs as [Hs1 Hs2].
  split; unfold gmap.
  - apply (no_entry (wenc E) _ _ k_bto F_Bto (table_bto k')). now apply guard_off.
  - apply (no_entry (wenc E) _ _ k_bcc F_BCC (table_bcc k')). now apply guard_off.
Qed.

Lemma enc_obj_no_private k' fs :
  private_fields_shaped fs = true ->
  (forall v, getf F_Bto fs = Some v -> Clean.has_private v = false) ->
  (forall v, getf F_BCC fs = Some v -> Clean.has_private v = false) ->
  wire_no_private (enc_obj E k' (pre_fields E fs)).
Proof.
  intros Hs Hbto Hbcc. destruct (map_no_private k' fs Hs Hbto Hbcc) as [H1 H2].
  unfold enc_obj, enc_map_gen. fold (gmap E). destruct (gmap E (wtable E k') (pre_fields E fs)) as [mm has].
  destruct has; [right; exists mm; auto|left; reflexivity].
Qed.

(* gobEncodeItem on a struct: by Go type for links, by type name otherwise - whichever table it picks *)
Theorem genc_no_private p k fs :
  enc_item_ok E = true ->
  private_fields_shaped fs = true ->
  (forall v, getf F_Bto fs = Some v -> Clean.has_private v = false) ->
  (forall v, getf F_BCC fs = Some v -> Clean.has_private v = false) ->
  wire_no_private (genc E (IObj p k fs)).
Proof.
  intros He Hs Hbto Hbcc. rewrite (GobCodecP.genc_obj E He). unfold enc_struct, enc_switch.
  destruct k; try (now apply enc_obj_no_private);
    (destruct (enc_kind E _) as [k'|]; [|left; reflexivity];
     match goal with |- context [kind_beq k' ?k0] => destruct (kind_beq k' k0) end;
     [now apply enc_obj_no_private|destruct k'; first [now apply enc_obj_no_private | left; reflexivity]]).
Qed.

(* after Clean: every pointer-embedded non-link struct the walk reaches, at any depth, through lists *)
Theorem clean_gob_walk x z : CleanBytesP.on_walk (Clean.strip x) z ->
  forall k fs, z = IObj true k fs -> Clean.is_link_kind k = false -> private_fields_shaped fs = true ->
  (enc_item_ok E = true -> wire_no_private (genc E z)) /\
  (forall k', aget k_bto (fst (gmap E (wtable E k') (pre_fields E fs))) = None /\
              aget k_bcc (fst (gmap E (wtable E k') (pre_fields E fs))) = None) /\
  (forall k', wire_no_private (genc_k E k' fs)).
Proof.
  intros Hw k fs -> L Hs.
  pose proof (CleanBytesP.no_private_on_walk _ _ Hw (CleanP.no_private_strip x)) as Hnp.
  assert (Hbto : forall v, getf F_Bto fs = Some v -> Clean.has_private v = false).
  { intros v Hv. destruct (CleanBytesP.no_private_obj k fs L Hnp F_Bto v (CleanBytesP.getf_In2 _ _ _ Hv)) as [K _]. apply K. reflexivity. }
  assert (Hbcc : forall v, getf F_BCC fs = Some v -> Clean.has_private v = false).
  { intros v Hv. destruct (CleanBytesP.no_private_obj k fs L Hnp F_BCC v (CleanBytesP.getf_In2 _ _ _ Hv)) as [K _]. apply K. reflexivity. }
  split; [intros He; now apply genc_no_private|]. split.
  - intros k'. now apply map_no_private.
  - intros k'. unfold genc_k. now apply enc_obj_no_private.
Qed.

End Private.

(* the walk keeps the shape of bto / bcc: Clean only truncates item lists *)
Lemma wire_no_private_b w : wire_no_privateb w = true -> wire_no_private w.
Proof.
  destruct w; try discriminate; [left; reflexivity|]. simpl.
  destruct (aget k_bto m) eqn:H1; [discriminate|]. destruct (aget k_bcc m) eqn:H2; [discriminate|].
  intros _. right. exists m. auto.
Qed.
