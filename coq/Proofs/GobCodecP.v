(* C03 / C04 / C06: the one-call leaf codecs of the gob model, interpreted from the generated statement
   lists (Model/Gob.v: lw_run, lr_run, wenc0, rdec0, dec_iris_t, wenc_iris_t).

   1. For ANY tables: the read interpreter returns a value or an error (never a panic outcome, never fuel
      exhaustion), whether it succeeds does not depend on the value it overwrites, and it does not look at
      the decoder of nested items.  These are what C04_gob_total and the fixpoint / fuel lemmas of the
      decoder need; they hold without any table condition.
   2. For every table set satisfying [codecs_ok] (Model/GobWhole.v): the interpreters compute the closed
      forms wenc0c / rdec0c / dec_iris / wenc_iris, for all values and all wires.  The round-trip proofs
      (GobP.v, GobLeafP.v, GobRtP.v) are made on the closed forms and transported by these equations. *)
From AP.Model Require Import Prelude Vocab Bytes Layout Pred Dispatch GobTables Gob GobCheck GobWhole GobTotal.
From AP.Proofs Require Import NlvP.
From Coq Require Import Lia.

(* ------------------------------------------------------------------ 1. any tables *)
Lemma gd_typed_returns ty w : returns (gd_typed ty w).
Proof.
  unfold gd_typed.
  repeat match goal with |- context [if ?c then _ else _] => destruct c end;
    try exact I;
    match goal with |- returns (omap _ ?o) => destruct o eqn:Ho; try exact I end;
    unfold gd_bytes, gd_kvs, gd_kv, gd_list, gd_int, gd_uint, gd_float, gd_bool in Ho; destruct (wfirst w); discriminate.
Qed.

Section ReadAny.
Variable self : lval -> outcome lval.
Variable meth : bytes -> lval -> outcome lval.
Variable w : wire.

Lemma lr_step_returns st s : match lr_step self meth w st s with inl _ => True | inr o => returns o end.
Proof.
  destruct s; simpl; try exact I.
  - destruct (is_wempty w); exact I.
  - destruct (lr_ty st); [|exact I]. pose proof (gd_typed_returns b w) as H. destruct (gd_typed b w); exact I.
  - destruct (self (lr_cur st)); exact I.
  - destruct (lr_loc st); exact I.
  - destruct (lr_loc st) as [[| [[|x l]|] | | | | | |]|]; try exact I. destruct (lr_cur st); exact I.
  - destruct (lr_loc st) as [[| | | | | | |]|]; try exact I. destruct (lr_cur st); exact I.
  - destruct (lr_loc st) as [[| | | | | | |]|]; try exact I. destruct (lr_cur st); exact I.
  - destruct (lr_dec st); [|exact I]. destruct (gd_typed ty w); exact I.
  - destruct (lr_ty st); [|exact I]. destruct (gd_typed b w); exact I.
  - destruct (lr_loc st); [|exact I]. destruct (meth callee l); exact I.
  - destruct (lr_loc st); exact I.
Qed.

Lemma lr_run_returns tbl : forall st, returns (lr_run self meth w tbl st).
Proof.
  induction tbl as [|s r IH]; intros st; simpl; [exact I|].
  pose proof (lr_step_returns st s) as H. destruct (lr_step self meth w st s); [apply IH|exact H].
Qed.
End ReadAny.

(* two runs that differ in the receiver only take the same path *)
Definition st_sync (a b : lr_st) : Prop := lr_ty a = lr_ty b /\ lr_loc a = lr_loc b /\ lr_dec a = lr_dec b.

Section ReadSync.
Variable meth : bytes -> lval -> outcome lval.
Variable w : wire.

Lemma lr_step_sync a b s : st_sync a b ->
  match lr_step no_self meth w a s, lr_step no_self meth w b s with
  | inl a', inl b' => st_sync a' b'
  | inr (Ok _), inr (Ok _) => True
  | inr x, inr y => x = y /\ (forall v, x <> Ok v)
  | _, _ => False
  end.
Proof.
  intros (Ht & Hl & Hd). destruct a as [ta la ca da], b as [tb lb cb db]. simpl in Ht, Hl, Hd. subst tb lb db.
  unfold st_sync.
  destruct s; cbn [lr_step lr_ty lr_loc lr_cur lr_dec]; unfold no_self;
    repeat match goal with
           | |- context [match ?x with _ => _ end] =>
               match x with
               | context [match _ with _ => _ end] => fail 1
               | _ => destruct x
               end
           end;
    cbn [lr_ty lr_loc lr_dec];
    first [exact I | repeat split; first [reflexivity | discriminate]].
Qed.

Lemma lr_run_sync tbl : forall a b v, st_sync a b ->
  lr_run no_self meth w tbl a = Ok v -> exists v', lr_run no_self meth w tbl b = Ok v'.
Proof.
  induction tbl as [|s r IH]; intros a b v Hs; simpl; [discriminate|].
  pose proof (lr_step_sync a b s Hs) as H.
  destruct (lr_step no_self meth w a s) as [a'|oa]; destruct (lr_step no_self meth w b s) as [b'|ob].
  - apply IH. exact H.
  - contradiction.
  - intros ->. contradiction.
  - intros ->. destruct ob as [y| | |]; [eauto|exfalso; discriminate (proj1 H)..].
Qed.
End ReadSync.

Lemma lr_method_indep E n c1 c2 w v : lr_method E n c1 w = Ok v -> exists v', lr_method E n c2 w = Ok v'.
Proof. unfold lr_method. apply lr_run_sync. repeat split; reflexivity. Qed.

Lemma omap_ok_inv {A B} (f : A -> B) o v : omap f o = Ok v -> exists a, o = Ok a.
Proof. destruct o; simpl; intros H; try discriminate. eauto. Qed.

(* whether a decoder call that opens no nested map succeeds does not depend on the value it overwrites *)
Lemma rdec0_indep E rec c cur cur' w v :
  rdec0 E rec c cur w = Ok v -> exists v', rdec0 E rec c cur' w = Ok v'.
Proof.
  destruct c; simpl; intros H; eauto; try discriminate;
    try (apply omap_ok_inv in H; destruct H as [a Ha];
         match goal with |- context [lr_method E ?n ?c2 w] =>
           destruct (lr_method_indep E n _ c2 w a Ha) as [a' Ha']
         end; rewrite Ha'; simpl; eauto).
Qed.

Lemma lr_method_returns E n cur w : returns (lr_method E n cur w).
Proof. unfold lr_method. apply lr_run_returns. Qed.
Lemma lr_helper_returns E n w : returns (lr_helper E n w).
Proof. unfold lr_helper. apply lr_run_returns. Qed.

Lemma dec_iris_t_returns E w : forall cur, returns (dec_iris_t E w cur).
Proof. induction w; intros cur; simpl; apply lr_run_returns. Qed.

Lemma omap_returns' {A B} (f : A -> B) o : returns o -> returns (omap f o).
Proof. destruct o; simpl; auto. Qed.

(* ------------------------------------------------------------------ 2. tables satisfying codecs_ok *)
Lemma blist_eqb_eq a b : blist_eqb a b = true -> a = b.
Proof.
  revert b. induction a as [|x a IH]; destruct b as [|y b]; simpl; intros H; try discriminate; [reflexivity|].
  apply andb_true_iff in H. destruct H as [H1 H2]. apply bytes_eqb_eq in H1. subst. f_equal. now apply IH.
Qed.

Lemma glw_same_step wt v st a b : glw_same a b = true -> lw_step wt v st a = lw_step wt v st b.
Proof.
  destruct a, b; simpl; intros H; try discriminate; try reflexivity;
    repeat match goal with
           | H : _ && _ = true |- _ => apply andb_true_iff in H; destruct H
           | H : bytes_eqb _ _ = true |- _ => apply bytes_eqb_eq in H; subst
           | H : blist_eqb _ _ = true |- _ => apply blist_eqb_eq in H; subst
           end; reflexivity.
Qed.

Lemma lw_run_same wt v : forall tbl canon st, all2 glw_same tbl canon = true -> lw_run wt tbl v st = lw_run wt canon v st.
Proof.
  induction tbl as [|a r IH]; destruct canon as [|b c]; simpl; intros st H; try discriminate; [reflexivity|].
  apply andb_true_iff in H. destruct H as [H1 H2]. rewrite (glw_same_step wt v st a b H1).
  destruct (lw_step wt v st b); [now apply IH|reflexivity].
Qed.

Lemma glr_same_step self meth w st a b : glr_same a b = true -> lr_step self meth w st a = lr_step self meth w st b.
Proof.
  destruct a, b; simpl; intros H; try discriminate; try reflexivity;
    repeat match goal with
           | H : _ && _ = true |- _ => apply andb_true_iff in H; destruct H
           | H : bytes_eqb _ _ = true |- _ => apply bytes_eqb_eq in H; subst
           end; reflexivity.
Qed.

Lemma lr_run_same self meth w : forall tbl canon st, all2 glr_same tbl canon = true ->
  lr_run self meth w tbl st = lr_run self meth w canon st.
Proof.
  induction tbl as [|a r IH]; destruct canon as [|b c]; simpl; intros st H; try discriminate; [reflexivity|].
  apply andb_true_iff in H. destruct H as [H1 H2]. rewrite (glr_same_step self meth w st a b H1).
  destruct (lr_step self meth w st b); [now apply IH|reflexivity].
Qed.

(* ------------------------------------------------------------------ gobEncodeItem under enc_item_ok *)
Lemma genc_same_step ei el es nil x acc a b : genc_same a b = true -> genc_step ei el es nil x acc a = genc_step ei el es nil x acc b.
Proof.
  destruct a, b; simpl; intros H; try discriminate; try reflexivity;
    repeat match goal with
           | H : _ && _ = true |- _ => apply andb_true_iff in H; destruct H
           | H : bytes_eqb _ _ = true |- _ => apply bytes_eqb_eq in H; subst
           | H : Bool.eqb _ _ = true |- _ => apply Bool.eqb_prop in H; subst
           end; reflexivity.
Qed.

Lemma genc_run_same ei el es nil x : forall tbl canon acc, all2 genc_same tbl canon = true ->
  genc_run ei el es tbl nil x acc = genc_run ei el es canon nil x acc.
Proof.
  induction tbl as [|a r IH]; destruct canon as [|b c]; simpl; intros acc H; try discriminate; [reflexivity|].
  apply andb_true_iff in H. destruct H as [H1 H2]. rewrite (genc_same_step ei el es nil x acc a b H1).
  destruct (genc_step ei el es nil x acc b); [now apply IH|reflexivity].
Qed.

Section EncItem.
Variable E : gob_env.
Hypothesis He : enc_item_ok E = true.

Lemma genc_item_canon nil x :
  genc_item E nil x = genc_run (wenc_iris_t E) (enc_obj E KLink) (enc_switch E) canon_enc_item nil x WEmpty.
Proof. unfold genc_item. now apply genc_run_same. Qed.

Lemma genc_leaf_canon nil x :
  genc_leaf E nil x = genc_run (fun l => lw_exec E n_iris_enc (LvStrs l)) (fun _ => WRaw gob_garbage) (fun _ _ => WRaw gob_garbage) canon_enc_item nil x WEmpty.
Proof. unfold genc_leaf. now apply genc_run_same. Qed.

Lemma genc_unfold i :
  genc E i = genc_item E (is_nil i)
    (match i with
     | INil | ITNil _ => PiNone
     | IIri p s => PiIri p s
     | IIris _ l => PiIris (olist l)
     | IItems _ None => PiItems []
     | IItems _ (Some l) => PiItems (map (genc E) l)
     | IObj _ k fs => PiObj k (pre_fields E fs)
     end).
Proof.
  destruct i as [|k|p s|p k fs|p [l|]|p l]; reflexivity.
Qed.

(* a nil-like item writes no bytes *)
Lemma genc_nil i : is_nil i = true -> genc E i = WEmpty.
Proof. intros H. rewrite genc_unfold, H, genc_item_canon. reflexivity. Qed.

Lemma genc_iri p s : is_nil (IIri p s) = false -> genc E (IIri p s) = wraw s.
Proof. intros H. rewrite genc_unfold, H, genc_item_canon. destruct p; reflexivity. Qed.

Lemma genc_iris p l : is_nil (IIris p l) = false ->
  genc E (IIris p l) = WCat (WOpaque (wenc_iris_t E (olist l))) (WList (map wraw (olist l))).
Proof. intros H. rewrite genc_unfold, H, genc_item_canon. reflexivity. Qed.

Lemma genc_items_none : genc E (IItems true None) = WList [].
Proof. rewrite genc_unfold, genc_item_canon. reflexivity. Qed.

Lemma genc_items p l : genc E (IItems p (Some l)) = WList (map (genc E) l).
Proof.
  rewrite genc_unfold, genc_item_canon. assert (is_nil (IItems p (Some l)) = false) as -> by (destruct p; reflexivity).
  reflexivity.
Qed.

Lemma genc_obj p k fs : genc E (IObj p k fs) = enc_struct E k (pre_fields E fs).
Proof.
  rewrite genc_unfold, genc_item_canon. cbn [is_nil]. unfold enc_struct.
  destruct k; cbn; match goal with |- wcat WEmpty ?w = _ => destruct w; reflexivity | |- _ => reflexivity end.
Qed.

Lemma genc_leaf_iri s : genc_leaf E (iri_nilish s) (PiIri false s) = if iri_nilish s then WEmpty else wraw s.
Proof. rewrite genc_leaf_canon. destruct (iri_nilish s); reflexivity. Qed.

Lemma genc_leaf_items l : genc_leaf E false (PiItems l) = WList l.
Proof. rewrite genc_leaf_canon. reflexivity. Qed.
End EncItem.

Section Closed.
Variable E : gob_env.
Hypothesis Hc : codecs_ok E = true.
Hypothesis He : enc_item_ok E = true.

Lemma codecs_w_in n c : In (n, c) canon_w -> all2 glw_same (codec_w E n) c = true.
Proof.
  intros Hin. pose proof Hc as H. unfold codecs_ok in H. apply andb_true_iff in H. destruct H as [H _].
  rewrite forallb_forall in H. exact (H _ Hin).
Qed.
Lemma codecs_r_in n c : In (n, c) canon_r -> all2 glr_same (codec_r E n) c = true.
Proof.
  intros Hin. pose proof Hc as H. unfold codecs_ok in H. apply andb_true_iff in H. destruct H as [_ H].
  rewrite forallb_forall in H. exact (H _ Hin).
Qed.

Lemma helper_ok : helper_encodes (codec_w E n_strlike_enc) = true.
Proof.
  assert (H : all2 glw_same (codec_w E n_strlike_enc) cw_strlike = true) by (apply codecs_w_in; simpl; tauto).
  destruct (codec_w E n_strlike_enc) as [|a [|b [|c r]]]; simpl in H; rewrite ?andb_false_r in H; try discriminate.
  destruct a; try discriminate. destruct b; try discriminate. reflexivity.
Qed.

Lemma lw_exec_canon n c v : In (n, c) canon_w -> lw_exec E n v = wire_of_result (lw_run (codec_w E) c v lw_st0).
Proof. intros Hin. unfold lw_exec. now rewrite (lw_run_same _ v _ c lw_st0 (codecs_w_in n c Hin)). Qed.

Ltac inw := simpl; tauto.

(* ---- encoders *)
Lemma enc_iri s : lw_exec E n_iri_enc (LvStr s) = wraw s.
Proof. rewrite (lw_exec_canon _ cw_raw) by inw. reflexivity. Qed.
Lemma enc_type s : lw_exec E n_type_enc (LvStr s) = wraw s.
Proof. rewrite (lw_exec_canon _ cw_raw) by inw. reflexivity. Qed.

Lemma run_cw_bytes s : wire_of_result (lw_run (codec_w E) cw_bytes (LvStr s) lw_st0) = wenc_mime s.
Proof.
  destruct s as [|b r]; [reflexivity|].
  cbn -[helper_encodes codec_w n_strlike_enc bytes_eqb]. rewrite helper_ok.
  replace (bytes_eqb n_strlike_enc n_encode) with false by reflexivity.
  replace (bytes_eqb n_recv n_local) with false by reflexivity.
  replace (bytes_eqb n_recv n_recv) with true by reflexivity. reflexivity.
Qed.
Lemma enc_mime s : lw_exec E n_mime_enc (LvStr s) = wenc_mime s.
Proof. rewrite (lw_exec_canon _ cw_bytes) by inw. apply run_cw_bytes. Qed.
Lemma enc_langref s : lw_exec E n_langref_enc (LvStr s) = wenc_mime s.
Proof. rewrite (lw_exec_canon _ cw_bytes) by inw. apply run_cw_bytes. Qed.
Lemma enc_content s : lw_exec E n_content_enc (LvStr s) = wenc_mime s.
Proof. rewrite (lw_exec_canon _ cw_bytes) by inw. apply run_cw_bytes. Qed.

Lemma map_lrv_id (l : list (bytes * bytes)) : map (fun e => (lrv_sel n_ref e, lrv_sel n_value e)) l = l.
Proof. induction l as [|[a b] r IH]; [reflexivity|]. simpl. rewrite IH. reflexivity. Qed.

Lemma enc_nlv c : lw_exec E n_nlv_enc (LvNlv c) = wenc_nlv c.
Proof.
  rewrite (lw_exec_canon _ cw_nlv) by inw. destruct c as [[|x r]|]; try reflexivity.
  cbn -[map lrv_sel]. rewrite map_lrv_id. reflexivity.
Qed.

(* LangRefValue.GobEncode: no bytes for the zero value, else the stream of kv{K: Ref, V: Value} *)
Lemma enc_lrv k v : lw_exec E n_lrv_enc (LvKv k v) = match k, v with [], [] => WEmpty | _, _ => WKv k v end.
Proof. rewrite (lw_exec_canon _ cw_lrv) by inw. destruct k, v; reflexivity. Qed.

Lemma enc_iris l : wenc_iris_t E l = wenc_iris l.
Proof. unfold wenc_iris_t. rewrite (lw_exec_canon _ cw_iris) by inw. destruct l; reflexivity. Qed.

Lemma enc_int z : lw_exec E n_int64_enc (LvInt z) = WInt z.
Proof. rewrite (lw_exec_canon _ cw_scalar) by inw. reflexivity. Qed.
Lemma enc_uint n : lw_exec E n_uint_enc (LvUint n) = WUint n.
Proof. rewrite (lw_exec_canon _ cw_scalar) by inw. reflexivity. Qed.
Lemma enc_float z : lw_exec E n_float_enc (LvFloat z) = WFloat z.
Proof. rewrite (lw_exec_canon _ cw_scalar) by inw. reflexivity. Qed.
Lemma enc_bool b : lw_exec E n_bool_enc (LvBool b) = WBool b.
Proof. rewrite (lw_exec_canon _ cw_scalar) by inw. reflexivity. Qed.

Theorem wenc0_closed c ov : wenc0 E c ov = wenc0c c ov.
Proof.
  destruct c; destruct ov as [[|w|l|e|[i|l|l|s|t|d|n|z|b|m|mt c|e|id owner pem]]|]; try reflexivity; cbn [wenc0 wenc0c];
    rewrite ?enc_iri, ?enc_type, ?enc_mime, ?enc_langref, ?enc_nlv, ?enc_int, ?enc_uint, ?enc_float, ?enc_bool,
            ?(genc_leaf_iri E He), ?(genc_leaf_items E He); reflexivity.
Qed.

(* ---- decoders *)
Lemma lr_method_canon n c cur w : In (n, c) canon_r -> lr_method E n cur w = lr_run no_self no_meth w c (lr_st0 cur).
Proof. intros Hin. unfold lr_method. now rewrite (lr_run_same _ _ w _ c _ (codecs_r_in n c Hin)). Qed.

Lemma dec_raw n cur w : In (n, cr_raw) canon_r -> lr_method E n cur w = Ok (LvStr (wire_bytes_or_garbage w)).
Proof. intros Hin. rewrite (lr_method_canon _ _ _ _ Hin). reflexivity. Qed.

Lemma run_cr_bytes how s w :
  lr_run no_self no_meth w (cr_bytes how) (lr_st0 (LvStr s)) = omap LvStr (rdec_mime s w).
Proof.
  unfold rdec_mime. destruct w; try reflexivity;
    cbn -[gd_typed ty_bytes]; unfold gd_typed; replace (bytes_eqb ty_bytes ty_bytes) with true by reflexivity;
    match goal with |- context [gd_bytes ?x] => unfold gd_bytes; destruct (wfirst x) end; reflexivity.
Qed.
Lemma dec_mime s w : lr_method E n_mime_dec (LvStr s) w = omap LvStr (rdec_mime s w).
Proof. rewrite (lr_method_canon _ (cr_bytes how_var)) by inw. apply run_cr_bytes. Qed.
Lemma dec_langref s w : lr_method E n_langref_dec (LvStr s) w = omap LvStr (rdec_mime s w).
Proof. rewrite (lr_method_canon _ (cr_bytes how_var)) by inw. apply run_cr_bytes. Qed.
Lemma dec_content s w : lr_method E n_content_dec (LvStr s) w = omap LvStr (rdec_mime s w).
Proof. rewrite (lr_method_canon _ (cr_bytes how_make0)) by inw. apply run_cr_bytes. Qed.

Lemma map_kv_id (l : list (bytes * bytes)) : map (fun e => (kv_sel n_K e, kv_sel n_V e)) l = l.
Proof. induction l as [|[a b] r IH]; [reflexivity|]. simpl. rewrite IH. reflexivity. Qed.

Lemma gd_typed_kvs w : gd_typed ty_kvs w = omap (fun l => LvNlv (Some l)) (gd_kvs w).
Proof. reflexivity. Qed.

Lemma run_cr_nlv_ne c w : is_wempty w = false ->
  lr_run no_self no_meth w cr_nlv (lr_st0 (LvNlv c)) =
  obind (gd_kvs w) (fun l => Ok (LvNlv (match l with [] => c | _ => Some (olist c ++ l) end))).
Proof.
  intros Hne. unfold cr_nlv, lr_st0. cbn [lr_run lr_step lr_cur lr_ty lr_loc lr_dec]. rewrite Hne.
  cbn [lr_run lr_step lr_cur lr_ty lr_loc lr_dec lv_fresh]. rewrite gd_typed_kvs.
  unfold gd_kvs. destruct (wfirst w) as [| | | |m0|[|y0 l0]| | | | | | | |]; try reflexivity.
  cbn -[map kv_sel]. rewrite map_kv_id. destruct c; reflexivity.
Qed.

Lemma run_cr_nlv c w : lr_run no_self no_meth w cr_nlv (lr_st0 (LvNlv c)) = omap LvNlv (rdec_nlv_method c w).
Proof.
  unfold rdec_nlv_method. destruct w; try reflexivity; rewrite run_cr_nlv_ne by reflexivity;
    match goal with |- context [gd_kvs ?x] => destruct (gd_kvs x) as [[|y1 l1]| | |] end; reflexivity.
Qed.
Lemma dec_nlv c w : lr_method E n_nlv_dec (LvNlv c) w = omap LvNlv (rdec_nlv_method c w).
Proof. rewrite (lr_method_canon _ cr_nlv) by inw. apply run_cr_nlv. Qed.

(* LangRefValue.GobDecode: empty input leaves the value, a kv stream sets Ref := K and Value := V *)
Lemma dec_lrv a b w : lr_method E n_lrv_dec (LvKv a b) w =
  match w with WEmpty => Ok (LvKv a b) | _ => omap (fun p => LvKv (fst p) (snd p)) (gd_kv w) end.
Proof.
  rewrite (lr_method_canon _ cr_lrv) by inw. destruct w; try reflexivity;
    cbn -[gd_typed ty_kv]; unfold gd_typed;
    replace (bytes_eqb ty_kv ty_bytes) with false by reflexivity; replace (bytes_eqb ty_kv ty_kvs) with false by reflexivity;
    replace (bytes_eqb ty_kv ty_kv) with true by reflexivity;
    match goal with |- context [gd_kv ?x] => unfold gd_kv; destruct (wfirst x) end; reflexivity.
Qed.

Lemma lr_helper_canon n c w : In (n, c) canon_r ->
  lr_helper E n w = lr_run no_self (fun callee l => lr_method E callee l w) w c (lr_st0 (LvStr [])).
Proof. intros Hin. unfold lr_helper. now rewrite (lr_run_same _ _ w _ c _ (codecs_r_in n c Hin)). Qed.

Lemma rdec_nlv_cases c w : (exists l, rdec_nlv_method c w = Ok l) \/ rdec_nlv_method c w = Err.
Proof.
  unfold rdec_nlv_method. destruct w; eauto;
    match goal with |- context [gd_kvs ?x] => unfold gd_kvs; destruct (wfirst x) end; simpl; eauto.
Qed.

Lemma dec_nlv_fn w : lr_helper E n_nlv_fn w = omap LvNlv (rdec_nlv_method (Some []) w).
Proof.
  rewrite (lr_helper_canon _ cr_nlv_fn) by inw. cbn -[lr_method n_nlv_dec]. rewrite dec_nlv.
  destruct (rdec_nlv_cases (Some []) w) as [[l ->] | ->]; reflexivity.
Qed.

Lemma dec_dur_fn w : lr_helper E n_dur_fn w = omap LvInt (gd_int w).
Proof.
  rewrite (lr_helper_canon _ cr_duration) by inw. cbn -[gd_typed ty_duration]. unfold gd_typed.
  replace (bytes_eqb ty_duration ty_bytes) with false by reflexivity. replace (bytes_eqb ty_duration ty_kvs) with false by reflexivity.
  replace (bytes_eqb ty_duration ty_kv) with false by reflexivity. replace (bytes_eqb ty_duration ty_bytelist) with false by reflexivity.
  replace (bytes_eqb ty_duration ty_int64 || bytes_eqb ty_duration ty_duration) with true by reflexivity.
  unfold gd_int; destruct (wfirst w); reflexivity.
Qed.
Lemma dec_int_fn w : lr_helper E n_int64_fn w = omap LvInt (gd_int w).
Proof. rewrite (lr_helper_canon _ (cr_scalar ty_int64)) by inw. cbn. unfold gd_int; destruct (wfirst w); reflexivity. Qed.
Lemma dec_uint_fn w : lr_helper E n_uint_fn w = omap LvUint (gd_uint w).
Proof. rewrite (lr_helper_canon _ (cr_scalar ty_uint)) by inw. cbn. unfold gd_uint; destruct (wfirst w); reflexivity. Qed.
Lemma dec_float_fn w : lr_helper E n_float_fn w = omap LvFloat (gd_float w).
Proof. rewrite (lr_helper_canon _ (cr_scalar ty_float64)) by inw. cbn. unfold gd_float; destruct (wfirst w); reflexivity. Qed.
Lemma dec_bool_fn w : lr_helper E n_bool_fn w = omap LvBool (gd_bool w).
Proof. rewrite (lr_helper_canon _ (cr_scalar ty_bool)) by inw. cbn. unfold gd_bool; destruct (wfirst w); reflexivity. Qed.

Lemma endpoints_fn_ok : endpoints_fn_shape (codec_r E n_endpoints_fn) = true.
Proof.
  assert (H : all2 glr_same (codec_r E n_endpoints_fn) cr_endpoints_fn = true) by (apply codecs_r_in; simpl; tauto).
  destruct (codec_r E n_endpoints_fn) as [|a [|b [|c [|d r]]]]; simpl in H; rewrite ?andb_false_r in H; try discriminate.
  destruct a; try discriminate. destruct b; try (rewrite ?andb_false_r in H; discriminate).
  destruct c; try (rewrite ?andb_false_r in H; discriminate). simpl in *.
  repeat match goal with H : _ && _ = true |- _ => apply andb_true_iff in H; destruct H end.
  repeat match goal with H : bytes_eqb _ _ = true |- _ => apply bytes_eqb_eq in H end. subst. reflexivity.
Qed.

Lemma rdec_endpoints_fn_closed rec w : rdec_endpoints_fn E rec w = rdec_endpoints_method E rec w.
Proof. unfold rdec_endpoints_fn. now rewrite endpoints_fn_ok. Qed.

Theorem rdec0_closed rec c cur w : rdec0 E rec c cur w = rdec0c rec c cur w.
Proof.
  destruct c; cbn [rdec0 rdec0c]; try reflexivity.
  - rewrite (dec_raw n_iri_dec) by inw. reflexivity.
  - rewrite (dec_raw n_type_dec) by inw. reflexivity.
  - rewrite dec_mime. unfold cur_str. destruct (rdec_mime _ w); reflexivity.
  - rewrite dec_langref. unfold cur_str. destruct (rdec_mime _ w); reflexivity.
  - rewrite dec_nlv. destruct (rdec_nlv_method _ w); reflexivity.
  - rewrite dec_nlv_fn. destruct (rdec_nlv_method _ w); reflexivity.
  - rewrite dec_dur_fn. destruct (gd_int w); reflexivity.
  - rewrite dec_int_fn. destruct (gd_int w); reflexivity.
  - rewrite dec_uint_fn. destruct (gd_uint w); reflexivity.
  - rewrite dec_float_fn. destruct (gd_float w); reflexivity.
  - rewrite dec_bool_fn. destruct (gd_bool w); reflexivity.
Qed.

(* ---- IRIs.GobDecode *)
Lemma dec_iris_unfold w cur :
  dec_iris_t E w cur =
  lr_run (fun c => match w with WOpaque i => dec_iris_t E i c | WCat (WOpaque i) _ => dec_iris_t E i c | _ => Err end)
         no_meth w cr_iris (lr_st0 cur).
Proof.
  destruct w; simpl; (rewrite (lr_run_same _ _ _ _ cr_iris _ (codecs_r_in n_iris_dec cr_iris ltac:(simpl; tauto))); reflexivity).
Qed.

Lemma dec_iris_cases w : (exists l, dec_iris w = Ok l) \/ dec_iris w = Err.
Proof.
  induction w; simpl; eauto. destruct w1; simpl; eauto.
Qed.

Lemma dec_iris_closed_depth : forall n w, wire_depth w <= n ->
  forall c, dec_iris_t E w (LvStrs c) = omap (fun l => LvStrs (c ++ l)) (dec_iris w).
Proof.
  assert (Hl : forall (c : list bytes), c ++ [] = c) by (intros; apply app_nil_r).
  induction n as [|n IH]; intros w Hd c.
  - destruct w; simpl in Hd; lia.
  - rewrite dec_iris_unfold. destruct w as [| | | | | | |i| | | | | |a b]; try reflexivity.
    + cbn. now rewrite Hl.
    + cbn -[dec_iris_t dec_iris]. rewrite (IH i) by (simpl in Hd; lia). cbn [dec_iris].
      destruct (dec_iris_cases i) as [[l ->] | ->]; reflexivity.
    + destruct a as [| | | | | | |i| | | | | |a1 a2]; try reflexivity.
      cbn -[dec_iris_t dec_iris]. rewrite (IH i) by (cbn [wire_depth] in Hd; lia). cbn [dec_iris].
      destruct (dec_iris_cases i) as [[l ->] | ->]; reflexivity.
Qed.

Theorem dec_iris_closed w c : dec_iris_t E w (LvStrs c) = omap (fun l => LvStrs (c ++ l)) (dec_iris w).
Proof. apply (dec_iris_closed_depth (wire_depth w)). lia. Qed.

Lemma dec_iris_closed0 w : dec_iris_t E w (LvStrs []) = omap LvStrs (dec_iris w).
Proof. rewrite dec_iris_closed. destruct (dec_iris w); reflexivity. Qed.

End Closed.
