(* C03 (builder b55): the frames of (T) GobEncode / ( *T) GobDecode and the locals of gobDecodeItem.  For every table
   set satisfying [frames_ok] (Model/GobFrame.v) the interpreters over the generated statement lists compute the
   hand-written frames of Model/Gob.v the C03 / C04 / C07 theorems are about - enc_obj (hence genc_k and every struct
   the whole-value encoder writes) and gdec_k - for all kinds, all field lists, all wires.  For every declaration
   table satisfying [sniff_locals_ok] the sniffing loop started from the declared locals is Gob.sniff_run.  The
   diagnoses answer None exactly when the conditions hold. *)
From AP.Model Require Import Prelude Vocab Bytes Layout Pred Dispatch IriEq Equal Coll GobTables Gob GobCheck GobNorm GobWhole GobWrap GobFrame.
From AP.Proofs Require Import NlvP GobCodecP GobWrapP GobRtP.
From Coq Require Import Lia.

Lemma in_all_kinds k : In k all_kinds.
Proof. destruct k; vm_compute; tauto. Qed.

(* ------------------------------------------------------------------ equal statements, equal steps *)
Lemma gfw_same_step callmap st a b : gfw_same a b = true -> fw_step callmap st a = fw_step callmap st b.
Proof.
  destruct a, b; simpl; intros H; try discriminate; try reflexivity;
    repeat match goal with
           | H : _ && _ = true |- _ => apply andb_true_iff in H; destruct H
           | H : bytes_eqb _ _ = true |- _ => apply bytes_eqb_eq in H; subst
           | H : Bool.eqb _ _ = true |- _ => apply Bool.eqb_prop in H; subst
           end.
  - match goal with H1 : arg_is_recv arg = true, H2 : arg_is_recv arg0 = true |- _ => rewrite H1, H2 end. reflexivity.
  - match goal with H1 : no_bytes what = true, H2 : no_bytes what0 = true |- _ => rewrite H1, H2 end. reflexivity.
Qed.

Lemma fw_run_same callmap : forall tbl canon st, all2 gfw_same tbl canon = true ->
  fw_run callmap tbl st = fw_run callmap canon st.
Proof.
  induction tbl as [|a tbl IH]; destruct canon as [|b canon]; simpl; intros st H; try discriminate; [reflexivity|].
  apply andb_true_iff in H. destruct H as [H1 H2]. rewrite (gfw_same_step callmap st a b H1).
  destruct (fw_step callmap st b); [apply IH; exact H2|reflexivity].
Qed.

Lemma gfr_same_step asmap unmap cur w st a b : gfr_same a b = true ->
  fr_step asmap unmap cur w st a = fr_step asmap unmap cur w st b.
Proof.
  destruct a, b; simpl; intros H; try discriminate; try reflexivity;
    repeat match goal with
           | H : _ && _ = true |- _ => apply andb_true_iff in H; destruct H
           | H : bytes_eqb _ _ = true |- _ => apply bytes_eqb_eq in H; subst
           end; try reflexivity.
  match goal with H1 : arg_is_recv arg = true, H2 : arg_is_recv arg0 = true |- _ => rewrite H1, H2 end. reflexivity.
Qed.

Lemma fr_run_same asmap unmap cur w : forall tbl canon st, all2 gfr_same tbl canon = true ->
  fr_run asmap unmap cur w tbl st = fr_run asmap unmap cur w canon st.
Proof.
  induction tbl as [|a tbl IH]; destruct canon as [|b canon]; simpl; intros st H; try discriminate; [reflexivity|].
  apply andb_true_iff in H. destruct H as [H1 H2]. rewrite (gfr_same_step asmap unmap cur w st a b H1).
  destruct (fr_step asmap unmap cur w st b); [apply IH; exact H2|reflexivity].
Qed.

(* ------------------------------------------------------------------ the condition, kind by kind *)
Lemma frame_w_of E FW : frames_w_ok E FW = true -> forall k,
  all2 gfw_same (fw_table FW k) (canon_fw (enc_fn E k)) = true /\ fn_kind_w E (enc_fn E k) k = true.
Proof.
  unfold frames_w_ok. rewrite forallb_forall. intros H k. specialize (H k (in_all_kinds k)).
  unfold frame_w_ok in H. apply andb_true_iff in H. exact H.
Qed.

Lemma frame_r_of E FR : frames_r_ok E FR = true -> forall k,
  all2 gfr_same (fr_table FR k) (canon_fr (dec_fn_method E k)) = true /\ fn_kind_r E (dec_fn_method E k) k = true.
Proof.
  unfold frames_r_ok. rewrite forallb_forall. intros H k. specialize (H k (in_all_kinds k)).
  unfold frame_r_ok in H. apply andb_true_iff in H. exact H.
Qed.

(* ------------------------------------------------------------------ (T) GobEncode *)
Lemma arg_recv_is : arg_is_recv arg_recv = true. Proof. reflexivity. Qed.
Lemma no_bytes_empty : no_bytes what_empty = true. Proof. reflexivity. Qed.

(* the canonical frame around any function: no bytes when the function reports no data, else the stream of its map *)
Lemma canon_fw_run callmap fn :
  fw_run callmap (canon_fw fn) fw_st0 = let '(m, h) := callmap fn in if h then WMap m else WEmpty.
Proof.
  unfold canon_fw. cbn [fw_run fw_step fw_st0 fw_mm fw_has fw_buf fw_enc fw_out]. rewrite arg_recv_is.
  destruct (callmap fn) as [m h]. cbn [fw_run fw_step fw_mm fw_has fw_buf fw_enc fw_out]. rewrite no_bytes_empty.
  destruct h; reflexivity.
Qed.

Theorem enc_obj_closed E FW : frames_w_ok E FW = true -> forall k pfs, fw_enc_obj E FW k pfs = enc_obj E k pfs.
Proof.
  intros H k pfs. destruct (frame_w_of E FW H k) as [Hs _].
  unfold fw_enc_obj. rewrite (fw_run_same _ _ _ _ Hs), canon_fw_run.
  unfold enc_obj, enc_map_gen, wtable, callmap_of, gmap. reflexivity.
Qed.

Corollary genc_k_closed E FW : frames_w_ok E FW = true -> forall k fs, fw_genc_k E FW k fs = genc_k E k fs.
Proof. intros H k fs. unfold fw_genc_k, genc_k. rewrite (enc_obj_closed E FW H). reflexivity. Qed.

(* ------------------------------------------------------------------ ( *T) GobDecode *)
Lemma canon_fields_nil E k : canon_fields E k [] = [].
Proof. unfold canon_fields. induction (ge_layout E k) as [|d r IH]; [reflexivity|]. simpl. exact IH. Qed.

Lemma gdec_k_nonempty E k w : is_wempty w = false ->
  gdec_k E k w = obind (gd_map w) (fun mm =>
                 obind (gunmap E (dec_fuel E (S (wire_depth w))) (rtable_method E k) mm []) (fun fs => Ok (canon_fields E k fs))).
Proof. destruct w; simpl; intros H; try discriminate; reflexivity. Qed.

Lemma gdec_k_empty E k w : is_wempty w = true -> gdec_k E k w = Ok [].
Proof. destruct w; simpl; intros H; try discriminate; reflexivity. Qed.

Lemma len0_eq w : len0_cmp cmp_eq w = Some (is_wempty w). Proof. reflexivity. Qed.

Lemma canon_fr_run asmap unmap cur w fn :
  fr_run asmap unmap cur w (canon_fr fn) fr_st0 =
  if is_wempty w then Ok cur
  else match asmap fn_as_map w with
       | Ok m => unmap fn m
       | Err => Err
       | Panic p => Panic p
       | OutOfFuel => OutOfFuel
       end.
Proof.
  unfold canon_fr. cbn [fr_run fr_step]. rewrite len0_eq. destruct (is_wempty w); [reflexivity|].
  destruct (asmap fn_as_map w); cbn [fr_run fr_step fr_mm fr_err]; rewrite ?arg_recv_is; reflexivity.
Qed.

Theorem gdec_k_closed E WR FR : frames_r_ok E FR = true -> wrappers_r_ok WR = true ->
  forall k w, fr_gdec_k E WR FR k w = gdec_k E k w.
Proof.
  intros H HR k w. destruct (frame_r_of E FR H k) as [Hs _].
  unfold fr_gdec_k, fr_dec_obj. rewrite (fr_run_same _ _ _ _ _ _ _ Hs), canon_fr_run.
  destruct (is_wempty w) eqn:Ew.
  - rewrite (gdec_k_empty E k w Ew). simpl. rewrite canon_fields_nil. reflexivity.
  - rewrite (gdec_k_nonempty E k w Ew). unfold asmap_of.
    change (bytes_eqb fn_as_map fn_as_map) with true. cbv iota. rewrite (as_map_closed WR HR).
    unfold unmap_of, rtable_method. destruct (gd_map w); reflexivity.
Qed.

(* on a receiver that already holds something: empty input leaves it as it is *)
Theorem dec_obj_empty E WR FR : frames_r_ok E FR = true ->
  forall rec k cur, fr_dec_obj E WR FR rec k cur WEmpty = Ok cur.
Proof.
  intros H rec k cur. destruct (frame_r_of E FR H k) as [Hs _].
  unfold fr_dec_obj. rewrite (fr_run_same _ _ _ _ _ _ _ Hs), canon_fr_run. reflexivity.
Qed.

(* the functions the frames call are written for the receiver's own struct *)
Theorem frames_call_own E FW FR : frames_ok E FW FR = true -> forall k,
  (exists es, fn_lookup (enc_fn E k) (ge_wfuncs E) = Some (Some k, es)) /\
  (exists es, fn_lookup (dec_fn_method E k) (ge_rfuncs E) = Some (Some k, es)).
Proof.
  intros H k. apply andb_true_iff in H. destruct H as [HW HR].
  destruct (frame_w_of E FW HW k) as [_ Kw]. destruct (frame_r_of E FR HR k) as [_ Kr].
  unfold fn_kind_w in Kw. unfold fn_kind_r in Kr. split.
  - destruct (fn_lookup (enc_fn E k) (ge_wfuncs E)) as [[[k'|] es]|]; try discriminate.
    apply internal_kind_dec_bl in Kw. subst. eexists. reflexivity.
  - destruct (fn_lookup (dec_fn_method E k) (ge_rfuncs E)) as [[[k'|] es]|]; try discriminate.
    apply internal_kind_dec_bl in Kr. subst. eexists. reflexivity.
Qed.

(* ------------------------------------------------------------------ the method round trip, through the tables *)
Theorem method_roundtrip_frames E WR WW FW FR :
  gob_whole_ok E = true -> wrappers_ok WR WW = true -> frames_ok E FW FR = true ->
  forall k fs,
  (forall f v, In (f, v) fs -> match ftype E k f with Some t => shape_ok t v | None => true end = true /\ wf_gob_fval E v = true) ->
  exists out, fr_gdec_k E WR FR k (fw_genc_k E FW k fs) = Ok out /\
              norm_fields (ge_layout E) (ge_layout_endpoints E) k out = norm_fields (ge_layout E) (ge_layout_endpoints E) k fs.
Proof.
  intros HE HW HF k fs Hfs. apply andb_true_iff in HW. destruct HW as [HR _].
  apply andb_true_iff in HF. destruct HF as [HFW HFR].
  rewrite (genc_k_closed E FW HFW), (gdec_k_closed E WR FR HFR HR).
  exact (gob_method_roundtrip E HE k fs Hfs).
Qed.

(* ------------------------------------------------------------------ the diagnosis *)
Theorem frames_first_bad_none E FW FR : frames_first_bad E FW FR = None <-> frames_ok E FW FR = true.
Proof.
  unfold frames_first_bad, frames_ok, frames_w_ok, frames_r_ok.
  rewrite andb_true_iff, !forallb_forall.
  assert (Aw : forall k, frame_w_bad E FW k = None <-> frame_w_ok E FW k = true).
  { intros k. unfold frame_w_bad, frame_w_ok. rewrite andb_true_iff, <- (first_diff_none gfw_same).
    destruct (first_diff gfw_same (fw_table FW k) (canon_fw (enc_fn E k))); [split; [discriminate|intros [? _]; discriminate]|].
    destruct (fn_kind_w E (enc_fn E k) k); split; try tauto; try discriminate. intros [_ ?]; discriminate. }
  assert (Ar : forall k, frame_r_bad E FR k = None <-> frame_r_ok E FR k = true).
  { intros k. unfold frame_r_bad, frame_r_ok. rewrite andb_true_iff, <- (first_diff_none gfr_same).
    destruct (first_diff gfr_same (fr_table FR k) (canon_fr (dec_fn_method E k))); [split; [discriminate|intros [? _]; discriminate]|].
    destruct (fn_kind_r E (dec_fn_method E k) k); split; try tauto; try discriminate. intros [_ ?]; discriminate. }
  destruct (first_some (frame_w_bad E FW) all_kinds) as [d|] eqn:Ea.
  - split; [discriminate|]. intros [Hw _]. exfalso.
    assert (Hn : first_some (frame_w_bad E FW) all_kinds = None).
    { apply first_some_none. intros k Hk. apply Aw. apply Hw. exact Hk. }
    rewrite Hn in Ea. discriminate.
  - rewrite first_some_none in Ea. rewrite first_some_none. split.
    + intros Hr. split; intros k Hk; [apply Aw, Ea, Hk|apply Ar, Hr, Hk].
    + intros [_ Hr] k Hk. apply Ar, Hr, Hk.
Qed.

(* ------------------------------------------------------------------ the locals of gobDecodeItem *)
Lemma local_of_decl SL fn h t : local_decl SL fn = Some (h, t) -> local_of SL fn = sl_fresh h t.
Proof.
  induction SL as [|[[[f how] ty] p] r IH]; simpl; [discriminate|].
  destruct (bytes_eqb f fn); [intros [= <- <-]; reflexivity|exact IH].
Qed.

Lemma local_of_expected SL fn how ty :
  decl_eqb (local_decl SL fn) (expected_local fn) = true -> expected_local fn = Some (how, ty) ->
  local_of SL fn = sl_fresh how ty.
Proof.
  intros H He. rewrite He in H. destruct (local_decl SL fn) as [[h t]|] eqn:Ed; [|discriminate].
  simpl in H. apply andb_true_iff in H. destruct H as [H1 H2].
  apply bytes_eqb_eq in H1. apply bytes_eqb_eq in H2. subst. exact (local_of_decl SL fn how ty Ed).
Qed.

Theorem sniff_try_l_closed SL WR E rec fn w :
  decl_eqb (local_decl SL fn) (expected_local fn) = true ->
  sniff_try_l SL WR E rec fn w = sniff_try_t WR E rec fn w.
Proof.
  intros H. unfold sniff_try_l, sniff_try_t.
  destruct (bytes_eqb fn fn_try_items) eqn:E1.
  { apply bytes_eqb_eq in E1. subst fn. rewrite (local_of_expected SL _ how_make0 ty_items H eq_refl). reflexivity. }
  destruct (bytes_eqb fn fn_try_iris) eqn:E2.
  { apply bytes_eqb_eq in E2. subst fn. rewrite (local_of_expected SL _ how_make0 ty_iris H eq_refl). reflexivity. }
  destruct (bytes_eqb fn fn_try_iri) eqn:E3.
  { apply bytes_eqb_eq in E3. subst fn. rewrite (local_of_expected SL _ how_conv_empty ty_iri H eq_refl). reflexivity. }
  reflexivity.
Qed.

Theorem sniff_run_l_closed SL WR E rec : forall l w,
  (forall fn, In fn (sniff_tries l) -> decl_eqb (local_decl SL fn) (expected_local fn) = true) ->
  sniff_run_l SL WR E rec l w = sniff_run_t WR E rec l w.
Proof.
  induction l as [|s r IH]; intros w H; [reflexivity|]. cbn [sniff_run_l sniff_run_t].
  assert (E1 : sniff_one_l SL WR E rec s w = sniff_one_t WR E rec s w).
  { destruct s; cbn [sniff_one_l sniff_one_t]; try reflexivity.
    apply sniff_try_l_closed. apply H. simpl. left. reflexivity. }
  rewrite E1, IH; [reflexivity|]. intros fn Hin. apply H. unfold sniff_tries in *. simpl. apply in_or_app. right. exact Hin.
Qed.

(* gobDecodeItem with its locals made as declared, every callee run from its table, is the sniffing loop of Model/Gob.v *)
Theorem sniff_locals_closed SL WR E : forall l, sniff_locals_ok SL l = true -> wrappers_r_ok WR = true ->
  forall rec w, sniff_run_l SL WR E rec l w = sniff_run E rec l w.
Proof.
  intros l H HR rec w. unfold sniff_locals_ok in H. apply andb_true_iff in H. destruct H as [H _].
  rewrite forallb_forall in H. rewrite (sniff_run_l_closed SL WR E rec l w H). exact (sniff_run_closed WR E HR rec l w).
Qed.

Theorem sniff_locals_first_bad_none SL l : sniff_locals_first_bad SL l = None <-> sniff_locals_ok SL l = true.
Proof.
  unfold sniff_locals_first_bad, sniff_locals_ok. rewrite andb_true_iff, !forallb_forall.
  match goal with |- match ?a with _ => _ end = None <-> _ => destruct a as [d|] eqn:Ea end.
  - split; [discriminate|]. intros [H _]. exfalso.
    assert (Hn : first_some (fun fn => if decl_eqb (local_decl SL fn) (expected_local fn) then None else Some (fn, local_decl SL fn))
                            (sniff_tries l) = None).
    { apply first_some_none. intros fn Hfn. rewrite (H fn Hfn). reflexivity. }
    rewrite Hn in Ea. discriminate.
  - rewrite first_some_none in Ea. rewrite first_some_none. split.
    + intros Hd. split.
      * intros fn Hfn. specialize (Ea fn Hfn). destruct (decl_eqb (local_decl SL fn) (expected_local fn)); [reflexivity|discriminate].
      * intros [[[f how] ty] p] Hin. specialize (Hd _ Hin). simpl in Hd.
        destruct (existsb (bytes_eqb f) (sniff_tries l)); [reflexivity|discriminate].
    + intros [_ Hd] [[[f how] ty] p] Hin. specialize (Hd _ Hin). simpl in Hd. rewrite Hd. reflexivity.
Qed.

(* ------------------------------------------------------------------ the leaf structs: role lists run *)
Lemma role_w_run_canon e : role_w_run e frame_w fw_st0 = let '(m, h) := e in if h then WMap m else WEmpty.
Proof. destruct e as [m [|]]; vm_compute; reflexivity. Qed.

Lemma bytes_list_eqb_eq a b : bytes_list_eqb a b = true -> a = b.
Proof. exact (blist_eqb_eq a b). Qed.

Section RoleSteps.
Variable entries : wmap -> list (fid * fval) -> outcome (list (fid * fval)).
Variable w : wire.
Lemma rs_empty st : role_r_step entries w st (B "empty-nil") = if is_wempty w then inr (Ok (lf_cur st)) else inl st.
Proof. reflexivity. Qed.
Lemma rs_asmap st : role_r_step entries w st (B "decode-as-map") =
  match gd_map w with
  | Ok m => inl (mk_lf_st (Some m) false (lf_dec st) (lf_cur st))
  | Err => inl (mk_lf_st (Some []) true (lf_dec st) (lf_cur st))
  | Panic p => inr (Panic p)
  | OutOfFuel => inr OutOfFuel
  end.
Proof. reflexivity. Qed.
Lemma rs_err st : role_r_step entries w st (B "err-return") = if lf_err st then inr Err else inl st.
Proof. reflexivity. Qed.
Lemma rs_make st : role_r_step entries w st (B "make-mm") = inl (mk_lf_st (Some []) (lf_err st) (lf_dec st) (lf_cur st)).
Proof. reflexivity. Qed.
Lemma rs_decoder st : role_r_step entries w st (B "decoder") = inl (mk_lf_st (lf_mm st) (lf_err st) true (lf_cur st)).
Proof. reflexivity. Qed.
Lemma rs_decode st : role_r_step entries w st (B "decode-mm") =
  match lf_dec st, lf_mm st with
  | true, Some _ =>
      match gd_map w with
      | Ok m => inl (mk_lf_st (Some m) (lf_err st) true (lf_cur st))
      | Err => inr Err
      | Panic p => inr (Panic p)
      | OutOfFuel => inr OutOfFuel
      end
  | _, _ => inr Err
  end.
Proof. reflexivity. Qed.
Lemma rs_entries st : role_r_step entries w st (B "entries") =
  match lf_mm st with
  | Some m => match entries m (lf_cur st) with
              | Ok fs => inl (mk_lf_st (lf_mm st) (lf_err st) (lf_dec st) fs)
              | o => inr o
              end
  | None => inr Err
  end.
Proof. reflexivity. Qed.
Lemma rs_ret st : role_r_step entries w st (B "return-nil") = inr (Ok (lf_cur st)).
Proof. reflexivity. Qed.

Lemma role_r_run_canon1 cur :
  role_r_run entries w frame_r1 (mk_lf_st None false false cur) =
  if is_wempty w then Ok cur else obind (gd_map w) (fun mm => entries mm cur).
Proof.
  unfold frame_r1. cbn [role_r_run]. rewrite rs_empty. destruct (is_wempty w); [reflexivity|].
  rewrite rs_asmap. destruct (gd_map w) as [m| | |]; cbn [obind]; try reflexivity.
  rewrite rs_err. cbn [lf_err]. rewrite rs_entries. cbn [lf_mm lf_cur].
  destruct (entries m cur); reflexivity.
Qed.

Lemma role_r_run_canon2 cur :
  role_r_run entries w frame_r2 (mk_lf_st None false false cur) =
  if is_wempty w then Ok cur else obind (gd_map w) (fun mm => entries mm cur).
Proof.
  unfold frame_r2. cbn [role_r_run]. rewrite rs_empty. destruct (is_wempty w); [reflexivity|].
  rewrite rs_make, rs_decoder, rs_decode. cbn [lf_dec lf_mm].
  destruct (gd_map w) as [m| | |]; cbn [obind]; try reflexivity.
  rewrite rs_entries. cbn [lf_mm lf_cur]. destruct (entries m cur); reflexivity.
Qed.
End RoleSteps.

Lemma rdec_leaf_split E rec n cur w :
  rdec_leaf E rec n cur w = if is_wempty w then Ok cur else obind (gd_map w) (fun mm => gunmap_gen (rdec0 E rec) (leaf_r E n) mm cur).
Proof. destruct w; reflexivity. Qed.

(* for every environment whose leaf frames pass leaf_frames_ok (part of gob_whole_ok): the role lists RUN are the
   hand-written frames of Model/Gob.v around the same statements *)
Theorem leaf_frames_closed E n : leaf_frames_ok E n = true ->
  (forall pfs, lf_enc E n pfs = enc_map_gen (wenc0 E) (leaf_w E n) pfs) /\
  (forall rec cur w, lf_dec_leaf E rec n cur w = rdec_leaf E rec n cur w).
Proof.
  unfold leaf_frames_ok, lf_enc, lf_dec_leaf, leaf_w, leaf_r. intros H.
  destruct (aget n (ge_leaf_w E)) as [[rows fw]|]; [|discriminate].
  destruct (aget n (ge_leaf_r E)) as [[rrows fr]|] eqn:Er; [|discriminate].
  apply andb_true_iff in H. destruct H as [Hw Hr]. apply bytes_list_eqb_eq in Hw. subst fw. split.
  - intros pfs. rewrite role_w_run_canon. unfold enc_map_gen. cbn [fst]. reflexivity.
  - intros rec cur w. rewrite rdec_leaf_split. unfold leaf_r. rewrite Er. cbn [fst].
    apply orb_true_iff in Hr. destruct Hr as [Hr|Hr]; apply bytes_list_eqb_eq in Hr; subst fr.
    + apply role_r_run_canon1.
    + apply role_r_run_canon2.
Qed.
