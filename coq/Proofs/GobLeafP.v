(* C03: the leaf structs Source / PublicKey / Endpoints.  Their codecs are the generated statements of
   T.GobEncode / ( *T).GobDecode interpreted one level down (wenc0 / rdec0); the round trip of each follows
   from the generic struct lemma of Proofs/GobP.v under the leaf table condition [leaves_ok].  Then the
   soundness of every encoder / decoder pair the table condition of the 14 struct kinds accepts. *)
From AP.Model Require Import Prelude Vocab Bytes Layout Pred Dispatch GobTables Gob GobCheck GobNorm GobWhole.
From AP.Proofs Require Import NlvP ViewsP GobCodecP GobP.

Lemma gotype_eqb_eq a b : gotype_eqb a b = true -> a = b.
Proof.
  destruct a, b; simpl; try discriminate; try reflexivity. intros H. apply bytes_eqb_eq in H. now subst.
Qed.

Lemma nodup_fids_unique (L : list fdecl) : nodup_fids (map fd_fid L) = true ->
  forall d d', In d L -> In d' L -> fd_fid d = fd_fid d' -> d = d'.
Proof.
  induction L as [|a r IH]; simpl; intros Hn d d' Hd Hd' Hf; [tauto|].
  apply andb_true_iff in Hn. destruct Hn as [Hna Hn]. apply negb_true_iff in Hna.
  assert (Hno : forall x, In x r -> fd_fid a <> fd_fid x).
  { intros x Hx Heq. assert (existsb (fid_beq (fd_fid a)) (map fd_fid r) = true); [|congruence].
    apply existsb_exists. exists (fd_fid x). split; [now apply in_map|]. rewrite Heq. apply fid_beq_refl. }
  destruct Hd as [->|Hd], Hd' as [->|Hd']; auto.
  - exfalso. eapply Hno; eauto.
  - exfalso. eapply Hno; eauto.
Qed.

Lemma has_field_In L f t : has_field L f t = true -> exists d, In d L /\ fd_fid d = f /\ fd_type d = t.
Proof.
  unfold has_field. rewrite existsb_exists. intros [d [Hd H]]. apply andb_true_iff in H. destruct H as [Hf Ht].
  apply fid_beq_eq in Hf. apply gotype_eqb_eq in Ht. eauto.
Qed.

Lemma has_field_type L f t d : nodup_fids (map fd_fid L) = true -> has_field L f t = true -> In d L -> fd_fid d = f -> fd_type d = t.
Proof.
  intros Hn Hh Hd Hf. destruct (has_field_In L f t Hh) as (d' & Hd' & Hf' & Ht').
  assert (d = d') by (eapply nodup_fids_unique; eauto; congruence). now subst.
Qed.

(* ------------------------------------------------------------------ reading values back from normal forms *)
Section Norms.
Variable L : kind -> list fdecl.
Variable LE : list fdecl.
Notation NV := (norm_fval L LE).
Notation N := (norm_item L LE).

Definition norm_endp (e : list (fid * item)) : list (fid * item) := map (fun p => (fst p, N (snd p))) e.

Lemma norm_endpoints e :
  NV (FEndpoints (Some e)) = match reorder_items LE (norm_endp e) with [] => None | e' => Some (FEndpoints (Some e')) end.
Proof.
  change (NV (FEndpoints (Some e))) with
    (match reorder_items LE ((fix go (e : list (fid * item)) : list (fid * item) :=
                                match e with [] => [] | (f, x) :: r => (f, N x) :: go r end) e) with
     | [] => None | e' => Some (FEndpoints (Some e')) end).
  assert (Hgo : (fix go (e : list (fid * item)) : list (fid * item) :=
                   match e with [] => [] | (f, x) :: r => (f, N x) :: go r end) e = norm_endp e).
  { induction e as [|[f x] r IH]; [reflexivity|]. unfold norm_endp. simpl. f_equal. exact IH. }
  now rewrite Hgo.
Qed.

Lemma norm_some_str v s : NV v = Some (FStr s) -> v = FStr s.
Proof.
  destruct v as [i|l|l|s0|t|d|n|z|b|m|mt c|e|id owner pem]; intros H.
  - change (NV (FItem i)) with (match N i with INil => None | i' => Some (FItem i') end) in H. destruct (N i); discriminate.
  - destruct l as [[|x r]|]; discriminate.
  - destruct l as [[|x r]|]; discriminate.
  - destruct s0; [discriminate|]. now injection H as <-.
  - change (NV (FTime t)) with (if vtime_is_zero t then None else Some (FTime t)) in H. destruct (vtime_is_zero t); discriminate.
  - change (NV (FDur d)) with (if (d =? 0)%Z then None else Some (FDur d)) in H. destruct (d =? 0)%Z; discriminate.
  - change (NV (FUint n)) with (if (n =? 0)%N then None else Some (FUint n)) in H. destruct (n =? 0)%N; discriminate.
  - change (NV (FInt z)) with (if (z =? 0)%Z then None else Some (FInt z)) in H. destruct (z =? 0)%Z; discriminate.
  - destruct b; discriminate.
  - change (NV (FFloat m)) with (if (m =? 0)%Z then None else Some (FFloat m)) in H. destruct (m =? 0)%Z; discriminate.
  - destruct mt; destruct c as [[|x r]|]; discriminate.
  - destruct e as [e|]; [|discriminate]. rewrite norm_endpoints in H.
    destruct (reorder_items LE (norm_endp e)); discriminate.
  - destruct id; destruct owner; destruct pem; discriminate.
Qed.

Lemma norm_some_nlv v c : NV v = Some (FNlv c) -> exists c', v = FNlv c' /\ norm_nlv c' = c.
Proof.
  destruct v as [i|l|l|s0|t|d|n|z|b|m|mt c0|e|id owner pem]; intros H.
  - change (NV (FItem i)) with (match N i with INil => None | i' => Some (FItem i') end) in H. destruct (N i); discriminate.
  - destruct l as [[|x r]|]; discriminate.
  - destruct l as [[|x r]|]; try discriminate. injection H as <-. eexists; split; reflexivity.
  - destruct s0; discriminate.
  - change (NV (FTime t)) with (if vtime_is_zero t then None else Some (FTime t)) in H. destruct (vtime_is_zero t); discriminate.
  - change (NV (FDur d)) with (if (d =? 0)%Z then None else Some (FDur d)) in H. destruct (d =? 0)%Z; discriminate.
  - change (NV (FUint n)) with (if (n =? 0)%N then None else Some (FUint n)) in H. destruct (n =? 0)%N; discriminate.
  - change (NV (FInt z)) with (if (z =? 0)%Z then None else Some (FInt z)) in H. destruct (z =? 0)%Z; discriminate.
  - destruct b; discriminate.
  - change (NV (FFloat m)) with (if (m =? 0)%Z then None else Some (FFloat m)) in H. destruct (m =? 0)%Z; discriminate.
  - destruct mt; destruct c0 as [[|x r]|]; discriminate.
  - destruct e as [e|]; [|discriminate]. rewrite norm_endpoints in H.
    destruct (reorder_items LE (norm_endp e)); discriminate.
  - destruct id; destruct owner; destruct pem; discriminate.
Qed.

Lemma norm_some_item v x : NV v = Some (FItem x) -> exists i, v = FItem i /\ N i = x.
Proof.
  destruct v as [i|l|l|s0|t|d|n|z|b|m|mt c0|e|id owner pem]; intros H.
  - change (NV (FItem i)) with (match N i with INil => None | i' => Some (FItem i') end) in H.
    exists i. split; [reflexivity|]. destruct (N i); try discriminate; now injection H as <-.
  - destruct l as [[|x0 r]|]; discriminate.
  - destruct l as [[|x0 r]|]; discriminate.
  - destruct s0; discriminate.
  - change (NV (FTime t)) with (if vtime_is_zero t then None else Some (FTime t)) in H. destruct (vtime_is_zero t); discriminate.
  - change (NV (FDur d)) with (if (d =? 0)%Z then None else Some (FDur d)) in H. destruct (d =? 0)%Z; discriminate.
  - change (NV (FUint n)) with (if (n =? 0)%N then None else Some (FUint n)) in H. destruct (n =? 0)%N; discriminate.
  - change (NV (FInt z)) with (if (z =? 0)%Z then None else Some (FInt z)) in H. destruct (z =? 0)%Z; discriminate.
  - destruct b; discriminate.
  - change (NV (FFloat m)) with (if (m =? 0)%Z then None else Some (FFloat m)) in H. destruct (m =? 0)%Z; discriminate.
  - destruct mt; destruct c0 as [[|x0 r]|]; discriminate.
  - destruct e as [e|]; [|discriminate]. rewrite norm_endpoints in H.
    destruct (reorder_items LE (norm_endp e)); discriminate.
  - destruct id; destruct owner; destruct pem; discriminate.
Qed.

Lemma norm_str s : NV (FStr s) = match s with [] => None | _ => Some (FStr s) end.
Proof. destruct s; reflexivity. Qed.

(* a field list whose property [f] has the normal form of the string [s] holds [s] there *)
Lemma get_str_of_norm f out s :
  onorm L LE out f = NV (FStr s) -> get_str f out = s.
Proof.
  unfold onorm, get_str. rewrite norm_str. destruct (getf f out) as [v|]; intros H.
  - destruct s as [|b r].
    + destruct v; try reflexivity. destruct s; [reflexivity|discriminate].
    + apply norm_some_str in H. now subst.
  - destruct s; [reflexivity|discriminate].
Qed.

Lemma get_nlv_of_norm f out c :
  onorm L LE out f = NV (FNlv c) -> norm_nlv (get_nlv f out) = norm_nlv c.
Proof.
  unfold onorm, get_nlv. intros H.
  assert (Hc : NV (FNlv c) = match norm_nlv c with None => None | c' => Some (FNlv c') end) by reflexivity.
  rewrite Hc in H. clear Hc.
  destruct (getf f out) as [v|].
  - destruct (norm_nlv c) as [l|] eqn:Hn.
    + apply norm_some_nlv in H. destruct H as (c' & -> & Hc'). exact Hc'.
    + destruct v; try reflexivity. simpl in H. destruct l as [[|x r]|]; try reflexivity. discriminate.
  - destruct (norm_nlv c); [discriminate|reflexivity].
Qed.
End Norms.

(* ------------------------------------------------------------------ the leaf structs *)
Section Leaf.
Variable E : gob_env.
Hypothesis Hleaves : leaves_ok E = true.
Hypothesis Hep : ge_endpoints_codec E = true.
Hypothesis Hcodecs : codecs_ok E = true.
Hypothesis Henc : enc_item_ok E = true.
Variable rec : wire -> outcome item.
Hypothesis Hnil : rec_ok E rec INil.
Notation N := (norm_item (ge_layout E) (ge_layout_endpoints E)).
Notation NV := (norm_fval (ge_layout E) (ge_layout_endpoints E)).
Notation ON := (onorm (ge_layout E) (ge_layout_endpoints E)).

Lemma leaves_parts :
  leaf_ok E n_source [] = true /\ source_layout_ok E = true /\ leaf_ok E n_pubkey [F_Owner] = true /\
  pubkey_layout_ok E = true /\ leaf_ok E n_endpoints [] = true /\ endpoints_layouts_ok E = true.
Proof.
  pose proof Hleaves as H. unfold leaves_ok in H. do 5 (apply andb_true_iff in H; destruct H as [H ?]). repeat split; assumption.
Qed.

(* the interpreted one-call codecs are the closed forms (codecs_ok): the pair lemma of GobP.v transports *)
Lemma codec_pair_sound0t t cw cr (ov : option fval) cur :
  pair_ok0 t cw cr = true ->
  (forall v, ov = Some v -> shape_ok t v = true) ->
  (forall v i, ov = Some v -> In i (items_of v) -> rec_ok E rec i) ->
  rec_ok E rec INil ->
  (cw <> CwIri -> cw <> CwType -> cw <> CwRawBytes -> cur_ok cur) ->
  (t = TItems -> is_item_codec cw = true -> exists l, ov = Some (FItems (Some l))) ->
  (is_item_codec cw = true -> forall s, ov = Some (FStr s) -> s = [] \/ iri_nilish s = false) ->
  exists v', rdec0 E rec cr cur (wenc0 E cw (option_map (pre_fval E) ov)) = Ok v' /\
             NV v' = match ov with Some v => NV v | None => None end.
Proof.
  intros. rewrite (wenc0_closed E Hcodecs Henc), (rdec0_closed E Hcodecs). eapply codec_pair_sound0; eauto.
Qed.

Lemma shape_str_type t s : shape_ok t (FStr s) = true -> t = TString.
Proof. destruct t; simpl; try discriminate; reflexivity. Qed.

(* T.GobEncode then ( *T).GobDecode into a zero T, T a leaf struct: every property has its normal form back *)
Lemma leaf_rt n allowed fs :
  leaf_ok E n allowed = true ->
  (forall d v, In d (leaf_layout E n) -> getf (fd_fid d) fs = Some v -> shape_ok (fd_type d) v = true) ->
  (forall d v i, In d (leaf_layout E n) -> getf (fd_fid d) fs = Some v -> In i (items_of v) -> rec_ok E rec i) ->
  (forall f s, In f allowed -> getf f fs = Some (FStr s) -> s = [] \/ iri_nilish s = false) ->
  exists out, rdec_leaf E rec n [] (enc_map_gen (wenc0 E) (leaf_w E n) (pre_fields E fs)) = Ok out /\
              forall d, In d (leaf_layout E n) -> ON out (fd_fid d) = ON fs (fd_fid d).
Proof.
  intros Hl Hshape Hrec Hallowed.
  unfold leaf_ok in Hl. apply andb_true_iff in Hl. destruct Hl as [Hl Hsi]. apply andb_true_iff in Hl. destruct Hl as [_ Hok].
  assert (Hstr : forall d key cn gf g fl pos cw s,
            In d (leaf_layout E n) -> In (GW (fd_fid d) key cn gf g fl pos) (leaf_w E n) -> wcodec_of cn = Some cw ->
            is_item_codec cw = true -> getf (fd_fid d) fs = Some (FStr s) -> s = [] \/ iri_nilish s = false).
  { intros d key cn gf g fl pos cw s Hd Hin Hc Hic Hget.
    unfold str_item_ok in Hsi. rewrite forallb_forall in Hsi. specialize (Hsi _ Hin). simpl in Hsi. rewrite Hc, Hic in Hsi.
    apply orb_true_iff in Hsi. destruct Hsi as [Hsi|Hsi].
    - exfalso. apply negb_true_iff in Hsi.
      assert (has_field (leaf_layout E n) (fd_fid d) TString = true); [|congruence].
      unfold has_field. apply existsb_exists. exists d. split; [exact Hd|].
      rewrite fid_beq_refl. rewrite (shape_str_type _ _ (Hshape d _ Hd Hget)). reflexivity.
    - apply existsb_exists in Hsi. destruct Hsi as [f [Hf Hfe]]. apply fid_beq_eq in Hfe. subst f. eapply Hallowed; eauto. }
  assert (Hindep0 : forall t cw cr, pair_ok0 t cw cr = true ->
            forall cur cur' w v, rdec0 E rec cr cur w = Ok v -> exists v', rdec0 E rec cr cur' w = Ok v').
  { intros t cw cr _ cur cur' w v. apply rdec0_indep. }
  unfold enc_map_gen. destruct (gmap_gen (wenc0 E) (leaf_w E n) (pre_fields E fs)) as [mm has] eqn:Hg.
  destruct has.
  - destruct (struct_rt E rec (wenc0 E) (rdec0 E rec) fits0 pair_ok0 codec_pair_sound0t Hindep0
                _ _ _ Hok fs Hnil [] Hshape Hrec Hstr) as [out [Hout Hf]].
    { intros d Hd. left. now left. }
    rewrite Hg in Hout. simpl in Hout. exists out. split; [exact Hout|exact Hf].
  - exists []. split; [reflexivity|]. intros d Hd.
    rewrite (nodata_unset E (wenc0 E) fits0 pair_ok0 _ _ _ Hok fs Hshape d Hd); [reflexivity|]. now rewrite Hg.
Qed.

(* ---- Source *)
Lemma source_rt mt c cur :
  cur_ok cur ->
  exists v', rdec_source E rec cur (wenc_source E mt c) = Ok v' /\ NV v' = NV (FSource mt c).
Proof.
  intros Hcur. destruct leaves_parts as (Hl & Hly & _).
  unfold source_layout_ok in Hly. apply andb_true_iff in Hly. destruct Hly as [Hmt Hct].
  assert (Hnd : nodup_fids (map fd_fid (leaf_layout E n_source)) = true).
  { unfold leaf_ok in Hl. apply andb_true_iff in Hl. destruct Hl as [Hl _]. apply andb_true_iff in Hl. destruct Hl as [_ Hl].
    unfold struct_ok in Hl. repeat (apply andb_true_iff in Hl; destruct Hl as [Hl ?]). exact Hl. }
  set (fs := [(F_MediaType, FStr mt); (F_Content, FNlv c)]).
  destruct (leaf_rt n_source [] fs Hl) as [out [Hout Hf]].
  - intros d v Hd Hget. unfold fs in Hget. simpl in Hget.
    destruct (fid_beq (fd_fid d) F_MediaType) eqn:H1.
    + apply fid_beq_eq in H1. injection Hget as <-. now rewrite (has_field_type _ _ _ d Hnd Hmt Hd H1).
    + destruct (fid_beq (fd_fid d) F_Content) eqn:H2; [|discriminate].
      apply fid_beq_eq in H2. injection Hget as <-. now rewrite (has_field_type _ _ _ d Hnd Hct Hd H2).
  - intros d v i Hd Hget Hi. unfold fs in Hget. simpl in Hget.
    destruct (fid_beq (fd_fid d) F_MediaType); [injection Hget as <-; destruct Hi|].
    destruct (fid_beq (fd_fid d) F_Content); [injection Hget as <-; destruct Hi|discriminate].
  - intros f s [].
  - assert (Hsf : source_fields cur = []) by (destruct Hcur as [-> | ->]; reflexivity).
    unfold rdec_source, wenc_source. rewrite Hsf.
    change (source_pfs mt c) with (pre_fields E fs). rewrite Hout. simpl.
    eexists. split; [reflexivity|].
    destruct (has_field_In _ _ _ Hmt) as (d1 & Hd1 & Hf1 & _). destruct (has_field_In _ _ _ Hct) as (d2 & Hd2 & Hf2 & _).
    pose proof (Hf d1 Hd1) as H1. pose proof (Hf d2 Hd2) as H2. rewrite Hf1 in H1. rewrite Hf2 in H2.
    assert (Hs1 : ON fs F_MediaType = NV (FStr mt)) by reflexivity.
    assert (Hs2 : ON fs F_Content = NV (FNlv c)) by reflexivity.
    rewrite Hs1 in H1. rewrite Hs2 in H2.
    apply get_str_of_norm in H1. apply get_nlv_of_norm in H2.
    unfold source_of. rewrite H1.
    change (NV (FSource mt (get_nlv F_Content out))) with
      (match mt, norm_nlv (get_nlv F_Content out) with [], None => None | _, c' => Some (FSource mt c') end).
    rewrite H2. reflexivity.
Qed.

(* ---- PublicKey *)
Lemma leaf_nodup n allowed : leaf_ok E n allowed = true -> nodup_fids (map fd_fid (leaf_layout E n)) = true.
Proof.
  intros Hl. unfold leaf_ok in Hl. apply andb_true_iff in Hl. destruct Hl as [Hl _]. apply andb_true_iff in Hl. destruct Hl as [_ Hl].
  unfold struct_ok in Hl. do 5 (apply andb_true_iff in Hl; destruct Hl as [Hl ?]). exact Hl.
Qed.

Lemma pubkey_rt id owner pem cur :
  cur_ok cur -> match owner with [] => true | _ => negb (iri_nilish owner) end = true ->
  exists v', rdec_pubkey E rec cur (wenc_pubkey E id owner pem) = Ok v' /\ NV v' = NV (FPubKey id owner pem).
Proof.
  intros Hcur Hown. destruct leaves_parts as (_ & _ & Hl & Hly & _).
  unfold pubkey_layout_ok in Hly. apply andb_true_iff in Hly. destruct Hly as [Hly Hpt]. apply andb_true_iff in Hly. destruct Hly as [Hit Hot].
  pose proof (leaf_nodup _ _ Hl) as Hnd.
  set (fs := [(F_ID, FStr id); (F_Owner, FStr owner); (F_PublicKeyPem, FStr pem)]).
  destruct (leaf_rt n_pubkey [F_Owner] fs Hl) as [out [Hout Hf]].
  - intros d v Hd Hget. unfold fs in Hget. simpl in Hget.
    destruct (fid_beq (fd_fid d) F_ID) eqn:H1.
    { apply fid_beq_eq in H1. injection Hget as <-. now rewrite (has_field_type _ _ _ d Hnd Hit Hd H1). }
    destruct (fid_beq (fd_fid d) F_Owner) eqn:H2.
    { apply fid_beq_eq in H2. injection Hget as <-. now rewrite (has_field_type _ _ _ d Hnd Hot Hd H2). }
    destruct (fid_beq (fd_fid d) F_PublicKeyPem) eqn:H3; [|discriminate].
    apply fid_beq_eq in H3. injection Hget as <-. now rewrite (has_field_type _ _ _ d Hnd Hpt Hd H3).
  - intros d v i Hd Hget Hi. unfold fs in Hget. simpl in Hget.
    destruct (fid_beq (fd_fid d) F_ID); [injection Hget as <-; destruct Hi|].
    destruct (fid_beq (fd_fid d) F_Owner); [injection Hget as <-; destruct Hi|].
    destruct (fid_beq (fd_fid d) F_PublicKeyPem); [injection Hget as <-; destruct Hi|discriminate].
  - intros f s [<-|[]] Hget. unfold fs in Hget. simpl in Hget. injection Hget as <-.
    destruct owner; [now left|right]. now apply negb_true_iff in Hown.
  - assert (Hsf : pubkey_fields cur = []) by (destruct Hcur as [-> | ->]; reflexivity).
    unfold rdec_pubkey, wenc_pubkey. rewrite Hsf.
    change (pubkey_pfs id owner pem) with (pre_fields E fs). rewrite Hout. simpl.
    eexists. split; [reflexivity|].
    destruct (has_field_In _ _ _ Hit) as (d1 & Hd1 & Hf1 & _). destruct (has_field_In _ _ _ Hot) as (d2 & Hd2 & Hf2 & _).
    destruct (has_field_In _ _ _ Hpt) as (d3 & Hd3 & Hf3 & _).
    pose proof (Hf d1 Hd1) as H1. pose proof (Hf d2 Hd2) as H2. pose proof (Hf d3 Hd3) as H3.
    rewrite Hf1 in H1. rewrite Hf2 in H2. rewrite Hf3 in H3.
    assert (Hs1 : ON fs F_ID = NV (FStr id)) by reflexivity.
    assert (Hs2 : ON fs F_Owner = NV (FStr owner)) by reflexivity.
    assert (Hs3 : ON fs F_PublicKeyPem = NV (FStr pem)) by reflexivity.
    rewrite Hs1 in H1. rewrite Hs2 in H2. rewrite Hs3 in H3.
    apply get_str_of_norm in H1, H2, H3. unfold pubkey_of. now rewrite H1, H2, H3.
Qed.

(* ---- Endpoints *)
Definition endp_fields (e : list (fid * item)) : list (fid * fval) := map (fun p => (fst p, FItem (snd p))) e.

Lemma getf_endp_fields f e : getf f (endp_fields e) = option_map FItem (fget f e).
Proof.
  induction e as [|[g x] r IH]; [reflexivity|]. simpl. destruct (fid_beq f g); [reflexivity|exact IH].
Qed.

Lemma pre_endp_fields e :
  pre_fval E (FEndpoints (Some e)) = PEndp (pre_fields E (endp_fields e)).
Proof.
  change (pre_fval E (FEndpoints (Some e))) with
    (PEndp ((fix go (e : list (fid * item)) : list (fid * pfval) :=
               match e with [] => [] | (f, x) :: r => (f, match x with INil => PNil | _ => PItem (genc E x) end) :: go r end) e)).
  f_equal. induction e as [|[f x] r IH]; [reflexivity|].
  change (pre_fields E (endp_fields ((f, x) :: r))) with ((f, pre_fval E (FItem x)) :: pre_fields E (endp_fields r)).
  rewrite <- IH. reflexivity.
Qed.

Lemma fget_norm_endp f e : fget f (norm_endp (ge_layout E) (ge_layout_endpoints E) e) = option_map N (fget f e).
Proof.
  induction e as [|[g x] r IH]; [reflexivity|]. unfold norm_endp in *. simpl. destruct (fid_beq f g); [reflexivity|exact IH].
Qed.

Lemma fget_flat_none f (r : list fdecl) out :
  existsb (fid_beq f) (map fd_fid r) = false ->
  fget f (flat_map (fun d0 => match getf (fd_fid d0) out with Some (FItem i) => [(fd_fid d0, i)] | _ => [] end) r) = None.
Proof.
  induction r as [|a r IH]; simpl; intros H; [reflexivity|].
  apply orb_false_iff in H. destruct H as [Ha Hr].
  destruct (getf (fd_fid a) out) as [[i| | | | | | | | | | | |]|]; simpl; try rewrite Ha; auto.
Qed.

Lemma fid_beq_sym a b : fid_beq a b = fid_beq b a.
Proof.
  destruct (fid_beq a b) eqn:H1, (fid_beq b a) eqn:H2; try reflexivity.
  - apply fid_beq_eq in H1. subst. now rewrite fid_beq_refl in H2.
  - apply fid_beq_eq in H2. subst. now rewrite fid_beq_refl in H1.
Qed.

Lemma fget_endp_of f out :
  nodup_fids (map fd_fid (ge_layout_endpoints E)) = true -> in_fields (ge_layout_endpoints E) f = true ->
  fget f (endp_of E out) = match getf f out with Some (FItem i) => Some i | _ => None end.
Proof.
  unfold endp_of, in_fields. induction (ge_layout_endpoints E) as [|d r IH]; simpl; intros Hn Hin; [discriminate|].
  apply andb_true_iff in Hn. destruct Hn as [Hna Hn]. apply negb_true_iff in Hna.
  destruct (fid_beq (fd_fid d) f) eqn:Hdf.
  - apply fid_beq_eq in Hdf. subst f.
    destruct (getf (fd_fid d) out) as [[i| | | | | | | | | | | |]|] eqn:Hg; simpl; try rewrite fid_beq_refl; try reflexivity.
    all: now apply fget_flat_none.
  - simpl in Hin. rewrite <- (IH Hn Hin).
    destruct (getf (fd_fid d) out) as [[i| | | | | | | | | | | |]|]; simpl; try reflexivity.
    now rewrite fid_beq_sym, Hdf.
Qed.


Lemma flat_map_ext_in {A B} (f g : A -> list B) l : (forall a, In a l -> f a = g a) -> flat_map f l = flat_map g l.
Proof.
  induction l as [|a r IH]; simpl; intros H; [reflexivity|]. rewrite (H a (or_introl eq_refl)), IH; auto.
Qed.

Lemma fget_In {A} f (e : list (fid * A)) x : fget f e = Some x -> In x (map snd e).
Proof.
  induction e as [|[g y] r IH]; simpl; [discriminate|]. destruct (fid_beq f g); [intros H; injection H as ->; now left|right; auto].
Qed.

Definition ent (f : fid) (o : option item) : list (fid * item) :=
  match o with Some INil | None => [] | Some i => [(f, i)] end.

Lemma ent_of_norm f out e :
  ON out f = ON (endp_fields e) f ->
  ent f (option_map N (match getf f out with Some (FItem i) => Some i | _ => None end)) = ent f (option_map N (fget f e)).
Proof.
  unfold onorm. rewrite getf_endp_fields. intros H.
  assert (Hrhs : match option_map FItem (fget f e) with Some v => NV v | None => None end =
                 match fget f e with Some i => (match N i with INil => None | x => Some (FItem x) end) | None => None end).
  { destruct (fget f e); reflexivity. }
  rewrite Hrhs in H. clear Hrhs.
  destruct (getf f out) as [v|].
  - destruct (fget f e) as [i|].
    + destruct (N i) eqn:Hni.
      * (* the property is unset: whatever came back is unset too *)
        simpl. rewrite Hni. destruct v as [i'| | | | | | | | | | | |]; simpl; try reflexivity.
        change (NV (FItem i')) with (match N i' with INil => None | x => Some (FItem x) end) in H.
        destruct (N i'); try discriminate. reflexivity.
      * apply norm_some_item in H. destruct H as (i' & -> & Hi'). simpl. now rewrite Hi', Hni.
      * apply norm_some_item in H. destruct H as (i' & -> & Hi'). simpl. now rewrite Hi', Hni.
      * apply norm_some_item in H. destruct H as (i' & -> & Hi'). simpl. now rewrite Hi', Hni.
      * apply norm_some_item in H. destruct H as (i' & -> & Hi'). simpl. now rewrite Hi', Hni.
      * apply norm_some_item in H. destruct H as (i' & -> & Hi'). simpl. now rewrite Hi', Hni.
    + simpl. destruct v as [i'| | | | | | | | | | | |]; simpl; try reflexivity.
      change (NV (FItem i')) with (match N i' with INil => None | x => Some (FItem x) end) in H.
      destruct (N i'); try discriminate. reflexivity.
  - destruct (fget f e) as [i|]; [|reflexivity]. simpl. destruct (N i); try discriminate. reflexivity.
Qed.

Lemma endpoints_rt e :
  (forall x, In x (map snd e) -> rec_ok E rec x) ->
  exists v', rdec_endpoints_fn E rec (wenc E CwEndpoints (Some (pre_fval E (FEndpoints (Some e))))) = Ok v' /\
             NV v' = NV (FEndpoints (Some e)).
Proof.
  intros Hrec. destruct leaves_parts as (_ & _ & _ & _ & Hl & Hly).
  unfold endpoints_layouts_ok in Hly. apply andb_true_iff in Hly. destruct Hly as [Hly Hnd].
  apply andb_true_iff in Hly. destruct Hly as [Hcover Hitems].
  rewrite forallb_forall in Hcover, Hitems.
  destruct (leaf_rt n_endpoints [] (endp_fields e) Hl) as [out [Hout Hf]].
  - intros d v Hd Hget. rewrite getf_endp_fields in Hget. destruct (fget (fd_fid d) e); [|discriminate].
    injection Hget as <-. rewrite (gotype_eqb_eq _ _ (Hitems d Hd)). reflexivity.
  - intros d v i Hd Hget Hi. rewrite getf_endp_fields in Hget. destruct (fget (fd_fid d) e) as [x|] eqn:Hx; [|discriminate].
    injection Hget as <-. destruct Hi as [<-|[]]. apply Hrec. eapply fget_In; eauto.
  - intros f s [].
  - rewrite pre_endp_fields. rewrite (rdec_endpoints_fn_closed E Hcodecs). unfold rdec_endpoints_method. cbn [wenc]. unfold wenc_endpoints. rewrite Hep, Hout. simpl.
    eexists. split; [reflexivity|].
    rewrite !norm_endpoints.
    assert (Hre : reorder_items (ge_layout_endpoints E) (norm_endp (ge_layout E) (ge_layout_endpoints E) (endp_of E out)) =
                  reorder_items (ge_layout_endpoints E) (norm_endp (ge_layout E) (ge_layout_endpoints E) e)).
    { unfold reorder_items. apply flat_map_ext_in. intros d Hd.
      rewrite !fget_norm_endp.
      assert (Hin : in_fields (ge_layout_endpoints E) (fd_fid d) = true).
      { unfold in_fields. apply existsb_exists. exists d. split; [exact Hd|apply fid_beq_refl]. }
      rewrite (fget_endp_of _ out Hnd Hin).
      destruct (has_field_In _ _ _ (Hcover d Hd)) as (d' & Hd' & Hfd' & _).
      pose proof (Hf d' Hd') as Heq. rewrite Hfd' in Heq.
      exact (ent_of_norm (fd_fid d) out e Heq). }
    now rewrite Hre.
Qed.

(* ---- every encoder / decoder pair the table condition of the struct kinds accepts *)
Lemma endp_of_nil : endp_of E [] = [].
Proof. unfold endp_of. induction (ge_layout_endpoints E) as [|d r IH]; [reflexivity|exact IH]. Qed.

Lemma reorder_items_nil LE : reorder_items LE [] = [].
Proof. unfold reorder_items. induction LE as [|d r IH]; [reflexivity|exact IH]. Qed.

Lemma rdec_leaf_indep n c1 c2 w o :
  rdec_leaf E rec n c1 w = Ok o -> exists o', rdec_leaf E rec n c2 w = Ok o'.
Proof.
  unfold rdec_leaf. intros H.
  assert (Hg : forall mm, gunmap_gen (rdec0 E rec) (leaf_r E n) mm c1 = Ok o -> exists o', gunmap_gen (rdec0 E rec) (leaf_r E n) mm c2 = Ok o').
  { intros mm Hm. unfold gunmap_gen in *. eapply fold_rstep_indep; [|exact Hm]. intros. eapply rdec0_indep; eauto. }
  destruct w; try (now eauto); destruct (gd_map _) as [mm| | |] eqn:Hm; simpl in *; try discriminate; eauto.
Qed.

Lemma rdec_indep t cw cr :
  pair_ok true t cw cr = true ->
  forall cur cur' w v, rdec E rec cr cur w = Ok v -> exists v', rdec E rec cr cur' w = Ok v'.
Proof.
  intros Hp cur cur' w v H.
  destruct cr;
    try (change (rdec0 E rec ?c cur w = Ok v) in H; eapply rdec0_indep; exact H);
    try (match type of H with rdec E rec ?c cur w = _ => change (rdec0 E rec c cur w = Ok v) in H;
                                                          change (exists v', rdec0 E rec c cur' w = Ok v') end;
         eapply rdec0_indep; exact H).
  - (* Source *)
    unfold rdec, rdec_source in *.
    destruct (rdec_leaf E rec n_source (source_fields cur) w) as [o| | |] eqn:Ho; try discriminate.
    destruct (rdec_leaf_indep _ _ (source_fields cur') _ _ Ho) as [o' ->]. simpl. eauto.
  - (* Endpoints.GobDecode through a field: never accepted *)
    exfalso. destruct t; destruct cw; discriminate.
  - eauto.
  - unfold rdec, rdec_pubkey in *.
    destruct (rdec_leaf E rec n_pubkey (pubkey_fields cur) w) as [o| | |] eqn:Ho; try discriminate.
    destruct (rdec_leaf_indep _ _ (pubkey_fields cur') _ _ Ho) as [o' ->]. simpl. eauto.
Qed.

Lemma codec_pair_sound t cw cr (ov : option fval) cur :
  pair_ok true t cw cr = true ->
  (forall v, ov = Some v -> shape_ok t v = true) ->
  (forall v i, ov = Some v -> In i (items_of v) -> rec_ok E rec i) ->
  rec_ok E rec INil ->
  (cw <> CwIri -> cw <> CwType -> cw <> CwRawBytes -> cur_ok cur) ->
  (t = TItems -> is_item_codec cw = true -> exists l, ov = Some (FItems (Some l))) ->
  (is_item_codec cw = true -> forall s, ov = Some (FStr s) -> s = [] \/ iri_nilish s = false) ->
  exists v', rdec E rec cr cur (wenc E cw (option_map (pre_fval E) ov)) = Ok v' /\
             NV v' = match ov with Some v => NV v | None => None end.
Proof.
  intros Hp Hshape Hrec _ Hcur Hitems Hstr.
  assert (Hl0 : t <> TSource -> t <> TEndpoints -> t <> TPubKey ->
                pair_ok0 t cw cr = true /\ (forall x, wenc E cw x = wenc0 E cw x) /\
                (forall c w, rdec E rec cr c w = rdec0 E rec cr c w)).
  { intros H1 H2 H3. destruct t; try congruence; destruct cw; try discriminate; destruct cr; try discriminate;
      (split; [reflexivity|split; [intros x; reflexivity|intros c w; reflexivity]]). }
  destruct t.
  1-10, 14: (destruct Hl0 as (Hp0 & Hw & Hr); try discriminate; rewrite Hw, Hr; eapply codec_pair_sound0t; eauto).
  - (* Source *)
    destruct cw; try discriminate; destruct cr; try discriminate.
    specialize (Hcur ltac:(discriminate) ltac:(discriminate) ltac:(discriminate)).
    destruct ov as [v|].
    + specialize (Hshape v eq_refl). destruct v; try discriminate. cbn [option_map pre_fval wenc rdec].
      now apply source_rt.
    + cbn [option_map wenc rdec]. unfold rdec_source. cbn [rdec_leaf].
      assert (Hsf : source_fields cur = []) by (destruct Hcur as [-> | ->]; reflexivity).
      rewrite Hsf. simpl. eexists. split; reflexivity.
  - (* Endpoints *)
    destruct cw; try discriminate; destruct cr; try discriminate.
    assert (Hnone : exists v', rdec_endpoints_fn E rec WEmpty = Ok v' /\ NV v' = None).
    { rewrite (rdec_endpoints_fn_closed E Hcodecs). unfold rdec_endpoints_method. rewrite Hep. cbn [rdec_leaf obind]. eexists. split; [reflexivity|].
      rewrite norm_endpoints, endp_of_nil. unfold norm_endp. simpl. now rewrite reorder_items_nil. }
    destruct ov as [v|].
    + specialize (Hshape v eq_refl). destruct v as [| | | | | | | | | | |e0|]; try discriminate.
      destruct e0 as [e|].
      * cbn [option_map rdec]. apply endpoints_rt. intros x Hx. eapply Hrec; [reflexivity|exact Hx].
      * exact Hnone.
    + exact Hnone.
  - (* PublicKey *)
    destruct cw; try discriminate; destruct cr; try discriminate.
    specialize (Hcur ltac:(discriminate) ltac:(discriminate) ltac:(discriminate)).
    destruct ov as [v|].
    + specialize (Hshape v eq_refl). destruct v; try discriminate. cbn [option_map pre_fval wenc rdec].
      apply pubkey_rt; [exact Hcur|exact Hshape].
    + cbn [option_map wenc rdec]. unfold rdec_pubkey. cbn [rdec_leaf].
      assert (Hsf : pubkey_fields cur = []) by (destruct Hcur as [-> | ->]; reflexivity).
      rewrite Hsf. simpl. eexists. split; reflexivity.
Qed.
End Leaf.
