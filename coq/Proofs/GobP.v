(* C03: lemmas about the table-driven gob codec model (Model/Gob.v) and the proof that the table
   condition (Model/GobCheck.v) implies the round trip. *)
From AP.Model Require Import Prelude Vocab Bytes Layout Pred Dispatch GobTables Gob GobCheck GobNorm GobWhole.
From AP.Proofs Require Import NlvP ViewsP GobCodecP.

(* ------------------------------------------------------------------ association lists *)
Lemma aget_aset_same {A} k (v : A) m : aget k (aset k v m) = Some v.
Proof.
  induction m as [|[k' v'] r IH]; simpl.
  - now rewrite bytes_eqb_refl.
  - destruct (bytes_eqb k k') eqn:Hk; simpl; [now rewrite bytes_eqb_refl|now rewrite Hk].
Qed.

Lemma aget_aset_other {A} k k' (v : A) m : k <> k' -> aget k (aset k' v m) = aget k m.
Proof.
  intros Hne. induction m as [|[k2 v2] r IH]; simpl.
  - apply bytes_eqb_neq in Hne. now rewrite Hne.
  - destruct (bytes_eqb k' k2) eqn:Hk; simpl.
    + apply bytes_eqb_eq in Hk; subst k2. apply bytes_eqb_neq in Hne. now rewrite Hne.
    + destruct (bytes_eqb k k2); [reflexivity|exact IH].
Qed.

Lemma aget_aset {A} k k' (v : A) m : aget k (aset k' v m) = if bytes_eqb k k' then Some v else aget k m.
Proof.
  destruct (bytes_eqb k k') eqn:Hk.
  - apply bytes_eqb_eq in Hk; subst. apply aget_aset_same.
  - apply bytes_eqb_neq in Hk. now apply aget_aset_other.
Qed.

(* ------------------------------------------------------------------ field lists *)
Lemma fid_beq_false a b : fid_beq a b = false <-> a <> b.
Proof.
  split.
  - intros H Heq. apply fid_beq_eq in Heq. congruence.
  - intros H. destruct (fid_beq a b) eqn:Hb; [apply fid_beq_eq in Hb; contradiction|reflexivity].
Qed.

Lemma getf_delf_same f fs : getf f (delf f fs) = None.
Proof.
  induction fs as [|[g v] r IH]; simpl; [reflexivity|].
  destruct (fid_beq f g) eqn:Hfg; [exact IH|]. simpl. now rewrite Hfg.
Qed.

Lemma getf_delf_other f g fs : f <> g -> getf g (delf f fs) = getf g fs.
Proof.
  intros Hne. induction fs as [|[h v] r IH]; simpl; [reflexivity|].
  destruct (fid_beq f h) eqn:Hfh.
  - apply fid_beq_eq in Hfh; subst h.
    assert (fid_beq g f = false) as -> by (apply fid_beq_false; congruence). exact IH.
  - simpl. destruct (fid_beq g h); [reflexivity|exact IH].
Qed.

Lemma getf_replf_same f v fs : getf f (replf f v fs) = Some v.
Proof.
  induction fs as [|[g w] r IH]; simpl.
  - now rewrite fid_beq_refl.
  - destruct (fid_beq f g) eqn:Hfg; simpl; [now rewrite fid_beq_refl|now rewrite Hfg].
Qed.

Lemma getf_replf_other f g v fs : f <> g -> getf g (replf f v fs) = getf g fs.
Proof.
  intros Hne. assert (fid_beq g f = false) as Hgf by (apply fid_beq_false; congruence).
  induction fs as [|[h w] r IH]; simpl.
  - now rewrite Hgf.
  - destruct (fid_beq f h) eqn:Hfh; simpl.
    + apply fid_beq_eq in Hfh; subst h. now rewrite Hgf.
    + destruct (fid_beq g h); [reflexivity|exact IH].
Qed.

Lemma getf_setf_same f v fs : getf f (setf f v fs) = if fval_is_zero v then None else Some v.
Proof. unfold setf. destruct (fval_is_zero v); [apply getf_delf_same|apply getf_replf_same]. Qed.

Lemma getf_setf_other f g v fs : f <> g -> getf g (setf f v fs) = getf g fs.
Proof. intros H. unfold setf. destruct (fval_is_zero v); [now apply getf_delf_other|now apply getf_replf_other]. Qed.

(* ------------------------------------------------------------------ the write side *)
Section Write.
Variable enc : wcodec -> option pfval -> wire.
Variable fits : wcodec -> gotype -> bool.
Variable pfs : list (fid * pfval).
Notation wentry_ok := (wentry_ok_gen fits).

Lemma wstep_has_mono st e : snd st = true -> snd (wstep_gen enc pfs st e) = true.
Proof.
  destruct st as [mm has]; simpl; intros ->.
  destruct e as [f key cn gf g flag pos|gf g pos| |]; simpl; try reflexivity.
  - destruct (guard_eval g true (fget gf pfs)); [|reflexivity]. destruct (wcodec_of cn); reflexivity.
  - destruct (guard_eval g true (fget gf pfs)); reflexivity.
Qed.

Lemma wstep_key_mono st e key w :
  aget key (fst st) = Some w -> exists w', aget key (fst (wstep_gen enc pfs st e)) = Some w'.
Proof.
  destruct st as [mm has]; simpl; intros H.
  destruct e as [f k cn gf g flag pos|gf g pos| |]; simpl; eauto.
  - destruct (guard_eval g has (fget gf pfs)); simpl; eauto.
    destruct (wcodec_of cn); simpl; eauto.
    rewrite aget_aset. destruct (bytes_eqb key k); eauto.
  - destruct (guard_eval g has (fget gf pfs)); simpl; eauto.
Qed.

Lemma fold_has_mono W : forall st, snd st = true -> snd (fold_left (wstep_gen enc pfs) W st) = true.
Proof. induction W as [|e r IH]; simpl; intros st H; [exact H|]. apply IH. now apply wstep_has_mono. Qed.

Lemma fold_key_mono W : forall st key w,
  aget key (fst st) = Some w -> exists w', aget key (fst (fold_left (wstep_gen enc pfs) W st)) = Some w'.
Proof.
  induction W as [|e r IH]; simpl; intros st key w H; [eauto|].
  destruct (wstep_key_mono st e key w H) as [w' H']. eapply IH; eauto.
Qed.

(* every binding of the final map was put there by a write statement *)
Lemma fold_binding W : forall st key w,
  aget key (fst (fold_left (wstep_gen enc pfs) W st)) = Some w ->
  aget key (fst st) = Some w \/
  exists f cn c gf g flag pos, In (GW f key cn gf g flag pos) W /\ wcodec_of cn = Some c /\ w = enc c (fget f pfs)
                               /\ exists has', guard_eval g has' (fget gf pfs) = true.
Proof.
  induction W as [|e r IH]; simpl; intros st key w H; [now left|].
  apply IH in H. destruct H as [H|H].
  - destruct st as [mm has].
    destruct e as [f k cn gf g flag pos|gf g pos| |]; simpl in H; try (now left).
    + destruct (guard_eval g has (fget gf pfs)) eqn:Hg; [|now left].
      destruct (wcodec_of cn) as [c|] eqn:Hc; [|now left]. simpl in H.
      rewrite aget_aset in H. destruct (bytes_eqb key k) eqn:Hk; [|now left].
      apply bytes_eqb_eq in Hk; subst k. inversion H; subst w.
      right. exists f, cn, c, gf, g, flag, pos. repeat split; auto. now exists has.
    + destruct (guard_eval g has (fget gf pfs)); now left.
  - right. destruct H as (f & cn & c & gf & g & flag & pos & Hin & Hc & Hw & Hg).
    exists f, cn, c, gf, g, flag, pos. auto.
Qed.

(* "the field is set": every admissible guard holds *)
Variable f : fid.
Variable t : gotype.
Hypothesis Hset : forall g has, guard_ok g t = true -> guard_eval g has (fget f pfs) = true.

Lemma fold_fires W : forall st flagged,
  forallb (wentry_ok f t) W = true ->
  fires f t flagged W = true ->
  (flagged = true -> snd st = true) ->
  exists key cn gf g flag pos w,
    In (GW f key cn gf g flag pos) W /\ aget key (fst (fold_left (wstep_gen enc pfs) W st)) = Some w.
Proof.
  induction W as [|e r IH]; simpl; intros st flagged Hok Hf Hfl; [discriminate|].
  apply andb_true_iff in Hok. destruct Hok as [Hok1 Hok].
  assert (Hmono : snd st = true -> snd (wstep_gen enc pfs st e) = true) by (intros; now apply wstep_has_mono).
  destruct e as [f' key cn gf g flag pos|gf g pos|on fn pos|src pos].
  - destruct (fid_beq f' f) eqn:Hff.
    + apply fid_beq_eq in Hff; subst f'. simpl in Hok1. rewrite fid_beq_refl in Hok1.
      apply andb_true_iff in Hok1. destruct Hok1 as [Hok1 Htype].
      apply andb_true_iff in Hok1. destruct Hok1 as [Hgf Hcodec].
      apply fid_beq_eq in Hgf; subst gf. rewrite fid_beq_refl in Hf. simpl in Hf.
      destruct (wcodec_of cn) as [c|] eqn:Hc; [|discriminate].
      assert (Hwritten : guard_eval g (snd st) (fget f pfs) = true ->
                exists key0 cn0 gf0 g0 flag0 pos0 w,
                  (GW f key cn f g flag pos = GW f key0 cn0 gf0 g0 flag0 pos0 \/ In (GW f key0 cn0 gf0 g0 flag0 pos0) r) /\
                  aget key0 (fst (fold_left (wstep_gen enc pfs) r (wstep_gen enc pfs st (GW f key cn f g flag pos)))) = Some w).
      { intros Hg. destruct st as [mm has]. simpl in Hg. simpl. rewrite Hg, Hc.
        destruct (fold_key_mono r (aset key (enc c (fget f pfs)) mm, has || flag) key (enc c (fget f pfs))) as [w Hw].
        { simpl. apply aget_aset_same. }
        exists key, cn, f, g, flag, pos, w. split; [now left|exact Hw]. }
      destruct (guard_ok g t) eqn:Hgo.
      * apply Hwritten. now apply Hset.
      * simpl in Hf. destruct (is_hasdata g && flagged) eqn:Hhd.
        -- apply andb_true_iff in Hhd. destruct Hhd as [Hhd Hflg]. destruct g; try discriminate.
           apply Hwritten. simpl. now apply Hfl.
        -- destruct (IH (wstep_gen enc pfs st (GW f key cn f g flag pos)) flagged Hok Hf) as (k0 & cn0 & gf0 & g0 & fl0 & p0 & w & Hin & Hw).
           { intros Hx. apply Hmono; auto. }
           exists k0, cn0, gf0, g0, fl0, p0, w. split; [now right|exact Hw].
    + destruct (IH (wstep_gen enc pfs st (GW f' key cn gf g flag pos)) flagged Hok Hf) as (k0 & cn0 & gf0 & g0 & fl0 & p0 & w & Hin & Hw).
      { intros Hx. apply Hmono; auto. }
      exists k0, cn0, gf0, g0, fl0, p0, w. split; [now right|exact Hw].
  - destruct (IH (wstep_gen enc pfs st (GWFlag gf g pos)) (flagged || (fid_beq gf f && guard_ok g t)) Hok Hf) as (k0 & cn0 & gf0 & g0 & fl0 & p0 & w & Hin & Hw).
    { intros Hx. apply orb_true_iff in Hx. destruct Hx as [Hx|Hx]; [apply Hmono; auto|].
      apply andb_true_iff in Hx. destruct Hx as [Hgf Hgo]. apply fid_beq_eq in Hgf; subst gf.
      destruct st as [mm has]. simpl. rewrite (Hset g has Hgo). reflexivity. }
    exists k0, cn0, gf0, g0, fl0, p0, w. split; [now right|exact Hw].
  - destruct (IH (wstep_gen enc pfs st (GWDeleg on fn pos)) flagged Hok Hf) as (k0 & cn0 & gf0 & g0 & fl0 & p0 & w & Hin & Hw).
    { intros Hx. apply Hmono; auto. }
    exists k0, cn0, gf0, g0, fl0, p0, w. split; [now right|exact Hw].
  - destruct (IH (wstep_gen enc pfs st (GWUnrecognised src pos)) flagged Hok Hf) as (k0 & cn0 & gf0 & g0 & fl0 & p0 & w & Hin & Hw).
    { intros Hx. apply Hmono; auto. }
    exists k0, cn0, gf0, g0, fl0, p0, w. split; [now right|exact Hw].
Qed.

Lemma fold_flags W : forall st,
  forallb (wentry_ok f t) W = true ->
  flags f t W = true -> snd (fold_left (wstep_gen enc pfs) W st) = true.
Proof.
  induction W as [|e r IH]; simpl; intros st Hok Hf; [discriminate|].
  apply andb_true_iff in Hok. destruct Hok as [Hok1 Hok].
  apply orb_true_iff in Hf. destruct Hf as [Hf|Hf]; [|now apply IH].
  apply fold_has_mono. destruct st as [mm has].
  destruct e as [f' key cn gf g flag pos|gf g pos| |]; try discriminate.
  - apply andb_true_iff in Hf. destruct Hf as [Hf Hgo]. apply andb_true_iff in Hf. destruct Hf as [Hf Hflag].
    apply andb_true_iff in Hf. destruct Hf as [Hff Hgf].
    apply fid_beq_eq in Hff; subst f'. apply fid_beq_eq in Hgf; subst gf.
    simpl in Hok1. rewrite fid_beq_refl in Hok1. apply andb_true_iff in Hok1. destruct Hok1 as [Hok1 _]. simpl in Hok1.
    destruct (wcodec_of cn) as [c|] eqn:Hc; [|discriminate].
    simpl. rewrite (Hset g has Hgo), Hc. simpl. rewrite Hflag. apply orb_true_r.
  - apply andb_true_iff in Hf. destruct Hf as [Hgf Hgo]. apply fid_beq_eq in Hgf; subst gf.
    simpl. now rewrite (Hset g has Hgo).
Qed.

End Write.

(* ------------------------------------------------------------------ the read side *)
Section Read.
Variable dec : rcodec -> option fval -> wire -> outcome fval.
Variable mm : wmap.

Lemma fold_rstep_err R : forall st, (forall fs, st <> Ok fs) -> forall out, fold_left (rstep_gen dec mm) R st <> Ok out.
Proof.
  induction R as [|e r IH]; simpl; intros st Hst out; [apply Hst|].
  apply IH. intros fs. destruct st; simpl; try discriminate. exfalso. eapply Hst; reflexivity.
Qed.

Definition r_is (f : fid) (e : grentry) : bool := match e with GR f' _ _ _ => fid_beq f' f | _ => false end.

Lemma fold_read_other f R : forall fs out,
  forallb (fun e => negb (r_is f e)) R = true ->
  fold_left (rstep_gen dec mm) R (Ok fs) = Ok out -> getf f out = getf f fs.
Proof.
  induction R as [|e r IH]; simpl; intros fs out Hno H; [now inversion H|].
  apply andb_true_iff in Hno. destruct Hno as [Hno1 Hno].
  destruct e as [f' key cn pos| |]; simpl in H; try (now apply IH).
  simpl in Hno1. apply negb_true_iff in Hno1. apply fid_beq_false in Hno1.
  destruct (aget key mm) as [raw|]; [|now apply IH].
  destruct (rcodec_of cn) as [c|]; [|now apply IH].
  destruct (dec c (getf f' fs) raw) as [v| | |] eqn:Hd; simpl in H;
    try (exfalso; eapply fold_rstep_err; [|exact H]; intros; discriminate).
  rewrite (IH _ _ Hno H). now apply getf_setf_other.
Qed.

Lemma count_zero_no f R : length (filter (r_is f) R) = 0 -> forallb (fun e => negb (r_is f e)) R = true.
Proof.
  induction R as [|e r IH]; simpl; [reflexivity|]. destruct (r_is f e); simpl; [discriminate|exact IH].
Qed.

(* the property [f] after unmap: what its one read statement decoded, or what it was before *)
Lemma fold_read_one f R : forall fs out,
  length (filter (r_is f) R) = 1 ->
  fold_left (rstep_gen dec mm) R (Ok fs) = Ok out ->
  exists key cn pos, In (GR f key cn pos) R /\
    match aget key mm, rcodec_of cn with
    | Some raw, Some c => exists v, dec c (getf f fs) raw = Ok v /\ getf f out = if fval_is_zero v then None else Some v
    | _, _ => getf f out = getf f fs
    end.
Proof.
  induction R as [|e r IH]; simpl; intros fs out Hc H; [discriminate|].
  destruct (r_is f e) eqn:Hr.
  - simpl in Hc. injection Hc as Hc. apply count_zero_no in Hc.
    destruct e as [f' key cn pos| |]; try discriminate. simpl in Hr. apply fid_beq_eq in Hr; subst f'.
    exists key, cn, pos. split; [now left|]. simpl in H.
    destruct (aget key mm) as [raw|]; [|now apply (fold_read_other f r)].
    destruct (rcodec_of cn) as [c|]; [|now apply (fold_read_other f r)].
    destruct (dec c (getf f fs) raw) as [v| | |] eqn:Hd; simpl in H;
      try (exfalso; eapply fold_rstep_err; [|exact H]; intros; discriminate).
    exists v. split; [reflexivity|]. rewrite (fold_read_other f r _ _ Hc H). apply getf_setf_same.
  - assert (Hstep : exists fs1, rstep_gen dec mm (Ok fs) e = Ok fs1 /\ getf f fs1 = getf f fs).
    { destruct e as [f' key cn pos| |]; simpl; try (now exists fs).
      simpl in Hr. apply fid_beq_false in Hr.
      destruct (aget key mm) as [raw|]; [|now exists fs].
      destruct (rcodec_of cn) as [c|]; [|now exists fs].
      destruct (dec c (getf f' fs) raw) as [v| | |] eqn:Hd; simpl in *;
        try (exfalso; eapply fold_rstep_err; [|exact H]; intros; discriminate).
      exists (setf f' v fs). split; [reflexivity|now apply getf_setf_other]. }
    destruct Hstep as (fs1 & Hs1 & Hg1). simpl in Hs1. rewrite Hs1 in H.
    destruct (IH fs1 out Hc H) as (key & cn & pos & Hin & Hm).
    exists key, cn, pos. split; [now right|]. now rewrite Hg1 in Hm.
Qed.

(* unmap succeeds when every decoder it runs succeeds *)
Lemma fold_read_ok R : forall fs,
  (forall f key cn pos raw c cur, In (GR f key cn pos) R -> aget key mm = Some raw -> rcodec_of cn = Some c ->
                                  exists v, dec c cur raw = Ok v) ->
  exists out, fold_left (rstep_gen dec mm) R (Ok fs) = Ok out.
Proof.
  induction R as [|e r IH]; simpl; intros fs Hall; [eauto|].
  assert (Hr : forall f key cn pos raw c cur, In (GR f key cn pos) r -> aget key mm = Some raw -> rcodec_of cn = Some c ->
                 exists v, dec c cur raw = Ok v) by (intros; eapply Hall; eauto).
  destruct e as [f key cn pos| |]; simpl; try (now apply IH).
  destruct (aget key mm) as [raw|] eqn:Ha; [|now apply IH].
  destruct (rcodec_of cn) as [c|] eqn:Hc; [|now apply IH].
  destruct (Hall f key cn pos raw c (getf f fs) (or_introl eq_refl) Ha Hc) as [v Hv]. rewrite Hv. simpl. now apply IH.
Qed.

End Read.

(* success of a fold of read statements does not depend on the value it starts from, when the success of
   each decoder does not depend on the value it overwrites *)
Section ReadIndep.
Variable dec : rcodec -> option fval -> wire -> outcome fval.
Variable mm : wmap.
Hypothesis Hdec : forall c cur cur' w v, dec c cur w = Ok v -> exists v', dec c cur' w = Ok v'.

Lemma fold_rstep_indep R : forall fs1 fs2 out,
  fold_left (rstep_gen dec mm) R (Ok fs1) = Ok out -> exists out', fold_left (rstep_gen dec mm) R (Ok fs2) = Ok out'.
Proof.
  induction R as [|e r IH]; simpl; intros fs1 fs2 out H; [eauto|].
  destruct e as [f key cn pos| |]; simpl in *; try (eapply IH; exact H).
  destruct (aget key mm) as [raw|]; [|eapply IH; exact H].
  destruct (rcodec_of cn) as [c|]; [|eapply IH; exact H].
  destruct (dec c (getf f fs1) raw) as [v| | |] eqn:Hd; simpl in H;
    try (exfalso; eapply fold_rstep_err; [|exact H]; intros; discriminate).
  destruct (Hdec _ _ (getf f fs2) _ _ Hd) as [v' Hv']. rewrite Hv'. simpl. eapply IH; exact H.
Qed.
End ReadIndep.

(* ------------------------------------------------------------------ codec pairs *)
Lemma wbg_wraw s : wire_bytes_or_garbage (wraw s) = s.
Proof. destruct s; reflexivity. Qed.
Lemma wire_bytes_wraw s : wire_bytes (wraw s) = Some s.
Proof. destruct s; reflexivity. Qed.

Definition cur_ok (cur : option fval) : Prop := cur = None \/ cur = Some (FNlv (Some [])).
Definition items_of (v : fval) : list item :=
  match v with FItem i => [i] | FItems (Some l) => l | FEndpoints (Some e) => map snd e | _ => [] end.

(* one level down: the codecs that do not open a nested property map, in closed form (wenc0c / rdec0c; the
   interpreted wenc0 / rdec0 of the model are equal to them under codecs_ok: Proofs/GobCodecP.v) *)
Section Codec0.
Variable E : gob_env.
Hypothesis He : enc_item_ok E = true.       (* gobEncodeItem has its generated statement groups (a nil item writes no bytes) *)
Variable rec : wire -> outcome item.
Notation N := (norm_item (ge_layout E) (ge_layout_endpoints E)).
Notation NV := (norm_fval (ge_layout E) (ge_layout_endpoints E)).
Definition rec_ok (i : item) : Prop := exists i', rec (genc E i) = Ok i' /\ N i' = N i.
Lemma norm_items_val l :
  NV (FItems (Some l)) = match l with [] => None | _ => Some (FItems (Some (map N l))) end.
Proof. destruct l; reflexivity. Qed.
Lemma omapM_rec l : Forall rec_ok l -> exists l', omapM rec (map (genc E) l) = Ok l' /\ map N l' = map N l.
Proof.
  induction 1 as [|x r [x' [Hx Hn]] _ [r' [Hr Hm]]]; simpl; [now exists []|].
  exists (x' :: r'). rewrite Hx. simpl. rewrite Hr. simpl. split; [reflexivity|now rewrite Hn, Hm].
Qed.

Lemma wenc0_item i : wenc0c CwItem (Some (pre_fval E (FItem i))) = genc E i.
Proof. destruct i; try reflexivity. symmetry. now apply genc_nil. Qed.
Lemma wenc0_item_or_link i : wenc0c CwItemOrLink (Some (pre_fval E (FItem i))) = genc E i.
Proof. destruct i; try reflexivity. symmetry. now apply genc_nil. Qed.
Lemma wenc0_items_as_item c l : c = CwItem \/ c = CwItemOrLink \/ c = CwItems ->
  wenc0c c (Some (pre_fval E (FItems (Some l)))) = WList (map (genc E) l).
Proof. intros [-> | [-> | ->]]; reflexivity. Qed.
Lemma dec_items_list l : dec_items rec (WList l) = omapM rec l.
Proof. reflexivity. Qed.
Lemma rdec0_items cur w : rdec0c rec CrItems cur w = obind (dec_items rec w) (fun l => Ok (FItems (Some l))).
Proof. reflexivity. Qed.

Lemma codec_pair_sound0 t cw cr (ov : option fval) cur :
  pair_ok0 t cw cr = true ->
  (forall v, ov = Some v -> shape_ok t v = true) ->
  (forall v i, ov = Some v -> In i (items_of v) -> rec_ok i) ->
  rec_ok INil ->
  (cw <> CwIri -> cw <> CwType -> cw <> CwRawBytes -> cur_ok cur) ->
  (t = TItems -> is_item_codec cw = true -> exists l, ov = Some (FItems (Some l))) ->
  (is_item_codec cw = true -> forall s, ov = Some (FStr s) -> s = [] \/ iri_nilish s = false) ->
  exists v', rdec0c rec cr cur (wenc0c cw (option_map (pre_fval E) ov)) = Ok v' /\
             NV v' = match ov with Some v => NV v | None => None end.
Proof.
  intros Hp Hshape Hrec Hnil Hcur Hitems Hstr.
  destruct t; destruct cw; try discriminate; destruct cr; try discriminate;
    (destruct ov as [v|]; [specialize (Hshape v eq_refl); destruct v; try discriminate|]);
    try (specialize (Hcur ltac:(discriminate) ltac:(discriminate) ltac:(discriminate))).
  (* an IRI-typed string written by gobEncodeItem *)
  all: try (match goal with |- context [wenc0c ?c (option_map _ (Some (FStr ?s)))] =>
              match c with CwItem => idtac | CwItemOrLink => idtac end;
              destruct (Hstr eq_refl s eq_refl) as [-> | Hns];
              [cbn; eexists; split; reflexivity
              |cbn [option_map pre_fval wenc0c rdec0c]; rewrite Hns, wbg_wraw; eexists; split; reflexivity] end).
  all: try (match goal with |- context [wenc0c ?c (option_map _ None)] =>
              match c with CwItem => idtac | CwItemOrLink => idtac end;
              match goal with |- context [rdec0c _ ?r] => match r with CrIri => idtac | CrType => idtac | CrString => idtac end end;
              cbn; eexists; split; reflexivity end).
  (* strings written raw *)
  all: try (match goal with |- context [rdec0c _ ?c] =>
              match c with CrIri => idtac | CrType => idtac | CrString => idtac end end;
            cbn; try rewrite wbg_wraw; eexists; split; reflexivity).
  (* strings written as gob byte strings *)
  all: try (match goal with |- context [rdec0c _ ?c] => match c with CrMime => idtac | CrLangRef => idtac end end;
            destruct Hcur as [-> | ->]; try (destruct s); cbn; eexists; split; reflexivity).
  (* language values *)
  all: try (match goal with |- context [rdec0c _ ?c] => match c with CrNlvMethod => idtac | CrNlvFn => idtac end end;
            destruct Hcur as [-> | ->]; try (destruct l as [[|x r]|]); cbn; eexists; split; reflexivity).
  (* numbers, booleans, instants *)
  all: try (match goal with |- context [rdec0c _ ?c] =>
              match c with CrTime => idtac | CrDuration => idtac | CrInt64 => idtac | CrUint => idtac | CrFloat => idtac | CrBool => idtac end end;
            cbn; eexists; split; reflexivity).
  (* item, item list *)
  - destruct (Hrec _ i eq_refl (or_introl eq_refl)) as [i' [Hi Hn]]. exists (FItem i'). split.
    + cbn [option_map]. rewrite ?wenc0_item, ?wenc0_item_or_link. unfold rdec0c. now rewrite Hi.
    + change (NV (FItem i')) with (match N i' with INil => None | x => Some (FItem x) end). now rewrite Hn.
  - destruct Hnil as [i' [Hi Hn]]. rewrite (genc_nil E He INil eq_refl) in Hi. exists (FItem i'). split; [cbn; now rewrite Hi|].
    change (NV (FItem i')) with (match N i' with INil => None | x => Some (FItem x) end). now rewrite Hn.
  - destruct (Hrec _ i eq_refl (or_introl eq_refl)) as [i' [Hi Hn]]. exists (FItem i'). split.
    + cbn [option_map]. rewrite ?wenc0_item, ?wenc0_item_or_link. unfold rdec0c. now rewrite Hi.
    + change (NV (FItem i')) with (match N i' with INil => None | x => Some (FItem x) end). now rewrite Hn.
  - destruct Hnil as [i' [Hi Hn]]. rewrite (genc_nil E He INil eq_refl) in Hi. exists (FItem i'). split; [cbn; now rewrite Hi|].
    change (NV (FItem i')) with (match N i' with INil => None | x => Some (FItem x) end). now rewrite Hn.
  - destruct (Hitems eq_refl eq_refl) as [l0 Hl0]. injection Hl0 as ->.
    destruct (omapM_rec l0) as [l' [Hl Hm]].
    { apply Forall_forall. intros x Hx. eapply Hrec; [reflexivity|exact Hx]. }
    exists (FItems (Some l')). split; [cbn [option_map]; rewrite wenc0_items_as_item by tauto; rewrite rdec0_items, dec_items_list, Hl; reflexivity|].
    rewrite !norm_items_val. destruct l0, l'; try discriminate Hm; [reflexivity|now rewrite Hm].
  - destruct (Hitems eq_refl eq_refl) as [l0 Hl0]; discriminate.
  - destruct l as [l0|].
    + destruct (omapM_rec l0) as [l' [Hl Hm]].
      { apply Forall_forall. intros x Hx. eapply Hrec; [reflexivity|exact Hx]. }
      exists (FItems (Some l')). split; [cbn [option_map]; rewrite wenc0_items_as_item by tauto; rewrite rdec0_items, dec_items_list, Hl; reflexivity|].
      rewrite !norm_items_val. destruct l0, l'; try discriminate Hm; [reflexivity|now rewrite Hm].
    + exists (FItems (Some [])). split; reflexivity.
  - exists (FItems (Some [])). split; reflexivity.
  - destruct (Hitems eq_refl eq_refl) as [l0 Hl0]. injection Hl0 as ->.
    destruct (omapM_rec l0) as [l' [Hl Hm]].
    { apply Forall_forall. intros x Hx. eapply Hrec; [reflexivity|exact Hx]. }
    exists (FItems (Some l')). split; [cbn [option_map]; rewrite wenc0_items_as_item by tauto; rewrite rdec0_items, dec_items_list, Hl; reflexivity|].
    rewrite !norm_items_val. destruct l0, l'; try discriminate Hm; [reflexivity|now rewrite Hm].
  - destruct (Hitems eq_refl eq_refl) as [l0 Hl0]; discriminate.
Qed.

(* whether a decoder of an accepted pair succeeds does not depend on the value it overwrites *)
Lemma rdec0c_indep c cur cur' w v :
  rdec0c rec c cur w = Ok v -> exists v', rdec0c rec c cur' w = Ok v'.
Proof.
  intros H. destruct c; cbn in *; eauto; try discriminate.
  all: try (destruct w; cbn in *; try discriminate; eauto; fail).
  all: try (unfold rdec_mime in *; destruct w; cbn in *; eauto; try discriminate;
            match goal with |- context [gd_bytes ?x] => destruct (gd_bytes x); cbn in *; try discriminate; eauto end; fail).
  all: try (unfold rdec_nlv_method in *; destruct w; cbn in *; eauto; try discriminate;
            match goal with |- context [gd_kvs ?x] => destruct (gd_kvs x); cbn in *; try discriminate; eauto end; fail).
Qed.
End Codec0.

(* ------------------------------------------------------------------ set values and guards *)
Section Fields.
Variable E : gob_env.
Notation N := (norm_item (ge_layout E) (ge_layout_endpoints E)).
Notation NV := (norm_fval (ge_layout E) (ge_layout_endpoints E)).
Notation ON := (onorm (ge_layout E) (ge_layout_endpoints E)).

Lemma fget_pre f fs : fget f (pre_fields E fs) = option_map (pre_fval E) (getf f fs).
Proof.
  induction fs as [|[g v] r IH]; [reflexivity|].
  change (pre_fields E ((g, v) :: r)) with ((g, pre_fval E v) :: pre_fields E r).
  simpl. destruct (fid_beq f g); [reflexivity|exact IH].
Qed.

Lemma zero_norm_none v : fval_is_zero v = true -> NV v = None.
Proof.
  destruct v as [i|l|l|s|t|d|n|z|b|m|mt c|e|id owner pem]; simpl; intros H.
  - destruct i; try discriminate; reflexivity.
  - destruct l; try discriminate; reflexivity.
  - destruct l; try discriminate; reflexivity.
  - destruct s; try discriminate; reflexivity.
  - change (NV (FTime t)) with (if vtime_is_zero t then None else Some (FTime t)). now rewrite H.
  - change (NV (FDur d)) with (if (d =? 0)%Z then None else Some (FDur d)). now rewrite H.
  - change (NV (FUint n)) with (if (n =? 0)%N then None else Some (FUint n)). now rewrite H.
  - change (NV (FInt z)) with (if (z =? 0)%Z then None else Some (FInt z)). now rewrite H.
  - destruct b; try discriminate; reflexivity.
  - change (NV (FFloat m)) with (if (m =? 0)%Z then None else Some (FFloat m)). now rewrite H.
  - destruct mt; try discriminate. destruct c; try discriminate. reflexivity.
  - destruct e; try discriminate. reflexivity.
  - destruct id; try discriminate. destruct owner; try discriminate. destruct pem; try discriminate. reflexivity.
Qed.

Lemma in_list_true l s : in_list l s = true -> In s l.
Proof.
  unfold in_list. rewrite existsb_exists. intros [x [Hin Hx]]. apply bytes_eqb_eq in Hx. now subst.
Qed.

Lemma sum_pos {A} (f : A -> nat) l x : In x l -> 0 < f x -> 0 < fold_right (fun s acc => f s + acc) 0 l.
Proof. induction l as [|a r IH]; simpl; [tauto|]. intros [->|Hin] Hp; [lia|]. specialize (IH Hin Hp). lia. Qed.

(* a value with a non-empty normal form passes every admissible guard *)
Lemma set_guard t v g has :
  shape_ok t v = true -> NV v <> None -> guard_ok g t = true ->
  guard_eval g has (Some (pre_fval E v)) = true.
Proof.
  intros Hs Hn Hg.
  destruct t; destruct v as [i|l|l|s|tm|d|n|z|b|micro|mt c|e|id owner pem]; try discriminate; destruct g; try discriminate; simpl in *; try reflexivity.
  all: try (destruct i; reflexivity).
  all: try (destruct l as [[|x r]|]; simpl in *; try reflexivity; try (exfalso; apply Hn; reflexivity)).
  all: try (destruct s; simpl in *; [exfalso; apply Hn; reflexivity|reflexivity]).
  all: try (destruct (vtime_is_zero tm); [exfalso; apply Hn; reflexivity|reflexivity]).
  all: try (destruct (d =? 0)%Z eqn:Hz; [exfalso; apply Hn; reflexivity|reflexivity]).
  all: try (destruct (n =? 0)%N eqn:Hz; [exfalso; apply Hn; reflexivity|]; try reflexivity; apply N.ltb_lt; apply N.eqb_neq in Hz; lia).
  all: try (destruct (z =? 0)%Z eqn:Hz; [exfalso; apply Hn; reflexivity|reflexivity]).
  all: try (destruct b; [reflexivity|exfalso; apply Hn; reflexivity]).
  all: try (destruct (micro =? 0)%Z eqn:Hz; [exfalso; apply Hn; reflexivity|reflexivity]).
  all: try (destruct e; reflexivity).
  - destruct i; try reflexivity. exfalso; apply Hn; reflexivity.
  - change (NV (FTime tm)) with (if vtime_is_zero tm then None else Some (FTime tm)) in Hn.
    destruct (vtime_is_zero tm); [exfalso; now apply Hn|reflexivity].
  - change (NV (FDur d)) with (if (d =? 0)%Z then None else Some (FDur d)) in Hn.
    destruct (d =? 0)%Z; [exfalso; now apply Hn|reflexivity].
  - change (NV (FUint n)) with (if (n =? 0)%N then None else Some (FUint n)) in Hn.
    destruct (n =? 0)%N eqn:Hz; [exfalso; now apply Hn|]. apply N.ltb_lt. apply N.eqb_neq in Hz. lia.
  - change (NV (FUint n)) with (if (n =? 0)%N then None else Some (FUint n)) in Hn.
    destruct (n =? 0)%N; [exfalso; now apply Hn|reflexivity].
  - change (NV (FInt z)) with (if (z =? 0)%Z then None else Some (FInt z)) in Hn.
    destruct (z =? 0)%Z; [exfalso; now apply Hn|reflexivity].
  - change (NV (FFloat micro)) with (if (micro =? 0)%Z then None else Some (FFloat micro)) in Hn.
    destruct (micro =? 0)%Z; [exfalso; now apply Hn|reflexivity].
  - apply andb_true_iff in Hg. destruct Hg as [H1 H2]. apply in_list_true in H1, H2. apply Nat.ltb_lt.
    destruct mt as [|m0 mt].
    + destruct c as [[|x r]|]; try (exfalso; apply Hn; reflexivity).
      apply (sum_pos _ subs (B "Content")); [exact H2|]. vm_compute. lia.
    + apply (sum_pos _ subs (B "MediaType")); [exact H1|]. rewrite bytes_eqb_refl. simpl. lia.
  - destruct e; [reflexivity|exfalso; apply Hn; reflexivity].
  - apply andb_true_iff in Hg. destruct Hg as [Hg H3]. apply andb_true_iff in Hg. destruct Hg as [H1 H2].
    apply in_list_true in H1, H2, H3. apply Nat.ltb_lt.
    destruct id as [|i0 id].
    + destruct owner as [|o0 owner].
      * destruct pem as [|p0 pem]; [exfalso; apply Hn; reflexivity|].
        apply (sum_pos _ subs (B "PublicKeyPem")); [exact H3|]. vm_compute. lia.
      * apply (sum_pos _ subs (B "Owner")); [exact H2|]. vm_compute. lia.
    + apply (sum_pos _ subs (B "ID")); [exact H1|]. rewrite bytes_eqb_refl. simpl. lia.
Qed.
End Fields.


(* ------------------------------------------------------------------ from the table condition to fields *)
(* Generic in the level: [enc] / [dec] are the encoder and decoder calls of the level, [pok] the pairs
   the table condition of the level accepts, [Hpair] their soundness.  Instantiated one level down for
   the leaf structs (wenc0 / rdec0 / pair_ok0) and then for the 14 struct kinds (wenc / rdec / pair_ok). *)
Section Struct.
Variable E : gob_env.
Variable rec : wire -> outcome item.
Variable enc : wcodec -> option pfval -> wire.
Variable dec : rcodec -> option fval -> wire -> outcome fval.
Variable fits : wcodec -> gotype -> bool.
Variable pok : gotype -> wcodec -> rcodec -> bool.
Notation NV := (norm_fval (ge_layout E) (ge_layout_endpoints E)).
Notation ON := (onorm (ge_layout E) (ge_layout_endpoints E)).

Hypothesis Hpair : forall t cw cr ov cur,
  pok t cw cr = true ->
  (forall v, ov = Some v -> shape_ok t v = true) ->
  (forall v i, ov = Some v -> In i (items_of v) -> rec_ok E rec i) ->
  rec_ok E rec INil ->
  (cw <> CwIri -> cw <> CwType -> cw <> CwRawBytes -> cur_ok cur) ->
  (t = TItems -> is_item_codec cw = true -> exists l, ov = Some (FItems (Some l))) ->
  (is_item_codec cw = true -> forall s, ov = Some (FStr s) -> s = [] \/ iri_nilish s = false) ->
  exists v', dec cr cur (enc cw (option_map (pre_fval E) ov)) = Ok v' /\
             NV v' = match ov with Some v => NV v | None => None end.
Hypothesis Hindep : forall t cw cr, pok t cw cr = true ->
  forall cur cur' w v, dec cr cur w = Ok v -> exists v', dec cr cur' w = Ok v'.

Variable L : list fdecl.
Variable W : list gwentry.
Variable R : list grentry.
Hypothesis Hok : struct_ok fits pok L W R = true.

Lemma struct_parts :
  nodup_fids (map fd_fid L) = true /\ forallb (w_recognised_in L) W = true /\ forallb (r_recognised_in L) R = true /\
  w_keys_ok W = true /\ r_keys_ok W R = true /\ forall d, In d L -> field_ok_gen fits pok W R d = true.
Proof.
  pose proof Hok as H0. unfold struct_ok in H0. repeat (apply andb_true_iff in H0; destruct H0 as [H0 ?]).
  repeat split; auto. intros d Hd. match goal with H : forallb (field_ok_gen _ _ _ _) L = true |- _ => rewrite forallb_forall in H; now apply H end.
Qed.

Lemma field_parts d : In d L ->
  forallb (wentry_ok_gen fits (fd_fid d) (fd_type d)) W = true /\ fires (fd_fid d) (fd_type d) false W = true /\
  flags (fd_fid d) (fd_type d) W = true /\ length (filter (r_is (fd_fid d)) R) = 1 /\
  cross_ok_gen pok (fd_fid d) (fd_type d) W R = true.
Proof.
  intros Hd. destruct struct_parts as (_ & _ & _ & _ & _ & Hf). specialize (Hf d Hd).
  unfold field_ok_gen, field_check_gen in Hf.
  repeat match type of Hf with
         | context [if ?c then FieldBad _ else _] => destruct c eqn:?; simpl in Hf; try discriminate
         end.
  repeat match goal with H : negb _ = false |- _ => apply negb_false_iff in H end.
  repeat split; auto.
  match goal with H : Nat.eqb (count_reads _ R) 1 = true |- _ => apply Nat.eqb_eq in H; exact H end.
Qed.

Lemma in_fields_In f : in_fields L f = true -> exists d, In d L /\ fd_fid d = f.
Proof.
  unfold in_fields. rewrite existsb_exists. intros [d [Hd Hf]]. apply fid_beq_eq in Hf. eauto.
Qed.

Variable fs : list (fid * fval).

(* what is asked of the value of one property: it has the shape of the Go type of the field, the items
   nested in it make the round trip, and - where a string is passed to gobEncodeItem - it is not the nil IRI *)
Definition fhyps (d : fdecl) : Prop :=
  (forall v, getf (fd_fid d) fs = Some v -> shape_ok (fd_type d) v = true) /\
  (forall v i, getf (fd_fid d) fs = Some v -> In i (items_of v) -> rec_ok E rec i) /\
  (forall key cn gf g fl pos cw s,
     In (GW (fd_fid d) key cn gf g fl pos) W -> wcodec_of cn = Some cw -> is_item_codec cw = true ->
     getf (fd_fid d) fs = Some (FStr s) -> s = [] \/ iri_nilish s = false).

(* a property whose normal form is not empty is written under its key, with a codec fitting its type,
   and the struct is not written as "no data" *)
Lemma set_field_written_gen d v :
  In d L -> getf (fd_fid d) fs = Some v -> shape_ok (fd_type d) v = true -> NV v <> None ->
  snd (gmap_gen enc W (pre_fields E fs)) = true /\
  exists key cn c gf g flag pos,
    In (GW (fd_fid d) key cn gf g flag pos) W /\ wcodec_of cn = Some c /\ fits c (fd_type d) = true /\
    aget key (fst (gmap_gen enc W (pre_fields E fs))) = Some (enc c (Some (pre_fval E v))).
Proof.
  intros Hd Hget Hsh Hn.
  destruct struct_parts as (_ & _ & _ & Hwk & _ & _).
  destruct (field_parts d Hd) as (Hwok & Hfr & Hfl & _ & _).
  assert (Hset : forall g has, guard_ok g (fd_type d) = true -> guard_eval g has (fget (fd_fid d) (pre_fields E fs)) = true).
  { intros g has Hg. rewrite fget_pre, Hget. simpl. apply (set_guard E (fd_type d)); auto. }
  split.
  - unfold gmap_gen. apply (fold_flags enc fits (pre_fields E fs) (fd_fid d) (fd_type d) Hset W ([], false)); assumption.
  - unfold gmap_gen.
    destruct (fold_fires enc fits (pre_fields E fs) (fd_fid d) (fd_type d) Hset W ([], false) false Hwok Hfr
                (fun H => False_ind _ (diff_false_true H))) as (key & cn & gf & g & flag & pos & w & Hin & Hw).
    destruct (fold_binding enc (pre_fields E fs) W ([], false) key w Hw) as [Hb|Hb]; [discriminate|].
    destruct Hb as (f' & cn' & c' & gf' & g' & flag' & pos' & Hin' & Hc' & Hweq & _).
    assert (f' = fd_fid d) as ->.
    { unfold w_keys_ok in Hwk. rewrite forallb_forall in Hwk. specialize (Hwk _ Hin'). rewrite forallb_forall in Hwk.
      specialize (Hwk _ Hin). simpl in Hwk. rewrite bytes_eqb_refl in Hwk. now apply fid_beq_eq in Hwk. }
    exists key, cn', c', gf', g', flag', pos'. repeat split; auto.
    + rewrite forallb_forall in Hwok. specialize (Hwok _ Hin'). simpl in Hwok. rewrite fid_beq_refl in Hwok.
      apply andb_true_iff in Hwok. destruct Hwok as [Hwok _]. apply andb_true_iff in Hwok. destruct Hwok as [_ Hwok].
      rewrite Hc' in Hwok. apply andb_true_iff in Hwok. now destruct Hwok.
    + rewrite Hw, Hweq, fget_pre, Hget. reflexivity.
Qed.

(* no statement set hasData: the property is unset *)
Lemma nodata_unset1 d :
  In d L -> (forall v, getf (fd_fid d) fs = Some v -> shape_ok (fd_type d) v = true) ->
  snd (gmap_gen enc W (pre_fields E fs)) = false -> ON fs (fd_fid d) = None.
Proof.
  intros Hd Hsh Hno. unfold onorm. destruct (getf (fd_fid d) fs) as [v|] eqn:Hget; [|reflexivity].
  destruct (NV v) as [nv|] eqn:Hnv; [|reflexivity]. exfalso.
  destruct (set_field_written_gen d v Hd Hget (Hsh v eq_refl)) as [Hs _]; congruence.
Qed.

Lemma items_guard_present g has f :
  (g = GNeNil \/ g = GLenGt0) ->
  (forall v, getf f fs = Some v -> shape_ok TItems v = true) ->
  guard_eval g has (option_map (pre_fval E) (getf f fs)) = true ->
  exists l, getf f fs = Some (FItems (Some l)).
Proof.
  intros Hg Hs He. destruct (getf f fs) as [v|]; [|destruct Hg as [-> | ->]; discriminate].
  specialize (Hs v eq_refl). destruct v as [i|l|l|s|t|d|n|z|b|m|mt c|e|id owner pem]; try discriminate.
  destruct l as [l|]; [now exists l|]. destruct Hg as [-> | ->]; discriminate.
Qed.

Hypothesis Hnil : rec_ok E rec INil.

Notation mm := (fst (gmap_gen enc W (pre_fields E fs))).

(* what a read statement finds under its key was written for the same property by an encoder its decoder
   inverts: the decoder succeeds and gives the property back up to the normal form *)
Lemma read_decodes d key cn pos raw cr cur :
  In d L -> fhyps d ->
  In (GR (fd_fid d) key cn pos) R -> aget key mm = Some raw -> rcodec_of cn = Some cr ->
  (cur_ok cur \/ forall key' cn' gf g fl pos', In (GW (fd_fid d) key' cn' gf g fl pos') W -> raw_codec cn' = true) ->
  exists t cw v', pok t cw cr = true /\ dec cr cur raw = Ok v' /\ NV v' = ON fs (fd_fid d).
Proof.
  intros Hd (Hshape & Hrec & Hstr) Hin Hraw Hcr Hcur.
  destruct struct_parts as (_ & _ & _ & _ & Hrk & _).
  destruct (field_parts d Hd) as (Hwok & _ & _ & _ & Hcross).
  destruct (fold_binding enc (pre_fields E fs) W ([], false) key raw Hraw) as [Hb|Hb]; [discriminate|].
  destruct Hb as (f' & cn' & c' & gf' & g' & flag' & pos' & Hin' & Hc' & Hweq & has' & Hg').
  assert (f' = fd_fid d) as ->.
  { unfold r_keys_ok in Hrk. apply andb_true_iff in Hrk. destruct Hrk as [_ Hrk]. rewrite forallb_forall in Hrk.
    specialize (Hrk _ Hin). rewrite forallb_forall in Hrk. specialize (Hrk _ Hin'). simpl in Hrk.
    rewrite bytes_eqb_refl in Hrk. apply fid_beq_eq in Hrk. congruence. }
  unfold cross_ok_gen in Hcross. rewrite forallb_forall in Hcross. pose proof (Hcross _ Hin) as Hc. simpl in Hc.
  rewrite fid_beq_refl, Hcr in Hc. rewrite forallb_forall in Hc.
  pose proof (Hc _ Hin') as Hp. simpl in Hp. rewrite fid_beq_refl, Hc' in Hp.
  apply andb_true_iff in Hp. destruct Hp as [_ Hp].
  rewrite forallb_forall in Hwok. pose proof (Hwok _ Hin') as Hwe. simpl in Hwe. rewrite fid_beq_refl, Hc' in Hwe.
  apply andb_true_iff in Hwe. destruct Hwe as [Hwe _]. apply andb_true_iff in Hwe. destruct Hwe as [Hgf Hwe].
  apply fid_beq_eq in Hgf. subst gf'. apply andb_true_iff in Hwe. destruct Hwe as [_ Hcg].
  destruct (Hpair (fd_type d) c' cr (getf (fd_fid d) fs) cur Hp) as (v' & Hv' & Hn').
  - exact Hshape.
  - exact Hrec.
  - exact Hnil.
  - intros H1 H2 H3. destruct Hcur as [Hcur|Hcur]; [exact Hcur|]. exfalso.
    specialize (Hcur _ _ _ _ _ _ Hin'). unfold raw_codec in Hcur. rewrite Hc' in Hcur. destruct c'; congruence.
  - intros Ht Hci. rewrite fget_pre in Hg'. rewrite Ht in *.
    eapply items_guard_present; [| |exact Hg'].
    * unfold codec_guard_ok in Hcg. destruct c'; try discriminate Hci; destruct g'; try discriminate; auto.
    * exact Hshape.
  - intros Hic s Hs. eapply Hstr; eauto.
  - exists (fd_type d), c', v'. split; [exact Hp|].
    split; [rewrite Hweq, fget_pre; exact Hv'|unfold onorm; exact Hn'].
Qed.

Lemma cur_ok_norm cur : cur_ok cur -> match cur with Some v => NV v | None => None end = None.
Proof. intros [-> | ->]; reflexivity. Qed.

Variable init : list (fid * fval).

(* the value a field has before it is read does not disturb its decoder: it is unset, or an empty language
   list, or it is the very string that is written raw *)
Definition ihyps (d : fdecl) : Prop :=
  cur_ok (getf (fd_fid d) init) \/
  (getf (fd_fid d) init = getf (fd_fid d) fs /\
   forall key cn gf g fl pos, In (GW (fd_fid d) key cn gf g fl pos) W -> raw_codec cn = true).

(* T.GobEncode then T.GobDecode: a property comes back with the same normal form *)
Lemma field_rt_gen d out :
  In d L -> fhyps d -> ihyps d -> gunmap_gen dec R mm init = Ok out -> ON out (fd_fid d) = ON fs (fd_fid d).
Proof.
  intros Hd Hfh Hih Hun.
  destruct (field_parts d Hd) as (_ & _ & _ & Hcount & Hcross).
  set (f := fd_fid d) in *.
  unfold gunmap_gen in Hun.
  destruct (fold_read_one dec _ f R init out Hcount Hun) as (key & cn & pos & Hin & Hm).
  unfold cross_ok_gen in Hcross. rewrite forallb_forall in Hcross. pose proof (Hcross _ Hin) as Hc. simpl in Hc.
  unfold f in Hc at 1. rewrite fid_beq_refl in Hc.
  destruct (rcodec_of cn) as [cr|] eqn:Hcr; [|discriminate]. rewrite forallb_forall in Hc.
  destruct (aget key mm) as [raw|] eqn:Hraw.
  - destruct Hm as (v & Hv & Hout).
    destruct (read_decodes d key cn pos raw cr (getf f init) Hd Hfh Hin Hraw Hcr) as (_ & _ & v' & _ & Hv' & Hn').
    { destruct Hih as [Hc1|[_ Hc2]]; [now left|now right]. }
    rewrite Hv in Hv'. injection Hv' as <-.
    unfold onorm at 1. rewrite Hout.
    destruct (fval_is_zero v) eqn:Hz; [rewrite (zero_norm_none E v Hz) in Hn'; exact Hn'|exact Hn'].
  - unfold onorm at 1. rewrite Hm.
    destruct Hih as [Hc1|[Hc2 _]].
    + fold f in Hc1. rewrite (cur_ok_norm _ Hc1). unfold onorm.
      destruct (getf f fs) as [v|] eqn:Hget; [|reflexivity].
      destruct (NV v) as [nv|] eqn:Hnv; [|reflexivity]. exfalso.
      destruct Hfh as (Hsh & _ & _).
      destruct (set_field_written_gen d v Hd Hget (Hsh v Hget)) as (_ & key' & cn' & c' & gf' & g' & fl' & pos' & Hin' & _ & _ & Hk'); [congruence|].
      pose proof (Hc _ Hin') as Hp. simpl in Hp. unfold f in Hp at 1. rewrite fid_beq_refl in Hp.
      apply andb_true_iff in Hp. destruct Hp as [Hkey _]. apply bytes_eqb_eq in Hkey. subst key'. congruence.
    + fold f in Hc2. rewrite Hc2. reflexivity.
Qed.

(* the read statements all succeed on what the write statements wrote *)
Lemma unmap_ok : (forall d, In d L -> fhyps d) -> exists out, gunmap_gen dec R mm init = Ok out.
Proof.
  intros Hall. unfold gunmap_gen. apply fold_read_ok.
  intros f key cn pos raw c cur Hin Hraw Hc.
  destruct struct_parts as (_ & _ & Hrr & _ & _ & _).
  rewrite forallb_forall in Hrr. pose proof (Hrr _ Hin) as Hrec1. simpl in Hrec1.
  apply andb_true_iff in Hrec1. destruct Hrec1 as [Hinl _].
  destruct (in_fields_In f Hinl) as (d & Hd & Hdf). subst f.
  destruct (read_decodes d key cn pos raw c None Hd (Hall d Hd) Hin Hraw Hc (or_introl (or_introl eq_refl))) as (t & cw & v' & Hp & Hv & _).
  eapply Hindep; eauto.
Qed.

Hypothesis Hshape : forall d v, In d L -> getf (fd_fid d) fs = Some v -> shape_ok (fd_type d) v = true.
Hypothesis Hrec : forall d v i, In d L -> getf (fd_fid d) fs = Some v -> In i (items_of v) -> rec_ok E rec i.
Hypothesis Hstr : forall d key cn gf g fl pos cw s,
  In d L -> In (GW (fd_fid d) key cn gf g fl pos) W -> wcodec_of cn = Some cw -> is_item_codec cw = true ->
  getf (fd_fid d) fs = Some (FStr s) -> s = [] \/ iri_nilish s = false.
Hypothesis Hinit : forall d, In d L -> ihyps d.

Lemma all_fhyps d : In d L -> fhyps d.
Proof.
  intros Hd. repeat split.
  - intros v. now apply Hshape.
  - intros v i. now apply Hrec.
  - intros key cn gf g fl pos cw s. now apply Hstr.
Qed.

Lemma nodata_unset d : In d L -> snd (gmap_gen enc W (pre_fields E fs)) = false -> ON fs (fd_fid d) = None.
Proof. intros Hd. apply nodata_unset1; [exact Hd|]. intros v. now apply Hshape. Qed.

(* the whole struct *)
Lemma struct_rt :
  exists out, gunmap_gen dec R mm init = Ok out /\ forall d, In d L -> ON out (fd_fid d) = ON fs (fd_fid d).
Proof.
  destruct (unmap_ok all_fhyps) as [out Hout]. exists out. split; [exact Hout|].
  intros d Hd. apply field_rt_gen; auto using all_fhyps.
Qed.
End Struct.
