(* C03: lemmas about the table-driven gob codec model (Model/Gob.v) and the proof that the table
   condition (Model/GobCheck.v) implies the round trip. *)
From AP.Model Require Import Prelude Vocab Bytes Layout Pred Dispatch GobTables Gob GobCheck GobNorm.
From AP.Proofs Require Import NlvP ViewsP.

(* ------------------------------------------------------------------ association lists *)
Lemma aget_aset_same {A} k (v : A) m : aget k (aset k v m) = Some v.
Proof.
  induction m as [|[k' v'] r IH]; simpl.
  - now rewrite bytes_eqb_refl.
  - destruct (bytes_eqb k k') eqn:Hk; simpl; [now rewrite bytes_eqb_refl|now rewrite Hk].
Qed.

Lemma aget_aset_other {A} k k' (v : A) m : k <> k' -> aget k (aset k' v m) = aget k m.
Proof.
  intros Hne. induction m as [|[k2 v2] r IH]; simpl.
  - apply bytes_eqb_neq in Hne. now rewrite Hne.
  - destruct (bytes_eqb k' k2) eqn:Hk; simpl.
    + apply bytes_eqb_eq in Hk; subst k2. apply bytes_eqb_neq in Hne. now rewrite Hne.
    + destruct (bytes_eqb k k2); [reflexivity|exact IH].
Qed.

Lemma aget_aset {A} k k' (v : A) m : aget k (aset k' v m) = if bytes_eqb k k' then Some v else aget k m.
Proof.
  destruct (bytes_eqb k k') eqn:Hk.
  - apply bytes_eqb_eq in Hk; subst. apply aget_aset_same.
  - apply bytes_eqb_neq in Hk. now apply aget_aset_other.
Qed.

(* ------------------------------------------------------------------ field lists *)
Lemma fid_beq_false a b : fid_beq a b = false <-> a <> b.
Proof.
  split.
  - intros H Heq. apply fid_beq_eq in Heq. congruence.
  - intros H. destruct (fid_beq a b) eqn:Hb; [apply fid_beq_eq in Hb; contradiction|reflexivity].
Qed.

Lemma getf_delf_same f fs : getf f (delf f fs) = None.
Proof.
  induction fs as [|[g v] r IH]; simpl; [reflexivity|].
  destruct (fid_beq f g) eqn:Hfg; [exact IH|]. simpl. now rewrite Hfg.
Qed.

Lemma getf_delf_other f g fs : f <> g -> getf g (delf f fs) = getf g fs.
Proof.
  intros Hne. induction fs as [|[h v] r IH]; simpl; [reflexivity|].
  destruct (fid_beq f h) eqn:Hfh.
  - apply fid_beq_eq in Hfh; subst h.
    assert (fid_beq g f = false) as -> by (apply fid_beq_false; congruence). exact IH.
  - simpl. destruct (fid_beq g h); [reflexivity|exact IH].
Qed.

Lemma getf_replf_same f v fs : getf f (replf f v fs) = Some v.
Proof.
  induction fs as [|[g w] r IH]; simpl.
  - now rewrite fid_beq_refl.
  - destruct (fid_beq f g) eqn:Hfg; simpl; [now rewrite fid_beq_refl|now rewrite Hfg].
Qed.

Lemma getf_replf_other f g v fs : f <> g -> getf g (replf f v fs) = getf g fs.
Proof.
  intros Hne. assert (fid_beq g f = false) as Hgf by (apply fid_beq_false; congruence).
  induction fs as [|[h w] r IH]; simpl.
  - now rewrite Hgf.
  - destruct (fid_beq f h) eqn:Hfh; simpl.
    + apply fid_beq_eq in Hfh; subst h. now rewrite Hgf.
    + destruct (fid_beq g h); [reflexivity|exact IH].
Qed.

Lemma getf_setf_same f v fs : getf f (setf f v fs) = if fval_is_zero v then None else Some v.
Proof. unfold setf. destruct (fval_is_zero v); [apply getf_delf_same|apply getf_replf_same]. Qed.

Lemma getf_setf_other f g v fs : f <> g -> getf g (setf f v fs) = getf g fs.
Proof. intros H. unfold setf. destruct (fval_is_zero v); [now apply getf_delf_other|now apply getf_replf_other]. Qed.

(* ------------------------------------------------------------------ the write side *)
Section Write.
Variable E : gob_env.
Variable pfs : list (fid * pfval).

Lemma wstep_has_mono st e : snd st = true -> snd (wstep E pfs st e) = true.
Proof.
  destruct st as [mm has]; simpl; intros ->.
  destruct e as [f key cn gf g flag pos|gf g pos| |]; simpl; try reflexivity.
  - destruct (guard_eval g true (fget gf pfs)); [|reflexivity]. destruct (wcodec_of cn); reflexivity.
  - destruct (guard_eval g true (fget gf pfs)); reflexivity.
Qed.

Lemma wstep_key_mono st e key w :
  aget key (fst st) = Some w -> exists w', aget key (fst (wstep E pfs st e)) = Some w'.
Proof.
  destruct st as [mm has]; simpl; intros H.
  destruct e as [f k cn gf g flag pos|gf g pos| |]; simpl; eauto.
  - destruct (guard_eval g has (fget gf pfs)); simpl; eauto.
    destruct (wcodec_of cn); simpl; eauto.
    rewrite aget_aset. destruct (bytes_eqb key k); eauto.
  - destruct (guard_eval g has (fget gf pfs)); simpl; eauto.
Qed.

Lemma fold_has_mono W : forall st, snd st = true -> snd (fold_left (wstep E pfs) W st) = true.
Proof. induction W as [|e r IH]; simpl; intros st H; [exact H|]. apply IH. now apply wstep_has_mono. Qed.

Lemma fold_key_mono W : forall st key w,
  aget key (fst st) = Some w -> exists w', aget key (fst (fold_left (wstep E pfs) W st)) = Some w'.
Proof.
  induction W as [|e r IH]; simpl; intros st key w H; [eauto|].
  destruct (wstep_key_mono st e key w H) as [w' H']. eapply IH; eauto.
Qed.

(* every binding of the final map was put there by a write statement *)
Lemma fold_binding W : forall st key w,
  aget key (fst (fold_left (wstep E pfs) W st)) = Some w ->
  aget key (fst st) = Some w \/
  exists f cn c gf g flag pos, In (GW f key cn gf g flag pos) W /\ wcodec_of cn = Some c /\ w = wenc E c (fget f pfs)
                               /\ exists has', guard_eval g has' (fget gf pfs) = true.
Proof.
  induction W as [|e r IH]; simpl; intros st key w H; [now left|].
  apply IH in H. destruct H as [H|H].
  - destruct st as [mm has].
    destruct e as [f k cn gf g flag pos|gf g pos| |]; simpl in H; try (now left).
    + destruct (guard_eval g has (fget gf pfs)) eqn:Hg; [|now left].
      destruct (wcodec_of cn) as [c|] eqn:Hc; [|now left]. simpl in H.
      rewrite aget_aset in H. destruct (bytes_eqb key k) eqn:Hk; [|now left].
      apply bytes_eqb_eq in Hk; subst k. inversion H; subst w.
      right. exists f, cn, c, gf, g, flag, pos. repeat split; auto. now exists has.
    + destruct (guard_eval g has (fget gf pfs)); now left.
  - right. destruct H as (f & cn & c & gf & g & flag & pos & Hin & Hc & Hw & Hg).
    exists f, cn, c, gf, g, flag, pos. auto.
Qed.

(* "the field is set": every admissible guard holds *)
Variable f : fid.
Variable t : gotype.
Hypothesis Hset : forall g has, guard_ok g t = true -> guard_eval g has (fget f pfs) = true.

Lemma fold_fires W : forall st flagged,
  forallb (wentry_ok f t) W = true ->
  fires f t flagged W = true ->
  (flagged = true -> snd st = true) ->
  exists key cn gf g flag pos w,
    In (GW f key cn gf g flag pos) W /\ aget key (fst (fold_left (wstep E pfs) W st)) = Some w.
Proof.
  induction W as [|e r IH]; simpl; intros st flagged Hok Hf Hfl; [discriminate|].
  apply andb_true_iff in Hok. destruct Hok as [Hok1 Hok].
  assert (Hmono : snd st = true -> snd (wstep E pfs st e) = true) by (intros; now apply wstep_has_mono).
  destruct e as [f' key cn gf g flag pos|gf g pos|on fn pos|src pos].
  - destruct (fid_beq f' f) eqn:Hff.
    + apply fid_beq_eq in Hff; subst f'. simpl in Hok1. rewrite fid_beq_refl in Hok1.
      apply andb_true_iff in Hok1. destruct Hok1 as [Hok1 Htype].
      apply andb_true_iff in Hok1. destruct Hok1 as [Hgf Hcodec].
      apply fid_beq_eq in Hgf; subst gf. rewrite fid_beq_refl in Hf. simpl in Hf.
      destruct (wcodec_of cn) as [c|] eqn:Hc; [|discriminate].
      assert (Hwritten : guard_eval g (snd st) (fget f pfs) = true ->
                exists key0 cn0 gf0 g0 flag0 pos0 w,
                  (GW f key cn f g flag pos = GW f key0 cn0 gf0 g0 flag0 pos0 \/ In (GW f key0 cn0 gf0 g0 flag0 pos0) r) /\
                  aget key0 (fst (fold_left (wstep E pfs) r (wstep E pfs st (GW f key cn f g flag pos)))) = Some w).
      { intros Hg. destruct st as [mm has]. simpl in Hg. simpl. rewrite Hg, Hc.
        destruct (fold_key_mono r (aset key (wenc E c (fget f pfs)) mm, has || flag) key (wenc E c (fget f pfs))) as [w Hw].
        { simpl. apply aget_aset_same. }
        exists key, cn, f, g, flag, pos, w. split; [now left|exact Hw]. }
      destruct (guard_ok g t) eqn:Hgo.
      * apply Hwritten. now apply Hset.
      * simpl in Hf. destruct (is_hasdata g && flagged) eqn:Hhd.
        -- apply andb_true_iff in Hhd. destruct Hhd as [Hhd Hflg]. destruct g; try discriminate.
           apply Hwritten. simpl. now apply Hfl.
        -- destruct (IH (wstep E pfs st (GW f key cn f g flag pos)) flagged Hok Hf) as (k0 & cn0 & gf0 & g0 & fl0 & p0 & w & Hin & Hw).
           { intros Hx. apply Hmono; auto. }
           exists k0, cn0, gf0, g0, fl0, p0, w. split; [now right|exact Hw].
    + destruct (IH (wstep E pfs st (GW f' key cn gf g flag pos)) flagged Hok Hf) as (k0 & cn0 & gf0 & g0 & fl0 & p0 & w & Hin & Hw).
      { intros Hx. apply Hmono; auto. }
      exists k0, cn0, gf0, g0, fl0, p0, w. split; [now right|exact Hw].
  - destruct (IH (wstep E pfs st (GWFlag gf g pos)) (flagged || (fid_beq gf f && guard_ok g t)) Hok Hf) as (k0 & cn0 & gf0 & g0 & fl0 & p0 & w & Hin & Hw).
    { intros Hx. apply orb_true_iff in Hx. destruct Hx as [Hx|Hx]; [apply Hmono; auto|].
      apply andb_true_iff in Hx. destruct Hx as [Hgf Hgo]. apply fid_beq_eq in Hgf; subst gf.
      destruct st as [mm has]. simpl. rewrite (Hset g has Hgo). reflexivity. }
    exists k0, cn0, gf0, g0, fl0, p0, w. split; [now right|exact Hw].
  - destruct (IH (wstep E pfs st (GWDeleg on fn pos)) flagged Hok Hf) as (k0 & cn0 & gf0 & g0 & fl0 & p0 & w & Hin & Hw).
    { intros Hx. apply Hmono; auto. }
    exists k0, cn0, gf0, g0, fl0, p0, w. split; [now right|exact Hw].
  - destruct (IH (wstep E pfs st (GWUnrecognised src pos)) flagged Hok Hf) as (k0 & cn0 & gf0 & g0 & fl0 & p0 & w & Hin & Hw).
    { intros Hx. apply Hmono; auto. }
    exists k0, cn0, gf0, g0, fl0, p0, w. split; [now right|exact Hw].
Qed.

Lemma fold_flags W : forall st,
  forallb (wentry_ok f t) W = true ->
  flags f t W = true -> snd (fold_left (wstep E pfs) W st) = true.
Proof.
  induction W as [|e r IH]; simpl; intros st Hok Hf; [discriminate|].
  apply andb_true_iff in Hok. destruct Hok as [Hok1 Hok].
  apply orb_true_iff in Hf. destruct Hf as [Hf|Hf]; [|now apply IH].
  apply fold_has_mono. destruct st as [mm has].
  destruct e as [f' key cn gf g flag pos|gf g pos| |]; try discriminate.
  - apply andb_true_iff in Hf. destruct Hf as [Hf Hgo]. apply andb_true_iff in Hf. destruct Hf as [Hf Hflag].
    apply andb_true_iff in Hf. destruct Hf as [Hff Hgf].
    apply fid_beq_eq in Hff; subst f'. apply fid_beq_eq in Hgf; subst gf.
    simpl in Hok1. rewrite fid_beq_refl in Hok1. apply andb_true_iff in Hok1. destruct Hok1 as [Hok1 _]. simpl in Hok1.
    destruct (wcodec_of cn) as [c|] eqn:Hc; [|discriminate].
    simpl. rewrite (Hset g has Hgo), Hc. simpl. rewrite Hflag. apply orb_true_r.
  - apply andb_true_iff in Hf. destruct Hf as [Hgf Hgo]. apply fid_beq_eq in Hgf; subst gf.
    simpl. now rewrite (Hset g has Hgo).
Qed.

End Write.

(* ------------------------------------------------------------------ the read side *)
Section Read.
Variable E : gob_env.
Variable rec : wire -> outcome item.
Variable mm : wmap.

Lemma fold_rstep_err R : forall st, (forall fs, st <> Ok fs) -> forall out, fold_left (rstep E rec mm) R st <> Ok out.
Proof.
  induction R as [|e r IH]; simpl; intros st Hst out; [apply Hst|].
  apply IH. intros fs. destruct st; simpl; try discriminate. exfalso. eapply Hst; reflexivity.
Qed.

Definition r_is (f : fid) (e : grentry) : bool := match e with GR f' _ _ _ => fid_beq f' f | _ => false end.

Lemma fold_read_other f R : forall fs out,
  forallb (fun e => negb (r_is f e)) R = true ->
  fold_left (rstep E rec mm) R (Ok fs) = Ok out -> getf f out = getf f fs.
Proof.
  induction R as [|e r IH]; simpl; intros fs out Hno H; [now inversion H|].
  apply andb_true_iff in Hno. destruct Hno as [Hno1 Hno].
  destruct e as [f' key cn pos| |]; simpl in H; try (now apply IH).
  simpl in Hno1. apply negb_true_iff in Hno1. apply fid_beq_false in Hno1.
  destruct (aget key mm) as [raw|]; [|now apply IH].
  destruct (rcodec_of cn) as [c|]; [|now apply IH].
  destruct (rdec E rec c (getf f' fs) raw) as [v| | |] eqn:Hd; simpl in H;
    try (exfalso; eapply fold_rstep_err; [|exact H]; intros; discriminate).
  rewrite (IH _ _ Hno H). now apply getf_setf_other.
Qed.

Lemma count_zero_no f R : length (filter (r_is f) R) = 0 -> forallb (fun e => negb (r_is f e)) R = true.
Proof.
  induction R as [|e r IH]; simpl; [reflexivity|]. destruct (r_is f e); simpl; [discriminate|exact IH].
Qed.

(* the property [f] after unmap: what its one read statement decoded, or what it was before *)
Lemma fold_read_one f R : forall fs out,
  length (filter (r_is f) R) = 1 ->
  fold_left (rstep E rec mm) R (Ok fs) = Ok out ->
  exists key cn pos, In (GR f key cn pos) R /\
    match aget key mm, rcodec_of cn with
    | Some raw, Some c => exists v, rdec E rec c (getf f fs) raw = Ok v /\ getf f out = if fval_is_zero v then None else Some v
    | _, _ => getf f out = getf f fs
    end.
Proof.
  induction R as [|e r IH]; simpl; intros fs out Hc H; [discriminate|].
  destruct (r_is f e) eqn:Hr.
  - simpl in Hc. injection Hc as Hc. apply count_zero_no in Hc.
    destruct e as [f' key cn pos| |]; try discriminate. simpl in Hr. apply fid_beq_eq in Hr; subst f'.
    exists key, cn, pos. split; [now left|]. simpl in H.
    destruct (aget key mm) as [raw|]; [|now apply (fold_read_other f r)].
    destruct (rcodec_of cn) as [c|]; [|now apply (fold_read_other f r)].
    destruct (rdec E rec c (getf f fs) raw) as [v| | |] eqn:Hd; simpl in H;
      try (exfalso; eapply fold_rstep_err; [|exact H]; intros; discriminate).
    exists v. split; [reflexivity|]. rewrite (fold_read_other f r _ _ Hc H). apply getf_setf_same.
  - assert (Hstep : exists fs1, rstep E rec mm (Ok fs) e = Ok fs1 /\ getf f fs1 = getf f fs).
    { destruct e as [f' key cn pos| |]; simpl; try (now exists fs).
      simpl in Hr. apply fid_beq_false in Hr.
      destruct (aget key mm) as [raw|]; [|now exists fs].
      destruct (rcodec_of cn) as [c|]; [|now exists fs].
      destruct (rdec E rec c (getf f' fs) raw) as [v| | |] eqn:Hd; simpl in *;
        try (exfalso; eapply fold_rstep_err; [|exact H]; intros; discriminate).
      exists (setf f' v fs). split; [reflexivity|now apply getf_setf_other]. }
    destruct Hstep as (fs1 & Hs1 & Hg1). simpl in Hs1. rewrite Hs1 in H.
    destruct (IH fs1 out Hc H) as (key & cn & pos & Hin & Hm).
    exists key, cn, pos. split; [now right|]. now rewrite Hg1 in Hm.
Qed.

(* unmap succeeds when every decoder it runs succeeds *)
Lemma fold_read_ok R : forall fs,
  (forall f key cn pos raw c cur, In (GR f key cn pos) R -> aget key mm = Some raw -> rcodec_of cn = Some c ->
                                  exists v, rdec E rec c cur raw = Ok v) ->
  exists out, fold_left (rstep E rec mm) R (Ok fs) = Ok out.
Proof.
  induction R as [|e r IH]; simpl; intros fs Hall; [eauto|].
  assert (Hr : forall f key cn pos raw c cur, In (GR f key cn pos) r -> aget key mm = Some raw -> rcodec_of cn = Some c ->
                 exists v, rdec E rec c cur raw = Ok v) by (intros; eapply Hall; eauto).
  destruct e as [f key cn pos| |]; simpl; try (now apply IH).
  destruct (aget key mm) as [raw|] eqn:Ha; [|now apply IH].
  destruct (rcodec_of cn) as [c|] eqn:Hc; [|now apply IH].
  destruct (Hall f key cn pos raw c (getf f fs) (or_introl eq_refl) Ha Hc) as [v Hv]. rewrite Hv. simpl. now apply IH.
Qed.

End Read.


(* ------------------------------------------------------------------ codec pairs *)
Lemma wbg_wraw s : wire_bytes_or_garbage (wraw s) = s.
Proof. destruct s; reflexivity. Qed.
Lemma wire_bytes_wraw s : wire_bytes (wraw s) = Some s.
Proof. destruct s; reflexivity. Qed.
Section Codec.
Variable E : gob_env.
Hypothesis Hep : ge_endpoints_codec E = true.
Variable rec : wire -> outcome item.
Notation N := (norm_item (ge_layout E) (ge_layout_endpoints E)).
Notation NV := (norm_fval (ge_layout E) (ge_layout_endpoints E)).
Definition rec_ok (i : item) : Prop := exists i', rec (genc E i) = Ok i' /\ N i' = N i.
Lemma norm_items_val l :
  NV (FItems (Some l)) = match l with [] => None | _ => Some (FItems (Some (map N l))) end.
Proof. destruct l; reflexivity. Qed.
Lemma omapM_rec l : Forall rec_ok l -> exists l', omapM rec (map (genc E) l) = Ok l' /\ map N l' = map N l.
Proof.
  induction 1 as [|x r [x' [Hx Hn]] _ [r' [Hr Hm]]]; simpl; [now exists []|].
  exists (x' :: r'). rewrite Hx. simpl. rewrite Hr. simpl. split; [reflexivity|now rewrite Hn, Hm].
Qed.
Definition cur_ok (cur : option fval) : Prop := cur = None \/ cur = Some (FNlv (Some [])).
Definition items_of (v : fval) : list item :=
  match v with FItem i => [i] | FItems (Some l) => l | FEndpoints (Some e) => map snd e | _ => [] end.

Lemma wenc_item i : wenc E CwItem (Some (pre_fval E (FItem i))) = genc E i.
Proof. destruct i; reflexivity. Qed.
Lemma wenc_item_or_link i : wenc E CwItemOrLink (Some (pre_fval E (FItem i))) = genc E i.
Proof. destruct i; reflexivity. Qed.

Lemma wenc_items_as_item c l : c = CwItem \/ c = CwItemOrLink \/ c = CwItems ->
  wenc E c (Some (pre_fval E (FItems (Some l)))) = WList (map (genc E) l).
Proof. intros [-> | [-> | ->]]; reflexivity. Qed.
Lemma dec_items_list l : dec_items rec (WList l) = omapM rec l.
Proof. reflexivity. Qed.
Lemma rdec_items cur w : rdec E rec CrItems cur w = obind (dec_items rec w) (fun l => Ok (FItems (Some l))).
Proof. reflexivity. Qed.

Lemma pubkey_rt id owner pem cur :
  cur_ok cur -> match owner with [] => true | _ => negb (iri_nilish owner) end = true ->
  rdec_pubkey cur (wenc_pubkey id owner pem) = Ok (FPubKey id owner pem).
Proof.
  intros Hcur Ho. unfold wenc_pubkey. destruct owner as [|ob oo].
  - destruct Hcur as [-> | ->]; destruct id; destruct pem; reflexivity.
  - apply negb_true_iff in Ho. rewrite Ho. destruct Hcur as [-> | ->]; destruct id; destruct pem; reflexivity.
Qed.

Lemma codec_pair_sound t cw cr (ov : option fval) cur :
  pair_ok true t cw cr = true ->
  t <> TEndpoints ->
  (forall v, ov = Some v -> shape_ok t v = true) ->
  (forall v i, ov = Some v -> In i (items_of v) -> rec_ok i) ->
  rec_ok INil ->
  (cw <> CwIri -> cw <> CwType -> cw <> CwRawBytes -> cur_ok cur) ->
  (t = TItems -> cw <> CwItems -> exists l, ov = Some (FItems (Some l))) ->
  exists v', rdec E rec cr cur (wenc E cw (option_map (pre_fval E) ov)) = Ok v' /\
             NV v' = match ov with Some v => NV v | None => None end.
Proof.
  intros Hp Hne Hshape Hrec Hnil Hcur Hitems.
  destruct t; try congruence; destruct cw; try discriminate; destruct cr; try discriminate;
    (destruct ov as [v|]; [specialize (Hshape v eq_refl); destruct v; try discriminate|]);
    try (specialize (Hcur ltac:(discriminate) ltac:(discriminate) ltac:(discriminate))).
  (* strings written raw *)
  all: try (match goal with |- context [rdec _ _ ?c] =>
              match c with CrIri => idtac | CrType => idtac | CrString => idtac end end;
            cbn; try rewrite wbg_wraw; eexists; split; reflexivity).
  (* strings written as gob byte strings *)
  all: try (match goal with |- context [rdec _ _ ?c] => match c with CrMime => idtac | CrLangRef => idtac end end;
            destruct Hcur as [-> | ->]; try (destruct s); cbn; eexists; split; reflexivity).
  (* language values *)
  all: try (match goal with |- context [rdec _ _ ?c] => match c with CrNlvMethod => idtac | CrNlvFn => idtac end end;
            destruct Hcur as [-> | ->]; try (destruct l as [[|x r]|]); cbn; eexists; split; reflexivity).
  (* numbers, booleans, instants *)
  all: try (match goal with |- context [rdec _ _ ?c] =>
              match c with CrTime => idtac | CrDuration => idtac | CrInt64 => idtac | CrUint => idtac | CrFloat => idtac | CrBool => idtac end end;
            cbn; eexists; split; reflexivity).
  (* item, item list *)
  - destruct (Hrec _ i eq_refl (or_introl eq_refl)) as [i' [Hi Hn]]. exists (FItem i'). split.
    + cbn [option_map]. rewrite ?wenc_item, ?wenc_item_or_link. unfold rdec. now rewrite Hi.
    + change (NV (FItem i')) with (match N i' with INil => None | x => Some (FItem x) end). now rewrite Hn.
  - destruct Hnil as [i' [Hi Hn]]. cbn in Hi. exists (FItem i'). split; [cbn; now rewrite Hi|].
    change (NV (FItem i')) with (match N i' with INil => None | x => Some (FItem x) end). now rewrite Hn.
  - destruct (Hrec _ i eq_refl (or_introl eq_refl)) as [i' [Hi Hn]]. exists (FItem i'). split.
    + cbn [option_map]. rewrite ?wenc_item, ?wenc_item_or_link. unfold rdec. now rewrite Hi.
    + change (NV (FItem i')) with (match N i' with INil => None | x => Some (FItem x) end). now rewrite Hn.
  - destruct Hnil as [i' [Hi Hn]]. cbn in Hi. exists (FItem i'). split; [cbn; now rewrite Hi|].
    change (NV (FItem i')) with (match N i' with INil => None | x => Some (FItem x) end). now rewrite Hn.
  - destruct (Hitems eq_refl) as [l0 Hl0]; [discriminate|]. injection Hl0 as ->.
    destruct (omapM_rec l0) as [l' [Hl Hm]].
    { apply Forall_forall. intros x Hx. eapply Hrec; [reflexivity|exact Hx]. }
    exists (FItems (Some l')). split; [cbn [option_map]; rewrite wenc_items_as_item by tauto; rewrite rdec_items, dec_items_list, Hl; reflexivity|].
    rewrite !norm_items_val. destruct l0, l'; try discriminate Hm; [reflexivity|now rewrite Hm].
  - destruct (Hitems eq_refl) as [l0 Hl0]; [discriminate|discriminate].
  - destruct l as [l0|].
    + destruct (omapM_rec l0) as [l' [Hl Hm]].
      { apply Forall_forall. intros x Hx. eapply Hrec; [reflexivity|exact Hx]. }
      exists (FItems (Some l')). split; [cbn [option_map]; rewrite wenc_items_as_item by tauto; rewrite rdec_items, dec_items_list, Hl; reflexivity|].
      rewrite !norm_items_val. destruct l0, l'; try discriminate Hm; [reflexivity|now rewrite Hm].
    + exists (FItems (Some [])). split; reflexivity.
  - exists (FItems (Some [])). split; reflexivity.
  - destruct (Hitems eq_refl) as [l0 Hl0]; [discriminate|]. injection Hl0 as ->.
    destruct (omapM_rec l0) as [l' [Hl Hm]].
    { apply Forall_forall. intros x Hx. eapply Hrec; [reflexivity|exact Hx]. }
    exists (FItems (Some l')). split; [cbn [option_map]; rewrite wenc_items_as_item by tauto; rewrite rdec_items, dec_items_list, Hl; reflexivity|].
    rewrite !norm_items_val. destruct l0, l'; try discriminate Hm; [reflexivity|now rewrite Hm].
  - destruct (Hitems eq_refl) as [l0 Hl0]; [discriminate|discriminate].
  (* source *)
  - destruct Hcur as [-> | ->]; destruct mt; destruct c as [[|x r]|]; cbn; eexists; split; reflexivity.
  - destruct Hcur as [-> | ->]; cbn; eexists; split; reflexivity.
  (* public key *)
  - cbn in Hshape. exists (FPubKey id owner pem). split; [|reflexivity].
    cbn [option_map pre_fval wenc rdec]. now apply pubkey_rt.
  - destruct Hcur as [-> | ->]; cbn; eexists; split; reflexivity.
Qed.
End Codec.

(* ------------------------------------------------------------------ set values and guards *)
Section Fields.
Variable E : gob_env.
Hypothesis Hep : ge_endpoints_codec E = true.
Variable rec : wire -> outcome item.
Notation N := (norm_item (ge_layout E) (ge_layout_endpoints E)).
Notation NV := (norm_fval (ge_layout E) (ge_layout_endpoints E)).
Notation ON := (onorm (ge_layout E) (ge_layout_endpoints E)).

Lemma fget_pre f fs : fget f (pre_fields E fs) = option_map (pre_fval E) (getf f fs).
Proof.
  induction fs as [|[g v] r IH]; [reflexivity|].
  change (pre_fields E ((g, v) :: r)) with ((g, pre_fval E v) :: pre_fields E r).
  simpl. destruct (fid_beq f g); [reflexivity|exact IH].
Qed.

Lemma zero_norm_none v : fval_is_zero v = true -> NV v = None.
Proof.
  destruct v as [i|l|l|s|t|d|n|z|b|m|mt c|e|id owner pem]; simpl; intros H.
  - destruct i; try discriminate; reflexivity.
  - destruct l; try discriminate; reflexivity.
  - destruct l; try discriminate; reflexivity.
  - destruct s; try discriminate; reflexivity.
  - change (NV (FTime t)) with (if vtime_is_zero t then None else Some (FTime t)). now rewrite H.
  - change (NV (FDur d)) with (if (d =? 0)%Z then None else Some (FDur d)). now rewrite H.
  - change (NV (FUint n)) with (if (n =? 0)%N then None else Some (FUint n)). now rewrite H.
  - change (NV (FInt z)) with (if (z =? 0)%Z then None else Some (FInt z)). now rewrite H.
  - destruct b; try discriminate; reflexivity.
  - change (NV (FFloat m)) with (if (m =? 0)%Z then None else Some (FFloat m)). now rewrite H.
  - destruct mt; try discriminate. destruct c; try discriminate. reflexivity.
  - destruct e; try discriminate. reflexivity.
  - destruct id; try discriminate. destruct owner; try discriminate. destruct pem; try discriminate. reflexivity.
Qed.

Lemma in_list_true l s : in_list l s = true -> In s l.
Proof.
  unfold in_list. rewrite existsb_exists. intros [x [Hin Hx]]. apply bytes_eqb_eq in Hx. now subst.
Qed.

Lemma sum_pos {A} (f : A -> nat) l x : In x l -> 0 < f x -> 0 < fold_right (fun s acc => f s + acc) 0 l.
Proof. induction l as [|a r IH]; simpl; [tauto|]. intros [->|Hin] Hp; [lia|]. specialize (IH Hin Hp). lia. Qed.

(* a value with a non-empty normal form passes every admissible guard *)
Lemma set_guard t v g has :
  shape_ok t v = true -> NV v <> None -> guard_ok g t = true ->
  guard_eval g has (Some (pre_fval E v)) = true.
Proof.
  intros Hs Hn Hg.
  destruct t; destruct v as [i|l|l|s|tm|d|n|z|b|micro|mt c|e|id owner pem]; try discriminate; destruct g; try discriminate; simpl in *; try reflexivity.
  all: try (destruct i; reflexivity).
  all: try (destruct l as [[|x r]|]; simpl in *; try reflexivity; try (exfalso; apply Hn; reflexivity)).
  all: try (destruct s; simpl in *; [exfalso; apply Hn; reflexivity|reflexivity]).
  all: try (destruct (vtime_is_zero tm); [exfalso; apply Hn; reflexivity|reflexivity]).
  all: try (destruct (d =? 0)%Z eqn:Hz; [exfalso; apply Hn; reflexivity|reflexivity]).
  all: try (destruct (n =? 0)%N eqn:Hz; [exfalso; apply Hn; reflexivity|]; try reflexivity; apply N.ltb_lt; apply N.eqb_neq in Hz; lia).
  all: try (destruct (z =? 0)%Z eqn:Hz; [exfalso; apply Hn; reflexivity|reflexivity]).
  all: try (destruct b; [reflexivity|exfalso; apply Hn; reflexivity]).
  all: try (destruct (micro =? 0)%Z eqn:Hz; [exfalso; apply Hn; reflexivity|reflexivity]).
  all: try (destruct e; reflexivity).
  - destruct i; try reflexivity. exfalso; apply Hn; reflexivity.
  - change (NV (FTime tm)) with (if vtime_is_zero tm then None else Some (FTime tm)) in Hn.
    destruct (vtime_is_zero tm); [exfalso; now apply Hn|reflexivity].
  - change (NV (FDur d)) with (if (d =? 0)%Z then None else Some (FDur d)) in Hn.
    destruct (d =? 0)%Z; [exfalso; now apply Hn|reflexivity].
  - change (NV (FUint n)) with (if (n =? 0)%N then None else Some (FUint n)) in Hn.
    destruct (n =? 0)%N eqn:Hz; [exfalso; now apply Hn|]. apply N.ltb_lt. apply N.eqb_neq in Hz. lia.
  - change (NV (FUint n)) with (if (n =? 0)%N then None else Some (FUint n)) in Hn.
    destruct (n =? 0)%N; [exfalso; now apply Hn|reflexivity].
  - change (NV (FInt z)) with (if (z =? 0)%Z then None else Some (FInt z)) in Hn.
    destruct (z =? 0)%Z; [exfalso; now apply Hn|reflexivity].
  - change (NV (FFloat micro)) with (if (micro =? 0)%Z then None else Some (FFloat micro)) in Hn.
    destruct (micro =? 0)%Z; [exfalso; now apply Hn|reflexivity].
  - apply andb_true_iff in Hg. destruct Hg as [H1 H2]. apply in_list_true in H1, H2. apply Nat.ltb_lt.
    destruct mt as [|m0 mt].
    + destruct c as [[|x r]|]; try (exfalso; apply Hn; reflexivity).
      apply (sum_pos _ subs (B "Content")); [exact H2|]. vm_compute. lia.
    + apply (sum_pos _ subs (B "MediaType")); [exact H1|]. rewrite bytes_eqb_refl. simpl. lia.
  - destruct e; [reflexivity|exfalso; apply Hn; reflexivity].
  - apply andb_true_iff in Hg. destruct Hg as [Hg H3]. apply andb_true_iff in Hg. destruct Hg as [H1 H2].
    apply in_list_true in H1, H2, H3. apply Nat.ltb_lt.
    destruct id as [|i0 id].
    + destruct owner as [|o0 owner].
      * destruct pem as [|p0 pem]; [exfalso; apply Hn; reflexivity|].
        apply (sum_pos _ subs (B "PublicKeyPem")); [exact H3|]. vm_compute. lia.
      * apply (sum_pos _ subs (B "Owner")); [exact H2|]. vm_compute. lia.
    + apply (sum_pos _ subs (B "ID")); [exact H1|]. rewrite bytes_eqb_refl. simpl. lia.
Qed.
End Fields.

(* ------------------------------------------------------------------ from the table condition to fields *)
Section Kind.
Variable E : gob_env.
Variable k : kind.
Hypothesis Hk : kind_ok E k = true.
Notation NV := (norm_fval (ge_layout E) (ge_layout_endpoints E)).
Notation W := (wtable E k).
Notation R := (rtable_method E k).

Lemma kind_ok_parts :
  w_keys_ok W = true /\ r_keys_ok W R = true /\
  forallb (w_recognised E k) W = true /\ forallb (r_recognised E k) R = true /\
  forall d, In d (ge_layout E k) -> field_ok E W R d = true.
Proof.
  unfold kind_ok, kind_check in Hk.
  repeat match type of Hk with
         | context [if negb ?c then _ else _] => destruct c eqn:?; simpl in Hk; try discriminate
         end.
  repeat split; auto.
  intros d Hd. unfold first_bad_field in Hk.
  destruct (find (fun d0 => negb (field_ok E W R d0)) (ge_layout E k)) as [d0|] eqn:Hf.
  - apply find_some in Hf. destruct Hf as [_ Hf]. unfold field_ok in Hf.
    destruct (field_check E W R d0); [discriminate|discriminate].
  - apply (find_none _ _ Hf) in Hd. now apply negb_false_iff in Hd.
Qed.

(* a property whose normal form is not empty is written under its key, with a codec fitting its type,
   and the struct is not written as "no data" *)
Lemma set_field_written fs d v :
  In d (ge_layout E k) -> getf (fd_fid d) fs = Some v -> shape_ok (fd_type d) v = true -> NV v <> None ->
  snd (gmap E W (pre_fields E fs)) = true /\
  exists key cn c gf g flag pos,
    In (GW (fd_fid d) key cn gf g flag pos) W /\ wcodec_of cn = Some c /\ wcodec_fits c (fd_type d) = true /\
    aget key (fst (gmap E W (pre_fields E fs))) = Some (wenc E c (Some (pre_fval E v))).
Proof.
  intros Hd Hget Hshape Hn.
  destruct kind_ok_parts as (Hwk & _ & _ & _ & Hfields).
  specialize (Hfields d Hd). unfold field_ok, field_check in Hfields.
  repeat match type of Hfields with
         | context [if ?c then FieldBad _ else _] => destruct c eqn:?; simpl in Hfields; try discriminate
         end.
  repeat match goal with H : negb _ = false |- _ => apply negb_false_iff in H end.
  assert (Hset : forall g has, guard_ok g (fd_type d) = true -> guard_eval g has (fget (fd_fid d) (pre_fields E fs)) = true).
  { intros g has Hg. rewrite fget_pre, Hget. simpl. now apply (set_guard E (fd_type d)). }
  split.
  - unfold gmap. apply (fold_flags E (pre_fields E fs) (fd_fid d) (fd_type d) Hset W ([], false)); assumption.
  - unfold gmap.
    assert (Hwok : forallb (wentry_ok (fd_fid d) (fd_type d)) W = true) by assumption.
    assert (Hfr : fires (fd_fid d) (fd_type d) false W = true) by assumption.
    destruct (fold_fires E (pre_fields E fs) (fd_fid d) (fd_type d) Hset W ([], false) false Hwok Hfr
                (fun H => False_ind _ (diff_false_true H))) as (key & cn & gf & g & flag & pos & w & Hin & Hw).
    destruct (fold_binding E (pre_fields E fs) W ([], false) key w Hw) as [Hb|Hb]; [discriminate|].
    destruct Hb as (f' & cn' & c' & gf' & g' & flag' & pos' & Hin' & Hc' & Hweq & _).
    assert (f' = fd_fid d) as ->.
    { unfold w_keys_ok in Hwk. rewrite forallb_forall in Hwk. specialize (Hwk _ Hin'). rewrite forallb_forall in Hwk.
      specialize (Hwk _ Hin). simpl in Hwk. rewrite bytes_eqb_refl in Hwk. now apply fid_beq_eq in Hwk. }
    exists key, cn', c', gf', g', flag', pos'. repeat split; auto.
    + match goal with H : forallb (wentry_ok (fd_fid d) (fd_type d)) W = true |- _ => rewrite forallb_forall in H; specialize (H _ Hin') end.
      simpl in *. rewrite fid_beq_refl in *.
      match goal with H : _ && _ && _ = true |- _ => apply andb_true_iff in H; destruct H as [H _]; apply andb_true_iff in H; destruct H as [_ H] end.
      rewrite Hc' in *. match goal with H : _ && _ = true |- _ => apply andb_true_iff in H; destruct H as [H _]; exact H end.
    + rewrite Hw, Hweq, fget_pre, Hget. reflexivity.
Qed.

Notation ON := (onorm (ge_layout E) (ge_layout_endpoints E)).

Lemma items_guard_present g has f fs :
  (g = GNeNil \/ g = GLenGt0) ->
  (forall v, getf f fs = Some v -> shape_ok TItems v = true) ->
  guard_eval g has (option_map (pre_fval E) (getf f fs)) = true ->
  exists l, getf f fs = Some (FItems (Some l)).
Proof.
  intros Hg Hs He. destruct (getf f fs) as [v|]; [|destruct Hg as [-> | ->]; discriminate].
  specialize (Hs v eq_refl). destruct v as [i|l|l|s|t|d|n|z|b|m|mt c|e|id owner pem]; try discriminate.
  destruct l as [l|]; [now exists l|]. destruct Hg as [-> | ->]; discriminate.
Qed.

(* T.GobEncode then T.GobDecode into a zero value: every property other than Endpoints comes back with
   the same normal form, provided the items nested in it do ([rec_ok]: the induction hypothesis of the
   item-level statement) *)
Lemma field_rt rec fs d out :
  ge_endpoints_codec E = true ->
  In d (ge_layout E k) -> fd_type d <> TEndpoints ->
  (forall v, getf (fd_fid d) fs = Some v -> shape_ok (fd_type d) v = true) ->
  (forall v i, getf (fd_fid d) fs = Some v -> In i (items_of v) -> rec_ok E rec i) ->
  rec_ok E rec INil ->
  gunmap E rec R (fst (gmap E W (pre_fields E fs))) [] = Ok out ->
  ON out (fd_fid d) = ON fs (fd_fid d).
Proof.
  intros Hep Hd Hnep Hshape Hrec Hnil Hun.
  destruct kind_ok_parts as (Hwk & Hrk & _ & _ & Hfields).
  pose proof (Hfields d Hd) as Hf. unfold field_ok, field_check in Hf.
  repeat match type of Hf with
         | context [if ?c then FieldBad _ else _] => destruct c eqn:?; simpl in Hf; try discriminate
         end.
  repeat match goal with H : negb _ = false |- _ => apply negb_false_iff in H end.
  set (f := fd_fid d) in *. set (t := fd_type d) in *.
  assert (Hcount : length (filter (r_is f) R) = 1).
  { match goal with H : Nat.eqb (count_reads f R) 1 = true |- _ => apply Nat.eqb_eq in H; exact H end. }
  assert (Hcross : cross_ok E f t W R = true) by assumption.
  unfold gunmap in Hun.
  destruct (fold_read_one E rec _ f R [] out Hcount Hun) as (key & cn & pos & Hin & Hm).
  unfold cross_ok in Hcross. rewrite forallb_forall in Hcross. pose proof (Hcross _ Hin) as Hc. simpl in Hc.
  unfold f in Hc at 1. rewrite fid_beq_refl in Hc.
  destruct (rcodec_of cn) as [cr|] eqn:Hcr; [|discriminate]. rewrite forallb_forall in Hc.
  unfold ON, onorm.
  destruct (aget key (fst (gmap E W (pre_fields E fs)))) as [raw|] eqn:Hraw.
  - destruct Hm as (v & Hv & Hout).
    destruct (fold_binding E (pre_fields E fs) W ([], false) key raw Hraw) as [Hb|Hb]; [discriminate|].
    destruct Hb as (f' & cn' & c' & gf' & g' & flag' & pos' & Hin' & Hc' & Hweq & has' & Hg').
    assert (f' = f) as ->.
    { unfold r_keys_ok in Hrk. apply andb_true_iff in Hrk. destruct Hrk as [_ Hrk]. rewrite forallb_forall in Hrk.
      specialize (Hrk _ Hin). rewrite forallb_forall in Hrk. specialize (Hrk _ Hin'). simpl in Hrk.
      rewrite bytes_eqb_refl in Hrk. apply fid_beq_eq in Hrk. congruence. }
    pose proof (Hc _ Hin') as Hp. simpl in Hp. unfold f in Hp at 1. rewrite fid_beq_refl in Hp.
    rewrite Hc' in Hp. apply andb_true_iff in Hp. destruct Hp as [_ Hp]. rewrite Hep in Hp.
    (* the write statement's own well-formedness *)
    match goal with H : forallb (wentry_ok f t) W = true |- _ => rewrite forallb_forall in H; pose proof (H _ Hin') as Hwe end.
    simpl in Hwe. unfold f in Hwe at 1. rewrite fid_beq_refl in Hwe. rewrite Hc' in Hwe.
    apply andb_true_iff in Hwe. destruct Hwe as [Hwe _]. apply andb_true_iff in Hwe. destruct Hwe as [Hgf Hwe].
    apply fid_beq_eq in Hgf. subst gf'. apply andb_true_iff in Hwe. destruct Hwe as [_ Hcg].
    destruct (codec_pair_sound E rec t c' cr (getf f fs) (getf f [])) as (v' & Hv' & Hn'); auto.
    + intros _ _ _. now left.
    + intros Ht Hci. rewrite fget_pre in Hg'. subst t. rewrite Ht in *.
      eapply items_guard_present; [|exact Hshape|exact Hg'].
      unfold codec_guard_ok in Hcg. destruct c'; try congruence; destruct g'; try discriminate; auto.
    + rewrite Hweq, fget_pre in Hv. rewrite Hv in Hv'. injection Hv' as <-.
      rewrite Hout. destruct (fval_is_zero v) eqn:Hz; [rewrite (zero_norm_none E v Hz) in Hn'; exact Hn'|exact Hn'].
  - rewrite Hm. simpl.
    destruct (getf f fs) as [v|] eqn:Hget; [|reflexivity].
    destruct (NV v) as [nv|] eqn:Hnv; [|reflexivity]. exfalso.
    destruct (set_field_written fs d v Hd Hget (Hshape v eq_refl)) as (_ & key' & cn' & c' & gf' & g' & fl' & pos' & Hin' & _ & _ & Hk').
    { fold t. congruence. }
    pose proof (Hc _ Hin') as Hp. simpl in Hp. unfold f in Hp at 1. rewrite fid_beq_refl in Hp.
    apply andb_true_iff in Hp. destruct Hp as [Hkey _]. apply bytes_eqb_eq in Hkey. subst key'. congruence.
Qed.
End Kind.

Lemma tables_consistent_kind E : gob_tables_consistent E = true -> forall k, kind_ok E k = true.
Proof.
  unfold gob_tables_consistent. intros H k. rewrite forallb_forall in H. apply H.
  destruct k; simpl; tauto.
Qed.
