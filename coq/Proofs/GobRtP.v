(* C03: the whole-value round trip of the gob codec model,
     forall x of any depth, wf_gob E x = true -> exists y, gdec E (genc E x) = Ok y /\ norm y = norm x,
   for every environment (tables regenerated from the source) that satisfies the decidable condition
   [gob_whole_ok] of Model/GobWhole.v.  Ingredients: the generic struct lemma (Proofs/GobP.v) at the level
   of the 14 struct kinds with the pair soundness of Proofs/GobLeafP.v, the sniffing lemma (no output of
   gobEncodeItem is taken for another shape by gobDecodeItem), the type-name dispatch, and the fixpoint
   equation of the decoder (Proofs/GobWireP.v), by induction over the value. *)
From AP.Model Require Import Prelude Vocab Bytes Layout Pred Dispatch GobTables Gob GobCheck GobNorm GobWhole.
From AP.Proofs Require Import GobCodecP NlvP ViewsP GobP GobLeafP GobWireP.
From Coq Require Import Lia.

(* ------------------------------------------------------------------ induction over values *)
Section ItemInd.
  Variable P : item -> Prop.
  Hypotheses
    (HNil : P INil) (HTNil : forall k, P (ITNil k)) (HIri : forall p s, P (IIri p s))
    (HObj : forall p k fs, (forall f v i, In (f, v) fs -> In i (items_of v) -> P i) -> P (IObj p k fs))
    (HItemsN : forall p, P (IItems p None))
    (HItems : forall p l, (forall i, In i l -> P i) -> P (IItems p (Some l)))
    (HIris : forall p l, P (IIris p l)).

  Definition Qv (v : fval) : Prop := forall i, In i (items_of v) -> P i.

  Lemma Qv_items l : Forall P l -> Qv (FItems (Some l)).
  Proof. intros H i Hi. rewrite Forall_forall in H. now apply H. Qed.
  Lemma Qv_endp e : Forall P (map snd e) -> Qv (FEndpoints (Some e)).
  Proof. intros H i Hi. rewrite Forall_forall in H. now apply H. Qed.
  Lemma Qv_item i : P i -> Qv (FItem i).
  Proof. intros H j [<-|[]]. exact H. Qed.
  Lemma Qv_none v : items_of v = [] -> Qv v.
  Proof. intros H i Hi. rewrite H in Hi. destruct Hi. Qed.
  Lemma HObj' p k fs : Forall (fun fv => Qv (snd fv)) fs -> P (IObj p k fs).
  Proof. intros H. apply HObj. intros f v i Hin Hi. rewrite Forall_forall in H. exact (H (f, v) Hin i Hi). Qed.
  Lemma HItems' p l : Forall P l -> P (IItems p (Some l)).
  Proof. intros H. apply HItems. now rewrite Forall_forall in H. Qed.

  Fixpoint item_ind3 (i : item) : P i :=
    match i as i0 return P i0 with
    | INil => HNil
    | ITNil k => HTNil k
    | IIri p s => HIri p s
    | IObj p k fs =>
        HObj' p k fs
          ((fix go (fs : list (fid * fval)) : Forall (fun fv => Qv (snd fv)) fs :=
              match fs as fs0 return Forall (fun fv => Qv (snd fv)) fs0 with
              | [] => Forall_nil _
              | fv :: r => Forall_cons fv (fval_ind3 (snd fv)) (go r)
              end) fs)
    | IItems p None => HItemsN p
    | IItems p (Some l) =>
        HItems' p l
          ((fix go (l : list item) : Forall P l :=
              match l as l0 return Forall P l0 with
              | [] => Forall_nil _
              | x :: r => Forall_cons x (item_ind3 x) (go r)
              end) l)
    | IIris p l => HIris p l
    end
  with fval_ind3 (v : fval) : Qv v :=
    match v as v0 return Qv v0 with
    | FItem i => Qv_item i (item_ind3 i)
    | FItems None => Qv_none (FItems None) eq_refl
    | FItems (Some l) =>
        Qv_items l
          ((fix go (l : list item) : Forall P l :=
              match l as l0 return Forall P l0 with
              | [] => Forall_nil _
              | x :: r => Forall_cons x (item_ind3 x) (go r)
              end) l)
    | FEndpoints None => Qv_none (FEndpoints None) eq_refl
    | FEndpoints (Some e) =>
        Qv_endp e
          ((fix go (e : list (fid * item)) : Forall P (map snd e) :=
              match e as e0 return Forall P (map snd e0) with
              | [] => Forall_nil _
              | fx :: r => Forall_cons (snd fx) (item_ind3 (snd fx)) (go r)
              end) e)
    | FNlv l => Qv_none (FNlv l) eq_refl | FStr s => Qv_none (FStr s) eq_refl | FTime t => Qv_none (FTime t) eq_refl
    | FDur d => Qv_none (FDur d) eq_refl | FUint n => Qv_none (FUint n) eq_refl | FInt z => Qv_none (FInt z) eq_refl
    | FBool b => Qv_none (FBool b) eq_refl | FFloat m => Qv_none (FFloat m) eq_refl
    | FSource mt c => Qv_none (FSource mt c) eq_refl | FPubKey a b c => Qv_none (FPubKey a b c) eq_refl
    end.
End ItemInd.

(* ------------------------------------------------------------------ the sniffing lemma *)
Section Sniff.
Variable E : gob_env.
Hypothesis Hcodecs : codecs_ok E = true.      (* tryDecodeIRIs / tryDecodeIRI run the generated IRIs.GobDecode / IRI.GobDecode *)
Variable rec : wire -> outcome item.

Ltac closed_codecs :=
  rewrite ?(dec_iris_closed0 E Hcodecs), ?(dec_raw E Hcodecs n_iri_dec) by (simpl; tauto).

(* the first attempt that does not pass on a wire of class [c] is one that reads it right *)
Lemma sniff_run_class (c : wclass) (w : wire) (P : outcome item -> Prop) l :
  (forall s k, sniff_kind s = Some k -> sniff_passes k c = true -> sniff_one E rec s w = None) ->
  (forall s k, sniff_kind s = Some k -> sniff_passes k c = false -> sniff_right k c = true ->
               exists r, sniff_one E rec s w = Some r /\ P r) ->
  sniff_first_ok c l = true -> P (sniff_run E rec l w).
Proof.
  intros Hpass Hright. induction l as [|s r IH]; simpl; intros H; [discriminate|].
  destruct (sniff_kind s) as [k|] eqn:Hk; [|discriminate].
  destruct (sniff_passes k c) eqn:Hp.
  - rewrite (Hpass s k Hk Hp). now apply IH.
  - destruct (Hright s k Hk Hp H) as [r0 [-> Hr]]. exact Hr.
Qed.

Ltac kind_cases s Hk :=
  destruct s as [fn pos|fn tkey always pos|pos|src pos]; simpl in Hk;
  [ destruct (bytes_eqb fn fn_try_items) eqn:Hfn1;
    [|destruct (bytes_eqb fn fn_try_iris) eqn:Hfn2; [|destruct (bytes_eqb fn fn_try_iri) eqn:Hfn3]]
  | destruct (bytes_eqb fn fn_as_map) eqn:Hfn1
  | | ]; try discriminate; injection Hk as <-.

Variable l : list gsniff.
Hypothesis Hsn : sniff_ok l = true.

Lemma sniff_class_ok c : sniff_first_ok c l = true.
Proof. unfold sniff_ok in Hsn. rewrite forallb_forall in Hsn. apply Hsn. destruct c; simpl; tauto. Qed.

Notation N := (norm_item (ge_layout E) (ge_layout_endpoints E)).

(* no bytes: an empty IRI list, or an empty IRI - the unset item either way *)
Lemma sniff_empty : exists y, sniff_run E rec l WEmpty = Ok y /\ N y = INil.
Proof.
  apply (sniff_run_class WcEmpty WEmpty (fun r => exists y, r = Ok y /\ N y = INil)); [| |apply sniff_class_ok].
  - intros s k Hk Hp. kind_cases s Hk; try discriminate; simpl; unfold sniff_try; rewrite ?Hfn1; reflexivity.
  - intros s k Hk Hp Hr. kind_cases s Hk; try discriminate; simpl; unfold sniff_try; rewrite ?Hfn1, ?Hfn2, ?Hfn3; closed_codecs;
      eexists; (split; [reflexivity|]); eexists; split; reflexivity.
Qed.

(* raw bytes: the IRI *)
Lemma sniff_raw b : sniff_run E rec l (WRaw b) = Ok (IIri false b).
Proof.
  apply (sniff_run_class WcRaw (WRaw b) (fun r => r = Ok (IIri false b))); [| |apply sniff_class_ok].
  - intros s k Hk Hp. kind_cases s Hk; try discriminate; simpl; unfold sniff_try; rewrite ?Hfn1, ?Hfn2; closed_codecs; reflexivity.
  - intros s k Hk Hp Hr. kind_cases s Hk; try discriminate; simpl; unfold sniff_try; rewrite ?Hfn1, ?Hfn2, ?Hfn3; closed_codecs;
      eexists; split; reflexivity.
Qed.

(* a list of byte strings each of which decodes: the item list *)
Lemma sniff_list ws l' : omapM rec ws = Ok l' -> sniff_run E rec l (WList ws) = Ok (IItems false (Some l')).
Proof.
  intros Hl. apply (sniff_run_class WcList (WList ws) (fun r => r = Ok (IItems false (Some l')))); [| |apply sniff_class_ok].
  - intros s k Hk Hp. kind_cases s Hk; try discriminate; simpl; rewrite ?Hfn1; reflexivity.
  - intros s k Hk Hp Hr. kind_cases s Hk; try discriminate; simpl; unfold sniff_try; rewrite ?Hfn1.
    change (dec_items rec (WList ws)) with (omapM rec ws). rewrite Hl. eexists; split; reflexivity.
Qed.

(* what gobEncodeItem writes for an IRI list: the IRI list *)
Lemma sniff_iris i x ls : dec_iris i = Ok ls -> sniff_run E rec l (WCat (WOpaque i) x) = Ok (IIris false (Some ls)).
Proof.
  intros Hl. apply (sniff_run_class WcIris (WCat (WOpaque i) x) (fun r => r = Ok (IIris false (Some ls)))); [| |apply sniff_class_ok].
  - intros s k Hk Hp. kind_cases s Hk; try discriminate; simpl; unfold sniff_try; rewrite ?Hfn1; reflexivity.
  - intros s k Hk Hp Hr. kind_cases s Hk; try discriminate; simpl; unfold sniff_try; rewrite ?Hfn1, ?Hfn2; closed_codecs.
    change (dec_iris (WCat (WOpaque i) x)) with (dec_iris i). rewrite Hl. eexists; split; reflexivity.
Qed.

(* a property map: the object branch, with the type read from "type" *)
Lemma sniff_map mm : sniff_run E rec l (WMap mm) = dec_object E rec (B "type") mm.
Proof.
  apply (sniff_run_class WcMap (WMap mm) (fun r => r = dec_object E rec (B "type") mm)); [| |apply sniff_class_ok].
  - intros s k Hk Hp. kind_cases s Hk; try discriminate; simpl; unfold sniff_try; rewrite ?Hfn1, ?Hfn2; closed_codecs; reflexivity.
  - intros s k Hk Hp Hr. kind_cases s Hk; try discriminate. simpl in Hr. apply andb_true_iff in Hr. destruct Hr as [-> Ht].
    apply bytes_eqb_eq in Ht. subst tkey. simpl. rewrite Hfn1. simpl. eexists; split; reflexivity.
Qed.
End Sniff.

(* ------------------------------------------------------------------ normal forms of field lists *)
Section NormFields.
Variable L : kind -> list fdecl.
Variable LE : list fdecl.
Notation NV := (norm_fval L LE).
Notation ON := (onorm L LE).

Lemma fget_norm_pairs f fs : fget f (norm_pairs L LE fs) = option_map NV (getf f fs).
Proof.
  induction fs as [|[g v] r IH]; [reflexivity|].
  change (norm_pairs L LE ((g, v) :: r)) with ((g, NV v) :: norm_pairs L LE r).
  simpl. destruct (fid_beq f g); [reflexivity|exact IH].
Qed.

Lemma reorder_ext ds a b :
  (forall d, In d ds -> ON a (fd_fid d) = ON b (fd_fid d)) -> reorder ds (norm_pairs L LE a) = reorder ds (norm_pairs L LE b).
Proof.
  intros H. unfold reorder. apply flat_map_ext_in. intros d Hd. rewrite !fget_norm_pairs.
  specialize (H d Hd). unfold onorm in H.
  destruct (getf (fd_fid d) a) as [va|], (getf (fd_fid d) b) as [vb|]; simpl in *.
  - now rewrite H.
  - now rewrite H.
  - now rewrite <- H.
  - reflexivity.
Qed.

Lemma reorder_unset ds a :
  (forall d, In d ds -> ON a (fd_fid d) = None) -> reorder ds (norm_pairs L LE a) = [].
Proof.
  intros H. unfold reorder. induction ds as [|d r IH]; [reflexivity|]. simpl.
  rewrite fget_norm_pairs. pose proof (H d (or_introl eq_refl)) as Hd. unfold onorm in Hd.
  destruct (getf (fd_fid d) a); simpl; rewrite ?Hd; simpl; apply IH; intros; apply H; now right.
Qed.

Lemma norm_obj p k fs :
  norm_item L LE (IObj p k fs) = match norm_fields L LE k fs with [] => INil | fs' => IObj true k fs' end.
Proof. reflexivity. Qed.
End NormFields.

Lemma getf_none_canon f (r : list fdecl) out :
  getf f out = None ->
  getf f (flat_map (fun d => match getf (fd_fid d) out with Some v => [(fd_fid d, v)] | None => [] end) r) = None.
Proof.
  intros Hn. induction r as [|a r IH]; [reflexivity|]. simpl.
  destruct (getf (fd_fid a) out) as [v|] eqn:Ha; [|exact IH]. simpl.
  destruct (fid_beq f (fd_fid a)) eqn:Hf; [|exact IH]. apply fid_beq_eq in Hf. subst f. congruence.
Qed.

Lemma getf_canon E k f out : in_fields (ge_layout E k) f = true -> getf f (canon_fields E k out) = getf f out.
Proof.
  unfold canon_fields, in_fields. induction (ge_layout E k) as [|d r IH]; simpl; intros Hin; [discriminate|].
  destruct (fid_beq (fd_fid d) f) eqn:Hdf.
  - apply fid_beq_eq in Hdf. subst f. destruct (getf (fd_fid d) out) as [v|] eqn:Hg; simpl.
    + now rewrite fid_beq_refl.
    + now apply getf_none_canon.
  - simpl in Hin. rewrite <- (IH Hin). destruct (getf (fd_fid d) out) as [v|]; [|reflexivity]. simpl.
    now rewrite fid_beq_sym, Hdf.
Qed.

Lemma getf_In f v fs : getf f fs = Some v -> In (f, v) fs.
Proof.
  induction fs as [|[g w] r IH]; simpl; [discriminate|]. destruct (fid_beq f g) eqn:Hf.
  - apply fid_beq_eq in Hf. subst g. intros H. injection H as ->. now left.
  - right. auto.
Qed.

Lemma okind_eqb_eq a b : okind_eqb a b = true -> a = b.
Proof.
  destruct a as [x|], b as [y|]; simpl; try discriminate; try reflexivity.
  intros H. f_equal. destruct x, y; try discriminate; reflexivity.
Qed.
Lemma kind_beq_refl k : kind_beq k k = true.
Proof. destruct k; reflexivity. Qed.

(* ------------------------------------------------------------------ the 14 struct kinds *)
Lemma tables_consistent_kind E : gob_tables_consistent E = true -> forall k, kind_ok E k = true.
Proof.
  unfold gob_tables_consistent. intros H k. rewrite forallb_forall in H. apply H.
  destruct k; simpl; tauto.
Qed.

Section Whole.
Variable E : gob_env.
Hypothesis Hwhole : gob_whole_ok E = true.
Notation N := (norm_item (ge_layout E) (ge_layout_endpoints E)).
Notation NV := (norm_fval (ge_layout E) (ge_layout_endpoints E)).
Notation ON := (onorm (ge_layout E) (ge_layout_endpoints E)).

Lemma whole_parts :
  gob_tables_consistent E = true /\ leaves_ok E = true /\ sniff_ok (ge_sniff E) = true /\ type_fields_ok E = true /\
  enc_item_ok E = true /\ ge_endpoints_codec E = true.
Proof.
  pose proof Hwhole as H. unfold gob_whole_ok in H. do 7 (apply andb_true_iff in H; destruct H as [H ?]).
  repeat split; assumption.
Qed.

Lemma whole_codecs : codecs_ok E = true.
Proof. pose proof Hwhole as H. unfold gob_whole_ok in H. do 3 (apply andb_true_iff in H; destruct H as [H ?]). assumption. Qed.

Lemma whole_enc_item : enc_item_ok E = true.
Proof. now destruct whole_parts as (_ & _ & _ & _ & H & _). Qed.

Lemma kind_struct_ok k :
  struct_ok wcodec_fits (pair_ok true) (ge_layout E k) (wtable E k) (rtable_method E k) = true /\ item_route_ok E k = true.
Proof.
  destruct whole_parts as (Ht & _ & _ & _ & _ & Hep).
  pose proof (tables_consistent_kind E Ht k) as Hk. unfold kind_ok, kind_check in Hk.
  repeat match type of Hk with
         | context [if negb ?c then _ else _] => destruct c eqn:?; simpl in Hk; try discriminate
         end.
  split; [|reflexivity].
  unfold struct_ok.
  match goal with H : nodup_fids _ && endpoints_layout_ok E = true |- _ => apply andb_true_iff in H; destruct H as [Hnd _] end.
  rewrite Hnd. simpl.
  match goal with H : forallb (w_recognised E k) _ = true |- _ => change (forallb (w_recognised_in (ge_layout E k)) (wtable E k) = true) in H; rewrite H end.
  match goal with H : forallb (r_recognised E k) _ = true |- _ => change (forallb (r_recognised_in (ge_layout E k)) (rtable_method E k) = true) in H; rewrite H end.
  match goal with H : w_keys_ok _ = true |- _ => rewrite H end.
  match goal with H : r_keys_ok _ _ = true |- _ => rewrite H end.
  simpl. apply forallb_forall. intros d Hd.
  unfold first_bad_field in Hk.
  destruct (find (fun d0 => negb (field_ok E (wtable E k) (rtable_method E k) d0)) (ge_layout E k)) as [d0|] eqn:Hf.
  - apply find_some in Hf. destruct Hf as [_ Hf]. unfold field_ok, field_ok_gen in Hf. unfold field_check in Hk.
    destruct (field_check_gen wcodec_fits (pair_ok (ge_endpoints_codec E)) (wtable E k) (rtable_method E k) d0); discriminate.
  - apply (find_none _ _ Hf) in Hd. apply negb_false_iff in Hd. unfold field_ok in Hd. now rewrite Hep in Hd.
Qed.

Lemma layout_nodup k : nodup_fids (map fd_fid (ge_layout E k)) = true.
Proof.
  destruct (kind_struct_ok k) as [H _]. unfold struct_ok in H. do 5 (apply andb_true_iff in H; destruct H as [H ?]). exact H.
Qed.

Lemma ftype_layout k d : In d (ge_layout E k) -> ftype E k (fd_fid d) = Some (fd_type d).
Proof.
  intros Hd. unfold ftype.
  destruct (find (fun d0 => fid_beq (fd_fid d0) (fd_fid d)) (ge_layout E k)) as [d'|] eqn:Hf.
  - apply find_some in Hf. destruct Hf as [Hd' Hf]. apply fid_beq_eq in Hf.
    now rewrite (nodup_fids_unique _ (layout_nodup k) d' d Hd' Hd Hf).
  - apply (find_none _ _ Hf) in Hd. now rewrite fid_beq_refl in Hd.
Qed.

(* ---- the domain *)
Lemma wf_fields_go k fs :
  (fix go (fs : list (fid * fval)) : bool :=
     match fs with
     | [] => true
     | (f, v) :: r => match ftype E k f with Some t => shape_ok t v | None => true end && wf_gob_fval E v && go r
     end) fs = true ->
  forall f v, In (f, v) fs -> match ftype E k f with Some t => shape_ok t v | None => true end = true /\ wf_gob_fval E v = true.
Proof.
  induction fs as [|[g w] r IH]; intros H f v Hin; [destruct Hin|].
  apply andb_true_iff in H. destruct H as [H Hr]. apply andb_true_iff in H. destruct H as [Hs Hw].
  destruct Hin as [Heq|Hin]; [injection Heq as <- <-; now split|now apply IH].
Qed.

Lemma wf_obj_parts p k fs :
  wf_gob E (IObj p k fs) = true ->
  type_selects E k (get_str F_Type fs) = true /\
  forall f v, In (f, v) fs -> match ftype E k f with Some t => shape_ok t v | None => true end = true /\ wf_gob_fval E v = true.
Proof.
  intros H.
  change (wf_gob E (IObj p k fs)) with
    (type_selects E k (get_str F_Type fs) &&
     (fix go (fs : list (fid * fval)) : bool :=
        match fs with
        | [] => true
        | (f, v) :: r => match ftype E k f with Some t => shape_ok t v | None => true end && wf_gob_fval E v && go r
        end) fs) in H.
  apply andb_true_iff in H. destruct H as [Ht Hf]. split; [exact Ht|]. now apply wf_fields_go.
Qed.

Lemma wf_list_go l :
  (fix go (l : list item) : bool := match l with [] => true | x :: r => wf_gob E x && go r end) l = true ->
  forall i, In i l -> wf_gob E i = true.
Proof.
  induction l as [|a r IH]; intros H i Hi; [destruct Hi|].
  apply andb_true_iff in H. destruct H as [Ha Hr]. destruct Hi as [<-|Hi]; [exact Ha|now apply IH].
Qed.

Lemma wf_fval_items v : wf_gob_fval E v = true -> forall i, In i (items_of v) -> wf_gob E i = true.
Proof.
  intros H i Hi. destruct v as [x|l|l|s|t|d|n|z|b|m|mt c|e|id owner pem]; try (now destruct Hi).
  - destruct Hi as [<-|[]]. exact H.
  - destruct l as [l|]; [|destruct Hi]. simpl in Hi. eapply wf_list_go; eauto.
  - destruct e as [e|]; [|destruct Hi]. simpl in Hi.
    change (wf_gob_fval E (FEndpoints (Some e))) with
      ((fix go (e : list (fid * item)) : bool := match e with [] => true | (_, x) :: r => wf_gob E x && go r end) e) in H.
    revert H Hi. induction e as [|[f x] r IH]; intros H Hi; [destruct Hi|].
    apply andb_true_iff in H. destruct H as [Hx Hr]. destruct Hi as [<-|Hi]; [exact Hx|now apply IH].
Qed.

Lemma wf_items_parts p l : wf_gob E (IItems p (Some l)) = true -> forall i, In i l -> wf_gob E i = true.
Proof. intros H. now apply wf_list_go. Qed.

(* ---- base cases *)
Lemma sniff_here : sniff_ok (ge_sniff E) = true.
Proof. now destruct whole_parts as (_ & _ & H & _). Qed.

Lemma gdec_empty : exists y, gdec E WEmpty = Ok y /\ N y = INil.
Proof. rewrite gdec_unfold. apply sniff_empty; [exact whole_codecs|exact sniff_here]. Qed.

Lemma nil_ok : rec_ok E (gdec E) INil.
Proof.
  destruct gdec_empty as [y [Hy Hn]]. exists y. rewrite (genc_nil E whole_enc_item INil eq_refl). split; [exact Hy|exact Hn].
Qed.

(* any nil-like item: no bytes, read back as the unset item *)
Lemma nilish_ok i : is_nil i = true -> N i = INil -> rec_ok E (gdec E) i.
Proof.
  intros Hi Hni. destruct gdec_empty as [y [Hy Hn]]. exists y. rewrite (genc_nil E whole_enc_item i Hi).
  split; [exact Hy|now rewrite Hni].
Qed.

(* ---- encoding a struct *)
Lemma genc_obj p k fs : genc E (IObj p k fs) = enc_struct E k (pre_fields E fs).
Proof. apply GobCodecP.genc_obj, whole_enc_item. Qed.

Lemma pfs_type_pre fs : pfs_type (pre_fields E fs) = get_str F_Type fs.
Proof.
  unfold pfs_type, get_str. rewrite fget_pre. destruct (getf F_Type fs) as [v|]; [|reflexivity].
  destruct v as [i|l|l|s|t|d|n|z|b|m|mt c|e|id owner pem]; try reflexivity.
  - destruct i; reflexivity.
  - destruct l; reflexivity.
  - destruct e; reflexivity.
Qed.

Lemma enc_struct_obj k fs :
  type_selects E k (get_str F_Type fs) = true -> enc_struct E k (pre_fields E fs) = enc_obj E k (pre_fields E fs).
Proof.
  intros H. unfold enc_struct, enc_switch. rewrite pfs_type_pre. unfold type_selects in H.
  apply andb_true_iff in H. destruct H as [_ H].
  destruct k; try reflexivity; apply okind_eqb_eq in H; rewrite H; reflexivity.
Qed.

Lemma fires_exists f t W : forall fl, fires f t fl W = true -> exists key cn gf g flag pos, In (GW f key cn gf g flag pos) W.
Proof.
  induction W as [|e r IH]; simpl; intros fl H; [discriminate|].
  destruct e as [f' key cn gf g flag pos|gf g pos| |].
  - destruct (fid_beq f' f) eqn:Hf.
    + apply fid_beq_eq in Hf. subst f'. do 6 eexists. now left.
    + destruct (IH _ H) as (k0 & c0 & g0 & g1 & f0 & p0 & Hin). do 6 eexists. right. exact Hin.
  - destruct (IH _ H) as (k0 & c0 & g0 & g1 & f0 & p0 & Hin). do 6 eexists. right. exact Hin.
  - destruct (IH _ H) as (k0 & c0 & g0 & g1 & f0 & p0 & Hin). do 6 eexists. right. exact Hin.
  - destruct (IH _ H) as (k0 & c0 & g0 & g1 & f0 & p0 & Hin). do 6 eexists. right. exact Hin.
Qed.

Section Obj.
Variable k : kind.
Variable fs : list (fid * fval).
Hypothesis Hshape : forall d v, In d (ge_layout E k) -> getf (fd_fid d) fs = Some v -> shape_ok (fd_type d) v = true.
Notation W := (wtable E k).
Notation R := (rtable_method E k).
Notation mm := (fst (gmap_gen (wenc E) W (pre_fields E fs))).

Lemma raw_codec_cases cn c : wcodec_of cn = Some c -> raw_codec cn = true -> c = CwIri \/ c = CwType \/ c = CwRawBytes.
Proof. unfold raw_codec. intros ->. destruct c; try discriminate; auto. Qed.

(* what gobDecodeItem reads under "type" is the Type of the struct that was written *)
Lemma type_on_wire :
  match aget (B "type") mm with Some r => wire_bytes_or_garbage r | None => [] end = get_str F_Type fs.
Proof.
  destruct (kind_struct_ok k) as [Hsok _].
  destruct whole_parts as (_ & _ & _ & Htf & _ & _).
  unfold type_fields_ok in Htf. rewrite forallb_forall in Htf.
  assert (Hin : in_fields (ge_layout E k) F_Type = true) by (apply Htf; destruct k; simpl; tauto).
  destruct (in_fields_In _ _ Hin) as (d & Hd & Hdf).
  destruct (field_parts _ _ _ _ _ Hsok d Hd) as (Hwok & Hfr & _). rewrite Hdf in *.
  destruct (struct_parts _ _ _ _ _ Hsok) as (_ & _ & _ & Hwk & _ & _).
  rewrite forallb_forall in Hwok.
  (* a writer of Type, under "type", with a raw codec *)
  assert (Hraw : forall key cn gf g fl pos c, In (GW F_Type key cn gf g fl pos) W -> wcodec_of cn = Some c ->
                   key = B "type" /\ (c = CwIri \/ c = CwType \/ c = CwRawBytes) /\ fd_type d = TString).
  { intros key cn gf g fl pos c Hi Hc. specialize (Hwok _ Hi). simpl in Hwok. rewrite Hc in Hwok.
    apply andb_true_iff in Hwok. destruct Hwok as [H1 H2]. apply andb_true_iff in H2. destruct H2 as [Hk Hr].
    apply andb_true_iff in H1. destruct H1 as [_ H1]. apply andb_true_iff in H1. destruct H1 as [Hfit _].
    apply bytes_eqb_eq in Hk. destruct (raw_codec_cases _ _ Hc Hr) as [-> | [-> | ->]];
      (split; [exact Hk|split; [tauto|destruct (fd_type d); try discriminate; reflexivity]]). }
  assert (Hval : forall c, c = CwIri \/ c = CwType \/ c = CwRawBytes -> fd_type d = TString ->
                   wire_bytes_or_garbage (wenc E c (fget F_Type (pre_fields E fs))) = get_str F_Type fs).
  { intros c Hc Ht. rewrite fget_pre. unfold get_str. destruct (getf F_Type fs) as [v|] eqn:Hg.
    - pose proof (Hshape d v Hd) as Hs. rewrite Hdf, Ht in Hs. specialize (Hs Hg).
      destruct v; try discriminate.
      destruct Hc as [-> | [-> | ->]]; cbn [wenc option_map pre_fval]; rewrite (wenc0_closed E whole_codecs whole_enc_item); simpl; apply wbg_wraw.
    - destruct Hc as [-> | [-> | ->]]; reflexivity. }
  destruct (aget (B "type") mm) as [w|] eqn:Ha.
  - destruct (fold_binding (wenc E) (pre_fields E fs) W ([], false) _ _ Ha) as [Hb|Hb]; [discriminate|].
    destruct Hb as (f' & cn' & c' & gf' & g' & flag' & pos' & Hin' & Hc' & Hweq & _).
    destruct (fires_exists _ _ _ _ Hfr) as (key0 & cn0 & gf0 & g0 & fl0 & p0 & Hin0).
    assert (Hc0 : exists c0, wcodec_of cn0 = Some c0).
    { specialize (Hwok _ Hin0). simpl in Hwok. destruct (wcodec_of cn0); [eauto|]. rewrite andb_false_r in Hwok. discriminate. }
    destruct Hc0 as [c0 Hc0]. destruct (Hraw _ _ _ _ _ _ _ Hin0 Hc0) as (Hk0 & _ & _). subst key0.
    assert (f' = F_Type) as ->.
    { unfold w_keys_ok in Hwk. rewrite forallb_forall in Hwk. specialize (Hwk _ Hin'). rewrite forallb_forall in Hwk.
      specialize (Hwk _ Hin0). simpl in Hwk. try rewrite bytes_eqb_refl in Hwk. now apply fid_beq_eq in Hwk. }
    destruct (Hraw _ _ _ _ _ _ _ Hin' Hc') as (_ & Hcr & Ht). rewrite Hweq. now apply Hval.
  - unfold get_str. destruct (getf F_Type fs) as [v|] eqn:Hg; [|reflexivity].
    destruct v as [| | |s| | | | | | | | |]; try reflexivity. destruct s as [|b s]; [reflexivity|]. exfalso.
    destruct (set_field_written_gen E (wenc E) _ _ _ _ _ Hsok fs d (FStr (b :: s)) Hd) as (_ & key & cn & c & gf & g & fl & pos & Hi & Hc & _ & Hk);
      [now rewrite Hdf|apply (Hshape d _ Hd); now rewrite Hdf|discriminate|].
    rewrite Hdf in Hi. destruct (Hraw _ _ _ _ _ _ _ Hi Hc) as (-> & _ & _). congruence.
Qed.
End Obj.

(* ---- decoding a struct *)
Lemma getf_nlv_base f (nl : list fid) :
  getf f (map (fun g => (g, FNlv (Some []))) nl) = None \/ getf f (map (fun g => (g, FNlv (Some []))) nl) = Some (FNlv (Some [])).
Proof.
  induction nl as [|g r IH]; simpl; [now left|]. destruct (fid_beq f g); [now right|exact IH].
Qed.

(* whatever the generated constructor table says: a fresh value holds nothing but empty language lists and a type name *)
Lemma getf_fresh f ty :
  getf f (fresh_fields E ty) = None \/ getf f (fresh_fields E ty) = Some (FNlv (Some [])) \/
  (f = F_Type /\ exists t, t <> [] /\ getf f (fresh_fields E ty) = Some (FStr t)).
Proof.
  unfold fresh_fields, run_presets.
  destruct (fold_left (preset_step) _ _) as [[typ tset] nl].
  pose proof (getf_nlv_base f nl) as Hb.
  destruct tset as [t|]; [|tauto].
  destruct (fid_beq F_Type f) eqn:Hf.
  - apply fid_beq_eq in Hf. subst f. rewrite getf_setf_same. destruct t as [|b r]; simpl; [now left|].
    right. right. split; [reflexivity|]. exists (b :: r). split; [discriminate|reflexivity].
  - apply fid_beq_false in Hf. rewrite (getf_setf_other F_Type f _ _ Hf). tauto.
Qed.

Lemma route_fn k ty :
  item_route_ok E k = true -> sw_mentions (ge_sw_dec E) ty = true -> dec_kind E ty = Some k ->
  dec_fn_item E ty = dec_fn_method E k.
Proof.
  unfold item_route_ok, sw_mentions. intros Hr Hm Hd.
  apply existsb_exists in Hm. destruct Hm as [c [Hc Hn]]. apply existsb_exists in Hn. destruct Hn as [n [Hn He]].
  apply bytes_eqb_eq in He. subst n.
  rewrite forallb_forall in Hr. specialize (Hr _ Hc). rewrite forallb_forall in Hr. specialize (Hr _ Hn).
  rewrite Hd in Hr. simpl in Hr. rewrite kind_beq_refl in Hr. now apply bytes_eqb_eq in Hr.
Qed.

Lemma kind_shape k fs :
  (forall f v, In (f, v) fs -> match ftype E k f with Some t => shape_ok t v | None => true end = true /\ wf_gob_fval E v = true) ->
  forall d v, In d (ge_layout E k) -> getf (fd_fid d) fs = Some v -> shape_ok (fd_type d) v = true.
Proof.
  intros Hfs d v Hd Hg. destruct (Hfs _ _ (getf_In _ _ _ Hg)) as [Hs _]. now rewrite (ftype_layout k d Hd) in Hs.
Qed.

Lemma kind_str k fs :
  (forall d v, In d (ge_layout E k) -> getf (fd_fid d) fs = Some v -> shape_ok (fd_type d) v = true) ->
  forall d key cn gf g fl pos cw s,
    In d (ge_layout E k) -> In (GW (fd_fid d) key cn gf g fl pos) (wtable E k) -> wcodec_of cn = Some cw -> is_item_codec cw = true ->
    getf (fd_fid d) fs = Some (FStr s) -> s = [] \/ iri_nilish s = false.
Proof.
  intros Hshape d key cn gf g fl pos cw s Hd Hin Hc Hic Hg. exfalso.
  destruct (kind_struct_ok k) as [Hsok _].
  destruct (field_parts _ _ _ _ _ Hsok d Hd) as (Hwok & _). rewrite forallb_forall in Hwok. specialize (Hwok _ Hin).
  simpl in Hwok. rewrite fid_beq_refl, Hc in Hwok.
  apply andb_true_iff in Hwok. destruct Hwok as [H1 _]. apply andb_true_iff in H1. destruct H1 as [_ H1].
  apply andb_true_iff in H1. destruct H1 as [Hfit _].
  pose proof (Hshape d _ Hd Hg) as Hs. destruct cw; try discriminate; destruct (fd_type d); discriminate.
Qed.

Lemma on_canon k out d : In d (ge_layout E k) -> ON (canon_fields E k out) (fd_fid d) = ON out (fd_fid d).
Proof.
  intros Hd. unfold onorm. rewrite getf_canon; [reflexivity|].
  unfold in_fields. apply existsb_exists. exists d. split; [exact Hd|apply fid_beq_refl].
Qed.

(* gobEncodeItem then gobDecodeItem on a struct, given the round trip of the items nested in it *)
Lemma obj_rt p k fs :
  wf_gob E (IObj p k fs) = true ->
  (forall f v i, In (f, v) fs -> In i (items_of v) -> wf_gob E i = true -> rec_ok E (gdec E) i) ->
  rec_ok E (gdec E) (IObj p k fs).
Proof.
  intros Hwf IH. destruct (wf_obj_parts _ _ _ Hwf) as [Hts Hfs].
  destruct whole_parts as (_ & Hleaves & _ & _ & _ & Hep).
  destruct (kind_struct_ok k) as [Hsok Hroute].
  pose proof (kind_shape k fs Hfs) as Hshape.
  assert (Hrec : forall d v i, In d (ge_layout E k) -> getf (fd_fid d) fs = Some v -> In i (items_of v) -> rec_ok E (gdec E) i).
  { intros d v i Hd Hg Hi. pose proof (getf_In _ _ _ Hg) as Hin. destruct (Hfs _ _ Hin) as [_ Hw].
    eapply IH; eauto. eapply wf_fval_items; eauto. }
  pose proof (kind_str k fs Hshape) as Hstr.
  pose proof Hts as Hts0. unfold type_selects in Hts.
  apply andb_true_iff in Hts. destruct Hts as [Hts _]. apply andb_true_iff in Hts. destruct Hts as [Hts Hfresh].
  apply andb_true_iff in Hts. destruct Hts as [Hts Hment]. apply andb_true_iff in Hts. destruct Hts as [Htyper Hdec].
  apply okind_eqb_eq in Htyper. apply okind_eqb_eq in Hdec. apply bytes_eqb_eq in Hfresh.
  set (ty := get_str F_Type fs) in *. set (init := fresh_fields E ty) in *.
  assert (Hinit : forall d, In d (ge_layout E k) ->
            cur_ok (getf (fd_fid d) init) \/
            (getf (fd_fid d) init = getf (fd_fid d) fs /\
             forall key cn gf g fl pos, In (GW (fd_fid d) key cn gf g fl pos) (wtable E k) -> raw_codec cn = true)).
  { intros d Hd. destruct (getf_fresh (fd_fid d) ty) as [H|[H|(Hf & t & Hne & H)]].
    - left. left. exact H.
    - left. right. exact H.
    - right. split.
      + fold init in H. rewrite H, Hf.
        assert (Ht : t = ty). { rewrite <- Hfresh. unfold get_str. rewrite <- Hf, H. reflexivity. }
        subst t. unfold ty, get_str in *. destruct (getf F_Type fs) as [v|]; [|congruence].
        destruct v; congruence.
      + intros key cn gf g fl pos Hin.
        destruct (field_parts _ _ _ _ _ Hsok d Hd) as (Hwok & _). rewrite forallb_forall in Hwok. specialize (Hwok _ Hin).
        simpl in Hwok. rewrite fid_beq_refl, Hf in Hwok. simpl in Hwok.
        apply andb_true_iff in Hwok. destruct Hwok as [_ H2]. apply andb_true_iff in H2. now destruct H2. }
  destruct (struct_rt E (gdec E) (wenc E) (rdec E (gdec E)) wcodec_fits (pair_ok true)
              (codec_pair_sound E Hleaves Hep whole_codecs whole_enc_item (gdec E) nil_ok) (rdec_indep E (gdec E))
              _ _ _ Hsok fs nil_ok init Hshape Hrec Hstr Hinit) as [out [Hout Hf]].
  unfold rec_ok. rewrite genc_obj, (enc_struct_obj k fs Hts0). unfold enc_obj, enc_map_gen.
  pose proof (type_on_wire k fs Hshape) as Htw.
  destruct (gmap_gen (wenc E) (wtable E k) (pre_fields E fs)) as [mm has] eqn:Hg.
  destruct has.
  - rewrite gdec_unfold. unfold dec_step. rewrite (sniff_map E whole_codecs (gdec E) _ sniff_here).
    unfold dec_object. simpl in Htw. rewrite Htw. fold ty. rewrite Htyper. fold init. rewrite Hfresh, Hdec, kind_beq_refl.
    rewrite (route_fn k ty Hroute Hment Hdec). change (rflatten E flatten_fuel (dec_fn_method E k)) with (rtable_method E k).
    simpl in Hout. unfold gunmap. rewrite Hout. simpl.
    eexists. split; [reflexivity|].
    rewrite !norm_obj. unfold norm_fields.
    rewrite (reorder_ext _ _ _ (canon_fields E k out) fs); [reflexivity|].
    intros d Hd. rewrite on_canon by exact Hd. now apply Hf.
  - destruct gdec_empty as [y [Hy Hn]]. exists y. split; [exact Hy|]. rewrite Hn. symmetry.
    rewrite norm_obj. unfold norm_fields. rewrite reorder_unset; [reflexivity|].
    intros d Hd. eapply (nodata_unset E (wenc E)); eauto. now rewrite Hg.
Qed.

(* ---- lists and IRI lists *)
Lemma genc_items p l : genc E (IItems p (Some l)) = WList (map (genc E) l).
Proof. apply GobCodecP.genc_items, whole_enc_item. Qed.

Lemma norm_items p l :
  N (IItems p (Some l)) = match l with [] => INil | _ => IItems false (Some (map N l)) end.
Proof.
  destruct l as [|a r]; [reflexivity|].
  change (N (IItems p (Some (a :: r)))) with
    (IItems false (Some ((fix go (l : list item) : list item := match l with [] => [] | x :: r => N x :: go r end) (a :: r)))).
  reflexivity.
Qed.

Lemma dec_iris_wenc l : dec_iris (wenc_iris l) = Ok l.
Proof.
  destruct l as [|a r]; [reflexivity|]. unfold wenc_iris. cbn [dec_iris]. f_equal.
  rewrite map_map. induction (a :: r) as [|x r' IH]; [reflexivity|]. simpl. now rewrite wbg_wraw, IH.
Qed.

Lemma iris_ok p l : rec_ok E (gdec E) (IIris p l).
Proof.
  unfold rec_ok.
  assert (Hcat : forall p' l0, genc E (IIris p' l0) = WCat (WOpaque (wenc_iris (olist l0))) (WList (map wraw (olist l0))) ->
                 exists i', gdec E (genc E (IIris p' l0)) = Ok i' /\ N i' = N (IIris p' l0)).
  { intros p' l0 ->. rewrite gdec_unfold. unfold dec_step.
    rewrite (sniff_iris E whole_codecs (gdec E) _ sniff_here _ _ _ (dec_iris_wenc _)).
    eexists. split; [reflexivity|]. destruct l0 as [[|a r]|]; reflexivity. }
  assert (Hg : forall p' l0, is_nil (IIris p' l0) = false ->
            genc E (IIris p' l0) = WCat (WOpaque (wenc_iris (olist l0))) (WList (map wraw (olist l0)))).
  { intros p' l0 Hn. rewrite <- (enc_iris E whole_codecs). now apply (genc_iris E whole_enc_item). }
  destruct p; [apply Hcat; apply Hg; reflexivity|]. destruct l as [l|]; [apply Hcat; apply Hg; reflexivity|].
  now apply nilish_ok.
Qed.

(* ------------------------------------------------------------------ the whole-value theorem *)
Theorem gob_roundtrip : forall x, wf_gob E x = true -> rec_ok E (gdec E) x.
Proof.
  pose proof whole_enc_item as Henc.
  apply (item_ind3 (fun x => wf_gob E x = true -> rec_ok E (gdec E) x)).
  - intros _. apply nil_ok.
  - intros k _. now apply nilish_ok.
  - (* an IRI *)
    intros p s _. unfold rec_ok.
    assert (Hn : N (IIri p s) = if iri_nilish s then INil else IIri false s) by reflexivity.
    rewrite Hn. destruct (iri_nilish s) eqn:Hs.
    + assert (genc E (IIri p s) = WEmpty) as ->.
      { apply (genc_nil E Henc). change (is_nil (IIri p s)) with (iri_nilish s). exact Hs. }
      apply gdec_empty.
    + assert (genc E (IIri p s) = WRaw s) as ->.
      { rewrite (genc_iri E Henc) by (change (is_nil (IIri p s)) with (iri_nilish s); exact Hs).
        destruct s as [|b r]; [discriminate|]. reflexivity. }
      rewrite gdec_unfold. unfold dec_step. rewrite (sniff_raw E whole_codecs (gdec E) _ sniff_here).
      eexists. split; [reflexivity|]. change (N (IIri false s)) with (if iri_nilish s then INil else IIri false s). now rewrite Hs.
  - intros p k fs IH Hwf. apply obj_rt; [exact Hwf|]. intros f v i Hin Hi Hw. eapply IH; eauto.
  - (* a nil item list *)
    intros p _. destruct p.
    + unfold rec_ok. rewrite (genc_items_none E Henc).
      rewrite gdec_unfold. unfold dec_step. rewrite (sniff_list E (gdec E) _ sniff_here [] [] eq_refl).
      eexists. split; reflexivity.
    + now apply nilish_ok.
  - (* an item list *)
    intros p l IH Hwf. unfold rec_ok. rewrite genc_items.
    destruct (omapM_rec E (gdec E) l) as [l' [Hl Hm]].
    { apply Forall_forall. intros x Hx. apply IH; [exact Hx|]. eapply wf_items_parts; eauto. }
    rewrite gdec_unfold. unfold dec_step. rewrite (sniff_list E (gdec E) _ sniff_here _ _ Hl).
    eexists. split; [reflexivity|]. rewrite !norm_items.
    destruct l, l'; try discriminate Hm; [reflexivity|now rewrite Hm].
  - (* an IRI list *)
    intros p l _. apply iris_ok.
Qed.

(* ------------------------------------------------------------------ T.GobEncode / ( *T).GobDecode *)
(* the method route: no type-name condition on the outermost struct *)
Theorem gob_method_roundtrip k fs :
  (forall f v, In (f, v) fs -> match ftype E k f with Some t => shape_ok t v | None => true end = true /\ wf_gob_fval E v = true) ->
  exists out, gdec_k E k (genc_k E k fs) = Ok out /\
              norm_fields (ge_layout E) (ge_layout_endpoints E) k out = norm_fields (ge_layout E) (ge_layout_endpoints E) k fs.
Proof.
  intros Hfs. destruct whole_parts as (_ & Hleaves & _ & _ & _ & Hep).
  destruct (kind_struct_ok k) as [Hsok _].
  pose proof (kind_shape k fs Hfs) as Hshape.
  assert (Hrec : forall d v i, In d (ge_layout E k) -> getf (fd_fid d) fs = Some v -> In i (items_of v) -> rec_ok E (gdec E) i).
  { intros d v i Hd Hg Hi. pose proof (getf_In _ _ _ Hg) as Hin. destruct (Hfs _ _ Hin) as [_ Hw].
    apply gob_roundtrip. eapply wf_fval_items; eauto. }
  pose proof (kind_str k fs Hshape) as Hstr.
  destruct (struct_rt E (gdec E) (wenc E) (rdec E (gdec E)) wcodec_fits (pair_ok true)
              (codec_pair_sound E Hleaves Hep whole_codecs whole_enc_item (gdec E) nil_ok) (rdec_indep E (gdec E))
              _ _ _ Hsok fs nil_ok [] Hshape Hrec Hstr) as [out [Hout Hf]].
  { intros d Hd. left. now left. }
  unfold genc_k, enc_obj, enc_map_gen. rewrite gdec_k_unfold.
  destruct (gmap_gen (wenc E) (wtable E k) (pre_fields E fs)) as [mm has] eqn:Hg.
  destruct has.
  - simpl in Hout. cbn [gd_map wfirst obind]. unfold gunmap. rewrite Hout. cbn [obind].
    eexists. split; [reflexivity|]. unfold norm_fields.
    apply reorder_ext. intros d Hd. rewrite on_canon by exact Hd. now apply Hf.
  - exists []. split; [reflexivity|]. unfold norm_fields. symmetry.
    rewrite reorder_unset; [|intros d Hd; eapply (nodata_unset E (wenc E)); eauto; now rewrite Hg].
    symmetry. apply reorder_unset. intros d Hd. reflexivity.
Qed.

(* ------------------------------------------------------------------ the per-property statements, for any decoder of nested items *)
Lemma kind_str1 k fs d :
  In d (ge_layout E k) -> (forall v, getf (fd_fid d) fs = Some v -> shape_ok (fd_type d) v = true) ->
  forall key cn gf g fl pos cw s,
    In (GW (fd_fid d) key cn gf g fl pos) (wtable E k) -> wcodec_of cn = Some cw -> is_item_codec cw = true ->
    getf (fd_fid d) fs = Some (FStr s) -> s = [] \/ iri_nilish s = false.
Proof.
  intros Hd Hshape key cn gf g fl pos cw s Hin Hc Hic Hg. exfalso.
  destruct (kind_struct_ok k) as [Hsok _].
  destruct (field_parts _ _ _ _ _ Hsok d Hd) as (Hwok & _). rewrite forallb_forall in Hwok. specialize (Hwok _ Hin).
  simpl in Hwok. rewrite fid_beq_refl, Hc in Hwok.
  apply andb_true_iff in Hwok. destruct Hwok as [H1 _]. apply andb_true_iff in H1. destruct H1 as [_ H1].
  apply andb_true_iff in H1. destruct H1 as [Hfit _].
  pose proof (Hshape _ Hg) as Hs. destruct cw; try discriminate; destruct (fd_type d); discriminate.
Qed.

(* T.GobEncode then T.GobDecode into a zero value: a property (Endpoints included) comes back with the same
   normal form, provided the items nested in it do ([rec_ok]) *)
Lemma field_rt_kind k rec fs d out :
  rec_ok E rec INil -> In d (ge_layout E k) ->
  (forall v, getf (fd_fid d) fs = Some v -> shape_ok (fd_type d) v = true) ->
  (forall v i, getf (fd_fid d) fs = Some v -> In i (items_of v) -> rec_ok E rec i) ->
  gunmap E rec (rtable_method E k) (fst (gmap E (wtable E k) (pre_fields E fs))) [] = Ok out ->
  ON out (fd_fid d) = ON fs (fd_fid d).
Proof.
  intros Hnil Hd Hshape Hrec Hun. destruct whole_parts as (_ & Hleaves & _ & _ & _ & Hep).
  destruct (kind_struct_ok k) as [Hsok _].
  apply (field_rt_gen E rec (wenc E) (rdec E rec) wcodec_fits (pair_ok true)
           (codec_pair_sound E Hleaves Hep whole_codecs whole_enc_item rec Hnil) _ _ _ Hsok fs Hnil [] d out Hd).
  - split; [exact Hshape|split; [exact Hrec|]]. now apply kind_str1.
  - left. now left.
  - exact Hun.
Qed.

Lemma set_field_written_kind k fs d v :
  In d (ge_layout E k) -> getf (fd_fid d) fs = Some v -> shape_ok (fd_type d) v = true -> NV v <> None ->
  snd (gmap E (wtable E k) (pre_fields E fs)) = true /\
  exists key cn c gf g flag pos,
    In (GW (fd_fid d) key cn gf g flag pos) (wtable E k) /\ wcodec_of cn = Some c /\ wcodec_fits c (fd_type d) = true /\
    aget key (fst (gmap E (wtable E k) (pre_fields E fs))) = Some (wenc E c (Some (pre_fval E v))).
Proof.
  destruct (kind_struct_ok k) as [Hsok _]. apply (set_field_written_gen E (wenc E) _ _ _ _ _ Hsok fs d v).
Qed.

(* every encoder / decoder pair the table condition accepts is inverse up to the normal form *)
Lemma codec_pairs_kind rec t cw cr (ov : option fval) cur :
  pair_ok true t cw cr = true ->
  (forall v, ov = Some v -> shape_ok t v = true) ->
  (forall v i, ov = Some v -> In i (items_of v) -> rec_ok E rec i) ->
  rec_ok E rec INil ->
  (cw <> CwIri -> cw <> CwType -> cw <> CwRawBytes -> cur_ok cur) ->
  (t = TItems -> cw <> CwItems -> exists l, ov = Some (FItems (Some l))) ->
  exists v', rdec E rec cr cur (wenc E cw (option_map (pre_fval E) ov)) = Ok v' /\
             NV v' = match ov with Some v => NV v | None => None end.
Proof.
  intros Hp Hshape Hrec Hnil Hcur Hitems. destruct whole_parts as (_ & Hleaves & _ & _ & _ & Hep).
  apply (codec_pair_sound E Hleaves Hep whole_codecs whole_enc_item rec Hnil t cw cr ov cur Hp Hshape Hrec Hnil Hcur).
  - intros Ht Hic. apply Hitems; [exact Ht|]. intros ->. discriminate.
  - intros Hic s Hs. exfalso. specialize (Hshape _ Hs).
    destruct cw; try discriminate; destruct t; try discriminate.
Qed.
End Whole.

(* the sniffing lemma in one statement *)
Lemma sniffing_all (E : gob_env) (Hc : codecs_ok E = true) (rec : wire -> outcome item) (l : list gsniff) : sniff_ok l = true ->
    (exists y, sniff_run E rec l WEmpty = Ok y /\ norm_item (ge_layout E) (ge_layout_endpoints E) y = INil) /\
    (forall b, sniff_run E rec l (WRaw b) = Ok (IIri false b)) /\
    (forall ws l', omapM rec ws = Ok l' -> sniff_run E rec l (WList ws) = Ok (IItems false (Some l'))) /\
    (forall i x ls, dec_iris i = Ok ls -> sniff_run E rec l (WCat (WOpaque i) x) = Ok (IIris false (Some ls))) /\
    (forall mm, sniff_run E rec l (WMap mm) = dec_object E rec (B "type") mm).
Proof.
  intros H. split; [exact (sniff_empty E Hc rec l H)|]. split; [exact (sniff_raw E Hc rec l H)|].
  split; [exact (sniff_list E rec l H)|]. split; [exact (sniff_iris E Hc rec l H)|exact (sniff_map E Hc rec l H)].
Qed.

Lemma decoder_fixpoint (E : gob_env) (w : wire) :
    gdec E w = dec_step E (gdec E) w /\
    forall n m, wire_depth w < n -> wire_depth w < m -> dec_fuel E n w = dec_fuel E m w.
Proof. split; [apply gdec_unfold|intros n m; apply dec_fuel_indep]. Qed.
