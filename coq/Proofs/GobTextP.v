(* C06, gob clause, on the gob wire model of C03 (Model/Gob.v) instead of the identity on []kv.

   1. The codec of language values itself, for ALL lists (any bytes in tags and texts, repeated tags, empty
      texts, empty tags): NaturalLanguageValues.GobEncode / GobDecode, the helper
      gobDecodeNaturalLanguageValues, LangRefValue.GobEncode / GobDecode and the single-string codecs
      (Content, MimeType, LangRef), as interpreted from the generated statement lists, for every table set
      satisfying codecs_ok.
   2. The five text positions of a struct value: the unset/empty normal form keeps every text byte for byte
      with tags and order ([text_of_norm]), hence C03's round trip gives them back ([gob_text_item],
      [gob_text_method]).
   3. The small model of Model/Text.v (gob_encode_nl / gob_decode_nl: encoding/gob as the identity on []kv)
      is the NaturalLanguageValues codec of the wire model ([text_model_is_wire]). *)
From AP.Model Require Import Prelude Vocab Bytes Layout Pred Dispatch GobTables Gob GobCheck GobNorm GobWhole.
From AP.Proofs Require Import NlvP ViewsP GobCodecP GobP GobLeafP GobWireP GobRtP.
From AP.Model Require Text.

(* ------------------------------------------------------------------ 1. the codecs of texts *)
Section Codecs.
Variable E : gob_env.
Hypothesis Hc : codecs_ok E = true.

(* NaturalLanguageValues: GobDecode APPENDS what GobEncode wrote to the receiver; an empty list writes no
   bytes, and then the receiver stays as it is (nil stays nil) *)
Theorem nlv_codec_rt (l : list (bytes * bytes)) (cur : nlv) :
  lr_method E n_nlv_dec (LvNlv cur) (lw_exec E n_nlv_enc (LvNlv (Some l))) =
  Ok (LvNlv (match l with [] => cur | _ => Some (olist cur ++ l) end)).
Proof.
  rewrite (enc_nlv E Hc), (dec_nlv E Hc). destruct l as [|x r]; reflexivity.
Qed.

(* into a nil or an empty receiver: the list itself, byte for byte, tags and order kept, nothing dropped,
   nothing merged *)
Corollary nlv_codec_exact (l : list (bytes * bytes)) (cur : nlv) : l <> [] -> olist cur = [] ->
  lr_method E n_nlv_dec (LvNlv cur) (lw_exec E n_nlv_enc (LvNlv (Some l))) = Ok (LvNlv (Some l)).
Proof.
  intros Hl Hcur. rewrite nlv_codec_rt. destruct l as [|x r]; [contradiction|]. now rewrite Hcur.
Qed.

(* a nil list is written like an empty one *)
Lemma nlv_codec_nil : lw_exec E n_nlv_enc (LvNlv None) = WEmpty /\ lw_exec E n_nlv_enc (LvNlv (Some [])) = WEmpty.
Proof. rewrite !(enc_nlv E Hc). split; reflexivity. Qed.

(* the helper used for content, summary, preferredUsername: a fresh empty list, then the method *)
Theorem nlv_helper_rt (l : list (bytes * bytes)) :
  lr_helper E n_nlv_fn (lw_exec E n_nlv_enc (LvNlv (Some l))) = Ok (LvNlv (Some l)).
Proof.
  rewrite (enc_nlv E Hc), (dec_nlv_fn E Hc). destruct l as [|x r]; reflexivity.
Qed.

(* one language value: LangRefValue.GobEncode writes nothing for the zero value, else kv{Ref, Value} *)
Theorem lrv_codec_rt (k v a b : bytes) :
  lr_method E n_lrv_dec (LvKv a b) (lw_exec E n_lrv_enc (LvKv k v)) =
  Ok (match k, v with [], [] => LvKv a b | _, _ => LvKv k v end).
Proof.
  rewrite (enc_lrv E Hc), (dec_lrv E Hc). destruct k, v; reflexivity.
Qed.

(* one text (Content; the same body for MimeType and LangRef): any bytes *)
Theorem content_codec_rt (s cur : bytes) :
  lr_method E n_content_dec (LvStr cur) (lw_exec E n_content_enc (LvStr s)) = Ok (LvStr (match s with [] => cur | _ => s end)).
Proof.
  rewrite (enc_content E Hc), (dec_content E Hc). destruct s; reflexivity.
Qed.

(* the table codecs of the property maps, through [wenc0] / [rdec0] *)
Theorem nlv_field_rt rec (l : list (bytes * bytes)) (cur : option fval) :
  rdec0 E rec CrNlvMethod cur (wenc0 E CwNlv (Some (PLeaf (FNlv (Some l))))) =
  Ok (FNlv (match l with [] => cur_nlv cur | _ => Some (olist (cur_nlv cur) ++ l) end)) /\
  rdec0 E rec CrNlvFn cur (wenc0 E CwNlv (Some (PLeaf (FNlv (Some l))))) = Ok (FNlv (Some l)).
Proof.
  cbn [wenc0 rdec0]. rewrite nlv_codec_rt, nlv_helper_rt. split; reflexivity.
Qed.
End Codecs.

(* ------------------------------------------------------------------ 2. the five positions *)
Definition pos_field (p : Text.pos) : fid :=
  match p with
  | Text.PName => F_Name | Text.PSummary => F_Summary | Text.PContent => F_Content
  | Text.PPreferredUsername => F_PreferredUsername | Text.PSourceContent => F_Source
  end.

(* the language values a field list holds at a position: (tag, text) pairs in order; [] = none *)
Definition text_of (p : Text.pos) (fs : list (fid * fval)) : list (bytes * bytes) :=
  match p with
  | Text.PSourceContent => match getf F_Source fs with Some (FSource _ c) => olist c | _ => [] end
  | _ => olist (get_nlv (pos_field p) fs)
  end.

Definition item_text (p : Text.pos) (i : item) : list (bytes * bytes) :=
  match i with IObj _ _ fs => text_of p fs | _ => [] end.

Section Reorder.
Variable L : kind -> list fdecl.
Variable LE : list fdecl.
Notation NV := (norm_fval L LE).
Notation ON := (onorm L LE).

Lemma getf_reorder_none (ds : list fdecl) nfs f :
  existsb (fid_beq f) (map fd_fid ds) = false -> getf f (reorder ds nfs) = None.
Proof.
  unfold reorder. induction ds as [|d r IH]; simpl; intros H; [reflexivity|].
  apply orb_false_iff in H. destruct H as [Hd Hr].
  destruct (fget (fd_fid d) nfs) as [[v|]|]; simpl; try rewrite Hd; auto.
Qed.

Lemma getf_reorder (ds : list fdecl) nfs d :
  nodup_fids (map fd_fid ds) = true -> In d ds ->
  getf (fd_fid d) (reorder ds nfs) = match fget (fd_fid d) nfs with Some (Some v) => Some v | _ => None end.
Proof.
  unfold reorder. induction ds as [|a r IH]; simpl; intros Hn Hd; [destruct Hd|].
  apply andb_true_iff in Hn. destruct Hn as [Hna Hn]. apply negb_true_iff in Hna.
  destruct Hd as [->|Hd].
  - destruct (fget (fd_fid d) nfs) as [[v|]|]; simpl; try rewrite fid_beq_refl; try reflexivity;
      now apply (getf_reorder_none r nfs).
  - assert (Hne : fid_beq (fd_fid d) (fd_fid a) = false).
    { destruct (fid_beq (fd_fid d) (fd_fid a)) eqn:Heq; [|reflexivity]. apply fid_beq_eq in Heq.
      assert (existsb (fid_beq (fd_fid a)) (map fd_fid r) = true); [|congruence].
      apply existsb_exists. exists (fd_fid d). split; [now apply in_map|]. rewrite Heq. apply fid_beq_refl. }
    rewrite <- (IH Hn Hd). destruct (fget (fd_fid a) nfs) as [[v|]|]; simpl; try rewrite Hne; reflexivity.
Qed.

(* a property of the normal form of a struct is the normal form of the property *)
Lemma getf_norm_fields k fs d :
  nodup_fids (map fd_fid (L k)) = true -> In d (L k) ->
  getf (fd_fid d) (norm_fields L LE k fs) = ON fs (fd_fid d).
Proof.
  intros Hn Hd. unfold norm_fields. rewrite (getf_reorder _ _ d Hn Hd), fget_norm_pairs. unfold onorm.
  destruct (getf (fd_fid d) fs) as [v|]; simpl; [|reflexivity]. destruct (NV v); reflexivity.
Qed.

(* what a normal form says about the language values of a property: exactly the list, for ANY field list *)
Definition nlv_of_norm (o : option fval) : list (bytes * bytes) := match o with Some (FNlv (Some l)) => l | _ => [] end.
Definition src_of_norm (o : option fval) : list (bytes * bytes) := match o with Some (FSource _ (Some l)) => l | _ => [] end.

Lemma nlv_of_onorm f fs : nlv_of_norm (ON fs f) = olist (get_nlv f fs).
Proof.
  unfold onorm, get_nlv. destruct (getf f fs) as [v|]; [|reflexivity].
  destruct v as [i|l|l|s|t|d|n|z|b|m|mt c|e|id owner pem]; try reflexivity.
  - change (NV (FItem i)) with (match norm_item L LE i with INil => None | i' => Some (FItem i') end). destruct (norm_item L LE i); reflexivity.
  - destruct l as [[|x r]|]; reflexivity.
  - destruct l as [[|x r]|]; reflexivity.
  - destruct s; reflexivity.
  - change (NV (FTime t)) with (if vtime_is_zero t then None else Some (FTime t)). destruct (vtime_is_zero t); reflexivity.
  - change (NV (FDur d)) with (if (d =? 0)%Z then None else Some (FDur d)). destruct (d =? 0)%Z; reflexivity.
  - change (NV (FUint n)) with (if (n =? 0)%N then None else Some (FUint n)). destruct (n =? 0)%N; reflexivity.
  - change (NV (FInt z)) with (if (z =? 0)%Z then None else Some (FInt z)). destruct (z =? 0)%Z; reflexivity.
  - destruct b; reflexivity.
  - change (NV (FFloat m)) with (if (m =? 0)%Z then None else Some (FFloat m)). destruct (m =? 0)%Z; reflexivity.
  - destruct mt; destruct c as [[|x r]|]; reflexivity.
  - destruct e as [e|]; [|reflexivity]. rewrite norm_endpoints. destruct (reorder_items LE (norm_endp L LE e)); reflexivity.
  - destruct id; destruct owner; destruct pem; reflexivity.
Qed.

Lemma src_of_onorm fs :
  src_of_norm (ON fs F_Source) = match getf F_Source fs with Some (FSource _ c) => olist c | _ => [] end.
Proof.
  unfold onorm. destruct (getf F_Source fs) as [v|]; [|reflexivity].
  destruct v as [i|l|l|s|t|d|n|z|b|m|mt c|e|id owner pem]; try reflexivity.
  - change (NV (FItem i)) with (match norm_item L LE i with INil => None | i' => Some (FItem i') end). destruct (norm_item L LE i); reflexivity.
  - destruct l as [[|x r]|]; reflexivity.
  - destruct l as [[|x r]|]; reflexivity.
  - destruct s; reflexivity.
  - change (NV (FTime t)) with (if vtime_is_zero t then None else Some (FTime t)). destruct (vtime_is_zero t); reflexivity.
  - change (NV (FDur d)) with (if (d =? 0)%Z then None else Some (FDur d)). destruct (d =? 0)%Z; reflexivity.
  - change (NV (FUint n)) with (if (n =? 0)%N then None else Some (FUint n)). destruct (n =? 0)%N; reflexivity.
  - change (NV (FInt z)) with (if (z =? 0)%Z then None else Some (FInt z)). destruct (z =? 0)%Z; reflexivity.
  - destruct b; reflexivity.
  - change (NV (FFloat m)) with (if (m =? 0)%Z then None else Some (FFloat m)). destruct (m =? 0)%Z; reflexivity.
  - destruct mt; destruct c as [[|x r]|]; reflexivity.
  - destruct e as [e|]; [|reflexivity]. rewrite norm_endpoints. destruct (reorder_items LE (norm_endp L LE e)); reflexivity.
  - destruct id; destruct owner; destruct pem; reflexivity.
Qed.

(* the texts of a position, read from the normal form of the property *)
Definition text_of_onorm (p : Text.pos) (o : option fval) : list (bytes * bytes) :=
  match p with Text.PSourceContent => src_of_norm o | _ => nlv_of_norm o end.

Lemma text_of_onorm_ok p fs : text_of_onorm p (ON fs (pos_field p)) = text_of p fs.
Proof. destruct p; unfold text_of_onorm, text_of, pos_field; first [apply nlv_of_onorm | apply src_of_onorm]. Qed.

(* two field lists whose property at the position has the same normal form hold the same texts there *)
Lemma text_of_same_norm p a b : ON a (pos_field p) = ON b (pos_field p) -> text_of p a = text_of p b.
Proof. intros H. rewrite <- !text_of_onorm_ok. now rewrite H. Qed.

(* the unset/empty normal form of a struct holds, at the position, exactly the texts: byte for byte, tags and
   order (for ANY field list: no UTF-8 condition, repeated tags and empty texts included) *)
Theorem text_in_norm p k fs d :
  nodup_fids (map fd_fid (L k)) = true -> In d (L k) -> fd_fid d = pos_field p ->
  text_of_onorm p (getf (pos_field p) (norm_fields L LE k fs)) = text_of p fs.
Proof.
  intros Hn Hd Hf. rewrite <- Hf, (getf_norm_fields k fs d Hn Hd), Hf. apply text_of_onorm_ok.
Qed.

Lemma same_norm_fields_text p k a b d :
  nodup_fids (map fd_fid (L k)) = true -> In d (L k) -> fd_fid d = pos_field p ->
  norm_fields L LE k a = norm_fields L LE k b -> text_of p a = text_of p b.
Proof.
  intros Hn Hd Hf H. rewrite <- (text_in_norm p k a d Hn Hd Hf), <- (text_in_norm p k b d Hn Hd Hf). now rewrite H.
Qed.

Lemma text_set_norm_set p k fs d :
  nodup_fids (map fd_fid (L k)) = true -> In d (L k) -> fd_fid d = pos_field p ->
  text_of p fs <> [] -> norm_fields L LE k fs <> [].
Proof.
  intros Hn Hd Hf Ht Hnil. apply Ht. rewrite <- (text_in_norm p k fs d Hn Hd Hf), Hnil. destruct p; reflexivity.
Qed.
End Reorder.

Lemma in_layout_decl E k f : in_layout E k f = true -> exists d, In d (ge_layout E k) /\ fd_fid d = f.
Proof.
  unfold in_layout. rewrite existsb_exists. intros [d [Hd Hf]]. apply fid_beq_eq in Hf. eauto.
Qed.

(* a value whose normal form is a struct is a struct of that kind, with those normal fields *)
Lemma norm_is_obj L LE y k nfs :
  norm_item L LE y = IObj true k nfs -> exists p fs, y = IObj p k fs /\ norm_fields L LE k fs = nfs.
Proof.
  destruct y as [|k0|p s|p k0 fs|p l|p l]; try discriminate.
  - intros H. cbn [norm_item] in H. destruct (iri_nilish s); discriminate H.
  - rewrite norm_obj. destruct (norm_fields L LE k0 fs) eqn:Hn; [discriminate|].
    intros H. injection H as <- <-. exists p, fs. split; [reflexivity|exact Hn].
  - destruct l as [[|x r]|]; discriminate.
  - destruct l as [[|x r]|]; discriminate.
Qed.

Section Positions.
Variable E : gob_env.
Hypothesis Hwhole : gob_whole_ok E = true.
Notation L := (ge_layout E).
Notation LE := (ge_layout_endpoints E).

(* package-level route (GobEncode / GobDecode), a struct of the domain of C03 whose position holds text: the
   decoded value is a struct of the same kind holding, at that position, exactly the texts - byte for byte,
   tags and order preserved.  Corollary of the whole-value round trip. *)
Theorem gob_text_item pt k fs p :
  wf_gob E (IObj pt k fs) = true -> in_layout E k (pos_field p) = true -> text_of p fs <> [] ->
  exists pt' fs', gdec E (genc E (IObj pt k fs)) = Ok (IObj pt' k fs') /\ text_of p fs' = text_of p fs.
Proof.
  intros Hwf Hin Ht. destruct (in_layout_decl E k _ Hin) as [d [Hd Hf]].
  pose proof (layout_nodup E Hwhole k) as Hn.
  destruct (gob_roundtrip E Hwhole _ Hwf) as [y [Hy Hnorm]].
  rewrite (norm_obj L LE pt k fs) in Hnorm.
  pose proof (text_set_norm_set L LE p k fs d Hn Hd Hf Ht) as Hne.
  destruct (norm_fields L LE k fs) as [|e r] eqn:Hnf; [contradiction|].
  destruct (norm_is_obj L LE y k _ Hnorm) as [pt' [fs' [-> Hfs']]].
  exists pt', fs'. split; [exact Hy|]. apply (same_norm_fields_text L LE p k fs' fs d Hn Hd Hf). now rewrite Hfs', Hnf.
Qed.

(* ... and when the position holds no text, nothing comes back there *)
Theorem gob_text_item_unset pt k fs p :
  wf_gob E (IObj pt k fs) = true -> in_layout E k (pos_field p) = true -> text_of p fs = [] ->
  exists y, gdec E (genc E (IObj pt k fs)) = Ok y /\
            forall pt' fs', y = IObj pt' k fs' -> text_of p fs' = [].
Proof.
  intros Hwf Hin Ht. destruct (in_layout_decl E k _ Hin) as [d [Hd Hf]].
  pose proof (layout_nodup E Hwhole k) as Hn.
  destruct (gob_roundtrip E Hwhole _ Hwf) as [y [Hy Hnorm]]. exists y. split; [exact Hy|].
  intros pt' fs' ->. rewrite !(norm_obj L LE) in Hnorm. rewrite <- Ht.
  apply (same_norm_fields_text L LE p k fs' fs d Hn Hd Hf).
  destruct (norm_fields L LE k fs') eqn:H1, (norm_fields L LE k fs) eqn:H2; try discriminate; [reflexivity|].
  injection Hnorm as -> ->. reflexivity.
Qed.

(* method route: T.GobEncode then ( *T).GobDecode into a zero T (= MarshalBinary / UnmarshalBinary), no
   condition on the type name of the struct *)
Theorem gob_text_method k fs p :
  (forall f v, In (f, v) fs -> match ftype E k f with Some t => shape_ok t v | None => true end = true /\ wf_gob_fval E v = true) ->
  in_layout E k (pos_field p) = true ->
  exists out, gdec_k E k (genc_k E k fs) = Ok out /\ text_of p out = text_of p fs.
Proof.
  intros Hfs Hin. destruct (in_layout_decl E k _ Hin) as [d [Hd Hf]].
  pose proof (layout_nodup E Hwhole k) as Hn.
  destruct (gob_method_roundtrip E Hwhole k fs Hfs) as [out [Ho Hnorm]]. exists out. split; [exact Ho|].
  exact (same_norm_fields_text L LE p k out fs d Hn Hd Hf Hnorm).
Qed.
End Positions.

(* ------------------------------------------------------------------ 3. the model of Model/Text.v *)
Definition wire_of_kvs (o : option (list (bytes * bytes))) : wire := match o with None => WEmpty | Some kvs => WKvs kvs end.

(* gob_encode_nl / gob_decode_nl (encoding/gob as the identity on the []kv value) are
   NaturalLanguageValues.GobEncode / GobDecode of the wire model, read into a nil list *)
Theorem text_model_is_wire E : codecs_ok E = true -> forall (l : Nlv.nl),
  lw_exec E n_nlv_enc (LvNlv (Some l)) = wire_of_kvs (Text.gob_encode_nl l) /\
  lr_method E n_nlv_dec (LvNlv None) (wire_of_kvs (Text.gob_encode_nl l)) =
    Ok (LvNlv (match Text.gob_decode_nl (Text.gob_encode_nl l) with [] => None | l' => Some l' end)).
Proof.
  intros Hc l. rewrite (enc_nlv E Hc). destruct l as [|x r]; (split; [reflexivity|]); rewrite (dec_nlv E Hc); reflexivity.
Qed.

(* hence C06_gob's function, on the wire model *)
Theorem text_after_gob_is_wire E : codecs_ok E = true -> forall p (l : Nlv.nl),
  omap (fun v => olist (lv_nlv v)) (lr_method E n_nlv_dec (LvNlv None) (lw_exec E n_nlv_enc (LvNlv (Some l)))) =
  Ok (Text.text_after_gob_roundtrip p l).
Proof.
  intros Hc p l. rewrite (nlv_codec_rt E Hc). unfold Text.text_after_gob_roundtrip, Text.gob_decode_nl, Text.gob_encode_nl.
  destruct l; reflexivity.
Qed.
