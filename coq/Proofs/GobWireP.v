(* The gob decoder model (Model/Gob.v) as a function of the wire alone:
     - a decoding step looks at its recursive argument only on strictly shallower wires ([dec_step_ext]);
     - hence fuel beyond the depth of the wire does not matter ([dec_fuel_indep]), and gobDecodeItem is
       the fixpoint of its step ([gdec_unfold]): fuel is an artefact of the definition;
     - C04: on EVERY wire every entry point returns a value or an error, never a panic outcome, never
       fuel exhaustion ([run_gob_total]), for any tables in which no read statement calls GobDecode
       through a nil *Endpoints ([gob_dec_safe]). *)
From AP.Model Require Import Prelude Vocab Bytes Layout Pred Dispatch GobTables Gob GobTotal.
From AP.Proofs Require Import NlvP ViewsP GobCodecP.
From Coq Require Import Lia.

(* ------------------------------------------------------------------ depth *)
Lemma depth_list_in l x : In x l -> wire_depth x < wire_depth (WList l).
Proof.
  simpl. induction l as [|a r IH]; simpl; [tauto|]. intros [->|H]; [lia|]. specialize (IH H). lia.
Qed.

Lemma depth_aget k m x : aget k m = Some x -> wire_depth x < wire_depth (WMap m).
Proof.
  simpl. induction m as [|[k' v] r IH]; simpl; [discriminate|].
  destruct (bytes_eqb k k'); [intros H; injection H as ->; lia|]. intros H. specialize (IH H). lia.
Qed.

Lemma depth_wfirst w : wire_depth (wfirst w) <= wire_depth w.
Proof. destruct w; simpl; lia. Qed.

Lemma gd_list_depth w l x : gd_list w = Ok l -> In x l -> wire_depth x < wire_depth w.
Proof.
  unfold gd_list. pose proof (depth_wfirst w) as Hd. destruct (wfirst w) eqn:Hw; try discriminate.
  intros H Hin. injection H as ->. pose proof (depth_list_in _ _ Hin). lia.
Qed.

Lemma gd_map_depth w mm k x : gd_map w = Ok mm -> aget k mm = Some x -> wire_depth x < wire_depth w.
Proof.
  unfold gd_map. pose proof (depth_wfirst w) as Hd. destruct (wfirst w) eqn:Hw; try discriminate.
  intros H Hin. injection H as ->. pose proof (depth_aget _ _ _ Hin). lia.
Qed.

(* ------------------------------------------------------------------ a step sees shallower wires only *)
Section Ext.
Variable E : gob_env.
Variables rec rec' : wire -> outcome item.
Variable d : nat.
Hypothesis Hrr : forall x, wire_depth x < d -> rec x = rec' x.

Lemma omapM_ext l : (forall x, In x l -> wire_depth x < d) -> omapM rec l = omapM rec' l.
Proof.
  induction l as [|a r IH]; simpl; intros H; [reflexivity|].
  rewrite (Hrr a) by (apply H; now left). rewrite IH by (intros; apply H; now right). reflexivity.
Qed.

Lemma dec_items_ext w : wire_depth w <= d -> dec_items rec w = dec_items rec' w.
Proof.
  intros Hw. unfold dec_items. destruct (gd_list w) as [l| | |] eqn:Hl; simpl; try reflexivity.
  apply omapM_ext. intros x Hx. pose proof (gd_list_depth _ _ _ Hl Hx). lia.
Qed.

Lemma rdec0_ext c cur w : wire_depth w < d -> rdec0 E rec c cur w = rdec0 E rec' c cur w.
Proof.
  intros Hw. destruct c; simpl; try reflexivity.
  - now rewrite Hrr.
  - rewrite dec_items_ext by lia. reflexivity.
Qed.

Lemma fold_rstep_ext dec dec' tbl mm :
  (forall k x, aget k mm = Some x -> wire_depth x < d) ->
  (forall c cur w, wire_depth w < d -> dec c cur w = dec' c cur w) ->
  forall st, fold_left (rstep_gen dec mm) tbl st = fold_left (rstep_gen dec' mm) tbl st.
Proof.
  intros Hmm Hdd. induction tbl as [|e r IH]; intros st; [reflexivity|]. simpl. rewrite <- IH. f_equal.
  destruct st as [fs| | |]; simpl; try reflexivity.
  destruct e as [f key cn pos| |]; try reflexivity.
  destruct (aget key mm) as [raw|] eqn:Hr; [|reflexivity]. destruct (rcodec_of cn); [|reflexivity].
  rewrite Hdd by (eapply Hmm; eauto). reflexivity.
Qed.

Lemma rdec_leaf_ext n cur w : wire_depth w <= d -> rdec_leaf E rec n cur w = rdec_leaf E rec' n cur w.
Proof.
  intros Hw. unfold rdec_leaf. destruct (gd_map w) as [mm| | |] eqn:Hm; destruct w; simpl; try reflexivity; try discriminate Hm;
    unfold gunmap_gen; apply fold_rstep_ext;
    try (intros k x Hx; pose proof (gd_map_depth _ _ _ _ Hm Hx); lia); intros; now apply rdec0_ext.
Qed.

Lemma rdec_ext c cur w : wire_depth w < d -> rdec E rec c cur w = rdec E rec' c cur w.
Proof.
  intros Hw. destruct c; try (apply rdec0_ext; exact Hw); unfold rdec.
  - unfold rdec_source. rewrite rdec_leaf_ext by lia. reflexivity.
  - unfold rdec_endpoints_method. rewrite rdec_leaf_ext by lia. reflexivity.
  - unfold rdec_endpoints_fn, rdec_endpoints_method. rewrite rdec_leaf_ext by lia. reflexivity.
  - unfold rdec_pubkey. rewrite rdec_leaf_ext by lia. reflexivity.
Qed.

Lemma gunmap_ext tbl mm init :
  (forall k x, aget k mm = Some x -> wire_depth x < d) -> gunmap E rec tbl mm init = gunmap E rec' tbl mm init.
Proof.
  intros Hmm. unfold gunmap, gunmap_gen. apply fold_rstep_ext; [exact Hmm|]. intros. now apply rdec_ext.
Qed.

Lemma dec_object_ext tkey mm :
  (forall k x, aget k mm = Some x -> wire_depth x < d) -> dec_object E rec tkey mm = dec_object E rec' tkey mm.
Proof.
  intros Hmm. unfold dec_object. destruct (typer_kind E _); [|reflexivity].
  destruct (dec_kind E _); [|reflexivity]. destruct (kind_beq _ _); [|reflexivity].
  now rewrite gunmap_ext.
Qed.

Lemma sniff_one_ext s w : wire_depth w <= d -> sniff_one E rec s w = sniff_one E rec' s w.
Proof.
  intros Hw. destruct s as [fn pos|fn tkey always pos|pos|src pos]; simpl; try reflexivity.
  - unfold sniff_try. rewrite dec_items_ext by lia. reflexivity.
  - destruct (bytes_eqb fn fn_as_map); [|reflexivity]. destruct (gd_map w) as [mm| | |] eqn:Hm; try reflexivity.
    destruct (always || has_key tkey mm || has_key (B "id") mm); [|reflexivity].
    rewrite dec_object_ext; [reflexivity|]. intros k x Hx. pose proof (gd_map_depth _ _ _ _ Hm Hx). lia.
Qed.

Lemma sniff_run_ext l w : wire_depth w <= d -> sniff_run E rec l w = sniff_run E rec' l w.
Proof.
  intros Hw. induction l as [|s r IH]; [reflexivity|]. simpl. rewrite sniff_one_ext by exact Hw. now rewrite IH.
Qed.

Lemma dec_step_ext w : wire_depth w <= d -> dec_step E rec w = dec_step E rec' w.
Proof. apply sniff_run_ext. Qed.
End Ext.

(* ------------------------------------------------------------------ fuel *)
Lemma wire_depth_pos w : 1 <= wire_depth w.
Proof. destruct w; simpl; lia. Qed.

(* fuel sufficiency: any fuel above the depth of the wire gives the same result *)
Lemma dec_fuel_indep E : forall n m w, wire_depth w < n -> wire_depth w < m -> dec_fuel E n w = dec_fuel E m w.
Proof.
  induction n as [|n IH]; intros m w Hn Hm; [lia|]. destruct m as [|m]; [lia|]. simpl.
  apply dec_step_ext with (d := wire_depth w); [|lia]. intros x Hx. apply IH; lia.
Qed.

(* gobDecodeItem is the fixpoint of its step *)
Lemma gdec_unfold E w : gdec E w = dec_step E (gdec E) w.
Proof.
  unfold gdec at 1. simpl. apply dec_step_ext with (d := wire_depth w); [|lia].
  intros x Hx. unfold gdec. apply dec_fuel_indep; lia.
Qed.

Lemma gdec_k_unfold E k w :
  gdec_k E k w = match w with
                 | WEmpty => Ok []
                 | _ => obind (gd_map w) (fun mm => obind (gunmap E (gdec E) (rtable_method E k) mm []) (fun fs => Ok (canon_fields E k fs)))
                 end.
Proof.
  assert (Heq : forall mm, gd_map w = Ok mm ->
                 gunmap E (dec_fuel E (S (wire_depth w))) (rtable_method E k) mm [] = gunmap E (gdec E) (rtable_method E k) mm []).
  { intros mm Hm. apply gunmap_ext with (d := wire_depth w).
    - intros x Hx. unfold gdec. apply dec_fuel_indep; lia.
    - intros k0 x Hx. eapply gd_map_depth; eauto. }
  unfold gdec_k. generalize dependent (dec_fuel E (S (wire_depth w))). intros r Heq.
  destruct (gd_map w) as [mm| | |] eqn:Hm.
  - cbn [obind]. rewrite (Heq mm eq_refl). destruct w; reflexivity.
  - destruct w; reflexivity.
  - destruct w; reflexivity.
  - destruct w; reflexivity.
Qed.

Lemma gdec_items_unfold E w : gdec_items E w = dec_items (gdec E) w.
Proof.
  unfold gdec_items. apply dec_items_ext with (d := wire_depth w); [|lia].
  intros x Hx. unfold gdec. apply dec_fuel_indep; lia.
Qed.

(* ------------------------------------------------------------------ C04: totality *)
Lemma obind_returns {A B} (o : outcome A) (f : A -> outcome B) :
  returns o -> (forall a, o = Ok a -> returns (f a)) -> returns (obind o f).
Proof. destruct o; simpl; intros H Hf; try contradiction; [now apply Hf|exact I]. Qed.

Lemma gd_list_returns w : returns (gd_list w).
Proof. unfold gd_list. destruct (wfirst w); exact I. Qed.
Lemma gd_map_returns w : returns (gd_map w).
Proof. unfold gd_map. destruct (wfirst w); exact I. Qed.
Lemma gd_kvs_returns w : returns (gd_kvs w).
Proof. unfold gd_kvs. destruct (wfirst w); exact I. Qed.
Lemma gd_bytes_returns w : returns (gd_bytes w).
Proof. unfold gd_bytes. destruct (wfirst w); exact I. Qed.
Lemma gd_int_returns w : returns (gd_int w).
Proof. unfold gd_int. destruct (wfirst w); exact I. Qed.
Lemma gd_uint_returns w : returns (gd_uint w).
Proof. unfold gd_uint. destruct (wfirst w); exact I. Qed.
Lemma gd_float_returns w : returns (gd_float w).
Proof. unfold gd_float. destruct (wfirst w); exact I. Qed.
Lemma gd_bool_returns w : returns (gd_bool w).
Proof. unfold gd_bool. destruct (wfirst w); exact I. Qed.

Lemma rdec_mime_returns cur w : returns (rdec_mime cur w).
Proof. unfold rdec_mime. destruct w; try exact I; apply gd_bytes_returns. Qed.
Lemma rdec_nlv_returns cur w : returns (rdec_nlv_method cur w).
Proof.
  unfold rdec_nlv_method. destruct w; try exact I; (apply obind_returns; [apply gd_kvs_returns|intros; exact I]).
Qed.
Lemma dec_iris_returns w : returns (dec_iris w).
Proof.
  induction w; simpl; try exact I; try assumption.
  destruct w1; try exact I. assumption.
Qed.

Lemma fn_lookup_In {A} n (l : list (bytes * option kind * A)) k a :
  fn_lookup n l = Some (k, a) -> exists n', In (n', k, a) l.
Proof.
  induction l as [|[[n' k'] a'] r IH]; simpl; [discriminate|].
  destruct (bytes_eqb n n'); [intros H; injection H as -> ->; eexists; now left|].
  intros H. destruct (IH H) as [n0 Hn0]. eexists; right; eauto.
Qed.

Section Tot.
Variable E : gob_env.
Hypothesis Hsafe : gob_dec_safe E = true.
Variable rec : wire -> outcome item.
Variable d : nat.
Hypothesis Hrt : forall x, wire_depth x < d -> returns (rec x).

Lemma omapM_returns l : (forall x, In x l -> wire_depth x < d) -> returns (omapM rec l).
Proof.
  induction l as [|a r IH]; simpl; intros H; [exact I|].
  apply obind_returns; [apply Hrt, H; now left|]. intros y _.
  apply obind_returns; [apply IH; intros; apply H; now right|]. intros; exact I.
Qed.

Lemma dec_items_returns w : wire_depth w <= d -> returns (dec_items rec w).
Proof.
  intros Hw. unfold dec_items. apply obind_returns; [apply gd_list_returns|].
  intros l Hl. apply omapM_returns. intros x Hx. pose proof (gd_list_depth _ _ _ Hl Hx). lia.
Qed.

Lemma rdec0_returns c cur w : wire_depth w < d -> returns (rdec0 E rec c cur w).
Proof.
  intros Hw. destruct c; simpl; try exact I;
    try (apply omap_returns'; first [apply lr_method_returns | apply lr_helper_returns]);
    try (apply obind_returns; [|intros; exact I]); auto.
  - destruct w; exact I.
  - apply dec_items_returns. lia.
Qed.

Lemma fold_rstep_returns dec tbl mm :
  (forall f key cn pos c cur raw, In (GR f key cn pos) tbl -> aget key mm = Some raw -> rcodec_of cn = Some c ->
                                  returns (dec c cur raw)) ->
  forall st, returns st -> returns (fold_left (rstep_gen dec mm) tbl st).
Proof.
  induction tbl as [|e r IH]; intros Hd st Hst; [exact Hst|]. simpl. apply IH; [intros f0 key0 cn0 pos0 c0 cur0 raw0 Hin0; eapply Hd; right; exact Hin0|].
  unfold rstep_gen. apply obind_returns; [exact Hst|]. intros fs _.
  destruct e as [f key cn pos| |]; try exact I.
  destruct (aget key mm) as [raw|] eqn:Hr; [|exact I]. destruct (rcodec_of cn) as [c|] eqn:Hc; [|exact I].
  apply obind_returns; [eapply Hd; [left; reflexivity|exact Hr|exact Hc]|]. intros; exact I.
Qed.

Lemma rdec_leaf_returns n cur w : wire_depth w <= d -> returns (rdec_leaf E rec n cur w).
Proof.
  intros Hw. unfold rdec_leaf.
  assert (H : returns (obind (gd_map w) (fun mm => gunmap_gen (rdec0 E rec) (leaf_r E n) mm cur))).
  { apply obind_returns; [apply gd_map_returns|]. intros mm Hm. unfold gunmap_gen. apply fold_rstep_returns; [|exact I].
    intros f key cn pos c cur0 raw _ Hr _. apply rdec0_returns. pose proof (gd_map_depth _ _ _ _ Hm Hr). lia. }
  destruct w; first [exact H|exact I].
Qed.

Lemma rdec_returns c cur w :
  (c = CrEndpointsMethod -> ge_endpoints_codec E = false) -> wire_depth w < d -> returns (rdec E rec c cur w).
Proof.
  intros Hc Hw. destruct c; try (apply rdec0_returns; exact Hw); unfold rdec.
  - unfold rdec_source. apply obind_returns; [apply rdec_leaf_returns; lia|]. intros; exact I.
  - rewrite (Hc eq_refl). exact I.
  - unfold rdec_endpoints_fn, rdec_endpoints_method. destruct (endpoints_fn_shape _); [|exact I].
    destruct (ge_endpoints_codec E); [|exact I].
    apply obind_returns; [apply rdec_leaf_returns; lia|]. intros; exact I.
  - unfold rdec_pubkey. apply obind_returns; [apply rdec_leaf_returns; lia|]. intros; exact I.
Qed.

Lemma rflatten_safe fuel : forall fn e, In e (rflatten E fuel fn) -> rentry_safe E e = true.
Proof.
  induction fuel as [|n IH]; simpl; intros fn e He.
  - destruct He as [<-|[]]. reflexivity.
  - destruct (fn_lookup fn (ge_rfuncs E)) as [[k es]|] eqn:Hl.
    + apply in_flat_map in He. destruct He as [e0 [He0 He]].
      destruct (fn_lookup_In _ _ _ _ Hl) as [n' Hn'].
      pose proof Hsafe as Hs. unfold gob_dec_safe in Hs. rewrite forallb_forall in Hs. specialize (Hs _ Hn'). simpl in Hs.
      rewrite forallb_forall in Hs.
      destruct e0; try (destruct He as [<-|[]]; now apply Hs). eapply IH; eauto.
    + destruct He as [<-|[]]. reflexivity.
Qed.

Lemma gunmap_returns tbl mm init :
  (forall e, In e tbl -> rentry_safe E e = true) -> (forall k x, aget k mm = Some x -> wire_depth x < d) ->
  returns (gunmap E rec tbl mm init).
Proof.
  intros Hs Hmm. unfold gunmap, gunmap_gen. apply fold_rstep_returns; [|exact I].
  intros f key cn pos c cur raw Hin Hr Hc. apply rdec_returns; [|eapply Hmm; eauto].
  intros ->. specialize (Hs _ Hin). simpl in Hs. rewrite Hc in Hs. now apply negb_true_iff in Hs.
Qed.

Lemma dec_object_returns tkey mm :
  (forall k x, aget k mm = Some x -> wire_depth x < d) -> returns (dec_object E rec tkey mm).
Proof.
  intros Hmm. unfold dec_object. destruct (typer_kind E _); [|exact I].
  destruct (dec_kind E _); [|exact I]. destruct (kind_beq _ _); [|exact I].
  apply obind_returns; [|intros; exact I]. apply gunmap_returns; [|exact Hmm]. intros e He. eapply rflatten_safe; eauto.
Qed.

Definition oreturns {A} (o : option (outcome A)) : Prop := match o with Some r => returns r | None => True end.

Lemma sniff_one_returns s w : wire_depth w <= d -> oreturns (sniff_one E rec s w).
Proof.
  intros Hw. destruct s as [fn pos|fn tkey always pos|pos|src pos]; simpl; try exact I.
  - unfold sniff_try. destruct (bytes_eqb fn fn_try_items).
    + pose proof (dec_items_returns w Hw) as H. destruct (dec_items rec w); simpl in *; try contradiction; exact I.
    + destruct (bytes_eqb fn fn_try_iris); [destruct (dec_iris_t E w _); exact I|].
      destruct (bytes_eqb fn fn_try_iri); [destruct (lr_method E _ _ w); exact I|exact I].
  - destruct (bytes_eqb fn fn_as_map); [|exact I]. destruct (gd_map w) as [mm| | |] eqn:Hm; try exact I.
    destruct (always || has_key tkey mm || has_key (B "id") mm); [|exact I]. simpl.
    apply dec_object_returns. intros k x Hx. pose proof (gd_map_depth _ _ _ _ Hm Hx). lia.
Qed.

Lemma sniff_run_returns l w : wire_depth w <= d -> returns (sniff_run E rec l w).
Proof.
  intros Hw. induction l as [|s r IH]; [exact I|]. simpl.
  pose proof (sniff_one_returns s w Hw) as H. destruct (sniff_one E rec s w); [exact H|exact IH].
Qed.

Lemma dec_step_returns w : wire_depth w <= d -> returns (dec_step E rec w).
Proof. apply sniff_run_returns. Qed.
End Tot.

(* with fuel above the depth of the wire the decoder neither panics nor runs out of fuel *)
Lemma dec_fuel_returns E : gob_dec_safe E = true -> forall n w, wire_depth w < n -> returns (dec_fuel E n w).
Proof.
  intros Hs. induction n as [|n IH]; intros w Hn; [lia|]. simpl.
  apply dec_step_returns with (d := wire_depth w); [exact Hs| |lia]. intros x Hx. apply IH. lia.
Qed.

Lemma gdec_returns E : gob_dec_safe E = true -> forall w, returns (gdec E w).
Proof. intros Hs w. unfold gdec. apply dec_fuel_returns; [exact Hs|lia]. Qed.

Lemma omap_returns {A B} (f : A -> B) o : returns o -> returns (omap f o).
Proof. destruct o; simpl; auto. Qed.

Theorem run_gob_total E : gob_dec_safe E = true -> forall ep w, returns (run_gob E ep w).
Proof.
  intros Hs ep w.
  assert (Hg : forall x, wire_depth x < S (wire_depth w) -> returns (gdec E x)) by (intros; now apply gdec_returns).
  destruct ep; simpl; try exact I; apply omap_returns.
  - now apply gdec_returns.
  - rewrite gdec_items_unfold. eapply dec_items_returns; [exact Hg|lia].
  - rewrite gdec_k_unfold.
    assert (H : returns (obind (gd_map w) (fun mm => obind (gunmap E (gdec E) (rtable_method E k) mm []) (fun fs => Ok (canon_fields E k fs))))).
    { apply obind_returns; [apply gd_map_returns|]. intros mm Hm. apply obind_returns; [|intros; exact I].
      eapply gunmap_returns with (d := S (wire_depth w)); [exact Hg| |].
      - intros e He. eapply rflatten_safe; eauto.
      - intros k0 x Hx. pose proof (gd_map_depth _ _ _ _ Hm Hx). lia. }
    destruct w; first [exact H|exact I].
  - apply lr_method_returns.
  - apply lr_method_returns.
  - apply dec_iris_t_returns.
  - apply lr_method_returns.
  - apply lr_method_returns.
  - apply lr_method_returns.
  - apply lr_method_returns.
  - unfold rdec_source. apply obind_returns; [|intros; exact I]. eapply rdec_leaf_returns; [exact Hg|lia].
  - unfold rdec_pubkey. apply obind_returns; [|intros; exact I]. eapply rdec_leaf_returns; [exact Hg|lia].
  - unfold rdec_endpoints_method. destruct (ge_endpoints_codec E); [|exact I].
    apply obind_returns; [|intros; exact I]. eapply rdec_leaf_returns; [exact Hg|lia].
  - apply lr_method_returns.
Qed.

Lemma dec_fuel_sufficient E : gob_dec_safe E = true ->
  forall n w, wire_depth w < n -> returns (dec_fuel E n w) /\ dec_fuel E n w = gdec E w.
Proof.
  intros Hs n w Hn. split; [now apply dec_fuel_returns|]. unfold gdec. apply dec_fuel_indep; lia.
Qed.
