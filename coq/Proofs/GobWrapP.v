(* C03 (builder b50): the wrappers around the gob codecs.  For every table set satisfying [wrappers_ok]
   (Model/GobWrap.v) the interpreters over the generated statement lists compute the hand-written definitions of
   Model/Gob.v the C03 / C04 / C07 theorems are about - for all wires, all decoders of the nested byte strings,
   all receivers.  The diagnosis [wrappers_first_bad] answers None exactly when the condition holds. *)
From AP.Model Require Import Prelude Vocab Bytes Layout Pred Dispatch IriEq Equal Coll GobTables Gob GobCheck GobWhole GobWrap.
From AP.Proofs Require Import NlvP GobCodecP.
From Coq Require Import Lia.

(* ------------------------------------------------------------------ equal statements, equal steps *)
Lemma gwr_same_step rec meth call recv w st a b : gwr_same a b = true ->
  wr_step rec meth call recv w st a = wr_step rec meth call recv w st b.
Proof.
  destruct a, b; simpl; intros H; try discriminate; try reflexivity;
    repeat match goal with
           | H : _ && _ = true |- _ => apply andb_true_iff in H; destruct H
           | H : bytes_eqb _ _ = true |- _ => apply bytes_eqb_eq in H; subst
           end; reflexivity.
Qed.

Lemma wr_run_same rec meth call recv w : forall tbl canon st, all2 gwr_same tbl canon = true ->
  wr_run rec meth call recv w tbl st = wr_run rec meth call recv w canon st.
Proof.
  induction tbl as [|a tbl IH]; destruct canon as [|b canon]; simpl; intros st H; try discriminate; [reflexivity|].
  apply andb_true_iff in H. destruct H as [H1 H2]. rewrite (gwr_same_step rec meth call recv w st a b H1).
  destruct (wr_step rec meth call recv w st b); [apply IH; exact H2|reflexivity].
Qed.

Lemma gww_same_step enc x st a b : gww_same a b = true -> ww_step enc x st a = ww_step enc x st b.
Proof.
  destruct a, b; simpl; intros H; try discriminate; try reflexivity;
    repeat match goal with
           | H : _ && _ = true |- _ => apply andb_true_iff in H; destruct H
           | H : bytes_eqb _ _ = true |- _ => apply bytes_eqb_eq in H; subst
           end; reflexivity.
Qed.

Lemma ww_run_same enc x : forall tbl canon st, all2 gww_same tbl canon = true ->
  ww_run enc x tbl st = ww_run enc x canon st.
Proof.
  induction tbl as [|a tbl IH]; destruct canon as [|b canon]; simpl; intros st H; try discriminate; [reflexivity|].
  apply andb_true_iff in H. destruct H as [H1 H2]. rewrite (gww_same_step enc x st a b H1).
  destruct (ww_step enc x st b); [apply IH; exact H2|reflexivity].
Qed.

(* ------------------------------------------------------------------ the condition, function by function *)
Lemma wr_ok_of WR n c : wrappers_r_ok WR = true -> In (n, c) canon_wr -> all2 gwr_same (wr_table WR n) c = true.
Proof. unfold wrappers_r_ok. rewrite forallb_forall. intros H Hin. exact (H (n, c) Hin). Qed.
Lemma ww_ok_of WW n c : wrappers_w_ok WW = true -> In (n, c) canon_ww -> all2 gww_same (ww_table WW n) c = true.
Proof. unfold wrappers_w_ok. rewrite forallb_forall. intros H Hin. exact (H (n, c) Hin). Qed.

(* ------------------------------------------------------------------ the loop of tryDecodeItems *)
Lemma each_decode_append rec : forall l acc,
  each_decode rec (fun a ob => a ++ [ob]) l acc = omap (fun its => acc ++ its) (omapM rec l).
Proof.
  induction l as [|x r IH]; intros acc; simpl.
  - rewrite app_nil_r. reflexivity.
  - destruct (rec x) as [ob| | |]; simpl; try reflexivity.
    rewrite IH. destruct (omapM rec r) as [ys| | |]; simpl; try reflexivity.
    rewrite <- app_assoc. reflexivity.
Qed.

Lemma wl_fresh_wires : wl_fresh how_make0 ty_bytelist = WlWires []. Proof. reflexivity. Qed.
Lemma wl_fresh_items : wl_fresh how_make0 ty_items = WlItems []. Proof. reflexivity. Qed.
Lemma wl_fresh_map : wl_fresh how_make ty_map = WlMap []. Proof. reflexivity. Qed.

Section Read.
Variable WR : list (bytes * list gwr).
Variable E : gob_env.
Hypothesis HR : wrappers_r_ok WR = true.

(* tryDecodeItems appends what gobDecodeItem returns for each element of the [][]byte, in order, each one kept *)
Theorem try_items_closed rec cur w :
  wr_try_items WR rec cur w = omap (fun l => cur ++ l) (dec_items rec w).
Proof.
  unfold wr_try_items.
  rewrite (wr_run_same rec no_meth no_call (LvStr []) w _ cr_try_items _
             (wr_ok_of WR fn_try_items cr_try_items HR (or_introl eq_refl))).
  unfold dec_items, cr_try_items. cbn [wr_run wr_step wr_st0 wr_loc wr_dec wr_items]. rewrite wl_fresh_wires.
  destruct (gd_list w) as [l| | |]; simpl; try reflexivity.
  change (bytes_eqb n_dec_item n_dec_item) with true. cbv iota.
  change (store_how how_append) with (Some (fun (acc : list item) (ob : item) => acc ++ [ob])). cbv iota.
  rewrite each_decode_append. destruct (omapM rec l); reflexivity.
Qed.

Corollary try_items_fresh rec w : wr_try_items WR rec [] w = dec_items rec w.
Proof. rewrite try_items_closed. destruct (dec_items rec w); reflexivity. Qed.

(* tryDecodeIRIs / tryDecodeIRI are the GobDecode method of the pointee *)
Theorem try_iris_closed v w : wr_try_leaf WR E fn_try_iris v w = dec_iris_t E w v.
Proof.
  unfold wr_try_leaf.
  rewrite (wr_run_same no_rec (leaf_method E w) no_call v w _ cr_try_iris _
             (wr_ok_of WR fn_try_iris cr_try_iris HR (or_intror (or_introl eq_refl)))).
  unfold cr_try_iris. cbn [wr_run wr_step]. unfold leaf_method.
  change (bytes_eqb n_iris_dec n_iris_dec) with true. cbv iota.
  destruct (dec_iris_t E w v); reflexivity.
Qed.

Theorem try_iri_closed v w : wr_try_leaf WR E fn_try_iri v w = lr_method E n_iri_dec v w.
Proof.
  unfold wr_try_leaf.
  rewrite (wr_run_same no_rec (leaf_method E w) no_call v w _ cr_try_iri _
             (wr_ok_of WR fn_try_iri cr_try_iri HR (or_intror (or_intror (or_introl eq_refl))))).
  unfold cr_try_iri. cbn [wr_run wr_step]. unfold leaf_method.
  change (bytes_eqb n_iri_dec n_iris_dec) with false. cbv iota.
  destruct (lr_method E n_iri_dec v w); reflexivity.
Qed.

(* gobDecodeItems *)
Theorem decode_items_closed rec w : wr_decode_items WR rec w = dec_items rec w.
Proof.
  unfold wr_decode_items.
  rewrite (wr_run_same _ no_meth _ (LvStr []) w _ cr_dec_items _
             (wr_ok_of WR fn_dec_items cr_dec_items HR (or_intror (or_intror (or_intror (or_introl eq_refl)))))).
  unfold cr_dec_items. cbn [wr_run wr_step wr_st0 wr_loc wr_dec wr_items]. rewrite wl_fresh_items.
  change (bytes_eqb fn_try_items fn_try_items) with true. cbv iota.
  rewrite try_items_fresh. destruct (dec_items rec w); reflexivity.
Qed.

(* gobDecodeObjectAsMap *)
Theorem as_map_closed w : wr_as_map WR w = gd_map w.
Proof.
  unfold wr_as_map.
  rewrite (wr_run_same no_rec no_meth no_call (LvStr []) w _ cr_as_map _
             (wr_ok_of WR fn_as_map cr_as_map HR (or_intror (or_intror (or_intror (or_intror (or_introl eq_refl))))))).
  unfold cr_as_map. cbn [wr_run wr_step wr_st0 wr_loc wr_dec wr_items]. rewrite wl_fresh_map. cbn [wr_loc wr_dec wr_items].
  destruct (gd_map w); reflexivity.
Qed.

(* one attempt of gobDecodeItem, the callee run from its table: exactly Gob.sniff_try, for every function name *)
Theorem sniff_try_closed rec fn w : sniff_try_t WR E rec fn w = sniff_try E rec fn w.
Proof.
  unfold sniff_try_t, sniff_try.
  destruct (bytes_eqb fn fn_try_items); [rewrite try_items_fresh; reflexivity|].
  destruct (bytes_eqb fn fn_try_iris); [rewrite try_iris_closed; reflexivity|].
  destruct (bytes_eqb fn fn_try_iri); [rewrite try_iri_closed; reflexivity|reflexivity].
Qed.
End Read.

Section Write.
Variable WW : list (bytes * list gww).
Hypothesis HW : wrappers_w_ok WW = true.

(* gobEncodeItems: the gob stream of the [][]byte holding what gobEncodeItem returned for each member, in order *)
Theorem encode_items_closed ws : ww_encode_items WW ws = WList ws.
Proof.
  unfold ww_encode_items.
  rewrite (ww_run_same no_enc_iris (WvItems ws) _ cw_enc_items _ (ww_ok_of WW fn_enc_items cw_enc_items HW (or_introl eq_refl))).
  reflexivity.
Qed.

(* gobEncodeIRIs: the gob stream of the GobEncoder value, whose content is what IRIs.GobEncode returns *)
Theorem encode_iris_closed enc l : ww_encode_iris WW enc l = WOpaque (enc l).
Proof.
  unfold ww_encode_iris.
  rewrite (ww_run_same enc (WvIris l) _ cw_enc_iris _ (ww_ok_of WW fn_enc_iris cw_enc_iris HW (or_intror (or_introl eq_refl)))).
  reflexivity.
Qed.

(* gobEncodeItemOrLink on an Item: gobEncodeItem *)
Theorem item_or_link_closed o : ww_item_or_link WW o = o.
Proof.
  unfold ww_item_or_link.
  rewrite (ww_run_same no_enc_iris (WvItem o) _ cw_enc_item_or_link _
             (ww_ok_of WW fn_enc_item_or_link cw_enc_item_or_link HW (or_intror (or_intror (or_introl eq_refl))))).
  reflexivity.
Qed.

(* the places of Model/Gob.v where these three functions are given their hand-written meaning *)
Theorem callee_result_closed enc_iris enc_link x :
  callee_result enc_iris enc_link fn_enc_iris x =
    match x with PiIris l => ww_encode_iris WW enc_iris l | _ => WRaw gob_garbage end /\
  callee_result enc_iris enc_link fn_enc_items x =
    match x with PiItems ws => ww_encode_items WW ws | PiIris l => ww_encode_items WW (map wraw l) | _ => WRaw gob_garbage end.
Proof.
  split.
  - unfold callee_result. change (bytes_eqb fn_enc_iris (B "gobEncodeIRIs")) with true. cbv iota.
    destruct x; try reflexivity. rewrite encode_iris_closed. reflexivity.
  - unfold callee_result. change (bytes_eqb fn_enc_items (B "gobEncodeIRIs")) with false.
    change (bytes_eqb fn_enc_items (B "gobEncodeItems")) with true. cbv iota.
    destruct x; try reflexivity; rewrite encode_items_closed; reflexivity.
Qed.

Theorem wenc_items_closed E :
  (forall l, wenc0 E CwItems (Some (PItems l)) = ww_encode_items WW l) /\
  wenc0 E CwItems None = ww_encode_items WW [] /\ wenc0 E CwItems (Some PNil) = ww_encode_items WW [] /\
  (forall o, wenc0 E CwItemOrLink (Some (PItem o)) = ww_item_or_link WW o) /\
  (forall l, Gob.genc_items E l = ww_encode_items WW (map (genc E) l)).
Proof.
  repeat split; intros; rewrite ?encode_items_closed, ?item_or_link_closed; reflexivity.
Qed.
End Write.

(* ------------------------------------------------------------------ the decoder calls of the property tables *)
Theorem rdec_items_closed WR E : wrappers_r_ok WR = true -> forall rec cur w,
  rdec0 E rec CrItems cur w = obind (wr_decode_items WR rec w) (fun l => Ok (FItems (Some l))).
Proof. intros H rec cur w. rewrite (decode_items_closed WR H). reflexivity. Qed.

Theorem gdec_items_closed WR E : wrappers_r_ok WR = true -> forall w,
  gdec_items E w = wr_decode_items WR (dec_fuel E (S (wire_depth w))) w.
Proof. intros H w. rewrite (decode_items_closed WR H). reflexivity. Qed.

(* (T).GobDecode opens the property map with gobDecodeObjectAsMap *)
Theorem gdec_k_closed WR E : wrappers_r_ok WR = true -> forall k w,
  gdec_k E k w =
  match w with
  | WEmpty => Ok []
  | _ => obind (wr_as_map WR w) (fun mm =>
         obind (gunmap E (dec_fuel E (S (wire_depth w))) (rtable_method E k) mm []) (fun fs => Ok (canon_fields E k fs)))
  end.
Proof. intros H k w. rewrite (as_map_closed WR H). reflexivity. Qed.

(* the whole of gobDecodeItem with every attempt run from the tables *)
Definition sniff_one_t (WR : list (bytes * list gwr)) (E : gob_env) (rec : wire -> outcome item) (s : gsniff) (w : wire)
  : option (outcome item) :=
  match s with
  | GSTry fn _ => sniff_try_t WR E rec fn w
  | GSMap fn tkey always _ =>
      if bytes_eqb fn fn_as_map then
        match wr_as_map WR w with
        | Ok mm => if always || has_key tkey mm || has_key (B "id") mm then Some (dec_object E rec tkey mm) else None
        | _ => None
        end
      else Some Err
  | GSFail _ => Some Err
  | GSUnrecognised _ _ => Some Err
  end.
Fixpoint sniff_run_t (WR : list (bytes * list gwr)) (E : gob_env) (rec : wire -> outcome item) (l : list gsniff) (w : wire)
  : outcome item :=
  match l with
  | [] => Err
  | s :: r => match sniff_one_t WR E rec s w with Some o => o | None => sniff_run_t WR E rec r w end
  end.

Theorem sniff_run_closed WR E : wrappers_r_ok WR = true -> forall rec l w,
  sniff_run_t WR E rec l w = sniff_run E rec l w.
Proof.
  intros H rec l w. induction l as [|s r IH]; [reflexivity|]. cbn [sniff_run_t sniff_run].
  assert (E1 : sniff_one_t WR E rec s w = sniff_one E rec s w).
  { destruct s; cbn [sniff_one_t sniff_one]; try reflexivity.
    - apply (sniff_try_closed WR E H).
    - rewrite (as_map_closed WR H). reflexivity. }
  rewrite E1, IH. reflexivity.
Qed.

(* ------------------------------------------------------------------ the diagnosis *)
Lemma first_diff_none {A} (same : A -> A -> bool) : forall a b, first_diff same a b = None <-> all2 same a b = true.
Proof.
  induction a as [|x a IH]; destruct b as [|y b]; simpl; try (split; [discriminate|discriminate]); [tauto|].
  destruct (same x y); simpl; [|split; discriminate].
  rewrite <- IH. destruct (first_diff same a b); simpl; split; congruence.
Qed.

Lemma first_some_none {A B} (f : A -> option B) l : first_some f l = None <-> forall x, In x l -> f x = None.
Proof.
  induction l as [|x r IH]; simpl; [split; [intros _ y []|reflexivity]|].
  destruct (f x) eqn:E.
  - split; [discriminate|]. intros H. rewrite (H x (or_introl eq_refl)) in E. discriminate.
  - rewrite IH. split; [intros H y [<-|Hy]; [exact E|apply H, Hy]|intros H y Hy; apply H; right; exact Hy].
Qed.

Theorem wrappers_first_bad_none WR WW : wrappers_first_bad WR WW = None <-> wrappers_ok WR WW = true.
Proof.
  unfold wrappers_first_bad, wrappers_ok, wrappers_r_ok, wrappers_w_ok.
  rewrite andb_true_iff, !forallb_forall.
  match goal with |- match ?a with _ => _ end = None <-> _ => destruct a as [d|] eqn:Ea end.
  - split; [discriminate|]. intros [H _]. exfalso.
    assert (Hn : first_some (fun p : bytes * list gwr =>
                   option_map (fun i => (fst p, i)) (first_diff gwr_same (wr_table WR (fst p)) (snd p))) canon_wr = None).
    { apply first_some_none. intros p Hp. specialize (H p Hp). unfold wr_ok in H.
      apply (first_diff_none gwr_same) in H. rewrite H. reflexivity. }
    rewrite Hn in Ea. discriminate.
  - rewrite first_some_none in Ea. rewrite first_some_none. split.
    + intros Hw. split; intros p Hp.
      * specialize (Ea p Hp). unfold wr_ok. apply (first_diff_none gwr_same).
        destruct (first_diff gwr_same (wr_table WR (fst p)) (snd p)); [discriminate|reflexivity].
      * specialize (Hw p Hp). unfold ww_ok. apply (first_diff_none gww_same).
        destruct (first_diff gww_same (ww_table WW (fst p)) (snd p)); [discriminate|reflexivity].
    + intros [_ Hw] p Hp. specialize (Hw p Hp). unfold ww_ok in Hw. apply (first_diff_none gww_same) in Hw. rewrite Hw. reflexivity.
Qed.
