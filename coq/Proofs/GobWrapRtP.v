(* C03 (builder b50): the round trip of an item list through the INTERPRETED gobEncodeItems / gobDecodeItems /
   tryDecodeItems (Model/GobWrap.v), for every environment with gob_whole_ok and every wrapper table set with
   wrappers_ok - C03's whole-value theorem transported along the tie of Proofs/GobWrapP.v. *)
From AP.Model Require Import Prelude Vocab Bytes Layout Pred Dispatch GobTables Gob GobCheck GobNorm GobWhole GobWrap.
From AP.Proofs Require Import GobCodecP GobP GobLeafP GobWireP GobRtP GobWrapP.

Theorem items_roundtrip_tables E WR WW : gob_whole_ok E = true -> wrappers_ok WR WW = true ->
  forall l : list item, wf_gob E (IItems false (Some l)) = true ->
  exists l', wr_decode_items WR (gdec E) (ww_encode_items WW (map (genc E) l)) = Ok l' /\
             map (norm_item (ge_layout E) (ge_layout_endpoints E)) l' = map (norm_item (ge_layout E) (ge_layout_endpoints E)) l.
Proof.
  intros Hw H l Hwf. apply andb_true_iff in H. destruct H as [HR HW].
  rewrite (encode_items_closed WW HW), (decode_items_closed WR HR).
  destruct (omapM_rec E (gdec E) l) as [l' [Hl Hm]].
  { apply Forall_forall. intros x Hx. apply (gob_roundtrip E Hw). exact (wf_items_parts E false l Hwf x Hx). }
  exists l'. split; [exact Hl|exact Hm].
Qed.
