(* When is the host URL.String prints read back by url.Parse as the same host ([CollIriWP.host_stable], the one thing
   C15's split / join law needs of net/url beyond parsing)?  Proved here: for EVERY host url.parseHost accepts that is
   no IP literal (reg-names with raw or escaped bytes >= 0x80, "%25", IPv4, any port, empty port, several colons).
   IP literals: see the end of the file.  Model: Model/UrlU.v. *)
From AP.Model Require Import Prelude Bytes Url IriEq Vocab Pred CollIri UrlU.
From AP.Proofs Require Import NlvP LowerP IriNfP CollIriP UrlUP CollIriUP CollIriWP.

(* ================================================================ url.unescape in host mode, as a relation *)
Section Dec.
  Variable okesc : byte -> byte -> bool.
  Inductive gdec : bytes -> bytes -> Prop :=
  | gd_nil : gdec [] []
  | gd_raw c r h : Byte.eqb c pct = false -> (negb (is_ascii c) || host_noescape c) = true -> gdec r h -> gdec (c :: r) (c :: h)
  | gd_esc X Y r h : is_hex X = true -> is_hex Y = true -> okesc X Y = true -> gdec r h ->
                     gdec (pct :: X :: Y :: r) (unhex2 X Y :: h).
End Dec.

Definition host_esc_ok (X Y : byte) : bool := (8 <=? hexv X)%N || (Byte.eqb X x32 && Byte.eqb Y x35).

Lemma pct_decode_cons_raw c r : Byte.eqb c pct = false ->
  pct_decode (c :: r) = match pct_decode r with Some d => Some (c :: d) | None => None end.
Proof. intros H. unfold pct_decode. cbn [pct_go]. rewrite H. reflexivity. Qed.

Lemma pct_decode_cons_esc X Y r :
  pct_decode (pct :: X :: Y :: r) =
  if is_hex X then if is_hex Y then match pct_decode r with Some d => Some (unhex2 X Y :: d) | None => None end else None else None.
Proof. unfold pct_decode. cbn [pct_go]. change (Byte.eqb pct pct) with true. cbn iota. reflexivity. Qed.

Lemma host_gdec n : forall rh h, length rh <= n -> host_bytes_ok rh = true -> pct_decode rh = Some h -> gdec host_esc_ok rh h.
Proof.
  induction n as [|n IH]; intros rh h L Hok D.
  - destruct rh; [|simpl in L; lia]. inversion D; subst. constructor.
  - destruct rh as [|c r]; [inversion D; subst; constructor|].
    cbn [host_bytes_ok] in Hok. destruct (Byte.eqb c pct) eqn:Ec.
    + apply beqb_eq in Ec. subst c. destruct r as [|X [|Y r']]; try discriminate.
      rewrite !andb_true_iff in Hok. destruct Hok as [[[HX HY] HE] Hr].
      rewrite pct_decode_cons_esc, HX, HY in D. destruct (pct_decode r') as [d|] eqn:Dr; [|discriminate].
      inversion D; subst h. apply gd_esc; try assumption. apply IH; [simpl in L; lia|exact Hr|exact Dr].
    + rewrite andb_true_iff in Hok. destruct Hok as [Hc Hr].
      rewrite (pct_decode_cons_raw c r Ec) in D. destruct (pct_decode r) as [d|] eqn:Dr; [|discriminate].
      inversion D; subst h. apply gd_raw; try assumption. apply IH; [simpl in L; lia|exact Hr|exact Dr].
Qed.

(* ================================================================ sweeps *)
Lemma pair_sweep (P : byte -> byte -> bool) :
  forallb (fun X => forallb (P X) all_bytes) all_bytes = true -> forall X Y, P X Y = true.
Proof. intros H X Y. pose proof (byte_sweep _ H X) as HX. cbv beta in HX. exact (byte_sweep _ HX Y). Qed.

(* what a decoded host byte can be: left alone by URL.String, or >= 0x80, or "%" *)
Definition hdec (b : byte) : bool := host_noescape b || negb (is_ascii b) || Byte.eqb b pct.

Lemma host_esc_decodes X Y : is_hex X = true -> is_hex Y = true -> host_esc_ok X Y = true ->
  hdec (unhex2 X Y) = true /\ Byte.eqb (unhex2 X Y) colon = false /\ Byte.eqb (unhex2 X Y) lbrack = false.
Proof.
  intros HX HY HE.
  pose proof (pair_sweep (fun X Y => implb (is_hex X && is_hex Y && host_esc_ok X Y)
     (hdec (unhex2 X Y) && negb (Byte.eqb (unhex2 X Y) colon) && negb (Byte.eqb (unhex2 X Y) lbrack))) ltac:(vm_compute; reflexivity) X Y) as S.
  cbv beta in S. rewrite HX, HY, HE in S. simpl in S. rewrite !andb_true_iff, !negb_true_iff in S. tauto.
Qed.

Lemma hex_not_colon X : is_hex X = true -> Byte.eqb X colon = false.
Proof.
  intros H. pose proof (byte_sweep (fun X => implb (is_hex X) (negb (Byte.eqb X colon))) ltac:(vm_compute; reflexivity) X) as S.
  cbv beta in S. rewrite H in S. simpl in S. apply negb_true_iff in S. exact S.
Qed.

(* per byte, what URL.String prints for a host byte *)
Definition esc_facts (b : byte) : bool :=
  let e := esc_with host_noescape b in
  Bool.eqb (forallb is_digit e) (is_digit b)
  && Bool.eqb (forallb (fun x => negb (Byte.eqb x colon)) e) (negb (Byte.eqb b colon))
  && Bool.eqb (is_prefix [lbrack] e) (Byte.eqb b lbrack)
  && (if Byte.eqb b colon then bytes_eqb e [colon] else true)
  && (if hdec b then
        match e with
        | [x] => negb (Byte.eqb x pct) && (negb (is_ascii x) || host_noescape x)
        | [p; X; Y] => Byte.eqb p pct && is_hex X && is_hex Y && host_esc_ok X Y
        | _ => false
        end
      else true).
Lemma esc_facts_all b : esc_facts b = true.
Proof. exact (byte_sweep esc_facts ltac:(vm_compute; reflexivity) b). Qed.

Lemma esc_facts_parts b :
  forallb is_digit (esc_with host_noescape b) = is_digit b /\
  lacks colon (esc_with host_noescape b) = negb (Byte.eqb b colon) /\
  is_prefix [lbrack] (esc_with host_noescape b) = Byte.eqb b lbrack /\
  (Byte.eqb b colon = true -> esc_with host_noescape b = [colon]) /\
  (hdec b = true -> forall rest, host_bytes_ok (esc_with host_noescape b ++ rest) = host_bytes_ok rest).
Proof.
  pose proof (esc_facts_all b) as H. unfold esc_facts in H. rewrite !andb_true_iff in H.
  destruct H as [[[[H1 H2] H3] H4] H5]. apply eqb_prop in H1, H2, H3.
  split; [exact H1|]. split; [exact H2|]. split; [exact H3|]. split.
  - intros E. rewrite E in H4. apply bytes_eqb_eq in H4. exact H4.
  - intros E rest. rewrite E in H5. destruct (esc_with host_noescape b) as [|x [|X [|Y [|]]]]; try discriminate.
    + rewrite andb_true_iff, negb_true_iff in H5. destruct H5 as [P Q]. cbn [app host_bytes_ok]. rewrite P, Q. reflexivity.
    + rewrite !andb_true_iff in H5. destruct H5 as [[[P HX] HY] HE]. apply beqb_eq in P. subst x.
      cbn [app host_bytes_ok]. change (Byte.eqb pct pct) with true. cbn iota. unfold host_esc_ok in HE. rewrite HX, HY, HE. reflexivity.
Qed.

(* ================================================================ the three tests of parseHost on the printed host *)
Lemma host_escape_cons b r : host_escape (b :: r) = esc_with host_noescape b ++ host_escape r.
Proof. reflexivity. Qed.

Lemma printed_prefix h : is_prefix [lbrack] (host_escape h) = is_prefix [lbrack] h.
Proof.
  destruct h as [|b r]; [reflexivity|]. rewrite host_escape_cons.
  destruct (esc_facts_parts b) as [_ [_ [H3 _]]]. cbn [is_prefix] in *.
  destruct (esc_with host_noescape b) as [|x e] eqn:E.
  - exfalso. unfold esc_with in E. destruct (host_noescape b); discriminate.
  - cbn [app]. cbn [is_prefix] in H3. rewrite !andb_true_r in *. rewrite H3. apply beqb_sym.
Qed.

Lemma printed_bytes_ok h : forallb hdec h = true -> host_bytes_ok (host_escape h) = true.
Proof.
  induction h as [|b r IH]; [reflexivity|]. cbn [forallb]. rewrite andb_true_iff. intros [Hb Hr].
  rewrite host_escape_cons. destruct (esc_facts_parts b) as [_ [_ [_ [_ H5]]]]. rewrite (H5 Hb). exact (IH Hr).
Qed.

Lemma printed_digits h : forallb is_digit (host_escape h) = forallb is_digit h.
Proof.
  induction h as [|b r IH]; [reflexivity|]. rewrite host_escape_cons, forallb_app. cbn [forallb].
  destruct (esc_facts_parts b) as [H1 _]. rewrite H1, IH. reflexivity.
Qed.
Lemma printed_lacks_colon h : lacks colon (host_escape h) = lacks colon h.
Proof.
  induction h as [|b r IH]; [reflexivity|]. rewrite host_escape_cons, lacks_app. unfold lacks at 3. cbn [forallb].
  destruct (esc_facts_parts b) as [_ [H2 _]]. rewrite H2. fold (lacks colon r). rewrite IH. reflexivity.
Qed.

(* validOptionalPort on what follows the LAST colon, by recursion from the left *)
Fixpoint lco (s : bytes) : bool :=
  match s with
  | [] => true
  | c :: r => if Byte.eqb c colon then (if lacks colon r then forallb is_digit r else lco r) else lco r
  end.

Lemma lco_lacks s : lacks colon s = true -> lco s = true.
Proof.
  induction s as [|c r IH]; [reflexivity|]. unfold lacks. cbn [forallb lco]. rewrite andb_true_iff, negb_true_iff. intros [Hc Hr].
  rewrite Hc. apply IH. exact Hr.
Qed.

Lemma lco_skip x s : lacks colon x = true -> lco (x ++ s) = lco s.
Proof.
  induction x as [|c r IH]; [reflexivity|]. unfold lacks. cbn [forallb app lco]. rewrite andb_true_iff, negb_true_iff. intros [Hc Hr].
  rewrite Hc. apply IH. exact Hr.
Qed.

Lemma cut_byte_some_app c s a b t : cut_byte c s = (a, Some b) -> cut_byte c (s ++ t) = (a, Some (b ++ t)).
Proof.
  revert a b. induction s as [|x r IH]; intros a b H; [discriminate|]. cbn [cut_byte app] in *.
  destruct (Byte.eqb x c); [inversion H; reflexivity|].
  destruct (cut_byte c r) as [a' o'] eqn:E. inversion H; subst. rewrite (IH a' b eq_refl). reflexivity.
Qed.

Lemma cut_byte_has c s : lacks c s = false -> exists a b, cut_byte c s = (a, Some b).
Proof.
  induction s as [|x r IH]; [discriminate|]. unfold lacks. cbn [forallb cut_byte]. destruct (Byte.eqb x c) eqn:E.
  - intros _. eauto.
  - cbn [negb andb]. intros H. destruct (IH H) as [a [b Eab]]. rewrite Eab. eauto.
Qed.

Lemma lacks_rev c s : lacks c (rev s) = lacks c s.
Proof. apply forallb_rev. Qed.

Lemma last_colon_lco s : last_colon_ok s = lco s.
Proof.
  induction s as [|c r IH]; [reflexivity|]. unfold last_colon_ok in *. cbn [rev lco].
  destruct (lacks colon r) eqn:Lr.
  - pose proof Lr as Lr'. rewrite <- lacks_rev in Lr'. destruct (Byte.eqb c colon) eqn:Ec.
    + apply beqb_eq in Ec. subst c. rewrite (cut_byte_app colon (rev r) [] Lr'). apply forallb_rev.
    + rewrite (cut_byte_none colon (rev r ++ [c])).
      * symmetry. apply lco_lacks. exact Lr.
      * rewrite lacks_app, Lr'. unfold lacks. cbn [forallb]. rewrite Ec. reflexivity.
  - pose proof Lr as Lr'. rewrite <- lacks_rev in Lr'. destruct (cut_byte_has colon (rev r) Lr') as [a [b E]].
    rewrite (cut_byte_some_app colon (rev r) a b [c] E). rewrite E in IH. rewrite IH.
    destruct (Byte.eqb c colon); reflexivity.
Qed.

Lemma lco_printed h : lco (host_escape h) = lco h.
Proof.
  induction h as [|b r IH]; [reflexivity|]. rewrite host_escape_cons. cbn [lco].
  destruct (esc_facts_parts b) as [_ [H2 [_ [H4 _]]]]. destruct (Byte.eqb b colon) eqn:Eb.
  - rewrite (H4 eq_refl). cbn [app lco]. change (Byte.eqb colon colon) with true. cbn iota.
    rewrite printed_lacks_colon, printed_digits, IH. reflexivity.
  - rewrite lco_skip; [exact IH|]. rewrite H2. reflexivity.
Qed.

(* ================================================================ from the raw host to the decoded one *)
Lemma gdec_hdec rh h : gdec host_esc_ok rh h -> forallb hdec h = true.
Proof.
  induction 1 as [|c r h Hc Hn _ IH|X Y r h HX HY HE _ IH]; [reflexivity| |]; cbn [forallb]; rewrite IH, andb_true_r.
  - unfold hdec. apply orb_true_iff in Hn. destruct Hn as [Hn|Hn]; rewrite Hn; [rewrite orb_true_r|]; reflexivity.
  - apply (host_esc_decodes X Y HX HY HE).
Qed.

Lemma gdec_lacks_colon rh h : gdec host_esc_ok rh h -> lacks colon h = lacks colon rh.
Proof.
  induction 1 as [|c r h Hc Hn _ IH|X Y r h HX HY HE _ IH]; [reflexivity| |]; unfold lacks in *; cbn [forallb]; rewrite IH.
  - reflexivity.
  - destruct (host_esc_decodes X Y HX HY HE) as [_ [N _]]. rewrite N, (hex_not_colon X HX), (hex_not_colon Y HY).
    change (Byte.eqb pct colon) with false. reflexivity.
Qed.

Lemma gdec_digits rh h : gdec host_esc_ok rh h -> forallb is_digit rh = true -> h = rh.
Proof.
  induction 1 as [|c r h Hc Hn _ IH|X Y r h HX HY HE _ IH]; [reflexivity| |]; cbn [forallb]; rewrite andb_true_iff; intros [A B].
  - rewrite (IH B). reflexivity.
  - discriminate A.
Qed.

Lemma gdec_lco rh h : gdec host_esc_ok rh h -> lco rh = true -> lco h = true.
Proof.
  induction 1 as [|c r h Hc Hn G IH|X Y r h HX HY HE G IH]; [reflexivity| |]; cbn [lco].
  - rewrite (gdec_lacks_colon _ _ G). destruct (Byte.eqb c colon); [|exact IH].
    destruct (lacks colon r); [|exact IH]. intros D. rewrite (gdec_digits _ _ G D). exact D.
  - destruct (host_esc_decodes X Y HX HY HE) as [_ [N _]]. rewrite N, (hex_not_colon X HX), (hex_not_colon Y HY).
    change (Byte.eqb pct colon) with false. cbn iota. exact IH.
Qed.

Lemma gdec_prefix rh h : gdec host_esc_ok rh h -> is_prefix [lbrack] h = is_prefix [lbrack] rh.
Proof.
  destruct 1 as [|c r h Hc Hn G|X Y r h HX HY HE G]; [reflexivity|reflexivity|]. cbn [is_prefix].
  destruct (host_esc_decodes X Y HX HY HE) as [_ [_ N]]. rewrite (beqb_sym lbrack (unhex2 X Y)), N. reflexivity.
Qed.

(* ================================================================ every host that is no IP literal *)
Theorem host_stable_no_literal rh h : parse_host rh = Some h -> is_prefix [lbrack] rh = false -> host_stable h = true.
Proof.
  intros PH NB. unfold parse_host in PH. rewrite NB in PH.
  destruct (last_colon_ok rh) eqn:LC; [|discriminate]. destruct (host_bytes_ok rh) eqn:HB; [|discriminate]. cbn [andb] in PH.
  pose proof (host_gdec (length rh) rh h (le_n _) HB PH) as G.
  unfold host_stable, parse_host. rewrite printed_prefix, (gdec_prefix _ _ G), NB.
  rewrite last_colon_lco, lco_printed, (gdec_lco _ _ G) by (rewrite <- last_colon_lco; exact LC).
  rewrite (printed_bytes_ok h (gdec_hdec _ _ G)). cbn [andb]. rewrite host_escape_roundtrip. cbn [opt_bytes_eqb]. apply bytes_eqb_refl.
Qed.

(* in terms of the DECODED host (URL.Host): it does not begin with "[" *)
Lemma parse_host_literal rh h : parse_host rh = Some h -> is_prefix [lbrack] rh = is_prefix [lbrack] h.
Proof.
  intros PH. pose proof (parse_host_decode rh h PH) as D. destruct rh as [|c r]; [inversion D; reflexivity|].
  destruct (Byte.eqb c pct) eqn:Ec.
  - apply beqb_eq in Ec. subst c. destruct r as [|X [|Y r']]; try (unfold pct_decode in D; cbn in D; discriminate).
    + unfold pct_decode in D. cbn [pct_go] in D. change (Byte.eqb pct pct) with true in D. cbn iota in D.
      destruct (is_hex X); discriminate.
    + (* an escape at the front: the host is no literal, and what it decodes to is no "[" *)
      assert (NB : is_prefix [lbrack] (pct :: X :: Y :: r') = false) by reflexivity.
      unfold parse_host in PH. rewrite NB in PH.
      destruct (last_colon_ok (pct :: X :: Y :: r')); [|discriminate]. destruct (host_bytes_ok (pct :: X :: Y :: r')) eqn:HB; [|discriminate].
      cbn [andb] in PH. pose proof (host_gdec _ _ h (le_n _) HB PH) as G. rewrite (gdec_prefix _ _ G). reflexivity.
  - rewrite (pct_decode_cons_raw c r Ec) in D. destruct (pct_decode r); [|discriminate]. inversion D. reflexivity.
Qed.

Theorem host_stable_of_owner o : owner_dom_w o = true -> is_prefix [lbrack] (owner_host_w o) = false ->
  host_stable (owner_host_w o) = true.
Proof.
  intros Hd NB. destruct (owner_dom_w_struct o Hd) as [sch [au [r [E H]]]]. subst o.
  destruct (owner_ok_w_parts _ _ _ H) as [_ [_ [_ [_ [[user [h [PA _]]] _]]]]].
  rewrite (owner_host_w_str _ _ _ _ _ H PA) in *.
  destruct (parse_authority_struct au user h PA) as [up [rh [_ [_ [_ [PH _]]]]]].
  apply (host_stable_no_literal rh h PH). rewrite (parse_host_literal rh h PH). exact NB.
Qed.

(* ================================================================ IP literals *)
(* "[" inside "]" [":" digits]; from the first "%25" of [inside] on, the zone.  Proved: the printed host is read back
   as the same host whenever the zone holds no byte >= 0x80 (in particular: whenever there is no zone). *)
Definition p25 : bytes := [pct; x32; x35].
Lemma p25_is : B "%25" = p25. Proof. reflexivity. Qed.

Fixpoint occurs25 (s : bytes) : bool := is_prefix p25 s || match s with [] => false | _ :: r => occurs25 r end.

Lemma index_from_occurs s : forall n, occurs25 s = false -> index_from n p25 s = None.
Proof.
  induction s as [|a s IH]; intros n; [reflexivity|]. cbn [occurs25]. rewrite orb_false_iff. intros [H1 H2].
  change (index_from n p25 (a :: s)) with (if is_prefix p25 (a :: s) then Some n else index_from (S n) p25 s).
  rewrite H1. apply IH. exact H2.
Qed.

Lemma is_prefix_firstn p : forall k s, is_prefix p (firstn k s) = true -> is_prefix p s = true.
Proof.
  induction p as [|x p IH]; intros k s H; [reflexivity|]. destruct k as [|k]; [discriminate|]. destruct s as [|y s]; [discriminate|].
  cbn [firstn is_prefix] in *. apply andb_true_iff in H. destruct H as [H1 H2]. rewrite H1, (IH k s H2). reflexivity.
Qed.

Lemma index_from_first s : forall n z, index_from n p25 s = Some z ->
  exists k, z = n + k /\ occurs25 (firstn k s) = false /\ is_prefix p25 (skipn k s) = true.
Proof.
  induction s as [|a s IH]; intros n z H; [discriminate|].
  change (index_from n p25 (a :: s)) with (if is_prefix p25 (a :: s) then Some n else index_from (S n) p25 s) in H.
  destruct (is_prefix p25 (a :: s)) eqn:P.
  - inversion H; subst. exists 0. split; [lia|]. split; [reflexivity|exact P].
  - destruct (IH _ _ H) as [k [E [O Q]]]. exists (S k). split; [lia|]. split; [|exact Q].
    cbn [firstn occurs25]. rewrite O, orb_false_r.
    destruct (is_prefix p25 (a :: firstn k s)) eqn:PF; [|reflexivity].
    rewrite (is_prefix_firstn p25 (S k) (a :: s) PF) in P. discriminate.
Qed.

(* ---- the decoding relation: splitting, plain parts, "%" ---- *)
Lemma gdec_split ok c b : is_hex c = false -> Byte.eqb c pct = false -> forall n a h, length a <= n -> gdec ok (a ++ c :: b) h ->
  exists d1 d2, gdec ok a d1 /\ gdec ok (c :: b) d2 /\ h = d1 ++ d2.
Proof.
  intros Hh Hp. induction n as [|n IH]; intros a h L G.
  - destruct a; [|simpl in L; lia]. exists [], h. split; [constructor|]. split; [exact G|reflexivity].
  - destruct a as [|x a']; [exists [], h; split; [constructor|]; split; [exact G|reflexivity]|].
    cbn [app] in G. inversion G as [|c0 r0 h0 Hc Hn G0|X Y r0 h0 HX HY HE G0]; subst.
    + destruct (IH a' h0 ltac:(simpl in L; lia) G0) as [d1 [d2 [G1 [G2 E]]]]. subst h0.
      exists (x :: d1), d2. split; [apply gd_raw; assumption|]. split; [exact G2|reflexivity].
    + destruct a' as [|x1 [|x2 a'']]; cbn [app] in *.
      * match goal with E : _ :: _ :: _ = c :: b |- _ => inversion E; subst end. congruence.
      * match goal with E : _ :: _ :: _ = _ :: c :: b |- _ => inversion E; subst end. congruence.
      * match goal with E : _ :: _ :: _ = _ :: _ :: _ ++ c :: b |- _ => inversion E; subst end.
        destruct (IH a'' h0 ltac:(simpl in L; lia) G0) as [d1 [d2 [G1 [G2 E]]]]. subst h0.
        exists (unhex2 x1 x2 :: d1), d2. split; [apply gd_esc; assumption|]. split; [exact G2|reflexivity].
Qed.

Lemma gdec_plain ok r h : gdec ok r h -> lacks pct r = true -> h = r.
Proof.
  induction 1 as [|c r h Hc Hn _ IH|X Y r h HX HY HE _ IH]; [reflexivity| |]; unfold lacks; cbn [forallb]; rewrite andb_true_iff; intros [A Bq].
  - rewrite (IH Bq). reflexivity.
  - discriminate A.
Qed.

Lemma unhex_pct X Y : is_hex X = true -> is_hex Y = true -> Byte.eqb (unhex2 X Y) pct = true -> X = x32 /\ Y = x35.
Proof.
  intros HX HY E.
  pose proof (pair_sweep (fun X Y => implb (is_hex X && is_hex Y && Byte.eqb (unhex2 X Y) pct) (Byte.eqb X x32 && Byte.eqb Y x35))
                ltac:(vm_compute; reflexivity) X Y) as S.
  cbv beta in S. rewrite HX, HY, E in S. simpl in S. apply andb_true_iff in S. destruct S as [S1 S2].
  apply beqb_eq in S1, S2. auto.
Qed.

Lemma gdec_no25 ok rh h : gdec ok rh h -> occurs25 rh = false -> lacks pct h = true.
Proof.
  induction 1 as [|c r h Hc Hn _ IH|X Y r h HX HY HE _ IH]; [reflexivity| |]; intros O.
  - cbn [occurs25] in O. apply orb_false_iff in O. destruct O as [_ O]. unfold lacks. cbn [forallb]. rewrite Hc. exact (IH O).
  - cbn [occurs25] in O. rewrite !orb_false_iff in O. destruct O as [P [_ [_ O]]].
    unfold lacks. cbn [forallb]. fold (lacks pct h). rewrite (IH O), andb_true_r. apply negb_true_iff.
    destruct (Byte.eqb (unhex2 X Y) pct) eqn:E; [|reflexivity].
    destruct (unhex_pct X Y HX HY E) as [-> ->]. discriminate P.
Qed.

(* ---- unescape in zone mode ---- *)
Definition zone_esc_ok (X Y : byte) : bool :=
  (Byte.eqb X x32 && Byte.eqb Y x35) || Byte.eqb (unhex2 X Y) space || host_noescape (unhex2 X Y).

Lemma zone_gdec n : forall rh h, length rh <= n -> zone_bytes_ok rh = true -> pct_decode rh = Some h -> gdec zone_esc_ok rh h.
Proof.
  induction n as [|n IH]; intros rh h L Hok D.
  - destruct rh; [|simpl in L; lia]. inversion D; subst. constructor.
  - destruct rh as [|c r]; [inversion D; subst; constructor|].
    cbn [zone_bytes_ok] in Hok. destruct (Byte.eqb c pct) eqn:Ec.
    + apply beqb_eq in Ec. subst c. destruct r as [|X [|Y r']]; try discriminate.
      rewrite !andb_true_iff in Hok. destruct Hok as [[[HX HY] HE] Hr].
      rewrite pct_decode_cons_esc, HX, HY in D. destruct (pct_decode r') as [d|] eqn:Dr; [|discriminate].
      inversion D; subst h. apply gd_esc; try assumption. apply IH; [simpl in L; lia|exact Hr|exact Dr].
    + rewrite andb_true_iff in Hok. destruct Hok as [Hc Hr].
      rewrite (pct_decode_cons_raw c r Ec) in D. destruct (pct_decode r) as [d|] eqn:Dr; [|discriminate].
      inversion D; subst h. apply gd_raw; try assumption. apply IH; [simpl in L; lia|exact Hr|exact Dr].
Qed.

(* a decoded zone byte: left alone by URL.String, "%", a space - or a RAW byte >= 0x80 (the one URL.String prints in a
   way url.Parse refuses) *)
Definition zdec (b : byte) : bool := host_noescape b || Byte.eqb b pct || Byte.eqb b space.

Lemma zone_esc_decodes X Y : is_hex X = true -> is_hex Y = true -> zone_esc_ok X Y = true -> zdec (unhex2 X Y) = true.
Proof.
  intros HX HY HE.
  pose proof (pair_sweep (fun X Y => implb (is_hex X && is_hex Y && zone_esc_ok X Y) (zdec (unhex2 X Y))) ltac:(vm_compute; reflexivity) X Y) as S.
  cbv beta in S. rewrite HX, HY, HE in S. exact S.
Qed.

Lemma gdec_zdec rh h : gdec zone_esc_ok rh h -> forallb is_ascii h = true -> forallb zdec h = true.
Proof.
  induction 1 as [|c r h Hc Hn _ IH|X Y r h HX HY HE _ IH]; [reflexivity| |]; cbn [forallb]; rewrite andb_true_iff; intros [A Bq]; rewrite (IH Bq), andb_true_r.
  - unfold zdec. rewrite A in Hn. cbn [negb orb] in Hn. rewrite Hn. reflexivity.
  - apply (zone_esc_decodes X Y HX HY HE).
Qed.

(* ---- per byte: what URL.String prints, seen by the zone test and by strings.Index(.., "%25") ---- *)
Definition chunk25 (e : bytes) : bool :=
  match e with
  | [x] => negb (Byte.eqb x pct)
  | [p; X; Y] => Byte.eqb p pct && negb (Byte.eqb X x32) && negb (Byte.eqb X pct) && negb (Byte.eqb Y pct)
  | _ => false
  end.

Definition esc_facts2 (b : byte) : bool :=
  let e := esc_with host_noescape b in
  (if hdec b && negb (Byte.eqb b pct) then chunk25 e else true)
  && (if Byte.eqb b pct then bytes_eqb e p25 else true)
  && (if host_noescape b then bytes_eqb e [b] else true)
  && (if zdec b then
        match e with
        | [x] => negb (Byte.eqb x pct) && (negb (is_ascii x) || host_noescape x)
        | [p; X; Y] => Byte.eqb p pct && is_hex X && is_hex Y && zone_esc_ok X Y
        | _ => false
        end
      else true).
Lemma esc_facts2_all b : esc_facts2 b = true.
Proof. exact (byte_sweep esc_facts2 ltac:(vm_compute; reflexivity) b). Qed.

Lemma esc_facts2_parts b :
  (hdec b = true -> Byte.eqb b pct = false -> chunk25 (esc_with host_noescape b) = true) /\
  (Byte.eqb b pct = true -> esc_with host_noescape b = p25) /\
  (host_noescape b = true -> esc_with host_noescape b = [b]) /\
  (zdec b = true -> forall rest, zone_bytes_ok (esc_with host_noescape b ++ rest) = zone_bytes_ok rest).
Proof.
  pose proof (esc_facts2_all b) as H. unfold esc_facts2 in H. rewrite !andb_true_iff in H. destruct H as [[[H1 H2] H3] H4].
  split; [intros A Bq; rewrite A, Bq in H1; exact H1|]. split; [intros A; rewrite A in H2; apply bytes_eqb_eq in H2; exact H2|].
  split; [intros A; rewrite A in H3; apply bytes_eqb_eq in H3; exact H3|].
  intros E rest. rewrite E in H4. destruct (esc_with host_noescape b) as [|x [|X [|Y [|]]]]; try discriminate.
  - rewrite andb_true_iff, negb_true_iff in H4. destruct H4 as [P Q]. cbn [app zone_bytes_ok]. rewrite P, Q. reflexivity.
  - rewrite !andb_true_iff in H4. destruct H4 as [[[P HX] HY] HE]. apply beqb_eq in P. subst x.
    cbn [app zone_bytes_ok]. change (Byte.eqb pct pct) with true. cbn iota. unfold zone_esc_ok in HE. rewrite HX, HY, HE. reflexivity.
Qed.

Lemma index_chunk e : chunk25 e = true -> forall n rest, index_from n p25 (e ++ rest) = index_from (n + length e) p25 rest.
Proof.
  intros C n rest. destruct e as [|x [|X [|Y [|]]]]; try discriminate; cbn [chunk25] in C.
  - apply negb_true_iff in C. cbn [app length].
    change (index_from n p25 (x :: rest)) with (if is_prefix p25 (x :: rest) then Some n else index_from (S n) p25 rest).
    unfold p25 at 1. cbn [is_prefix]. rewrite (beqb_sym pct x), C. cbn [andb]. rewrite Nat.add_1_r. reflexivity.
  - rewrite !andb_true_iff, !negb_true_iff in C. destruct C as [[[P1 P2] P3] P4]. apply beqb_eq in P1. subst x. cbn [app length].
    change (index_from n p25 (pct :: X :: Y :: rest)) with (if is_prefix p25 (pct :: X :: Y :: rest) then Some n else index_from (S n) p25 (X :: Y :: rest)).
    unfold p25 at 1. cbn [is_prefix]. rewrite (beqb_sym x32 X), P2, andb_false_r. cbn iota.
    change (index_from (S n) p25 (X :: Y :: rest)) with (if is_prefix p25 (X :: Y :: rest) then Some (S n) else index_from (S (S n)) p25 (Y :: rest)).
    unfold p25 at 1. cbn [is_prefix]. rewrite (beqb_sym pct X), P3. cbn [andb].
    change (index_from (S (S n)) p25 (Y :: rest)) with (if is_prefix p25 (Y :: rest) then Some (S (S n)) else index_from (S (S (S n))) p25 rest).
    unfold p25 at 1. cbn [is_prefix]. rewrite (beqb_sym pct Y), P4. cbn [andb].
    replace (n + 3) with (S (S (S n))) by lia. reflexivity.
Qed.

Lemma index_printed d : forallb hdec d = true -> lacks pct d = true -> forall n tail,
  index_from n p25 (host_escape d ++ tail) = index_from (n + length (host_escape d)) p25 tail.
Proof.
  induction d as [|b r IH]; intros Hd Hp n tail; [cbn [host_escape flat_map app length]; rewrite Nat.add_0_r; reflexivity|].
  cbn [forallb] in Hd. apply andb_true_iff in Hd. destruct Hd as [Hb Hr].
  unfold lacks in Hp. cbn [forallb] in Hp. apply andb_true_iff in Hp. destruct Hp as [Pb Pr]. apply negb_true_iff in Pb.
  rewrite host_escape_cons, <- app_assoc. destruct (esc_facts2_parts b) as [C _].
  rewrite (index_chunk _ (C Hb Pb)), (IH Hr Pr), app_length, Nat.add_assoc. reflexivity.
Qed.

Lemma host_escape_app a b : host_escape (a ++ b) = host_escape a ++ host_escape b.
Proof. unfold host_escape. apply flat_map_app. Qed.

Lemma host_escape_kept s : forallb host_noescape s = true -> host_escape s = s.
Proof.
  induction s as [|b r IH]; [reflexivity|]. cbn [forallb]. rewrite andb_true_iff. intros [Hb Hr].
  rewrite host_escape_cons. destruct (esc_facts2_parts b) as [_ [_ [K _]]]. rewrite (K Hb), (IH Hr). reflexivity.
Qed.

Lemma printed_zone_ok d : forallb zdec d = true -> zone_bytes_ok (host_escape d) = true.
Proof.
  induction d as [|b r IH]; [reflexivity|]. cbn [forallb]. rewrite andb_true_iff. intros [Hb Hr].
  rewrite host_escape_cons. destruct (esc_facts2_parts b) as [_ [_ [_ Z]]]. rewrite (Z Hb). exact (IH Hr).
Qed.

(* the port part "]" [":" digits] is printed as it is and decodes to itself *)
Lemma port_part after : valid_optional_port after = true ->
  forallb host_noescape (rbrack :: after) = true /\ lacks pct (rbrack :: after) = true.
Proof.
  intros V. assert (D : forall ds, forallb is_digit ds = true -> forallb host_noescape ds = true /\ lacks pct ds = true).
  { intros ds H. split; (eapply forallb_impl; [|exact H]); intros x Hx;
      pose proof (byte_sweep (fun x => implb (is_digit x) (host_noescape x && negb (Byte.eqb x pct))) ltac:(vm_compute; reflexivity) x) as S;
      cbv beta in S; rewrite Hx in S; simpl in S; apply andb_true_iff in S; tauto. }
  destruct after as [|c ds]; [split; reflexivity|]. cbn [valid_optional_port] in V. apply andb_true_iff in V. destruct V as [Vc Vd].
  apply beqb_eq in Vc. subst c. destruct (D ds Vd) as [D1 D2]. split.
  - cbn [forallb]. rewrite D1. reflexivity.
  - unfold lacks in *. cbn [forallb]. rewrite D2. reflexivity.
Qed.

(* the condition, on URL.Host: what follows the first "%" (the zone) holds no byte >= 0x80 *)
Definition zone_ascii (h : bytes) : bool :=
  match cut_byte pct h with (_, Some z) => forallb is_ascii z | (_, None) => true end.

(* the shape of the decoded literal *)
Lemma printed_literal d1 d2 after :
  forallb hdec d1 = true -> lacks pct d1 = true ->
  (d2 = [] \/ exists d2', d2 = pct :: d2') -> forallb zdec d2 = true ->
  valid_optional_port after = true -> notin rbrack after = true ->
  is_prefix [lbrack] (d1 ++ d2 ++ rbrack :: after) = true ->
  host_stable (d1 ++ d2 ++ rbrack :: after) = true.
Proof.
  intros H1 P1 S2 Z2 V N Pre. destruct (port_part after V) as [K3 L3].
  unfold host_stable, parse_host. rewrite printed_prefix, Pre.
  rewrite !host_escape_app, (host_escape_kept _ K3).
  replace (host_escape d1 ++ host_escape d2 ++ rbrack :: after) with ((host_escape d1 ++ host_escape d2) ++ rbrack :: after) by (rewrite <- app_assoc; reflexivity).
  rewrite (cut_last_app rbrack _ _ N), V, p25_is. unfold index.
  assert (HB3 : host_bytes_ok (rbrack :: after) = true).
  { rewrite <- (host_escape_kept _ K3). apply printed_bytes_ok. eapply forallb_impl; [|exact K3]. intros x Hx. unfold hdec. rewrite Hx. reflexivity. }
  assert (D3 : pct_decode (rbrack :: after) = Some (rbrack :: after)) by (apply pct_go_plain; exact L3).
  destruct S2 as [E2|[d2' E2]]; subst d2.
  - (* no zone *)
    cbn [host_escape flat_map]. rewrite !app_nil_r. rewrite <- (app_nil_r (host_escape d1)) at 1.
    rewrite (index_printed d1 H1 P1 0 []). cbn [index_from is_prefix p25].
    assert (HB : host_bytes_ok (host_escape d1 ++ rbrack :: after) = true).
    { rewrite <- (host_escape_kept _ K3), <- host_escape_app. apply printed_bytes_ok. rewrite forallb_app, H1.
      eapply forallb_impl; [|exact K3]. intros x Hx. unfold hdec. rewrite Hx. reflexivity. }
    rewrite HB. rewrite (pct_decode_app _ _ _ _ (host_escape_roundtrip d1) D3). cbn [opt_bytes_eqb app]. apply bytes_eqb_refl.
  - (* a zone: the printed zone begins with "%25", the first one of the printed host *)
    rewrite host_escape_cons. destruct (esc_facts2_parts pct) as [_ [Q _]]. rewrite (Q eq_refl).
    rewrite (index_printed d1 H1 P1 0 (p25 ++ host_escape d2')). cbn [Nat.add].
    assert (index_from (length (host_escape d1)) p25 (p25 ++ host_escape d2') = Some (length (host_escape d1))) as -> by reflexivity.
    rewrite firstn_app, firstn_all, Nat.sub_diag. cbn [firstn]. rewrite app_nil_r.
    rewrite skipn_app, skipn_all, Nat.sub_diag. cbn [skipn app].
    rewrite (printed_bytes_ok d1 H1), HB3. cbn [andb].
    assert (ZZ : zone_bytes_ok (p25 ++ host_escape d2') = true).
    { rewrite <- (Q eq_refl), <- host_escape_cons. apply printed_zone_ok. exact Z2. }
    rewrite ZZ. cbn [andb]. unfold decode3. rewrite (host_escape_roundtrip d1), D3.
    rewrite <- (Q eq_refl), <- host_escape_cons, (host_escape_roundtrip (pct :: d2')). cbn [opt_bytes_eqb]. apply bytes_eqb_refl.
Qed.

Lemma index_from_none_occurs s : forall n, index_from n p25 s = None -> occurs25 s = false.
Proof.
  induction s as [|a s IH]; intros n H; [reflexivity|].
  change (index_from n p25 (a :: s)) with (if is_prefix p25 (a :: s) then Some n else index_from (S n) p25 s) in H.
  cbn [occurs25]. destruct (is_prefix p25 (a :: s)); [discriminate|]. exact (IH _ H).
Qed.

Lemma rbrack_plain : is_hex rbrack = false /\ Byte.eqb rbrack pct = false.
Proof. split; reflexivity. Qed.

Theorem host_stable_literal rh h : parse_host rh = Some h -> is_prefix [lbrack] rh = true -> zone_ascii h = true ->
  host_stable h = true.
Proof.
  intros PH Pre ZA. pose proof (parse_host_literal rh h PH) as PreH. rewrite Pre in PreH. symmetry in PreH.
  unfold parse_host in PH. rewrite Pre in PH.
  destruct (cut_last rbrack rh) as [[inside after]|] eqn:CL; [|discriminate].
  destruct (cut_last_some _ _ _ _ CL) as [Erh N].
  destruct (valid_optional_port after) eqn:V; [|discriminate].
  destruct (port_part after V) as [K3 L3].
  rewrite p25_is in PH. unfold index in PH. destruct (index_from 0 p25 inside) as [z|] eqn:Ez.
  - (* with a zone *)
    destruct (host_bytes_ok (firstn z inside)) eqn:HB1; [|discriminate].
    destruct (zone_bytes_ok (skipn z inside)) eqn:ZB; [|discriminate].
    destruct (host_bytes_ok (rbrack :: after)) eqn:HB3; [|discriminate]. cbn [andb] in PH.
    unfold decode3 in PH. destruct (pct_decode (firstn z inside)) as [x|] eqn:D1; [|discriminate].
    destruct (pct_decode (skipn z inside)) as [y|] eqn:D2; [|discriminate].
    destruct (pct_decode (rbrack :: after)) as [w|] eqn:D3; [|discriminate]. inversion PH; subst h. clear PH.
    unfold pct_decode in D3. rewrite (pct_go_plain _ L3) in D3. inversion D3; subst w. clear D3.
    destruct (index_from_first inside 0 z Ez) as [k [Ek [O P]]]. cbn [Nat.add] in Ek. subst k.
    pose proof (host_gdec _ _ x (le_n _) HB1 D1) as G1.
    pose proof (zone_gdec _ _ y (le_n _) ZB D2) as G2.
    pose proof (gdec_no25 _ _ _ G1 O) as P1. pose proof (gdec_hdec _ _ G1) as H1.
    apply is_prefix_true in P. cbn [length p25] in P. unfold p25 in P. cbn [app] in P.
    rewrite P in G2. inversion G2 as [|c0 r0 h0 Hc Hn G0|X Y r0 h0 HX HY HE G0]; subst; [discriminate Hc|].
    change (unhex2 x32 x35) with pct in *.
    assert (Ay : forallb is_ascii (pct :: h0) = true).
    { unfold zone_ascii in ZA. cbn [app] in ZA. rewrite (cut_byte_app pct x _ P1) in ZA. rewrite forallb_app in ZA. apply andb_true_iff in ZA.
      cbn [forallb]. destruct ZA as [-> _]. reflexivity. }
    apply printed_literal; try assumption.
    + right. eexists. reflexivity.
    + apply (gdec_zdec _ _ G2). exact Ay.
  - (* without *)
    destruct (host_bytes_ok rh) eqn:HB; [|discriminate].
    pose proof (host_gdec _ _ h (le_n _) HB PH) as G. rewrite Erh in G.
    destruct rbrack_plain as [R1 R2].
    destruct (gdec_split host_esc_ok rbrack after R1 R2 _ inside h (le_n _) G) as [d1 [d2 [G1 [G2 Eh]]]].
    assert (L3' : lacks pct (rbrack :: after) = true) by exact L3.
    rewrite (gdec_plain _ _ _ G2 L3') in Eh. subst h.
    pose proof (gdec_no25 _ _ _ G1 (index_from_none_occurs _ _ Ez)) as P1. pose proof (gdec_hdec _ _ G1) as H1.
    change (d1 ++ rbrack :: after) with (d1 ++ [] ++ rbrack :: after). apply printed_literal; try assumption.
    + left. reflexivity.
    + reflexivity.
Qed.

(* every host url.parseHost accepts, but a zone with a byte >= 0x80 *)
Definition host_ok_w (h : bytes) : bool := negb (is_prefix [lbrack] h) || zone_ascii h.

Theorem host_stable_all rh h : parse_host rh = Some h -> host_ok_w h = true -> host_stable h = true.
Proof.
  intros PH Hok. unfold host_ok_w in Hok. pose proof (parse_host_literal rh h PH) as E.
  destruct (is_prefix [lbrack] h) eqn:Pre.
  - cbn [negb orb] in Hok. apply (host_stable_literal rh h PH E Hok).
  - apply (host_stable_no_literal rh h PH E).
Qed.

Theorem host_stable_of_owner_w o : owner_dom_w o = true -> host_ok_w (owner_host_w o) = true -> host_stable (owner_host_w o) = true.
Proof.
  intros Hd Hok. destruct (owner_dom_w_struct o Hd) as [sch [au [r [E H]]]]. subst o.
  destruct (owner_ok_w_parts _ _ _ H) as [_ [_ [_ [_ [[user [h [PA _]]] _]]]]].
  rewrite (owner_host_w_str _ _ _ _ _ H PA) in *.
  destruct (parse_authority_struct au user h PA) as [up [rh [_ [_ [_ [PH _]]]]]].
  apply (host_stable_all rh h PH Hok).
Qed.
