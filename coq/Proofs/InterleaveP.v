(* Non-interference over all interleavings, by induction on the schedule. *)
From AP.Model Require Import Prelude Interleave.

Section InterleaveP.
Variables (L V St : Type).
Variable L_eq_dec : forall a b : L, {a = b} + {a <> b}.
Variable next : nat -> St -> action L V St.
Variable owner : L -> option nat.

Notation config := (config L V St).
Notation gstep := (gstep L V St L_eq_dec next).
Notation run := (run L V St L_eq_dec next).
Notation alone := (alone L V St L_eq_dec next).
Notation action_ok := (action_ok L V St owner).

Lemma run_app s1 s2 c :
  run (s1 ++ s2) c = let '(c1, t1) := run s1 c in let '(c2, t2) := run s2 c1 in (c2, t1 ++ t2).
Proof.
  revert c; induction s1 as [|t r IH]; intro c; simpl.
  - destruct (run s2 c); reflexivity.
  - destruct (gstep t c) as [c1 tr1]. rewrite IH. destruct (run r c1) as [c2 tr2].
    destruct (run s2 c2) as [c3 tr3]. rewrite app_assoc. reflexivity.
Qed.

Lemma run_snoc s t c :
  run (s ++ [t]) c = let '(c1, t1) := run s c in let '(c2, t2) := gstep t c1 in (c2, t1 ++ t2).
Proof.
  rewrite run_app. destruct (run s c) as [c1 t1]. simpl. destruct (gstep t c1) as [c2 t2].
  rewrite app_nil_r. reflexivity.
Qed.

Lemma alone_S t n c : alone t (S n) c = fst (gstep t (alone t n c)).
Proof.
  unfold Interleave.alone. replace (repeat t (S n)) with (repeat t n ++ [t]).
  2:{ symmetry. apply repeat_cons. }
  rewrite run_snoc. destruct (run (repeat t n) c) as [c1 t1]. simpl. destruct (gstep t c1); reflexivity.
Qed.

Lemma alone_0 t c : alone t 0 c = c.
Proof. reflexivity. Qed.

Lemma steps_of_snoc t s t' :
  steps_of t (s ++ [t']) = steps_of t s + (if Nat.eq_dec t' t then 1 else 0).
Proof.
  unfold steps_of. rewrite count_occ_app. simpl. destruct (Nat.eq_dec t' t); reflexivity.
Qed.

Variable c0 : config.
Hypothesis Hpriv : footprint_private L V St L_eq_dec next owner c0.

(* thread t alone never touches what it does not own, nor other threads' local states *)
Lemma alone_frame t n :
  (forall l, owner l <> Some t -> memory _ _ _ (alone t n c0) l = memory _ _ _ c0 l) /\
  (forall t', t' <> t -> locals _ _ _ (alone t n c0) t' = locals _ _ _ c0 t').
Proof.
  induction n as [|n [IHm IHl]]. split; auto.
  rewrite alone_S. pose proof (Hpriv t n) as Hok. unfold Interleave.gstep.
  destruct (next t (locals L V St (alone t n c0) t)) as [l k|l v k|]; simpl in *.
  - split; auto. intros t' Hne. unfold upd_local. destruct (Nat.eqb_spec t' t); [contradiction|auto].
  - split.
    + intros l' Hl'. unfold upd_mem. destruct (L_eq_dec l' l); [subst; contradiction|auto].
    + intros t' Hne. unfold upd_local. destruct (Nat.eqb_spec t' t); [contradiction|auto].
  - split; auto.
Qed.

Definition acc_ok (a : access L) : Prop :=
  match a with
  | Acc _ t true l => owner l = Some t
  | Acc _ t false l => owner l = None \/ owner l = Some t
  end.

(* the invariant of the induction on the schedule *)
Definition inv (sched : list nat) (c : config) (tr : list (access L)) : Prop :=
  (forall t, locals _ _ _ c t = locals _ _ _ (alone t (steps_of t sched) c0) t) /\
  (forall l, owner l = None -> memory _ _ _ c l = memory _ _ _ c0 l) /\
  (forall t l, owner l = Some t -> memory _ _ _ c l = memory _ _ _ (alone t (steps_of t sched) c0) l) /\
  Forall acc_ok tr.

Lemma inv_run sched : let '(c, tr) := run sched c0 in inv sched c tr.
Proof.
  induction sched as [|t sched IH] using rev_ind.
  - simpl. repeat split; auto.
  - rewrite run_snoc. destruct (run sched c0) as [c tr]. destruct IH as [Il [Ish [Iown Itr]]].
    pose proof (Hpriv t (steps_of t sched)) as Hok.
    assert (Hcnt : forall t', steps_of t' (sched ++ [t]) = if Nat.eq_dec t t' then S (steps_of t' sched) else steps_of t' sched).
    { intro t'. rewrite steps_of_snoc. destruct (Nat.eq_dec t t'); lia. }
    unfold Interleave.gstep. rewrite (Il t).
    remember (alone t (steps_of t sched) c0) as a eqn:Ha.
    assert (HaS : alone t (S (steps_of t sched)) c0 = fst (gstep t a)) by (subst a; apply alone_S).
    unfold Interleave.gstep in HaS.
    destruct (next t (locals L V St a t)) as [l k|l v k|] eqn:Hn; simpl in *.
    + (* read *)
      assert (Hval : memory _ _ _ c l = memory _ _ _ a l).
      { destruct Hok as [Hs|Ho].
        - rewrite (Ish l Hs). subst a. symmetry. apply alone_frame. rewrite Hs. discriminate.
        - subst a. apply Iown; auto. }
      repeat split; simpl.
      * intro t'. rewrite Hcnt. unfold upd_local. destruct (Nat.eqb_spec t' t) as [->|Hne].
        -- destruct (Nat.eq_dec t t); [|congruence]. rewrite HaS. simpl. unfold upd_local.
           rewrite Nat.eqb_refl. rewrite Hval. reflexivity.
        -- destruct (Nat.eq_dec t t'); [congruence|]. apply Il.
      * auto.
      * intros t' l' Ho. rewrite Hcnt. destruct (Nat.eq_dec t t') as [<-|Hne].
        -- rewrite HaS. simpl. subst a. apply Iown; auto.
        -- apply Iown; auto.
      * apply Forall_app; split; auto; constructor; auto.
    + (* write *)
      repeat split; simpl.
      * intro t'. rewrite Hcnt. unfold upd_local. destruct (Nat.eqb_spec t' t) as [->|Hne].
        -- destruct (Nat.eq_dec t t); [|congruence]. rewrite HaS. simpl. unfold upd_local.
           rewrite Nat.eqb_refl. reflexivity.
        -- destruct (Nat.eq_dec t t'); [congruence|]. apply Il.
      * intros l' Hs. unfold upd_mem. destruct (L_eq_dec l' l) as [->|Hne]; [congruence|auto].
      * intros t' l' Ho. rewrite Hcnt. destruct (Nat.eq_dec t t') as [<-|Hne].
        -- rewrite HaS. simpl. unfold upd_mem. destruct (L_eq_dec l' l); auto. subst a. apply Iown; auto.
        -- unfold upd_mem. destruct (L_eq_dec l' l) as [->|Hnl]; [congruence|]. apply Iown; auto.
      * apply Forall_app; split; auto; constructor; auto.
    + (* done *)
      repeat split; simpl.
      * intro t'. rewrite Hcnt. destruct (Nat.eq_dec t t') as [<-|Hne].
        -- rewrite HaS. simpl. subst a. apply Il.
        -- apply Il.
      * auto.
      * intros t' l' Ho. rewrite Hcnt. destruct (Nat.eq_dec t t') as [<-|Hne].
        -- rewrite HaS. simpl. subst a. apply Iown; auto.
        -- apply Iown; auto.
      * rewrite app_nil_r. auto.
Qed.

Lemma acc_ok_race_free tr : Forall acc_ok tr -> race_free L tr.
Proof.
  intros H a b Ha Hb Hc. rewrite Forall_forall in H.
  pose proof (H _ Ha) as Oa. pose proof (H _ Hb) as Ob.
  destruct a as [t1 w1 l1], b as [t2 w2 l2]. simpl in Hc. destruct Hc as [-> [Hne Hw]].
  destruct w1, w2; simpl in *; destruct Hw as [?|?]; try discriminate;
    repeat match goal with H : _ \/ _ |- _ => destruct H end; congruence.
Qed.

Theorem schedules :
  forall sched,
    let '(c, tr) := run sched c0 in
    (forall t, locals _ _ _ c t = locals _ _ _ (alone t (steps_of t sched) c0) t) /\
    (forall l, owner l = None -> memory _ _ _ c l = memory _ _ _ c0 l) /\
    (forall t l, owner l = Some t -> memory _ _ _ c l = memory _ _ _ (alone t (steps_of t sched) c0) l) /\
    race_free L tr.
Proof.
  intro sched. pose proof (inv_run sched) as H. destruct (run sched c0) as [c tr].
  destruct H as [H1 [H2 [H3 H4]]]. repeat split; auto. apply acc_ok_race_free; auto.
Qed.

(* two schedules giving every thread the same number of steps end in the same thread states and
   agree on every shared or owned location *)
Corollary schedules_agree :
  forall s1 s2, (forall t, steps_of t s1 = steps_of t s2) ->
    let c1 := fst (run s1 c0) in let c2 := fst (run s2 c0) in
    (forall t, locals _ _ _ c1 t = locals _ _ _ c2 t) /\
    (forall l, owner l <> None \/ owner l = None -> memory _ _ _ c1 l = memory _ _ _ c2 l).
Proof.
  intros s1 s2 Hs. pose proof (schedules s1) as A. pose proof (schedules s2) as B0.
  destruct (run s1 c0) as [c1 t1]. destruct (run s2 c0) as [c2 t2]. simpl.
  destruct A as [A1 [A2 [A3 _]]]. destruct B0 as [B1 [B2 [B3 _]]]. split.
  - intro t. rewrite A1, B1, Hs. reflexivity.
  - intros l _. destruct (owner l) as [t|] eqn:Ho.
    + rewrite (A3 t l Ho), (B3 t l Ho), Hs. reflexivity.
    + rewrite A2, B2; auto.
Qed.

End InterleaveP.

Lemma example_threads :
  footprint_private nat nat nat Nat.eq_dec ex_next ex_owner ex_c0 /\
  (let c := fst (run nat nat nat Nat.eq_dec ex_next [0; 1; 1; 0] ex_c0) in
   memory _ _ _ c 1 = 7 /\ memory _ _ _ c 2 = 7 /\ memory _ _ _ c 0 = 7).
Proof.
  split.
  - intros t n. destruct (locals nat nat nat (alone nat nat nat Nat.eq_dec ex_next t n ex_c0) t) as [|[|v]]; simpl; auto.
  - vm_compute. auto.
Qed.

Lemma schedules_needs_privacy :
  exists s1 s2, (forall t, steps_of t s1 = steps_of t s2) /\
    locals _ _ _ (fst (run nat nat nat Nat.eq_dec bad_next s1 ex_c0)) 1 <>
    locals _ _ _ (fst (run nat nat nat Nat.eq_dec bad_next s2 ex_c0)) 1.
Proof.
  exists [0; 1], [1; 0]. split.
  - intro t. destruct t as [|[|t]]; vm_compute; reflexivity.
  - vm_compute. discriminate.
Qed.
