From AP.Model Require Import Prelude Bytes Url IriEq.
From AP.Proofs Require Import NlvP.
From Coq Require Import Sorting.Permutation.

Lemma fold_eqb_refl a : fold_eqb a a = true.
Proof. unfold fold_eqb. apply bytes_eqb_refl. Qed.

Lemma bytes_eqb_sym a b : bytes_eqb a b = bytes_eqb b a.
Proof.
  destruct (bytes_eqb a b) eqn:E.
  - apply bytes_eqb_eq in E. subst. symmetry. apply bytes_eqb_refl.
  - symmetry. apply bytes_eqb_neq. apply bytes_eqb_neq in E. congruence.
Qed.

Lemma fold_eqb_sym a b : fold_eqb a b = fold_eqb b a.
Proof. unfold fold_eqb. apply bytes_eqb_sym. Qed.

Lemma fold_eqb_trans a b c : fold_eqb a b = true -> fold_eqb b c = true -> fold_eqb a c = true.
Proof. unfold fold_eqb. rewrite !bytes_eqb_eq. congruence. Qed.

Lemma fold_eqb_eq a b : fold_eqb a b = true <-> lower a = lower b.
Proof. unfold fold_eqb. apply bytes_eqb_eq. Qed.

(* ---- lookup in grouped query values ---- *)
Lemma lookup_values_in k m vs : lookup_values k m = Some vs -> In (k, vs) m.
Proof.
  induction m as [|[k' vs'] r IH]; simpl; [discriminate|].
  destruct (bytes_eqb k k') eqn:E.
  - intros H; inversion H; subst. apply bytes_eqb_eq in E. subst. left; reflexivity.
  - intros H. right. apply IH. exact H.
Qed.

Lemma lookup_values_nodup k m vs : NoDup (map fst m) -> In (k, vs) m -> lookup_values k m = Some vs.
Proof.
  induction m as [|[k' vs'] r IH]; simpl; [tauto|]. intros ND [H|H].
  - inversion H; subst. rewrite bytes_eqb_refl. reflexivity.
  - inversion ND as [|? ? Hn ND']; subst.
    destruct (bytes_eqb k k') eqn:E.
    + apply bytes_eqb_eq in E. subst. exfalso. apply Hn. apply in_map_iff. exists (k', vs). auto.
    + apply IH; assumption.
Qed.

Section Parametric.
  Variable classify : bytes -> url_class.
  Variable qvalues : bytes -> list (bytes * list bytes).
  Variable veq : list bytes -> list bytes -> bool.
  Variable peq : bytes -> bytes -> bool.
  Hypothesis qvalues_nodup : forall q, NoDup (map fst (qvalues q)).
  Hypothesis veq_sym : forall a b, veq a b = veq b a.
  Hypothesis peq_sym : forall a b, peq a b = peq b a.

  (* reflexive on arbitrary byte strings, whatever the URL library does *)
  Lemma iri_equals_refl s cs : iri_equals classify qvalues veq peq s s cs = Some true.
  Proof. unfold iri_equals. destruct cs; rewrite fold_eqb_refl; reflexivity. Qed.

  Lemma queries_equal_imp q1 q2 :
    queries_equal qvalues veq q1 q2 = true -> queries_equal qvalues veq q2 q1 = true.
  Proof.
    unfold queries_equal. rewrite !andb_true_iff, !Nat.eqb_eq, !forallb_forall.
    intros [Hlen Hall]. split; [lia|].
    assert (incl (map fst (qvalues q1)) (map fst (qvalues q2))) as Hincl.
    { intros k Hk. apply in_map_iff in Hk. destruct Hk as [[k' vs] [<- Hin]]. simpl.
      specialize (Hall _ Hin). simpl in Hall.
      destruct (lookup_values k' (qvalues q2)) as [vs2|] eqn:E; [|discriminate].
      apply lookup_values_in in E. apply in_map_iff. exists (k', vs2). auto. }
    assert (incl (map fst (qvalues q2)) (map fst (qvalues q1))) as Hincl'.
    { apply NoDup_length_incl; [apply qvalues_nodup|rewrite !map_length; lia|exact Hincl]. }
    intros [k vs2] Hin2. simpl.
    assert (In k (map fst (qvalues q1))) as Hk1.
    { apply Hincl'. apply in_map_iff. exists (k, vs2). auto. }
    apply in_map_iff in Hk1. destruct Hk1 as [[k1 vs1] [Hk Hin1]]. simpl in Hk. subst k1.
    rewrite (lookup_values_nodup k _ vs1 (qvalues_nodup q1) Hin1).
    specialize (Hall _ Hin1). simpl in Hall.
    rewrite (lookup_values_nodup k _ vs2 (qvalues_nodup q2) Hin2) in Hall.
    rewrite veq_sym. exact Hall.
  Qed.

  Lemma queries_equal_sym q1 q2 : queries_equal qvalues veq q1 q2 = queries_equal qvalues veq q2 q1.
  Proof.
    destruct (queries_equal qvalues veq q1 q2) eqn:E1.
    - symmetry. apply queries_equal_imp; exact E1.
    - destruct (queries_equal qvalues veq q2 q1) eqn:E2; [|reflexivity].
      apply queries_equal_imp in E2. congruence.
  Qed.

  Lemma iris_equal_sym a b cs :
    iris_equal classify qvalues veq peq a b cs = iris_equal classify qvalues veq peq b a cs.
  Proof.
    unfold iris_equal. destruct (classify a) as [u| |], (classify b) as [w| |]; try reflexivity;
      try (rewrite fold_eqb_sym; reflexivity).
    rewrite (fold_eqb_sym (u_host u)), (peq_sym (u_path u)), (queries_equal_sym (u_query u)).
    destruct cs; [rewrite (fold_eqb_sym (u_scheme u))|]; reflexivity.
  Qed.

  (* symmetric on arbitrary byte strings *)
  Lemma iri_equals_sym a b cs :
    iri_equals classify qvalues veq peq a b cs = iri_equals classify qvalues veq peq b a cs.
  Proof.
    unfold iri_equals. rewrite iris_equal_sym.
    destruct cs; rewrite fold_eqb_sym; reflexivity.
  Qed.
End Parametric.

(* ---- the concrete instance ---- *)

Lemma count_occ_b_spec v l : count_occ_b v l = count_occ (list_eq_dec Byte.byte_eq_dec) l v.
Proof.
  unfold count_occ_b. induction l as [|x r IH]; simpl; [reflexivity|].
  destruct (list_eq_dec Byte.byte_eq_dec x v) as [->|Hne].
  - rewrite bytes_eqb_refl. simpl. congruence.
  - assert (bytes_eqb v x = false) as -> by (apply bytes_eqb_neq; congruence). exact IH.
Qed.

Lemma count_split (x : bytes) l : In x l -> exists l1 l2, l = l1 ++ x :: l2.
Proof. apply in_split. Qed.

Lemma count_occ_b_app v l1 l2 : count_occ_b v (l1 ++ l2) = count_occ_b v l1 + count_occ_b v l2.
Proof. unfold count_occ_b. rewrite filter_app, app_length. reflexivity. Qed.

Lemma count_occ_b_cons v x l :
  count_occ_b v (x :: l) = (if bytes_eqb v x then 1 else 0) + count_occ_b v l.
Proof. unfold count_occ_b. simpl. destruct (bytes_eqb v x); reflexivity. Qed.

Lemma count_occ_b_pos v l : 0 < count_occ_b v l -> In v l.
Proof.
  induction l as [|x r IH]; [simpl; unfold count_occ_b; simpl; lia|].
  rewrite count_occ_b_cons. destruct (bytes_eqb v x) eqn:E.
  - apply bytes_eqb_eq in E. subst. intros _. left; reflexivity.
  - simpl. intros H. right. apply IH. exact H.
Qed.

(* same length + every value of [a] equally frequent in both => all values equally frequent *)
Lemma counts_all a : forall b,
  length a = length b -> (forall v, In v a -> count_occ_b v a = count_occ_b v b) ->
  forall v, count_occ_b v a = count_occ_b v b.
Proof.
  induction a as [|x a IH]; intros b Hlen Hc v.
  - destruct b; [reflexivity|discriminate].
  - assert (In x b) as Hxb.
    { apply count_occ_b_pos. rewrite <- Hc by (left; reflexivity).
      rewrite count_occ_b_cons, bytes_eqb_refl. lia. }
    destruct (in_split _ _ Hxb) as [b1 [b2 ->]].
    assert (forall w, count_occ_b w (b1 ++ x :: b2) = (if bytes_eqb w x then 1 else 0) + count_occ_b w (b1 ++ b2)) as Hb.
    { intros w. rewrite !count_occ_b_app, count_occ_b_cons. lia. }
    assert (forall w, count_occ_b w a = count_occ_b w (b1 ++ b2)) as IH'.
    { apply IH.
      - rewrite app_length in *. simpl in *. lia.
      - intros w Hw. specialize (Hc w (or_intror Hw)). rewrite count_occ_b_cons, Hb in Hc. lia. }
    rewrite count_occ_b_cons, Hb, IH'. reflexivity.
Qed.

Lemma values_eq_perm a b : values_eq a b = true <-> Permutation a b.
Proof.
  unfold values_eq. rewrite andb_true_iff, Nat.eqb_eq, forallb_forall. split.
  - intros [Hlen Hc]. apply (Permutation_count_occ (list_eq_dec Byte.byte_eq_dec)). intros v.
    rewrite <- !count_occ_b_spec. apply counts_all; [exact Hlen|].
    intros w Hw. apply Nat.eqb_eq. apply Hc. exact Hw.
  - intros P. split; [apply Permutation_length; exact P|].
    intros v _. apply Nat.eqb_eq. rewrite !count_occ_b_spec.
    apply (Permutation_count_occ (list_eq_dec Byte.byte_eq_dec)). exact P.
Qed.

Lemma values_eq_sym a b : values_eq a b = values_eq b a.
Proof.
  destruct (values_eq a b) eqn:E1.
  - apply values_eq_perm in E1. symmetry. apply values_eq_perm. apply Permutation_sym. exact E1.
  - destruct (values_eq b a) eqn:E2; [|reflexivity].
    apply values_eq_perm in E2. apply Permutation_sym in E2. apply values_eq_perm in E2. congruence.
Qed.

Lemma values_eq_trans a b c : values_eq a b = true -> values_eq b c = true -> values_eq a c = true.
Proof. rewrite !values_eq_perm. apply Permutation_trans. Qed.

Lemma group_add_keys k v m :
  map fst (group_add k v m) = if existsb (bytes_eqb k) (map fst m) then map fst m else map fst m ++ [k].
Proof.
  induction m as [|[k' vs] r IH]; simpl; [reflexivity|].
  destruct (bytes_eqb k k') eqn:E; simpl; [reflexivity|].
  rewrite IH. destruct (existsb (bytes_eqb k) (map fst r)); reflexivity.
Qed.

Lemma group_add_nodup k v m : NoDup (map fst m) -> NoDup (map fst (group_add k v m)).
Proof.
  intros ND. rewrite group_add_keys. destruct (existsb (bytes_eqb k) (map fst m)) eqn:E; [exact ND|].
  apply (Permutation_NoDup (Permutation_cons_append (map fst m) k)). constructor; [|exact ND].
  intros Hin. assert (existsb (bytes_eqb k) (map fst m) = true) as H.
  { apply existsb_exists. exists k. split; [exact Hin|apply bytes_eqb_refl]. }
  congruence.
Qed.

Lemma query_values_nodup q : NoDup (map fst (query_values q)).
Proof.
  unfold query_values.
  assert (forall l m, NoDup (map fst m) ->
            NoDup (map fst (fold_left (fun m kv => group_add (fst kv) (snd kv) m) l m))) as H.
  { induction l as [|kv l IH]; intros m ND; simpl; [exact ND|]. apply IH. apply group_add_nodup. exact ND. }
  apply H. constructor.
Qed.

Lemma paths_equal_sym clean a b : paths_equal clean a b = paths_equal clean b a.
Proof. unfold paths_equal. apply fold_eqb_sym. Qed.

Lemma paths_equal_trans clean a b c :
  paths_equal clean a b = true -> paths_equal clean b c = true -> paths_equal clean a c = true.
Proof. unfold paths_equal. apply fold_eqb_trans. Qed.

(* the concrete IRI equality is reflexive and symmetric on ALL byte strings
   (Some true / equal answers, including the "outside the grammar" answer None) *)
Lemma iri_equals_m_refl s cs : iri_equals_m s s cs = Some true.
Proof. apply iri_equals_refl. Qed.

Lemma iri_equals_m_sym a b cs : iri_equals_m a b cs = iri_equals_m b a cs.
Proof.
  apply iri_equals_sym.
  - exact query_values_nodup.
  - exact values_eq_sym.
  - apply paths_equal_sym.
Qed.

Lemma iri_eqb_refl s cs : iri_eqb s s cs = true.
Proof. unfold iri_eqb. rewrite iri_equals_m_refl. reflexivity. Qed.

Lemma iri_eqb_sym a b cs : iri_eqb a b cs = iri_eqb b a cs.
Proof. unfold iri_eqb. rewrite iri_equals_m_sym. reflexivity. Qed.

Lemma iris_contains_spec l x : iris_contains l x = existsb (fun iri => iri_eqb x iri false) l.
Proof. destruct l; reflexivity. Qed.

(* ---- the URL comparison (irisEqual on two valid URLs) is the kernel of a normal form ---- *)

(* queries compare equal iff for every key the value lists are permutations of each other *)
Definition values_of (k : bytes) (q : bytes) : list bytes :=
  match lookup_values k (query_values q) with Some vs => vs | None => [] end.

Lemma lookup_none_notin k m : lookup_values k m = None <-> ~ In k (map fst m).
Proof.
  induction m as [|[k' vs] r IH]; simpl; [tauto|].
  destruct (bytes_eqb k k') eqn:E.
  - apply bytes_eqb_eq in E. subst. split; [discriminate|]. intros H; exfalso; apply H; auto.
  - rewrite IH. apply bytes_eqb_neq in E. split; [intros H [H1|H1]; [congruence|auto]|intros H H1; apply H; auto].
Qed.

Lemma group_add_nonempty k v m :
  (forall k' vs, In (k', vs) m -> vs <> []) -> forall k' vs, In (k', vs) (group_add k v m) -> vs <> [].
Proof.
  induction m as [|[k0 vs0] r IH]; simpl; intros Hm k' vs.
  - intros [H|[]]. inversion H. discriminate.
  - destruct (bytes_eqb k k0) eqn:E; simpl.
    + intros [H|H].
      * inversion H; subst. destruct vs0; discriminate.
      * eapply Hm. right. exact H.
    + intros [H|H].
      * eapply Hm. left. exact H.
      * eapply IH; [|exact H]. intros k1 vs1 H1. eapply Hm. right. exact H1.
Qed.

Lemma query_values_nonempty q k vs : In (k, vs) (query_values q) -> vs <> [].
Proof.
  unfold query_values.
  assert (forall l m, (forall k' vs', In (k', vs') m -> vs' <> []) ->
            forall k' vs', In (k', vs') (fold_left (fun m kv => group_add (fst kv) (snd kv) m) l m) -> vs' <> []) as H.
  { induction l as [|kv l IH]; intros m Hm; simpl; [exact Hm|]. apply IH. apply group_add_nonempty. exact Hm. }
  apply H. intros k' vs' [].
Qed.

Lemma queries_equal_char q1 q2 :
  queries_equal query_values values_eq q1 q2 = true <->
  forall k, Permutation (values_of k q1) (values_of k q2).
Proof.
  split.
  - intros H k.
    assert (queries_equal query_values values_eq q2 q1 = true) as H'.
    { rewrite queries_equal_sym; [exact H|exact query_values_nodup|exact values_eq_sym]. }
    unfold queries_equal in H, H'. rewrite andb_true_iff, forallb_forall in H, H'.
    destruct H as [_ H], H' as [_ H']. unfold values_of.
    destruct (lookup_values k (query_values q1)) as [vs1|] eqn:E1.
    + apply lookup_values_in in E1. specialize (H _ E1). simpl in H.
      destruct (lookup_values k (query_values q2)) as [vs2|]; [|discriminate].
      apply values_eq_perm. exact H.
    + destruct (lookup_values k (query_values q2)) as [vs2|] eqn:E2; [|constructor].
      apply lookup_values_in in E2. specialize (H' _ E2). simpl in H'. rewrite E1 in H'. discriminate.
  - intros H. unfold queries_equal. rewrite andb_true_iff, Nat.eqb_eq, forallb_forall.
    assert (forall qa qb, (forall k, Permutation (values_of k qa) (values_of k qb)) ->
              incl (map fst (query_values qa)) (map fst (query_values qb))) as Hincl.
    { intros qa qb Hp k Hk. apply in_map_iff in Hk. destruct Hk as [[k' vs] [<- Hin]]. simpl.
      specialize (Hp k'). unfold values_of in Hp.
      rewrite (lookup_values_nodup _ _ _ (query_values_nodup qa) Hin) in Hp.
      destruct (lookup_values k' (query_values qb)) as [vs2|] eqn:E.
      - apply lookup_values_in in E. apply in_map_iff. exists (k', vs2). auto.
      - apply Permutation_sym, Permutation_nil in Hp. exfalso. eapply query_values_nonempty; eauto. }
    split.
    + apply Nat.le_antisymm; rewrite <- !(map_length fst);
        apply NoDup_incl_length; try apply query_values_nodup; apply Hincl; [exact H|].
      intros k. apply Permutation_sym. apply H.
    + intros [k vs] Hin. simpl. specialize (H k). unfold values_of in H.
      rewrite (lookup_values_nodup _ _ _ (query_values_nodup q1) Hin) in H.
      destruct (lookup_values k (query_values q2)) as [vs2|] eqn:E.
      * apply values_eq_perm. exact H.
      * apply Permutation_sym, Permutation_nil in H. exfalso. eapply query_values_nonempty; eauto.
Qed.

(* normal form of a valid URL under irisEqual *)
Definition url_same (cs : bool) (u w : url) : Prop :=
  (cs = true -> lower (u_scheme u) = lower (u_scheme w)) /\
  lower (u_host u) = lower (u_host w) /\
  lower (clean_url_path path_clean (u_path u)) = lower (clean_url_path path_clean (u_path w)) /\
  forall k, Permutation (values_of k (u_query u)) (values_of k (u_query w)).

Lemma iris_equal_char a b cs u w :
  url_classify a = UValid u -> url_classify b = UValid w ->
  (iris_equal url_classify query_values values_eq (paths_equal path_clean) a b cs = Some true <-> url_same cs u w).
Proof.
  intros Ha Hb. unfold iris_equal. rewrite Ha, Hb. unfold url_same.
  split.
  - intros H. injection H as H1. rewrite !andb_true_iff in H1.
    destruct H1 as [[[Hs Hh] Hp] Hq]. split; [|split; [|split]].
    + intros Hcs. rewrite Hcs in Hs. apply fold_eqb_eq. exact Hs.
    + apply fold_eqb_eq. exact Hh.
    + apply fold_eqb_eq. exact Hp.
    + apply queries_equal_char. exact Hq.
  - intros [Hs [Hh [Hp Hq]]]. f_equal. rewrite !andb_true_iff. split; [split; [split|]|].
    + destruct cs; [apply fold_eqb_eq; apply Hs; reflexivity|reflexivity].
    + apply fold_eqb_eq. exact Hh.
    + apply fold_eqb_eq. exact Hp.
    + apply queries_equal_char. exact Hq.
Qed.

Lemma url_same_equiv cs :
  (forall u, url_same cs u u) /\
  (forall u w, url_same cs u w -> url_same cs w u) /\
  (forall u w x, url_same cs u w -> url_same cs w x -> url_same cs u x).
Proof.
  unfold url_same. repeat split; intros; try tauto; try reflexivity.
  - destruct H as [H _]. symmetry. auto.
  - destruct H as [_ [H _]]. symmetry. auto.
  - destruct H as [_ [_ [H _]]]. symmetry. auto.
  - destruct H as [_ [_ [_ H]]]. apply Permutation_sym. auto.
  - destruct H as [H _], H0 as [H0 _]. etransitivity; auto.
  - destruct H as [_ [H _]], H0 as [_ [H0 _]]. etransitivity; eauto.
  - destruct H as [_ [_ [H _]]], H0 as [_ [_ [H0 _]]]. etransitivity; eauto.
  - destruct H as [_ [_ [_ H]]], H0 as [_ [_ [_ H0]]]. eapply Permutation_trans; eauto.
Qed.
