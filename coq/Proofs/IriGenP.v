(* IRI.Equals as the kernel of a normal form, generic in the URL parser: whenever the string fast path of
   IRI.Equals implies case-equal scheme, host, cleaned path and query for the parser at hand (hypothesis
   [fast], proved in Proofs/IriNfP.v for Url.url_classify and in Proofs/IriXP.v for CollIri.url_classify_x),
   the whole comparison is  nf_eqb (nf cs a) (nf cs b)  on IRIs the parser accepts whose queries are in one
   letter case.  Model: Model/IriEq.v, Model/IriNf.v. *)
From AP.Model Require Import Prelude Bytes Url IriEq IriNf.
From AP.Proofs Require Import NlvP IriEqP LowerP SortP.
From Coq Require Import Sorting.Permutation.

(* ================================================================ IRI.Equals = fast path, else URL comparison *)
Definition strip_for (cs : bool) (s : bytes) : bytes :=
  if cs then strip_fragment s else strip_scheme (strip_fragment s).

Lemma iri_equals_unfold classify qvalues veq peq i w cs :
  iri_equals classify qvalues veq peq i w cs =
  if fold_eqb (strip_for cs i) (strip_for cs w) then Some true else iris_equal classify qvalues veq peq i w cs.
Proof. unfold iri_equals, strip_for. destruct cs; reflexivity. Qed.

(* ================================================================ queries: per-key value lists and the pair multiset *)
Definition vals (k : bytes) (l : list (bytes * bytes)) : list bytes :=
  map snd (filter (fun kv => bytes_eqb k (fst kv)) l).
Definition lv (k : bytes) (m : list (bytes * list bytes)) : list bytes :=
  match lookup_values k m with Some vs => vs | None => [] end.

Lemma lv_group_add k k' v m : lv k (group_add k' v m) = lv k m ++ (if bytes_eqb k k' then [v] else []).
Proof.
  unfold lv. induction m as [|[k0 vs0] m IH]; simpl.
  - destruct (bytes_eqb k k'); reflexivity.
  - destruct (bytes_eqb k' k0) eqn:E0; simpl.
    + apply bytes_eqb_eq in E0. subst k0. destruct (bytes_eqb k k') eqn:E; [reflexivity|].
      destruct (lookup_values k m); rewrite app_nil_r; reflexivity.
    + destruct (bytes_eqb k k0) eqn:E1.
      * assert (bytes_eqb k k' = false) as ->; [|rewrite app_nil_r; reflexivity].
        apply bytes_eqb_eq in E1. subst k0. apply bytes_eqb_neq. apply bytes_eqb_neq in E0. congruence.
      * exact IH.
Qed.

Lemma values_of_vals k q : values_of k q = vals k (query_pairs q).
Proof.
  unfold values_of, query_values. fold (lv k (fold_left (fun m kv => group_add (fst kv) (snd kv) m) (query_pairs q) [])).
  assert (forall l m, lv k (fold_left (fun m kv => group_add (fst kv) (snd kv) m) l m) = lv k m ++ vals k l) as H.
  { induction l as [|[k' v] l IH]; intros m; simpl.
    - unfold vals. simpl. rewrite app_nil_r. reflexivity.
    - rewrite IH, lv_group_add, <- app_assoc. f_equal. unfold vals. simpl.
      destruct (bytes_eqb k k'); reflexivity. }
  rewrite H. reflexivity.
Qed.

Lemma Permutation_filter' {A} (f : A -> bool) l l' : Permutation l l' -> Permutation (filter f l) (filter f l').
Proof.
  induction 1 as [|x l l' P IH|x y l|l l' l'' P1 IH1 P2 IH2]; simpl.
  - constructor.
  - destruct (f x); [constructor|]; exact IH.
  - destruct (f x), (f y); try apply Permutation_refl. apply perm_swap.
  - eapply Permutation_trans; eauto.
Qed.

Lemma pair_dec : forall p q : bytes * bytes, {p = q} + {p <> q}.
Proof. decide equality; apply (list_eq_dec Byte.byte_eq_dec). Qed.

Lemma count_pair_vals k v l :
  count_occ pair_dec l (k, v) = count_occ (list_eq_dec Byte.byte_eq_dec) (vals k l) v.
Proof.
  unfold vals. induction l as [|[k' v'] l IH]; [reflexivity|].
  cbn [filter fst]. destruct (bytes_eqb k k') eqn:E.
  - apply bytes_eqb_eq in E. subst k'. cbn [map snd].
    destruct (list_eq_dec Byte.byte_eq_dec v' v) as [e'|ne'].
    + subst v'. rewrite !count_occ_cons_eq by reflexivity. f_equal. exact IH.
    + rewrite !count_occ_cons_neq by congruence. exact IH.
  - apply bytes_eqb_neq in E. rewrite count_occ_cons_neq by congruence. exact IH.
Qed.

Lemma perkey_perm_pairs l l' : (forall k, Permutation (vals k l) (vals k l')) <-> Permutation l l'.
Proof.
  split.
  - intros H. apply (Permutation_count_occ pair_dec). intros [k v]. rewrite !count_pair_vals.
    apply (Permutation_count_occ (list_eq_dec Byte.byte_eq_dec)). apply H.
  - intros P k. unfold vals. apply Permutation_map. apply Permutation_filter'. exact P.
Qed.

Lemma url_same_nf cs u w : url_same cs u w <-> nf_url cs u = nf_url cs w.
Proof.
  unfold url_same, nf_url. split.
  - intros [Hs [Hh [Hp Hq]]]. f_equal; [f_equal; [f_equal|]|]; auto.
    + destruct cs; auto.
    + apply sort_pairs_canonical. apply perkey_perm_pairs. intros k. rewrite <- !values_of_vals. apply Hq.
  - intros H. inversion H as [[H1 H2 H3 H4]]. split; [|split; [|split]]; auto.
    + intros ->. exact H1.
    + intros k. rewrite !values_of_vals. apply perkey_perm_pairs. apply sort_pairs_canonical. exact H4.
Qed.

Lemma queries_equal_refl q : queries_equal query_values values_eq q q = true.
Proof. apply queries_equal_char. intros k. apply Permutation_refl. Qed.

(* ================================================================ generic in the URL parser *)
Section Gen.
  Variable classify : bytes -> url_class.
  (* the fast path implies the URL comparison of scheme, host and cleaned path, and case-equal queries *)
  Hypothesis fast : forall a b cs u w,
    classify a = UValid u -> classify b = UValid w ->
    fold_eqb (strip_for cs a) (strip_for cs b) = true ->
    (cs = true -> lower (u_scheme u) = lower (u_scheme w)) /\
    lower (u_host u) = lower (u_host w) /\
    lower (clean_url_path path_clean (u_path u)) = lower (clean_url_path path_clean (u_path w)) /\
    lower (u_query u) = lower (u_query w).

  Notation eqb_g := (iri_eqb_gen classify).
  Notation nf_g := (nf_gen classify).
  Notation dom_g := (iri_dom_gen classify).

  Lemma iris_equal_char_g a b cs u w :
    classify a = UValid u -> classify b = UValid w ->
    (iris_equal classify query_values values_eq (paths_equal path_clean) a b cs = Some true <-> url_same cs u w).
  Proof.
    intros Ha Hb. unfold iris_equal. rewrite Ha, Hb. unfold url_same.
    split.
    - intros H. injection H as H1. rewrite !andb_true_iff in H1.
      destruct H1 as [[[Hs Hh] Hp] Hq]. split; [|split; [|split]].
      + intros Hcs. rewrite Hcs in Hs. apply fold_eqb_eq. exact Hs.
      + apply fold_eqb_eq. exact Hh.
      + apply fold_eqb_eq. exact Hp.
      + apply queries_equal_char. exact Hq.
    - intros [Hs [Hh [Hp Hq]]]. f_equal. rewrite !andb_true_iff. split; [split; [split|]|].
      + destruct cs; [apply fold_eqb_eq; apply Hs; reflexivity|reflexivity].
      + apply fold_eqb_eq. exact Hh.
      + apply fold_eqb_eq. exact Hp.
      + apply queries_equal_char. exact Hq.
  Qed.

  Lemma eqb_valid_g a b cs u w :
    classify a = UValid u -> classify b = UValid w ->
    eqb_g a b cs = true <->
    (fold_eqb (strip_for cs a) (strip_for cs b) = true \/ url_same cs u w).
  Proof.
    intros Ha Hb. unfold iri_eqb_gen. rewrite iri_equals_unfold.
    destruct (fold_eqb (strip_for cs a) (strip_for cs b)); [tauto|].
    pose proof (iris_equal_char_g a b cs u w Ha Hb) as C.
    destruct (iris_equal classify query_values values_eq (paths_equal path_clean) a b cs) as [[|]|] eqn:E.
    - split; [intros _; right; apply C; reflexivity|reflexivity].
    - split; [discriminate|]. intros [H|H]; [discriminate|]. apply C in H. discriminate.
    - split; [discriminate|]. intros [H|H]; [discriminate|]. apply C in H. discriminate.
  Qed.

  Lemma eqb_refl_g a cs : eqb_g a a cs = true.
  Proof. unfold iri_eqb_gen. rewrite iri_equals_refl. reflexivity. Qed.

  Lemma eqb_sym_g a b cs : eqb_g a b cs = eqb_g b a cs.
  Proof.
    unfold iri_eqb_gen. rewrite (iri_equals_sym classify query_values values_eq (paths_equal path_clean)); auto.
    - exact query_values_nodup.
    - exact values_eq_sym.
    - apply paths_equal_sym.
  Qed.

  (* without any condition on the letter case of the queries: what an answer "equal" implies *)
  Lemma eqb_true_parts_g a b cs u w :
    classify a = UValid u -> classify b = UValid w -> eqb_g a b cs = true ->
    (cs = true -> lower (u_scheme u) = lower (u_scheme w)) /\
    lower (u_host u) = lower (u_host w) /\
    lower (clean_url_path path_clean (u_path u)) = lower (clean_url_path path_clean (u_path w)) /\
    (lower (u_query u) = lower (u_query w) \/
     Permutation (query_pairs (u_query u)) (query_pairs (u_query w))).
  Proof.
    intros Ha Hb H. apply (eqb_valid_g a b cs u w Ha Hb) in H. destruct H as [H|H].
    - destruct (fast a b cs u w Ha Hb H) as [Hs [Hh [Hp Hq]]].
      split; [exact Hs|]. split; [exact Hh|]. split; [exact Hp|left; exact Hq].
    - destruct H as [Hs [Hh [Hp Hq]]]. split; [exact Hs|]. split; [exact Hh|]. split; [exact Hp|right].
      apply perkey_perm_pairs. intros k. rewrite <- !values_of_vals. apply Hq.
  Qed.

  Lemma eqb_differ_host_path_g a b cs u w :
    classify a = UValid u -> classify b = UValid w ->
    lower (u_host u) <> lower (u_host w) \/
    lower (clean_url_path path_clean (u_path u)) <> lower (clean_url_path path_clean (u_path w)) ->
    eqb_g a b cs = false.
  Proof.
    intros Ha Hb Hd. destruct (eqb_g a b cs) eqn:E; [|reflexivity].
    destruct (eqb_true_parts_g a b cs u w Ha Hb E) as [_ [Hh [Hp _]]]. tauto.
  Qed.

  Section OneCase.
    (* a class of query strings on which lower-casing is injective: "query strings in one letter case" *)
    Variable qok : bytes -> bool.
    Hypothesis qok_inj : forall q q', qok q = true -> qok q' = true -> lower q = lower q' -> q = q'.

    Lemma fast_url_same_g a b cs u w :
      classify a = UValid u -> classify b = UValid w ->
      qok (u_query u) = true -> qok (u_query w) = true ->
      fold_eqb (strip_for cs a) (strip_for cs b) = true -> url_same cs u w.
    Proof.
      intros Ha Hb Qa Qb Hf. destruct (fast a b cs u w Ha Hb Hf) as [Hs [Hh [Hp Hq]]].
      split; [exact Hs|]. split; [exact Hh|]. split; [exact Hp|].
      rewrite (qok_inj _ _ Qa Qb Hq). intros k. apply Permutation_refl.
    Qed.

    Lemma eqb_url_same_g a b cs u w :
      classify a = UValid u -> classify b = UValid w ->
      qok (u_query u) = true -> qok (u_query w) = true ->
      (eqb_g a b cs = true <-> url_same cs u w).
    Proof.
      intros Ha Hb Qa Qb. rewrite (eqb_valid_g a b cs u w Ha Hb). split; [|auto].
      intros [H|H]; [eapply fast_url_same_g; eauto|exact H].
    Qed.

    (* the whole of IRI.Equals - fast path included - is the kernel of the normal form *)
    Lemma eqb_nf_g a b cs :
      dom_g qok a = true -> dom_g qok b = true ->
      eqb_g a b cs = nf_eqb (nf_g cs a) (nf_g cs b).
    Proof.
      unfold iri_dom_gen, nf_gen. destruct (classify a) as [u| |] eqn:Ha; try discriminate.
      destruct (classify b) as [w| |] eqn:Hb; try discriminate. intros Qa Qb. cbn [nf_eqb].
      pose proof (eqb_url_same_g a b cs u w Ha Hb Qa Qb) as C. rewrite url_same_nf, <- nform_eqb_eq in C.
      destruct (eqb_g a b cs), (nform_eqb (nf_url cs u) (nf_url cs w)); try reflexivity.
      - symmetry. apply C. reflexivity.
      - apply C. reflexivity.
    Qed.

    Lemma dom_nf_g a cs : dom_g qok a = true -> exists x, nf_g cs a = Some x.
    Proof. unfold iri_dom_gen, nf_gen. destruct (classify a); try discriminate. eauto. Qed.

    Lemma eqb_nf_eq_g a b cs :
      dom_g qok a = true -> dom_g qok b = true ->
      (eqb_g a b cs = true <-> nf_g cs a = nf_g cs b).
    Proof.
      intros Da Db. rewrite (eqb_nf_g a b cs Da Db).
      destruct (dom_nf_g a cs Da) as [x ->]. destruct (dom_nf_g b cs Db) as [y ->]. simpl.
      rewrite nform_eqb_eq. split; congruence.
    Qed.

    Lemma eqb_trans_g a b c cs :
      dom_g qok a = true -> dom_g qok b = true -> dom_g qok c = true ->
      eqb_g a b cs = true -> eqb_g b c cs = true -> eqb_g a c cs = true.
    Proof. intros Da Db Dc. rewrite !eqb_nf_eq_g by assumption. congruence. Qed.

    Lemma existsb_nf_g l x :
      dom_g qok x = true -> forallb (dom_g qok) l = true ->
      existsb (fun i => eqb_g x i false) l = existsb (fun i => nf_eqb (nf_g false x) (nf_g false i)) l.
    Proof.
      intros Dx Dl. induction l as [|i l IH]; [reflexivity|].
      simpl in Dl. rewrite andb_true_iff in Dl. destruct Dl as [Di Dl]. simpl.
      rewrite (eqb_nf_g x i false Dx Di), IH by exact Dl. reflexivity.
    Qed.

    (* IRIs whose normal forms without scheme differ are unequal, whatever the flag *)
    Lemma eqb_differ_g a b cs x y :
      dom_g qok a = true -> dom_g qok b = true ->
      nf_g false a = Some x -> nf_g false b = Some y -> nform_eqb x y = false -> eqb_g a b cs = false.
    Proof.
      intros Da Db Na Nb Hd. destruct (eqb_g a b cs) eqn:E; [|reflexivity].
      apply (eqb_nf_eq_g a b cs Da Db) in E. unfold nf_gen in *.
      destruct (classify a) as [u| |]; try discriminate. destruct (classify b) as [w| |]; try discriminate.
      inversion Na; inversion Nb; subst x y.
      assert (nform_eqb (nf_url false u) (nf_url false w) = true) as T; [|congruence].
      apply nform_eqb_eq. inversion E as [[E1 E2 E3 E4]]. unfold nf_url. rewrite E2, E3, E4. reflexivity.
    Qed.
  End OneCase.
End Gen.
