(* IRI.Equals over the wide models (Model/IriEqU.iri_equals_f sfold_eqb ...) as the kernel of a normal form,
   generic in the URL parser, the query parser and the domain: whenever, on the domain, the string fast path
   implies the URL comparison (hypothesis [fast]; proved for url_classify_u / query_pairs_u in Proofs/IriUP.v),
   the whole comparison is equality of the normal forms.  The counterpart of Proofs/IriGenP.v with Unicode
   folding (canonical rune lists instead of ASCII lower-casing) and decoded query pairs. *)
From AP.Model Require Import Prelude Bytes Url IriEq IriNf Vocab Pred CollIri Utf8 FoldTab Fold UrlU IriEqU.
From AP.Proofs Require Import NlvP LowerP IriEqP SortP IriGenP IriNfP Utf8P FoldP.
From Coq Require Import Sorting.Permutation.

(* [iri_equals_f fold_eqb] is the code of Model/IriEq.v *)
Lemma iri_equals_f_plain classify qvalues veq peq i w cs :
  iri_equals_f fold_eqb classify qvalues veq peq i w cs = iri_equals classify qvalues veq peq i w cs.
Proof. reflexivity. Qed.

Lemma iri_equals_f_unfold feq classify qvalues veq peq i w cs :
  iri_equals_f feq classify qvalues veq peq i w cs =
  if feq (strip_for cs i) (strip_for cs w) then Some true else iris_equal_f feq classify qvalues veq peq i w cs.
Proof. unfold iri_equals_f, strip_for. destruct cs; reflexivity. Qed.

(* ================================================================ grouped query values of a list of pairs *)
Lemma lv_group_pairs k l : lv k (group_pairs l) = vals k l.
Proof.
  unfold group_pairs.
  assert (forall l m, lv k (fold_left (fun m kv => group_add (fst kv) (snd kv) m) l m) = lv k m ++ vals k l) as H.
  { clear l. induction l as [|[k' v] l IH]; intros m; simpl.
    - unfold vals. simpl. rewrite app_nil_r. reflexivity.
    - rewrite IH, lv_group_add, <- app_assoc. f_equal. unfold vals. simpl.
      destruct (bytes_eqb k k'); reflexivity. }
  rewrite H. reflexivity.
Qed.

Lemma group_pairs_nodup l : NoDup (map fst (group_pairs l)).
Proof.
  unfold group_pairs.
  assert (forall l m, NoDup (map fst m) ->
            NoDup (map fst (fold_left (fun m kv => group_add (fst kv) (snd kv) m) l m))) as H.
  { clear l. induction l as [|kv l IH]; intros m ND; simpl; [exact ND|]. apply IH. apply group_add_nodup. exact ND. }
  apply H. constructor.
Qed.

Lemma group_pairs_nonempty l k vs : In (k, vs) (group_pairs l) -> vs <> [].
Proof.
  unfold group_pairs.
  assert (forall l m, (forall k' vs', In (k', vs') m -> vs' <> []) ->
            forall k' vs', In (k', vs') (fold_left (fun m kv => group_add (fst kv) (snd kv) m) l m) -> vs' <> []) as H.
  { clear l. induction l as [|kv l IH]; intros m Hm; simpl; [exact Hm|]. apply IH. apply group_add_nonempty. exact Hm. }
  apply H. intros k' vs' [].
Qed.

(* the comparison irisEqual makes of two URL.Query() maps *)
Definition maps_equal (m1 m2 : list (bytes * list bytes)) : bool :=
  Nat.eqb (length m1) (length m2) &&
  forallb (fun kv => match lookup_values (fst kv) m2 with
                     | Some vs2 => values_eq (snd kv) vs2
                     | None => false
                     end) m1.

Lemma queries_equal_maps qv q1 q2 : queries_equal qv values_eq q1 q2 = maps_equal (qv q1) (qv q2).
Proof. reflexivity. Qed.

Lemma maps_equal_char l1 l2 : maps_equal (group_pairs l1) (group_pairs l2) = true <-> Permutation l1 l2.
Proof.
  rewrite <- perkey_perm_pairs.
  assert (Half : forall la lb, maps_equal (group_pairs la) (group_pairs lb) = true ->
            forall k, lookup_values k (group_pairs la) <> None -> Permutation (vals k la) (vals k lb)).
  { intros la lb H k Hk. unfold maps_equal in H. rewrite andb_true_iff, forallb_forall in H. destruct H as [_ H].
    rewrite <- !lv_group_pairs. unfold lv.
    destruct (lookup_values k (group_pairs la)) as [vs1|] eqn:E1; [|congruence].
    apply lookup_values_in in E1. specialize (H _ E1). simpl in H.
    destruct (lookup_values k (group_pairs lb)) as [vs2|]; [|discriminate]. apply values_eq_perm. exact H. }
  assert (Incl : forall la lb, (forall k, Permutation (vals k la) (vals k lb)) ->
            incl (map fst (group_pairs la)) (map fst (group_pairs lb))).
  { intros la lb Hp k Hk. apply in_map_iff in Hk. destruct Hk as [[k' vs] [<- Hin]]. simpl.
    specialize (Hp k'). rewrite <- !lv_group_pairs in Hp. unfold lv in Hp.
    rewrite (lookup_values_nodup _ _ _ (group_pairs_nodup la) Hin) in Hp.
    destruct (lookup_values k' (group_pairs lb)) as [vs2|] eqn:E.
    - apply lookup_values_in in E. apply in_map_iff. exists (k', vs2). auto.
    - apply Permutation_sym, Permutation_nil in Hp. exfalso. eapply group_pairs_nonempty; eauto. }
  split.
  - intros H k.
    assert (H' : maps_equal (group_pairs l2) (group_pairs l1) = true).
    { (* symmetry of the comparison *)
      pose proof (queries_equal_sym (fun _ : bytes => []) values_eq) as _.
      unfold maps_equal in *. rewrite andb_true_iff, Nat.eqb_eq, forallb_forall in *. destruct H as [Hlen Hall]. split; [lia|].
      assert (incl (map fst (group_pairs l1)) (map fst (group_pairs l2))) as Hi.
      { intros x Hx. apply in_map_iff in Hx. destruct Hx as [[k' vs] [<- Hin]]. simpl.
        specialize (Hall _ Hin). simpl in Hall.
        destruct (lookup_values k' (group_pairs l2)) as [vs2|] eqn:E; [|discriminate].
        apply lookup_values_in in E. apply in_map_iff. exists (k', vs2). auto. }
      assert (incl (map fst (group_pairs l2)) (map fst (group_pairs l1))) as Hi'.
      { apply NoDup_length_incl; [apply group_pairs_nodup|rewrite !map_length; lia|exact Hi]. }
      intros [k2 vs2] Hin2. simpl.
      assert (In k2 (map fst (group_pairs l1))) as Hk1.
      { apply Hi'. apply in_map_iff. exists (k2, vs2). auto. }
      apply in_map_iff in Hk1. destruct Hk1 as [[k1 vs1] [Hk Hin1]]. simpl in Hk. subst k1.
      rewrite (lookup_values_nodup k2 _ vs1 (group_pairs_nodup l1) Hin1).
      specialize (Hall _ Hin1). simpl in Hall.
      rewrite (lookup_values_nodup k2 _ vs2 (group_pairs_nodup l2) Hin2) in Hall.
      rewrite values_eq_sym. exact Hall. }
    destruct (lookup_values k (group_pairs l1)) as [vs1|] eqn:E1.
    + apply (Half l1 l2 H k). congruence.
    + destruct (lookup_values k (group_pairs l2)) as [vs2|] eqn:E2.
      * apply Permutation_sym. apply (Half l2 l1 H' k). congruence.
      * rewrite <- !lv_group_pairs. unfold lv. rewrite E1, E2. constructor.
  - intros H. unfold maps_equal. rewrite andb_true_iff, Nat.eqb_eq, forallb_forall. split.
    + apply Nat.le_antisymm; rewrite <- !(map_length fst);
        apply NoDup_incl_length; try apply group_pairs_nodup; apply Incl; [exact H|].
      intros k. apply Permutation_sym. apply H.
    + intros [k vs] Hin. simpl. specialize (H k). rewrite <- !lv_group_pairs in H. unfold lv in H.
      rewrite (lookup_values_nodup _ _ _ (group_pairs_nodup l1) Hin) in H.
      destruct (lookup_values k (group_pairs l2)) as [vs2|] eqn:E.
      * apply values_eq_perm. exact H.
      * apply Permutation_sym, Permutation_nil in H. exfalso. eapply group_pairs_nonempty; eauto.
Qed.

Lemma nform_u_eqb_eq x y : nform_u_eqb x y = true <-> x = y.
Proof.
  destruct x as [[[s1 h1] p1] q1], y as [[[s2 h2] p2] q2]. unfold nform_u_eqb.
  rewrite !andb_true_iff, !nlist_eqb_eq, pairs_eqb_eq. split.
  - intros [[[-> ->] ->] ->]. reflexivity.
  - intros H; inversion H; auto.
Qed.

(* ================================================================ generic in parser, query parser and domain *)
Section GenU.
  Variable classify : bytes -> url_class.
  Variable qp : bytes -> list (bytes * bytes).          (* URL.Query() as a list of decoded pairs *)
  Let qv (q : bytes) := group_pairs (qp q).

  Definition equals_g (i w : bytes) (cs : bool) : option bool :=
    iri_equals_f sfold_eqb classify qv values_eq (paths_equal_f sfold_eqb) i w cs.
  Definition eqb_gu (i w : bytes) (cs : bool) : bool := match equals_g i w cs with Some b => b | None => false end.

  (* what irisEqual compares on two valid URLs *)
  Definition url_same_u (cs : bool) (u w : url) : Prop :=
    (cs = true -> scanon (u_scheme u) = scanon (u_scheme w)) /\
    scanon (u_host u) = scanon (u_host w) /\
    scanon (clean_url_path path_clean (u_path u)) = scanon (clean_url_path path_clean (u_path w)) /\
    Permutation (qp (u_query u)) (qp (u_query w)).

  Definition nf_url_g (cs : bool) (u : url) : nform_u :=
    (if cs then scanon (u_scheme u) else [], scanon (u_host u),
     scanon (clean_url_path path_clean (u_path u)), sort_pairs (qp (u_query u))).
  Definition nf_gu (cs : bool) (s : bytes) : option nform_u :=
    match classify s with UValid u => Some (nf_url_g cs u) | _ => None end.

  Lemma url_same_u_nf cs u w : url_same_u cs u w <-> nf_url_g cs u = nf_url_g cs w.
  Proof.
    unfold url_same_u, nf_url_g. split.
    - intros [Hs [Hh [Hp Hq]]]. f_equal; [f_equal; [f_equal|]|]; auto.
      + destruct cs; auto.
      + apply sort_pairs_canonical. exact Hq.
    - intros H. inversion H as [[H1 H2 H3 H4]]. split; [|split; [|split]]; auto.
      + intros ->. exact H1.
      + apply sort_pairs_canonical. exact H4.
  Qed.

  Lemma url_same_u_equiv cs :
    (forall u, url_same_u cs u u) /\
    (forall u w, url_same_u cs u w -> url_same_u cs w u) /\
    (forall u w x, url_same_u cs u w -> url_same_u cs w x -> url_same_u cs u x).
  Proof.
    split; [|split].
    - intros u. apply url_same_u_nf. reflexivity.
    - intros u w H. apply url_same_u_nf. symmetry. apply url_same_u_nf. exact H.
    - intros u w x H1 H2. apply url_same_u_nf. etransitivity; apply url_same_u_nf; eassumption.
  Qed.

  Lemma iris_equal_char_gu a b cs u w :
    classify a = UValid u -> classify b = UValid w ->
    (iris_equal_f sfold_eqb classify qv values_eq (paths_equal_f sfold_eqb) a b cs = Some true <-> url_same_u cs u w).
  Proof.
    intros Ha Hb. unfold iris_equal_f. rewrite Ha, Hb. unfold url_same_u, paths_equal_f.
    rewrite queries_equal_maps. unfold qv. split.
    - intros H. injection H as H1. rewrite !andb_true_iff in H1.
      destruct H1 as [[[Hs Hh] Hp] Hq]. split; [|split; [|split]].
      + intros Hcs. rewrite Hcs in Hs. apply sfold_eqb_eq. exact Hs.
      + apply sfold_eqb_eq. exact Hh.
      + apply sfold_eqb_eq. exact Hp.
      + apply maps_equal_char. exact Hq.
    - intros [Hs [Hh [Hp Hq]]]. f_equal. rewrite !andb_true_iff. split; [split; [split|]|].
      + destruct cs; [apply sfold_eqb_eq; apply Hs; reflexivity|reflexivity].
      + apply sfold_eqb_eq. exact Hh.
      + apply sfold_eqb_eq. exact Hp.
      + apply maps_equal_char. exact Hq.
  Qed.

  Lemma eqb_valid_gu a b cs u w :
    classify a = UValid u -> classify b = UValid w ->
    eqb_gu a b cs = true <-> (sfold_eqb (strip_for cs a) (strip_for cs b) = true \/ url_same_u cs u w).
  Proof.
    intros Ha Hb. unfold eqb_gu, equals_g. rewrite iri_equals_f_unfold.
    destruct (sfold_eqb (strip_for cs a) (strip_for cs b)); [tauto|].
    pose proof (iris_equal_char_gu a b cs u w Ha Hb) as C.
    destruct (iris_equal_f sfold_eqb classify qv values_eq (paths_equal_f sfold_eqb) a b cs) as [[|]|] eqn:E.
    - split; [intros _; right; apply C; reflexivity|reflexivity].
    - split; [discriminate|]. intros [H|H]; [discriminate|]. apply C in H. discriminate.
    - split; [discriminate|]. intros [H|H]; [discriminate|]. apply C in H. discriminate.
  Qed.

  (* reflexive and symmetric on ALL byte strings *)
  Lemma equals_refl_gu s cs : equals_g s s cs = Some true.
  Proof. unfold equals_g. rewrite iri_equals_f_unfold, sfold_eqb_refl. reflexivity. Qed.

  Lemma maps_equal_sym l1 l2 : maps_equal (group_pairs l1) (group_pairs l2) = maps_equal (group_pairs l2) (group_pairs l1).
  Proof.
    destruct (maps_equal (group_pairs l1) (group_pairs l2)) eqn:E1, (maps_equal (group_pairs l2) (group_pairs l1)) eqn:E2; try reflexivity.
    - apply maps_equal_char in E1. apply Permutation_sym in E1. apply maps_equal_char in E1. congruence.
    - apply maps_equal_char in E2. apply Permutation_sym in E2. apply maps_equal_char in E2. congruence.
  Qed.

  Lemma equals_sym_gu a b cs : equals_g a b cs = equals_g b a cs.
  Proof.
    unfold equals_g. rewrite !iri_equals_f_unfold, (sfold_eqb_sym (strip_for cs a)).
    destruct (sfold_eqb (strip_for cs b) (strip_for cs a)); [reflexivity|].
    unfold iris_equal_f. destruct (classify a) as [u| |], (classify b) as [w| |]; try reflexivity;
      try (rewrite sfold_eqb_sym; reflexivity).
    unfold paths_equal_f. rewrite (sfold_eqb_sym (u_host u)), (sfold_eqb_sym (clean_url_path path_clean (u_path u))).
    rewrite !queries_equal_maps. unfold qv. rewrite (maps_equal_sym (qp (u_query u))).
    destruct cs; [rewrite (sfold_eqb_sym (u_scheme u))|]; reflexivity.
  Qed.

  Lemma eqb_refl_gu a cs : eqb_gu a a cs = true.
  Proof. unfold eqb_gu. rewrite equals_refl_gu. reflexivity. Qed.
  Lemma eqb_sym_gu a b cs : eqb_gu a b cs = eqb_gu b a cs.
  Proof. unfold eqb_gu. rewrite equals_sym_gu. reflexivity. Qed.

  (* ---- on a domain where the fast path implies the URL comparison ---- *)
  Variable dom : bytes -> bool.
  Hypothesis dom_valid : forall a, dom a = true -> exists u, classify a = UValid u.
  Hypothesis fast : forall a b cs u w,
    dom a = true -> dom b = true -> classify a = UValid u -> classify b = UValid w ->
    sfold_eqb (strip_for cs a) (strip_for cs b) = true -> url_same_u cs u w.

  Lemma eqb_url_same_gu a b cs u w :
    dom a = true -> dom b = true -> classify a = UValid u -> classify b = UValid w ->
    (eqb_gu a b cs = true <-> url_same_u cs u w).
  Proof.
    intros Da Db Ha Hb. rewrite (eqb_valid_gu a b cs u w Ha Hb). split; [|auto].
    intros [H|H]; [exact (fast a b cs u w Da Db Ha Hb H)|exact H].
  Qed.

  Lemma eqb_nf_gu a b cs : dom a = true -> dom b = true -> eqb_gu a b cs = nf_u_eqb (nf_gu cs a) (nf_gu cs b).
  Proof.
    intros Da Db. destruct (dom_valid a Da) as [u Ha]. destruct (dom_valid b Db) as [w Hb].
    unfold nf_gu. rewrite Ha, Hb. cbn [nf_u_eqb].
    pose proof (eqb_url_same_gu a b cs u w Da Db Ha Hb) as C. rewrite url_same_u_nf, <- nform_u_eqb_eq in C.
    destruct (eqb_gu a b cs), (nform_u_eqb (nf_url_g cs u) (nf_url_g cs w)); try reflexivity.
    - symmetry. apply C. reflexivity.
    - apply C. reflexivity.
  Qed.

  Lemma eqb_nf_eq_gu a b cs : dom a = true -> dom b = true -> (eqb_gu a b cs = true <-> nf_gu cs a = nf_gu cs b).
  Proof.
    intros Da Db. rewrite (eqb_nf_gu a b cs Da Db).
    destruct (dom_valid a Da) as [u Ha]. destruct (dom_valid b Db) as [w Hb]. unfold nf_gu. rewrite Ha, Hb. cbn [nf_u_eqb].
    rewrite nform_u_eqb_eq. split; congruence.
  Qed.

  Lemma eqb_trans_gu a b c cs :
    dom a = true -> dom b = true -> dom c = true ->
    eqb_gu a b cs = true -> eqb_gu b c cs = true -> eqb_gu a c cs = true.
  Proof. intros Da Db Dc. rewrite !eqb_nf_eq_gu by assumption. congruence. Qed.

  Lemma existsb_nf_gu l x :
    dom x = true -> forallb dom l = true ->
    existsb (fun i => eqb_gu x i false) l = existsb (fun i => nf_u_eqb (nf_gu false x) (nf_gu false i)) l.
  Proof.
    intros Dx Dl. induction l as [|i l IH]; [reflexivity|].
    simpl in Dl. rewrite andb_true_iff in Dl. destruct Dl as [Di Dl]. simpl.
    rewrite (eqb_nf_gu x i false Dx Di), IH by exact Dl. reflexivity.
  Qed.

  (* IRIs of the domain with different normal forms are unequal *)
  Lemma eqb_differ_gu a b cs :
    dom a = true -> dom b = true -> nf_u_eqb (nf_gu false a) (nf_gu false b) = false -> eqb_gu a b cs = false.
  Proof.
    intros Da Db Hd. destruct (eqb_gu a b cs) eqn:E; [|reflexivity].
    apply (eqb_nf_eq_gu a b cs Da Db) in E.
    destruct (dom_valid a Da) as [u Ha]. destruct (dom_valid b Db) as [w Hb]. unfold nf_gu in *. rewrite Ha, Hb in *.
    cbn [nf_u_eqb] in Hd. assert (nform_u_eqb (nf_url_g false u) (nf_url_g false w) = true) as T; [|congruence].
    apply nform_u_eqb_eq. inversion E as [[E1 E2 E3 E4]]. unfold nf_url_g. rewrite E2, E3, E4. reflexivity.
  Qed.
End GenU.
