(* C14 on its domain: the string fast path of IRI.Equals implies the URL comparison (fast_path_parts), hence by
   Proofs/IriGenP.v
     iri_eqb a b cs = nf_eqb (nf cs a) (nf cs b)
   for absolute URLs of the grammar whose query strings are in one letter case - an equivalence relation for both
   values of the check-scheme flag.  Model: Model/IriEq.v, Model/Url.v, Model/IriNf.v. *)
From AP.Model Require Import Prelude Bytes Url IriEq IriNf.
From AP.Proofs Require Import NlvP IriEqP LowerP SortP IriGenP.
From Coq Require Import Sorting.Permutation.

(* ================================================================ strings: cutting and searching *)
Definition notin (c : byte) (s : bytes) : bool := forallb (fun x => negb (Byte.eqb x c)) s.

Lemma notin_app c a b : notin c (a ++ b) = notin c a && notin c b.
Proof. apply forallb_app. Qed.

Lemma notin_class (P : byte -> bool) c s : P c = false -> forallb P s = true -> notin c s = true.
Proof.
  intros Hc. induction s as [|x s IH]; simpl; [reflexivity|]. rewrite !andb_true_iff. intros [Hx Hs].
  split; [|apply IH; exact Hs]. apply negb_true_iff. destruct (Byte.eqb x c) eqn:E; [|reflexivity].
  apply beqb_eq in E. subst. congruence.
Qed.

Definition tail_of (c : byte) (o : option bytes) : bytes := match o with Some b => c :: b | None => [] end.
Definition opt_or_nil (o : option bytes) : bytes := match o with Some b => b | None => [] end.

Lemma cut_byte_spec c s :
  notin c (fst (cut_byte c s)) = true /\ s = fst (cut_byte c s) ++ tail_of c (snd (cut_byte c s)).
Proof.
  induction s as [|x s [IH1 IH2]]; simpl; [split; reflexivity|].
  destruct (Byte.eqb x c) eqn:E.
  - apply beqb_eq in E. subst. split; reflexivity.
  - destruct (cut_byte c s) as [a b]. simpl in *. rewrite E. split; [exact IH1|]. f_equal. exact IH2.
Qed.

Lemma index_from_single c s : forall n,
  index_from n [c] s = match snd (cut_byte c s) with
                       | Some _ => Some (n + length (fst (cut_byte c s)))
                       | None => None
                       end.
Proof.
  induction s as [|x s IH]; intros n; [reflexivity|].
  change (index_from n [c] (x :: s)) with (if Byte.eqb c x && true then Some n else index_from (S n) [c] s).
  rewrite andb_true_r, beqb_sym. simpl cut_byte. destruct (Byte.eqb x c).
  - simpl. f_equal. lia.
  - rewrite IH. destruct (cut_byte c s) as [a [b|]]; simpl; [f_equal; lia|reflexivity].
Qed.

Lemma firstn_length_app {A} (a b : list A) : firstn (length a) (a ++ b) = a.
Proof. rewrite firstn_app, Nat.sub_diag, firstn_all. simpl. apply app_nil_r. Qed.

Lemma skipn_length_app {A} (a b : list A) : skipn (length a) (a ++ b) = b.
Proof. rewrite skipn_app, Nat.sub_diag, skipn_all. reflexivity. Qed.

Lemma skipn_add {A} (l : list A) : forall n m, skipn m (skipn n l) = skipn (n + m) l.
Proof.
  induction l as [|x l IH]; intros n m.
  - rewrite !skipn_nil. reflexivity.
  - destruct n; [reflexivity|]. simpl. apply IH.
Qed.

(* stripFragment on a string whose part before the first '#' is not empty: that part *)
Lemma strip_fragment_cut x o : x <> [] -> notin hash x = true -> strip_fragment (x ++ tail_of hash o) = x.
Proof.
  intros Hx Hn. unfold strip_fragment, index. rewrite index_from_single.
  assert (cut_byte hash (x ++ tail_of hash o) = (x, o)) as E.
  { clear Hx. induction x as [|c x IH]; simpl.
    - destruct o; reflexivity.
    - simpl in Hn. rewrite andb_true_iff, negb_true_iff in Hn. destruct Hn as [Hc Hn]. rewrite Hc, (IH Hn). reflexivity. }
  rewrite E. cbn [fst snd]. destruct o as [f|].
  - destruct x as [|c x]; [congruence|]. cbn [length plus].
    change (S (length x)) with (length (c :: x)). apply firstn_length_app.
  - simpl. apply app_nil_r.
Qed.

Lemma is_prefix_app p r : is_prefix p (p ++ r) = true.
Proof. induction p as [|x p IH]; simpl; [reflexivity|]. rewrite beqb_refl. exact IH. Qed.

Lemma is_prefix_true p : forall s, is_prefix p s = true -> s = p ++ skipn (length p) s.
Proof.
  induction p as [|x p IH]; intros [|y s]; simpl; try discriminate; try reflexivity.
  rewrite andb_true_iff, beqb_eq. intros [-> H]. f_equal. apply IH. exact H.
Qed.

Lemma index_from_some sep : forall s n k, index_from n sep s = Some k ->
  n <= k /\ is_prefix sep (skipn (k - n) s) = true.
Proof.
  induction s as [|x s IH]; intros n k.
  - simpl. destruct (is_prefix sep []) eqn:E; [|discriminate]. intros H; inversion H; subst.
    rewrite Nat.sub_diag. split; [lia|exact E].
  - change (index_from n sep (x :: s)) with (if is_prefix sep (x :: s) then Some n else index_from (S n) sep s).
    destruct (is_prefix sep (x :: s)) eqn:E.
    + intros H; inversion H; subst. rewrite Nat.sub_diag. split; [lia|exact E].
    + intros H. apply IH in H. destruct H as [Hle Hp]. split; [lia|].
      replace (k - n) with (S (k - S n)) by lia. exact Hp.
Qed.

Lemma index_split sep s n : index sep s = Some n -> s = firstn n s ++ sep ++ skipn (n + length sep) s.
Proof.
  unfold index. intros H. apply index_from_some in H. destruct H as [_ H]. rewrite Nat.sub_0_r in H.
  apply is_prefix_true in H. rewrite skipn_add in H.
  rewrite <- (firstn_skipn n s) at 1. f_equal. exact H.
Qed.

(* the first occurrence of a pattern whose first byte does not occur before it *)
Lemma index_from_skip c pat x r : notin c x = true -> forall n,
  index_from n (c :: pat) (x ++ (c :: pat) ++ r) = Some (n + length x).
Proof.
  induction x as [|y x IH]; intros Hn n.
  - simpl app. destruct pat; simpl; rewrite beqb_refl; simpl; [f_equal; lia|].
    rewrite beqb_refl. simpl. rewrite is_prefix_app. f_equal. lia.
  - simpl in Hn. rewrite andb_true_iff, negb_true_iff in Hn. destruct Hn as [Hy Hn].
    change ((y :: x) ++ (c :: pat) ++ r) with (y :: (x ++ (c :: pat) ++ r)).
    change (index_from n (c :: pat) (y :: (x ++ (c :: pat) ++ r)))
      with (if Byte.eqb c y && is_prefix pat (x ++ (c :: pat) ++ r) then Some n
            else index_from (S n) (c :: pat) (x ++ (c :: pat) ++ r)).
    rewrite beqb_sym, Hy. simpl andb. cbv iota. rewrite IH by exact Hn. simpl. f_equal. lia.
Qed.

(* stripScheme on  scheme "://" rest  when the scheme holds no ':' *)
Lemma strip_scheme_cut x r : notin colon x = true -> strip_scheme (x ++ B "://" ++ r) = B "://" ++ r.
Proof.
  intros Hn. unfold strip_scheme, index.
  change (B "://") with (colon :: B "//"). rewrite index_from_skip by exact Hn. simpl plus.
  apply skipn_length_app.
Qed.

(* ================================================================ unique reading of a string along an alphabet *)
Definition stops (P : byte -> bool) (r : bytes) : Prop := match r with [] => True | c :: _ => P c = false end.

Lemma span_unique (P : byte -> bool) x : forall y r r',
  forallb P x = true -> forallb P y = true -> stops P r -> stops P r' ->
  x ++ r = y ++ r' -> x = y /\ r = r'.
Proof.
  induction x as [|a x IH]; intros [|b y] r r' Hx Hy Hr Hr' E; simpl in *.
  - auto.
  - subst r. simpl in Hr. rewrite andb_true_iff in Hy. destruct Hy as [Hb _]. congruence.
  - subst r'. simpl in Hr'. rewrite andb_true_iff in Hx. destruct Hx as [Ha _]. congruence.
  - rewrite andb_true_iff in Hx, Hy. destruct Hx as [_ Hx], Hy as [_ Hy]. inversion E; subst.
    destruct (IH y r r' Hx Hy Hr Hr' H1) as [-> ->]. auto.
Qed.

Lemma stops_lower P r : case_closed P -> stops P r -> stops P (lower r).
Proof. intros HP. destruct r as [|c r]; simpl; [auto|]. rewrite HP. auto. Qed.

(* the same for two strings equal up to letter case *)
Lemma span_unique_fold (P : byte -> bool) x y r r' :
  case_closed P -> forallb P x = true -> forallb P y = true -> stops P r -> stops P r' ->
  lower x ++ lower r = lower y ++ lower r' -> lower x = lower y /\ lower r = lower r'.
Proof.
  intros HP Hx Hy Hr Hr' E. apply (span_unique P) with (r := lower r) (r' := lower r'); auto.
  - rewrite forallb_lower; assumption.
  - rewrite forallb_lower; assumption.
  - apply stops_lower; assumption.
  - apply stops_lower; assumption.
Qed.

(* ================================================================ what url_classify = UValid says about the string *)
Definition hostp (b : byte) : bool := is_host_char b || Byte.eqb b colon.
Lemma hostp_closed : case_closed hostp. Proof. closed_by_sweep. Qed.

Lemma digit_hostp : forall b, implb (is_digit b) (hostp b) = true.
Proof. apply sweep. vm_compute. reflexivity. Qed.
Lemma hostchar_hostp b : is_host_char b = true -> hostp b = true.
Proof. unfold hostp. intros ->. reflexivity. Qed.

Lemma host_ok_hostp h : host_ok h = true -> forallb hostp h = true.
Proof.
  unfold host_ok. destruct (cut_byte_spec colon h) as [_ E]. destruct (cut_byte colon h) as [name port]. simpl in E.
  rewrite andb_true_iff. intros [Hn Hp]. rewrite E, forallb_app, andb_true_iff. split.
  - rewrite forallb_forall in *. intros b Hb. apply hostchar_hostp. apply Hn. exact Hb.
  - destruct port as [p|]; [|reflexivity]. simpl.
    rewrite forallb_forall in *. intros b Hb. specialize (Hp b Hb). pose proof (digit_hostp b) as D. rewrite Hp in D. exact D.
Qed.

(* the reading of an absolute URL as a string: scheme "://" host rawpath ["?" query] ["#" fragment], the raw path
   over an alphabet [ppc] (is_path_char here; with "%" for the parser of Model/CollIri.v, Proofs/IriXP.v) *)
Record raw_struct (ppc : byte -> bool) (s sch host rp : bytes) (qo fo : option bytes) : Prop := {
  rs_string : s = (sch ++ B "://" ++ host ++ rp ++ tail_of qmark qo) ++ tail_of hash fo;
  rs_nohash : notin hash (sch ++ B "://" ++ host ++ rp ++ tail_of qmark qo) = true;
  rs_scheme : forallb is_scheme_char sch = true;
  rs_scheme_ne : sch <> [];
  rs_host : forallb hostp host = true;
  rs_path : forallb ppc rp = true;
  rs_path_root : rp = [] \/ exists p, rp = slash :: p
}.

Lemma classify_valid_struct s u : url_classify s = UValid u ->
  exists qo fo, raw_struct is_path_char s (u_scheme u) (u_host u) (u_path u) qo fo /\ u_query u = opt_or_nil qo.
Proof.
  destruct s as [|c0 s0]; [discriminate|]. unfold url_classify. remember (c0 :: s0) as s eqn:Hs.
  destruct (cut_byte_spec hash s) as [Hnh Es]. destruct (cut_byte hash s) as [nofrag frag]. simpl in Hnh, Es.
  destruct (cut_byte_spec qmark nofrag) as [_ Enf]. destruct (cut_byte qmark nofrag) as [noquery query]. simpl in Enf.
  destruct (index (B "://") noquery) as [n|] eqn:Ei.
  2:{ destruct (forallb _ s); discriminate. }
  apply index_split in Ei. simpl length in Ei.
  destruct (cut_byte_spec slash (skipn (n + 3) noquery)) as [_ Er].
  destruct (cut_byte slash (skipn (n + 3) noquery)) as [hostport pathrest]. simpl in Er.
  match goal with |- (if ?c then _ else _) = _ -> _ => destruct c eqn:Hc end; [|discriminate].
  destruct hostport as [|h0 hp]; [discriminate|]. intros H. inversion H; subst u; clear H.
  rewrite !andb_true_iff in Hc. destruct Hc as [[[[[[_ Hsch] Hn0] Hhost] Hpath] Hq] Hf].
  exists query, frag. split; [constructor|]; cbn [u_scheme u_host u_path u_query u_frag].
  - rewrite Es at 1. f_equal. rewrite Enf at 1. rewrite Ei at 1. rewrite Er.
    rewrite <- !app_assoc. destruct pathrest; reflexivity.
  - rewrite Enf in Hnh. rewrite Ei in Hnh at 1. rewrite Er in Hnh. rewrite <- !app_assoc in Hnh.
    destruct pathrest; exact Hnh.
  - exact Hsch.
  - intros E0. apply negb_true_iff, Nat.eqb_neq in Hn0.
    assert (length (firstn n noquery) = 0) as L by (rewrite E0; reflexivity).
    rewrite firstn_length in L.
    apply (f_equal (@length byte)) in Ei. rewrite !app_length, firstn_length in Ei. simpl length in Ei. lia.
  - apply host_ok_hostp. exact Hhost.
  - exact Hpath.
  - destruct pathrest as [p|]; [right; exists p; reflexivity|left; reflexivity].
  - destruct query; reflexivity.
Qed.

(* ================================================================ the fast path implies the URL comparison *)
Lemma stops_scheme r : stops is_scheme_char (B "://" ++ r).   Proof. reflexivity. Qed.
Lemma stops_path ppc qo : ppc qmark = false -> stops ppc (tail_of qmark qo).
Proof. intros H. destruct qo; simpl; auto. Qed.
Lemma stops_host p qo : (p = [] \/ exists p', p = slash :: p') -> stops hostp (p ++ tail_of qmark qo).
Proof. intros [->|[p' ->]]; [destruct qo|]; reflexivity. Qed.

Lemma tail_lower_query qo qo' :
  lower (tail_of qmark qo) = lower (tail_of qmark qo') -> lower (opt_or_nil qo) = lower (opt_or_nil qo').
Proof. destruct qo, qo'; simpl; intros H; try discriminate; [inversion H|]; reflexivity. Qed.

(* letter case apart, two such strings that are equal once the fragment (and, unless the caller asks for it, the
   scheme) is cut off have the same scheme (when compared), host, raw path and query *)
Lemma fast_strings ppc a b cs sa ha pa qa fa sb hb pb qb fb :
  case_closed ppc -> ppc qmark = false ->
  raw_struct ppc a sa ha pa qa fa -> raw_struct ppc b sb hb pb qb fb ->
  fold_eqb (strip_for cs a) (strip_for cs b) = true ->
  (cs = true -> lower sa = lower sb) /\
  lower ha = lower hb /\
  lower pa = lower pb /\
  lower (opt_or_nil qa) = lower (opt_or_nil qb).
Proof.
  intros Pc Pq Sa Sb Hf. apply fold_eqb_eq in Hf.
  assert (strip_fragment a = sa ++ B "://" ++ ha ++ pa ++ tail_of qmark qa) as Fa.
  { rewrite (rs_string _ _ _ _ _ _ _ Sa) at 1. apply strip_fragment_cut; [|apply (rs_nohash _ _ _ _ _ _ _ Sa)].
    pose proof (rs_scheme_ne _ _ _ _ _ _ _ Sa). destruct sa; [congruence|discriminate]. }
  assert (strip_fragment b = sb ++ B "://" ++ hb ++ pb ++ tail_of qmark qb) as Fb.
  { rewrite (rs_string _ _ _ _ _ _ _ Sb) at 1. apply strip_fragment_cut; [|apply (rs_nohash _ _ _ _ _ _ _ Sb)].
    pose proof (rs_scheme_ne _ _ _ _ _ _ _ Sb). destruct sb; [congruence|discriminate]. }
  assert (notin colon sa = true) as Ca by (apply (notin_class is_scheme_char); [reflexivity|apply (rs_scheme _ _ _ _ _ _ _ Sa)]).
  assert (notin colon sb = true) as Cb by (apply (notin_class is_scheme_char); [reflexivity|apply (rs_scheme _ _ _ _ _ _ _ Sb)]).
  (* everything after the scheme *)
  assert ((cs = true -> lower sa = lower sb) /\
          lower (ha ++ pa ++ tail_of qmark qa) = lower (hb ++ pb ++ tail_of qmark qb)) as [Hs Hrest].
  { unfold strip_for in Hf. destruct cs.
    - rewrite Fa, Fb in Hf. rewrite !(lower_app sa), !(lower_app sb) in Hf.
      apply (span_unique_fold is_scheme_char) in Hf;
        [|exact is_scheme_char_closed|apply (rs_scheme _ _ _ _ _ _ _ Sa)|apply (rs_scheme _ _ _ _ _ _ _ Sb)|apply stops_scheme|apply stops_scheme].
      destruct Hf as [H1 H2]. split; [intros _; exact H1|].
      rewrite !(lower_app (B "://")) in H2. apply app_inv_head in H2. exact H2.
    - rewrite Fa, Fb, !strip_scheme_cut in Hf by assumption. split; [discriminate|].
      rewrite !(lower_app (B "://")) in Hf. apply app_inv_head in Hf. exact Hf. }
  split; [exact Hs|].
  rewrite (lower_app ha), (lower_app hb) in Hrest.
  apply (span_unique_fold hostp) in Hrest;
    [|exact hostp_closed|apply (rs_host _ _ _ _ _ _ _ Sa)|apply (rs_host _ _ _ _ _ _ _ Sb)
     |apply stops_host; apply (rs_path_root _ _ _ _ _ _ _ Sa)|apply stops_host; apply (rs_path_root _ _ _ _ _ _ _ Sb)].
  destruct Hrest as [Hh Hrest]. split; [exact Hh|].
  rewrite (lower_app pa), (lower_app pb) in Hrest.
  apply (span_unique_fold ppc) in Hrest;
    [|exact Pc|apply (rs_path _ _ _ _ _ _ _ Sa)|apply (rs_path _ _ _ _ _ _ _ Sb)|apply stops_path; exact Pq|apply stops_path; exact Pq].
  destruct Hrest as [Hp Hq]. split; [exact Hp|].
  apply tail_lower_query. exact Hq.
Qed.

Lemma fast_path_parts a b cs u w :
  url_classify a = UValid u -> url_classify b = UValid w ->
  fold_eqb (strip_for cs a) (strip_for cs b) = true ->
  (cs = true -> lower (u_scheme u) = lower (u_scheme w)) /\
  lower (u_host u) = lower (u_host w) /\
  lower (u_path u) = lower (u_path w) /\
  lower (u_query u) = lower (u_query w).
Proof.
  intros Ha Hb Hf.
  destruct (classify_valid_struct a u Ha) as [qa [fa [Sa Qa]]]. destruct (classify_valid_struct b w Hb) as [qb [fb [Sb Qb]]].
  rewrite Qa, Qb. apply (fast_strings is_path_char a b cs _ _ _ qa fa _ _ _ qb fb); auto.
  exact is_path_char_closed.
Qed.

(* ================================================================ IRI.Equals on the domain (instances of IriGenP) *)
Lemma fast_plain : forall a b cs u w,
  url_classify a = UValid u -> url_classify b = UValid w ->
  fold_eqb (strip_for cs a) (strip_for cs b) = true ->
  (cs = true -> lower (u_scheme u) = lower (u_scheme w)) /\
  lower (u_host u) = lower (u_host w) /\
  lower (clean_url_path path_clean (u_path u)) = lower (clean_url_path path_clean (u_path w)) /\
  lower (u_query u) = lower (u_query w).
Proof.
  intros a b cs u w Ha Hb Hf. destruct (fast_path_parts a b cs u w Ha Hb Hf) as [Hs [Hh [Hp Hq]]].
  split; [exact Hs|]. split; [exact Hh|]. split; [apply clean_url_path_fold; exact Hp|exact Hq].
Qed.

Lemma iri_eqb_is_gen a b cs : iri_eqb a b cs = iri_eqb_gen url_classify a b cs.
Proof. reflexivity. Qed.

Lemma iri_eqb_valid a b cs u w :
  url_classify a = UValid u -> url_classify b = UValid w ->
  iri_eqb a b cs = true <->
  (fold_eqb (strip_for cs a) (strip_for cs b) = true \/ url_same cs u w).
Proof. apply (eqb_valid_g url_classify). Qed.

Lemma iri_eqb_true_parts a b cs u w :
  url_classify a = UValid u -> url_classify b = UValid w -> iri_eqb a b cs = true ->
  (cs = true -> lower (u_scheme u) = lower (u_scheme w)) /\
  lower (u_host u) = lower (u_host w) /\
  lower (clean_url_path path_clean (u_path u)) = lower (clean_url_path path_clean (u_path w)) /\
  (lower (u_query u) = lower (u_query w) \/
   Permutation (query_pairs (u_query u)) (query_pairs (u_query w))).
Proof. apply (eqb_true_parts_g url_classify fast_plain). Qed.

Section OneCase.
  Variable qok : bytes -> bool.
  Hypothesis qok_inj : forall q q', qok q = true -> qok q' = true -> lower q = lower q' -> q = q'.

  Lemma iri_eqb_nf_with a b cs :
    iri_dom_with qok a = true -> iri_dom_with qok b = true ->
    iri_eqb a b cs = nf_eqb (nf cs a) (nf cs b).
  Proof. apply (eqb_nf_g url_classify fast_plain qok qok_inj). Qed.

  Lemma iri_eqb_nf_eq a b cs :
    iri_dom_with qok a = true -> iri_dom_with qok b = true ->
    (iri_eqb a b cs = true <-> nf cs a = nf cs b).
  Proof. apply (eqb_nf_eq_g url_classify fast_plain qok qok_inj). Qed.

  Lemma iri_eqb_trans_with a b c cs :
    iri_dom_with qok a = true -> iri_dom_with qok b = true -> iri_dom_with qok c = true ->
    iri_eqb a b cs = true -> iri_eqb b c cs = true -> iri_eqb a c cs = true.
  Proof. apply (eqb_trans_g url_classify fast_plain qok qok_inj). Qed.

  Lemma iris_contains_nf_with l x :
    iri_dom_with qok x = true -> forallb (iri_dom_with qok) l = true ->
    iris_contains l x = existsb (fun i => nf_eqb (nf false x) (nf false i)) l.
  Proof. intros Dx Dl. rewrite iris_contains_spec. apply (existsb_nf_g url_classify fast_plain qok qok_inj); assumption. Qed.

  (* the property's clause used by C09: ids in the domain that differ in host, cleaned path or the multiset of
     query parameters are unequal, whatever the flag *)
  Lemma iri_eqb_differ_with a b cs :
    iri_dom_with qok a = true -> iri_dom_with qok b = true ->
    ids_differ_hpq a b = true -> iri_eqb a b cs = false.
  Proof.
    intros Da Db Hd. unfold ids_differ_hpq in Hd.
    destruct (nf false a) as [x|] eqn:Na; [|discriminate]. destruct (nf false b) as [y|] eqn:Nb; [|discriminate].
    apply negb_true_iff in Hd.
    apply (eqb_differ_g url_classify fast_plain qok qok_inj a b cs x y); assumption.
  Qed.
End OneCase.

(* ---- the two one-case classes ---- *)
Lemma iri_eqb_nf a b cs : iri_dom a = true -> iri_dom b = true -> iri_eqb a b cs = nf_eqb (nf cs a) (nf cs b).
Proof. apply (iri_eqb_nf_with no_upper no_upper_inj). Qed.

Lemma iri_eqb_nf_upper a b cs :
  iri_dom_upper a = true -> iri_dom_upper b = true -> iri_eqb a b cs = nf_eqb (nf cs a) (nf cs b).
Proof. apply (iri_eqb_nf_with no_lower no_lower_inj). Qed.

Lemma iri_eqb_trans a b c cs :
  iri_dom a = true -> iri_dom b = true -> iri_dom c = true ->
  iri_eqb a b cs = true -> iri_eqb b c cs = true -> iri_eqb a c cs = true.
Proof. apply (iri_eqb_trans_with no_upper no_upper_inj). Qed.

Lemma iri_eqb_trans_upper a b c cs :
  iri_dom_upper a = true -> iri_dom_upper b = true -> iri_dom_upper c = true ->
  iri_eqb a b cs = true -> iri_eqb b c cs = true -> iri_eqb a c cs = true.
Proof. apply (iri_eqb_trans_with no_lower no_lower_inj). Qed.

Lemma iri_eqb_equivalence cs :
  (forall a, iri_eqb a a cs = true) /\
  (forall a b, iri_eqb a b cs = iri_eqb b a cs) /\
  (forall a b c, iri_dom a = true -> iri_dom b = true -> iri_dom c = true ->
                 iri_eqb a b cs = true -> iri_eqb b c cs = true -> iri_eqb a c cs = true).
Proof.
  split; [intros a; apply iri_eqb_refl|]. split; [intros a b; apply iri_eqb_sym|].
  intros a b c. apply iri_eqb_trans.
Qed.

Lemma iris_contains_nf l x :
  iri_dom x = true -> forallb iri_dom l = true ->
  iris_contains l x = existsb (fun i => nf_eqb (nf false x) (nf false i)) l.
Proof. apply (iris_contains_nf_with no_upper no_upper_inj). Qed.

Lemma iri_eqb_differ a b cs :
  iri_dom a = true -> iri_dom b = true -> ids_differ_hpq a b = true -> iri_eqb a b cs = false.
Proof. apply (iri_eqb_differ_with no_upper no_upper_inj). Qed.

(* host or cleaned path differ (letter case apart): unequal, whatever the queries look like *)
Lemma iri_eqb_differ_host_path a b cs u w :
  url_classify a = UValid u -> url_classify b = UValid w ->
  lower (u_host u) <> lower (u_host w) \/
  lower (clean_url_path path_clean (u_path u)) <> lower (clean_url_path path_clean (u_path w)) ->
  iri_eqb a b cs = false.
Proof. apply (eqb_differ_host_path_g url_classify fast_plain). Qed.

(* ---- the two one-case classes must not be mixed: the relation is not transitive across them ---- *)
Lemma mixed_case_not_transitive :
  exists a b c, iri_dom_upper a = true /\ iri_dom b = true /\ iri_dom c = true /\
    iri_eqb a b false = true /\ iri_eqb b c false = true /\ iri_eqb a c false = false.
Proof.
  exists (B "http://h/?X=1"), (B "http://h/?x=1"), (B "http://h/./?x=1"). repeat split; vm_compute; reflexivity.
Qed.
