(* C14 on the wide grammar (Model/UrlU.v: net/url on all byte strings - bytes >= 0x80 and percent-escapes in host,
   path, query, fragment, userinfo, IP literals; Model/Fold.v: iri.go equalFold, Unicode simple folding with an
   invalid byte equal to itself only): IRI.Equals (Model/IriEqU.iri_equ) is the kernel of the normal form nf_u on
   iri_dom_u - ALL byte strings that parse to a URL with scheme and host and whose query string is in one letter case
   apart from the hex digits of its escapes.  Userinfo is not in the normal form.  The pinned comparison
   (strings.EqualFold) identified any two invalid bytes and was not transitive outside valid UTF-8. *)
From AP.Model Require Import Prelude Bytes Url IriEq IriNf Vocab Pred CollIri Utf8 FoldTab Fold UrlU IriEqU.
From AP.Proofs Require Import NlvP LowerP IriEqP SortP IriGenP IriNfP IriXP Utf8P FoldP DecodeUP CleanUP UrlUP QueryUP IriGenUP.
From Coq Require Import Sorting.Permutation.

Lemma iri_equ_is_gen a b cs : iri_equ a b cs = eqb_gu url_classify_u query_pairs_u a b cs.
Proof. reflexivity. Qed.
Lemma nf_u_is_gen cs a : nf_u cs a = nf_gu url_classify_u query_pairs_u cs a.
Proof. reflexivity. Qed.

(* reflexive and symmetric on ALL byte strings (invalid UTF-8, userinfo, IP literals included) *)
Lemma iri_equals_u_refl s cs : iri_equals_u s s cs = Some true.
Proof. apply (equals_refl_gu url_classify_u query_pairs_u). Qed.
Lemma iri_equals_u_sym a b cs : iri_equals_u a b cs = iri_equals_u b a cs.
Proof. apply (equals_sym_gu url_classify_u query_pairs_u). Qed.
Lemma iri_equ_refl a cs : iri_equ a a cs = true.
Proof. apply (eqb_refl_gu url_classify_u query_pairs_u). Qed.
Lemma iri_equ_sym a b cs : iri_equ a b cs = iri_equ b a cs.
Proof. apply (eqb_sym_gu url_classify_u query_pairs_u). Qed.

Section OneCaseU.
  (* a class of query strings on which EqualFold-equal strings decode to the same pairs *)
  Variable qok : bytes -> bool.
  Hypothesis qok_pairs : forall q q', qok q = true -> qok q' = true -> scanon q = scanon q' -> query_pairs_u q = query_pairs_u q'.

  Notation dom := (iri_dom_u_with qok).

  Lemma dom_u_valid a : dom a = true -> exists u, url_classify_u a = UValid u.
  Proof. unfold iri_dom_u_with. intros H. destruct (url_classify_u a); try discriminate. eauto. Qed.

  Lemma dom_u_parts a u : dom a = true -> url_classify_u a = UValid u -> qok (u_query u) = true.
  Proof. unfold iri_dom_u_with. intros H E. rewrite E in H. exact H. Qed.

  Lemma fast_dom_u a b cs u w :
    dom a = true -> dom b = true -> url_classify_u a = UValid u -> url_classify_u b = UValid w ->
    sfold_eqb (strip_for cs a) (strip_for cs b) = true -> url_same_u query_pairs_u cs u w.
  Proof.
    intros Da Db Ha Hb Hf. pose proof (dom_u_parts a u Da Ha) as Qa. pose proof (dom_u_parts b w Db Hb) as Qb.
    destruct (fast_u a b cs u w Ha Hb Hf) as [Hs [Hh [Hp Hq]]].
    split; [exact Hs|]. split; [exact Hh|]. split; [exact Hp|]. rewrite (qok_pairs _ _ Qa Qb Hq). apply Permutation_refl.
  Qed.

  Lemma iri_equ_nf_with a b cs : dom a = true -> dom b = true -> iri_equ a b cs = nf_u_eqb (nf_u cs a) (nf_u cs b).
  Proof. apply (eqb_nf_gu url_classify_u query_pairs_u dom dom_u_valid fast_dom_u). Qed.

  Lemma iri_equ_nf_eq_with a b cs : dom a = true -> dom b = true -> (iri_equ a b cs = true <-> nf_u cs a = nf_u cs b).
  Proof. apply (eqb_nf_eq_gu url_classify_u query_pairs_u dom dom_u_valid fast_dom_u). Qed.

  Lemma iri_equ_trans_with a b c cs :
    dom a = true -> dom b = true -> dom c = true ->
    iri_equ a b cs = true -> iri_equ b c cs = true -> iri_equ a c cs = true.
  Proof. apply (eqb_trans_gu url_classify_u query_pairs_u dom dom_u_valid fast_dom_u). Qed.

  Lemma iris_contains_u_nf_with l x :
    dom x = true -> forallb dom l = true ->
    iris_contains_u l x = existsb (fun i => nf_u_eqb (nf_u false x) (nf_u false i)) l.
  Proof.
    intros Dx Dl. assert (iris_contains_u l x = existsb (fun i => iri_equ x i false) l) as -> by (destruct l; reflexivity).
    apply (existsb_nf_gu url_classify_u query_pairs_u dom dom_u_valid fast_dom_u); assumption.
  Qed.

  Lemma iri_equ_differ_with a b cs :
    dom a = true -> dom b = true -> nf_u_eqb (nf_u false a) (nf_u false b) = false -> iri_equ a b cs = false.
  Proof. apply (eqb_differ_gu url_classify_u query_pairs_u dom dom_u_valid fast_dom_u). Qed.
End OneCaseU.

(* ---- the class "no upper-case letter outside the hex digits of escapes" ---- *)
Lemma iri_equ_nf a b cs : iri_dom_u a = true -> iri_dom_u b = true -> iri_equ a b cs = nf_u_eqb (nf_u cs a) (nf_u cs b).
Proof. apply (iri_equ_nf_with q_lower_class class_pairs). Qed.

Lemma iri_equ_nf_eq a b cs : iri_dom_u a = true -> iri_dom_u b = true -> (iri_equ a b cs = true <-> nf_u cs a = nf_u cs b).
Proof. apply (iri_equ_nf_eq_with q_lower_class class_pairs). Qed.

Lemma iri_equ_trans a b c cs :
  iri_dom_u a = true -> iri_dom_u b = true -> iri_dom_u c = true ->
  iri_equ a b cs = true -> iri_equ b c cs = true -> iri_equ a c cs = true.
Proof. apply (iri_equ_trans_with q_lower_class class_pairs). Qed.

Lemma iri_equ_equivalence cs :
  (forall a, iri_equ a a cs = true) /\
  (forall a b, iri_equ a b cs = iri_equ b a cs) /\
  (forall a b c, iri_dom_u a = true -> iri_dom_u b = true -> iri_dom_u c = true ->
                 iri_equ a b cs = true -> iri_equ b c cs = true -> iri_equ a c cs = true).
Proof.
  split; [intros a; apply iri_equ_refl|]. split; [intros a b; apply iri_equ_sym|]. intros a b c. apply iri_equ_trans.
Qed.

Lemma iris_contains_u_nf l x :
  iri_dom_u x = true -> forallb iri_dom_u l = true ->
  iris_contains_u l x = existsb (fun i => nf_u_eqb (nf_u false x) (nf_u false i)) l.
Proof. apply (iris_contains_u_nf_with q_lower_class class_pairs). Qed.

Lemma iri_equ_differ a b cs :
  iri_dom_u a = true -> iri_dom_u b = true -> nf_u_eqb (nf_u false a) (nf_u false b) = false -> iri_equ a b cs = false.
Proof. apply (iri_equ_differ_with q_lower_class class_pairs). Qed.

(* what an answer "equal" implies for ANY two IRIs with scheme and host, whatever their queries *)
Lemma iri_equ_true_parts a b cs u w :
  url_classify_u a = UValid u -> url_classify_u b = UValid w ->
  iri_equ a b cs = true ->
  (cs = true -> scanon (u_scheme u) = scanon (u_scheme w)) /\
  scanon (u_host u) = scanon (u_host w) /\
  scanon (clean_url_path path_clean (u_path u)) = scanon (clean_url_path path_clean (u_path w)).
Proof.
  intros Ha Hb H. rewrite iri_equ_is_gen in H. apply (eqb_valid_gu url_classify_u query_pairs_u a b cs u w Ha Hb) in H.
  destruct H as [H|H].
  - destruct (fast_u a b cs u w Ha Hb H) as [Hs [Hh [Hp _]]]. auto.
  - destruct H as [Hs [Hh [Hp _]]]. auto.
Qed.

(* ---- userinfo is not compared: two IRIs that parse to the same scheme, host, path, query are equal ---- *)
Lemma iri_equ_same_url a b cs u : url_classify_u a = UValid u -> url_classify_u b = UValid u -> iri_equ a b cs = true.
Proof.
  intros Ha Hb. rewrite iri_equ_is_gen. apply (eqb_valid_gu url_classify_u query_pairs_u a b cs u u Ha Hb). right.
  exact (proj1 (url_same_u_equiv query_pairs_u cs) u).
Qed.

(* every IRI with scheme and host is equal to itself with the userinfo taken out, for both flags *)
Lemma iri_equ_drop_userinfo s u : url_classify_u s = UValid u ->
  exists sch up rest fo, s = (sch ++ B "://" ++ up ++ rest) ++ tail_of hash fo /\ uprefix up /\
    url_classify_u ((sch ++ B "://" ++ rest) ++ tail_of hash fo) = UValid u /\
    forall cs, iri_equ s ((sch ++ B "://" ++ rest) ++ tail_of hash fo) cs = true.
Proof.
  intros H. destruct (classify_u_drop_userinfo s u H) as [sch [up [rest [fo [E [U C]]]]]].
  exists sch, up, rest, fo. split; [exact E|]. split; [exact U|]. split; [exact C|]. intros cs.
  apply (iri_equ_same_url _ _ cs u); [exact H|exact C].
Qed.

(* ---- witnesses ---- *)
(* the pinned comparison (strings.EqualFold) on IRIs that are not valid UTF-8: the raw lead byte E2 is completed by
   escaped continuation bytes only after decoding; the repaired comparison tells a and b apart *)
Lemma invalid_utf8_not_transitive_pinned :
  exists a b c, utf8_valid a = false /\ utf8_valid b = true /\ utf8_valid c = false /\
    iri_equ_pinned c a false = true /\ iri_equ_pinned a b false = true /\ iri_equ_pinned c b false = false /\
    iri_dom_u a = true /\ iri_dom_u b = true /\ iri_dom_u c = true /\
    iri_equ c a false = true /\ iri_equ a b false = false /\ iri_equ c b false = false.
Proof.
  exists (hx "687474703a2f2f682fe2253834256161"), (hx "687474703a2f2f682fefbfbd253834254141"), (hx "687474703a2f2f682f2e2fe2253834256161").
  repeat split; vm_compute; reflexivity.
Qed.

(* the pinned comparison: distinct invalid bytes were equal (EqualFold decodes every invalid byte to U+FFFD), also
   against U+FFFD itself; the repaired one tells them apart and still ignores letter case next to them *)
Lemma invalid_bytes_equal_pinned :
  iri_equ_pinned (B "http://h/%ff") (B "http://h/%fe") true = true /\
  iri_equ_pinned (B "http://h/%ff") (hx "687474703a2f2f682fefbfbd") true = true /\
  iri_dom_u (B "http://h/%ff") = true /\ iri_dom_u (B "http://h/%fe") = true /\
  iri_equ (B "http://h/%ff") (B "http://h/%fe") true = false /\
  iri_equ (B "http://h/%ff") (hx "687474703a2f2f682fefbfbd") true = false /\
  nf_u true (B "http://h/%ff") <> nf_u true (B "http://h/%fe") /\
  iri_equ (B "http://h/A%ff") (B "http://h/./a%FF") true = true.
Proof. repeat split; try (vm_compute; reflexivity). vm_compute. discriminate. Qed.

(* the letter case of a decoded query value is NOT what matters: %4A / %4a are the same value "J" *)
Lemma query_hex_case_irrelevant :
  iri_dom_u (B "http://h/?x=%4a") = true /\ iri_dom_u (B "http://h/./?x=%4A") = true /\
  iri_equ (B "http://h/?x=%4a") (B "http://h/./?x=%4A") false = true /\
  iri_equ (B "http://h/?x=%4a") (B "http://h/?x=%6a") false = false.
Proof. repeat split; vm_compute; reflexivity. Qed.

(* mixing letter cases OUTSIDE escapes breaks transitivity, as on the plain grammar *)
Lemma mixed_case_not_transitive_u :
  exists a b c, iri_dom_u_upper a = true /\ iri_dom_u b = true /\ iri_dom_u c = true /\
    iri_equ a b false = true /\ iri_equ b c false = true /\ iri_equ a c false = false.
Proof.
  exists (B "http://h/?X=%4a"), (B "http://h/?x=%4a"), (B "http://h/./?x=%4A"). repeat split; vm_compute; reflexivity.
Qed.
