(* C14 on the wide grammar (Model/UrlU.v: bytes >= 0x80 and percent-escapes in host, path, query, fragment;
   Model/Fold.v: EqualFold with Unicode simple folding): IRI.Equals (Model/IriEqU.iri_equ) is the kernel of the
   normal form nf_u on iri_dom_u - IRIs that are valid UTF-8, parse to a URL with scheme and host, and whose query
   string is in one letter case apart from the hex digits of its escapes. *)
From AP.Model Require Import Prelude Bytes Url IriEq IriNf Vocab Pred CollIri Utf8 FoldTab Fold UrlU IriEqU.
From AP.Proofs Require Import NlvP LowerP IriEqP SortP IriGenP IriNfP IriXP Utf8P FoldP DecodeUP CleanUP UrlUP QueryUP IriGenUP.
From Coq Require Import Sorting.Permutation.

Lemma iri_equ_is_gen a b cs : iri_equ a b cs = eqb_gu url_classify_u query_pairs_u a b cs.
Proof. reflexivity. Qed.
Lemma nf_u_is_gen cs a : nf_u cs a = nf_gu url_classify_u query_pairs_u cs a.
Proof. reflexivity. Qed.

(* reflexive and symmetric on ALL byte strings (invalid UTF-8, userinfo, IP literals included) *)
Lemma iri_equals_u_refl s cs : iri_equals_u s s cs = Some true.
Proof. apply (equals_refl_gu url_classify_u query_pairs_u). Qed.
Lemma iri_equals_u_sym a b cs : iri_equals_u a b cs = iri_equals_u b a cs.
Proof. apply (equals_sym_gu url_classify_u query_pairs_u). Qed.
Lemma iri_equ_refl a cs : iri_equ a a cs = true.
Proof. apply (eqb_refl_gu url_classify_u query_pairs_u). Qed.
Lemma iri_equ_sym a b cs : iri_equ a b cs = iri_equ b a cs.
Proof. apply (eqb_sym_gu url_classify_u query_pairs_u). Qed.

Section OneCaseU.
  (* a class of query strings on which EqualFold-equal strings decode to the same pairs *)
  Variable qok : bytes -> bool.
  Hypothesis qok_pairs : forall q q', qok q = true -> qok q' = true -> ucanon q = ucanon q' -> query_pairs_u q = query_pairs_u q'.

  Notation dom := (iri_dom_u_with qok).

  Lemma dom_u_valid a : dom a = true -> exists u, url_classify_u a = UValid u.
  Proof. unfold iri_dom_u_with. rewrite andb_true_iff. intros [_ H]. destruct (url_classify_u a); try discriminate. eauto. Qed.

  Lemma dom_u_parts a u : dom a = true -> url_classify_u a = UValid u -> utf8_valid a = true /\ qok (u_query u) = true.
  Proof. unfold iri_dom_u_with. rewrite andb_true_iff. intros [V H] E. rewrite E in H. auto. Qed.

  Lemma fast_dom_u a b cs u w :
    dom a = true -> dom b = true -> url_classify_u a = UValid u -> url_classify_u b = UValid w ->
    ufold_eqb (strip_for cs a) (strip_for cs b) = true -> url_same_u query_pairs_u cs u w.
  Proof.
    intros Da Db Ha Hb Hf. destruct (dom_u_parts a u Da Ha) as [Va Qa]. destruct (dom_u_parts b w Db Hb) as [Vb Qb].
    destruct (fast_u a b cs u w Va Vb Ha Hb Hf) as [Hs [Hh [Hp Hq]]].
    split; [exact Hs|]. split; [exact Hh|]. split; [exact Hp|]. rewrite (qok_pairs _ _ Qa Qb Hq). apply Permutation_refl.
  Qed.

  Lemma iri_equ_nf_with a b cs : dom a = true -> dom b = true -> iri_equ a b cs = nf_u_eqb (nf_u cs a) (nf_u cs b).
  Proof. apply (eqb_nf_gu url_classify_u query_pairs_u dom dom_u_valid fast_dom_u). Qed.

  Lemma iri_equ_nf_eq_with a b cs : dom a = true -> dom b = true -> (iri_equ a b cs = true <-> nf_u cs a = nf_u cs b).
  Proof. apply (eqb_nf_eq_gu url_classify_u query_pairs_u dom dom_u_valid fast_dom_u). Qed.

  Lemma iri_equ_trans_with a b c cs :
    dom a = true -> dom b = true -> dom c = true ->
    iri_equ a b cs = true -> iri_equ b c cs = true -> iri_equ a c cs = true.
  Proof. apply (eqb_trans_gu url_classify_u query_pairs_u dom dom_u_valid fast_dom_u). Qed.

  Lemma iris_contains_u_nf_with l x :
    dom x = true -> forallb dom l = true ->
    iris_contains_u l x = existsb (fun i => nf_u_eqb (nf_u false x) (nf_u false i)) l.
  Proof.
    intros Dx Dl. assert (iris_contains_u l x = existsb (fun i => iri_equ x i false) l) as -> by (destruct l; reflexivity).
    apply (existsb_nf_gu url_classify_u query_pairs_u dom dom_u_valid fast_dom_u); assumption.
  Qed.

  Lemma iri_equ_differ_with a b cs :
    dom a = true -> dom b = true -> nf_u_eqb (nf_u false a) (nf_u false b) = false -> iri_equ a b cs = false.
  Proof. apply (eqb_differ_gu url_classify_u query_pairs_u dom dom_u_valid fast_dom_u). Qed.
End OneCaseU.

(* ---- the class "no upper-case letter outside the hex digits of escapes" ---- *)
Lemma iri_equ_nf a b cs : iri_dom_u a = true -> iri_dom_u b = true -> iri_equ a b cs = nf_u_eqb (nf_u cs a) (nf_u cs b).
Proof. apply (iri_equ_nf_with q_lower_class class_pairs). Qed.

Lemma iri_equ_nf_eq a b cs : iri_dom_u a = true -> iri_dom_u b = true -> (iri_equ a b cs = true <-> nf_u cs a = nf_u cs b).
Proof. apply (iri_equ_nf_eq_with q_lower_class class_pairs). Qed.

Lemma iri_equ_trans a b c cs :
  iri_dom_u a = true -> iri_dom_u b = true -> iri_dom_u c = true ->
  iri_equ a b cs = true -> iri_equ b c cs = true -> iri_equ a c cs = true.
Proof. apply (iri_equ_trans_with q_lower_class class_pairs). Qed.

Lemma iri_equ_equivalence cs :
  (forall a, iri_equ a a cs = true) /\
  (forall a b, iri_equ a b cs = iri_equ b a cs) /\
  (forall a b c, iri_dom_u a = true -> iri_dom_u b = true -> iri_dom_u c = true ->
                 iri_equ a b cs = true -> iri_equ b c cs = true -> iri_equ a c cs = true).
Proof.
  split; [intros a; apply iri_equ_refl|]. split; [intros a b; apply iri_equ_sym|]. intros a b c. apply iri_equ_trans.
Qed.

Lemma iris_contains_u_nf l x :
  iri_dom_u x = true -> forallb iri_dom_u l = true ->
  iris_contains_u l x = existsb (fun i => nf_u_eqb (nf_u false x) (nf_u false i)) l.
Proof. apply (iris_contains_u_nf_with q_lower_class class_pairs). Qed.

Lemma iri_equ_differ a b cs :
  iri_dom_u a = true -> iri_dom_u b = true -> nf_u_eqb (nf_u false a) (nf_u false b) = false -> iri_equ a b cs = false.
Proof. apply (iri_equ_differ_with q_lower_class class_pairs). Qed.

(* what an answer "equal" implies for any two valid-UTF-8 IRIs with scheme and host, whatever their queries *)
Lemma iri_equ_true_parts a b cs u w :
  utf8_valid a = true -> utf8_valid b = true -> url_classify_u a = UValid u -> url_classify_u b = UValid w ->
  iri_equ a b cs = true ->
  (cs = true -> ucanon (u_scheme u) = ucanon (u_scheme w)) /\
  ucanon (u_host u) = ucanon (u_host w) /\
  ucanon (clean_url_path path_clean (u_path u)) = ucanon (clean_url_path path_clean (u_path w)).
Proof.
  intros Va Vb Ha Hb H. rewrite iri_equ_is_gen in H. apply (eqb_valid_gu url_classify_u query_pairs_u a b cs u w Ha Hb) in H.
  destruct H as [H|H].
  - destruct (fast_u a b cs u w Va Vb Ha Hb H) as [Hs [Hh [Hp _]]]. auto.
  - destruct H as [Hs [Hh [Hp _]]]. auto.
Qed.

(* ---- witnesses: why the domain asks for valid UTF-8 and for one letter case ---- *)
(* an invalid IRI: the raw lead byte E2 is completed by escaped continuation bytes only after decoding *)
Lemma invalid_utf8_not_transitive :
  exists a b c, utf8_valid a = false /\ utf8_valid b = true /\ utf8_valid c = false /\
    iri_equ c a false = true /\ iri_equ a b false = true /\ iri_equ c b false = false.
Proof.
  exists (hx "687474703a2f2f682fe2253834256161"), (hx "687474703a2f2f682fefbfbd253834254141"), (hx "687474703a2f2f682f2e2fe2253834256161").
  repeat split; vm_compute; reflexivity.
Qed.

(* the letter case of a decoded query value is NOT what matters: %4A / %4a are the same value "J" *)
Lemma query_hex_case_irrelevant :
  iri_dom_u (B "http://h/?x=%4a") = true /\ iri_dom_u (B "http://h/./?x=%4A") = true /\
  iri_equ (B "http://h/?x=%4a") (B "http://h/./?x=%4A") false = true /\
  iri_equ (B "http://h/?x=%4a") (B "http://h/?x=%6a") false = false.
Proof. repeat split; vm_compute; reflexivity. Qed.

(* mixing letter cases OUTSIDE escapes breaks transitivity, as on the plain grammar *)
Lemma mixed_case_not_transitive_u :
  exists a b c, iri_dom_u_upper a = true /\ iri_dom_u b = true /\ iri_dom_u c = true /\
    iri_equ a b false = true /\ iri_equ b c false = true /\ iri_equ a c false = false.
Proof.
  exists (B "http://h/?X=%4a"), (B "http://h/?x=%4a"), (B "http://h/./?x=%4A"). repeat split; vm_compute; reflexivity.
Qed.

(* distinct invalid bytes are equal: EqualFold decodes every invalid byte to U+FFFD *)
Lemma invalid_bytes_equal :
  iri_equ (B "http://h/%ff") (B "http://h/%fe") true = true /\ iri_dom_u (B "http://h/%ff") = true /\
  nf_u true (B "http://h/%ff") = nf_u true (B "http://h/%fe").
Proof. repeat split; vm_compute; reflexivity. Qed.
