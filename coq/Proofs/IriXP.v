(* C14 over the URL parser with percent-escapes in the path (CollIri.url_classify_x, IRI.Equals = CollIri.iri_eqx):
   "%XX" decodes to the same byte whatever the letter case of the hex digits, so the string fast path still
   implies the URL comparison, and iri_eqx is the kernel of the normal form nf_x on its domain.
   Model: Model/CollIri.v, Model/IriNf.v, Model/IriNfX.v. *)
From AP.Model Require Import Prelude Bytes Url IriEq IriNf CollIri IriNfX.
From AP.Proofs Require Import NlvP IriEqP LowerP SortP IriGenP IriNfP.
From Coq Require Import Sorting.Permutation.

(* ================================================================ percent-decoding and letter case *)
Lemma is_rawpath_char_closed : case_closed is_rawpath_char. Proof. closed_by_sweep. Qed.
Lemma is_hex_closed : case_closed is_hex. Proof. closed_by_sweep. Qed.

Lemma hexv_lower_all : forallb (fun b => implb (is_hex b) (N.eqb (hexv (lower_byte b)) (hexv b))) all_bytes = true.
Proof. vm_compute. reflexivity. Qed.
Lemma hexv_lower b : is_hex b = true -> hexv (lower_byte b) = hexv b.
Proof. intros H. pose proof (sweep _ hexv_lower_all b) as S. cbv beta in S. rewrite H in S. apply N.eqb_eq. exact S. Qed.

Lemma hexv_fold h h' : is_hex h = true -> is_hex h' = true -> lower_byte h = lower_byte h' -> hexv h = hexv h'.
Proof. intros H H' E. rewrite <- (hexv_lower h H), <- (hexv_lower h' H'), E. reflexivity. Qed.

Definition st_rel (st st' : pstate) : Prop :=
  match st, st' with
  | P0, P0 => True
  | P1, P1 => True
  | P2 h, P2 h' => is_hex h = true /\ is_hex h' = true /\ lower_byte h = lower_byte h'
  | _, _ => False
  end.

(* two raw paths equal up to letter case decode to paths equal up to letter case *)
Lemma pct_go_fold s : forall s' st st' d d',
  lower s = lower s' -> st_rel st st' ->
  pct_go st s = Some d -> pct_go st' s' = Some d' -> lower d = lower d'.
Proof.
  induction s as [|c r IH]; intros [|c' r'] st st' d d' E R; try discriminate.
  - destruct st, st'; simpl in *; try contradiction; try discriminate. intros H H'; inversion H; inversion H'; reflexivity.
  - simpl in E. inversion E as [[Ec Er]].
    destruct st, st'; simpl in R; try contradiction; cbn [pct_go].
    + (* P0 *)
      assert (Byte.eqb c' pct = Byte.eqb c pct) as ->.
      { rewrite <- (lower_byte_delim pct c'), <- (lower_byte_delim pct c), Ec by reflexivity. reflexivity. }
      destruct (Byte.eqb c pct).
      * apply (IH r' P1 P1); simpl; auto.
      * destruct (pct_go P0 r) as [d0|] eqn:D0; [|discriminate]. destruct (pct_go P0 r') as [d0'|] eqn:D0'; [|discriminate].
        intros H H'; inversion H; inversion H'; subst. simpl. rewrite Ec. f_equal. apply (IH r' P0 P0 d0 d0'); simpl; auto.
    + (* P1 *)
      destruct (is_hex c) eqn:Hc; [|discriminate]. destruct (is_hex c') eqn:Hc'; [|discriminate].
      apply (IH r' (P2 c) (P2 c')); auto. simpl. auto.
    + (* P2 *)
      destruct R as [Hh [Hh' Eh]].
      destruct (is_hex c) eqn:Hc; [|discriminate]. destruct (is_hex c') eqn:Hc'; [|discriminate].
      destruct (pct_go P0 r) as [d0|] eqn:D0; [|discriminate]. destruct (pct_go P0 r') as [d0'|] eqn:D0'; [|discriminate].
      intros H H'; inversion H; inversion H'; subst. simpl.
      unfold unhex2. rewrite (hexv_fold h h0 Hh Hh' Eh), (hexv_fold c c' Hc Hc' Ec). f_equal.
      apply (IH r' P0 P0 d0 d0'); simpl; auto.
Qed.

Lemma pct_decode_fold rp rp' p p' :
  lower rp = lower rp' -> pct_decode rp = Some p -> pct_decode rp' = Some p' -> lower p = lower p'.
Proof. intros E. apply (pct_go_fold rp rp' P0 P0); simpl; auto. Qed.

(* ================================================================ what url_classify_x = UValid says about the string *)
Lemma classify_x_struct s u : url_classify_x s = UValid u ->
  exists sch rp qo fo, raw_struct is_rawpath_char s sch (u_host u) rp qo fo /\
    u_scheme u = lower sch /\ pct_decode rp = Some (u_path u) /\ u_query u = opt_or_nil qo.
Proof.
  unfold url_classify_x. destruct (url_parse_x s) as [x| |] eqn:P; try discriminate.
  destruct (nonempty (x_scheme x) && nonempty (x_host x)) eqn:NE; [|discriminate].
  intros H. inversion H; subst u; clear H. cbn [u_scheme u_host u_path u_query u_frag].
  destruct s as [|c0 s0]; [discriminate|]. unfold url_parse_x in P. remember (c0 :: s0) as s eqn:Hs.
  destruct (cut_byte_spec hash s) as [Hnh Es]. destruct (cut_byte hash s) as [nofrag frag]. simpl in Hnh, Es.
  destruct (existsb is_ctl nofrag); [discriminate|]. destruct (Byte.eqb c0 colon); [discriminate|].
  destruct (cut_byte_spec qmark nofrag) as [_ Enf]. destruct (cut_byte qmark nofrag) as [noquery query]. simpl in Enf.
  destruct (index (B "://") noquery) as [n|] eqn:Ei.
  2:{ match type of P with (if ?c then _ else _) = _ => destruct c end; [|discriminate].
      inversion P; subst x. discriminate. }
  apply index_split in Ei. simpl length in Ei.
  destruct (cut_byte_spec slash (skipn (n + 3) noquery)) as [_ Er].
  destruct (cut_byte slash (skipn (n + 3) noquery)) as [hostport pathrest]. simpl in Er.
  match type of P with (if ?c then _ else _) = _ => destruct c eqn:Hc end; [|discriminate].
  match type of P with match ?t with _ => _ end = _ => destruct t as [p|] eqn:Dp end; [|discriminate].
  destruct (forallb is_ascii p); [|discriminate].
  inversion P; subst x; clear P. cbn [x_scheme x_host x_path x_query x_frag] in *.
  rewrite !andb_true_iff in Hc. destruct Hc as [[[[[[_ Hsch] Hn0] Hhost] Hpath] Hq] Hf].
  match type of Dp with pct_decode ?rp = _ => exists (firstn n noquery), rp, query, frag end.
  split; [constructor|split; [reflexivity|split; [exact Dp|destruct query; reflexivity]]].
  - rewrite Es at 1. f_equal. rewrite Enf at 1. rewrite Ei at 1. rewrite Er.
    rewrite <- !app_assoc. destruct pathrest; reflexivity.
  - rewrite Enf in Hnh. rewrite Ei in Hnh at 1. rewrite Er in Hnh. rewrite <- !app_assoc in Hnh.
    destruct pathrest; exact Hnh.
  - exact Hsch.
  - intros E0. apply negb_true_iff, Nat.eqb_neq in Hn0.
    assert (length (firstn n noquery) = 0) as L by (rewrite E0; reflexivity).
    rewrite firstn_length in L.
    apply (f_equal (@length byte)) in Ei. rewrite !app_length, firstn_length in Ei. simpl length in Ei. lia.
  - apply host_ok_hostp. exact Hhost.
  - exact Hpath.
  - destruct pathrest as [p'|]; [right; exists p'; reflexivity|left; reflexivity].
Qed.

(* ================================================================ the fast path implies the URL comparison *)
Lemma fast_x : forall a b cs u w,
  url_classify_x a = UValid u -> url_classify_x b = UValid w ->
  fold_eqb (strip_for cs a) (strip_for cs b) = true ->
  (cs = true -> lower (u_scheme u) = lower (u_scheme w)) /\
  lower (u_host u) = lower (u_host w) /\
  lower (clean_url_path path_clean (u_path u)) = lower (clean_url_path path_clean (u_path w)) /\
  lower (u_query u) = lower (u_query w).
Proof.
  intros a b cs u w Ha Hb Hf.
  destruct (classify_x_struct a u Ha) as [sa [pa [qa [fa [Sa [Sca [Da Qa]]]]]]].
  destruct (classify_x_struct b w Hb) as [sb [pb [qb [fb [Sb [Scb [Db Qb]]]]]]].
  destruct (fast_strings is_rawpath_char a b cs _ _ _ qa fa _ _ _ qb fb is_rawpath_char_closed eq_refl Sa Sb Hf)
    as [Hs [Hh [Hp Hq]]].
  split; [|split; [exact Hh|split]].
  - intros Hcs. rewrite Sca, Scb, (Hs Hcs). reflexivity.
  - apply clean_url_path_fold. exact (pct_decode_fold pa pb _ _ Hp Da Db).
  - rewrite Qa, Qb. exact Hq.
Qed.

(* ================================================================ IRI.Equals over the extended parser, on its domain *)
Lemma iri_eqx_is_gen a b cs : iri_eqx a b cs = iri_eqb_gen url_classify_x a b cs.
Proof. reflexivity. Qed.

Lemma iri_eqx_refl a cs : iri_eqx a a cs = true.
Proof. apply (eqb_refl_g url_classify_x). Qed.
Lemma iri_eqx_sym' a b cs : iri_eqx a b cs = iri_eqx b a cs.
Proof. apply (eqb_sym_g url_classify_x). Qed.

Lemma iri_eqx_nf a b cs : iri_dom_x a = true -> iri_dom_x b = true -> iri_eqx a b cs = nf_eqb (nf_x cs a) (nf_x cs b).
Proof. apply (eqb_nf_g url_classify_x fast_x no_upper no_upper_inj). Qed.

Lemma iri_eqx_nf_upper a b cs :
  iri_dom_x_upper a = true -> iri_dom_x_upper b = true -> iri_eqx a b cs = nf_eqb (nf_x cs a) (nf_x cs b).
Proof. apply (eqb_nf_g url_classify_x fast_x no_lower no_lower_inj). Qed.

Lemma iri_eqx_nf_eq a b cs : iri_dom_x a = true -> iri_dom_x b = true -> (iri_eqx a b cs = true <-> nf_x cs a = nf_x cs b).
Proof. apply (eqb_nf_eq_g url_classify_x fast_x no_upper no_upper_inj). Qed.

Lemma iri_eqx_trans a b c cs :
  iri_dom_x a = true -> iri_dom_x b = true -> iri_dom_x c = true ->
  iri_eqx a b cs = true -> iri_eqx b c cs = true -> iri_eqx a c cs = true.
Proof. apply (eqb_trans_g url_classify_x fast_x no_upper no_upper_inj). Qed.

Lemma iri_eqx_differ_host_path a b cs u w :
  url_classify_x a = UValid u -> url_classify_x b = UValid w ->
  lower (u_host u) <> lower (u_host w) \/
  lower (clean_url_path path_clean (u_path u)) <> lower (clean_url_path path_clean (u_path w)) ->
  iri_eqx a b cs = false.
Proof. apply (eqb_differ_host_path_g url_classify_x fast_x). Qed.

(* ================================================================ the extended parser extends the plain one *)
Definition lower_scheme (u : url) : url :=
  {| u_scheme := lower (u_scheme u); u_host := u_host u; u_path := u_path u; u_query := u_query u; u_frag := u_frag u |}.

Lemma grammar_no_ctl_all :
  forallb (fun b => implb (is_scheme_char b || hostp b || is_path_char b || is_query_char b) (negb (is_ctl b))) all_bytes = true.
Proof. vm_compute. reflexivity. Qed.
Lemma path_char_facts_all :
  forallb (fun b => implb (is_path_char b) (negb (Byte.eqb b pct) && is_ascii b)) all_bytes = true.
Proof. vm_compute. reflexivity. Qed.
Lemma alpha_not_colon_all : forallb (fun b => implb (is_alpha b) (negb (Byte.eqb b colon))) all_bytes = true.
Proof. vm_compute. reflexivity. Qed.

Lemma no_ctl_class (P : byte -> bool) l :
  (forall b, P b = true -> is_scheme_char b || hostp b || is_path_char b || is_query_char b = true) ->
  forallb P l = true -> existsb is_ctl l = false.
Proof.
  intros HP. induction l as [|x l IH]; simpl; [reflexivity|]. rewrite andb_true_iff. intros [Hx Hl].
  rewrite (IH Hl), orb_false_r. pose proof (sweep _ grammar_no_ctl_all x) as S. cbv beta in S.
  rewrite (HP x Hx) in S. simpl in S. apply negb_true_iff. exact S.
Qed.

Lemma pct_go_plain l : forallb is_path_char l = true -> pct_go P0 l = Some l /\ forallb is_ascii l = true /\ forallb is_rawpath_char l = true.
Proof.
  induction l as [|x l IH]; simpl; [auto|]. rewrite andb_true_iff. intros [Hx Hl]. destruct (IH Hl) as [I1 [I2 I3]].
  pose proof (sweep _ path_char_facts_all x) as S. cbv beta in S. rewrite Hx in S. simpl in S.
  rewrite andb_true_iff, negb_true_iff in S. destruct S as [S1 S2].
  rewrite S1, I1, S2, I2, I3. unfold is_rawpath_char. rewrite Hx. auto.
Qed.

Lemma classify_x_conservative s u : url_classify s = UValid u -> url_classify_x s = UValid (lower_scheme u).
Proof.
  destruct s as [|c0 s0]; [discriminate|]. unfold url_classify, url_classify_x, url_parse_x. remember (c0 :: s0) as s eqn:Hs.
  destruct (cut_byte_spec hash s) as [_ Es]. destruct (cut_byte hash s) as [nofrag frag]. simpl in Es.
  destruct (cut_byte_spec qmark nofrag) as [_ Enf]. destruct (cut_byte qmark nofrag) as [noquery query]. simpl in Enf.
  destruct (index (B "://") noquery) as [n|] eqn:Ei.
  2:{ destruct (forallb _ s); discriminate. }
  pose proof (index_split _ _ _ Ei) as En. simpl length in En.
  destruct (cut_byte_spec slash (skipn (n + 3) noquery)) as [_ Er].
  destruct (cut_byte slash (skipn (n + 3) noquery)) as [hostport pathrest]. simpl in Er.
  match goal with |- (if ?c then _ else _) = _ -> _ => destruct c eqn:Hc end; [|discriminate].
  destruct hostport as [|h0 hp]; [discriminate|]. intros H. inversion H; subst u; clear H.
  rewrite !andb_true_iff in Hc. destruct Hc as [[[[[[Ha Hsch] Hn0] Hhost] Hpath] Hq] Hf].
  destruct (pct_go_plain _ Hpath) as [Dp [Asc Rp]].
  (* no control byte before the fragment *)
  assert (existsb is_ctl nofrag = false) as ->.
  { rewrite Enf, En, Er. rewrite !existsb_app.
    rewrite (no_ctl_class is_scheme_char _ (fun b H => ltac:(rewrite H; reflexivity)) Hsch).
    rewrite (no_ctl_class hostp (h0 :: hp) (fun b H => ltac:(rewrite H, orb_true_r; reflexivity)) (host_ok_hostp _ Hhost)).
    assert (existsb is_ctl (tail_of slash pathrest) = false) as ->.
    { destruct pathrest as [p|]; [|reflexivity].
      apply (no_ctl_class is_path_char _ (fun b H => ltac:(rewrite H, !orb_true_r; reflexivity)) Hpath). }
    assert (existsb is_ctl (tail_of qmark query) = false) as ->.
    { destruct query as [q|]; [|reflexivity]. simpl.
      apply (no_ctl_class is_query_char _ (fun b H => ltac:(rewrite H, !orb_true_r; reflexivity)) Hq). }
    reflexivity. }
  assert (Byte.eqb c0 colon = false) as ->.
  { pose proof (sweep _ alpha_not_colon_all c0) as S. cbv beta in S. rewrite Ha in S. apply negb_true_iff. exact S. }
  rewrite Ha, Hsch, Hn0, Hhost, Rp, Hq, Hf. cbn [andb]. unfold pct_decode. rewrite Dp, Asc.
  cbn [x_scheme x_host x_path x_query x_frag].
  assert (firstn n noquery <> []) as Hne.
  { intros E0. apply negb_true_iff, Nat.eqb_neq in Hn0.
    assert (length (firstn n noquery) = 0) as L by (rewrite E0; reflexivity). rewrite firstn_length in L.
    apply (f_equal (@length byte)) in En. rewrite !app_length, firstn_length in En. simpl length in En. lia. }
  assert (nonempty (lower (firstn n noquery)) = true) as ->.
  { destruct (firstn n noquery); [congruence|reflexivity]. }
  simpl. unfold lower_scheme. simpl. destruct query; reflexivity.
Qed.

Lemma iri_dom_x_of_plain a : iri_dom a = true -> iri_dom_x a = true.
Proof.
  unfold iri_dom, iri_dom_with, iri_dom_x, iri_dom_gen. destruct (url_classify a) as [u| |] eqn:E; try discriminate.
  rewrite (classify_x_conservative a u E). auto.
Qed.

Lemma nf_x_of_plain a cs : iri_dom a = true -> nf_x cs a = nf cs a.
Proof.
  unfold iri_dom, iri_dom_with, iri_dom_gen, nf_x, nf, nf_gen. destruct (url_classify a) as [u| |] eqn:E; try discriminate.
  rewrite (classify_x_conservative a u E). intros _. unfold nf_url, lower_scheme. simpl. rewrite lower_idem. reflexivity.
Qed.

(* on the plain domain the two models of IRI.Equals agree *)
Lemma iri_eqx_of_plain a b cs : iri_dom a = true -> iri_dom b = true -> iri_eqx a b cs = iri_eqb a b cs.
Proof.
  intros Da Db. rewrite (iri_eqb_nf a b cs Da Db), (iri_eqx_nf a b cs (iri_dom_x_of_plain a Da) (iri_dom_x_of_plain b Db)).
  rewrite !nf_x_of_plain by assumption. reflexivity.
Qed.
