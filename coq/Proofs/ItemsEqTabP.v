(* The tie between the generated tables of Gen/ItemsEqT.v and the hand-written model (Model/Equal.v, IriEq.v, Nlv.v):
     1. the statement sequences of Model/ItemsEqTab.v, interpreted, ARE the model's functions
          itemsNeedSwapping        = needs_swap                   (on non-nil arguments, where ItemsEqual calls it)
          ItemCollection.Contains  = contains_m
          ItemCollection.Equals    = itemcoll_equals cfg_fixed   (the one-to-one matching: all_matched / find_unused)
          ItemsEqual               = items_equal_body cfg_fixed   (object_branch included)
          IRIs.Contains            = iris_contains
          NaturalLanguageValues.Equals = nl_equals
        for all arguments, all one-level-down comparisons [rec] and all struct Equals methods [eqm] that agree
        with equals_method cfg_fixed;
     2. for every table satisfying itemseq_table_ok the same holds of the table's meaning;
     3. with the Equals tables of Model/EqualsTab.v: items_equal_t = items_equal at every fuel;
     4. one comparison block read through the callee it names = cmp_one of its classification. *)
From AP.Model Require Import Prelude Bytes Vocab Pred IriEq Nlv Layout Equal TabEq EqualsTab Dispatch ItemsEqTab.
From AP.Proofs Require Import NlvP TabEqP EqualP EqualsTabP.
From AP.Gen Require Import TypeLists.

(* ---------------------------------------------------------------- boolean equality of bodies is sound *)
Local Ltac beq_split H :=
  repeat match goal with
         | H' : (_ && _) = true |- _ => let H1 := fresh "H" in let H2 := fresh "H" in
                                       apply andb_prop in H'; destruct H' as [H1 H2]
         end.
Local Ltac by_bytes :=
  repeat match goal with
         | H : bytes_eqb _ _ = true |- _ => apply bytes_eqb_true in H
         | H : Bool.eqb _ _ = true |- _ => apply Bool.eqb_prop in H
         | H : Nat.eqb _ _ = true |- _ => apply Nat.eqb_eq in H
         | H : kind_beq _ _ = true |- _ => apply internal_kind_dec_bl in H
         end; subst; try reflexivity.

Lemma ipred_beq_eq a b : ipred_beq a b = true -> a = b.
Proof. destruct a, b; simpl; try discriminate; reflexivity. Qed.
Lemma texp_beq_eq a b : texp_beq a b = true -> a = b.
Proof. destruct a, b; simpl; try discriminate; intro H; by_bytes. Qed.
Lemma sexp_beq_eq a b : sexp_beq a b = true -> a = b.
Proof. destruct a, b; simpl; try discriminate; intro H; by_bytes. Qed.
Lemma nexp_beq_eq a b : nexp_beq a b = true -> a = b.
Proof. destruct a, b; simpl; try discriminate; intro H; by_bytes. Qed.
Lemma view_beq_eq a b : view_beq a b = true -> a = b.
Proof. destruct a, b; simpl; try discriminate; intro H; by_bytes. Qed.
Lemma vars_beq_eq a b : lbeq bytes_eqb a b = true -> a = b.
Proof. apply lbeq_eq. exact bytes_eqb_true. Qed.

Lemma bexp_beq_eq a : forall b, bexp_beq a b = true -> a = b.
Proof.
  induction a; intros [] H; simpl in H; try discriminate; beq_split H;
    repeat match goal with
           | IH : forall b, bexp_beq ?x b = true -> ?x = b, H : bexp_beq ?x _ = true |- _ => apply IH in H
           | H : ipred_beq _ _ = true |- _ => apply ipred_beq_eq in H
           | H : texp_beq _ _ = true |- _ => apply texp_beq_eq in H
           | H : sexp_beq _ _ = true |- _ => apply sexp_beq_eq in H
           | H : nexp_beq _ _ = true |- _ => apply nexp_beq_eq in H
           | H : lbeq bytes_eqb _ _ = true |- _ => apply vars_beq_eq in H
           end; by_bytes.
Qed.

Lemma stmt_beq_eq a : forall b, stmt_beq a b = true -> a = b.
Proof.
  induction a; intros [] H; simpl in H; try discriminate; beq_split H;
    repeat match goal with
           | IH : forall b, stmt_beq ?x b = true -> ?x = b, H : stmt_beq ?x _ = true |- _ => apply IH in H
           | H : bexp_beq _ _ = true |- _ => apply bexp_beq_eq in H
           | H : texp_beq _ _ = true |- _ => apply texp_beq_eq in H
           | H : nexp_beq _ _ = true |- _ => apply nexp_beq_eq in H
           | H : view_beq _ _ = true |- _ => apply view_beq_eq in H
           end; by_bytes.
Qed.

Lemma gofn_beq_eq a b : gofn_beq a b = true -> a = b.
Proof.
  destruct a as [n1 r1 p1 b1], b as [n2 r2 p2 b2]. unfold gofn_beq. simpl. intro H. beq_split H.
  repeat match goal with
         | H : stmt_beq _ _ = true |- _ => apply stmt_beq_eq in H
         | H : lbeq bytes_eqb _ _ = true |- _ => apply vars_beq_eq in H
         | H : ovar_beq ?a ?b = true |- _ => destruct a, b; simpl in H; try discriminate
         end; by_bytes.
Qed.

Lemma fn_matches_spec tbl m : fn_matches tbl m = true -> fn_named tbl (gf_name m) = Some m.
Proof.
  unfold fn_matches. destruct (fn_named tbl (gf_name m)) as [f|]; [|discriminate].
  intro H. apply gofn_beq_eq in H. subst. reflexivity.
Qed.

Lemma table_ok_fns tbl : itemseq_table_ok tbl = true -> forall m, In m model_fns -> fn_named tbl (gf_name m) = Some m.
Proof.
  unfold itemseq_table_ok. intro H. apply andb_prop in H. destruct H as [H _].
  rewrite forallb_forall in H. intros m Hm. apply fn_matches_spec. apply H. exact Hm.
Qed.

(* From here on every lemma is GENERIC in the IRI comparison (builder b47; see Proofs/EqualP.v): inside the section the
   short names stand for the generic definitions (modules EqG, EtG, ItG, ItB) applied to [ideq]; after the module the
   same names are re-established for iri_eqb by instantiation. *)
Module ItGP.
Section IdRel.
  Variable ideq : bytes -> bytes -> bool -> bool.
  Local Notation cmp_one := (EqG.cmp_one ideq).
  Local Notation all_cmp := (EqG.all_cmp ideq).
  Local Notation object_equals := (EqG.object_equals ideq).
  Local Notation intransitive_equals := (EqG.intransitive_equals ideq).
  Local Notation activity_equals := (EqG.activity_equals ideq).
  Local Notation actor_equals := (EqG.actor_equals ideq).
  Local Notation collection_equals := (EqG.collection_equals ideq).
  Local Notation page_equals := (EqG.page_equals ideq).
  Local Notation ordered_equals := (EqG.ordered_equals ideq).
  Local Notation opage_equals := (EqG.opage_equals ideq).
  Local Notation link_equals := (EqG.link_equals ideq).
  Local Notation equals_method := (EqG.equals_method ideq).
  Local Notation object_branch := (EqG.object_branch ideq).
  Local Notation items_equal_body := (EqG.items_equal_body ideq).
  Local Notation items_equal_c := (EqG.items_equal_c ideq).
  Local Notation items_equal := (EqG.items_equal ideq).
  Local Notation items_equal_pinned := (EqG.items_equal_pinned ideq).
  Local Notation iris_contains := (EqG.iris_contains ideq).
  Local Notation ieq := (EqGI.ieq ideq).
  Local Notation guard_fires := (EtG.guard_fires ideq).
  Local Notation run_guards := (EtG.run_guards ideq).
  Local Notation run_csteps := (EtG.run_csteps ideq).
  Local Notation interp_with := (EtG.interp_with ideq).
  Local Notation interp_method := (EtG.interp_method ideq).
  Local Notation equals_method_t := (EtG.equals_method_t ideq).
  Local Notation ev_b := (ItG.ev_b ideq).
  Local Notation exec := (ItG.exec ideq).
  Local Notation run_fn := (ItG.run_fn ideq).
  Local Notation run_named := (ItG.run_named ideq).
  Local Notation sem_swap := (ItG.sem_swap ideq).
  Local Notation sem_contains := (ItG.sem_contains ideq).
  Local Notation meth_contains := (ItG.meth_contains ideq).
  Local Notation env_contains := (ItG.env_contains ideq).
  Local Notation sem_iceq := (ItG.sem_iceq ideq).
  Local Notation func_top := (ItG.func_top ideq).
  Local Notation meth_top := (ItG.meth_top ideq).
  Local Notation env_top := (ItG.env_top ideq).
  Local Notation sem_items_equal := (ItG.sem_items_equal ideq).
  Local Notation sem_iris_contains := (ItG.sem_iris_contains ideq).
  Local Notation sem_nlv_equals := (ItG.sem_nlv_equals ideq).
  Local Notation items_equal_t := (ItG.items_equal_t ideq).
  Local Notation object_equals_ext := (EqGP.object_equals_ext ideq).
  Local Notation intransitive_equals_ext := (EqGP.intransitive_equals_ext ideq).
  Local Notation activity_equals_ext := (EqGP.activity_equals_ext ideq).
  Local Notation actor_equals_ext := (EqGP.actor_equals_ext ideq).
  Local Notation collection_equals_ext := (EqGP.collection_equals_ext ideq).
  Local Notation page_equals_ext := (EqGP.page_equals_ext ideq).
  Local Notation ordered_equals_ext := (EqGP.ordered_equals_ext ideq).
  Local Notation opage_equals_ext := (EqGP.opage_equals_ext ideq).
  Local Notation link_equals_ext := (EqGP.link_equals_ext ideq).
  Local Notation equals_table_tie := (EtGP.equals_table_tie ideq).
  Local Notation comp_sem := (ItB.comp_sem ideq).
  Local Notation raw_block_sem := (ItB.raw_block_sem ideq).

(* ---------------------------------------------------------------- symbolic execution of a body, one statement at a time *)
Section Steps.
  Variable E : callenv.
  Lemma exec_seq a b s :
    exec E (SSeq a b) s = obind (exec E a s) (fun g => match g with SgNormal s' => exec E b s' | other => Ok other end).
  Proof. reflexivity. Qed.
  Lemma exec_if c t e s : exec E (SIf c t e) s = obind (ev_b E s c) (fun b => if b then exec E t s else exec E e s).
  Proof. reflexivity. Qed.
  Lemma exec_ret e s : exec E (SReturn e) s = obind (ev_b E s e) (fun b => Ok (SgRet b)).
  Proof. reflexivity. Qed.
  Lemma exec_retnil s : exec E SReturnNil s = Ok (SgRetNil s).
  Proof. reflexivity. Qed.
  Lemma exec_skip s : exec E SSkip s = Ok (SgNormal s).
  Proof. reflexivity. Qed.
  Lemma exec_break s : exec E SBreak s = Ok (SgBreak s).
  Proof. reflexivity. Qed.
  Lemma exec_decltype v t s : exec E (SDeclType v t) s = obind (ev_texp s t) (fun x => Ok (SgNormal (set_type v x s))).
  Proof. reflexivity. Qed.
  Lemma exec_declbool v e s : exec E (SDeclBool v e) s = obind (ev_b E s e) (fun b => Ok (SgNormal (set_bool v b s))).
  Proof. reflexivity. Qed.
  Lemma exec_setbool v e s :
    exec E (SSetBool v e) s
    = match vget v (st_bools s) with
      | Some _ => obind (ev_b E s e) (fun b => Ok (SgNormal (set_bool v b s)))
      | None => Err
      end.
  Proof. reflexivity. Qed.
  Lemma exec_for v coll body s :
    exec E (SFor v coll body) s
    = match vget coll (st_vals s) with
      | Some d => match range_of d with
                  | Some l => for_loop (fun x s' => exec E body (bind v x s')) l s
                  | None => Err
                  end
      | None => Err
      end.
  Proof. reflexivity. Qed.
  Lemma exec_on w arg param body s :
    exec E (SOn w arg param body) s
    = obind (item_of s arg) (fun i =>
      match view_of w i with
      | VwOutside => Err
      | VwSkip => Ok (SgNormal s)
      | VwRun d => obind (exec E body (bind param d s))
                         (fun g => match g with SgNormal s' | SgRetNil s' => Ok (SgNormal s') | _ => Err end)
      end).
  Proof. reflexivity. Qed.
  Lemma for_loop_nil step s : for_loop step [] s = Ok (SgNormal s).
  Proof. reflexivity. Qed.
  Lemma for_loop_cons step x r s :
    for_loop step (x :: r) s
    = obind (step x s) (fun g => match g with
                                 | SgNormal s' => for_loop step r s'
                                 | SgBreak s' => Ok (SgNormal s')
                                 | other => Ok other
                                 end).
  Proof. reflexivity. Qed.
End Steps.

(* closed comparisons of variable names *)
Ltac ceval :=
  repeat match goal with
         | |- context [bytes_eqb ?a ?b] =>
             let r := eval vm_compute in (bytes_eqb a b) in
             match r with
             | true => change (bytes_eqb a b) with true
             | false => change (bytes_eqb a b) with false
             end
         end.
(* calls: the projections of the call environment, applied *)
Ltac envs :=
  repeat match goal with
         | |- context [ce_func ?E ?n ?ds] =>
             let r := eval lazy beta iota delta [ce_func ce_method env_none env_rec env_contains env_top] in (ce_func E n ds) in
             progress change (ce_func E n ds) with r
         | |- context [ce_method ?E ?n ?d ?ds] =>
             let r := eval lazy beta iota delta [ce_func ce_method env_none env_rec env_contains env_top] in (ce_method E n d ds) in
             progress change (ce_method E n d ds) with r
         end.
(* lookups and updates in states with a concrete spine: evaluated on the small term, then put back in one step *)
Ltac ct r :=
  match r with
  | context C [bytes_eqb ?a ?b] =>
      let c := eval vm_compute in (bytes_eqb a b) in
      let r' := lazymatch c with
                | true => context C [true]
                | false => context C [false]
                end in
      let r'' := eval lazy beta iota delta [vget vset] in r' in
      ct r''
  | _ => r
  end.
Ltac lk :=
  repeat match goal with
         | |- context [@vget ?A ?k ?env] =>
             let r := eval lazy beta iota delta [vget vset] in (@vget A k env) in
             let r2 := ct r in
             progress change (@vget A k env) with r2
         | |- context [@vset ?A ?k ?v ?env] =>
             let r := eval lazy beta iota delta [vget vset] in (@vset A k v env) in
             let r2 := ct r in
             progress change (@vset A k v env) with r2
         end.
(* expressions on such states *)
Ltac evs :=
  repeat (progress (lazy beta iota zeta delta
                      [ev_b ev_texp ev_sexp ev_nexp ev_pred item_of vals_of list_len bind set_type set_bool
                       st_vals st_types st_bools st0 obind range_of lst
                       func_rec func_top meth_contains meth_top];
                    cbn [negb andb orb map]; envs; lk; ceval)).
(* a loop's step function is folded away before anything is evaluated: it takes the state as an argument *)
Ltac hide_step :=
  match goal with
  | |- context [for_loop ?f] => let st := fresh "step" in set (st := f)
  end.
Ltac sx1 :=
  first [rewrite exec_seq | rewrite exec_if | rewrite exec_ret | rewrite exec_retnil | rewrite exec_skip
        | rewrite exec_break | rewrite exec_decltype | rewrite exec_declbool | rewrite exec_setbool
        | rewrite exec_for; hide_step | rewrite exec_on | rewrite for_loop_nil].
(* rewrite a loop with a lemma whose left-hand side is the loop up to conversion *)
Ltac use_loop Hl :=
  match type of Hl with
  | ?lhs = _ => match goal with |- context [for_loop ?f ?l ?s] => change (for_loop f l s) with lhs end
  end; rewrite Hl.
Ltac sx := evs; repeat (sx1; evs).
Ltac open_fn f := unfold run_fn, f, on_equals_c, on_equals; cbn [gf_recv gf_params gf_body bind_all blk fold_right].

Lemma get_type_nn w : is_nil w = false -> get_type w = Ok (typ w).
Proof. destruct w; simpl; try discriminate; reflexivity. Qed.
Lemma get_link_nn w : is_nil w = false -> get_link w = Ok (lnk w).
Proof. destruct w; simpl; try discriminate; reflexivity. Qed.

Lemma type_list_object : type_list (B "ObjectTypes") = Some tl_ObjectTypes.
Proof. vm_compute. reflexivity. Qed.
Lemma type_list_activity : type_list (B "ActivityTypes") = Some tl_ActivityTypes.
Proof. vm_compute. reflexivity. Qed.
Lemma type_list_actor : type_list (B "ActorTypes") = Some tl_ActorTypes.
Proof. vm_compute. reflexivity. Qed.

(* ---------------------------------------------------------------- itemsNeedSwapping *)
Lemma swap_model a b : is_nil a = false -> is_nil b = false ->
  run_fn env_none m_swap None [VItem a; VItem b] = Ok (needs_swap a b).
Proof.
  intros Ha Hb. open_fn m_swap. unfold needs_swap.
  sx. destruct (is_iri a); [destruct (is_iri b)|]; sx; try reflexivity.
  all: rewrite (get_type_nn a Ha); sx; rewrite (get_type_nn b Hb); sx; rewrite type_list_object; sx.
  all: destruct (tl_contains tl_ObjectTypes (typ b)); sx; reflexivity.
Qed.

(* ---------------------------------------------------------------- ItemCollection.Contains *)
Section Contains.
  Variables rec1 rec2 : item -> item -> outcome bool.
  Hypothesis Hrec : forall a b, rec1 a b = rec2 a b.

  (* the states of the loop: the loop variable is unbound before the first round *)
  Definition cst (I : dval) (r : item) (t : option dval) : dstate :=
    mkst ([(B "i", I); (B "r", VItem r)] ++ match t with Some y => [(B "it", y)] | None => [] end) [] [].

  Lemma contains_loop I r body l : 
    body = SSeq (SIf (BCall n_items_equal [v_it; B "r"]) (SSeq (SReturn (BConst true)) SSkip) SSkip) SSkip ->
    forall t, exists t',
    for_loop (fun x s' => exec (env_rec rec1) body (bind v_it x s')) (map VItem l) (cst I r t)
    = obind (contains_m rec2 l r) (fun b => Ok (if b then SgRet true else SgNormal (cst I r t'))).
  Proof.
    intros ->. induction l as [|x l IH]; intro t.
    - exists t. reflexivity.
    - cbn [map contains_m]. rewrite for_loop_cons. rewrite <- Hrec.
      assert (exec (env_rec rec1)
                (SSeq (SIf (BCall n_items_equal [v_it; B "r"]) (SSeq (SReturn (BConst true)) SSkip) SSkip) SSkip)
                (bind v_it (VItem x) (cst I r t))
              = obind (rec1 x r) (fun b => Ok (if b then SgRet true else SgNormal (cst I r (Some (VItem x)))))) as ->.
      { unfold cst, v_it, func_rec. destruct t; cbn [app]; sx.
        all: destruct (rec1 x r) as [[|]| | |]; sx; reflexivity. }
      destruct (rec1 x r) as [[|]| | |]; cbn [obind]; try (exists t; reflexivity).
      apply IH.
  Qed.

  Lemma contains_model lo r :
    run_fn (env_rec rec1) m_ic_contains (Some (VItem (IItems false lo))) [VItem r] = contains_m rec2 (lst lo) r.
  Proof.
    open_fn m_ic_contains. sx.
    destruct lo as [[|x l]|]; cbn [lst length Nat.eqb]; sx; try reflexivity.
    destruct (contains_loop (VItem (IItems false (Some (x :: l)))) r _ (x :: l) eq_refl None) as [t' Hl].
    use_loop Hl. clear Hl.
    destruct (contains_m rec2 (x :: l) r) as [[|]| | |]; sx; reflexivity.
  Qed.
End Contains.

Lemma is_collection_call_nn w : is_nil w = false -> is_collection_call w = Ok (is_collection_m w).
Proof. destruct w; simpl; try discriminate; reflexivity. Qed.

(* ---------------------------------------------------------------- ItemCollection.Equals *)
Section ItemCollEquals.
  Variable tbl : list gofn.
  Variables rec1 rec2 : item -> item -> outcome bool.
  Hypothesis Hrec : forall a b, rec1 a b = rec2 a b.
  Hypothesis Hcontains : fn_named tbl n_ic_contains = Some m_ic_contains.

  Lemma sem_contains_model lo r : sem_contains tbl rec1 lo r = contains_m rec2 (lst lo) r.
  Proof. unfold sem_contains, run_named. rewrite Hcontains. apply contains_model. exact Hrec. Qed.

  (* the new statement forms, one step at a time *)
  Lemma exec_foridx E j v coll body s :
    exec E (SForIdx j v coll body) s
    = match vget coll (st_vals s) with
      | Some d => match range_of d with
                  | Some l => for_loop_idx (fun k x s' => exec E body (bind v x (bind j (VNat k) s'))) 0 l s
                  | None => Err
                  end
      | None => Err
      end.
  Proof. reflexivity. Qed.
  Lemma exec_declbools E v n s :
    exec E (SDeclBools v n) s = obind (ev_nexp s n) (fun k => Ok (SgNormal (bind v (VBools (repeat false k)) s))).
  Proof. reflexivity. Qed.
  Lemma exec_setidx E v j e s :
    exec E (SSetIdx v j e) s
    = match vget v (st_vals s), vget j (st_vals s) with
      | Some (VBools l), Some (VNat k) =>
          obind (ev_b E s e) (fun b => match set_nth l k b with
                                       | Some l' => Ok (SgNormal (bind v (VBools l') s))
                                       | None => Panic IndexOutOfRange
                                       end)
      | _, _ => Err
      end.
  Proof. reflexivity. Qed.
  Lemma for_loop_idx_cons step k x r s :
    for_loop_idx step k (x :: r) s
    = obind (step k x s) (fun g => match g with
                                   | SgNormal s' => for_loop_idx step (S k) r s'
                                   | SgBreak s' => Ok (SgNormal s')
                                   | other => Ok other
                                   end).
  Proof. reflexivity. Qed.
  Lemma ev_idx E s v j :
    ev_b E s (BIdx v j)
    = match vget v (st_vals s), vget j (st_vals s) with
      | Some (VBools l), Some (VNat k) => match nth_error l k with Some b => Ok b | None => Panic IndexOutOfRange end
      | _, _ => Err
      end.
  Proof. reflexivity. Qed.

  Lemma nth_mid (pre : list bool) u ut : nth_error (pre ++ u :: ut) (length pre) = Some u.
  Proof. induction pre as [|a p IH]; [reflexivity|exact IH]. Qed.
  Lemma set_mid (pre : list bool) u ut b : set_nth (pre ++ u :: ut) (length pre) b = Some (pre ++ b :: ut).
  Proof. induction pre as [|a p IH]; [reflexivity|]. cbn [app length set_nth]. rewrite IH. reflexivity. Qed.

  Lemma find_unused_len rec w x : forall used r, find_unused rec w used x = Ok (Some r) -> length r = length used.
  Proof.
    induction w as [|m t IH]; intros used r H; [discriminate|].
    destruct used as [|[|] ut]; cbn [find_unused] in H; [discriminate| |].
    - destruct (find_unused rec t ut x) as [[r'|]| | |] eqn:E; try discriminate. injection H as <-.
      cbn [length]. f_equal. eapply IH; eauto.
    - destruct (rec m x) as [[|]| | |]; try discriminate; cbn [obind] in H.
      + injection H as <-. reflexivity.
      + destruct (find_unused rec t ut x) as [[r'|]| | |] eqn:E; try discriminate. injection H as <-.
        cbn [length]. f_equal. eapply IH; eauto.
  Qed.

  (* the states of the loops: `it` is unbound before the first round of the outer loop, `j` and `wit` before the first
     round of the first inner loop, `found` before the first round of the outer loop *)
  Definition tl_of (t : option (dval * option (nat * dval))) : list (var * dval) :=
    match t with
    | None => []
    | Some (x, None) => [(B "it", x)]
    | Some (x, Some (k, y)) => [(B "it", x); (B "j", VNat k); (B "wit", y)]
    end.
  Definition fb_of (f : option bool) : list (var * bool) := match f with None => [] | Some b => [(B "found", b)] end.
  Definition est (I W : dval) (wl : list item) (T : bytes) (u : list bool) (t : option (dval * option (nat * dval)))
             (res : bool) (f : option bool) : dstate :=
    mkst ([(B "i", I); (B "with", W); (B "w", VItem (IItems true (Some wl))); (B "used", VBools u)] ++ tl_of t)
         [(B "typ", T)] ((B "result", res) :: fb_of f).

  Definition inner_ic : stmt :=
    SSeq (SIf (BAnd (BNot (BIdx (B "used") (B "j"))) (BCall n_items_equal [B "wit"; v_it]))
              (SSeq (SSetIdx (B "used") (B "j") (BConst true)) (SSeq (SSetBool (B "found") (BConst true)) (SSeq SBreak SSkip)))
              SSkip) SSkip.
  Definition inner_step_ic (k : nat) (x : dval) (s' : dstate) : outcome signal :=
    exec (env_contains tbl rec1) inner_ic (bind (B "wit") x (bind (B "j") (VNat k) s')).

  Lemma inner_step_model I W wl T pre u ut x tj m :
    inner_step_ic (length pre) (VItem m) (est I W wl T (pre ++ u :: ut) (Some (VItem x, tj)) true (Some false))
    = if u then Ok (SgNormal (est I W wl T (pre ++ u :: ut) (Some (VItem x, Some (length pre, VItem m))) true (Some false)))
      else obind (rec2 m x)
             (fun b => Ok (if b then SgBreak (est I W wl T (pre ++ true :: ut) (Some (VItem x, Some (length pre, VItem m))) true (Some true))
                           else SgNormal (est I W wl T (pre ++ u :: ut) (Some (VItem x, Some (length pre, VItem m))) true (Some false)))).
  Proof.
    rewrite <- Hrec. unfold inner_step_ic, inner_ic, est, tl_of, fb_of, v_it.
    destruct tj as [[k0 y0]|]; cbn [app].
    all: rewrite exec_seq, exec_if; evs; rewrite nth_mid; destruct u; sx; try reflexivity.
    all: destruct (rec1 m x) as [[|]| | |]; sx; try reflexivity.
    all: rewrite exec_setidx; evs; rewrite set_mid; sx; reflexivity.
  Qed.

  Lemma inner_loop_ic I W wl T x : forall t pre ut tj, length ut = length t -> exists tj',
    for_loop_idx inner_step_ic (length pre) (map VItem t) (est I W wl T (pre ++ ut) (Some (VItem x, tj)) true (Some false))
    = obind (find_unused rec2 t ut x)
        (fun r => Ok (SgNormal (match r with
                                | Some u' => est I W wl T (pre ++ u') (Some (VItem x, tj')) true (Some true)
                                | None => est I W wl T (pre ++ ut) (Some (VItem x, tj')) true (Some false)
                                end))).
  Proof.
    induction t as [|m t IH]; intros pre ut tj Hlen.
    - exists tj. destruct ut; [reflexivity|discriminate].
    - destruct ut as [|u ut]; [discriminate|]. injection Hlen as Hlen.
      cbn [map]. rewrite for_loop_idx_cons, inner_step_model.
      assert (Hpre : S (length pre) = length (pre ++ [u])) by (rewrite app_length; cbn [length]; lia).
      assert (Happ : forall z, pre ++ u :: z = (pre ++ [u]) ++ z) by (intro z; rewrite <- app_assoc; reflexivity).
      destruct u; cbn [find_unused obind].
      + rewrite Hpre, (Happ ut). destruct (IH (pre ++ [true]) ut (Some (length pre, VItem m)) Hlen) as [tj' ->].
        exists tj'. destruct (find_unused rec2 t ut x) as [[r|]| | |]; cbn [obind option_map]; try reflexivity.
        rewrite (Happ r). reflexivity.
      + destruct (rec2 m x) as [[|]| | |]; cbn [obind]; try (exists None; reflexivity).
        * eexists. reflexivity.
        * rewrite Hpre, (Happ ut). destruct (IH (pre ++ [false]) ut (Some (length pre, VItem m)) Hlen) as [tj' ->].
          exists tj'. destruct (find_unused rec2 t ut x) as [[r|]| | |]; cbn [obind option_map]; try reflexivity.
          rewrite (Happ r). reflexivity.
  Qed.

  Definition outer_ic : stmt :=
    SSeq (SDeclBool (B "found") (BConst false))
      (SSeq (SForIdx (B "j") (B "wit") (B "w") inner_ic)
         (SSeq (SIf (BNot (BVar (B "found"))) (SSeq (SSetBool v_result (BConst false)) (SSeq SReturnNil SSkip)) SSkip) SSkip)).

  Lemma outer_step_ic I W wl T u t f x : length u = length wl -> exists tj',
    exec (env_contains tbl rec1) outer_ic (bind v_it (VItem x) (est I W wl T u t true f))
    = obind (find_unused rec2 wl u x)
        (fun r => Ok (match r with
                      | Some u' => SgNormal (est I W wl T u' (Some (VItem x, tj')) true (Some true))
                      | None => SgRetNil (est I W wl T u (Some (VItem x, tj')) false (Some false))
                      end)).
  Proof.
    intro Hlen.
    assert (exists tj, exec (env_contains tbl rec1) (SDeclBool (B "found") (BConst false)) (bind v_it (VItem x) (est I W wl T u t true f))
                       = Ok (SgNormal (est I W wl T u (Some (VItem x, tj)) true (Some false)))) as [tj H0].
    { unfold est, tl_of, fb_of, v_it. destruct t as [[x0 [[k0 y0]|]]|]; [exists (Some (k0, y0))|exists None|exists None].
      all: destruct f; cbn [app]; sx; reflexivity. }
    destruct (inner_loop_ic I W wl T x wl [] u tj Hlen) as [tj' Hl]. cbn [app length] in Hl. exists tj'.
    unfold outer_ic. rewrite exec_seq, H0. cbn [obind]. rewrite exec_seq, exec_foridx.
    assert (vget (B "w") (st_vals (est I W wl T u (Some (VItem x, tj)) true (Some false))) = Some (VItem (IItems true (Some wl)))) as ->
      by (unfold est; cbn [st_vals app]; lk; reflexivity).
    cbn [range_of lst].
    change (for_loop_idx _ 0 (map VItem wl) ?s) with (for_loop_idx inner_step_ic 0 (map VItem wl) s).
    rewrite Hl.
    destruct (find_unused rec2 wl u x) as [[u'|]| | |]; cbn [obind]; try reflexivity.
    all: unfold est, tl_of, fb_of, v_result; destruct tj' as [[k1 y1]|]; cbn [app]; sx; reflexivity.
  Qed.

  Lemma all_matched_loop I W wl T l : forall u t f, length u = length wl -> exists u' t' f',
    for_loop (fun x s' => exec (env_contains tbl rec1) outer_ic (bind v_it x s')) (map VItem l) (est I W wl T u t true f)
    = obind (all_matched rec2 l wl u)
            (fun b => Ok (if b then SgNormal (est I W wl T u' t' true f') else SgRetNil (est I W wl T u' t' false f'))).
  Proof.
    induction l as [|x l IH]; intros u t f Hlen.
    - exists u, t, f. reflexivity.
    - cbn [map all_matched]. rewrite for_loop_cons. destruct (outer_step_ic I W wl T u t f x Hlen) as [tj' ->].
      destruct (find_unused rec2 wl u x) as [[u1|]| | |] eqn:Ef; cbn [obind]; try (exists u, t, f; reflexivity).
      + apply IH. rewrite (find_unused_len _ _ _ _ _ Ef). exact Hlen.
      + eexists _, _, _. reflexivity.
  Qed.

  Lemma iceq_model lo w :
    run_fn (env_contains tbl rec1) m_ic_equals (Some (VItem (IItems false lo))) [VItem w]
    = itemcoll_equals cfg_fixed rec2 (lst lo) w.
  Proof.
    open_fn m_ic_equals. unfold itemcoll_equals, v_with, v_result.
    destruct lo as [l|]; cbn [lst]; sx.
    all: destruct (is_nil w) eqn:Hn; sx; [try (destruct l); reflexivity|].
    all: rewrite (is_collection_call_nn w Hn); sx.
    all: destruct (is_collection_m w); sx; [|reflexivity].
    all: rewrite (get_type_nn w Hn); sx; cbn [c_iris_lists c_match_once cfg_fixed andb].
    all: change collection_of_items with (B "ItemCollection"); change collection_of_iris with (B "IRICollection").
    all: destruct (bytes_eqb (typ w) (B "ItemCollection")); [|destruct (bytes_eqb (typ w) (B "IRICollection"))]; sx;
      try reflexivity.
    all: destruct (to_item_collection w) as [wl|] eqn:Hw; cbn [view_of]; rewrite Hw; sx; try reflexivity.
    all: cbn [length]; rewrite (Nat.eqb_sym (length wl)).
    all: match goal with |- context [negb (Nat.eqb ?a ?b)] => destruct (Nat.eqb a b) end; sx; try reflexivity.
    all: rewrite exec_declbools; sx.
    all: destruct (all_matched_loop (VItem (IItems false (Some l))) (VItem w) wl (typ w) l (repeat false (length wl)) None None
                     (repeat_length _ _)) as [u' [t' [f' Hl]]].
    all: unfold est, tl_of, fb_of, outer_ic, inner_ic in Hl; cbn [app] in Hl; use_loop Hl; clear Hl.
    all: destruct (all_matched rec2 l wl (repeat false (length wl))) as [[|]| | |]; sx; reflexivity.
  Qed.
End ItemCollEquals.

(* ---------------------------------------------------------------- ItemsEqual *)
Ltac names :=
  repeat match goal with
         | |- context [struct_equals_name ?n] =>
             let r := eval vm_compute in (struct_equals_name n) in
             progress change (struct_equals_name n) with r
         | |- context [kind_beq ?a ?b] =>
             let r := eval vm_compute in (kind_beq a b) in
             match r with
             | true => change (kind_beq a b) with true
             | false => change (kind_beq a b) with false
             end
         end.

Section ItemsEqual.
  Variable tbl : list gofn.
  Variables rec1 rec2 : item -> item -> outcome bool.
  Variable eqm : kind -> fields -> item -> option (outcome bool).
  Hypothesis Hrec : forall a b, rec1 a b = rec2 a b.
  Hypothesis Heqm : forall k fs w, eqm k fs w = equals_method cfg_fixed rec2 k fs w.
  Hypothesis Hswap : fn_named tbl n_swap = Some m_swap.
  Hypothesis Hcontains : fn_named tbl n_ic_contains = Some m_ic_contains.
  Hypothesis Hiceq : fn_named tbl n_ic_equals = Some m_ic_equals.

  Lemma sem_swap_model a b : is_nil a = false -> is_nil b = false -> sem_swap tbl a b = Ok (needs_swap a b).
  Proof. intros. unfold sem_swap, run_named. rewrite Hswap. apply swap_model; assumption. Qed.

  Lemma sem_iceq_model lo w : sem_iceq tbl rec1 lo w = itemcoll_equals cfg_fixed rec2 (lst lo) w.
  Proof. unfold sem_iceq, run_named. rewrite Hiceq. apply iceq_model; assumption. Qed.

  Ltac sxx := sx; repeat (progress names; sx).

  Lemma exec_type_if E c X s p k fs : item_of s (B "it") = Ok (IObj p k fs) ->
    exec E (SIf (BTypeEq (TOf (B "it")) (TConst c)) X SSkip) s
    = if bytes_eqb (get_str F_Type fs) c then exec E X s else Ok (SgNormal s).
  Proof. intro H. rewrite exec_if. cbn [ev_b ev_texp]. rewrite H. reflexivity. Qed.

  Ltac hide_rest :=
    match goal with
    | |- context [exec _ (SSeq (SIf _ _ SSkip) ?r) _] =>
        lazymatch r with
        | SSkip => idtac
        | _ => let x := fresh "rest" in remember r as x
        end
    end.
  Ltac unhide :=
    repeat match goal with
           | H : ?x = SSeq _ _ |- _ => subst x
           | H : ?x = SSkip |- _ => subst x
           end.
  Ltac tif := hide_rest; rewrite exec_seq; erewrite exec_type_if by (evs; reflexivity).
  (* the remaining type tests once the type name is known: all false *)
  Ltac skips E := repeat (unhide; tif; rewrite E; ceval; cbv iota; cbn [obind]); unhide; sx; try reflexivity.
  (* a type test known to fail *)
  Ltac skip_false E := tif; rewrite E; cbn [obind]; unhide.
  (* no more specific comparison ran: Object.Equals *)
  Ltac obj_fallback k Heqm :=
    sxx; cbn [view_of];
    replace (cast_ok KObject k) with true by (destruct k; try reflexivity; discriminate);
    sxx; rewrite Heqm; unfold equals_method;
    match goal with |- context [object_equals ?c ?r ?fs ?w] => destruct (object_equals c r fs w) as [?r| | |] end;
    sx; reflexivity.
  (* a closure of the object branch: the specific Equals on the view, if there is one; otherwise the fallback *)
  Ltac specific K k Heqm :=
    cbn [view_of]; destruct (cast_ok K k); sxx;
    [rewrite Heqm;
     match goal with |- context [equals_method ?c ?rc ?K' ?fs' ?w'] =>
       let o := eval cbv beta iota delta [equals_method] in (equals_method c rc K' fs' w') in
       change (equals_method c rc K' fs' w') with o;
       match o with Some ?x => destruct x as [?r| | |] end
     end; sxx; try reflexivity|].
  (* the test that holds *)
  Ltac take E K k Heqm :=
    tif; rewrite E; sxx; apply bytes_eqb_true in E; specific K k Heqm; skips E; obj_fallback k Heqm.

  Lemma items_equal_model it w :
    run_fn (env_top tbl rec1 eqm) m_items_equal None [VItem it; VItem w] = items_equal_body cfg_fixed rec2 it w.
  Proof.
    open_fn m_items_equal.
    unfold items_equal_body, v_it, v_with, v_result, v_compared.
    match goal with |- context [SIf (BIsCollectionM _) ?b SSkip] => remember b as coll_part eqn:Hcp end.
    sx.
    destruct (is_nil it) eqn:Hi; destruct (is_nil w) eqn:Hw; sx; try reflexivity.
    rewrite (sem_swap_model it w Hi Hw). sx.
    destruct (needs_swap it w); sx.
    { rewrite Hrec. destruct (rec2 w it) as [[|]| | |]; reflexivity. }
    rewrite (get_link_nn it Hi), (get_link_nn w Hw). sx.
    destruct (is_iri w); [|destruct (is_iri it)]; sx; try reflexivity.
    destruct (is_item_collection it) eqn:Hic.
    { destruct (is_item_collection w); sx; [|reflexivity].
      cbn [view_of]. destruct (to_item_collection it) as [l|]; sxx; [|reflexivity].
      rewrite sem_iceq_model. cbn [lst]. destruct (itemcoll_equals cfg_fixed rec2 l w) as [r| | |]; sx; reflexivity. }
    destruct (is_object it) eqn:Ho.
    { destruct it as [|k0|p0 s0|p k fs|p0 l0|p0 l0]; try discriminate.
      unfold object_branch. cbn [fields_of as_kind].
      rewrite (get_type_nn w Hw). sx. rewrite type_list_activity. sx.
      destruct (tl_contains tl_ActivityTypes (typ w)); sx.
      { specific KActivity k Heqm. obj_fallback k Heqm. }
      rewrite type_list_actor. sx.
      destruct (tl_contains tl_ActorTypes (typ w)); sx.
      { specific KActor k Heqm. obj_fallback k Heqm. }
      cbn [is_collection_call]. destruct (is_collection_m (IObj p k fs)); sx; [|obj_fallback k Heqm].
      cbn [typ get_type]. subst coll_part.
      destruct (bytes_eqb (get_str F_Type fs) (B "Collection")) eqn:E1; [take E1 KCollection k Heqm|skip_false E1].
      destruct (bytes_eqb (get_str F_Type fs) (B "OrderedCollection")) eqn:E2; [take E2 KOrdered k Heqm|skip_false E2].
      destruct (bytes_eqb (get_str F_Type fs) (B "CollectionPage")) eqn:E3; [take E3 KCollectionPage k Heqm|skip_false E3].
      destruct (bytes_eqb (get_str F_Type fs) (B "OrderedCollectionPage")) eqn:E4; [take E4 KOrderedPage k Heqm|skip_false E4].
      obj_fallback k Heqm. }
    clear Hcp coll_part. cbn [c_link_branch cfg_fixed andb].
    destruct (is_link it) eqn:Hl; sx; [|reflexivity].
    destruct it as [|k0|p0 s0|p k fs|p0 l0|p0 l0]; try discriminate.
    destruct k; try discriminate. cbn [view_of cast_ok fields_of]. sxx.
    rewrite Heqm. unfold equals_method. destruct (link_equals cfg_fixed rec2 fs w) as [r| | |]; sx; reflexivity.
  Qed.
End ItemsEqual.
(* ---------------------------------------------------------------- IRIs.Contains *)
Section IrisContains.
  Definition ist (I : dval) (r : item) (t : option dval) : dstate :=
    mkst ([(B "i", I); (B "r", VItem r)] ++ match t with Some y => [(B "iri", y)] | None => [] end) [] [].

  Lemma iris_loop E I r body l : is_nil r = false ->
    body = SSeq (SIf (BIriEquals (SLinkOf (B "r")) (SIriVar (B "iri")) false) (SSeq (SReturn (BConst true)) SSkip) SSkip) SSkip ->
    forall t, exists t',
    for_loop (fun x s' => exec E body (bind (B "iri") x s')) (map (fun x => VItem (IIri false x)) l) (ist I r t)
    = Ok (if existsb (fun iri => ideq (lnk r) iri false) l then SgRet true else SgNormal (ist I r t')).
  Proof.
    intros Hn ->. induction l as [|x l IH]; intro t.
    - exists t. reflexivity.
    - cbn [map existsb]. rewrite for_loop_cons.
      assert (exec E (SSeq (SIf (BIriEquals (SLinkOf (B "r")) (SIriVar (B "iri")) false) (SSeq (SReturn (BConst true)) SSkip) SSkip) SSkip)
                (bind (B "iri") (VItem (IIri false x)) (ist I r t))
              = Ok (if ideq (lnk r) x false then SgRet true else SgNormal (ist I r (Some (VItem (IIri false x)))))) as ->.
      { unfold ist. destruct t; cbn [app]; sx; rewrite (get_link_nn r Hn); sx.
        all: destruct (ideq (lnk r) x false); sx; reflexivity. }
      destruct (ideq (lnk r) x false); cbn [obind orb]; [exists t; reflexivity|]. apply IH.
  Qed.

  Lemma iris_contains_model lo r :
    run_fn env_none m_iris_contains (Some (VItem (IIris false lo))) [VItem r]
    = Ok (if is_nil r then false else iris_contains (lst lo) (lnk r)).
  Proof.
    open_fn m_iris_contains. unfold iris_contains. destruct lo as [[|x l]|]; cbn [lst]; sx; cbn [length Nat.eqb]; sx; try (destruct (is_nil r); reflexivity).
    destruct (is_nil r) eqn:Hn; sx; [reflexivity|].
    destruct (iris_loop env_none (VItem (IIris false (Some (x :: l)))) r _ (x :: l) Hn eq_refl None) as [t' Hl].
    use_loop Hl. clear Hl.
    destruct (existsb (fun iri => ideq (lnk r) iri false) (x :: l)); sx; reflexivity.
  Qed.
End IrisContains.

(* ---------------------------------------------------------------- NaturalLanguageValues.Equals *)
Section NlvEquals.
  Definition env_lrv : callenv := mkenv (fun _ _ => None) meth_lrv.

  (* states of the inner loop: wv bound, nv unbound before its first round, found declared *)
  Definition nst (N W : dval) (wv : lrv) (t : option lrv) (found : bool) : dstate :=
    mkst ([(B "n", N); (B "with", W); (B "wv", VLrv wv)] ++ match t with Some y => [(B "nv", VLrv y)] | None => [] end)
         [] [(B "found", found)].

  Definition inner_body : stmt :=
    SSeq (SIf (BMethod n_lrv_equals (B "nv") [B "wv"])
              (SSeq (SSetBool (B "found") (BConst true)) (SSeq SBreak SSkip)) SSkip) SSkip.

  Lemma inner_loop N W wv l : forall t, exists t',
    for_loop (fun x s' => exec env_lrv inner_body (bind (B "nv") x s')) (map VLrv l) (nst N W wv t false)
    = Ok (SgNormal (nst N W wv t' (existsb (fun nv => lrv_eqb nv wv) l))).
  Proof.
    induction l as [|x l IH]; intro t.
    - exists t. reflexivity.
    - cbn [map existsb]. rewrite for_loop_cons.
      assert (exec env_lrv inner_body (bind (B "nv") (VLrv x) (nst N W wv t false))
              = Ok (if lrv_eqb x wv then SgBreak (nst N W wv (Some x) true) else SgNormal (nst N W wv (Some x) false))) as ->.
      { unfold nst, inner_body, env_lrv. destruct t; cbn [app]; sx; unfold meth_lrv; ceval; cbv iota.
        all: destruct (lrv_eqb x wv); sx; reflexivity. }
      destruct (lrv_eqb x wv); cbn [obind orb]; [exists (Some x); reflexivity|]. apply IH.
  Qed.

  Definition ost (N W : dval) (t : option (lrv * option lrv * bool)) : dstate :=
    match t with
    | None => mkst [(B "n", N); (B "with", W)] [] []
    | Some (a, ob, f) => nst N W a ob f
    end.

  Definition outer_body : stmt :=
    SSeq (SDeclBool (B "found") (BConst false))
      (SSeq (SFor (B "nv") (B "n") inner_body)
         (SSeq (SIf (BNot (BVar (B "found"))) (SSeq (SReturn (BConst false)) SSkip) SSkip) SSkip)).

  Lemma outer_step n W x t : exists t1,
    exec env_lrv outer_body (bind (B "wv") (VLrv x) (ost (VNl n) W t))
    = Ok (if existsb (fun nv => lrv_eqb nv x) n then SgNormal (ost (VNl n) W (Some (x, t1, true))) else SgRet false).
  Proof.
    assert (forall ob, exists t1,
              exec env_lrv (SSeq (SFor (B "nv") (B "n") inner_body)
                              (SSeq (SIf (BNot (BVar (B "found"))) (SSeq (SReturn (BConst false)) SSkip) SSkip) SSkip))
                   (nst (VNl n) W x ob false)
              = Ok (if existsb (fun nv => lrv_eqb nv x) n then SgNormal (nst (VNl n) W x t1 true) else SgRet false)) as Hin.
    { intro ob. destruct (inner_loop (VNl n) W x n ob) as [t1 Hl]. exists t1.
      remember inner_body as ib. unfold nst. destruct ob; cbn [app]; sx.
      all: subst ib; unfold nst in Hl; cbn [app] in Hl; use_loop Hl; clear Hl.
      all: destruct (existsb (fun nv => lrv_eqb nv x) n); sx; reflexivity. }
    unfold outer_body. destruct t as [[[a ob] f]|]; cbn [ost].
    - destruct (Hin ob) as [t1 H1]. exists t1. rewrite exec_seq.
      assert (exec env_lrv (SDeclBool (B "found") (BConst false)) (bind (B "wv") (VLrv x) (nst (VNl n) W a ob f))
              = Ok (SgNormal (nst (VNl n) W x ob false))) as -> by (unfold nst; destruct ob; cbn [app]; sx; reflexivity).
      cbn [obind]. exact H1.
    - destruct (Hin None) as [t1 H1]. exists t1. rewrite exec_seq.
      assert (exec env_lrv (SDeclBool (B "found") (BConst false)) (bind (B "wv") (VLrv x) (mkst [(B "n", VNl n); (B "with", W)] [] []))
              = Ok (SgNormal (nst (VNl n) W x None false))) as -> by (unfold nst; cbn [app]; sx; reflexivity).
      cbn [obind]. exact H1.
  Qed.

  Lemma outer_loop n W l : forall t, exists t',
    for_loop (fun x s' => exec env_lrv outer_body (bind (B "wv") x s')) (map VLrv l) (ost (VNl n) W t)
    = Ok (if forallb (fun wv => existsb (fun nv => lrv_eqb nv wv) n) l then SgNormal (ost (VNl n) W t') else SgRet false).
  Proof.
    induction l as [|x l IH]; intro t.
    - exists t. reflexivity.
    - cbn [map forallb]. rewrite for_loop_cons. destruct (outer_step n W x t) as [t1 ->].
      destruct (existsb (fun nv => lrv_eqb nv x) n); cbn [obind andb]; [apply IH|exists t; reflexivity].
  Qed.

  Lemma nlv_equals_model n w :
    run_fn env_lrv m_nlv_equals (Some (VNl n)) [VNl w] = Ok (nl_equals n w).
  Proof.
    destruct (outer_loop n (VNl w) w None) as [t' Hl].
    open_fn m_nlv_equals. unfold nl_equals, v_with. sx.
    destruct (Nat.eqb (length n) (length w)); sx; [|reflexivity].
    unfold outer_body, inner_body, ost in Hl. use_loop Hl. clear Hl.
    destruct (forallb (fun wv => existsb (fun nv => lrv_eqb nv wv) n) w); sx; reflexivity.
  Qed.
End NlvEquals.

(* ---------------------------------------------------------------- 2. for every table satisfying the condition *)
Lemma equals_method_pw cfg r1 r2 k fs w : c_member_items cfg = true ->
  (forall a b, r1 a b = r2 a b) -> equals_method cfg r1 k fs w = equals_method cfg r2 k fs w.
Proof.
  intros Hc H. assert (forall n, agree n r1 r2) as A by (intros n a b _; apply H).
  destruct k; unfold equals_method; try (apply (f_equal Some)).
  - apply object_equals_ext; auto.
  - apply actor_equals_ext; auto.
  - apply activity_equals_ext; auto.
  - apply intransitive_equals_ext; auto.
  - reflexivity.
  - apply collection_equals_ext; auto.
  - apply page_equals_ext; auto.
  - apply ordered_equals_ext; auto.
  - apply opage_equals_ext; auto.
  - reflexivity.
  - reflexivity.
  - reflexivity.
  - reflexivity.
  - apply link_equals_ext; auto.
Qed.

Section TableTie.
  Variable tbl : list gofn.
  Hypothesis Hok : itemseq_table_ok tbl = true.

  Lemma in_model_fns :
    In m_swap model_fns /\ In m_items_equal model_fns /\ In m_ic_contains model_fns /\ In m_ic_equals model_fns
    /\ In m_iris_contains model_fns /\ In m_nlv_equals model_fns.
  Proof.
    unfold model_fns.
    repeat split; [left|right; left|do 2 right; left|do 3 right; left|do 4 right; left|do 5 right; left];
      vm_compute; reflexivity.
  Qed.
  Local Ltac fn_fact m :=
    change (fn_named tbl (gf_name m) = Some m); apply (table_ok_fns tbl Hok); apply in_model_fns.
  Lemma fn_swap : fn_named tbl n_swap = Some m_swap. Proof. fn_fact m_swap. Qed.
  Lemma fn_items_equal : fn_named tbl n_items_equal = Some m_items_equal. Proof. fn_fact m_items_equal. Qed.
  Lemma fn_ic_contains : fn_named tbl n_ic_contains = Some m_ic_contains. Proof. fn_fact m_ic_contains. Qed.
  Lemma fn_ic_equals : fn_named tbl n_ic_equals = Some m_ic_equals. Proof. fn_fact m_ic_equals. Qed.
  Lemma fn_iris_contains : fn_named tbl n_iris_contains = Some m_iris_contains. Proof. fn_fact m_iris_contains. Qed.
  Lemma fn_nlv_equals : fn_named tbl n_nlv_equals = Some m_nlv_equals. Proof. fn_fact m_nlv_equals. Qed.

  Theorem swap_tie a b : is_nil a = false -> is_nil b = false -> sem_swap tbl a b = Ok (needs_swap a b).
  Proof. apply sem_swap_model. exact fn_swap. Qed.

  Theorem contains_tie rec lo r : sem_contains tbl rec lo r = contains_m rec (lst lo) r.
  Proof. apply sem_contains_model; [reflexivity | exact fn_ic_contains]. Qed.

  Theorem iceq_tie rec lo w : sem_iceq tbl rec lo w = itemcoll_equals cfg_fixed rec (lst lo) w.
  Proof. apply sem_iceq_model; first [reflexivity | exact fn_ic_equals | exact fn_ic_contains]. Qed.

  Theorem items_equal_tie_pw rec1 rec2 eqm it w :
    (forall a b, rec1 a b = rec2 a b) -> (forall k fs x, eqm k fs x = equals_method cfg_fixed rec2 k fs x) ->
    sem_items_equal tbl rec1 eqm it w = items_equal_body cfg_fixed rec2 it w.
  Proof.
    intros Hr He. unfold sem_items_equal, run_named. rewrite fn_items_equal.
    apply items_equal_model; auto using fn_swap, fn_ic_contains, fn_ic_equals.
  Qed.

  Theorem items_equal_tie rec it w :
    sem_items_equal tbl rec (equals_method cfg_fixed rec) it w = items_equal_body cfg_fixed rec it w.
  Proof. apply items_equal_tie_pw; reflexivity. Qed.

  Theorem iris_contains_tie lo r :
    sem_iris_contains tbl lo r = Ok (if is_nil r then false else iris_contains (lst lo) (lnk r)).
  Proof. unfold sem_iris_contains, run_named. rewrite fn_iris_contains. apply iris_contains_model. Qed.

  Theorem nlv_equals_tie n w : sem_nlv_equals tbl n w = Ok (nl_equals n w).
  Proof. unfold sem_nlv_equals, run_named. rewrite fn_nlv_equals. apply nlv_equals_model. Qed.

  (* 3. dispatch, helpers and struct methods all from tables: ItemsEqual itself, at every fuel *)
  Theorem items_equal_t_tie eqtbl others : equals_table_ok eqtbl others = true ->
    forall n it w, items_equal_t tbl eqtbl n it w = items_equal n it w.
  Proof.
    intro He. induction n as [|n IH]; intros it w; [reflexivity|].
    cbn [items_equal_t]. unfold items_equal. cbn [items_equal_c]. apply items_equal_tie_pw.
    - exact IH.
    - intros k fs x. rewrite (equals_table_tie _ eqtbl others He). apply equals_method_pw; [reflexivity|exact IH].
  Qed.
End TableTie.
End IdRel.
End ItGP.

Local Ltac inst L := first [ exact (L iri_eqb) | exact L ].
Definition exec_seq := ltac:(inst ItGP.exec_seq).
Definition exec_if := ltac:(inst ItGP.exec_if).
Definition exec_ret := ltac:(inst ItGP.exec_ret).
Definition exec_retnil := ltac:(inst ItGP.exec_retnil).
Definition exec_skip := ltac:(inst ItGP.exec_skip).
Definition exec_break := ltac:(inst ItGP.exec_break).
Definition exec_decltype := ltac:(inst ItGP.exec_decltype).
Definition exec_declbool := ltac:(inst ItGP.exec_declbool).
Definition exec_setbool := ltac:(inst ItGP.exec_setbool).
Definition exec_for := ltac:(inst ItGP.exec_for).
Definition exec_on := ltac:(inst ItGP.exec_on).
Definition for_loop_nil := ltac:(inst ItGP.for_loop_nil).
Definition for_loop_cons := ltac:(inst ItGP.for_loop_cons).
Definition get_type_nn := ltac:(inst ItGP.get_type_nn).
Definition get_link_nn := ltac:(inst ItGP.get_link_nn).
Definition type_list_object := ltac:(inst ItGP.type_list_object).
Definition type_list_activity := ltac:(inst ItGP.type_list_activity).
Definition type_list_actor := ltac:(inst ItGP.type_list_actor).
Definition swap_model := ltac:(inst ItGP.swap_model).
Definition contains_loop := ltac:(inst ItGP.contains_loop).
Definition contains_model := ltac:(inst ItGP.contains_model).
Definition is_collection_call_nn := ltac:(inst ItGP.is_collection_call_nn).
Definition sem_contains_model := ltac:(inst ItGP.sem_contains_model).
Definition all_matched_loop := ltac:(inst ItGP.all_matched_loop).
Definition iceq_model := ltac:(inst ItGP.iceq_model).
Definition sem_swap_model := ltac:(inst ItGP.sem_swap_model).
Definition sem_iceq_model := ltac:(inst ItGP.sem_iceq_model).
Definition exec_type_if := ltac:(inst ItGP.exec_type_if).
Definition items_equal_model := ltac:(inst ItGP.items_equal_model).
Definition iris_loop := ltac:(inst ItGP.iris_loop).
Definition iris_contains_model := ltac:(inst ItGP.iris_contains_model).
Definition inner_loop := ltac:(inst ItGP.inner_loop).
Definition outer_step := ltac:(inst ItGP.outer_step).
Definition outer_loop := ltac:(inst ItGP.outer_loop).
Definition nlv_equals_model := ltac:(inst ItGP.nlv_equals_model).
Definition equals_method_pw := ltac:(inst ItGP.equals_method_pw).
Definition in_model_fns := ltac:(inst ItGP.in_model_fns).
Definition fn_swap := ltac:(inst ItGP.fn_swap).
Definition fn_items_equal := ltac:(inst ItGP.fn_items_equal).
Definition fn_ic_contains := ltac:(inst ItGP.fn_ic_contains).
Definition fn_ic_equals := ltac:(inst ItGP.fn_ic_equals).
Definition fn_iris_contains := ltac:(inst ItGP.fn_iris_contains).
Definition fn_nlv_equals := ltac:(inst ItGP.fn_nlv_equals).
Definition swap_tie := ltac:(inst ItGP.swap_tie).
Definition contains_tie := ltac:(inst ItGP.contains_tie).
Definition iceq_tie := ltac:(inst ItGP.iceq_tie).
Definition items_equal_tie_pw := ltac:(inst ItGP.items_equal_tie_pw).
Definition items_equal_tie := ltac:(inst ItGP.items_equal_tie).
Definition iris_contains_tie := ltac:(inst ItGP.iris_contains_tie).
Definition nlv_equals_tie := ltac:(inst ItGP.nlv_equals_tie).
Definition items_equal_t_tie := ltac:(inst ItGP.items_equal_t_tie).
