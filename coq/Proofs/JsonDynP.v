(* What the static side of the dynamic table extraction (Model/JsonDyn.v) IS, for every table and every value:

   writer  [one_field_interpreter]: for every write table whose delegations inline ([inline_w]), the interpreter
           of Model/JsonEnc.v on a value whose only set field is f runs the statements before f's statement on the
           empty field list, f's statement on the value, the statements after it on the empty field list -
           exactly [w_static_on].  Ingredients: [inline_interpreter] (for ALL field lists the interpreter is the
           inlined statement list run from the initial state), fuel monotonicity of the interpreter, the frame
           lemma (a statement that does not mention f does not see it), and [inline_flatten]: the inlined
           statements are the entries the table conditions check_all_w / check_all_r judge (flatten_w).
   reader  the flattened entries applied in order are the interpreter on every document (Proofs/ShapeP.v
           run_table_flat; restated for [r_static]); [entry_silent]: an entry none of whose read names is a member
           of the document leaves its field alone - so the names the probes found silent cannot feed any field. *)
From AP.Model Require Import Prelude Bytes Vocab Pred Layout Text Json JsonLeaf JsonTables Dispatch JsonEnc JsonCheck JsonDec Shape JsonDyn.
From AP.Proofs Require Import NlvP CopyP ShapeP.

(* ================================================================ writer *)
Section W.
  Variable tbl : list (bytes * bool * list wstmt).
  Variable ei : item -> option bytes.

  Notation rtab := (JsonEnc.run_table tbl).

  (* ---- one statement at a time ---- *)
  Lemma enc_stmts_cons rt s r fs st :
    enc_stmts ei rt (s :: r) fs st =
    match enc_stmts ei rt [s] fs st with Some st' => enc_stmts ei rt r fs st' | None => None end.
  Proof.
    destruct st as [ms ne]. destruct s as [term writer path via guards acc pos|on fn acc pos|src pos]; cbn [enc_stmts].
    - destruct (eval_guards fs [x30] _) as [[|]|]; try reflexivity.
      destruct (write_value ei rt writer via term (path_get path fs)) as [[[t' b] rr]|]; try reflexivity.
      destruct (eval_guards fs b guards) as [[|]|]; try reflexivity.
      destruct (apply_acc acc rr ne); reflexivity.
    - destruct fn as [|c fn]; [reflexivity|].
      destruct (rt (c :: fn) fs) as [[ms' rr]|]; try reflexivity.
      destruct (apply_acc acc rr ne); reflexivity.
    - reflexivity.
  Qed.

  Lemma enc_stmts_app rt a b fs st :
    enc_stmts ei rt (a ++ b) fs st =
    match enc_stmts ei rt a fs st with Some st' => enc_stmts ei rt b fs st' | None => None end.
  Proof.
    revert st. induction a as [|s a IH]; intros st; [reflexivity|].
    cbn [app]. rewrite enc_stmts_cons, (enc_stmts_cons rt s a).
    destruct (enc_stmts ei rt [s] fs st) as [st'|]; [apply IH|reflexivity].
  Qed.

  (* ---- the interpreter only gains answers with more fuel ---- *)
  Definition rt_le (rt1 rt2 : bytes -> list (fid * fval) -> option (list bytes * bool)) : Prop :=
    forall n fs r, rt1 n fs = Some r -> rt2 n fs = Some r.

  Lemma write_value_mono rt1 rt2 writer via term v r : rt_le rt1 rt2 ->
    write_value ei rt1 writer via term v = Some r -> write_value ei rt2 writer via term v = Some r.
  Proof.
    intros Hle. unfold write_value.
    destruct (bytes_eqb writer (B "JSONWriteItemProp")); [exact (fun H => H)|].
    destruct (bytes_eqb writer (B "JSONWriteItemCollectionProp")); [exact (fun H => H)|].
    destruct (bytes_eqb writer (B "JSONWriteNaturalLanguageProp")); [exact (fun H => H)|].
    destruct (bytes_eqb writer (B "JSONWriteProp")); [|exact (fun H => H)].
    destruct v as [[i|l|l|s|t|d|n|z|b|m|mt c|[e|]|id o p]|]; try exact (fun H => H).
    - destruct (rt1 (B "Source_MarshalJSON") (source_fields mt c)) as [x|] eqn:E; [|discriminate].
      rewrite (Hle _ _ _ E). exact (fun H => H).
    - destruct (rt1 (B "Endpoints_MarshalJSON") (endpoints_fields e)) as [x|] eqn:E; [|discriminate].
      rewrite (Hle _ _ _ E). exact (fun H => H).
    - destruct (rt1 (B "PublicKey_MarshalJSON") (pubkey_fields id o p)) as [x|] eqn:E; [|discriminate].
      rewrite (Hle _ _ _ E). exact (fun H => H).
  Qed.

  Lemma enc_stmt_mono rt1 rt2 s fs st r : rt_le rt1 rt2 ->
    enc_stmts ei rt1 [s] fs st = Some r -> enc_stmts ei rt2 [s] fs st = Some r.
  Proof.
    intros Hle. destruct st as [ms ne].
    destruct s as [term writer path via guards acc pos|on fn acc pos|src pos]; cbn [enc_stmts]; [| |discriminate].
    - destruct (eval_guards fs [x30] _) as [[|]|]; try exact (fun H => H).
      destruct (write_value ei rt1 writer via term (path_get path fs)) as [x|] eqn:E; [|discriminate].
      rewrite (write_value_mono _ _ _ _ _ _ _ Hle E). exact (fun H => H).
    - destruct fn as [|c fn]; [exact (fun H => H)|].
      destruct (rt1 (c :: fn) fs) as [x|] eqn:E; [|discriminate].
      rewrite (Hle _ _ _ E). exact (fun H => H).
  Qed.

  Lemma enc_stmts_mono rt1 rt2 l fs : rt_le rt1 rt2 ->
    forall st r, enc_stmts ei rt1 l fs st = Some r -> enc_stmts ei rt2 l fs st = Some r.
  Proof.
    intros Hle. induction l as [|s l IH]; intros st r H; [exact H|].
    rewrite enc_stmts_cons in H |- *.
    destruct (enc_stmts ei rt1 [s] fs st) as [st'|] eqn:E; [|discriminate].
    rewrite (enc_stmt_mono _ _ _ _ _ _ Hle E). apply IH, H.
  Qed.

  Lemma run_table_S d : rt_le (rtab d ei) (rtab (S d) ei).
  Proof.
    induction d as [|d IH]; intros n fs r H; [discriminate|].
    cbn [JsonEnc.run_table] in H |- *.
    destruct (jw_table tbl n) as [[init stmts]|]; [|discriminate].
    exact (enc_stmts_mono _ _ _ _ IH _ _ H).
  Qed.

  (* ---- the interpreter is the inlined statement list ---- *)
  Lemma inline_w_S d name :
    inline_w tbl (S d) name =
    match jw_table tbl name with
    | Some (false, WDelegate _ ((_ :: _) as fn) acc _ :: rest) =>
        match acc, inline_w tbl d fn with
        | AccOr, Some l | AccSet, Some l => if forallb stmt_plain rest then Some (l ++ rest) else None
        | _, _ => None
        end
    | Some (false, stmts) => if forallb stmt_plain stmts then Some stmts else None
    | _ => None
    end.
  Proof. reflexivity. Qed.

  (* the two shapes a table that inlines has *)
  Lemma inline_w_cases d name l : inline_w tbl (S d) name = Some l ->
    (exists on fn acc pos rest l', jw_table tbl name = Some (false, WDelegate on fn acc pos :: rest) /\ fn <> [] /\
        (acc = AccOr \/ acc = AccSet) /\ inline_w tbl d fn = Some l' /\ forallb stmt_plain rest = true /\ l = l' ++ rest)
    \/ (jw_table tbl name = Some (false, l) /\ forallb stmt_plain l = true).
  Proof.
    rewrite inline_w_S. destruct (jw_table tbl name) as [[[|] stmts]|]; try discriminate.
    assert (Hplain : (if forallb stmt_plain stmts then Some stmts else None) = Some l ->
                     Some (false, stmts) = Some (false, l) /\ forallb stmt_plain l = true).
    { destruct (forallb stmt_plain stmts) eqn:E; [|discriminate]. intros H; injection H as <-. split; [reflexivity|exact E]. }
    destruct stmts as [|s rest]; [intros H; right; apply Hplain, H|].
    destruct s as [term writer path via guards acc pos|on fn acc pos|src pos]; try (intros H; right; apply Hplain, H).
    destruct fn as [|c fn]; [intros H; right; apply Hplain, H|].
    intros H. left.
    destruct acc; try discriminate;
      (destruct (inline_w tbl d (c :: fn)) as [l'|] eqn:El; [|discriminate];
       destruct (forallb stmt_plain rest) eqn:Ep; [|discriminate]; injection H as <-;
       exists on, (c :: fn); eexists; exists pos, rest, l';
       split; [reflexivity|]; split; [discriminate|]; split; [auto|]; split; [exact El|]; split; [exact Ep|reflexivity]).
  Qed.

  Lemma inline_plain d : forall name l, inline_w tbl d name = Some l -> forallb stmt_plain l = true.
  Proof.
    induction d as [|d IH]; intros name l H; [discriminate|].
    destruct (inline_w_cases _ _ _ H) as [[on [fn [acc [pos [rest [l' [_ [_ [_ [Hl' [Hr ->]]]]]]]]]]]|[_ Hp]]; [|exact Hp].
    rewrite forallb_app, (IH _ _ Hl'), Hr. reflexivity.
  Qed.

  Theorem inline_interpreter d : forall name l, inline_w tbl d name = Some l ->
    forall fs r, rtab d ei name fs = Some r -> enc_stmts ei (rtab d ei) l fs ([], false) = Some r.
  Proof.
    induction d as [|d IH]; intros name l H fs r Hr; [discriminate|].
    cbn [JsonEnc.run_table] in Hr.
    destruct (inline_w_cases _ _ _ H) as [[on [fn [acc [pos [rest [l' [Ht [Hfn [Hacc [Hl' [Hp ->]]]]]]]]]]]|[Ht Hp]]; rewrite Ht in Hr.
    - cbn [enc_stmts] in Hr. destruct fn as [|c fn]; [congruence|].
      destruct (rtab d ei (c :: fn) fs) as [[ms' rr]|] eqn:Ec; [|discriminate].
      assert (Ha : apply_acc acc rr false = Some rr).
      { destruct Hacc as [-> | ->]; cbn; [rewrite Bool.orb_false_r|]; reflexivity. }
      rewrite Ha in Hr. cbn [app] in Hr.
      rewrite enc_stmts_app.
      rewrite (enc_stmts_mono _ _ _ _ (run_table_S d) _ _ (IH _ _ Hl' _ _ Ec)).
      exact (enc_stmts_mono _ _ _ _ (run_table_S d) _ _ Hr).
    - exact (enc_stmts_mono _ _ _ _ (run_table_S d) _ _ Hr).
  Qed.

  (* ---- the frame: a plain statement that does not mention f does not see it ---- *)
  Lemma getf_single_other f g v : fid_beq f g = false -> getf g [(f, v)] = None.
  Proof.
    intros H. cbn [getf]. destruct (fid_beq g f) eqn:E; [|reflexivity].
    apply fid_beq_eq in E. subst. rewrite fid_beq_refl in H. discriminate.
  Qed.

  Lemma path_get_frame f v path : existsb (fid_beq f) path = false -> path_get path [(f, v)] = path_get path [].
  Proof.
    intros H. destruct path as [|g [|h [|k r]]]; try reflexivity; cbn [existsb] in H; apply Bool.orb_false_elim in H; destruct H as [H1 H2].
    - cbn [path_get]. rewrite (getf_single_other _ _ _ H1). reflexivity.
    - cbn [path_get]. rewrite (getf_single_other _ _ _ H1). reflexivity.
  Qed.

  Lemma eval_guard_frame f v b g : guard_mentions f g = false -> eval_guard [(f, v)] b g = eval_guard [] b g.
  Proof.
    destruct g as [f'|f'|f'|f'|f'| |src]; cbn [guard_mentions eval_guard]; intros H;
      try (rewrite (getf_single_other _ _ _ H); reflexivity); reflexivity.
  Qed.

  Lemma eval_guards_frame f v b gs : existsb (guard_mentions f) gs = false -> eval_guards [(f, v)] b gs = eval_guards [] b gs.
  Proof.
    induction gs as [|g gs IH]; intros H; [reflexivity|].
    cbn [existsb] in H. apply Bool.orb_false_elim in H. destruct H as [H1 H2].
    cbn [eval_guards]. rewrite (eval_guard_frame _ _ _ _ H1), (IH H2). reflexivity.
  Qed.

  Lemma existsb_filter_false {A} (p q : A -> bool) l : existsb p l = false -> existsb p (filter q l) = false.
  Proof.
    induction l as [|x l IH]; intros H; [reflexivity|].
    cbn [existsb] in H. apply Bool.orb_false_elim in H. destruct H as [H1 H2].
    cbn [filter]. destruct (q x); [cbn [existsb]; rewrite H1; apply IH, H2|apply IH, H2].
  Qed.

  Lemma stmt_frame rt f v s st : stmt_mentions f s = false -> stmt_plain s = true ->
    enc_stmts ei rt [s] [(f, v)] st = enc_stmts ei rt [s] [] st.
  Proof.
    destruct st as [ms ne]. destruct s as [term writer path via guards acc pos|on fn acc pos|src pos]; intros Hm Hp; [| |discriminate].
    - cbn [stmt_mentions] in Hm. apply Bool.orb_false_elim in Hm. destruct Hm as [H1 H2].
      cbn [enc_stmts]. rewrite (path_get_frame _ _ _ H1).
      rewrite (eval_guards_frame f v [x30] _ (existsb_filter_false _ _ _ H2)).
      destruct (eval_guards [] [x30] _) as [[|]|]; try reflexivity.
      destruct (write_value ei rt writer via term (path_get path [])) as [[[t' b] rr]|]; try reflexivity.
      rewrite (eval_guards_frame f v b _ H2). reflexivity.
    - destruct fn; [reflexivity|discriminate].
  Qed.

  Lemma stmts_frame rt f v l : existsb (stmt_mentions f) l = false -> forallb stmt_plain l = true ->
    forall st, enc_stmts ei rt l [(f, v)] st = enc_stmts ei rt l [] st.
  Proof.
    induction l as [|s l IH]; intros Hm Hp st; [reflexivity|].
    cbn [existsb] in Hm. apply Bool.orb_false_elim in Hm. destruct Hm as [Hm1 Hm2].
    cbn [forallb] in Hp. apply andb_true_iff in Hp. destruct Hp as [Hp1 Hp2].
    rewrite enc_stmts_cons, (enc_stmts_cons rt s l []), (stmt_frame _ _ _ _ _ Hm1 Hp1).
    destruct (enc_stmts ei rt [s] [] st); [apply IH; assumption|reflexivity].
  Qed.

  (* ---- isolate ---- *)
  Lemma isolate_spec f : forall l pre s post, isolate f l = Some (pre, s, post) ->
    l = pre ++ s :: post /\ existsb (stmt_mentions f) pre = false /\ existsb (stmt_mentions f) post = false.
  Proof.
    induction l as [|x l IH]; intros pre s post H; [discriminate|].
    cbn [isolate] in H. destruct (stmt_mentions f x) eqn:Ex.
    - destruct (existsb (stmt_mentions f) l) eqn:El; [discriminate|]. injection H as <- <- <-.
      split; [reflexivity|]. split; [reflexivity|exact El].
    - destruct (isolate f l) as [[[pre' s'] post']|] eqn:Ei; [|discriminate]. injection H as <- <- <-.
      destruct (IH _ _ _ eq_refl) as [-> [H1 H2]]. split; [reflexivity|]. split; [|exact H2].
      cbn [existsb]. rewrite Ex, H1. reflexivity.
  Qed.

  (* the one-field run, split *)
  Lemma split_run rt f l pre s post fs : isolate f l = Some (pre, s, post) -> forallb stmt_plain l = true ->
    (fs = [] \/ exists v, fs = [(f, v)]) ->
    forall st, enc_stmts ei rt l fs st = w_split_run ei rt pre s post fs st.
  Proof.
    intros Hi Hp Hfs st. destruct (isolate_spec _ _ _ _ _ Hi) as [-> [H1 H2]].
    rewrite forallb_app in Hp. apply andb_true_iff in Hp. destruct Hp as [Hp1 Hp2].
    cbn [forallb] in Hp2. apply andb_true_iff in Hp2. destruct Hp2 as [_ Hp2].
    unfold w_split_run. rewrite enc_stmts_app.
    destruct Hfs as [-> | [v ->]].
    - destruct (enc_stmts ei rt pre [] st) as [st0|]; [|reflexivity]. apply enc_stmts_cons.
    - rewrite (stmts_frame rt f v pre H1 Hp1).
      destruct (enc_stmts ei rt pre [] st) as [st0|]; [|reflexivity].
      rewrite enc_stmts_cons.
      destruct (enc_stmts ei rt [s] [(f, v)] st0) as [st1|]; [|reflexivity].
      apply (stmts_frame rt f v post H2 Hp2).
  Qed.

  (* the interpreter on a value whose only set field is f (or on the empty value), for every table that inlines *)
  Theorem one_field_interpreter d name l f fs r :
    inline_w tbl d name = Some l -> (fs = [] \/ exists v, fs = [(f, v)]) ->
    rtab d ei name fs = Some r ->
    match isolate f l with
    | Some (pre, s, post) => w_split_run ei (rtab d ei) pre s post fs ([], false) = Some r
    | None => existsb (stmt_mentions f) l = false -> enc_stmts ei (rtab d ei) l [] ([], false) = Some r
    end.
  Proof.
    intros Hl Hfs Hr. pose proof (inline_interpreter _ _ _ Hl _ _ Hr) as H.
    pose proof (inline_plain _ _ _ Hl) as Hp.
    destruct (isolate f l) as [[[pre s] post]|] eqn:Ei.
    - rewrite <- (split_run _ _ _ _ _ _ _ Ei Hp Hfs). exact H.
    - intros Hm. destruct Hfs as [-> | [v ->]]; [exact H|].
      rewrite <- (stmts_frame _ f v l Hm Hp). exact H.
  Qed.
End W.

(* [w_static_on] is that run with the fuel and the item encoder of the case files *)
Corollary w_static_is_interpreter tbl name f fs r : (fs = [] \/ exists v, fs = [(f, v)]) ->
  (exists l, inline_w tbl 6 name = Some l /\ (isolate f l = None -> existsb (stmt_mentions f) l = false)) ->
  JsonEnc.run_table tbl 6 (dyn_ei tbl) name fs = Some r -> w_static_on tbl name f fs = Some r.
Proof.
  intros Hfs [l [Hl Hnone]] Hr. unfold w_static_on. rewrite Hl.
  pose proof (one_field_interpreter tbl (dyn_ei tbl) 6 name l f fs r Hl Hfs Hr) as H.
  destruct (isolate f l) as [[[pre s] post]|]; [exact H|].
  rewrite (Hnone eq_refl). apply H, Hnone, eq_refl.
Qed.

Lemma dyn_all_fids_complete f : In f dyn_all_fids.
Proof.
  assert (H : existsb (fid_beq f) dyn_all_fids = true) by (destruct f; reflexivity).
  apply existsb_exists in H. destruct H as [g [Hin Hg]]. apply fid_beq_eq in Hg. subst. exact Hin.
Qed.

(* for every table satisfying the decidable condition: what the case files compute as "the table says" is what the
   interpreter answers, for EVERY value with one field set (not only the probed boundary values) *)
Theorem static_pins_interpreter tbl : onefield_tables_ok tbl = true ->
  forall t, In t tbl -> forall f fs r, (fs = [] \/ exists v, fs = [(f, v)]) ->
  JsonEnc.run_table tbl 6 (dyn_ei tbl) (fst (fst t)) fs = Some r -> w_static tbl (fst (fst t)) f fs = Some r.
Proof.
  intros Hok t Ht f fs r Hfs Hr. unfold onefield_tables_ok in Hok. apply andb_true_iff in Hok. destruct Hok as [Hu Hall].
  unfold w_static. rewrite Hu.
  rewrite forallb_forall in Hall. specialize (Hall t Ht). unfold onefield_ok in Hall.
  destruct (inline_w tbl 6 (fst (fst t))) as [l|] eqn:El; [|discriminate].
  rewrite forallb_forall in Hall. specialize (Hall f (dyn_all_fids_complete f)).
  apply w_static_is_interpreter; [exact Hfs| |exact Hr].
  exists l. split; [exact El|]. intros Hn. rewrite Hn in Hall. apply Bool.negb_true_iff in Hall. exact Hall.
Qed.

(* ---- the inlined statements are the entries the table conditions judge ---- *)
Definition flat_of : list wstmt -> option (list wflat) :=
  fix go (l : list wstmt) : option (list wflat) :=
    match l with
    | [] => Some []
    | WProp t w p v g AccOther _ :: _ => None
    | WProp t w p v g _ _ :: r => match go r with Some rs => Some (mkwf t w p v g :: rs) | None => None end
    | WDelegate _ [] _ _ :: r => go r
    | _ :: _ => None
    end.

Section F.
  Variable tbl : list (bytes * bool * list wstmt).

  Definition flat_go_w (d : nat) : list wstmt -> option (list wflat) :=
    fix go (l : list wstmt) : option (list wflat) :=
      match l with
      | [] => Some []
      | WProp t w p v g AccOther _ :: _ => None
      | WProp t w p v g _ _ :: r => match go r with Some rs => Some (mkwf t w p v g :: rs) | None => None end
      | WDelegate _ [] _ _ :: r => go r
      | WDelegate _ fn AccOther _ :: _ => None
      | WDelegate _ fn _ _ :: r =>
          match flatten_w tbl d fn, go r with
          | Some a, Some b => Some (a ++ b)
          | _, _ => None
          end
      | WUnrecognised _ _ :: _ => None
      end.
  Lemma flatten_w_S d name : flatten_w tbl (S d) name =
    match jw_table tbl name with None => None | Some (_, stmts) => flat_go_w d stmts end.
  Proof. reflexivity. Qed.

  Lemma flat_go_plain d l : forallb stmt_plain l = true -> flat_go_w d l = flat_of l.
  Proof.
    induction l as [|s l IH]; intros H; [reflexivity|].
    cbn [forallb] in H. apply andb_true_iff in H. destruct H as [H1 H2].
    destruct s as [t w p v g acc pos|on fn acc pos|src pos]; [| |discriminate].
    - cbn [flat_go_w flat_of]. rewrite (IH H2). reflexivity.
    - destruct fn; [|discriminate]. cbn [flat_go_w flat_of]. apply IH, H2.
  Qed.

  Lemma flat_of_app a b : flat_of (a ++ b) = match flat_of a, flat_of b with Some x, Some y => Some (x ++ y) | _, _ => None end.
  Proof.
    induction a as [|s a IH]; [cbn [app flat_of]; destruct (flat_of b); reflexivity|].
    destruct s as [t w p v g acc pos|on fn acc pos|src pos]; cbn [app flat_of].
    - destruct acc; try reflexivity; rewrite IH; destruct (flat_of a), (flat_of b); reflexivity.
    - destruct fn; [apply IH|reflexivity].
    - reflexivity.
  Qed.

  Theorem inline_flatten d : forall name l, inline_w tbl d name = Some l -> flatten_w tbl d name = flat_of l.
  Proof.
    induction d as [|d IH]; intros name l H; [discriminate|].
    rewrite flatten_w_S.
    destruct (inline_w_cases _ _ _ _ H) as [[on [fn [acc [pos [rest [l' [Ht [Hfn [Hacc [Hl' [Hp ->]]]]]]]]]]]|[Ht Hp]]; rewrite Ht.
    - destruct fn as [|c fn]; [congruence|].
      rewrite flat_of_app, <- (IH _ _ Hl'), <- (flat_go_plain d rest Hp).
      destruct Hacc as [-> | ->]; reflexivity.
    - apply flat_go_plain, Hp.
  Qed.
End F.

(* ================================================================ reader *)
(* [r_static] is the interpreter of Model/JsonDec.v, on every document *)
Theorem r_static_is_interpreter jr rec fname rs : flatten_r jr 6 fname = Some rs ->
  forall val, r_static jr rec fname val = JsonDec.run_table jr rec 6 fname val [].
Proof.
  intros H val. unfold r_static. rewrite H. symmetry. apply run_table_flat, H.
Qed.

(* an entry none of whose read names is a member of the document never sets its field: the member names the probes
   found to set nothing cannot feed any field through a table entry (GetAPSource, whose statements are a table of
   their own, is probed under "source" and excluded here) *)
Lemma cut_byte_no c : forall s a, cut_byte c s = (a, None) -> a = s.
Proof.
  induction s as [|x s IH]; intros a H; cbn [cut_byte] in H; [injection H as <-; reflexivity|].
  destruct (Byte.eqb x c); [discriminate|].
  destruct (cut_byte c s) as [a' o] eqn:E. injection H as <- ->. rewrite (IH a' eq_refl). reflexivity.
Qed.

Section R.
  Variable jr : list (bytes * list rstmt).
  Variable rec : fjv -> option item.

  Lemma value_silent fname val r :
    bytes_eqb fname (B "GetAPSource") = false -> bytes_eqb (rf_getter r) (B "GetAPSource") = false ->
    (forall n, In n (read_names fname r) -> forall ku, fj_get ku val n = None) ->
    get_value jr rec 3 val (rf_getter r) (rf_term r) (rf_conv r) = Some None \/
    get_value jr rec 3 val (rf_getter r) (rf_term r) (rf_conv r) = None.
  Proof.
    destruct r as [fd tm g cv gd]. cbn [rf_getter rf_term rf_conv]. intros Hf Hg Habs.
    unfold read_names in Habs. cbn [rf_getter rf_term] in Habs. rewrite Hf in Habs.
    cbn [get_value].
    destruct (existsb (bytes_eqb g) string_getters).
    { left. unfold sub_get. destruct (cut_byte x2e tm) as [a [b|]]; unfold jget;
        rewrite (Habs a (or_introl eq_refl) false); reflexivity. }
    destruct (bytes_eqb g (B "JSONGetNaturalLanguageField")).
    { left. destruct (cut_byte x2e tm) as [a [b|]] eqn:Ec.
      - unfold jget. rewrite (Habs a (or_introl eq_refl) false). reflexivity.
      - apply cut_byte_no in Ec. subst a. unfold get_nl_field.
        rewrite (Habs tm (or_introl eq_refl) false), (Habs (tm ++ B "Map") (or_intror (or_introl eq_refl))). reflexivity. }
    assert (Hj : jget val tm = None).
    { destruct (cut_byte x2e tm) as [a ob]. apply (Habs tm (or_introl eq_refl) false). }
    destruct (bytes_eqb g (B "JSONGetItem")); [left; unfold jget_item; rewrite Hj; reflexivity|].
    destruct (bytes_eqb g (B "JSONGetURIItem")); [left; unfold jget_uri_item; rewrite Hj; reflexivity|].
    destruct (bytes_eqb g (B "JSONGetItems")); [left; unfold jget_items; rewrite Hj; reflexivity|].
    destruct (bytes_eqb g (B "JSONGetTime")); [left; rewrite Hj; reflexivity|].
    destruct (bytes_eqb g (B "JSONGetDuration")); [left; rewrite Hj; reflexivity|].
    destruct (bytes_eqb g (B "JSONGetInt")); [left; rewrite Hj; reflexivity|].
    destruct (bytes_eqb g (B "JSONGetFloat")); [left; rewrite Hj; reflexivity|].
    destruct (bytes_eqb g (B "JSONGetBoolean")); [left; rewrite Hj; reflexivity|].
    rewrite Hg.
    destruct (bytes_eqb g (B "JSONGetActorEndpoints")); [left; rewrite Hj; reflexivity|].
    destruct (bytes_eqb g (B "JSONGetPublicKey")); [left; rewrite Hj; reflexivity|].
    right. reflexivity.
  Qed.

  Theorem entry_silent fname val r x :
    bytes_eqb fname (B "GetAPSource") = false -> bytes_eqb (rf_getter r) (B "GetAPSource") = false ->
    (forall n, In n (read_names fname r) -> forall ku, fj_get ku val n = None) ->
    entry_value jr rec val r <> Some (Some x).
  Proof.
    intros Hf Hg Habs. unfold entry_value.
    destruct (value_silent fname val r Hf Hg Habs) as [-> | ->]; discriminate.
  Qed.
End R.

(* what the whole table leaves in a field is what the field's own entry leaves in it (so the entry-level cases may
   evaluate the entries of one field alone): Proofs/ShapeP.v apply_reads_spec at the empty struct *)
Theorem r_static_fields jr rec fname rs val fs : flatten_r jr 6 fname = Some rs -> NoDup (map rf_fid rs) ->
  r_static jr rec fname val = Some fs ->
  (forall r, In r rs -> exists ov, entry_value jr rec val r = Some ov /\ getf (rf_fid r) fs = ov) /\
  (forall f, ~ In f (map rf_fid rs) -> getf f fs = None).
Proof.
  intros Hf Hn H. unfold r_static in H. rewrite Hf in H.
  destruct (apply_reads_spec jr rec val rs [] fs Hn H) as [H1 H2]. split; [|exact H2].
  intros r Hr. destruct (H1 r Hr) as [ov [E1 E2]]. exists ov. split; [exact E1|]. rewrite E2. destruct ov; reflexivity.
Qed.
