(* The control structure of the table interpreter of Model/JsonEnc.v, independent of what the writers
   produce: the members written by one table are, in order, written by a subsequence of the table's
   flattened entries (Model/JsonCheck.v [flatten_w]), each by the writer, on the field, that the entry
   names.  Everything about the output of an object is derived from this. *)
From AP.Model Require Import Prelude Bytes Vocab Pred Json JsonLeaf JsonTables Dispatch JsonEnc JsonCheck.
From AP.Proofs Require Import Rfc8259P.

Section Flat.
  Variable T : list (bytes * bool * list wstmt).
  Variable d : nat.
  (* the statement loop of [flatten_w] at depth [S d] *)
  Fixpoint flatten_stmts (l : list wstmt) : option (list wflat) :=
    match l with
    | [] => Some []
    | WProp t w p v g AccOther _ :: _ => None
    | WProp t w p v g _ _ :: r =>
        match flatten_stmts r with Some rs => Some (mkwf t w p v g :: rs) | None => None end
    | WDelegate _ [] _ _ :: r => flatten_stmts r
    | WDelegate _ fn AccOther _ :: _ => None
    | WDelegate _ fn _ _ :: r =>
        match flatten_w T d fn, flatten_stmts r with
        | Some a, Some b => Some (a ++ b)
        | _, _ => None
        end
    | WUnrecognised _ _ :: _ => None
    end.
End Flat.

Lemma flatten_w_S T d name :
  flatten_w T (S d) name = match jw_table T name with None => None | Some (_, stmts) => flatten_stmts T d stmts end.
Proof. reflexivity. Qed.

Lemma flatten_stmts_prop T d t w p v g acc pos r : acc <> AccOther ->
  flatten_stmts T d (WProp t w p v g acc pos :: r) =
  match flatten_stmts T d r with Some rs => Some (mkwf t w p v g :: rs) | None => None end.
Proof. destruct acc; intros H; try reflexivity. contradiction. Qed.

Lemma flatten_stmts_deleg T d on c fn acc pos r : acc <> AccOther ->
  flatten_stmts T d (WDelegate on (c :: fn) acc pos :: r) =
  match flatten_w T d (c :: fn), flatten_stmts T d r with Some a, Some b => Some (a ++ b) | _, _ => None end.
Proof. destruct acc; intros H; try reflexivity. contradiction. Qed.

Lemma jw_table_stmts T name init stmts :
  jw_table T name = Some (init, stmts) -> tables_recognised_w T = true -> forallb wstmt_recognised stmts = true.
Proof.
  unfold jw_table. destruct (find _ T) as [t|] eqn:F; [|discriminate]. intros H Hrec. inversion H; subst.
  apply find_some in F. destruct F as [Hin _]. unfold tables_recognised_w in Hrec.
  rewrite forallb_forall in Hrec. exact (Hrec t Hin).
Qed.

Section Trace.
  Variable T : list (bytes * bool * list wstmt).
  Variable enc : item -> option bytes.

  (* member [m] was written by entry [e] on the fields [fs], by a table at a depth below [dmax] *)
  Definition written_by (dmax : nat) (fs : list (fid * fval)) (m : bytes) (e : wflat) : Prop :=
    exists d0 n b r, (d0 < dmax)%nat /\
      write_value enc (run_table T d0 enc) (wf_writer e) (wf_via e) (wf_term e) (path_get (wf_path e) fs) = Some (n, b, r)
      /\ b <> [] /\ m = member n b.

  Lemma written_by_mono d d' fs m e : (d <= d')%nat -> written_by d fs m e -> written_by d' fs m e.
  Proof. intros Hle [d0 [n [b [r [Hlt H]]]]]. exists d0, n, b, r. split; [lia|exact H]. Qed.

  Lemma Forall2_written_mono d d' fs ms es : (d <= d')%nat ->
    Forall2 (written_by d fs) ms es -> Forall2 (written_by d' fs) ms es.
  Proof. intros Hle H. induction H; constructor; [eapply written_by_mono; eassumption|assumption]. Qed.

  Hypothesis Hrec : tables_recognised_w T = true.

  Lemma enc_stmts_trace d
    (IHd : forall name fs ms ne, run_table T d enc name fs = Some (ms, ne) ->
           exists es es', flatten_w T d name = Some es /\ subseq es' es /\ Forall2 (written_by d fs) ms es') :
    forall stmts fs ms0 ne0 ms ne, forallb wstmt_recognised stmts = true ->
      enc_stmts enc (run_table T d enc) stmts fs (ms0, ne0) = Some (ms, ne) ->
      exists es es' new, flatten_stmts T d stmts = Some es /\ subseq es' es /\ ms = ms0 ++ new /\
                         Forall2 (written_by (S d) fs) new es'.
  Proof.
    induction stmts as [|s rest IH]; intros fs ms0 ne0 ms ne Hr H.
    - simpl in H. inversion H; subst. exists [], [], []. rewrite app_nil_r. repeat split; constructor.
    - cbn [forallb] in Hr. apply andb_true_iff in Hr. destruct Hr as [Hs Hr].
      destruct s as [term writer path via guards acc pos|on fn acc pos|src pos].
      + (* property *)
        assert (acc <> AccOther) as Hacc.
        { unfold wstmt_recognised in Hs. destruct acc; try discriminate. rewrite andb_false_r in Hs. discriminate. }
        rewrite (flatten_stmts_prop T d term writer path via guards acc pos rest Hacc).
        cbn [enc_stmts] in H.
        assert (forall st', enc_stmts enc (run_table T d enc) rest fs st' = Some (ms, ne) -> fst st' = ms0 ->
                exists es es' new,
                  match flatten_stmts T d rest with Some rs => Some (mkwf term writer path via guards :: rs) | None => None end = Some es
                  /\ subseq es' es /\ ms = ms0 ++ new /\ Forall2 (written_by (S d) fs) new es') as Hskip.
        { intros [ms1 ne1] H1 E1. simpl in E1. subst ms1.
          destruct (IH fs ms0 ne1 ms ne Hr H1) as [es [es' [new [F [S1 [E N]]]]]].
          rewrite F. exists (mkwf term writer path via guards :: es), es', new.
          repeat split; auto. apply ss_skip. exact S1. }
        destruct (eval_guards fs [x30] (filter (fun g => match g with GValNonEmpty => false | _ => true end) guards)) as [[|]|];
          [|apply (Hskip (ms0, ne0) H eq_refl)|discriminate].
        destruct (write_value enc (run_table T d enc) writer via term (path_get path fs)) as [[[term' b] r]|] eqn:W; [|discriminate].
        destruct (eval_guards fs b guards) as [[|]|]; [|apply (Hskip (ms0, ne0) H eq_refl)|discriminate].
        destruct (apply_acc acc r ne0) as [ne'|]; [|discriminate].
        destruct b as [|b0 b'].
        * apply (Hskip (ms0, ne') H eq_refl).
        * destruct (IH fs (ms0 ++ [member term' (b0 :: b')]) ne' ms ne Hr H) as [es [es' [new [F [S1 [E N]]]]]].
          rewrite F. exists (mkwf term writer path via guards :: es), (mkwf term writer path via guards :: es'),
                            (member term' (b0 :: b') :: new).
          repeat split.
          -- apply ss_take. exact S1.
          -- rewrite E, <- app_assoc. reflexivity.
          -- constructor; [|exact N]. exists d, term', (b0 :: b'), r. cbn [wf_writer wf_via wf_term wf_path].
             repeat split; [lia|exact W|discriminate].
      + (* delegation *)
        cbn [enc_stmts] in H. destruct fn as [|c fn].
        * cbn [flatten_stmts]. apply (IH fs ms0 ne0 ms ne Hr H).
        * assert (acc <> AccOther) as Hacc by (unfold wstmt_recognised in Hs; destruct acc; try discriminate).
          rewrite (flatten_stmts_deleg T d on c fn acc pos rest Hacc).
          destruct (run_table T d enc (c :: fn) fs) as [[ms' r]|] eqn:R; [|discriminate].
          destruct (apply_acc acc r ne0) as [ne'|]; [|discriminate].
          destruct (IHd _ _ _ _ R) as [es1 [es1' [F1 [S1 N1]]]].
          destruct (IH fs (ms0 ++ ms') ne' ms ne Hr H) as [es [es' [new [F [S2 [E N]]]]]].
          rewrite F1, F. exists (es1 ++ es), (es1' ++ es'), (ms' ++ new).
          repeat split.
          -- apply subseq_app; assumption.
          -- rewrite E, <- app_assoc. reflexivity.
          -- apply Forall2_app; [|exact N]. eapply Forall2_written_mono; [|exact N1]. lia.
      + discriminate.
  Qed.

  Lemma run_table_trace : forall d name fs ms ne,
    run_table T d enc name fs = Some (ms, ne) ->
    exists es es', flatten_w T d name = Some es /\ subseq es' es /\ Forall2 (written_by d fs) ms es'.
  Proof.
    induction d as [|d IHd]; intros name fs ms ne H; [discriminate|].
    cbn [run_table] in H. rewrite flatten_w_S.
    destruct (jw_table T name) as [[init stmts]|] eqn:J; [|discriminate].
    destruct (enc_stmts_trace d IHd stmts fs [] init ms ne (jw_table_stmts T name init stmts J Hrec) H)
      as [es [es' [new [F [S1 [E N]]]]]].
    simpl in E. subst new. exists es, es'. repeat split; assumption.
  Qed.
End Trace.
