(* The assembly theorems of C02 and the byte-level theorem of C11 instantiated with the write tables
   regenerated from the source on this run (Gen/JsonW.v): the table conditions are evaluated by
   vm_compute here, so a source change that breaks one shows up as a broken obligation. *)
From AP.Model Require Import Prelude Bytes Vocab Pred Layout Json JsonLeaf JsonTables Dispatch JsonEnc JsonCheck JsonGrammarCheck JsonCodec.
From AP.Model Require Clean CleanGen.
From AP.Spec Require Import Rfc8259.
From AP.Proofs Require Import Rfc8259P JsonLeafGP JsonEncTraceP JsonEncGP CleanBytesP.
From AP.Proofs Require CleanP CleanGenP FjReadsGP.
From AP.Model Require Text.
From AP.Gen Require Import JsonW.
Import Clean CleanGen.

Lemma gen_grammar_tables : grammar_tables_ok jw_tables = true /\ grammar_tables_bad jw_tables = [].
Proof. split; vm_compute; reflexivity. Qed.

Lemma gen_private_tables : private_tables_ok jw_tables = true.
Proof. vm_compute. reflexivity. Qed.

Lemma idom_intro x : nums_in_range x = true -> idom x.
Proof. intros H. exact H. Qed.

(* ---------------------------------------------------------------- C02 *)
Lemma grammar_generic T : grammar_tables_ok T = true -> forall x b,
  nums_in_range x = true -> marshal_json T x = Some b ->
  b = [] \/ exists v, Jvalue b v /\ jv_names_unique v = true.
Proof. intros HT x b H1 H. exact (marshal_json_good T HT x b (idom_intro x H1) H). Qed.

Lemma grammar_enc x b :
  nums_in_range x = true -> enc x = Some b ->
  b = [] \/ exists v, Jtext b v /\ Jvalue b v /\ jv_names_unique v = true.
Proof.
  intros H1 H. destruct (grammar_generic jw_tables (proj1 gen_grammar_tables) x b H1 H) as [->|[v [Hv Hu]]].
  - left. reflexivity.
  - right. exists v. split; [apply Jvalue_text; exact Hv|split; assumption].
Qed.

(* everything the encoder writes, the model of the library's parser (fastjson) reads - up to fastjson's
   nesting limit of 300, which the encoder does not have *)
Lemma written_is_read x b :
  nums_in_range x = true -> enc x = Some b ->
  b = [] \/ exists v, Jtext b v /\ jv_names_unique v = true /\
                      ((jv_depth v < 300)%nat -> exists f, Text.fj_parse b = Ok f).
Proof.
  intros H1 H. destruct (grammar_enc x b H1 H) as [->|[v [Ht [_ Hu]]]]; [left; reflexivity|].
  right. exists v. split; [exact Ht|]. split; [exact Hu|]. intros Hd. exact (FjReadsGP.fj_reads_grammar b v Ht Hd).
Qed.

(* every nested call of the encoder, at whatever depth and fuel *)
Lemma grammar_nested fuel x b :
  nums_in_range x = true -> enc_item jw_tables fuel x = Some b ->
  b = [] \/ exists v, Jvalue b v /\ jv_names_unique v = true.
Proof. intros H1 H. exact (enc_item_good jw_tables (proj1 gen_grammar_tables) fuel x b (idom_intro x H1) H). Qed.

(* a struct is written as an object (or not at all) *)
Lemma grammar_struct p k fs b :
  nums_in_range (IObj p k fs) = true -> enc (IObj p k fs) = Some b ->
  b = [] \/ exists ms, Jvalue b (VObj ms) /\ jv_names_unique (VObj ms) = true.
Proof.
  intros H1 H.
  destruct (enc_obj_full jw_tables (proj1 gen_grammar_tables) _ p k fs b (idom_intro _ H1) H)
    as [->|[f [kvs [es [es' [_ [Hj [Hu _]]]]]]]]; [left; reflexivity|].
  right. exists kvs. split; assumption.
Qed.

(* injection freedom: the member names of the object written for a struct are, in order, names of a
   subsequence of the entries of its type's write table (term, or term ++ "Map" for text) - which members
   exist depends on which fields are set, never on the contents of a string *)
Lemma struct_members_from_table p k fs b :
  nums_in_range (IObj p k fs) = true -> enc (IObj p k fs) = Some b ->
  b = [] \/ exists ms es es', Jvalue b (VObj ms) /\ entries_of jw_tables k = Some es /\ subseq es' es /\
                              Forall2 (fun n e => In n (names_of e)) (map fst ms) es'.
Proof.
  intros H1 H.
  destruct (enc_obj_full jw_tables (proj1 gen_grammar_tables) _ p k fs b (idom_intro _ H1) H)
    as [->|[f [kvs [es [es' [_ [Hj [_ [F [S1 [Nm _]]]]]]]]]]]; [left; reflexivity|].
  right. exists kvs, es, es'. repeat split; assumption.
Qed.

(* terms, kinds and string contents at the level of the denoted value: every member of the object written
   for a struct comes from one entry of the type's write table, carries one of that entry's names, and
   denotes what [denotes] prescribes for the entry's writer applied to the entry's field *)
Lemma Forall2_names_prov {A B} (R1 : bytes -> B -> Prop) (R2 : (bytes * A) -> B -> Prop) kvs es :
  Forall2 R1 (map fst kvs) es -> Forall2 R2 kvs es -> Forall2 (fun kv e => R1 (fst kv) e /\ R2 kv e) kvs es.
Proof.
  intros H1 H2. revert H1. induction H2 as [|kv e kvs es Hkv Hr IH]; intros H1; [constructor|].
  cbn [map] in H1. inversion H1; subst. constructor; [split; assumption|apply IH; assumption].
Qed.

Lemma struct_members_denote p k fs b :
  nums_in_range (IObj p k fs) = true -> enc (IObj p k fs) = Some b ->
  b = [] \/ exists ms es es', Jvalue b (VObj ms) /\ jv_names_unique (VObj ms) = true /\
    entries_of jw_tables k = Some es /\ subseq es' es /\
    Forall2 (fun kv e => In (fst kv) (names_of e) /\
                         denotes (wf_writer e) (wf_via e) (path_get (wf_path e) fs) (snd kv)) ms es'.
Proof.
  intros H1 H.
  destruct (enc_obj_full jw_tables (proj1 gen_grammar_tables) _ p k fs b (idom_intro _ H1) H)
    as [->|[f [kvs [es [es' [_ [Hj [Hu [F [S1 [Nm Pv]]]]]]]]]]]; [left; reflexivity|].
  right. exists kvs, es, es'. repeat split; try assumption.
  pose proof (Forall2_names_prov _ _ kvs es' Nm Pv) as K.
  clear - K. induction K as [|kv e kvs es' [Hn [_ Hd]] Hr IH]; constructor; [split; assumption|exact IH].
Qed.

(* strings written by escapeQuote (ids, IRIs, types, ...): what a reader gets back *)
Lemma quoted_decodes s : Jstring (w_quoted_always s) (unbsq s).
Proof. apply w_quoted_always_string. Qed.

Lemma quoted_exact s : kf_backslash_quote s = false -> utf8_ok s = true -> Jstring (w_quoted_always s) s.
Proof.
  intros H1 H2. pose proof (w_quoted_always_string s) as K. rewrite (unbsq_plain s H1), (sanitize_ok s H2) in K. exact K.
Qed.

(* natural-language text and key material: stringBytes *)
Lemma text_exact html s : utf8_ok s = true -> Jstring (string_bytes html s) s.
Proof. intros H. pose proof (string_bytes_string html s) as K. rewrite (sanitize_ok s H) in K. exact K. Qed.

(* the open finding C02/backslash-quote: the output is grammatical, the string does not read back *)
Lemma backslash_quote_witness :
  exists s t, kf_backslash_quote s = true /\ Jstring (w_quoted_always s) t /\ t <> s.
Proof.
  exists (B "a\""b"), (B "a""b"). split; [vm_compute; reflexivity|]. split; [|discriminate].
  exact (w_quoted_always_string (B "a\""b")).
Qed.

(* the defect "duplicate language tag" of the pinned tree, fixed by 05721dc and its follow-up *)
Definition dup_lang_value : item :=
  IObj true KObject [(F_Type, FStr (B "Note")); (F_Name, FNlv (Some [(B "en", B "a"); (B "en", B "b")]))].

Lemma dup_language_tag_pinned_witness :
  kf_dup_language_tag dup_lang_value = true /\
  exists l, kf_dup_lang l = true /\ w_nlv_pinned l = B "{""en"":""a"",""en"":""b""}" /\
            Jvalue (w_nlv_pinned l) (lang_tree_pinned l) /\ jv_names_unique (lang_tree_pinned l) = false /\
            (* the writer as it is now: the first value of the tag, the one Get returns *)
            w_nlv l = B "{""en"":""a""}" /\
            enc dup_lang_value = Some (B "{""type"":""Note"",""nameMap"":{""en"":""a""}}").
Proof.
  split; [vm_compute; reflexivity|].
  exists [(B "en", B "a"); (B "en", B "b")]. split; [vm_compute; reflexivity|]. split; [vm_compute; reflexivity|].
  split; [|split; [vm_compute; reflexivity|split; vm_compute; reflexivity]].
  destruct (w_nlv_pinned_value [(B "en", B "a"); (B "en", B "b")]) as [K|[[r [t [K _]]]|K]].
  - vm_compute in K. discriminate K.
  - discriminate K.
  - exact K.
Qed.

(* fix 05721dc alone compared the tags as written: a malformed byte and the character U+FFFD still gave two
   members that read back under one name *)
Lemma dup_language_tag_written_key_witness :
  exists l, Jvalue (w_nlv_written_key l) (lang_tree_written_key l) /\ jv_names_unique (lang_tree_written_key l) = false /\
            Jvalue (w_nlv l) (lang_tree l) /\ jv_names_unique (lang_tree l) = true.
Proof.
  exists [([xff], B "a"); ([xef; xbf; xbd], B "b")].
  split; [|split; [vm_compute; reflexivity|split; [|apply lang_tree_unique]]].
  - destruct (w_nlv_written_key_value [([xff], B "a"); ([xef; xbf; xbd], B "b")]) as [K|[[r [t [K _]]]|K]];
      [vm_compute in K; discriminate K|discriminate K|exact K].
  - destruct (w_nlv_value [([xff], B "a"); ([xef; xbf; xbd], B "b")]) as [K|[[r [t [K _]]]|K]];
      [vm_compute in K; discriminate K|discriminate K|exact K].
Qed.

(* for every list of language values, whatever its tags: the map that is written repeats no name *)
Lemma language_map_unique l :
  w_nlv l = [] \/ exists v, Jvalue (w_nlv l) v /\ jv_names_unique v = true.
Proof.
  destruct (w_nlv_value l) as [K|[[r [t [_ [_ K]]]]|K]]; [left; exact K| |].
  - right. exists (VStr (sanitize t)). split; [exact K|reflexivity].
  - right. exists (lang_tree l). split; [exact K|apply lang_tree_unique].
Qed.

(* non-vacuity: hostile strings in id (injection attempt with a backslash-quote inside), a language map,
   a nested object, numbers, a list of IRIs *)
Definition grammar_example_value : item :=
  IObj true KPlace
    [(F_ID, FStr (B "http://x/"",""type"":""Delete\""y"));
     (F_Type, FStr (B "Place"));
     (F_Name, FNlv (Some [(B "en", B "caf"); (B "fr", B "line"); (B "-", B "x"); (B "en", B "again")]));
     (F_AttributedTo, FItem (IObj true KActor [(F_ID, FStr (B "https://example.com/a")); (F_PreferredUsername, FNlv (Some [(B "-", B "al""ice")]))]));
     (F_To, FItems (Some [IIri false (B "https://example.com/b"); IIri false (B "https://example.com/c")]));
     (F_Latitude, FFloat 48858222); (F_Radius, FInt (-3)); (F_Units, FStr (B "m"))].

Lemma grammar_example :
  nums_in_range grammar_example_value = true /\
  (exists s, getf F_ID (match grammar_example_value with IObj _ _ fs => fs | _ => [] end) = Some (FStr s) /\ kf_backslash_quote s = true) /\
  exists b, enc grammar_example_value = Some b /\ b <> [] /\
            exists v, Jtext b v /\ jv_names_unique v = true.
Proof.
  split; [vm_compute; reflexivity|].
  split; [eexists; split; [reflexivity|vm_compute; reflexivity]|].
  destruct (enc grammar_example_value) as [b|] eqn:E; [|vm_compute in E; discriminate E].
  exists b. split; [reflexivity|].
  assert (b <> []) as Hne by (intros ->; vm_compute in E; discriminate E).
  split; [exact Hne|].
  destruct (grammar_enc grammar_example_value b ltac:(vm_compute; reflexivity) E) as [->|[v [Ht [_ Hu]]]];
    [contradiction|].
  exists v. split; assumption.
Qed.

(* ---------------------------------------------------------------- C11 *)
Definition no_private_members (b : bytes) : Prop :=
  b = [] \/ exists ms, Jvalue b (VObj ms) /\ jv_names_unique (VObj ms) = true /\
                       ~ In (B "bto") (map fst ms) /\ ~ In (B "bcc") (map fst ms).

Lemma clean_bytes_generic T : grammar_tables_ok T = true -> private_tables_ok T = true ->
  forall x z, nums_in_range x = true -> on_walk (strip x) z ->
  forall k fs, z = IObj true k fs -> is_link_kind k = false ->
  forall fuel b, enc_item T fuel z = Some b -> no_private_members b.
Proof.
  intros HT HP x z H1 Hw k fs Hz L fuel b H.
  exact (clean_bytes_walk T HT HP x z (idom_strip x (idom_intro x H1)) Hw k fs Hz L fuel b H).
Qed.

(* with the generated write tables and the generated Clean walks *)
Lemma clean_bytes_m x a z :
  clean_m x = Ok a -> nums_in_range x = true -> on_walk a z ->
  forall k fs, z = IObj true k fs -> is_link_kind k = false ->
  forall fuel b, enc_item jw_tables fuel z = Some b -> no_private_members b.
Proof.
  rewrite CleanGenP.gen_refines. intros E. inversion E; subst a. intros H1 Hw.
  exact (clean_bytes_generic jw_tables (proj1 gen_grammar_tables) gen_private_tables x z H1 Hw).
Qed.

(* the value itself *)
Lemma clean_bytes_top k fs a b :
  clean_m (IObj true k fs) = Ok a -> is_link_kind k = false ->
  nums_in_range (IObj true k fs) = true ->
  enc a = Some b -> no_private_members b.
Proof.
  intros E L H1 H. pose proof E as E'. rewrite CleanGenP.gen_refines in E'. inversion E'; subst a.
  rewrite (CleanP.strip_obj_ptr k fs L) in *.
  eapply (clean_bytes_m (IObj true k fs) _ _ E H1 (ow_here _) k _ eq_refl L). exact H.
Qed.

(* non-vacuity: the deep example of Props/C11.v; what is written after Clean *)
Lemma clean_bytes_example :
  nums_in_range c11_deep = true /\
  exists a b, clean_m c11_deep = Ok a /\ enc a = Some b /\ no_private_members b /\ b <> [] /\
    (* before Clean the same position shows bto *)
    exists b0, enc c11_deep = Some b0 /\ bytes_contains (B """bto"":") b0 = true /\
    (* after Clean: bto remains only where the property does not reach (inReplyTo, the icon embedded by value) *)
    exists z, on_walk a z /\ z <> a /\ match z with IObj true KActivity _ => True | _ => False end.
Proof.
  split; [vm_compute; reflexivity|].
  destruct (clean_m c11_deep) as [a| | |] eqn:E; try (vm_compute in E; discriminate E).
  destruct (enc a) as [b|] eqn:Eb.
  2:{ rewrite CleanGenP.gen_refines in E. inversion E; subst a. vm_compute in Eb. discriminate Eb. }
  exists a, b. split; [reflexivity|]. split; [exact Eb|]. split.
  - exact (clean_bytes_top KObject _ a b E eq_refl ltac:(vm_compute; reflexivity) Eb).
  - split.
    + intros ->. rewrite CleanGenP.gen_refines in E. inversion E; subst a. vm_compute in Eb. discriminate Eb.
    + eexists. split; [vm_compute; reflexivity|]. split; [vm_compute; reflexivity|].
      rewrite CleanGenP.gen_refines in E. inversion E; subst a.
      eexists. split.
      * (* tag list -> second entry -> attachment -> the Like activity *)
        vm_compute.
        eapply (ow_field_list _ _ F_Tag); [reflexivity|reflexivity|right; right; right; right; left; reflexivity|right; left; reflexivity|].
        eapply (ow_field _ _ F_Attachment); [reflexivity|reflexivity|right; left; reflexivity|]. apply ow_here.
      * split; [discriminate|exact I].
Qed.
